#!/usr/bin/env python3
"""Writes /verif/seeded/<id>/meta.json for every confirmed sub-agent change. One row per change:
(id, property, demo package dir, what it breaks, what it needs to manifest, caught_by (rule list, property), initially_missed, strengthening)."""
import json, os
ROWS = [
 ("C04-1","C04","common/reedsolomon","Chien search rewritten over exponents tries only size-2 of the size-1 non-zero elements","a full-length codeword (k+r = |F|-1) with >= 2 errors one of which is at index 0",["C04:S-CHIEN"],True,"added rule S-CHIEN (coverage of the root search, root-count check, correction position)"),
 ("C04-2","C04","common/reedsolomon","generator cache extended with roots stepped from alpha^base instead of alpha^(size-1+base)","one ReedSolomonEncoder instance used first with a small, then with a larger parity count",["C04:S-RSROOTS"],False,""),
 ("C05-1","C05","qrcode","second format-information copy read with one extra module (jMin = dimension-8)","both format copies damaged at once within the 3-bit bound, for particular (level, mask) pairs",["C05:T-INFOREAD","C07:T-INFOREAD","C01:T-INFOREAD"],True,"added rule T-INFOREAD (loops of ReadFormatInformation / ReadVersion unrolled; coordinates compared with the placement)"),
 ("C05-2","C05","qrcode/encoder","decoder function-pattern mask places the bottom-left version block one row too high","version >= 7 and exactly floor(ec/2) damaged codewords in the block owning the misread modules",["C07:T-FUNCPAT","C05:T-FUNCPAT","C01:T-FUNCPAT"],True,"T-FUNCPAT (already in C07) is now also part of C05"),
 ("C06-1","C06","oned","Codabar matcher guard end >= counterLength weakened to end > counterLength","a row whose last bar is the very last pixel (plain BitArray or custom binarizer)",["C06:M-IDXPAIR"],True,"added rule M-IDXPAIR (matcher guard folded; cursor advance and post-loop reads)"),
 ("C06-2","C06","datamatrix","Data Matrix version table 104x104 row ECB{6,136} -> ECB{6,163}; the dropped readCodewords error then yields a nil slice","any 104x104 module matrix",["C08:T-DMVER","C08:S-DMTABLE","C06:T-DMVER"],True,"the Data Matrix table rules now also run under C06 (its frozen E-DROP rows rest on them)"),
 ("C07-1","C07","qrcode/encoder","calculateBCHCode division loop fixed at 5 steps (format) - wrong for the 6-bit version information","QR versions 32..40",["C07:T-BCHENC","C01:T-BCHENC"],True,"added rule T-BCHENC (calculateBCHCode folded with bounded unrolling for versions 7..40 and formats 0..31)"),
 ("C07-2","C07","qrcode/encoder","version 37 rows M and Q exchanged in VERSIONS","(37, M) or (37, Q) only; round trips do not expose it",["C07:T-QRVER","C01:T-QRVER","C05:T-QRVER"],False,""),
 ("C08-1","C08","datamatrix/encoder","per-block ECC input replaced by one scratch buffer that keeps a stale byte for shorter blocks","the 144x144 symbol only (blocks of unequal length)",["C08:S-DMBLOCK"],True,"added rule S-DMBLOCK (fresh per-block buffer, interleave header, check-word placement)"),
 ("C08-2","C08","datamatrix/encoder","randomize253State bound 254 -> 255","pad codeword at positions 118, 371, 624, ... (particular message lengths)",["C08:S-RAND"],False,""),
 ("C09-1","C09","qrcode/decoder","mirrored retry no longer transposes the matrix; codewords read through the mirror-aware copyBit but unmasked unmirrored","a mirrored QR symbol whose mask is 1, 2 or 4",["C09:M-MIRROR"],False,""),
 ("C09-2","C09","oned","UPC-A re-labelling guards the metadata copy with the new result's (always nil) metadata","an upside-down or sideways UPC-A read through NewUPCAReader: ORIENTATION lost",["C09:M-RESULT"],True,"derived Result sites must copy the source's metadata under at most a nil test of the source"),
 ("C10-1","C10","oned","UPC-E number-system-1 parity row: entries for check digits 7 and 8 swapped","UPC-E number system 1 with check digit 7 or 8",["C10:T-UPCEAN"],False,""),
 ("C10-2","C10","oned","Code 93 reader checksum uses a helper alphabet with '/' and '+' exchanged","Code 93 symbols containing '/' or '+'",["C10:S-C93W (reported undecided: the transition no longer folds)"],False,""),
 ("C11-1","C11","aztec","codeword-size ladder replaced by a table one entry short: 22 layers -> 12 bits","a full-range symbol with exactly 22 layers",["C11:S-FIELD (reported undecided: ladder shape no longer recognised)"],False,""),
 ("C11-2","C11","aztec","compact mode message data-codeword mask 0x3F -> 0x1F","a compact symbol with 33..64 data codewords",["C11:T-AZTECMODE"],True,"added rule T-AZTECMODE (mode message split folded over all 8-/16-bit messages)"),
 ("C12-1","C12","qrcode","getAlphanumericCode table guard < weakened to <=","QR content with a backtick (0x60) before any other non-alphanumeric byte: index out of range [96]",["C12:E-TABLEIDX","C01:S-ALNUM (fold fails)"],True,"added rule E-TABLEIDX (interval analysis of indices into package-level literal tables); it also exposed a genuine Code 128 defect, fixed in 0c8bb80"),
 ("C12-2","C12","datamatrix","Data Matrix size test || turned into &&","exactly one requested dimension below the symbol size (e.g. 100x0 panics, 100x5 truncates)",["C14:R-SIZE"],False,"C12 itself does not decide the size clause (see its note); C14 does"),
 ("C13-1","C13","qrcode/encoder","provisional version guess uses version 40's count width","content exactly at the capacity of version 9 or 26",["C13:M-FIRSTFIT-QR"],False,""),
 ("C13-2","C13","datamatrix/encoder","max-size filter compares the symbol height with the hint's width","a MAX_SIZE hint wider than high",["C13:M-FIRSTFIT-DM"],False,""),
 ("C14-1","C14","qrcode","SetRegion rewritten word-wise, one interior word short","module blocks >= 32 px wide spanning three storage words (scale >= 34)",["C16:S-WHOLE","C14:S-WHOLE","C16:S-BITOPS (undecided)"],True,"added rule S-WHOLE (whole-operation folding with bounded unrolling), run under C16 and C14"),
 ("C14-2","C14","oned","MARGIN hint stored into the writer's defaultMargin","two Encode calls on one 1-D writer: hinted margin, then no hint",["C14:W-WRITER"],True,"added rule W-WRITER (no store into an existing writer object on encode paths)"),
 ("C15-1","C15","qrcode","Kanji range split < 0x1F00 turned into <=","Shift_JIS Kanji mode content containing code 0xE040",["C01:S-SEG","C15:S-SEG"],True,"the segment transition rule S-SEG (built for C01) now also runs under C15"),
 ("C15-2","C15","qrcode","ASCII ECI row 170 mistyped as 17 (overwrites ISO-8859-15)","CHARACTER_SET=ISO-8859-15 with a non-ASCII character, or a symbol carrying ECI 17/170",["C15:T-ECI"],False,""),
 ("C16-1","C16",".","SetRange early return for the empty range removed","exactly SetRange(0, 0)",["C16:S-WHOLE (reported undecided: negative shift count)"],True,"added rule S-WHOLE"),
 ("C16-2","C16",".","Rotate180 middle-row swap bound rowSize/2 -> (rowSize-1)/2","odd height and an even number of words per row (widths 33..64, 97..128)",["C16:S-WHOLE"],True,"added rule S-WHOLE"),
 ("C17-1","C17",".","Gray images copied row-wise with y*width instead of y*Stride","a SubImage of a wider *image.Gray (Stride != width)",["C17:T-LUMA (reported undecided: the branch no longer folds)"],False,""),
 ("C17-2","C17",".","block count computed as (n + 6) >> 3","width or height = 1 mod 8 (41, 49, ...) with black pixels in the last column/row",["C17:M-HYBGUARD"],False,""),
 ("C18-1","C18","qrcode","Reed-Solomon generator cache moved onto the shared GenericGF object","two goroutines encoding QR symbols needing a not yet cached EC block size (needs -race to fail reliably)",["C18:W-STORE"],False,""),
 ("C18-2","C18","oned","one package-level UPC/EAN extension decoder shared by all readers","two goroutines decoding symbols with an EAN-2/EAN-5 add-on",["C18:W-STORE"],False,""),
 ("C19-1","C19","common","second-pass bottom-edge nudge pulls to width-1 instead of height-1","non-square image and a row ending with y in [h, h+1)",["C19:S-NUDGE"],False,""),
 ("C19-2","C19","common","affine shortcut taken when dx3 == 0 || dy3 == 0","a keystone trapezoid with exactly one of the two sums zero",["C19:T-PERSP"],False,""),
 ("C20-1","C20","oned","per-run early-out > turned into >=","a run deviating by exactly the allowed variance (e.g. limit 0.5, even module width)",["C20:M-INF"],False,""),
 ("C20-2","C20","oned","RecordPatternInReverse row-ended check >= 0 turned into > 0","the recorded runs start exactly at pixel 0 with an edge run >= 2 px",["C20:M-RECORD"],False,""),
 ("C01-1","C01","qrcode/encoder","recommendVersion returns the provisional version without the second pass when it is <= 10","no version hint and a payload in the 9|10 boundary window (e.g. byte mode 272 chars at L): 'data bits cannot fit'",["C13:M-FIRSTFIT-QR","C01:M-FIRSTFIT-QR"],True,"M-FIRSTFIT-QR now classifies every return of recommendVersion (an early return of the provisional version is allowed only inside versions 1..9); the rule also runs under C01"),
 ("C01-2","C01","qrcode","Kanji range split < 0x1F00 turned into <= (same mechanism as C15-1, written independently)","Kanji-mode content containing code 0xE040",["C01:S-SEG","C15:S-SEG"],False,""),
 ("C01-3","C01","qrcode","pure-barcode extraction compares the recomputed right edge with the image height","PURE_BARCODE read of a landscape rendering whose bottom-right module is white",["C01:S-AXIS"],True,"added rule S-AXIS (x with width, y with height in extractPureBits / moduleSize; also for Data Matrix under C02)"),
 ("C02-1","C02","datamatrix","x12HandleEOD decides the unlatch from the buffered count instead of the remaining characters","an X12 run ended by the look-ahead at a triplet boundary exactly when the provisional symbol is full",["C02:S-DMEOD"],True,"added rule S-DMEOD (x12HandleEOD folded over message/cursor/buffer/space states against the parser's implicit-unlatch condition)"),
 ("C02-2","C02","datamatrix","generator polynomial row for 62 check codewords: 189 -> 198","1051..1304 data codewords (132x132) and 144x144",["C02:T-DMGEN","C08:T-DMGEN"],False,""),
 ("C02-3","C02","datamatrix","macro 06 written without the trailer test","text starting with the 06 header but not ending with the trailer",["C02:S-DMMACRO"],True,"added rule S-DMMACRO"),
 ("C03-1","C03","oned","code128ChooseCode lets a backtick stay in code set A","a control character followed by a backtick",["C03:S-C128SET"],True,"added rule S-C128SET (code128ChooseCode folded for every previous set / first character / continuation)"),
 ("C03-2","C03","oned","Code 39 writer escapes only the part after the first non-native character","content needing extended mode with one of $ / + % before the first non-native character",["C03:S-1DEXT"],True,"added rule S-1DEXT (escape / unescape inverse pairs for Code 39 and Code 93, whole-contents conversion)"),
 ("C03-3","C03","oned","ITF default allowed lengths extended to the stale list of the header comment","ITF content of length 22 or 26..42",["C03:T-ITFLEN"],True,"added rule T-ITFLEN"),
]
for (sid, prop, pkg, breaks, needs, caught, missed, strengthened) in ROWS:
    d = "/verif/seeded/" + sid
    if not os.path.isdir(d):
        continue
    demo = [f for f in os.listdir(d) if f.endswith("_test.go")]
    meta = {"id": sid, "property": prop, "source": "independent sub-agent given only the property text and a scratch worktree",
            "breaks": breaks, "needs_to_manifest": needs,
            "demonstration": {"file": demo[0] if demo else None, "place_in_package_dir": pkg, "run": "go test -vet=off -count=1 -run 'Seed|Demo' ./" + pkg},
            "confirmed": ["patch applies to the pinned tree (+ fix commits)", "go build ./... ok", "go test -vet=off -count=1 ./... passes with the change", "demonstration fails with the change", "demonstration passes without it"],
            "ran": "tools/seedconfirm.sh (scratch worktree under /tmp, removed afterwards); tools/seedrun.sh (git -C /repo apply; gzcheck; git -C /repo checkout -- .)",
            "caught_by": caught, "initially_missed": missed, "strengthening": strengthened}
    json.dump(meta, open(d + "/meta.json", "w"), indent=1)
print("meta written for", sum(1 for r in ROWS if os.path.isdir("/verif/seeded/" + r[0])))
