#!/bin/bash
# run selftests for the given props, summarise
for p in "$@"; do
  ${GZ:-/verif/bin/gzcheck} -prop $p -selftest >/tmp/st-$p.log 2>&1
  python3 - $p <<'PY'
import json,sys
p=sys.argv[1]
d=json.load(open('/verif/evidence/%s.json'%p))
s=d['coverage'].get('selftest',{})
bad=[r for r in s.get('results',[]) if r['status']!='fired']
print(p, 'entries',s.get('entries'),'fired',s.get('fired'),'missed',s.get('missed'),'invalid',s.get('invalid'),'skipped',s.get('skipped_context_missing'), bad[:6])
PY
done
