#!/bin/bash
# seedrun.sh <seed-dir-name> <prop>... : apply a stored seeded change to /repo, run the given properties' quick checks, undo.
set -u
export GOFLAGS=-mod=mod GOPROXY=off GOSUMDB=off GOTOOLCHAIN=local
S=/verif/seeded/$1; shift
if [ -n "$(git -C /repo status --porcelain)" ]; then echo "/repo not clean"; exit 2; fi
git -C /repo apply $S/patch.diff || exit 3
for P in "$@"; do
  ${GZ:-/verif/bin/gzcheck} -prop $P -no-evidence 2>&1 | grep -v '^VIOLATION' | tail -${TAILN:-4} | cut -c1-400
done
git -C /repo checkout -- .
