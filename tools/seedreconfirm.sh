#!/bin/bash
# seedreconfirm.sh <seed-id> [pkgdir] : re-confirm a stored seeded change against /repo's HEAD in a scratch worktree
# (patch applies, builds, existing suite passes with it, demonstration fails with it and passes without it).
set -u
export GOFLAGS=-mod=mod GOPROXY=off GOSUMDB=off GOTOOLCHAIN=local
ID=$1
SRC=/verif/seeded/$ID
DIR=${2:-$(jq -r '.demonstration.place_in_package_dir' $SRC/meta.json)}
WT=/tmp/reconfirm-$ID
git -C /repo worktree add --detach $WT HEAD >/dev/null 2>&1 || { echo "$ID worktree failed"; exit 2; }
cleanup() { git -C /repo worktree remove --force $WT >/dev/null 2>&1; }
trap cleanup EXIT
cd $WT
DEMO=$(ls $SRC/*_test.go | head -1)
git apply --check $SRC/patch.diff 2>/dev/null || { echo "$ID PATCH DOES NOT APPLY"; exit 3; }
git apply $SRC/patch.diff
go build ./... 2>/dev/null || { echo "$ID DOES NOT BUILD"; exit 4; }
SUITE=$(go test -vet=off -count=1 ./... 2>&1 | grep -v "^ok\|no test files" | head -3)
[ -n "$SUITE" ] && { echo "$ID SUITE FAILS WITH CHANGE: $SUITE"; exit 5; }
cp $DEMO $DIR/zz_seed_demo_test.go
R=""; case $ID in C18-*) R="-race";; esac
WITH=$(go test $R -vet=off -count=1 -run 'Seed|seed|Demo|demo' ./$DIR 2>&1 | tail -1)
git checkout -- .
WITHOUT=$(go test $R -vet=off -count=1 -run 'Seed|seed|Demo|demo' ./$DIR 2>&1 | tail -1)
if echo "$WITH" | grep -q "^ok"; then echo "$ID DEMO DOES NOT FAIL WITH CHANGE"; exit 6; fi
if ! echo "$WITHOUT" | grep -q "^ok"; then echo "$ID DEMO DOES NOT PASS WITHOUT CHANGE: $WITHOUT"; exit 7; fi
echo "$ID reconfirmed"
