#!/bin/bash
# seedall.sh [jobs]: run every stored seeded change against the check(s) recorded as catching it, each on its own scratch
# copy of /repo's HEAD (so /repo itself is not touched), and report the ones that are no longer caught.
export GOFLAGS=-mod=mod GOPROXY=off GOSUMDB=off GOTOOLCHAIN=local
J=${1:-8}
OUT=/tmp/seedall-out; rm -rf $OUT; mkdir -p $OUT
one() {
  id=$1
  D=/tmp/seedall-$id
  rm -rf $D; mkdir -p $D; (cd /repo && git archive HEAD | tar -x -C $D)
  if ! (cd $D && patch -p1 -s < /verif/seeded/$id/patch.diff) >/dev/null 2>&1; then echo "$id PATCH-FAILS" > $OUT/$id; rm -rf $D; return; fi
  props=$(jq -r '.caught_by[]' /verif/seeded/$id/meta.json | sed 's/:.*//' | sort -u)
  res=""
  for p in $props; do
    /verif/bin/gzcheck -repo $D -prop $p -no-evidence > $OUT/$id.$p.log 2>&1
    if [ $? -ne 0 ]; then res="$res $p:caught"; else res="$res $p:MISSED"; fi
  done
  echo "$id$res" > $OUT/$id
  rm -rf $D
}
export -f one; export OUT
ls /verif/seeded | xargs -P $J -I{} bash -c 'one {}'
cat $OUT/C??-? $OUT/C??-?? 2>/dev/null | sort > /tmp/seedall-summary.txt
grep -c . /tmp/seedall-summary.txt
grep "MISSED\|PATCH-FAILS" /tmp/seedall-summary.txt
