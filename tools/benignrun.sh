#!/bin/bash
# benignrun.sh <prop> <k> [props...]: apply a sub-agent's behaviour-preserving refactoring (/tmp/seedout-<prop>/<k>/patch.diff)
# to a scratch copy of /repo's HEAD, make sure it builds and the suite passes, then run the quick checks of the given
# properties (default: all 20) and print every alarm - each one is a false alarm unless the refactoring is not benign.
# Development aid, not part of a registered command.
export GOFLAGS=-mod=mod GOPROXY=off GOSUMDB=off GOTOOLCHAIN=local
P=$1; K=$2; shift 2
PROPS=${@:-C01 C02 C03 C04 C05 C06 C07 C08 C09 C10 C11 C12 C13 C14 C15 C16 C17 C18 C19 C20}
SRC=${BENIGN_SRC:-/tmp/seedout-$P/$K}
D=/tmp/benignrun-$P-$K${TAG:+-$TAG}; rm -rf $D; mkdir -p $D; (cd /repo && git archive HEAD | tar -x -C $D)
if ! (cd $D && patch -p1 -s < $SRC/patch.diff) >/dev/null 2>&1; then echo "$P/$K: PATCH FAILS"; rm -rf $D; exit 1; fi
find $D -name "*.orig" -delete
if ! (cd $D && go build ./... 2>/dev/null); then echo "$P/$K: does not build"; rm -rf $D; exit 1; fi
T=$(cd $D && go test -vet=off -count=1 ./... 2>&1 | grep -v "^ok\|no test files" | head -3)
[ -n "$T" ] && { echo "$P/$K: suite fails: $T"; rm -rf $D; exit 1; }
n=0
for p in $PROPS; do
  out=$(${GZ:-/verif/bin/gzcheck} -repo $D -prop $p -no-evidence 2>&1 | grep -v "^VIOLATION\|KNOWN" | grep "violation\]\|undecided\]\|anchor-lost\]\|checker-failure\]" | cut -c1-300 | sed "s/^/  [$p] /")
  [ -n "$out" ] && { echo "$out"; n=$((n+1)); }
done
echo "$P/$K: $(cd $D && git -C /repo diff --no-index --stat /repo/$(head -1 $SRC/patch.diff | sed 's/.* b\///') /dev/null 2>/dev/null | tail -0)alarms in $n properties ($(grep -c '^[-+][^-+]' $SRC/patch.diff) changed lines)"
rm -rf $D
