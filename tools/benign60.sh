#!/bin/bash
# benign60.sh [jobs]: run every stored behaviour-preserving refactoring (benign/<id>/patch.diff, written by independent
# sub-agents given only a property's text) on a scratch copy against all 20 quick checks; every alarm line is a false alarm.
# Development aid, not part of a registered command. Output: one block per refactoring, then a summary line.
J=${1:-4}
cd /verif
ls benign | xargs -P $J -I{} bash -c 'id={}; p=${id%-*}; k=${id#*-}; BENIGN_SRC=/verif/benign/$id TAG=b60 tools/benignrun.sh $p $k > /tmp/b60-$id.txt 2>&1'
cat /tmp/b60-*.txt | grep "alarms in" | sort
echo "refactorings with no alarm: $(cat /tmp/b60-*.txt | grep -c 'alarms in 0 properties') of $(ls benign | wc -l)"
