#!/bin/bash
# seedconfirm.sh <prop> <k> <pkgdir-of-demo> : confirm a sub-agent's seeded change in a scratch worktree, store it under
# /verif/seeded/<prop>-<k>/, then run the property's check (and optionally others) against it applied to /repo and undo.
set -u
export GOFLAGS=-mod=mod GOPROXY=off GOSUMDB=off GOTOOLCHAIN=local
PROP=$1; K=$2; DIR=$3; shift 3
SRC=/tmp/seedout-$PROP/$K
WT=/tmp/confirm-$PROP-$K
git -C /repo worktree add --detach $WT HEAD >/dev/null 2>&1 || { echo "worktree failed"; exit 2; }
cleanup() { git -C /repo worktree remove --force $WT >/dev/null 2>&1; }
trap cleanup EXIT
cd $WT
DEMO=$(ls $SRC/*_test.go | head -1)
if ! git apply --check $SRC/patch.diff 2>/dev/null; then echo "PATCH DOES NOT APPLY"; exit 3; fi
git apply $SRC/patch.diff
if ! go build ./... 2>/tmp/confirm-build.log; then echo "DOES NOT BUILD"; cat /tmp/confirm-build.log | head; exit 4; fi
SUITE=$(go test -vet=off -count=1 ./... 2>&1 | grep -v "^ok\|no test files" | head -5)
if [ -n "$SUITE" ]; then echo "SUITE FAILS WITH CHANGE: $SUITE"; exit 5; fi
cp $DEMO $DIR/zz_seed_demo_test.go
WITH=$(go test ${RACE:+-race} -vet=off -count=1 -run 'Seed|seed|Demo|demo' ./$DIR 2>&1 | tail -3)
git checkout -- . 
WITHOUT=$(go test ${RACE:+-race} -vet=off -count=1 -run 'Seed|seed|Demo|demo' ./$DIR 2>&1 | tail -3)
rm -f $DIR/zz_seed_demo_test.go
echo "with change:    $(echo "$WITH" | tr '\n' ' ' | cut -c1-200)"
echo "without change: $(echo "$WITHOUT" | tr '\n' ' ' | cut -c1-200)"
if echo "$WITH" | grep -q "^ok" ; then echo "DEMO DOES NOT FAIL WITH CHANGE"; exit 6; fi
if ! echo "$WITHOUT" | grep -q "^ok" ; then echo "DEMO DOES NOT PASS WITHOUT CHANGE"; exit 7; fi
OUT=/verif/seeded/$PROP-${OUTK:-$K}
mkdir -p $OUT
cp $SRC/patch.diff $OUT/patch.diff
cp $DEMO $OUT/$(basename $DEMO)
[ -f $SRC/notes.md ] && cp $SRC/notes.md $OUT/notes.md
echo "CONFIRMED -> $OUT"
