#!/bin/bash
# run a seed on a scratch copy against the given props
export GOFLAGS=-mod=mod GOPROXY=off GOSUMDB=off GOTOOLCHAIN=local
id=$1; shift
D=/tmp/seednew-$id; rm -rf $D; mkdir -p $D; (cd /repo && git archive HEAD | tar -x -C $D)
(cd $D && patch -p1 -s < /verif/seeded/$id/patch.diff) || { echo "$id PATCH FAILS"; exit 1; }
for p in "$@"; do
  out=$(${GZ:-/verif/bin/gzcheck} -repo $D -prop $p -no-evidence 2>&1 | tee /tmp/snlog-$id-$p.txt | grep -v "^VIOLATION")
  echo "== $id $p: $(echo "$out" | grep -o "\[[A-Z0-9a-z-]*/\(violation\|undecided\|anchor-lost\|checker-failure\)\]" | sort | uniq -c | tr '\n' ' ') | $(echo "$out" | tail -1 | cut -c1-90)"
done
rm -rf $D
