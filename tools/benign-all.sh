#!/bin/bash
# benign-all.sh: the whole battery of behaviour-preserving rewrites; prints one line per rewrite and every alarm raised
# (each alarm is a false alarm of a check). Development aid, not part of a registered command.
export GOFLAGS=-mod=mod GOPROXY=off GOSUMDB=off GOTOOLCHAIN=local
here=$(cd "$(dirname "$0")" && pwd)
gofmt_rule() { # name, rule
  D=/tmp/benign-$1; rm -rf $D; mkdir -p $D; (cd /repo && git archive HEAD | tar -x -C $D); cd $D
  find . -name '*.go' ! -name '*_test.go' | xargs gofmt -r "$2" -w 2>/dev/null
  if ! go build ./... 2>/dev/null; then echo "$1: does not build"; rm -rf $D; return; fi
  T=$(go test -vet=off -count=1 ./... 2>&1 | grep -v "^ok\|no test files" | head -3)
  [ -n "$T" ] && { echo "$1: suite fails: $T"; rm -rf $D; return; }
  echo "$1: $(diff -rq /repo $D --exclude=.git 2>/dev/null | grep -c differ) files changed"
  for p in C01 C02 C03 C04 C05 C06 C07 C08 C09 C10 C11 C12 C13 C14 C15 C16 C17 C18 C19 C20; do
    /verif/bin/gzcheck -repo $D -prop $p -no-evidence 2>&1 | grep -v "^VIOLATION\|KNOWN" | grep "violation\]\|undecided\]\|anchor-lost\]\|checker-failure\]" | cut -c1-260 | sed "s/^/  [$p] /"
  done
  rm -rf $D
}
gofmt_rule nilswap 'a != nil -> nil != a'
gofmt_rule eqswap 'a == b -> b == a'
gofmt_rule neswap 'a != b -> b != a'
gofmt_rule ltswap 'a < b -> b > a'
gofmt_rule leswap 'a <= b -> b >= a'
gofmt_rule gtswap 'a > b -> b < a'
gofmt_rule geswap 'a >= b -> b <= a'
gofmt_rule plus1 'a + 1 -> 1 + a'
gofmt_rule mul2 'a * 2 -> 2 * a'
gofmt_rule andparen 'a && b -> (a) && (b)'
for k in rename incdec opassign vardecl elsehoist elsewrap swapif constlit rangeloop; do $here/benign-ast.sh $k; done
