#!/bin/bash
# benign-ast.sh <kind> [binary]: statement-level rewrite of a scratch copy, build, suite, all checks
export GOFLAGS=-mod=mod GOPROXY=off GOSUMDB=off GOTOOLCHAIN=local
K=$1; GZ=${2:-/verif/bin/gzcheck}
D=/tmp/benign-ast-$K
rm -rf $D; mkdir -p $D; (cd /repo && git archive HEAD | tar -x -C $D)
if [ "$K" = rename ]; then $GZ -rename-locals $D || exit 1; else $GZ -rename-locals $D -benign $K || exit 1; fi
cd $D
if ! go build ./... 2>/tmp/benign-ast-$K.err; then echo "$K: does not build"; head -5 /tmp/benign-ast-$K.err; exit 1; fi
T=$(go test -vet=off -count=1 ./... 2>&1 | grep -v "^ok\|no test files" | head -3)
if [ -n "$T" ]; then echo "$K: suite fails: $T"; fi
for p in C01 C02 C03 C04 C05 C06 C07 C08 C09 C10 C11 C12 C13 C14 C15 C16 C17 C18 C19 C20; do
  $GZ -repo $D -prop $p -no-evidence 2>&1 | grep -v "^VIOLATION\|KNOWN" | grep "violation\]\|undecided\]\|anchor-lost\]\|checker-failure\]" | cut -c1-300 | sed "s/^/  [$p] /"
done
rm -rf $D
