#!/usr/bin/env python3
"""Regenerates /verif/MANIFEST.json from the table below (kept in one place so the manifest is always valid)."""
import json, os, sys
here = os.path.dirname(os.path.abspath(__file__))
root = os.path.dirname(here)
spec = json.load(open(os.path.join(here, 'manifest_spec.json')))
checks = []
for pid in sorted(spec['claimed']):
    s = spec['claimed'][pid]
    checks.append({
        "property_id": pid,
        "quick_cmd": f"./bin/gzcheck -prop {pid} -tier quick",
        "thorough_cmd": f"./bin/gzcheck -prop {pid} -tier thorough",
        "evidence_file": f"/verif/evidence/{pid}.json",
        "replay_cmd_template": "./bin/gzcheck -replay {path}",
        "engine": "gzcheck",
        "level_claimed": {"category": "other", "text": s['text'], "design_ref": s.get('design_ref', 'DESIGN.md §4 ' + pid)},
        "level_note": s['note'],
        "technique": s['technique'],
    })
na = [{"property_id": pid, "reason": reason} for pid, reason in sorted(spec.get('not_applicable', {}).items())]
m = {
    "version": 1,
    "setup_cmd": "cd /verif/checker && GOWORK=off GOFLAGS=-mod=mod GOPROXY=off GOSUMDB=off GOTOOLCHAIN=local go build -o ../bin/gzcheck .",
    "hooks": {
        "guard": "verif",
        "enable": "none needed: static analysis reads /repo's source as it is; no instrumentation is compiled in",
        "baseline_off_cmd": "cd /repo && go test -vet=off -count=1 -timeout 25m ./...",
        "source_commits": [],
        "add_only": True,
    },
    "engines": [{
        "name": "gzcheck",
        "path": "/verif/checker",
        "serves_properties": sorted(spec['claimed']),
        "kind_free_text": "repository-specific static analyser (go/packages + go/types + go/ssa, x/tools v0.29.0): table conformance against embedded/recomputed standards data, sibling agreement after normalisation, error/nil/result discipline on SSA, must-pass-through on the CFG, who-may-write on package state; restricted pure folding (constant propagation with bounded unrolling) of closed terms and of whole small functions over complete finite domains",
    }],
    "checks": checks,
    "notes": spec.get('notes', ''),
    "not_applicable": na,
}
json.dump(m, open(os.path.join(root, 'MANIFEST.json'), 'w'), indent=1)
print("wrote MANIFEST.json:", len(checks), "checks,", len(na), "not applicable")
