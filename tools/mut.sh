#!/bin/bash
# dev helper: mut.sh <prop> <file-relative-to-repo> <python-regex-or-literal old> <new>   (literal replace, first occurrence)
set -e
PROP=$1; FILE=$2; OLD=$3; NEW=$4
D=$(mktemp -d /tmp/gzmut.XXXXXX)
trap 'rm -rf $D' EXIT
rsync -a --prune-empty-dirs --exclude=".git" --include="*/" --exclude="*_test.go" --include="*.go" --exclude="*" /repo/ $D/
cp /repo/go.mod /repo/go.sum $D/
python3 - "$D/$FILE" "$OLD" "$NEW" <<'PY'
import sys
p,old,new=sys.argv[1:4]
s=open(p).read()
if old not in s:
    print("MUT: context not found"); sys.exit(3)
s=s.replace(old,new,1)
open(p,'w').write(s)
PY
/verif/bin/gzcheck -repo $D -no-evidence -prop $PROP 2>&1 | grep -v '^VIOLATION' | tail -${TAILN:-6}
