package main

import (
	"fmt"
	"go/token"
	"go/types"
	"sort"
	"strings"

	"golang.org/x/tools/go/callgraph"
	"golang.org/x/tools/go/ssa"
)

// Nil / result discipline on SSA.
//
//   NONNIL(f, i)  every return of f has a provably non-nil i-th result
//   XOR(f)        f : (..., T, error) with nillable T; every return is (non-nil, nil) or (nil, non-nil)
//   MAYNIL(f, i)  some return has a nil i-th result while the error result is absent or not provably non-nil
//   DEREF(f, k)   f dereferences its k-th parameter at a point where it is not known to be non-nil
//
// NONNIL/XOR are greatest fixpoints (assume, then strike out what cannot be shown); facts come from dominating
// `v == nil` / `v != nil` tests (edge dominance) and from the XOR correlation of the two results of one call.

type nilness int

const (
	nUnknown nilness = iota
	nNil
	nNonNil
)

type nilFlow struct {
	c            *Ctx
	funcs        []*ssa.Function
	nonnil       map[*ssa.Function]map[int]bool
	xor          map[*ssa.Function]bool // SUCC and FAILNIL together
	succ         map[*ssa.Function]bool // every return: error provably non-nil, or value provably non-nil
	failnil      map[*ssa.Function]bool // every return: error provably nil, or value provably nil
	xorWhy       map[*ssa.Function]string
	gDeps        map[*ssa.Global][]*ssa.Function
	nnGlobals    map[*ssa.Global]bool // package-level pointer variables / tables whose (element) values are non-nil and never overwritten
	maynil       map[*ssa.Function]map[int]bool
	deref        map[*ssa.Function]map[int]bool
	cgOut        map[ssa.CallInstruction][]*ssa.Function
	extNon       map[string]bool
	extMay       map[string]int
	pairIdx      map[*ssa.Function][2]int // (value index, error index) for XOR candidates
	kf           *kindFlow
	phase1       bool
	tiCache      map[[2]*ssa.BasicBlock]bool
	factsCache   map[*ssa.BasicBlock]map[ssa.Value]nilness
	noInfeasible bool
	nzCache      map[string]bool
	converged    bool
}

func isNillable(t types.Type) bool {
	switch t.Underlying().(type) {
	case *types.Pointer, *types.Slice, *types.Map, *types.Interface, *types.Signature, *types.Chan:
		return true
	}
	return false
}

// xorShape: f returns exactly (T, error) or (..non-nillable.., T, error)? Only the two-result form is a candidate.
func xorShape(sig *types.Signature) (int, int, bool) {
	res := sig.Results()
	if res.Len() != 2 {
		return 0, 0, false
	}
	if !isErrorType(res.At(1).Type()) || !isNillable(res.At(0).Type()) || isErrorType(res.At(0).Type()) {
		return 0, 0, false
	}
	return 0, 1, true
}

func (c *Ctx) newNilFlow() *nilFlow {
	nf := &nilFlow{c: c, nonnil: map[*ssa.Function]map[int]bool{}, xor: map[*ssa.Function]bool{}, xorWhy: map[*ssa.Function]string{},
		nzCache: map[string]bool{}, tiCache: map[[2]*ssa.BasicBlock]bool{}, factsCache: map[*ssa.BasicBlock]map[ssa.Value]nilness{}, succ: map[*ssa.Function]bool{}, failnil: map[*ssa.Function]bool{}, nnGlobals: map[*ssa.Global]bool{}, gDeps: map[*ssa.Global][]*ssa.Function{},
		maynil: map[*ssa.Function]map[int]bool{}, deref: map[*ssa.Function]map[int]bool{}, cgOut: map[ssa.CallInstruction][]*ssa.Function{},
		pairIdx: map[*ssa.Function][2]int{}}
	// externals documented/known never to return nil
	nf.extNon = map[string]bool{
		"golang.org/x/xerrors.New": true, "golang.org/x/xerrors.Errorf": true, "errors.New": true, "fmt.Errorf": true,
		"(golang.org/x/text/encoding.Encoding).NewDecoder": true, "(golang.org/x/text/encoding.Encoding).NewEncoder": true,
		"image.NewGray": true, "image.NewRGBA": true,
	}
	// externals that may return (nil, nil): golang.org/x/text ianaindex documents a nil Encoding with a nil error for
	// names it knows but does not support
	nf.extMay = map[string]int{"(*golang.org/x/text/encoding/ianaindex.Index).Encoding": 0}
	nf.funcs = c.repoFuncs()
	// call graph edges per site
	cg := c.CG()
	for _, f := range nf.funcs {
		if n := cg.Nodes[f]; n != nil {
			for _, e := range n.Out {
				nf.cgOut[e.Site] = append(nf.cgOut[e.Site], e.Callee.Func)
			}
		}
	}
	nf.kf = c.newKindFlowWith(nf, &rawGuards{rows: frozenRawGuards, used: map[string]bool{}})
	// optimistic initialisation
	for _, f := range nf.funcs {
		res := f.Signature.Results()
		nf.nonnil[f] = map[int]bool{}
		for i := 0; i < res.Len(); i++ {
			if isNillable(res.At(i).Type()) {
				nf.nonnil[f][i] = true
			}
		}
		if vi, ei, ok := xorShape(f.Signature); ok {
			nf.succ[f] = true
			nf.failnil[f] = true
			nf.pairIdx[f] = [2]int{vi, ei}
		}
	}
	nf.findNonNilGlobals()
	nf.refreshNonNilGlobals()
	// Rounds: round 0 computes NONNIL without pair correlation (succ/failnil unknown = false), then SUCC/FAILNIL;
	// later rounds recompute NONNIL optimistically with correlation against the previous round's (sound) SUCC/FAILNIL.
	initSucc, initFail := nf.succ, nf.failnil
	nf.succ, nf.failnil = map[*ssa.Function]bool{}, map[*ssa.Function]bool{}
	prevSig := ""
	for round := 0; round < 4; round++ {
		for _, f := range nf.funcs {
			for i := range nf.nonnil[f] {
				nf.nonnil[f][i] = true
			}
		}
		nf.noInfeasible = true
		for iter := 0; iter < 50; iter++ {
			changed := false
			for _, f := range nf.funcs {
				for i := range nf.nonnil[f] {
					if nf.nonnil[f][i] && !nf.checkNonNil(f, i) {
						nf.nonnil[f][i] = false
						changed = true
					}
				}
			}
			if nf.refreshNonNilGlobals() {
				changed = true
			}
			if !changed {
				break
			}
		}
		nf.noInfeasible = false
		// phase 2 starts optimistic
		nf.succ, nf.failnil = map[*ssa.Function]bool{}, map[*ssa.Function]bool{}
		for f := range initSucc {
			nf.succ[f] = true
		}
		for f := range initFail {
			nf.failnil[f] = true
		}
		nf.phase2()
		sig := nf.signature()
		if sig == prevSig {
			break
		}
		prevSig = sig
	}
	for f := range nf.pairIdx {
		nf.xor[f] = nf.succ[f] && nf.failnil[f]
	}
	// MAYNIL (least fixpoint)
	for iter := 0; iter < 20; iter++ {
		changed := false
		for _, f := range nf.funcs {
			res := f.Signature.Results()
			for i := 0; i < res.Len(); i++ {
				if !isNillable(res.At(i).Type()) || isErrorType(res.At(i).Type()) || nf.maynil[f][i] {
					continue
				}
				if nf.checkMayNil(f, i) {
					if nf.maynil[f] == nil {
						nf.maynil[f] = map[int]bool{}
					}
					nf.maynil[f][i] = true
					changed = true
				}
			}
		}
		if !changed {
			break
		}
	}
	return nf
}

// callees of a call instruction (static or through the VTA graph)
func (nf *nilFlow) callees(call ssa.CallInstruction) []*ssa.Function {
	if sc := call.Common().StaticCallee(); sc != nil {
		return []*ssa.Function{sc}
	}
	return nf.cgOut[call]
}

func extName(f *ssa.Function) string {
	if f == nil {
		return ""
	}
	if f.Object() != nil {
		if fn, ok := f.Object().(*types.Func); ok {
			return fn.FullName()
		}
	}
	return f.String()
}

// facts at a block: values known nil / non-nil from dominating tests
func (nf *nilFlow) factsAt(b *ssa.BasicBlock) map[ssa.Value]nilness {
	if c, ok := nf.factsCache[b]; ok {
		out := make(map[ssa.Value]nilness, len(c)+2)
		for k, v := range c {
			out[k] = v
		}
		return out
	}
	facts := nf.factsAtUncached(b)
	nf.factsCache[b] = facts
	out := make(map[ssa.Value]nilness, len(facts)+2)
	for k, v := range facts {
		out[k] = v
	}
	return out
}

func (nf *nilFlow) factsAtUncached(b *ssa.BasicBlock) map[ssa.Value]nilness {
	facts := map[ssa.Value]nilness{}
	for d := b; d != nil; d = d.Idom() {
		if len(d.Preds) != 1 {
			continue
		}
		p := d.Preds[0]
		if len(p.Instrs) == 0 {
			continue
		}
		ifi, ok := p.Instrs[len(p.Instrs)-1].(*ssa.If)
		if !ok || p.Succs[0] == p.Succs[1] {
			continue
		}
		polarity := p.Succs[0] == d
		addCondFacts(ifi.Cond, polarity, facts)
	}
	return facts
}

func isNilConst(v ssa.Value) bool {
	c, ok := v.(*ssa.Const)
	return ok && c.IsNil()
}

func addCondFacts(cond ssa.Value, polarity bool, facts map[ssa.Value]nilness) {
	switch x := cond.(type) {
	case *ssa.BinOp:
		if x.Op != token.EQL && x.Op != token.NEQ {
			return
		}
		var v ssa.Value
		if isNilConst(x.Y) {
			v = x.X
		} else if isNilConst(x.X) {
			v = x.Y
		} else {
			return
		}
		isNil := (x.Op == token.EQL) == polarity
		n := nNonNil
		if isNil {
			n = nNil
		}
		if _, seen := facts[v]; !seen {
			facts[v] = n
		}
		// a test of a loaded field also speaks for later loads of the same field path (see pathKey)
		if ld, ok := v.(*ssa.UnOp); ok && ld.Op == token.MUL {
			if k := pathKey(ld.X); k != "" {
				pv := pathVal(k)
				if _, seen := facts[pv]; !seen {
					facts[pv] = n
				}
			}
		}
		// look through interface conversions
		for {
			switch y := v.(type) {
			case *ssa.ChangeInterface:
				v = y.X
			case *ssa.ChangeType:
				v = y.X
			default:
				return
			}
			if _, seen := facts[v]; !seen {
				facts[v] = n
			}
		}
	case *ssa.UnOp:
		if x.Op == token.NOT {
			addCondFacts(x.X, !polarity, facts)
		}
	}
}

// classify a value's nilness in the context of block b (facts), depth-limited through phis
func (nf *nilFlow) classify(v ssa.Value, facts map[ssa.Value]nilness, b *ssa.BasicBlock, depth int) nilness {
	if n, ok := facts[v]; ok {
		return n
	}
	if depth > 6 {
		return nUnknown
	}
	switch x := v.(type) {
	case *ssa.Const:
		if x.IsNil() {
			return nNil
		}
		return nNonNil
	case *ssa.Alloc, *ssa.MakeSlice, *ssa.MakeMap, *ssa.MakeChan, *ssa.MakeClosure, *ssa.FieldAddr, *ssa.IndexAddr, *ssa.MakeInterface, *ssa.Function:
		return nNonNil
	case *ssa.Global:
		return nNonNil
	case *ssa.Slice:
		// slicing keeps nil-ness of a nil slice only for s[:0:0]-like forms; a sliced array pointer or string is non-nil
		if _, isPtr := x.X.Type().Underlying().(*types.Pointer); isPtr {
			return nNonNil
		}
		return nf.classify(x.X, facts, b, depth+1)
	case *ssa.ChangeInterface:
		return nf.classify(x.X, facts, b, depth+1)
	case *ssa.ChangeType:
		return nf.classify(x.X, facts, b, depth+1)
	case *ssa.Convert:
		return nf.classify(x.X, facts, b, depth+1)
	case *ssa.TypeAssert:
		if !x.CommaOk {
			return nNonNil // a failed assertion panics; a nil interface fails every assertion
		}
		return nUnknown
	case *ssa.Call:
		return nf.callResult(x, 0, facts)
	case *ssa.Extract:
		if call, ok := x.Tuple.(*ssa.Call); ok {
			return nf.callResult(call, x.Index, facts)
		}
		if ta, ok := x.Tuple.(*ssa.TypeAssert); ok && ta.CommaOk && x.Index == 0 {
			return nUnknown
		}
		return nUnknown
	case *ssa.Phi:
		var out nilness = -1
		for i, e := range x.Edges {
			pred := x.Block().Preds[i]
			pf := nf.factsAt(pred)
			// the edge pred -> phi block may itself carry a fact (pred ends in If)
			if len(pred.Instrs) > 0 {
				if ifi, ok := pred.Instrs[len(pred.Instrs)-1].(*ssa.If); ok && pred.Succs[0] != pred.Succs[1] {
					addCondFacts(ifi.Cond, pred.Succs[0] == x.Block(), pf)
				}
			}
			if nf.noInfeasible {
				n := nf.classify(e, pf, pred, depth+1)
				if out == -1 {
					out = n
				} else if out != n {
					return nUnknown
				}
				continue
			}
			// facts known at the use site that contradict the edge's facts make the edge infeasible
			if edgeInfeasible(pf, facts) {
				continue
			}
			// a fact about a sibling phi at the use site is, on this edge, a fact about that phi's operand
			infeasible := nf.typeInfeasible(pred, x.Block())
			for _, in := range x.Block().Instrs {
				q, isPhi := in.(*ssa.Phi)
				if !isPhi {
					break
				}
				n, known := facts[q]
				if !known || q == x {
					continue
				}
				m := nf.classify(q.Edges[i], pf, pred, depth+1)
				if m != nUnknown && m != n {
					infeasible = true
					break
				}
				if m == nUnknown {
					pf[q.Edges[i]] = n
				}
			}
			if infeasible {
				continue
			}
			n := nf.classify(e, pf, pred, depth+1)
			if out == -1 {
				out = n
			} else if out != n {
				return nUnknown
			}
		}
		if out == -1 {
			return nUnknown
		}
		return out
	case *ssa.UnOp:
		if x.Op == token.MUL {
			if nf.loadFromNonNilGlobal(x.X, 0) {
				return nNonNil
			}
			if k := pathKey(x.X); k != "" {
				if n, ok := facts[pathVal(k)]; ok && !clobberedBefore(x, k) {
					return n
				}
			}
			return nUnknown
		}
	case *ssa.Lookup:
		return nUnknown
	case *ssa.Index:
		return nUnknown
	case *ssa.Parameter, *ssa.FreeVar:
		return nUnknown
	}
	return nUnknown
}

// edgeInfeasible: the facts on an incoming edge contradict the facts at the point of use
func edgeInfeasible(edgeFacts, useFacts map[ssa.Value]nilness) bool {
	for v, n := range edgeFacts {
		if m, ok := useFacts[v]; ok && m != n && m != nUnknown && n != nUnknown {
			return true
		}
	}
	return false
}

func (nf *nilFlow) callResult(call *ssa.Call, idx int, facts map[ssa.Value]nilness) nilness {
	cs := nf.callees(call)
	if len(cs) == 0 {
		// builtins etc.
		if b, ok := call.Call.Value.(*ssa.Builtin); ok {
			switch b.Name() {
			case "append":
				return nUnknown // append(nil) is nil
			}
		}
		return nUnknown
	}
	all := true
	for _, g := range cs {
		if g.Blocks == nil || !isRepoPkgFn(g) {
			if !nf.extNon[extName(g)] {
				all = false
			}
			continue
		}
		if !nf.nonnil[g][idx] {
			all = false
		}
	}
	if all {
		return nNonNil
	}
	// correlation of a callee's own (value, error) pair (summaries of the previous round; none in round 0)
	allSucc, allFail := true, true
	for _, g := range cs {
		if !nf.succ[g] {
			allSucc = false
		}
		if !nf.failnil[g] {
			allFail = false
		}
		if _, ok := nf.pairIdx[g]; !ok {
			allSucc, allFail = false, false
		}
	}
	if allSucc || allFail {
		pi := nf.pairIdx[cs[0]]
		partnerIdx := pi[1]
		if idx == pi[1] {
			partnerIdx = pi[0]
		}
		partner := nUnknown
		found := false
		for _, ref := range *call.Referrers() {
			if ex, ok := ref.(*ssa.Extract); ok && ex.Index == partnerIdx {
				if ex.Referrers() != nil && len(*ex.Referrers()) > 0 {
					found = true // the partner result is actually looked at somewhere
				}
				if n, ok := facts[ex]; ok {
					partner = n
				}
			}
		}
		if !found && idx == pi[0] {
			// the error result is discarded at this site: every such site carries its own E-DROP obligation
			// (discharged or frozen with a reason), so the error is nil here
			partner = nNil
		}
		if idx == pi[0] {
			// value from error
			if partner == nNil && allSucc {
				return nNonNil
			}
			if partner == nNonNil && allFail {
				return nNil
			}
		} else {
			// error from value
			if partner == nNil && allSucc {
				return nNonNil
			}
			if partner == nNonNil && allFail {
				return nNil
			}
		}
	}
	return nUnknown
}

func isRepoPkgFn(f *ssa.Function) bool {
	if f.Pkg != nil {
		return strings.HasPrefix(f.Pkg.Pkg.Path(), modPath) && !strings.HasSuffix(f.Pkg.Pkg.Path(), "/testutil")
	}
	// synthetic wrappers (promoted methods, bound methods) carry no package: use the wrapped object's
	if f.Synthetic != "" && f.Object() != nil && f.Object().Pkg() != nil {
		p := f.Object().Pkg().Path()
		return strings.HasPrefix(p, modPath) && !strings.HasSuffix(p, "/testutil")
	}
	return false
}

// retVals resolves defer-spilled results: in a function with defer, `return a, b` is lowered to
// `*slot0 = a; *slot1 = b; rundefers; t = *slot0; u = *slot1; return t, u` inside one block.
func retVals(r *ssa.Return) []ssa.Value {
	out := make([]ssa.Value, len(r.Results))
	for i, v := range r.Results {
		out[i] = v
		ld, ok := v.(*ssa.UnOp)
		if !ok || ld.Op != token.MUL {
			continue
		}
		slot, ok := ld.X.(*ssa.Alloc)
		if !ok {
			continue
		}
		instrs := r.Block().Instrs
		for k := len(instrs) - 1; k >= 0; k-- {
			if st, ok := instrs[k].(*ssa.Store); ok && st.Addr == ssa.Value(slot) {
				out[i] = st.Val
				break
			}
		}
	}
	return out
}

func returnsOf(f *ssa.Function) []*ssa.Return {
	var out []*ssa.Return
	for _, b := range f.Blocks {
		if b == f.Recover {
			continue // reached only when a deferred call recovers from a panic; none does (E-PANIC asserts no recover())
		}
		for _, in := range b.Instrs {
			if r, ok := in.(*ssa.Return); ok {
				out = append(out, r)
			}
		}
	}
	return out
}

func (nf *nilFlow) checkNonNil(f *ssa.Function, i int) bool {
	rets := returnsOf(f)
	if len(rets) == 0 {
		return true
	}
	for _, r := range rets {
		facts := nf.factsAt(r.Block())
		if nf.classify(retVals(r)[i], facts, r.Block(), 0) != nNonNil {
			return false
		}
	}
	return true
}

// checkPair checks one direction on every return of f and returns "" or a description of the offending return.
//
//	succ:    error provably non-nil, or value provably non-nil
//	failnil: error provably nil, or value provably nil
func (nf *nilFlow) checkPair(f *ssa.Function, succ bool) string {
	pi := nf.pairIdx[f]
	for _, r := range returnsOf(f) {
		rvs := retVals(r)
		rv, ev := rvs[pi[0]], rvs[pi[1]]
		facts := nf.factsAt(r.Block())
		// pass-through of one call's pair inherits the callee's summary
		if ex0, ok := rv.(*ssa.Extract); ok {
			if ex1, ok := ev.(*ssa.Extract); ok && ex0.Tuple == ex1.Tuple {
				if call, ok := ex0.Tuple.(*ssa.Call); ok {
					cs := nf.callees(call)
					good := len(cs) > 0
					for _, g := range cs {
						sum := nf.failnil[g]
						if succ {
							sum = nf.succ[g]
						}
						if !sum || nf.pairIdx[g][0] != ex0.Index || nf.pairIdx[g][1] != ex1.Index {
							good = false
						}
					}
					if good {
						continue
					}
				}
			}
		}
		rn := nf.classify(rv, facts, r.Block(), 0)
		en := nf.classify(ev, facts, r.Block(), 0)
		if succ && (en == nNonNil || rn == nNonNil) {
			continue
		}
		if !succ && (en == nNil || rn == nNil) {
			continue
		}
		return fmt.Sprintf("%s: return with value %s and error %s", nf.c.pos(r.Pos()), nilName(rn), nilName(en))
	}
	return ""
}

func nilName(n nilness) string {
	switch n {
	case nNil:
		return "nil"
	case nNonNil:
		return "non-nil"
	}
	return "not-known"
}

func (nf *nilFlow) checkMayNil(f *ssa.Function, i int) bool {
	errIdx := -1
	res := f.Signature.Results()
	for k := 0; k < res.Len(); k++ {
		if isErrorType(res.At(k).Type()) {
			errIdx = k
		}
	}
	for _, r := range returnsOf(f) {
		facts := nf.factsAt(r.Block())
		orig := retVals(r)[i]
		if nf.classify(orig, facts, r.Block(), 0) == nNonNil {
			continue
		}
		v := resolveFieldLoad(orig)
		isNil := nf.classify(v, facts, r.Block(), 0) == nNil
		if lk, ok := v.(*ssa.Lookup); ok && !lk.CommaOk {
			if _, isMap := lk.X.Type().Underlying().(*types.Map); isMap {
				isNil = true // a plain map lookup yields the zero value (nil) for an absent key
			}
		}
		if !isNil {
			// pass-through of a MAYNIL callee
			switch x := v.(type) {
			case *ssa.Call:
				for _, g := range nf.callees(x) {
					if nf.maynil[g][0] {
						isNil = true
					}
					if k, ok := nf.extMay[extName(g)]; ok && k == 0 {
						isNil = true
					}
				}
			case *ssa.Extract:
				if call, ok := x.Tuple.(*ssa.Call); ok {
					for _, g := range nf.callees(call) {
						if nf.maynil[g][x.Index] {
							isNil = true
						}
						if k, ok := nf.extMay[extName(g)]; ok && k == x.Index {
							isNil = true
						}
					}
					if isNil && nf.classify(v, facts, r.Block(), 0) == nNonNil {
						isNil = false
					}
				}
			}
		}
		if !isNil {
			continue
		}
		if errIdx < 0 || errIdx == i {
			return true
		}
		if nf.classify(retVals(r)[errIdx], facts, r.Block(), 0) != nNonNil {
			return true
		}
	}
	return false
}

// ---- uses of maybe-nil values ----

type nilUse struct {
	Fn     *ssa.Function
	Source string // the MAYNIL producer
	Pos    token.Pos
	What   string
	Site   int
}

// derefUses lists dereferencing uses of v (through phis/conversions) that are not protected by a non-nil fact.
func (nf *nilFlow) unsafeUses(v ssa.Value, seen map[ssa.Value]bool, depth int) []ssa.Instruction {
	if seen[v] || depth > 8 || v.Referrers() == nil {
		return nil
	}
	seen[v] = true
	var out []ssa.Instruction
	for _, ref := range *v.Referrers() {
		b := ref.Block()
		if b == nil {
			continue
		}
		facts := nf.factsAt(b)
		if n, ok := facts[v]; ok && n == nNonNil {
			continue
		}
		switch x := ref.(type) {
		case *ssa.FieldAddr:
			if x.X == v {
				out = append(out, x)
			}
		case *ssa.Field:
		case *ssa.IndexAddr:
			if x.X == v {
				if _, isPtr := v.Type().Underlying().(*types.Pointer); isPtr {
					out = append(out, x)
				}
			}
		case *ssa.UnOp:
			if x.Op == token.MUL && x.X == v {
				out = append(out, x)
			}
		case *ssa.Call:
			com := x.Common()
			if com.IsInvoke() && com.Value == v {
				out = append(out, x) // method call on a nil interface panics
				continue
			}
			for k, a := range com.Args {
				if a != v {
					continue
				}
				for _, g := range nf.callees(x) {
					if g.Blocks != nil && isRepoPkgFn(g) {
						if nf.derefParam(g, k) {
							out = append(out, x)
						}
					} else if k == 0 && g.Signature.Recv() != nil {
						out = append(out, x) // external method on a nil receiver
					}
				}
			}
		case *ssa.Phi:
			out = append(out, nf.unsafeUses(x, seen, depth+1)...)
		case *ssa.ChangeInterface:
			out = append(out, nf.unsafeUses(x, seen, depth+1)...)
		case *ssa.ChangeType:
			out = append(out, nf.unsafeUses(x, seen, depth+1)...)
		case *ssa.MakeInterface:
			// boxed: nil pointer inside a non-nil interface; method calls on it reach the concrete method
			out = append(out, nf.unsafeUses(x, seen, depth+1)...)
		}
	}
	return out
}

// derefParam: g dereferences its k-th parameter (receiver = 0 for methods) without a dominating non-nil test.
func (nf *nilFlow) derefParam(g *ssa.Function, k int) bool {
	if m, ok := nf.deref[g]; ok {
		if v, ok := m[k]; ok {
			return v
		}
	} else {
		nf.deref[g] = map[int]bool{}
	}
	nf.deref[g][k] = false // recursion guard
	if k >= len(g.Params) {
		return false
	}
	res := len(nf.unsafeUses(g.Params[k], map[ssa.Value]bool{}, 0)) > 0
	nf.deref[g][k] = res
	return res
}

// mayNilSources enumerates call results in f that come from MAYNIL producers.
func (nf *nilFlow) mayNilValues(f *ssa.Function) map[ssa.Value]string {
	out := map[ssa.Value]string{}
	for _, b := range f.Blocks {
		for _, in := range b.Instrs {
			call, ok := in.(*ssa.Call)
			if !ok {
				continue
			}
			for _, g := range nf.callees(call) {
				name := extName(g)
				var idxs []int
				if k, ok := nf.extMay[name]; ok {
					idxs = append(idxs, k)
				}
				for i := range nf.maynil[g] {
					if nf.maynil[g][i] {
						idxs = append(idxs, i)
					}
				}
				for _, i := range idxs {
					if call.Type() != nil {
						if _, isTuple := call.Type().(*types.Tuple); isTuple {
							for _, ref := range *call.Referrers() {
								if ex, ok := ref.(*ssa.Extract); ok && ex.Index == i {
									out[ex] = shortFn(g)
								}
							}
						} else if i == 0 {
							out[call] = shortFn(g)
						}
					}
				}
			}
		}
	}
	return out
}

func (nf *nilFlow) entryMethods(ifaceRel, ifaceName, method string) []*ssa.Function {
	obj := nf.c.lookupObj(ifaceRel, ifaceName)
	if obj == nil {
		return nil
	}
	iface, ok := obj.Type().Underlying().(*types.Interface)
	if !ok {
		return nil
	}
	var out []*ssa.Function
	seen := map[*ssa.Function]bool{}
	for _, p := range nf.c.PkgList {
		if strings.HasSuffix(p.PkgPath, "/testutil") {
			continue
		}
		scope := p.Types.Scope()
		for _, n := range scope.Names() {
			tn, ok := scope.Lookup(n).(*types.TypeName)
			if !ok {
				continue
			}
			named, ok := tn.Type().(*types.Named)
			if !ok {
				continue
			}
			if _, isIface := named.Underlying().(*types.Interface); isIface {
				continue
			}
			for _, T := range []types.Type{named, types.NewPointer(named)} {
				if !types.Implements(T, iface) {
					continue
				}
				ms := nf.c.Prog.MethodSets.MethodSet(T)
				sel := ms.Lookup(tn.Pkg(), method)
				if sel == nil {
					continue
				}
				fn := nf.c.Prog.MethodValue(sel)
				if fn == nil {
					continue
				}
				// unwrap synthetic wrappers to the declared method when it is declared on this type
				if fn.Synthetic != "" {
					if decl := nf.c.Prog.FuncValue(sel.Obj().(*types.Func)); decl != nil && decl.Blocks != nil {
						fn = decl
					}
				}
				if !seen[fn] && fn.Blocks != nil && isRepoPkgFn(fn) {
					seen[fn] = true
					out = append(out, fn)
				}
				break
			}
		}
	}
	sort.Slice(out, func(i, j int) bool { return out[i].String() < out[j].String() })
	return out
}

// reachableFrom: repository functions reachable from roots in the call graph
func (nf *nilFlow) reachableFrom(roots []*ssa.Function) map[*ssa.Function]bool {
	cg := nf.c.CG()
	seen := map[*ssa.Function]bool{}
	var stack []*callgraph.Node
	for _, r := range roots {
		if n := cg.Nodes[r]; n != nil && !seen[r] {
			seen[r] = true
			stack = append(stack, n)
		}
	}
	for len(stack) > 0 {
		n := stack[len(stack)-1]
		stack = stack[:len(stack)-1]
		for _, e := range n.Out {
			g := e.Callee.Func
			if !seen[g] && isRepoPkgFn(g) {
				seen[g] = true
				stack = append(stack, e.Callee)
			}
		}
	}
	return seen
}

// pathKey names the memory location &base.f (base a parameter/receiver) so that two loads of the same field
// in one function can share a nil-test. Returns "" for anything else.
func pathKey(addr ssa.Value) string {
	fa, ok := addr.(*ssa.FieldAddr)
	if !ok {
		return ""
	}
	if p, ok := fa.X.(*ssa.Parameter); ok {
		return fmt.Sprintf("%s.%d@%p", p.Name(), fa.Field, p)
	}
	return ""
}

type pathValue struct {
	ssa.Value
	key string
}

var pathVals = map[string]*pathValue{}

func pathVal(k string) ssa.Value {
	if v, ok := pathVals[k]; ok {
		return v
	}
	v := &pathValue{key: k}
	pathVals[k] = v
	return v
}

// storesToPath: does f store to the field location named k in a block dominated by `from`?
func storesToField(f *ssa.Function, k string, from *ssa.BasicBlock) bool {
	for _, b := range f.Blocks {
		if from != nil && !from.Dominates(b) {
			continue
		}
		for _, in := range b.Instrs {
			if st, ok := in.(*ssa.Store); ok && pathKey(st.Addr) == k {
				return true
			}
		}
	}
	return false
}

// loadFromNonNilGlobal: addr is &G, or &G[i] / &(*G)[i] for a table G, with G in nnGlobals.
func (nf *nilFlow) loadFromNonNilGlobal(addr ssa.Value, depth int) bool {
	if depth > 4 {
		return false
	}
	switch x := addr.(type) {
	case *ssa.Global:
		return nf.nnGlobals[x]
	case *ssa.IndexAddr:
		// element of a table: the table value is a load of a global
		if ld, ok := x.X.(*ssa.UnOp); ok && ld.Op == token.MUL {
			if g, ok := ld.X.(*ssa.Global); ok {
				return nf.nnGlobals[g]
			}
		}
		if g, ok := x.X.(*ssa.Global); ok {
			return nf.nnGlobals[g]
		}
	}
	return false
}

// findNonNilGlobals: package-level variables (a) of pointer type initialised by a never-nil constructor, or
// (b) slices/arrays of pointers whose literal elements are all never-nil constructor calls or &T{...}, and which
// no function other than the package initialiser stores to.
func (nf *nilFlow) findNonNilGlobals() {
	stored := map[*ssa.Global]bool{}
	for _, f := range nf.funcs {
		if f.Name() == "init" || strings.HasPrefix(f.Name(), "init#") {
			continue
		}
		for _, b := range f.Blocks {
			for _, in := range b.Instrs {
				st, ok := in.(*ssa.Store)
				if !ok {
					continue
				}
				if g := rootGlobal(st.Addr, 0); g != nil {
					stored[g] = true
				}
			}
		}
	}
	for _, p := range nf.c.PkgList {
		sp := nf.c.SSA[p.PkgPath]
		if sp == nil {
			continue
		}
		for _, m := range sp.Members {
			g, ok := m.(*ssa.Global)
			if !ok || stored[g] {
				continue
			}
			init, ip := nf.c.varInitOfObj(g.Object())
			if init == nil {
				continue
			}
			v := nf.c.eval(ip, init)
			var deps []*ssa.Function
			if nf.valNonNilDeps(v, g.Object().Type(), &deps) {
				nf.gDeps[g] = deps
			}
		}
	}
}

func rootGlobal(addr ssa.Value, depth int) *ssa.Global {
	if depth > 6 {
		return nil
	}
	switch x := addr.(type) {
	case *ssa.Global:
		return x
	case *ssa.IndexAddr:
		return rootGlobal(x.X, depth+1)
	case *ssa.FieldAddr:
		return rootGlobal(x.X, depth+1)
	case *ssa.UnOp:
		if x.Op == token.MUL {
			return rootGlobal(x.X, depth+1)
		}
	}
	return nil
}

// refreshNonNilGlobals recomputes nnGlobals from the current NONNIL summaries; reports a change.
func (nf *nilFlow) refreshNonNilGlobals() bool {
	changed := false
	for g, deps := range nf.gDeps {
		ok := true
		for _, d := range deps {
			if isRepoPkgFn(d) {
				if !nf.nonnil[d][0] {
					ok = false
				}
			} else if !nf.extNon[extName(d)] {
				ok = false
			}
		}
		if nf.nnGlobals[g] != ok {
			nf.nnGlobals[g] = ok
			changed = true
		}
	}
	return changed
}

// valNonNilDeps: the statically read initialiser is a non-nil pointer, or a table all of whose elements are,
// provided the collected constructor functions never return nil.
func (nf *nilFlow) valNonNilDeps(v *Val, t types.Type, deps *[]*ssa.Function) bool {
	if v == nil {
		return false
	}
	switch v.K {
	case VStruct:
		return v.Ptr
	case VCall:
		fn, ok := v.Fn.(*types.Func)
		if !ok {
			return false
		}
		sf := nf.c.Prog.FuncValue(fn)
		if sf == nil {
			return false
		}
		for _, d := range *deps {
			if d == sf {
				return true
			}
		}
		*deps = append(*deps, sf)
		return true
	case VList:
		if v.MapKeys != nil || len(v.L) == 0 || t == nil {
			return false
		}
		switch tt := t.Underlying().(type) {
		case *types.Slice:
			if _, isPtr := tt.Elem().Underlying().(*types.Pointer); !isPtr {
				return false
			}
		case *types.Array:
			if _, isPtr := tt.Elem().Underlying().(*types.Pointer); !isPtr {
				return false
			}
		default:
			return false
		}
		for _, e := range v.L {
			if e.K == VList || !nf.valNonNilDeps(e, nil, deps) {
				return false
			}
		}
		return true
	}
	return false
}

// clobberedBefore: a store to the same field, or any call, precedes the load inside its own block (the
// nil-test fact comes from a dominating edge, so only the load's own block can sit between test and load
// in the `if x.f != nil { return x.f }` idiom this serves).
func clobberedBefore(load *ssa.UnOp, k string) bool {
	for _, in := range load.Block().Instrs {
		if in == ssa.Instruction(load) {
			return false
		}
		switch y := in.(type) {
		case *ssa.Store:
			if pathKey(y.Addr) == k {
				return true
			}
		case *ssa.Call:
			return true
		}
	}
	return false
}

// typeInfeasible: the edge pred -> succ lies on a path where comma-ok type assertions of one error value v to
// interface types T1..Tn all failed; if every kind v can have (kind analysis) satisfies one of the Ti, no
// execution takes this edge. This is what makes `switch e.(type) { case A, B: x = ... }` total when kinds(e) is {A, B}.
func (nf *nilFlow) typeInfeasible(pred, succ *ssa.BasicBlock) bool {
	if nf.kf == nil {
		return false
	}
	key := [2]*ssa.BasicBlock{pred, succ}
	if v, ok := nf.tiCache[key]; ok {
		return v
	}
	v := nf.typeInfeasibleUncached(pred, succ)
	nf.tiCache[key] = v
	return v
}

func (nf *nilFlow) typeInfeasibleUncached(pred, succ *ssa.BasicBlock) bool {
	neg := map[ssa.Value][]types.Type{}
	add := func(p, d *ssa.BasicBlock) {
		if len(p.Instrs) == 0 {
			return
		}
		ifi, ok := p.Instrs[len(p.Instrs)-1].(*ssa.If)
		if !ok || p.Succs[0] == p.Succs[1] || p.Succs[1] != d {
			return
		}
		ex, ok := ifi.Cond.(*ssa.Extract)
		if !ok || ex.Index != 1 {
			return
		}
		ta, ok := ex.Tuple.(*ssa.TypeAssert)
		if !ok || !ta.CommaOk {
			return
		}
		neg[ta.X] = append(neg[ta.X], ta.AssertedType)
	}
	add(pred, succ)
	for d := pred; d != nil; d = d.Idom() {
		if len(d.Preds) == 1 {
			add(d.Preds[0], d)
		}
	}
	for v, ts := range neg {
		ks := nf.kf.valueKinds(v, pred.Parent(), map[ssa.Value]bool{}, 0)
		if len(ks) == 0 {
			continue
		}
		all := true
		for k := range ks {
			covered := false
			for _, t := range ts {
				if len(nf.kf.restrict(kindSet{k: true}, t)) > 0 {
					covered = true
				}
			}
			if !covered {
				all = false
			}
		}
		if all {
			return true
		}
	}
	return false
}

// nonZeroResult: every return of f either has a provably non-nil error or a provably >= 1 i-th result.
func (nf *nilFlow) nonZeroResult(f *ssa.Function, i int) bool {
	if f.Blocks == nil || !isRepoPkgFn(f) {
		return false
	}
	key := fmt.Sprintf("%p/%d", f, i)
	if v, ok := nf.nzCache[key]; ok {
		return v
	}
	nf.nzCache[key] = false
	errIdx := -1
	res := f.Signature.Results()
	for k := 0; k < res.Len(); k++ {
		if isErrorType(res.At(k).Type()) {
			errIdx = k
		}
	}
	ok := true
	for _, r := range returnsOf(f) {
		vals := retVals(r)
		if errIdx >= 0 && nf.classify(vals[errIdx], nf.factsAt(r.Block()), r.Block(), 0) == nNonNil {
			continue
		}
		ifs := intFactsAt(r.Block())
		if ff, has := ifs[vals[i]]; has && (ff.nonZero || ff.pos) {
			continue
		}
		if !provablyPositive(vals[i], ifs, 0) {
			ok = false
		}
	}
	nf.nzCache[key] = ok
	return ok
}

// resolveFieldLoad: `x.f = v; ...; return x.f` — a load of a receiver/parameter field is replaced by the value
// last stored to the same field in the load's block or in a dominating block (no store in between by construction:
// the search walks backwards from the load).
func resolveFieldLoad(v ssa.Value) ssa.Value {
	ld, ok := v.(*ssa.UnOp)
	if !ok || ld.Op != token.MUL {
		return v
	}
	k := pathKey(ld.X)
	if k == "" {
		return v
	}
	b := ld.Block()
	start := -1
	for i, in := range b.Instrs {
		if in == ssa.Instruction(ld) {
			start = i
		}
	}
	for blk := b; blk != nil; blk = blk.Idom() {
		instrs := blk.Instrs
		from := len(instrs) - 1
		if blk == b {
			from = start - 1
		}
		for i := from; i >= 0; i-- {
			if st, ok := instrs[i].(*ssa.Store); ok && pathKey(st.Addr) == k {
				return st.Val
			}
		}
	}
	return v
}

func (nf *nilFlow) phase2() {
	nf.converged = false
	// phase 2: SUCC / FAILNIL. Edge-infeasibility reasoning is not monotone in the assumed summaries, so the
	// summaries are recomputed as a whole from the previous round's (Jacobi), starting optimistic, until stable.
	for iter := 0; iter < 40; iter++ {
		newSucc, newFail := map[*ssa.Function]bool{}, map[*ssa.Function]bool{}
		why := map[*ssa.Function]string{}
		for f := range nf.pairIdx {
			w1 := nf.checkPair(f, true)
			w2 := nf.checkPair(f, false)
			newSucc[f] = w1 == ""
			newFail[f] = w2 == ""
			if w1 != "" {
				why[f] = w1
			} else if w2 != "" {
				why[f] = w2
			}
		}
		same := true
		for f := range nf.pairIdx {
			if newSucc[f] != nf.succ[f] || newFail[f] != nf.failnil[f] {
				same = false
			}
		}
		nf.succ, nf.failnil, nf.xorWhy = newSucc, newFail, why
		if same {
			nf.converged = true
			break
		}
	}
	if !nf.converged {
		// no stable assignment found: keep only what also holds with every summary withdrawn
		for f := range nf.pairIdx {
			nf.succ[f], nf.failnil[f] = false, false
		}
		for f := range nf.pairIdx {
			if nf.checkPair(f, true) == "" {
				nf.succ[f] = true
			}
			if nf.checkPair(f, false) == "" {
				nf.failnil[f] = true
			}
		}
	}
}

func (nf *nilFlow) signature() string {
	var sb strings.Builder
	for _, f := range nf.funcs {
		for i := 0; i < f.Signature.Results().Len(); i++ {
			if nf.nonnil[f][i] {
				sb.WriteByte('1')
			} else {
				sb.WriteByte('0')
			}
		}
		if nf.succ[f] {
			sb.WriteByte('s')
		}
		if nf.failnil[f] {
			sb.WriteByte('f')
		}
	}
	return sb.String()
}
