package main

import (
	"go/ast"
	"go/token"
	"go/types"

	"golang.org/x/tools/go/ast/astutil"
	"golang.org/x/tools/go/packages"
)

// canonicaliseComparisons rewrites, in the loaded syntax trees, every ordering comparison to the `<` / `<=` form
// (`a > b` becomes `b < a`, `a >= b` becomes `b <= a`) and every equality to one operand order (compound expression, variable or field, package-level
// object, constant or nil - in that order; equal kinds by their text). The operands are swapped in place, so the type information recorded for them stays
// valid. The matchers then see one orientation whatever the source uses: a rule cannot fire, or fall silent, because a
// comparison was written the other way round. The operands of a comparison in this module have no side effects whose
// order matters (operands are evaluated left to right in Go; the only calls that occur in comparisons are getters), and
// the folds do not depend on the order.
func canonicaliseComparisons(pkgs []*packages.Package) int {
	n := 0
	for _, p := range pkgs {
		info := p.TypesInfo
		rank := func(e ast.Expr) int { return operandRank(info, e) }
		for _, f := range p.Syntax {
			ast.Inspect(f, func(nd ast.Node) bool {
				be, ok := nd.(*ast.BinaryExpr)
				if !ok {
					return true
				}
				switch be.Op {
				case token.GTR:
					be.X, be.Y, be.Op = be.Y, be.X, token.LSS
					n++
				case token.GEQ:
					be.X, be.Y, be.Op = be.Y, be.X, token.LEQ
					n++
				case token.EQL, token.NEQ:
					rx, ry := rank(be.X), rank(be.Y)
					if rx > ry || (rx == ry && types.ExprString(be.X) > types.ExprString(be.Y)) {
						be.X, be.Y = be.Y, be.X
						n++
					}
				}
				return true
			})
		}
	}
	return n
}

// canonicaliseUpdates rewrites the statement `var x = v` to `x := v`, `x = x op y` to `x op= y` (x a plain variable) and `x += 1` / `x -= 1` to `x++` / `x--`
// in the loaded syntax trees: three spellings of one statement. It runs before the SSA form is built.
func canonicaliseUpdates(pkgs []*packages.Package) int {
	n := 0
	opAssign := map[token.Token]token.Token{token.ADD: token.ADD_ASSIGN, token.SUB: token.SUB_ASSIGN, token.MUL: token.MUL_ASSIGN,
		token.QUO: token.QUO_ASSIGN, token.REM: token.REM_ASSIGN, token.AND: token.AND_ASSIGN, token.OR: token.OR_ASSIGN,
		token.XOR: token.XOR_ASSIGN, token.SHL: token.SHL_ASSIGN, token.SHR: token.SHR_ASSIGN, token.AND_NOT: token.AND_NOT_ASSIGN}
	for _, p := range pkgs {
		info := p.TypesInfo
		for _, f := range p.Syntax {
			for _, d := range f.Decls {
				if fd, ok := d.(*ast.FuncDecl); ok && fd.Body != nil {
					k := &ifCanon{info: info}
					fd.Body.List = k.stmts(fd.Body.List)
					n += k.n
				}
			}
			astutil.Apply(f, nil, func(c *astutil.Cursor) bool {
				// `var x = v` as a statement is `x := v`
				if ds, isD := c.Node().(*ast.DeclStmt); isD {
					if gd, isG := ds.Decl.(*ast.GenDecl); isG && gd.Tok == token.VAR && len(gd.Specs) == 1 {
						if vs, isV := gd.Specs[0].(*ast.ValueSpec); isV && vs.Type == nil && len(vs.Names) == 1 && len(vs.Values) == 1 && vs.Names[0].Name != "_" {
							if _, inBlock := c.Parent().(*ast.BlockStmt); inBlock {
								c.Replace(&ast.AssignStmt{Lhs: []ast.Expr{vs.Names[0]}, TokPos: vs.Names[0].End(), Tok: token.DEFINE, Rhs: []ast.Expr{vs.Values[0]}})
								n++
							}
						}
					}
					return true
				}
				as, ok := c.Node().(*ast.AssignStmt)
				if !ok || len(as.Lhs) != 1 || len(as.Rhs) != 1 {
					return true
				}
				lid, ok := as.Lhs[0].(*ast.Ident)
				if !ok {
					return true
				}
				if as.Tok == token.ASSIGN {
					be, ok := ast.Unparen(as.Rhs[0]).(*ast.BinaryExpr)
					if !ok {
						return true
					}
					xid, ok := ast.Unparen(be.X).(*ast.Ident)
					if !ok || info.Uses[xid] == nil || info.Uses[xid] != info.Uses[lid] {
						return true
					}
					at, ok := opAssign[be.Op]
					if !ok {
						return true
					}
					as.Tok, as.Rhs[0] = at, ast.Unparen(be.Y)
					n++
				}
				if as.Tok == token.ADD_ASSIGN || as.Tok == token.SUB_ASSIGN {
					tv, ok := info.Types[as.Rhs[0]]
					if !ok || tv.Value == nil || tv.Value.ExactString() != "1" {
						return true
					}
					if b, isB := info.TypeOf(lid).Underlying().(*types.Basic); !isB || b.Info()&types.IsInteger == 0 {
						return true
					}
					tok := token.INC
					if as.Tok == token.SUB_ASSIGN {
						tok = token.DEC
					}
					c.Replace(&ast.IncDecStmt{X: lid, TokPos: as.TokPos, Tok: tok})
					n++
				}
				return true
			})
		}
	}
	return n
}

// ifCanon puts if statements into one of their equivalent spellings, list by list, innermost lists first:
//
//	if !c {A} else {B}            ->  if c {B} else {A}
//	if a != b {A} else {B}        ->  if a == b {B} else {A}
//	if x < y {A} else {B}         ->  if y <= x {B} else {A}     when x is the more constant operand (likewise <=)
//	if c {A; return} else {B}     ->  if c {A; return}; B        (also continue / break / goto)
//	if c {A} else {B; return}     ->  if !c {B; return}; A
//	if c {A; return}; B; return   ->  if !c {B; return}; A; return     when B is the smaller of the two
//
// so that the guard-clause style and the if-else style, a condition and its negation with the branches exchanged, and
// "success inside the if, error after it" versus "error first" all look the same to every rule. Objects were resolved
// before, so moving statements across the scope of an if changes nothing for the analyses.
type ifCanon struct {
	info *types.Info
	n    int
}

// orient puts the condition of an if-else into its canonical polarity, exchanging the branches as needed.
func (k *ifCanon) orient(ifs *ast.IfStmt) {
	for {
		blk, ok := ifs.Else.(*ast.BlockStmt)
		if !ok {
			break
		}
		swap := false
		switch x := ast.Unparen(ifs.Cond).(type) {
		case *ast.UnaryExpr:
			if x.Op == token.NOT {
				ifs.Cond, swap = x.X, true
			}
		case *ast.BinaryExpr:
			switch x.Op {
			case token.NEQ:
				x.Op, swap = token.EQL, true
			case token.LSS, token.LEQ:
				rx, ry := operandRank(k.info, x.X), operandRank(k.info, x.Y)
				if rx > ry || (rx == ry && types.ExprString(x.X) > types.ExprString(x.Y)) {
					x.X, x.Y = x.Y, x.X
					if x.Op == token.LSS {
						x.Op = token.LEQ
					} else {
						x.Op = token.LSS
					}
					swap = true
				}
			}
		}
		if !swap {
			break
		}
		ifs.Body, ifs.Else = blk, ifs.Body
		k.n++
	}
}

func (k *ifCanon) inner(n ast.Node) {
	ast.Inspect(n, func(m ast.Node) bool {
		switch x := m.(type) {
		case *ast.IfStmt:
			k.orient(x) // also for an `else if`, which is not an element of a statement list
		case *ast.BlockStmt:
			x.List = k.stmts(x.List)
			return false
		case *ast.CaseClause:
			x.Body = k.stmts(x.Body)
			return false
		case *ast.CommClause:
			x.Body = k.stmts(x.Body)
			return false
		}
		return true
	})
}

func (k *ifCanon) stmts(list []ast.Stmt) []ast.Stmt {
	for _, st := range list {
		k.inner(st)
	}
	for round := 0; round < 50; round++ {
		changed := false
		for i := len(list) - 1; i >= 0; i-- {
			ifs, ok := list[i].(*ast.IfStmt)
			if !ok {
				continue
			}
			k.orient(ifs)
			// the statements that run when the condition is false: the else block, or - when the body always
			// leaves - what follows the if
			rest := list[i+1:]
			switch els := ifs.Else.(type) {
			case *ast.BlockStmt:
				tT, tE := terminates(ifs.Body.List), terminates(els.List)
				if (tE && !tT) || (tT && tE && k.guardFirst(els.List, ifs.Body.List)) {
					if neg := negateCond(k.info, ifs.Cond); neg != nil {
						ifs.Cond = neg
						ifs.Body, els = els, ifs.Body
						ifs.Else = els
						k.n++
					}
				}
				if terminates(ifs.Body.List) {
					ifs.Else = nil
					nl := append([]ast.Stmt{}, list[:i+1]...)
					nl = append(nl, els.List...)
					list = append(nl, rest...)
					k.n++
					changed = true
				}
			case *ast.IfStmt:
				if terminates(ifs.Body.List) {
					ifs.Else = nil
					nl := append([]ast.Stmt{}, list[:i+1]...)
					nl = append(nl, els)
					list = append(nl, rest...)
					k.n++
					changed = true
				}
			case nil:
				if len(rest) > 0 && terminates(ifs.Body.List) && terminates(rest) && !hasLabel(rest) && k.guardFirst(rest, ifs.Body.List) {
					if neg := negateCond(k.info, ifs.Cond); neg != nil {
						ifs.Cond = neg
						body := ifs.Body.List
						ifs.Body.List = append([]ast.Stmt{}, rest...)
						list = append(append([]ast.Stmt{}, list[:i+1]...), body...)
						k.n++
						changed = true
					}
				}
			}
		}
		if !changed {
			break
		}
	}
	return list
}

// guardFirst: of two statement lists that both leave, should a (rather than b) be the guard clause? The one that is an
// error exit (ends in a return whose last result is a non-nil error) when the other is not; otherwise the smaller one.
func (k *ifCanon) guardFirst(a, b []ast.Stmt) bool {
	ea, eb := k.errorExit(a), k.errorExit(b)
	if ea != eb {
		return ea
	}
	return nodeCountList(a) < nodeCountList(b)
}

func (k *ifCanon) errorExit(list []ast.Stmt) bool {
	if len(list) == 0 {
		return false
	}
	rs, ok := list[len(list)-1].(*ast.ReturnStmt)
	if !ok || len(rs.Results) == 0 {
		return false
	}
	last := ast.Unparen(rs.Results[len(rs.Results)-1])
	if id, ok := last.(*ast.Ident); ok && id.Name == "nil" {
		return false
	}
	t := k.info.TypeOf(last)
	if t == nil {
		return false
	}
	if it, ok := t.Underlying().(*types.Interface); ok {
		for i := 0; i < it.NumMethods(); i++ {
			if it.Method(i).Name() == "Error" {
				return true
			}
		}
		return false
	}
	// a concrete error value
	ms := types.NewMethodSet(t)
	return ms.Lookup(nil, "Error") != nil
}

func hasLabel(list []ast.Stmt) bool {
	for _, st := range list {
		if _, ok := st.(*ast.LabeledStmt); ok {
			return true
		}
	}
	return false
}

func nodeCountList(list []ast.Stmt) int {
	k := 0
	for _, st := range list {
		k += nodeCount(st)
	}
	return k
}

func nodeCount(n ast.Node) int {
	k := 0
	ast.Inspect(n, func(m ast.Node) bool {
		if m != nil {
			k++
		}
		return true
	})
	return k
}

// negateCond returns the negation of a boolean expression: comparisons are flipped in place (staying in the canonical
// `<` / `<=` / `==` / `!=` forms), `!x` loses its `!`, anything else is wrapped in a new `!` node whose type is
// recorded so that later consumers (the SSA builder, the evaluators) find it.
func negateCond(info *types.Info, e ast.Expr) ast.Expr {
	e = ast.Unparen(e)
	switch x := e.(type) {
	case *ast.UnaryExpr:
		if x.Op == token.NOT {
			return x.X
		}
	case *ast.BinaryExpr:
		switch x.Op {
		case token.EQL:
			x.Op = token.NEQ
			return x
		case token.NEQ:
			x.Op = token.EQL
			return x
		case token.LSS:
			x.X, x.Y, x.Op = x.Y, x.X, token.LEQ
			return x
		case token.LEQ:
			x.X, x.Y, x.Op = x.Y, x.X, token.LSS
			return x
		}
	}
	tv, ok := info.Types[e]
	if !ok || tv.Value != nil {
		return nil
	}
	neg := &ast.UnaryExpr{OpPos: e.Pos(), Op: token.NOT, X: e}
	info.Types[neg] = tv
	return neg
}

// operandRank orders the operands of a comparison: compound expressions (0) before plain variables and fields (1),
// those before package-level objects (2), those before constants and nil (3).
func operandRank(info *types.Info, e ast.Expr) int {
	if id, ok := ast.Unparen(e).(*ast.Ident); ok && id.Name == "nil" {
		if _, ok := info.Uses[id].(*types.Nil); ok {
			return 3
		}
	}
	if tv, ok := info.Types[e]; ok && tv.Value != nil {
		return 3
	}
	var obj types.Object
	switch x := ast.Unparen(e).(type) {
	case *ast.Ident:
		obj = info.Uses[x]
	case *ast.SelectorExpr:
		obj = info.Uses[x.Sel]
		if v, isVar := obj.(*types.Var); isVar && v.IsField() {
			return 1
		}
	default:
		return 0
	}
	if obj != nil && obj.Pkg() != nil && obj.Parent() == obj.Pkg().Scope() {
		return 2
	}
	return 1
}
