package main

import (
	"go/ast"
	"go/token"
	"go/types"

	"golang.org/x/tools/go/ast/astutil"
	"golang.org/x/tools/go/packages"
)

// canonicaliseComparisons rewrites, in the loaded syntax trees, every ordering comparison to the `<` / `<=` form
// (`a > b` becomes `b < a`, `a >= b` becomes `b <= a`) and every equality to one operand order (compound expression, variable or field, package-level
// object, constant or nil - in that order; equal kinds by their text). The operands are swapped in place, so the type information recorded for them stays
// valid. The matchers then see one orientation whatever the source uses: a rule cannot fire, or fall silent, because a
// comparison was written the other way round. The operands of a comparison in this module have no side effects whose
// order matters (operands are evaluated left to right in Go; the only calls that occur in comparisons are getters), and
// the folds do not depend on the order.
func canonicaliseComparisons(pkgs []*packages.Package) int {
	n := 0
	for _, p := range pkgs {
		info := p.TypesInfo
		isConst := func(e ast.Expr) bool {
			if id, ok := ast.Unparen(e).(*ast.Ident); ok && id.Name == "nil" {
				if _, ok := info.Uses[id].(*types.Nil); ok {
					return true
				}
			}
			tv, ok := info.Types[e]
			return ok && tv.Value != nil
		}
		// equalities: the operand that says less about the program goes to the right - compound expressions before
		// plain variables and fields, those before package-level objects, those before constants and nil; equal
		// ranks are ordered by their text
		rank := func(e ast.Expr) int {
			if isConst(e) {
				return 3
			}
			var obj types.Object
			switch x := ast.Unparen(e).(type) {
			case *ast.Ident:
				obj = info.Uses[x]
			case *ast.SelectorExpr:
				obj = info.Uses[x.Sel]
				if _, isField := obj.(*types.Var); isField && obj.(*types.Var).IsField() {
					return 1
				}
			default:
				return 0
			}
			if obj != nil && obj.Pkg() != nil && obj.Parent() == obj.Pkg().Scope() {
				return 2
			}
			return 1
		}
		for _, f := range p.Syntax {
			ast.Inspect(f, func(nd ast.Node) bool {
				be, ok := nd.(*ast.BinaryExpr)
				if !ok {
					return true
				}
				switch be.Op {
				case token.GTR:
					be.X, be.Y, be.Op = be.Y, be.X, token.LSS
					n++
				case token.GEQ:
					be.X, be.Y, be.Op = be.Y, be.X, token.LEQ
					n++
				case token.EQL, token.NEQ:
					rx, ry := rank(be.X), rank(be.Y)
					if rx > ry || (rx == ry && types.ExprString(be.X) > types.ExprString(be.Y)) {
						be.X, be.Y = be.Y, be.X
						n++
					}
				}
				return true
			})
		}
	}
	return n
}

// canonicaliseUpdates rewrites the statement `var x = v` to `x := v`, `x = x op y` to `x op= y` (x a plain variable) and `x += 1` / `x -= 1` to `x++` / `x--`
// in the loaded syntax trees: three spellings of one statement. It runs before the SSA form is built.
func canonicaliseUpdates(pkgs []*packages.Package) int {
	n := 0
	opAssign := map[token.Token]token.Token{token.ADD: token.ADD_ASSIGN, token.SUB: token.SUB_ASSIGN, token.MUL: token.MUL_ASSIGN,
		token.QUO: token.QUO_ASSIGN, token.REM: token.REM_ASSIGN, token.AND: token.AND_ASSIGN, token.OR: token.OR_ASSIGN,
		token.XOR: token.XOR_ASSIGN, token.SHL: token.SHL_ASSIGN, token.SHR: token.SHR_ASSIGN, token.AND_NOT: token.AND_NOT_ASSIGN}
	for _, p := range pkgs {
		info := p.TypesInfo
		for _, f := range p.Syntax {
			astutil.Apply(f, nil, func(c *astutil.Cursor) bool {
				// `var x = v` as a statement is `x := v`
				if ds, isD := c.Node().(*ast.DeclStmt); isD {
					if gd, isG := ds.Decl.(*ast.GenDecl); isG && gd.Tok == token.VAR && len(gd.Specs) == 1 {
						if vs, isV := gd.Specs[0].(*ast.ValueSpec); isV && vs.Type == nil && len(vs.Names) == 1 && len(vs.Values) == 1 && vs.Names[0].Name != "_" {
							if _, inBlock := c.Parent().(*ast.BlockStmt); inBlock {
								c.Replace(&ast.AssignStmt{Lhs: []ast.Expr{vs.Names[0]}, TokPos: vs.Names[0].End(), Tok: token.DEFINE, Rhs: []ast.Expr{vs.Values[0]}})
								n++
							}
						}
					}
					return true
				}
				as, ok := c.Node().(*ast.AssignStmt)
				if !ok || len(as.Lhs) != 1 || len(as.Rhs) != 1 {
					return true
				}
				lid, ok := as.Lhs[0].(*ast.Ident)
				if !ok {
					return true
				}
				if as.Tok == token.ASSIGN {
					be, ok := ast.Unparen(as.Rhs[0]).(*ast.BinaryExpr)
					if !ok {
						return true
					}
					xid, ok := ast.Unparen(be.X).(*ast.Ident)
					if !ok || info.Uses[xid] == nil || info.Uses[xid] != info.Uses[lid] {
						return true
					}
					at, ok := opAssign[be.Op]
					if !ok {
						return true
					}
					as.Tok, as.Rhs[0] = at, ast.Unparen(be.Y)
					n++
				}
				if as.Tok == token.ADD_ASSIGN || as.Tok == token.SUB_ASSIGN {
					tv, ok := info.Types[as.Rhs[0]]
					if !ok || tv.Value == nil || tv.Value.ExactString() != "1" {
						return true
					}
					if b, isB := info.TypeOf(lid).Underlying().(*types.Basic); !isB || b.Info()&types.IsInteger == 0 {
						return true
					}
					tok := token.INC
					if as.Tok == token.SUB_ASSIGN {
						tok = token.DEC
					}
					c.Replace(&ast.IncDecStmt{X: lid, TokPos: as.TokPos, Tok: tok})
					n++
				}
				return true
			})
		}
	}
	return n
}
