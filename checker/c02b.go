package main

import (
	"fmt"
	"go/ast"
	"go/types"
	"math"
	"os"
	"strings"
)

// refDMDecode is the checker's own reading of an ECC 200 data codeword stream (ISO 16022 5.2): ASCII with digit
// pairs, upper shift, the C40 / Text / X12 / EDIFACT / Base 256 latches, pad. It returns the bytes (ISO 8859-1).
func refDMDecode(cw []int) ([]byte, string) {
	var out []byte
	i := 0
	c40basic := " 0123456789ABCDEFGHIJKLMNOPQRSTUVWXYZ"
	textbasic := " 0123456789abcdefghijklmnopqrstuvwxyz"
	shift2 := "!\"#$%&'()*+,-./:;<=>?@[\\]^_"
	textshift3 := "`ABCDEFGHIJKLMNOPQRSTUVWXYZ{|}~\x7f"
	triplets := func(text bool) string {
		upper := false
		shift := 0
		for {
			if i >= len(cw) {
				return ""
			}
			if len(cw)-i == 1 {
				return "" // one codeword left: ASCII
			}
			if cw[i] == 254 {
				i++
				return ""
			}
			v := cw[i]*256 + cw[i+1] - 1
			i += 2
			for _, x := range []int{v / 1600, v / 40 % 40, v % 40} {
				emit := func(b int) {
					if upper {
						b += 128
						upper = false
					}
					out = append(out, byte(b))
				}
				switch shift {
				case 0:
					if x < 3 {
						shift = x + 1
					} else if x-3 < len(c40basic) {
						if text {
							emit(int(textbasic[x-3]))
						} else {
							emit(int(c40basic[x-3]))
						}
					} else {
						return fmt.Sprintf("C40 value %d", x)
					}
				case 1:
					emit(x)
					shift = 0
				case 2:
					switch {
					case x < len(shift2):
						emit(int(shift2[x]))
					case x == 27:
						emit(29)
					case x == 30:
						upper = true
					default:
						return fmt.Sprintf("shift 2 value %d", x)
					}
					shift = 0
				case 3:
					if text {
						if x >= len(textshift3) {
							return fmt.Sprintf("shift 3 value %d", x)
						}
						emit(int(textshift3[x]))
					} else {
						emit(x + 96)
					}
					shift = 0
				}
			}
		}
	}
	upper := false
	for i < len(cw) {
		w := cw[i]
		i++
		switch {
		case w == 0:
			return out, "codeword 0"
		case w <= 128:
			b := w - 1
			if upper {
				b += 128
				upper = false
			}
			out = append(out, byte(b))
		case w == 129:
			return out, ""
		case w == 254 && i == len(cw):
			// the last codeword of the symbol, read in ASCII mode after a C40 / Text / X12 run that ends one codeword
			// before the end: an explicit unlatch where the standard allows leaving it implicit - tolerated, as by readers
			return out, ""
		case w <= 229:
			v := w - 130
			out = append(out, byte('0'+v/10), byte('0'+v%10))
		case w == 230:
			if e := triplets(false); e != "" {
				return out, e
			}
		case w == 239:
			if e := triplets(true); e != "" {
				return out, e
			}
		case w == 235:
			upper = true
		case w == 231:
			// Base 256
			pos := i + 1
			unr := func(v, p int) int {
				t := v - ((149*p)%255 + 1)
				if t < 0 {
					t += 256
				}
				return t
			}
			if i >= len(cw) {
				return out, "truncated Base 256"
			}
			d1 := unr(cw[i], pos)
			i++
			pos++
			n := 0
			switch {
			case d1 == 0:
				n = len(cw) - i
			case d1 < 250:
				n = d1
			default:
				if i >= len(cw) {
					return out, "truncated Base 256 length"
				}
				n = 250*(d1-249) + unr(cw[i], pos)
				i++
				pos++
			}
			if n < 0 || i+n > len(cw) {
				return out, "Base 256 length beyond the symbol"
			}
			for k := 0; k < n; k++ {
				out = append(out, byte(unr(cw[i], pos)))
				i++
				pos++
			}
		case w == 238:
			// X12
			for {
				if i >= len(cw) || len(cw)-i == 1 {
					break
				}
				if cw[i] == 254 {
					i++
					break
				}
				v := cw[i]*256 + cw[i+1] - 1
				i += 2
				for _, x := range []int{v / 1600, v / 40 % 40, v % 40} {
					switch {
					case x == 0:
						out = append(out, '\r')
					case x == 1:
						out = append(out, '*')
					case x == 2:
						out = append(out, '>')
					case x == 3:
						out = append(out, ' ')
					case x < 14:
						out = append(out, byte('0'+x-4))
					case x < 40:
						out = append(out, byte('A'+x-14))
					}
				}
			}
		case w == 240:
			// EDIFACT
			done := false
			for !done && i < len(cw) {
				if len(cw)-i <= 2 {
					break // one or two codewords left in the symbol: they are ASCII codewords
				}
				var bits uint32
				nb := 0
				for k := 0; k < 3 && i < len(cw); k++ {
					bits = bits<<8 | uint32(cw[i])
					i++
					nb++
				}
				bits <<= uint(8 * (3 - nb))
				for k := 0; k < 4; k++ {
					if nb*8 < (k+1)*6 {
						break
					}
					v := int(bits >> uint(18-6*k) & 0x3f)
					if v == 0x1f {
						done = true
						// the rest of the current byte group is dropped: back to ASCII on the next byte boundary
						used := ((k+1)*6 + 7) / 8
						i -= nb - used
						break
					}
					if v&0x20 == 0 {
						v |= 0x40
					}
					out = append(out, byte(v))
				}
			}
		default:
			return out, fmt.Sprintf("codeword %d", w)
		}
	}
	return out, ""
}

// S-DMWHOLE: the Data Matrix high-level encoder as a whole, on short texts
func checkDMWholeEncode(c *Ctx, r *Report) { checkDMWholeEncodeParts(c, r, true) }

// checkDMPadding is the S-DMPAD part alone (C08: the pad codewords are part of the symbol the standard prescribes).
func checkDMPadding(c *Ctx, r *Report) { checkDMWholeEncodeParts(c, r, false) }

func checkDMWholeEncodeParts(c *Ctx, r *Report, texts bool) {
	if texts {
		r.Rule("S-DMWHOLE", "EncodeHighLevel, folded from source as a whole - the six mode encoders, the look-ahead test with its floating-point counts, the end-of-data handlers, the encoder context and SymbolInfo_Lookup on the literal symbol table - for each text of two families (a run of 0 to 8 capitals or 6 to 7 small letters followed by every text of up to 3 characters, in the thorough tier 4, over a capital, a digit, a space, a small letter, a comma, a control character and two characters above 127; seven small letters or eight capitals followed by every text of 4 to 5 characters over a digit, a comma, a capital and a character above 127, in the thorough tier 5 to 6 over six characters; five segment-like runs over capitals, '*', '>' and carriage return, which the look-ahead hands to the X12 encoder, followed by every text of up to 2 characters, in the thorough tier 4, over characters inside and outside the X12 set): it returns codewords without an error, their number is a symbol capacity, and the checker's own reading of the codeword stream (ISO 16022 5.2: ASCII, digit pairs, upper shift, C40, Text, X12, EDIFACT, Base 256, pad) gives back exactly the text's ISO 8859-1 bytes", 1)
	}
	fd, p := c.funcDeclOf("datamatrix/encoder", "EncodeHighLevel")
	key := "datamatrix/encoder.EncodeHighLevel whole"
	ruleName := "S-DMWHOLE"
	if !texts {
		ruleName = "S-DMPAD"
		r.Rule("S-DMPAD", "EncodeHighLevel folded whole on a one-letter text with a MIN_SIZE hint (see the obligations)", 3)
	}
	syms := extractDMSymbols(c, r, ruleName)
	symbolsObj := c.lookupObj("datamatrix/encoder", "symbols")
	if fd == nil || len(syms) == 0 || symbolsObj == nil {
		r.AnchorLost(ruleName, key, "EncodeHighLevel / symbols table not found")
		return
	}
	if texts {
		r.Analysed(key)
	}
	table := &Val{K: VList}
	caps := map[int]bool{}
	for i, s := range syms {
		table.L = append(table.L, &Val{K: VStruct, Ptr: true, Fields: map[string]*Val{
			"rectangular": vbool(s.rect), "dataCapacity": vint(int64(s.data)), "errorCodewords": vint(int64(s.ec)),
			"matrixWidth": vint(int64(s.mw)), "matrixHeight": vint(int64(s.mh)), "dataRegions": vint(int64(s.regions)),
			"rsBlockData": vint(int64(s.rsData)), "rsBlockError": vint(int64(s.rsErr)), "rowIndex": vint(int64(i))}})
		caps[s.data] = true
	}
	globals := map[types.Object]*Val{symbolsObj: table}
	var runMin func(text []byte, minSize *Val) ([]int, string)
	run := func(text []byte) ([]int, string) { return runMin(text, &Val{K: VNil}) }
	runMin = func(text []byte, minSize *Val) ([]int, string) {
		msg := &Val{K: VList}
		for _, b := range text {
			msg.L = append(msg.L, vint(int64(b)))
		}
		h := &rpf{unroll: 100000, maxSteps: 5000000, effectCalls: true, env: map[types.Object]*Val{}}
		h.callHook = func(rr *rpf, call *ast.CallExpr, callee types.Object) (*Val, bool) {
			if f, ok := callee.(*types.Func); ok && f.Pkg() != nil && f.Pkg().Path() == "math" && len(call.Args) == 1 {
				if a := rr.expr(call.Args[0]); a.K == VFloat {
					switch f.Name() {
					case "Ceil":
						return &Val{K: VFloat, F: math.Ceil(a.F)}, true
					case "Floor":
						return &Val{K: VFloat, F: math.Floor(a.F)}, true
					}
				}
			}
			return errCtorHook(rr, call, callee)
		}
		h.multiHook = func(call *ast.CallExpr, callee types.Object) ([]*Val, bool) {
			if isFuncNamed(callee, "datamatrix/encoder", "NewEncoderContext") {
				ctx := &Val{K: VStruct, Ptr: true, Local: true, Fields: map[string]*Val{
					"msg": msg, "shape": vint(0), "minSize": {K: VNil}, "maxSize": {K: VNil}, "codewords": {K: VList, Local: true},
					"pos": vint(0), "newEncoding": vint(-1), "symbolInfo": {K: VNil}, "skipAtEnd": vint(0)}}
				if ec := c.lookupObj("datamatrix/encoder", "EncoderContext"); ec != nil {
					ctx.T = types.NewPointer(ec.Type())
				}
				return []*Val{ctx, {K: VNil}}, true
			}
			return nil, false
		}
		res, err := c.rpfCallWithGlobals(fd, p, []*Val{vstr(string(text)), vint(0), minSize, {K: VNil}}, h, globals)
		if err != nil {
			return nil, "?" + err.Error()
		}
		if len(res) != 2 {
			return nil, "?unexpected result shape"
		}
		if res[1].K != VNil {
			return nil, "the encoder refuses it with an error"
		}
		cw, ok := listInts(res[0])
		if !ok {
			return nil, "?the codewords are not constants"
		}
		out := make([]int, len(cw))
		for i, x := range cw {
			out[i] = int(x)
		}
		return out, ""
	}
	if !texts {
		checkDMPadWith(c, r, fd, runMin)
		return
	}
	alpha := []byte{'A', '1', ' ', 'a', ',', 1, 0xC1, 0xE9}
	maxLen := 3
	if c.Tier == "thorough" {
		maxLen = 4
	}
	prefixes := []string{"", "AAA", "AAAA", "AAAAA", "AAAAAA", "AAAAAAA", "AAAAAAAA", "aaaaaa", "aaaaaaa"}
	if s := os.Getenv("GZ_DMWHOLE_ONE"); s != "" {
		var bs []byte
		for _, ch := range s {
			bs = append(bs, byte(ch))
		}
		cw, bad := run(bs)
		fmt.Println("DMWHOLE", bs, cw, bad)
	}
	bad := ""
	folds := 0
	var rec func(tail []byte)
	rec = func(tail []byte) {
		if bad != "" {
			return
		}
		if len(tail) > 0 {
			for _, pre := range prefixes {
				text := append([]byte(pre), tail...)
				cw, b := run(text)
				folds++
				if b != "" {
					if b[0] == '?' {
						bad = fmt.Sprintf("?text %q: %s", text, b[1:])
					} else {
						bad = fmt.Sprintf("text %q (ISO 8859-1 bytes): %s", text, b)
					}
					return
				}
				if !caps[len(cw)] {
					bad = fmt.Sprintf("text %q: %d codewords are returned, which is not the data capacity of a symbol", text, len(cw))
					return
				}
				got, e := refDMDecode(cw)
				if e != "" {
					bad = fmt.Sprintf("text %q is written as the codewords %v, which cannot be read (%s)", text, cw, e)
					return
				}
				if string(got) != string(text) {
					bad = fmt.Sprintf("text %q is written as the codewords %v, which read as %q", text, cw, got)
					return
				}
			}
		}
		if len(tail) == maxLen {
			return
		}
		for _, a := range alpha {
			rec(append(append([]byte{}, tail...), a))
		}
	}
	rec(nil)
	// longer tails over fewer characters, behind the two runs that put the encoder into Text and C40 mode with one
	// and with two codewords written: the end-of-data rules meet backtracking over several characters there
	if bad == "" {
		alpha = []byte{'1', ',', 'A', 0xC1}
		prefixes = []string{"aaaaaaa", "AAAAAAAA"}
		lo := maxLen + 1
		maxLen = 5
		if c.Tier == "thorough" {
			alpha = []byte{'1', ',', 'A', 0xC1, 'a', 0xE9}
			maxLen = 6
		}
		var rec2 func(tail []byte)
		rec2 = func(tail []byte) {
			if bad != "" {
				return
			}
			if len(tail) == maxLen {
				rec(tail) // folds the text, does not extend it (len == maxLen)
				return
			}
			if len(tail) >= lo {
				saved := maxLen
				maxLen = len(tail)
				rec(tail)
				maxLen = saved
			}
			for _, a := range alpha {
				rec2(append(append([]byte{}, tail...), a))
			}
		}
		rec2(nil)
	}
	// texts the look-ahead hands to the X12 encoder: segment-like runs followed by short tails that stay in, leave and
	// re-enter the X12 set
	if bad == "" {
		alpha = []byte{'A', '*', '\r', 'a', '.', '1', '>'}
		prefixes = []string{"AB*CD*EF*", "\r\r\r\r\r\r", "ABC>DEF>GHI>", "AB*CD*EF*G", "AB*CD*EF*GH"}
		maxLen = 2
		if c.Tier == "thorough" {
			maxLen = 4
		}
		rec(nil)
	}
	r.Extra("S-DMWHOLE texts folded", folds)
	_ = strings.Contains
	reportFold(r, c, "S-DMWHOLE", key, fd.Pos(), bad)

	checkDMPadWith(c, r, fd, runMin)
}

func checkDMPadWith(c *Ctx, r *Report, fd *ast.FuncDecl, runMin func(text []byte, minSize *Val) ([]int, string)) {
	// ---- the pad codewords of large symbols: positions at and beyond the period of the 253-state sequence
	r.Rule("S-DMPAD", "EncodeHighLevel folded whole on the text \"A\" with a MIN_SIZE of 64x64, 88x88 and 144x144 (280, 576 and 1558 data codewords: positions 253, 506, ... 1518 among the padding): the result fills the symbol, the first pad codeword is 129 and the one at position p (counted from 1) is 129 + (149*p mod 253) + 1, less 254 when that exceeds 254 - ISO 16022 Annex B.1 at every position, the multiples of 253 included", 3)
	for _, dim := range [][2]int64{{64, 280}, {88, 576}, {144, 1558}} {
		pkey := fmt.Sprintf("datamatrix/encoder.EncodeHighLevel padding to %dx%d", dim[0], dim[0])
		r.Analysed(pkey)
		cw, why := runMin([]byte("A"), &Val{K: VStruct, Ptr: true, Fields: map[string]*Val{"width": vint(dim[0]), "height": vint(dim[0])}})
		pbad := why
		if pbad == "" {
			switch {
			case int64(len(cw)) != dim[1]:
				pbad = fmt.Sprintf("%d codewords, the symbol holds %d", len(cw), dim[1])
			case cw[0] != 'A'+1 || cw[1] != 129:
				pbad = fmt.Sprintf("the stream starts %d %d, expected 66 (the letter) and 129 (the first pad)", cw[0], cw[1])
			default:
				for i := 2; i < len(cw); i++ {
					want := 129 + (149*(i+1))%253 + 1
					if want > 254 {
						want -= 254
					}
					if cw[i] != want {
						pbad = fmt.Sprintf("the pad codeword at position %d is %d, the 253-state rule gives %d", i+1, cw[i], want)
						break
					}
				}
			}
		}
		reportFold(r, c, "S-DMPAD", pkey, fd.Pos(), pbad)
	}
}
