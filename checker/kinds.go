package main

import (
	"fmt"
	"go/types"
	"sort"
	"strings"

	"golang.org/x/tools/go/ssa"
)

// Error-kind lattice: for every function with an error-typed result, the set of kinds it may return.
// Kinds are determined by *types* (which marker interfaces the concrete error type implements), not by names.

type kindSet map[string]bool

const (
	kNotFound = "NotFound"
	kChecksum = "Checksum"
	kFormat   = "Format"
	kReader   = "ReaderOther" // a ReaderException that is none of the three documented kinds
	kWriter   = "Writer"
	kRS       = "ReedSolomon"
	kRaw      = "Raw" // any other error value (errors.New, strconv, x/text, ...)
)

func (k kindSet) add(o kindSet) bool {
	ch := false
	for x := range o {
		if !k[x] {
			k[x] = true
			ch = true
		}
	}
	return ch
}

func (k kindSet) list() []string {
	var out []string
	for x := range k {
		out = append(out, x)
	}
	sort.Strings(out)
	return out
}

type kindFlow struct {
	nf      *nilFlow
	c       *Ctx
	markers map[string]*types.Interface
	kinds   map[*ssa.Function]kindSet
	errIdx  map[*ssa.Function]int
	wrapRdr *ssa.Function
	rawSrc  map[*ssa.Function]map[string]bool // where Raw came from (for diagnostics)
	guards  *rawGuards
}

func (c *Ctx) newKindFlow(nf *nilFlow) *kindFlow { return c.newKindFlowWith(nf, nil) }

func (c *Ctx) newKindFlowWith(nf *nilFlow, guards *rawGuards) *kindFlow {
	kf := &kindFlow{nf: nf, c: c, guards: guards, markers: map[string]*types.Interface{}, kinds: map[*ssa.Function]kindSet{}, errIdx: map[*ssa.Function]int{}, rawSrc: map[*ssa.Function]map[string]bool{}}
	for name, key := range map[string]string{"NotFoundException": kNotFound, "ChecksumException": kChecksum, "FormatException": kFormat, "ReaderException": kReader, "WriterException": kWriter} {
		if obj := c.lookupObj("", name); obj != nil {
			if it, ok := obj.Type().Underlying().(*types.Interface); ok {
				kf.markers[key] = it
			}
		}
	}
	if obj := c.lookupObj("common/reedsolomon", "ReedSolomonException"); obj != nil {
		if it, ok := obj.Type().Underlying().(*types.Interface); ok {
			kf.markers[kRS] = it
		}
	}
	kf.wrapRdr = c.ssaFunc("", "WrapReaderException")
	for _, f := range nf.funcs {
		res := f.Signature.Results()
		idx := -1
		for i := 0; i < res.Len(); i++ {
			if isErrorType(res.At(i).Type()) {
				idx = i
			}
		}
		if idx >= 0 {
			kf.errIdx[f] = idx
			kf.kinds[f] = kindSet{}
		}
	}
	for iter := 0; iter < 60; iter++ {
		changed := false
		for _, f := range nf.funcs {
			idx, ok := kf.errIdx[f]
			if !ok {
				continue
			}
			for _, r := range returnsOf(f) {
				ks := kf.valueKinds(retVals(r)[idx], f, map[ssa.Value]bool{}, 0)
				if kf.kinds[f].add(ks) {
					changed = true
				}
			}
		}
		if !changed {
			break
		}
	}
	return kf
}

func (kf *kindFlow) typeKinds(t types.Type) kindSet {
	// concrete (or interface) type -> kinds by marker interfaces
	ks := kindSet{}
	impl := func(k string) bool {
		it := kf.markers[k]
		return it != nil && types.Implements(t, it)
	}
	switch {
	case impl(kNotFound):
		ks[kNotFound] = true
	case impl(kChecksum):
		ks[kChecksum] = true
	case impl(kFormat):
		ks[kFormat] = true
	case impl(kReader):
		ks[kReader] = true
	case impl(kWriter):
		ks[kWriter] = true
	case impl(kRS):
		ks[kRS] = true
	default:
		ks[kRaw] = true
	}
	return ks
}

func (kf *kindFlow) valueKinds(v ssa.Value, in *ssa.Function, seen map[ssa.Value]bool, depth int) kindSet {
	out := kindSet{}
	if seen[v] || depth > 10 {
		return out
	}
	seen[v] = true
	switch x := v.(type) {
	case *ssa.Const:
		if x.IsNil() {
			return out
		}
		out[kRaw] = true
	case *ssa.MakeInterface:
		return kf.typeKinds(x.X.Type())
	case *ssa.ChangeInterface:
		ks := kf.valueKinds(x.X, in, seen, depth+1)
		return ks
	case *ssa.ChangeType:
		return kf.valueKinds(x.X, in, seen, depth+1)
	case *ssa.Phi:
		for _, e := range x.Edges {
			out.add(kf.valueKinds(e, in, seen, depth+1))
		}
	case *ssa.TypeAssert:
		inner := kf.valueKinds(x.X, in, seen, depth+1)
		return kf.restrict(inner, x.AssertedType)
	case *ssa.Extract:
		switch t := x.Tuple.(type) {
		case *ssa.Call:
			return kf.callKinds(t, in, seen, depth)
		case *ssa.TypeAssert:
			if x.Index == 0 {
				inner := kf.valueKinds(t.X, in, seen, depth+1)
				return kf.restrict(inner, t.AssertedType)
			}
		}
		out[kRaw] = true
	case *ssa.Call:
		return kf.callKinds(x, in, seen, depth)
	case *ssa.Parameter:
		// union over the arguments at the repository's call sites of this function
		idx := -1
		for i, p := range in.Params {
			if p == x {
				idx = i
			}
		}
		n := kf.c.CG().Nodes[in]
		if n == nil || idx < 0 || len(n.In) == 0 {
			out[kRaw] = true
			return out
		}
		for _, e := range n.In {
			if e.Site == nil || e.Caller == nil || e.Caller.Func == nil || !isRepoPkgFn(e.Caller.Func) {
				continue
			}
			args := e.Site.Common().Args
			if e.Site.Common().IsInvoke() {
				// invoke: receiver is not in Args
				if idx == 0 {
					continue
				}
				if idx-1 < len(args) {
					out.add(kf.valueKinds(args[idx-1], e.Caller.Func, seen, depth+1))
				}
			} else if idx < len(args) {
				out.add(kf.valueKinds(args[idx], e.Caller.Func, seen, depth+1))
			}
		}
	default:
		if isErrorType(v.Type()) {
			// loads, fields, lookups: the static type may still tell the kind
			ks := kf.typeKinds(v.Type())
			return ks
		}
		out[kRaw] = true
	}
	return out
}

func (kf *kindFlow) restrict(ks kindSet, asserted types.Type) kindSet {
	it, ok := asserted.Underlying().(*types.Interface)
	if !ok {
		return kf.typeKinds(asserted)
	}
	out := kindSet{}
	for k := range ks {
		// which kinds can satisfy the asserted interface?
		switch {
		case kf.markers[k] != nil && (types.Identical(kf.markers[k], it) || types.Implements(kf.markers[k], it) || kindImplies(kf, k, it)):
			out[k] = true
		case k == kRaw:
			// a raw error could implement anything only if the asserted interface is plain `error`
			if it.NumMethods() == 1 && it.Method(0).Name() == "Error" {
				out[k] = true
			}
		}
	}
	return out
}

// kindImplies: every value of kind k implements interface it (e.g. Format implies ReaderException)
func kindImplies(kf *kindFlow, k string, it *types.Interface) bool {
	m := kf.markers[k]
	if m == nil {
		return false
	}
	// m embeds it?
	return types.Implements(types.NewInterfaceType(nil, []types.Type{m}).Complete(), it)
}

func (kf *kindFlow) callKinds(call *ssa.Call, in *ssa.Function, seen map[ssa.Value]bool, depth int) kindSet {
	out := kindSet{}
	cs := kf.nf.callees(call)
	if len(cs) == 0 {
		out[kRaw] = true
		return out
	}
	for _, g := range cs {
		if kf.wrapRdr != nil && g == kf.wrapRdr && len(call.Call.Args) == 1 {
			// transparent wrap: errors.As still reaches the inner kind through Unwrap
			inner := kf.valueKinds(call.Call.Args[0], in, seen, depth+1)
			for k := range inner {
				if k == kRaw {
					out[kReader] = true
				} else {
					out[k] = true
				}
			}
			continue
		}
		if !isRepoPkgFn(g) || g.Blocks == nil {
			if kf.guards != nil && kf.guards.discharged(call, g) {
				continue
			}
			out[kRaw] = true
			continue
		}
		if ks, ok := kf.kinds[g]; ok {
			if kf.guards != nil && ks[kRaw] && kf.guards.discharged(call, g) {
				for k := range ks {
					if k != kRaw {
						out[k] = true
					}
				}
				continue
			}
			out.add(ks)
		} else {
			// result type tells
			if t := call.Type(); t != nil && isErrorType(t) {
				out.add(kf.typeKinds(t))
			} else {
				out[kRaw] = true
			}
		}
	}
	return out
}

// rawGuards: frozen (caller, callee) rows under which a Raw-producing callee cannot fail at that site
type rawGuards struct {
	rows map[string]string
	used map[string]bool
}

func (g *rawGuards) discharged(call *ssa.Call, callee *ssa.Function) bool {
	if g == nil {
		return false
	}
	k := shortFn(call.Parent()) + " -> " + shortFn(callee)
	if !isRepoPkgFn(callee) {
		k = shortFn(call.Parent()) + " -> " + extName(callee)
	}
	if _, ok := g.rows[k]; ok {
		g.used[k] = true
		return true
	}
	return false
}

func kindsSubset(ks kindSet, allowed ...string) []string {
	al := map[string]bool{}
	for _, a := range allowed {
		al[a] = true
	}
	var bad []string
	for k := range ks {
		if !al[k] {
			bad = append(bad, k)
		}
	}
	sort.Strings(bad)
	return bad
}

func trimMod(s string) string {
	return strings.ReplaceAll(strings.ReplaceAll(s, modPath+"/", ""), modPath, "gozxing")
}

// kindOrigins lists, for function f and kind k, the chains "f <- g <- h: leaf at pos" along which k reaches f.
func (kf *kindFlow) kindOrigins(f *ssa.Function, k string, limit int) []string {
	var out []string
	seenF := map[*ssa.Function]bool{}
	var walk func(g *ssa.Function, chain []string)
	walk = func(g *ssa.Function, chain []string) {
		if seenF[g] || len(out) >= limit {
			return
		}
		seenF[g] = true
		idx, ok := kf.errIdx[g]
		if !ok {
			return
		}
		chain = append(chain, shortFn(g))
		for _, r := range returnsOf(g) {
			kf.originsOfValue(retVals(r)[idx], g, k, chain, map[ssa.Value]bool{}, &out, walk, limit)
		}
	}
	walk(f, nil)
	return out
}

func (kf *kindFlow) originsOfValue(v ssa.Value, in *ssa.Function, k string, chain []string, seen map[ssa.Value]bool, out *[]string,
	walk func(*ssa.Function, []string), limit int) {
	if seen[v] || len(*out) >= limit {
		return
	}
	seen[v] = true
	leaf := func(what string) {
		*out = append(*out, strings.Join(chain, " <- ")+": "+what+" at "+kf.c.pos(v.Pos()))
	}
	switch x := v.(type) {
	case *ssa.Phi:
		for _, e := range x.Edges {
			kf.originsOfValue(e, in, k, chain, seen, out, walk, limit)
		}
	case *ssa.ChangeInterface:
		kf.originsOfValue(x.X, in, k, chain, seen, out, walk, limit)
	case *ssa.ChangeType:
		kf.originsOfValue(x.X, in, k, chain, seen, out, walk, limit)
	case *ssa.MakeInterface:
		if kf.typeKinds(x.X.Type())[k] {
			leaf("value of type " + trimMod(x.X.Type().String()))
		}
	case *ssa.Extract:
		if call, ok := x.Tuple.(*ssa.Call); ok {
			kf.originsOfCall(call, in, k, chain, seen, out, walk, limit, leaf)
		}
	case *ssa.Call:
		kf.originsOfCall(x, in, k, chain, seen, out, walk, limit, leaf)
	case *ssa.Parameter:
		ks := kf.valueKinds(x, in, map[ssa.Value]bool{}, 0)
		if ks[k] {
			leaf("parameter " + x.Name() + " (from callers)")
		}
	default:
		ks := kf.valueKinds(v, in, map[ssa.Value]bool{}, 0)
		if ks[k] {
			leaf("value")
		}
	}
}

func (kf *kindFlow) originsOfCall(call *ssa.Call, in *ssa.Function, k string, chain []string, seen map[ssa.Value]bool, out *[]string,
	walk func(*ssa.Function, []string), limit int, leaf func(string)) {
	for _, g := range kf.nf.callees(call) {
		if kf.wrapRdr != nil && g == kf.wrapRdr && len(call.Call.Args) == 1 {
			if k == kReader {
				inner := kf.valueKinds(call.Call.Args[0], in, map[ssa.Value]bool{}, 0)
				if inner[kRaw] {
					kf.originsOfValue(call.Call.Args[0], in, kRaw, append(chain, "WrapReaderException"), seen, out, walk, limit)
				}
			} else {
				kf.originsOfValue(call.Call.Args[0], in, k, chain, seen, out, walk, limit)
			}
			continue
		}
		if !isRepoPkgFn(g) || g.Blocks == nil {
			if k == kRaw && !(kf.guards != nil && kf.guards.discharged(call, g)) {
				leaf("external call " + extName(g))
			}
			continue
		}
		if kf.kinds[g][k] {
			if kf.guards != nil && k == kRaw && kf.guards.discharged(call, g) {
				continue
			}
			walk(g, append(chain, fmt.Sprintf("[call at %s]", kf.c.pos(call.Pos()))))
		}
	}
}
