package main

import (
	"fmt"
	"os"
	"strings"

	"golang.org/x/tools/go/ssa"
)

func debugKinds(kf *kindFlow) {
	if os.Getenv("GZ_DEBUG_KINDS") == "" {
		return
	}
	for f, ks := range kf.kinds {
		fmt.Printf("KINDS %s = %v\n", shortFn(f), ks.list())
	}
	if fn := os.Getenv("GZ_DEBUG_KINDS"); fn != "1" {
		for f := range kf.kinds {
			if shortFn(f) == fn || (fn == "ENTRIES" && (f.Name() == "Decode" || f.Name() == "DecodeRow" || f.Name() == "Encode") && f.Synthetic == "") {
				for _, k := range []string{kRaw, kReader} {
					for _, o := range kf.kindOrigins(f, k, 40) {
						if i := strings.LastIndex(o, " <- "); i >= 0 {
							o = o[i+4:]
						}
						fmt.Println("ORIGIN", k, o)
					}
				}
			}
		}
	}
}

func debugNil(nf *nilFlow, c *Ctx) {
	name := os.Getenv("GZ_DEBUG_FN")
	if name == "" {
		return
	}
	for _, f := range nf.funcs {
		if shortFn(f) != name {
			continue
		}
		for _, r := range returnsOf(f) {
			facts := nf.factsAt(r.Block())
			fmt.Printf("return at %s block %d\n", c.pos(r.Pos()), r.Block().Index)
			for v, n := range facts {
				if v == nil {
					continue
				}
				nm := "?"
				if vv, ok := v.(interface{ Name() string }); ok && v != nil {
					func() {
						defer func() { recover() }()
						nm = vv.Name()
					}()
				}
				fmt.Printf("   fact %s = %s\n", nm, nilName(n))
			}
			for i, v := range r.Results {
				fmt.Printf("   result %d (%s) = %s\n", i, v.Name(), nilName(nf.classify(v, facts, r.Block(), 0)))
			}
		}
	}
	_ = ssa.Value(nil)
}
