package main

import (
	"fmt"
	"go/ast"
	"go/constant"
	"go/token"
	"go/types"
	"strings"

	"golang.org/x/tools/go/packages"
	"golang.org/x/tools/go/types/typeutil"
)

// ---------------------------------------------------------------------------------------------------------------
// S-ROTATE: the quarter turn maps pixel (x', y') of the result to (width-1-y', x') of the view
// ---------------------------------------------------------------------------------------------------------------

func checkRotate(c *Ctx, r *Report) {
	defer checkRotateWhole(c, r)
	r.Rule("S-ROTATE", "GoImageLuminanceSource.RotateCounterClockwise writes new[y'*H + x'] = old[(top+x')*dataWidth + left+W-1-y'] for the W x H view and returns an H x W source whose dataWidth is H, dataHeight W and offsets 0: the index map of a counter-clockwise quarter turn, whose fourth power is the identity", 2)
	key := "gozxing.GoImageLuminanceSource.RotateCounterClockwise"
	fd, p := c.funcDeclOf("", "GoImageLuminanceSource.RotateCounterClockwise")
	if fd == nil {
		r.AnchorLost("S-ROTATE", key, "method not found")
		return
	}
	r.Analysed(key)
	s := c.newSymExec(p)
	s.pure = gettersPure
	s.block(fd.Body.List)
	this := polyAtom(objAtom(recvObj(p, fd))).String()
	W := polyAtom("call:(*gozxing.LuminanceSourceBase).GetWidth(" + this + ")")
	H := polyAtom("call:(*gozxing.LuminanceSourceBase).GetHeight(" + this + ")")
	fld := func(f string) *Poly { return polyAtom("fld(" + this + "," + f + ")") }
	var st *symStore
	for i := range s.stores {
		if s.stores[i].Field == "" && s.stores[i].Loop == 2 {
			st = &s.stores[i]
		}
	}
	if st == nil {
		r.Fail("S-ROTATE", key+"/map", c.pos(fd.Pos()), "violation", "no pixel store inside a double loop")
		return
	}
	ks := kAtomsOf(st.Index, st.Val)
	ok := false
	got := "new[" + prettyPoly(st.Index) + "] = " + prettyPoly(st.Val)
	if len(ks) == 2 {
		for _, perm := range [][2]string{{ks[0], ks[1]}, {ks[1], ks[0]}} {
			yp, xp := polyAtom(perm[0]), polyAtom(perm[1])
			if !st.Index.equal(yp.mul(H).add(xp)) {
				continue
			}
			wantIdx := fld("top").add(xp).mul(fld("dataWidth")).add(fld("left")).add(W).sub(polyInt(1)).sub(yp)
			v := st.Val.String()
			if strings.HasPrefix(v, "idx(") && strings.HasSuffix(v, ","+wantIdx.String()+")") && strings.Contains(v, "luminances") {
				ok = true
			}
		}
	}
	r.Check(ok, "S-ROTATE", key+"/map", c.pos(st.Stmt.Pos()), "the pixel map is "+got+"; a counter-clockwise quarter turn of the W x H view needs new[y'*H+x'] = old[(top+x')*dataWidth + left+W-1-y']")
	// the loops must cover the whole result: j < width, i < height
	// (conditions on the store: K_j < W and K_i < H)
	covered := 0
	for _, cd := range st.Conds {
		for _, k := range ks {
			if condIs(cd, token.LSS, polyAtom(k), W) || condIs(cd, token.LSS, polyAtom(k), H) {
				covered++
			}
		}
	}
	r.Check(covered >= 2, "S-ROTATE", key+"/cover", c.pos(st.Stmt.Pos()), "the two loops must run over 0..width-1 and 0..height-1")
	// the returned source
	cl := findStructLit(p, fd.Body, "RGBLuminanceSource")
	bad := ""
	if cl == nil {
		bad = "no RGBLuminanceSource literal returned"
	} else {
		fs := structLitFields(p, cl)
		s2 := c.newSymExec(p)
		s2.pure = gettersPure
		for _, stt := range fd.Body.List {
			if as, isA := stt.(*ast.AssignStmt); isA && as.Tok == token.DEFINE {
				s2.stmt(as)
			}
		}
		exp := map[string]*Poly{"dataWidth": H, "dataHeight": W, "left": polyInt(0), "top": polyInt(0)}
		for _, n := range []string{"dataWidth", "dataHeight", "left", "top"} {
			if e, has := fs[n]; !has || !s2.expr(e).equal(exp[n]) {
				bad = "field " + n + " of the rotated source must be " + prettyPoly(exp[n])
				break
			}
		}
		if bad == "" {
			if bl, isL := ast.Unparen(fs["LuminanceSourceBase"]).(*ast.CompositeLit); !isL {
				bad = "view dimensions not a literal"
			} else {
				bf := structLitFields(p, bl)
				if bf["Width"] == nil || bf["Height"] == nil || !s2.expr(bf["Width"]).equal(H) || !s2.expr(bf["Height"]).equal(W) {
					bad = "the rotated view must be height x width (dimensions swapped)"
				}
			}
		}
	}
	r.Check(bad == "", "S-ROTATE", key+"/result", c.pos(fd.Pos()), bad)
}

// ---------------------------------------------------------------------------------------------------------------
// S-INVERT
// ---------------------------------------------------------------------------------------------------------------

func checkInvert(c *Ctx, r *Report) {
	defer checkInvertWhole(c, r)
	r.Rule("S-INVERT", "the inverting wrapper maps every byte v of the delegate's row / matrix to 255-v over the whole width / width*height; Invert() of an inverted source returns the delegate itself, and every other source's Invert() wraps the source itself in the inverting wrapper", 6)
	for _, m := range []string{"GetRow", "GetMatrix"} {
		key := "gozxing.InvertedLuminanceSource." + m
		fd, p := c.funcDeclOf("", "InvertedLuminanceSource."+m)
		if fd == nil {
			r.AnchorLost("S-INVERT", key, "method not found")
			continue
		}
		r.Analysed(key)
		s := c.newSymExec(p)
		s.pure = gettersPure
		s.block(fd.Body.List)
		this := polyAtom(objAtom(recvObj(p, fd))).String()
		// GetWidth/GetHeight are promoted through the embedded interface
		var W, H *Poly
		for _, cl := range s.calls {
			if fn, ok := cl.Callee.(*types.Func); ok && cl.Recv != nil {
				a := polyAtom("call:" + shortObj(cl.Callee) + "(" + cl.Recv.String() + ")")
				if fn.Name() == "GetWidth" {
					W = a
				}
				if fn.Name() == "GetHeight" {
					H = a
				}
			}
		}
		_ = this
		var st *symStore
		for i := range s.stores {
			if s.stores[i].Field == "" && s.stores[i].Loop == 1 {
				st = &s.stores[i]
			}
		}
		if st == nil || W == nil {
			r.Fail("S-INVERT", key, c.pos(fd.Pos()), "violation", "no per-byte store in a loop over the view")
			continue
		}
		ks := kAtomsOf(st.Index)
		ok := len(ks) == 1 && st.Index.equal(polyAtom(ks[0]))
		msg := "the store index must be the loop counter"
		if ok {
			// value: 255 - src[k] (optionally & 0xff)
			v := st.Val
			rest := polyInt(255).sub(v)
			rs := rest.String()
			ok = strings.HasPrefix(rs, "idx(") && strings.HasSuffix(rs, ","+ks[0]+")") || (strings.HasPrefix(rs, "&(idx(") && strings.HasSuffix(rs, ","+ks[0]+"),255)"))
			msg = "each byte must become 255 - v; got " + prettyPoly(v)
		}
		if ok {
			limit := W
			if m == "GetMatrix" {
				if H == nil {
					ok = false
					msg = "the matrix loop must cover width*height bytes"
				} else {
					limit = W.mul(H)
				}
			}
			if ok {
				ok = false
				for _, cd := range st.Conds {
					if condIs(cd, token.LSS, polyAtom(ks[0]), limit) {
						ok = true
					}
				}
				msg = "the loop must run over exactly " + prettyPoly(limit) + " bytes"
			}
		}
		r.Check(ok, "S-INVERT", key, c.pos(st.Stmt.Pos()), msg)
	}
	// Invert methods
	root := c.pkg("")
	if root == nil {
		r.AnchorLost("S-INVERT", "gozxing", "root package not found")
		return
	}
	n := 0
	for _, f := range root.Syntax {
		for _, d := range f.Decls {
			fd, ok := d.(*ast.FuncDecl)
			if !ok || fd.Recv == nil || fd.Name.Name != "Invert" || fd.Body == nil {
				continue
			}
			n++
			key := fdKey(root, fd)
			r.Analysed(key)
			rv := recvObj(root, fd)
			good := false
			msg := "Invert() must return the inverting wrapper of this very source"
			if len(fd.Body.List) == 1 {
				if rs, isR := fd.Body.List[0].(*ast.ReturnStmt); isR && len(rs.Results) == 1 {
					res := ast.Unparen(rs.Results[0])
					if strings.Contains(key, "InvertedLuminanceSource") {
						msg = "Invert() of an inverted source must return the delegate (a second inversion undoes the first)"
						if sel, isS := res.(*ast.SelectorExpr); isS && identObj(root, sel.X) == rv && sel.Sel.Name == "LuminanceSource" {
							good = true
						}
					} else if call, isC := res.(*ast.CallExpr); isC && len(call.Args) == 1 && identObj(root, call.Args[0]) == rv {
						callee := typeutil.Callee(root.TypesInfo, call)
						if isFuncNamed(callee, "", "NewInvertedLuminanceSource") {
							good = true
						} else if isFuncNamed(callee, "", "LuminanceSourceInvert") {
							good = wrapsParam(c, "LuminanceSourceInvert")
						}
					}
				}
			}
			r.Check(good, "S-INVERT", key, c.pos(fd.Pos()), msg)
		}
	}
	if n < 4 {
		r.AnchorLost("S-INVERT", "Invert methods", fmt.Sprintf("only %d Invert methods found, 4 confirmed by hand", n))
	}
	// the constructor stores its argument as the delegate
	key := "gozxing.NewInvertedLuminanceSource"
	if fd, p := c.funcDeclOf("", "NewInvertedLuminanceSource"); fd != nil {
		r.Analysed(key)
		ok := false
		if cl := findStructLit(p, fd.Body, "InvertedLuminanceSource"); cl != nil && len(cl.Elts) == 1 {
			e := cl.Elts[0]
			if kv, isKV := e.(*ast.KeyValueExpr); isKV {
				e = kv.Value
			}
			ok = identObj(p, e) == paramObjs(p, fd)[0]
		}
		r.Check(ok, "S-INVERT", key, c.pos(fd.Pos()), "the wrapper must hold exactly the source it was given")
	} else {
		r.AnchorLost("S-INVERT", key, "constructor not found")
	}
}

// wrapsParam: the helper's body is `return NewInvertedLuminanceSource(param)`.
func wrapsParam(c *Ctx, name string) bool {
	fd, p := c.funcDeclOf("", name)
	if fd == nil || len(fd.Body.List) != 1 {
		return false
	}
	rs, ok := fd.Body.List[0].(*ast.ReturnStmt)
	if !ok || len(rs.Results) != 1 {
		return false
	}
	call, ok := ast.Unparen(rs.Results[0]).(*ast.CallExpr)
	if !ok || len(call.Args) != 1 {
		return false
	}
	return isFuncNamed(typeutil.Callee(p.TypesInfo, call), "", "NewInvertedLuminanceSource") && identObj(p, call.Args[0]) == paramObjs(p, fd)[0]
}

// ---------------------------------------------------------------------------------------------------------------
// T-LUMA: grey levels survive the colour conversion (black -> 0, white -> 255)
// ---------------------------------------------------------------------------------------------------------------

func checkLuma(c *Ctx, r *Report) {
	r.Rule("T-LUMA", "the colour-to-luminance conversion of NewRGBLuminanceSource maps an opaque grey level g, given as a 0xRRGGBB int (alpha byte ignored), to g - in particular black to 0 and white to 255 (the conversions of Go images are decided by S-IMGREAD)", 1)
	greys := []int64{0, 1, 2, 127, 128, 200, 254, 255}
	// --- RGB ints
	key := "gozxing.NewRGBLuminanceSource"
	if fd, p := c.funcDeclOf("", "NewRGBLuminanceSource"); fd != nil {
		r.Analysed(key)
		var loop *ast.ForStmt
		for _, st := range fd.Body.List {
			if l, ok := st.(*ast.ForStmt); ok {
				loop = l
			}
		}
		bad := ""
		if loop == nil {
			bad = "?conversion loop not found"
		} else {
			for _, alpha := range []int64{0, 0xff} {
				for _, g := range greys {
					pixel := alpha<<24 | g<<16 | g<<8 | g
					var stored *Val
					h := &rpf{
						idxHook: func(rr *rpf, ix *ast.IndexExpr) (*Val, bool) { return vint(pixel), true },
						stHook:  func(rr *rpf, lhs ast.Expr, v *Val) bool { stored = v; return true },
					}
					env := map[types.Object]*Val{}
					if as, ok := loop.Init.(*ast.AssignStmt); ok {
						env[identObj(p, as.Lhs[0])] = vint(0)
					}
					if err := foldLoopBodies(c, p, env, h, nil, loop); err != nil {
						bad = "?" + err.Error()
						break
					}
					if stored == nil || stored.K != VInt || stored.I != g {
						bad = fmt.Sprintf("pixel 0x%08X (grey %d) becomes luminance %v", pixel, g, valString(stored))
						break
					}
				}
				if bad != "" {
					break
				}
			}
		}
		if bad != "" && bad[0] == '?' {
			r.Undecided("T-LUMA", key, c.pos(fd.Pos()), bad[1:])
		} else {
			r.Check(bad == "", "T-LUMA", key, c.pos(fd.Pos()), bad)
		}
	} else {
		r.AnchorLost("T-LUMA", key, "constructor not found")
	}
}

// isZeroConst: a constant expression with the value 0 (a literal or a named constant)
func isZeroConst(p *packages.Package, e ast.Expr) bool {
	v, ok := constInt(p, e)
	return ok && v == 0
}

func isZeroLit(e ast.Expr) bool {
	bl, ok := ast.Unparen(e).(*ast.BasicLit)
	return ok && bl.Value == "0"
}

func valString(v *Val) string {
	if v == nil {
		return "<nothing stored>"
	}
	switch v.K {
	case VInt:
		return fmt.Sprint(v.I)
	case VBool:
		return fmt.Sprint(v.B)
	case VStr:
		return fmt.Sprintf("%q", v.S)
	}
	return fmt.Sprintf("<kind %d>", v.K)
}

// ---------------------------------------------------------------------------------------------------------------
// T-BINCONST
// ---------------------------------------------------------------------------------------------------------------

func constVal(p *packages.Package, name string) (int64, bool) {
	o := p.Types.Scope().Lookup(name)
	cst, ok := o.(*types.Const)
	if !ok {
		return 0, false
	}
	v, ok := constant.Int64Val(constant.ToInt(cst.Val()))
	return v, ok
}

func checkBinarizerConstants(c *Ctx, r *Report) {
	r.Rule("T-BINCONST", "the binarisers' constants are mutually consistent: BLOCK_SIZE = 2^BLOCK_SIZE_POWER, BLOCK_SIZE_MASK = BLOCK_SIZE-1, MINIMUM_DIMENSION = 5*BLOCK_SIZE = 40 (the local method's 5x5 block window fits), LUMINANCE_SHIFT = 8-LUMINANCE_BITS and LUMINANCE_BUCKETS = 2^LUMINANCE_BITS (every byte >> LUMINANCE_SHIFT indexes a bucket)", 2)
	p := c.pkg("")
	if p == nil {
		r.AnchorLost("T-BINCONST", "gozxing", "root package not found")
		return
	}
	get := func(n string) int64 {
		v, ok := constVal(p, n)
		if !ok {
			r.AnchorLost("T-BINCONST", n, "constant not found")
			return -1
		}
		return v
	}
	pw, bs, mask, minDim := get("BLOCK_SIZE_POWER"), get("BLOCK_SIZE"), get("BLOCK_SIZE_MASK"), get("MINIMUM_DIMENSION")
	if pw >= 0 && bs >= 0 && mask >= 0 && minDim >= 0 {
		pos := c.pos(p.Types.Scope().Lookup("MINIMUM_DIMENSION").Pos())
		ok := pw > 0 && pw < 16 && bs == 1<<uint(pw) && mask == bs-1 && minDim == 5*bs && minDim == 40
		r.Check(ok, "T-BINCONST", "hybrid block constants", pos, fmt.Sprintf("BLOCK_SIZE_POWER=%d BLOCK_SIZE=%d BLOCK_SIZE_MASK=%d MINIMUM_DIMENSION=%d: need BLOCK_SIZE=2^POWER, MASK=SIZE-1, MINIMUM_DIMENSION=5*BLOCK_SIZE=40 (a smaller switch lets the 5x5 window leave the block grid, a larger one changes which images use the local method)", pw, bs, mask, minDim))
	}
	bits, shift, buckets := get("LUMINANCE_BITS"), get("LUMINANCE_SHIFT"), get("LUMINANCE_BUCKETS")
	if bits >= 0 && shift >= 0 && buckets >= 0 {
		pos := c.pos(p.Types.Scope().Lookup("LUMINANCE_BUCKETS").Pos())
		ok := bits > 0 && bits <= 8 && shift == 8-bits && buckets == 1<<uint(bits) && (255>>uint(shift)) < buckets
		r.Check(ok, "T-BINCONST", "histogram constants", pos, fmt.Sprintf("LUMINANCE_BITS=%d LUMINANCE_SHIFT=%d LUMINANCE_BUCKETS=%d: need SHIFT=8-BITS and BUCKETS=2^BITS so that 255>>SHIFT < BUCKETS", bits, shift, buckets))
	}
	// the histogram is allocated with LUMINANCE_BUCKETS entries
	if fd, pp := c.funcDeclOf("", "NewGlobalHistgramBinarizer"); fd != nil {
		key := "gozxing.NewGlobalHistgramBinarizer/buckets"
		r.Analysed(key)
		ok := false
		ast.Inspect(fd.Body, func(n ast.Node) bool {
			if call, isC := n.(*ast.CallExpr); isC {
				if id, isI := call.Fun.(*ast.Ident); isI && id.Name == "make" && len(call.Args) >= 2 {
					if v, isK := constInt(pp, call.Args[1]); isK && v == buckets {
						ok = true
					}
				}
			}
			return true
		})
		r.Check(ok, "T-BINCONST", key, c.pos(fd.Pos()), "the bucket array must have LUMINANCE_BUCKETS entries")
	} else {
		r.AnchorLost("T-BINCONST", "gozxing.NewGlobalHistgramBinarizer", "constructor not found")
	}
}

// ---------------------------------------------------------------------------------------------------------------
// M-HYBGUARD: the local method runs only on images of at least MINIMUM_DIMENSION in both directions
// ---------------------------------------------------------------------------------------------------------------

func checkHybridGuard(c *Ctx, r *Report) {
	r.Rule("M-HYBGUARD", "in HybridBinarizer.GetBlackMatrix the block computations (calculateBlackPoints, calculateThresholdForBlock) are reached only under width >= MINIMUM_DIMENSION and height >= MINIMUM_DIMENSION of the source, receive that width and height, the source's own matrix, and sub-dimensions ceil(width/8), ceil(height/8) (folded for every width 40..104); every other image goes to the global method", 4)
	fd, p := c.funcDeclOf("", "HybridBinarizer.GetBlackMatrix")
	key := "gozxing.HybridBinarizer.GetBlackMatrix"
	if fd == nil {
		r.AnchorLost("M-HYBGUARD", key, "method not found")
		return
	}
	r.Analysed(key)
	minDim, _ := constVal(p, "MINIMUM_DIMENSION")
	s := c.newSymExec(p)
	s.pure = gettersPure
	s.block(fd.Body.List)
	var W, H *Poly
	for _, cl := range s.calls {
		if fn, ok := cl.Callee.(*types.Func); ok && cl.Recv != nil {
			a := polyAtom("call:" + shortObj(cl.Callee) + "(" + cl.Recv.String() + ")")
			if fn.Name() == "GetWidth" && W == nil {
				W = a
			}
			if fn.Name() == "GetHeight" && H == nil {
				H = a
			}
		}
	}
	if W == nil || H == nil {
		r.Undecided("M-HYBGUARD", key, c.pos(fd.Pos()), "source width/height not obtained through GetWidth/GetHeight")
		return
	}
	n := 0
	for _, cl := range s.calls {
		fn, ok := cl.Callee.(*types.Func)
		if !ok || (fn.Name() != "calculateBlackPoints" && fn.Name() != "calculateThresholdForBlock") {
			continue
		}
		n++
		k := key + "->" + fn.Name()
		gw, gh := false, false
		for _, cd := range cl.Conds {
			if condIs(cd, token.GEQ, W, polyInt(minDim)) {
				gw = true
			}
			if condIs(cd, token.GEQ, H, polyInt(minDim)) {
				gh = true
			}
		}
		okArgs := len(cl.Args) >= 5 && cl.Args[3].equal(W) && cl.Args[4].equal(H) && strings.Contains(cl.Args[0].String(), "GetMatrix")
		switch {
		case !gw || !gh:
			r.Fail("M-HYBGUARD", k, c.pos(cl.Call.Pos()), "violation", "not guarded by both width >= MINIMUM_DIMENSION and height >= MINIMUM_DIMENSION: on a smaller image the 5x5 block window and the 8-pixel blocks leave the image")
		case !okArgs:
			r.Fail("M-HYBGUARD", k, c.pos(cl.Call.Pos()), "violation", "must receive (source.GetMatrix(), subWidth, subHeight, width, height) of the guarded source")
		default:
			r.Pass("M-HYBGUARD", k, c.pos(cl.Call.Pos()), "")
		}
	}
	if n < 2 {
		r.AnchorLost("M-HYBGUARD", key, "block computations not called")
	}
	// the else arm delegates to the global method
	global := false
	for _, cl := range s.calls {
		if fn, ok := cl.Callee.(*types.Func); ok && fn.Name() == "GetBlackMatrix" && strings.Contains(shortObj(cl.Callee), "GlobalHistogramBinarizer") {
			global = true
		}
	}
	r.Check(global, "M-HYBGUARD", key+"/small", c.pos(fd.Pos()), "images below the minimum dimension must be binarised by the global method")
	// sub-dimensions: fold the straight-line statements of the guarded arm
	k := key + "/subdims"
	var arm *ast.IfStmt
	for _, st := range fd.Body.List {
		if ifs, ok := st.(*ast.IfStmt); ok && len(findCalls(p, ifs.Body, func(o types.Object) bool {
			fn, ok := o.(*types.Func)
			return ok && fn.Name() == "calculateBlackPoints"
		})) > 0 {
			arm = ifs
		}
	}
	if arm == nil {
		r.Undecided("M-HYBGUARD", k, c.pos(fd.Pos()), "guarded arm not found")
		return
	}
	var wObj, hObj types.Object
	for _, st := range fd.Body.List {
		if as, ok := st.(*ast.AssignStmt); ok && as.Tok == token.DEFINE && len(as.Lhs) == 1 && len(as.Rhs) == 1 {
			if call, isC := as.Rhs[0].(*ast.CallExpr); isC {
				if fn, isF := typeutil.Callee(p.TypesInfo, call).(*types.Func); isF {
					if fn.Name() == "GetWidth" {
						wObj = identObj(p, as.Lhs[0])
					}
					if fn.Name() == "GetHeight" {
						hObj = identObj(p, as.Lhs[0])
					}
				}
			}
		}
	}
	if wObj == nil || hObj == nil {
		r.Undecided("M-HYBGUARD", k, c.pos(fd.Pos()), "width/height variables not found")
		return
	}
	bad := ""
	for w := int64(40); w <= 104 && bad == ""; w++ {
		hh := 144 - w
		env := map[types.Object]*Val{wObj: vint(w), hObj: vint(hh)}
		rr := &rpf{c: c, p: p, env: env, callHook: func(rr *rpf, call *ast.CallExpr, callee types.Object) (*Val, bool) {
			return &Val{K: VNil}, true
		}}
		func() {
			defer func() {
				if y := recover(); y != nil {
					if re, ok := y.(*rpfErr); ok {
						bad = "?" + re.Error()
						return
					}
					panic(y)
				}
			}()
			for _, st := range arm.Body.List {
				if as, ok := st.(*ast.AssignStmt); ok {
					if len(as.Rhs) == 1 {
						if call, isC := as.Rhs[0].(*ast.CallExpr); isC {
							if fn, isF := typeutil.Callee(p.TypesInfo, call).(*types.Func); isF && fn.Name() == "calculateBlackPoints" {
								sw, sh := rr.expr(call.Args[1]), rr.expr(call.Args[2])
								if sw.K != VInt || sh.K != VInt || sw.I != (w+7)/8 || sh.I != (hh+7)/8 {
									bad = fmt.Sprintf("for a %dx%d image the block grid is %sx%s, expected %dx%d (ceil of the size / 8): pixels of a partial last block would be left unthresholded", w, hh, valString(sw), valString(sh), (w+7)/8, (hh+7)/8)
								}
								return
							}
						}
					}
					if !allIntRhs(p, as) {
						continue
					}
				}
				switch st.(type) {
				case *ast.AssignStmt, *ast.IfStmt, *ast.IncDecStmt:
					rr.stmtC(st)
				}
			}
		}()
	}
	if bad != "" && bad[0] == '?' {
		r.Undecided("M-HYBGUARD", k, c.pos(arm.Pos()), bad[1:])
	} else {
		r.Check(bad == "", "M-HYBGUARD", k, c.pos(arm.Pos()), bad)
	}
}

func allIntRhs(p *packages.Package, as *ast.AssignStmt) bool {
	for _, e := range as.Rhs {
		if !isIntT(p.TypesInfo.TypeOf(e)) {
			return false
		}
	}
	return true
}

// S-IMGREAD: which pixel of a Go image lands where in the luminance plane
func checkImageRead(c *Ctx, r *Report) {
	r.Rule("S-IMGREAD", "NewLuminanceSourceFromImage, folded as a whole on a model image whose bounds do not start at the origin (4 x 2 pixels from (2,3), each pixel an opaque grey of its own: 0, 1, 127, 128, 200, 254, 255, 2; an *image.Gray also offers its Pix / Stride / Rect fields, with a stride wider than a row) once for each branch of its type switch (*image.Gray, image.RGBA64Image, any other image): the source is 4 wide and 2 high, starts at (0,0) of a plane of that size, and cell (i, j) of the plane holds exactly the grey level of the image's pixel (Min.X + i, Min.Y + j) - black is 0, white 255, and every image type is read at its own coordinates, row by row", 3)
	fd, p := c.funcDeclOf("", "NewLuminanceSourceFromImage")
	if fd == nil {
		r.AnchorLost("S-IMGREAD", "gozxing.NewLuminanceSourceFromImage", "function not found")
		return
	}
	minX, minY, w, hgt := int64(2), int64(3), int64(4), int64(2)
	levels := []int64{0, 1, 127, 128, 200, 254, 255, 2}
	grey := func(x, y int64) int64 { return levels[(y-minY)*w+(x-minX)] }
	pt := func(x, y int64) *Val {
		return &Val{K: VStruct, Fields: map[string]*Val{"X": vint(x), "Y": vint(y)}}
	}
	for _, kind := range []string{"*image.Gray", "image.RGBA64Image", "default"} {
		key := "gozxing.NewLuminanceSourceFromImage whole/" + kind
		r.Analysed(key)
		img := &Val{K: VStruct, Ptr: true, Fields: map[string]*Val{}}
		stride := w + 2
		if kind == "*image.Gray" {
			// the exported fields of image.Gray, for code that reads the plane directly: rows of w samples, stride w+2
			pix := &Val{K: VList}
			for y := int64(0); y < hgt; y++ {
				for x := int64(0); x < stride; x++ {
					if x < w {
						pix.L = append(pix.L, vint(grey(minX+x, minY+y)))
					} else {
						pix.L = append(pix.L, vint(255))
					}
				}
			}
			img.Fields["Pix"], img.Fields["Stride"] = pix, vint(stride)
			img.Fields["Rect"] = &Val{K: VStruct, Fields: map[string]*Val{"Min": pt(minX, minY), "Max": pt(minX+w, minY+hgt)}}
		}
		bad := ""
		px := func(rr *rpf, call *ast.CallExpr) (int64, bool) {
			if len(call.Args) != 2 {
				return 0, false
			}
			x, y := rr.expr(call.Args[0]), rr.expr(call.Args[1])
			if x.K != VInt || y.K != VInt {
				rpfFail("a pixel is read at coordinates that are not constants of the fold")
			}
			if x.I < minX || x.I >= minX+w || y.I < minY || y.I >= minY+hgt {
				rpfFail("the pixel (%d, %d) is read, outside the image's bounds (%d,%d)-(%d,%d)", x.I, y.I, minX, minY, minX+w, minY+hgt)
			}
			return grey(x.I, y.I), true
		}
		h := &rpf{unroll: 10000, maxSteps: 200000}
		h.assertHook = func(rr *rpf, ta *ast.TypeAssertExpr, v *Val) (bool, bool) {
			if v != img {
				return false, false
			}
			return exprString(ta.Type) == kind, true
		}
		h.callHook = func(rr *rpf, call *ast.CallExpr, callee types.Object) (*Val, bool) {
			fn, ok := callee.(*types.Func)
			if !ok {
				return nil, false
			}
			switch fn.Name() {
			case "Bounds":
				return &Val{K: VStruct, Fields: map[string]*Val{"Min": pt(minX, minY), "Max": pt(minX+w, minY+hgt)}}, true
			case "Dx":
				return vint(w), true
			case "Dy":
				return vint(hgt), true
			case "PixOffset":
				if len(call.Args) == 2 {
					if x, y := rr.expr(call.Args[0]), rr.expr(call.Args[1]); x.K == VInt && y.K == VInt {
						return vint((y.I-minY)*stride + (x.I - minX)), true
					}
				}
			case "GrayAt":
				if g, ok := px(rr, call); ok {
					return &Val{K: VStruct, Fields: map[string]*Val{"Y": vint(g)}}, true
				}
			}
			return nil, false
		}
		h.multiHook = func(call *ast.CallExpr, callee types.Object) ([]*Val, bool) {
			fn, ok := callee.(*types.Func)
			if !ok || fn.Name() != "RGBA" {
				return nil, false
			}
			// img.At(x, y).RGBA() / img.RGBA64At(x, y).RGBA()
			sel, ok := call.Fun.(*ast.SelectorExpr)
			if !ok {
				return nil, false
			}
			inner, ok := ast.Unparen(sel.X).(*ast.CallExpr)
			if !ok {
				return nil, false
			}
			if g, ok := px(rpfCurrent, inner); ok {
				v := g * 257
				return []*Val{vint(v), vint(v), vint(v), vint(0xffff)}, true
			}
			return nil, false
		}
		res, err := c.rpfCall(fd, p, []*Val{img}, h)
		switch {
		case err != nil && (strings.Contains(err.Error(), "outside the image's bounds") || strings.Contains(err.Error(), "out of range")):
			bad = err.Error()
		case err != nil:
			bad = "?" + err.Error()
		case len(res) != 1 || res[0].K != VStruct:
			bad = "?the fold does not return a luminance source value"
		default:
			// find the plane and the geometry through the nesting of embedded structs
			var plane *Val
			ints := map[string]int64{}
			var walk func(v *Val, depth int)
			walk = func(v *Val, depth int) {
				if v == nil || depth > 4 {
					return
				}
				switch v.K {
				case VStruct:
					for name, f := range v.Fields {
						if f != nil && f.K == VInt {
							ints[name] = f.I
						}
						if f != nil && f.K == VList && plane == nil && int64(len(f.L)) == w*hgt {
							plane = f
						}
						walk(f, depth+1)
					}
				}
			}
			walk(res[0], 0)
			if plane == nil {
				bad = fmt.Sprintf("the source holds no plane of %d x %d cells", w, hgt)
				break
			}
			for name, want := range map[string]int64{"Width": w, "Height": hgt, "dataWidth": w, "dataHeight": hgt, "left": 0, "top": 0} {
				if got, ok := ints[name]; !ok || got != want {
					bad = fmt.Sprintf("the source's %s is %v, expected %d for an image of %d x %d pixels", name, got, want, w, hgt)
				}
			}
			for j := int64(0); j < hgt && bad == ""; j++ {
				for i := int64(0); i < w && bad == ""; i++ {
					cell := plane.L[j*w+i]
					if cell.K != VInt || cell.I != grey(minX+i, minY+j) {
						bad = fmt.Sprintf("cell (%d, %d) of the plane holds %s; the image's pixel (%d, %d) has grey level %d", i, j, valString(cell), minX+i, minY+j, grey(minX+i, minY+j))
					}
				}
			}
		}
		reportFold(r, c, "S-IMGREAD", key, fd.Pos(), bad)
	}
}

// S-YUVMIRROR: the mirrored planar-YUV view
func checkYUVMirror(c *Ctx, r *Report) {
	r.Rule("S-YUVMIRROR", "NewPlanarYUVLuminanceSource with reverseHorizontal set, folded from source with the in-place mirror it calls, on frames of 6 x 4 and 7 x 5 bytes that are all different and views narrower than the frame (3 x 2 at (1,1); 4 x 3 at (2,1); the full frame): every row of the view is reversed in place, every byte of the frame outside the view keeps its value, and without the flag nothing is written", 1)
	fd, p := c.funcDeclOf("", "NewPlanarYUVLuminanceSource")
	key := "gozxing.NewPlanarYUVLuminanceSource/mirror"
	if fd == nil {
		r.AnchorLost("S-YUVMIRROR", key, "constructor not found")
		return
	}
	r.Analysed(key)
	bad := ""
	type cfg struct{ dw, dh, l, t, w, h int64 }
	for _, cf := range []cfg{{6, 4, 1, 1, 3, 2}, {7, 5, 2, 1, 4, 3}, {6, 4, 0, 0, 6, 4}, {7, 5, 0, 2, 7, 3}} {
		for _, rev := range []bool{true, false} {
			frame := &Val{K: VList, Local: true}
			for i := int64(0); i < cf.dw*cf.dh; i++ {
				frame.L = append(frame.L, &Val{K: VInt, I: 10 + i, T: types.Typ[types.Uint8]})
			}
			h := &rpf{unroll: 10000, maxSteps: 200000, effectCalls: true}
			h.callHook = func(rr *rpf, call *ast.CallExpr, callee types.Object) (*Val, bool) {
				return errCtorHook(rr, call, callee)
			}
			res, err := c.rpfCall(fd, p, []*Val{frame, vint(cf.dw), vint(cf.dh), vint(cf.l), vint(cf.t), vint(cf.w), vint(cf.h), vbool(rev)}, h)
			what := fmt.Sprintf("frame %dx%d, view %dx%d at (%d,%d), reverseHorizontal=%v", cf.dw, cf.dh, cf.w, cf.h, cf.l, cf.t, rev)
			if err != nil {
				if strings.Contains(err.Error(), "out of range") {
					bad = what + ": " + err.Error() + " - a run-time panic"
				} else {
					bad = "?" + what + ": " + err.Error()
				}
				break
			}
			if len(res) != 2 || res[1].K != VNil {
				bad = what + ": refused"
				break
			}
			got, ok := listInts(frame)
			if !ok || int64(len(got)) != cf.dw*cf.dh {
				bad = "?" + what + ": the frame is no longer a list of constants"
				break
			}
			for y := int64(0); y < cf.dh && bad == ""; y++ {
				for x := int64(0); x < cf.dw; x++ {
					want := 10 + y*cf.dw + x
					if rev && y >= cf.t && y < cf.t+cf.h && x >= cf.l && x < cf.l+cf.w {
						want = 10 + y*cf.dw + (cf.l + cf.l + cf.w - 1 - x)
					}
					if got[y*cf.dw+x] != want {
						if y >= cf.t && y < cf.t+cf.h && x >= cf.l && x < cf.l+cf.w {
							bad = fmt.Sprintf("%s: byte (%d,%d) of the frame, inside the view, is %d afterwards; expected %d", what, x, y, got[y*cf.dw+x], want)
						} else {
							bad = fmt.Sprintf("%s: byte (%d,%d) of the frame, outside the view, is changed from %d to %d", what, x, y, want, got[y*cf.dw+x])
						}
						break
					}
				}
			}
			if bad != "" {
				break
			}
		}
		if bad != "" {
			break
		}
	}
	reportFold(r, c, "S-YUVMIRROR", key, fd.Pos(), bad)
}

// S-INVERTW: the inverting wrapper's GetRow and GetMatrix folded whole over a scripted delegate.
func checkInvertWhole(c *Ctx, r *Report) {
	if _, done := r.rules["S-INVERTW"]; done {
		return
	}
	r.Rule("S-INVERTW", "InvertedLuminanceSource.GetRow and GetMatrix folded whole over delegates 3, 1, 8, 13 and 21 pixels wide and 2 high holding the bytes 0, 1, 127, 128, 254, 255 and others: every byte v of the delegate's row (both rows, with and without a buffer passed in) / of its matrix comes back as 255-v, a row of exactly the width and a matrix of exactly width*height bytes; the delegate's own matrix is not written", 10)
	u8 := types.Typ[types.Uint8]
	for _, W := range []int64{3, 1, 8, 13, 21} {
		checkInvertWholeAt(c, r, W, u8)
	}
	r.DecidedByKeys("S-INVERT", "S-INVERTW", "every byte of a scripted delegate comes back as 255-v, over exactly the width / width*height", "InvertedLuminanceSource.GetRow", "InvertedLuminanceSource.GetMatrix")
}

func checkInvertWholeAt(c *Ctx, r *Report, W int64, u8 types.Type) {
	const H = 2
	base := []int64{0, 1, 127, 128, 254, 255}
	pix := make([]int64, W*H)
	for i := range pix {
		pix[i] = base[i%6] ^ int64(i/6*37&0xff)
	}
	hooks := func(row *Val) *rpf {
		h := &rpf{unroll: 64}
		h.callHook = func(rr *rpf, call *ast.CallExpr, callee types.Object) (*Val, bool) {
			fnc, ok := callee.(*types.Func)
			if !ok {
				return nil, false
			}
			switch fnc.Name() {
			case "GetWidth":
				return vint(W), true
			case "GetHeight":
				return vint(H), true
			case "GetMatrix":
				out := &Val{K: VList}
				for _, v := range pix {
					out.L = append(out.L, &Val{K: VInt, I: v, T: u8})
				}
				return out, true
			}
			return errCtorHook(rr, call, callee)
		}
		h.multiHook = func(call *ast.CallExpr, callee types.Object) ([]*Val, bool) {
			if fnc, ok := callee.(*types.Func); ok && fnc.Name() == "GetRow" && len(call.Args) == 2 {
				y := rpfCurrent.expr(call.Args[0])
				if y.K != VInt || y.I < 0 || y.I >= H {
					rpfFail("the delegate is asked for row %s", y)
				}
				out := &Val{K: VList, Local: true}
				for x := int64(0); x < W; x++ {
					out.L = append(out.L, &Val{K: VInt, I: pix[y.I*W+x], T: u8})
				}
				return []*Val{out, {K: VNil}}, true
			}
			return nil, false
		}
		return h
	}
	recv := func() *Val {
		return &Val{K: VStruct, Ptr: true, Fields: map[string]*Val{"LuminanceSource": {K: VStruct, Ptr: true, Fields: map[string]*Val{}}}}
	}
	compare := func(got *Val, want []int64) string {
		if got == nil || got.K != VList || len(got.L) != len(want) {
			return fmt.Sprintf("the result is %s, expected %d bytes", got, len(want))
		}
		for i, e := range got.L {
			if !e.isInt() || e.I&0xff != 255-want[i] {
				return fmt.Sprintf("byte %d is %s, expected 255 - %d = %d", i, e, want[i], 255-want[i])
			}
		}
		return ""
	}
	if fd, p := c.funcDeclOf("", "InvertedLuminanceSource.GetRow"); fd == nil {
		r.AnchorLost("S-INVERTW", "gozxing.InvertedLuminanceSource.GetRow", "method not found")
	} else {
		key := fmt.Sprintf("gozxing.InvertedLuminanceSource.GetRow/whole(width %d)", W)
		r.Analysed(key)
		bad := ""
		for y := int64(0); y < H && bad == ""; y++ {
			for _, buf := range []*Val{{K: VNil}, nines(W)} {
				h := hooks(nil)
				h.env = map[types.Object]*Val{}
				if ro := recvObj(p, fd); ro != nil {
					h.env[ro] = recv()
				}
				res, err := c.rpfCall(fd, p, []*Val{vint(y), buf}, h)
				if err != nil {
					bad = "?" + err.Error()
					break
				}
				if len(res) != 2 || res[1].K != VNil {
					bad = fmt.Sprintf("GetRow(%d) returns an error although the delegate gave the row", y)
					break
				}
				if why := compare(res[0], pix[y*W:(y+1)*W]); why != "" {
					bad = fmt.Sprintf("GetRow(%d): %s", y, why)
					break
				}
			}
		}
		reportFold(r, c, "S-INVERTW", key, fd.Pos(), bad)
	}
	if fd, p := c.funcDeclOf("", "InvertedLuminanceSource.GetMatrix"); fd == nil {
		r.AnchorLost("S-INVERTW", "gozxing.InvertedLuminanceSource.GetMatrix", "method not found")
	} else {
		key := fmt.Sprintf("gozxing.InvertedLuminanceSource.GetMatrix/whole(width %d)", W)
		r.Analysed(key)
		bad := ""
		h := hooks(nil)
		h.env = map[types.Object]*Val{}
		if ro := recvObj(p, fd); ro != nil {
			h.env[ro] = recv()
		}
		res, err := c.rpfCall(fd, p, nil, h)
		switch {
		case err != nil:
			bad = "?" + err.Error()
		case len(res) != 1:
			bad = "GetMatrix does not return one value"
		default:
			bad = compare(res[0], pix)
		}
		reportFold(r, c, "S-INVERTW", key, fd.Pos(), bad)
	}
}

// S-ROTATEW: the quarter turn folded whole on a model view.
func checkRotateWhole(c *Ctx, r *Report) {
	if _, done := r.rules["S-ROTATEW"]; done {
		return
	}
	r.Rule("S-ROTATEW", "GoImageLuminanceSource.RotateCounterClockwise folded whole on views of a 5x4 plane whose bytes are all different (the whole plane; the 3x2 view at (1,1); the 1x3 view at (4,0); the 4x1 view at (0,3)): the result is a source of height x width pixels with dataWidth = height, dataHeight = width and offsets 0 whose pixel (x', y') is pixel (width-1-y', x') of the view, in a plane of exactly width*height bytes; the original plane is not written", 4)
	fd, p := c.funcDeclOf("", "GoImageLuminanceSource.RotateCounterClockwise")
	if fd == nil {
		r.AnchorLost("S-ROTATEW", "gozxing.GoImageLuminanceSource.RotateCounterClockwise", "method not found")
		return
	}
	const DW, DH = 5, 4
	u8 := types.Typ[types.Uint8]
	for _, v := range [][4]int64{{0, 0, 5, 4}, {1, 1, 3, 2}, {4, 0, 1, 3}, {0, 3, 4, 1}} {
		left, top, W, H := v[0], v[1], v[2], v[3]
		key := fmt.Sprintf("gozxing.GoImageLuminanceSource.RotateCounterClockwise/whole(%d,%d,%dx%d)", left, top, W, H)
		r.Analysed(key)
		plane := &Val{K: VList}
		for i := int64(0); i < DW*DH; i++ {
			plane.L = append(plane.L, &Val{K: VInt, I: 10 + i, T: u8})
		}
		fields := map[string]*Val{"luminances": plane, "dataWidth": vint(DW), "dataHeight": vint(DH), "left": vint(left), "top": vint(top), "Width": vint(W), "Height": vint(H)}
		h := &rpf{unroll: 64}
		h.selHook = func(rr *rpf, sel *ast.SelectorExpr) (*Val, bool) {
			if f, ok := fields[sel.Sel.Name]; ok {
				// (a field of the receiver, reached directly or through the embedded sources)
				if root := rootIdent(sel); root != nil && rr.p.TypesInfo.Uses[root] == recvObj(p, fd) {
					return f, true
				}
			}
			return nil, false
		}
		h.callHook = func(rr *rpf, call *ast.CallExpr, callee types.Object) (*Val, bool) {
			if fnc, ok := callee.(*types.Func); ok {
				if sel, isSel := call.Fun.(*ast.SelectorExpr); isSel {
					if root := rootIdent(sel); root != nil && rr.p.TypesInfo.Uses[root] == recvObj(p, fd) {
						switch fnc.Name() {
						case "GetWidth":
							return vint(W), true
						case "GetHeight":
							return vint(H), true
						}
					}
				}
			}
			return errCtorHook(rr, call, callee)
		}
		h.env = map[types.Object]*Val{}
		if ro := recvObj(p, fd); ro != nil {
			h.env[ro] = &Val{K: VStruct, Ptr: true, Fields: map[string]*Val{}}
		}
		res, err := c.rpfCall(fd, p, nil, h)
		bad := ""
		field := func(v *Val, path ...string) *Val {
			for _, n := range path {
				if v == nil || v.K != VStruct {
					return nil
				}
				v = v.Fields[n]
			}
			return v
		}
		isInt := func(v *Val, want int64) bool { return v != nil && v.isInt() && v.I == want }
		switch {
		case err != nil:
			bad = "?" + err.Error()
		case len(res) != 2 || res[1].K != VNil || res[0].K != VStruct:
			bad = "the quarter turn does not return (source, nil)"
		default:
			src := field(res[0], "RGBLuminanceSource")
			lum := field(src, "luminances")
			switch {
			case src == nil || lum == nil || lum.K != VList:
				bad = "the result is not a GoImageLuminanceSource around an RGBLuminanceSource with a plane"
			case !isInt(field(src, "LuminanceSourceBase", "Width"), H) || !isInt(field(src, "LuminanceSourceBase", "Height"), W):
				bad = fmt.Sprintf("the rotated view must be %d x %d (dimensions swapped), got %s x %s", H, W, field(src, "LuminanceSourceBase", "Width"), field(src, "LuminanceSourceBase", "Height"))
			case !isInt(field(src, "dataWidth"), H) || !isInt(field(src, "dataHeight"), W) || !isInt(field(src, "left"), 0) || !isInt(field(src, "top"), 0):
				bad = fmt.Sprintf("the rotated source must have dataWidth %d, dataHeight %d and offsets 0; got %s, %s, (%s, %s)", H, W, field(src, "dataWidth"), field(src, "dataHeight"), field(src, "left"), field(src, "top"))
			case int64(len(lum.L)) != W*H:
				bad = fmt.Sprintf("the rotated plane has %d bytes, expected %d", len(lum.L), W*H)
			default:
				for yp := int64(0); yp < W && bad == ""; yp++ {
					for xp := int64(0); xp < H; xp++ {
						want := 10 + (top+xp)*DW + left + W - 1 - yp
						if g := lum.L[yp*H+xp]; !g.isInt() || g.I != want {
							bad = fmt.Sprintf("pixel (%d, %d) of the result is %s, expected pixel (%d, %d) of the view = %d", xp, yp, g, W-1-yp, xp, want)
							break
						}
					}
				}
				for i := int64(0); i < DW*DH && bad == ""; i++ {
					if !isInt(plane.L[i], 10+i) {
						bad = fmt.Sprintf("byte %d of the original plane was written", i)
					}
				}
			}
		}
		reportFold(r, c, "S-ROTATEW", key, fd.Pos(), bad)
	}
	r.DecidedBy("S-ROTATE", "S-ROTATEW", "the whole function folded on four views of a plane of distinct bytes: pixel map, coverage and the returned source's geometry")
}

// rootIdent gives the identifier a chain of selectors starts from (nil when it starts from something else).
func rootIdent(e ast.Expr) *ast.Ident {
	for {
		switch x := ast.Unparen(e).(type) {
		case *ast.SelectorExpr:
			e = x.X
		case *ast.Ident:
			return x
		default:
			return nil
		}
	}
}

func nines(n int64) *Val {
	out := &Val{K: VList, Local: true}
	for i := int64(0); i < n; i++ {
		out.L = append(out.L, vint(9))
	}
	return out
}
