package main

import (
	"fmt"
	"go/constant"
	"go/token"
	"go/types"
	"sort"

	"golang.org/x/tools/go/ssa"
)

// E-TABLEIDX: an index into a package-level literal table is provably inside the table.

type ival struct {
	lo, hi int64
	okLo   bool
	okHi   bool
}

func (a ival) String() string {
	l, h := "-inf", "+inf"
	if a.okLo {
		l = fmt.Sprint(a.lo)
	}
	if a.okHi {
		h = fmt.Sprint(a.hi)
	}
	return "[" + l + ", " + h + "]"
}

func exact(k int64) ival { return ival{k, k, true, true} }

func meet(a, b ival) ival {
	out := a
	if b.okLo && (!out.okLo || b.lo > out.lo) {
		out.lo, out.okLo = b.lo, true
	}
	if b.okHi && (!out.okHi || b.hi < out.hi) {
		out.hi, out.okHi = b.hi, true
	}
	return out
}

func join(a, b ival) ival {
	out := ival{}
	if a.okLo && b.okLo {
		out.okLo = true
		out.lo = a.lo
		if b.lo < out.lo {
			out.lo = b.lo
		}
	}
	if a.okHi && b.okHi {
		out.okHi = true
		out.hi = a.hi
		if b.hi > out.hi {
			out.hi = b.hi
		}
	}
	return out
}

type tableInfo struct {
	length   int64
	elemLo   int64
	elemHi   int64
	elemsInt bool
}

type idxAnalysis struct {
	c      *Ctx
	tables map[*ssa.Global]*tableInfo
}

func (c *Ctx) newIdxAnalysis() *idxAnalysis {
	ia := &idxAnalysis{c: c, tables: map[*ssa.Global]*tableInfo{}}
	for _, p := range c.PkgList {
		sp := c.SSA[p.PkgPath]
		if sp == nil {
			continue
		}
		for _, m := range sp.Members {
			g, ok := m.(*ssa.Global)
			if !ok {
				continue
			}
			init, ip := c.varInitOfObj(g.Object())
			if init == nil {
				continue
			}
			v := c.eval(ip, init)
			if v == nil {
				continue
			}
			ti := &tableInfo{}
			switch v.K {
			case VList:
				if v.MapKeys != nil {
					continue
				}
				ti.length = int64(len(v.L))
				ti.elemsInt = true
				for i, e := range v.L {
					if e.K != VInt {
						ti.elemsInt = false
						break
					}
					if i == 0 || e.I < ti.elemLo {
						ti.elemLo = e.I
					}
					if i == 0 || e.I > ti.elemHi {
						ti.elemHi = e.I
					}
				}
			case VStr:
				ti.length = int64(len(v.S))
				ti.elemsInt, ti.elemLo, ti.elemHi = true, 0, 255
			default:
				continue
			}
			if ti.length > 0 {
				ia.tables[g] = ti
			}
		}
	}
	return ia
}

// tableOf: v is (a load of) a literal table global
func (ia *idxAnalysis) tableOf(v ssa.Value) (*ssa.Global, *tableInfo) {
	switch x := v.(type) {
	case *ssa.Global:
		if ti := ia.tables[x]; ti != nil {
			return x, ti
		}
	case *ssa.UnOp:
		if x.Op == token.MUL {
			if g, ok := x.X.(*ssa.Global); ok {
				if ti := ia.tables[g]; ti != nil {
					return g, ti
				}
			}
		}
	}
	return nil, nil
}

func typeRange(t types.Type) ival {
	b, ok := t.Underlying().(*types.Basic)
	if !ok {
		return ival{}
	}
	switch b.Kind() {
	case types.Uint8:
		return ival{0, 255, true, true}
	case types.Uint16:
		return ival{0, 65535, true, true}
	case types.Uint, types.Uint32, types.Uint64, types.Uintptr:
		return ival{0, 0, true, false}
	case types.Int8:
		return ival{-128, 127, true, true}
	case types.Int16:
		return ival{-32768, 32767, true, true}
	}
	return ival{}
}

// rangeOf computes an interval for v as seen from block b (dominating conditions included).
func (ia *idxAnalysis) rangeOf(v ssa.Value, b *ssa.BasicBlock, depth int, seen map[ssa.Value]bool) ival {
	if depth > 10 {
		return ival{}
	}
	if cst, ok := v.(*ssa.Const); ok {
		if cst.Value != nil && cst.Value.Kind() == constant.Int {
			if k, exactK := constant.Int64Val(cst.Value); exactK {
				return exact(k)
			}
		}
		return ival{}
	}
	out := typeRange(v.Type())
	out = meet(out, ia.condRange(v, b))
	switch x := v.(type) {
	case *ssa.Convert:
		in := ia.rangeOf(x.X, b, depth+1, seen)
		// widening / same-size conversions between integer types preserve a known non-negative bounded range
		if in.okLo && in.lo >= 0 && in.okHi {
			tr := typeRange(x.Type())
			if !tr.okHi || in.hi <= tr.hi {
				out = meet(out, in)
			}
		}
	case *ssa.ChangeType:
		out = meet(out, ia.rangeOf(x.X, b, depth+1, seen))
	case *ssa.BinOp:
		l := ia.rangeOf(x.X, b, depth+1, seen)
		r := ia.rangeOf(x.Y, b, depth+1, seen)
		switch x.Op {
		case token.REM:
			if r.okLo && r.okHi && r.lo == r.hi && r.lo > 0 {
				if l.okLo && l.lo >= 0 {
					out = meet(out, ival{0, r.lo - 1, true, true})
				} else {
					out = meet(out, ival{-(r.lo - 1), r.lo - 1, true, true})
				}
			}
		case token.AND:
			if r.okLo && r.okHi && r.lo == r.hi && r.lo >= 0 {
				out = meet(out, ival{0, r.lo, true, true})
			} else if l.okLo && l.okHi && l.lo == l.hi && l.lo >= 0 {
				out = meet(out, ival{0, l.lo, true, true})
			}
		case token.SHR:
			if r.okLo && r.okHi && r.lo == r.hi && r.lo >= 0 && r.lo < 63 && l.okLo && l.lo >= 0 {
				o := ival{lo: l.lo >> uint(r.lo), okLo: true}
				if l.okHi {
					o.hi, o.okHi = l.hi>>uint(r.lo), true
				}
				out = meet(out, o)
			}
		case token.QUO:
			if r.okLo && r.okHi && r.lo == r.hi && r.lo > 0 && l.okLo && l.lo >= 0 {
				o := ival{lo: l.lo / r.lo, okLo: true}
				if l.okHi {
					o.hi, o.okHi = l.hi/r.lo, true
				}
				out = meet(out, o)
			}
		case token.ADD:
			o := ival{}
			if l.okLo && r.okLo {
				o.lo, o.okLo = l.lo+r.lo, true
			}
			if l.okHi && r.okHi {
				o.hi, o.okHi = l.hi+r.hi, true
			}
			if _, unsigned := isUnsignedT(x.Type()); !unsigned {
				out = meet(out, o)
			}
		case token.SUB:
			o := ival{}
			if l.okLo && r.okHi {
				o.lo, o.okLo = l.lo-r.hi, true
			}
			if l.okHi && r.okLo {
				o.hi, o.okHi = l.hi-r.lo, true
			}
			if _, unsigned := isUnsignedT(x.Type()); !unsigned {
				out = meet(out, o)
			}
		case token.MUL:
			if l.okLo && l.okHi && r.okLo && r.okHi && l.lo >= 0 && r.lo >= 0 {
				if _, unsigned := isUnsignedT(x.Type()); !unsigned {
					out = meet(out, ival{l.lo * r.lo, l.hi * r.hi, true, true})
				}
			}
		}
	case *ssa.UnOp:
		// element of a literal integer table
		if x.Op == token.MUL {
			if ia2, ok := x.X.(*ssa.IndexAddr); ok {
				if _, ti := ia.tableOf(ia2.X); ti != nil && ti.elemsInt {
					out = meet(out, ival{ti.elemLo, ti.elemHi, true, true})
				}
			}
		}
	case *ssa.Index:
		if _, ti := ia.tableOf(x.X); ti != nil && ti.elemsInt {
			out = meet(out, ival{ti.elemLo, ti.elemHi, true, true})
		}
	case *ssa.Lookup:
		out = meet(out, ival{0, 255, true, true})
	case *ssa.Call:
		if callee := x.Call.StaticCallee(); callee != nil && isRepoPkgFn(callee) && callee.Blocks != nil && callee.Signature.Results().Len() == 1 && !seen[x] {
			// the callee's possible results (no argument sensitivity)
			seen[x] = true
			var j ival
			first := true
			for _, rt := range returnsOf(callee) {
				if len(rt.Results) != 1 {
					continue
				}
				rr := ia.rangeOf(rt.Results[0], rt.Block(), depth+2, seen)
				if first {
					j, first = rr, false
				} else {
					j = join(j, rr)
				}
			}
			delete(seen, x)
			if !first {
				out = meet(out, j)
			}
		}
		if bi, ok := x.Call.Value.(*ssa.Builtin); ok && bi.Name() == "len" && len(x.Call.Args) == 1 {
			if _, ti := ia.tableOf(x.Call.Args[0]); ti != nil {
				out = meet(out, exact(ti.length))
			} else {
				out = meet(out, ival{0, 0, true, false})
			}
		}
	case *ssa.Phi:
		if seen[x] {
			return out
		}
		seen[x] = true
		// counting loops: phi(init, phi + k) never falls below init for k > 0, never rises above init for k < 0
		mono := ival{}
		{
			// all edges but one carry the same value phi +/- k
			var step *ssa.BinOp
			initIdx, nInit := -1, 0
			okShape := true
			for i, e := range x.Edges {
				if bo, ok := e.(*ssa.BinOp); ok && (bo.Op == token.ADD || bo.Op == token.SUB) && bo.X == ssa.Value(x) {
					if step != nil && step != bo {
						okShape = false
					}
					step = bo
					continue
				}
				initIdx = i
				nInit++
			}
			if okShape && step != nil && nInit == 1 {
				if k, isK := constIntOf(step.Y); isK && k != 0 {
					if step.Op == token.SUB {
						k = -k
					}
					init := ia.rangeOf(x.Edges[initIdx], x.Block().Preds[initIdx], depth+1, seen)
					if k > 0 && init.okLo {
						mono = ival{lo: init.lo, okLo: true}
					}
					if k < 0 && init.okHi {
						mono = ival{hi: init.hi, okHi: true}
					}
				}
			}
		}
		out = meet(out, mono)
		var j ival
		first := true
		for i, e := range x.Edges {
			// the value on this edge, seen from the predecessor (its own dominating conditions apply)
			er := ia.rangeOf(e, x.Block().Preds[i], depth+1, seen)
			if first {
				j, first = er, false
			} else {
				j = join(j, er)
			}
		}
		delete(seen, x)
		out = meet(out, j)
	}
	return out
}

func isUnsignedT(t types.Type) (*types.Basic, bool) {
	b, ok := t.Underlying().(*types.Basic)
	return b, ok && b.Info()&types.IsUnsigned != 0
}

// condRange: bounds on v from the conditions of the edges dominating b.
func (ia *idxAnalysis) condRange(v ssa.Value, b *ssa.BasicBlock) ival {
	out := ival{}
	for d := b; d != nil; d = d.Idom() {
		if len(d.Preds) > 1 && len(d.Preds) <= 4 {
			// a join point: what every incoming edge guarantees (e.g. `if x != 0 && x != 1 { return }` leaves x in {0,1})
			var j ival
			first, all := true, true
			for _, p := range d.Preds {
				e := ia.edgeRange(v, p, d)
				if !e.okLo && !e.okHi {
					all = false
					break
				}
				if first {
					j, first = e, false
				} else {
					j = join(j, e)
				}
			}
			if all && !first {
				out = meet(out, j)
			}
			continue
		}
		if len(d.Preds) != 1 {
			continue
		}
		p := d.Preds[0]
		if len(p.Instrs) == 0 {
			continue
		}
		ifi, ok := p.Instrs[len(p.Instrs)-1].(*ssa.If)
		if !ok || p.Succs[0] == p.Succs[1] {
			continue
		}
		pol := p.Succs[0] == d
		bo, ok := ifi.Cond.(*ssa.BinOp)
		if !ok {
			continue
		}
		op := bo.Op
		var other ssa.Value
		switch {
		case sameValue(bo.X, v):
			other = bo.Y
		case sameValue(bo.Y, v):
			other = bo.X
			switch op {
			case token.LSS:
				op = token.GTR
			case token.LEQ:
				op = token.GEQ
			case token.GTR:
				op = token.LSS
			case token.GEQ:
				op = token.LEQ
			}
		default:
			continue
		}
		if !pol {
			switch op {
			case token.EQL:
				op = token.NEQ
			case token.NEQ:
				op = token.EQL
			case token.LSS:
				op = token.GEQ
			case token.LEQ:
				op = token.GTR
			case token.GTR:
				op = token.LEQ
			case token.GEQ:
				op = token.LSS
			}
		}
		k := ia.simpleRange(other) // constants and len(table) only
		switch op {
		case token.LSS:
			if k.okHi {
				out = meet(out, ival{hi: k.hi - 1, okHi: true})
			}
		case token.LEQ:
			if k.okHi {
				out = meet(out, ival{hi: k.hi, okHi: true})
			}
		case token.GTR:
			if k.okLo {
				out = meet(out, ival{lo: k.lo + 1, okLo: true})
			}
		case token.GEQ:
			if k.okLo {
				out = meet(out, ival{lo: k.lo, okLo: true})
			}
		case token.EQL:
			out = meet(out, k)
		}
	}
	return out
}

// edgeRange: the constraint the single edge p -> d puts on v (only when p ends in a comparison of v with a constant)
func (ia *idxAnalysis) edgeRange(v ssa.Value, p, d *ssa.BasicBlock) ival {
	if len(p.Instrs) == 0 {
		return ival{}
	}
	ifi, ok := p.Instrs[len(p.Instrs)-1].(*ssa.If)
	if !ok || p.Succs[0] == p.Succs[1] {
		return ival{}
	}
	bo, ok := ifi.Cond.(*ssa.BinOp)
	if !ok || !sameValue(bo.X, v) {
		return ival{}
	}
	k := ia.simpleRange(bo.Y)
	if !(k.okLo && k.okHi && k.lo == k.hi) {
		return ival{}
	}
	op := bo.Op
	if p.Succs[0] != d {
		switch op {
		case token.EQL:
			op = token.NEQ
		case token.NEQ:
			op = token.EQL
		case token.LSS:
			op = token.GEQ
		case token.LEQ:
			op = token.GTR
		case token.GTR:
			op = token.LEQ
		case token.GEQ:
			op = token.LSS
		}
	}
	switch op {
	case token.EQL:
		return k
	case token.LSS:
		return ival{hi: k.lo - 1, okHi: true}
	case token.LEQ:
		return ival{hi: k.lo, okHi: true}
	case token.GTR:
		return ival{lo: k.lo + 1, okLo: true}
	case token.GEQ:
		return ival{lo: k.lo, okLo: true}
	}
	return ival{}
}

// simpleRange: a constant or len(literal table), possibly converted; no recursion into conditions
func (ia *idxAnalysis) simpleRange(v ssa.Value) ival {
	for i := 0; i < 4; i++ {
		switch x := v.(type) {
		case *ssa.Const:
			if x.Value != nil && x.Value.Kind() == constant.Int {
				if k, ok := constant.Int64Val(x.Value); ok {
					return exact(k)
				}
			}
			return ival{}
		case *ssa.Convert:
			v = x.X
			continue
		case *ssa.ChangeType:
			v = x.X
			continue
		case *ssa.Call:
			if bi, ok := x.Call.Value.(*ssa.Builtin); ok && bi.Name() == "len" && len(x.Call.Args) == 1 {
				if _, ti := ia.tableOf(x.Call.Args[0]); ti != nil {
					return exact(ti.length)
				}
			}
			return ival{}
		}
		break
	}
	return ival{}
}

// sameValue: identical SSA value, or both are conversions/loads of the same value (go/ssa has no CSE)
func sameValue(a, b ssa.Value) bool {
	if a == b {
		return true
	}
	ca, okA := a.(*ssa.Convert)
	cb, okB := b.(*ssa.Convert)
	if okA && okB && types.Identical(ca.Type(), cb.Type()) {
		return sameValue(ca.X, cb.X)
	}
	// a value-preserving widening of a small unsigned value (byte -> int) compares like the value itself
	widen := func(cv *ssa.Convert) bool {
		tr := typeRange(cv.X.Type())
		dst, ok := cv.Type().Underlying().(*types.Basic)
		return tr.okLo && tr.okHi && tr.lo >= 0 && ok && dst.Info()&types.IsInteger != 0 && (typeRange(cv.Type()).okHi == false || typeRange(cv.Type()).hi >= tr.hi)
	}
	if okA && widen(ca) && sameValue(ca.X, b) {
		return true
	}
	if okB && widen(cb) && sameValue(a, cb.X) {
		return true
	}
	return false
}

// frozenTableIdx: site (or site/incoming value) -> "side|reason": side is the bound that is taken on trust (lo, hi or
// both); the other bound must still be proven by the analysis. Reasons are confirmed by reading the pinned tree. A reason starting
// with "validated by <func>:" is additionally checked: a call of <func> must dominate the site.
var frozenTableIdx = map[string]string{
	"(oned.ean13Encoder).encodeWithHints:oned.UPCEANReader_L_PATTERNS#0":                                                    "hi|validated by onedWriter_checkNumeric: every character is '0'..'9', so contents[i]-'0' is 0..9",
	"(oned.ean13Encoder).encodeWithHints:oned.ean13Reader_FIRST_DIGIT_ENCODINGS#0":                                          "hi|validated by onedWriter_checkNumeric: every character is '0'..'9', so contents[0]-'0' is 0..9",
	"(oned.ean8Encoder).encodeWithHints:oned.UPCEANReader_L_PATTERNS#0":                                                     "hi|validated by onedWriter_checkNumeric: every character is '0'..'9'",
	"(oned.ean8Encoder).encodeWithHints:oned.UPCEANReader_L_PATTERNS#1":                                                     "hi|validated by onedWriter_checkNumeric: every character is '0'..'9'",
	"(oned.itfEncoder).encodeWithHints:oned.itfWriter_PATTERNS#0":                                                           "hi|validated by onedWriter_checkNumeric: every character is '0'..'9'",
	"(oned.itfEncoder).encodeWithHints:oned.itfWriter_PATTERNS#1":                                                           "hi|validated by onedWriter_checkNumeric: every character is '0'..'9' (length even: checked above)",
	"(oned.code39Encoder).encodeWithHints:oned.code39CharacterEncodings#0":                                                  "both|the first loop either finds every character in the alphabet or replaces the contents by code39TryToConvertToExtendedMode's output, which consists of alphabet characters only (it fails for anything above 127)",
	"(oned.code93Encoder).encodeWithHints:oned.code93CharacterEncodings#0":                                                  "both|validated by code93ConvertToExtended: its output consists of characters of code93AlphabetString only (it fails for anything above 127)",
	"(oned.code93Encoder).encodeWithHints:oned.code93CharacterEncodings#1":                                                  "lo|code93ComputeChecksumIndex returns total % 47 of a sum of non-negative products (alphabet index x weight)",
	"(oned.code93Encoder).encodeWithHints:oned.code93CharacterEncodings#2":                                                  "lo|code93ComputeChecksumIndex returns total % 47 of a sum of non-negative products (alphabet index x weight)",
	"(oned.code128Encoder).encodeWithHints:oned.code128CODE_PATTERNS#0":                                                     "lo|checkSum is a sum of products of non-negative pattern indices and positive weights, reduced % 103",
	"(oned.code128Encoder).encodeWithHints:oned.code128CODE_PATTERNS#2/in4":                                                 "both|code set A, not an escape (the switch cases above took those): the content loop rejected everything above 127, so rune - ' ' is at most 95; negative values are moved up on the next line",
	"(oned.code128Encoder).encodeWithHints:oned.code128CODE_PATTERNS#2/in8":                                                 "lo|code set A control character: rune - ' ' + '`' is 64..95 for runes 0..31",
	"(oned.code128Encoder).encodeWithHints:oned.code128CODE_PATTERNS#2/in6":                                                 "both|code set B is chosen (or forced, with the content loop rejecting <= 32) only for runes 32..127: rune - ' ' is 0..95",
	"(oned.code128Encoder).encodeWithHints:oned.code128CODE_PATTERNS#2/in11":                                                "lo|the initial forcedCodeSet = -1 reaches newCodeSet only on the path that overwrites it with code128ChooseCode's result (path-insensitive merge)",
	"(*oned.codabarReader).validatePattern:oned.codabarReader_CHARACTER_ENCODINGS#0":                                        "hi|decodeRowResult holds table offsets returned by toNarrowWidePattern: an index i < len(codabarReader_CHARACTER_ENCODINGS), or -1 which DecodeRow rejects before storing",
	"(*oned.codabarReader).validatePattern:oned.codabarReader_CHARACTER_ENCODINGS#1":                                        "hi|decodeRowResult holds table offsets returned by toNarrowWidePattern (see #0)",
	"(*qrcode/decoder.BitMatrixParser).ReadCodewords:decoder.DataMaskValues#0":                                              "hi|FormatInformation.dataMask is byte(formatInfo & 0x07): 0..7 (the only constructor, newFormatInformation)",
	"(*qrcode/decoder.BitMatrixParser).Remask:decoder.DataMaskValues#0":                                                     "hi|FormatInformation.dataMask is byte(formatInfo & 0x07): 0..7",
	"datamatrix/decoder.decodeC40Segment:decoder.C40_SHIFT2_SET_CHARS#0":                                                    "lo|values come from parseTwoBytes on two 8-bit reads; the only negative one is the third value of the triple (0, 0, -1) for the byte pair (0, 0), and its two predecessors 0, 0 leave the shift state at 0 or 1 whatever it was, so a negative value never meets shift 2",
	"datamatrix/decoder.decodeTextSegment:decoder.TEXT_SHIFT2_SET_CHARS#0":                                                  "lo|as for C40: the only negative value (third of (0, 0, -1)) is always processed in shift state 0 or 1",
	"datamatrix/decoder.decodeTextSegment:decoder.TEXT_SHIFT3_SET_CHARS#0":                                                  "lo|as for C40: the only negative value (third of (0, 0, -1)) is always processed in shift state 0 or 1",
	"oned.code93CheckOneChecksum:oned.code93Alphabet#0":                                                                     "lo|total is a sum of alphabet indices (every result character was produced by code93PatternToChar from the alphabet) times positive weights, reduced % 47",
	"qrcode/decoder.toAlphaNumericChar:decoder.ALPHANUMERIC_CHARS#0":                                                        "lo|both callers pass a ReadBits result (non-negative) divided by or reduced modulo 45, or itself; the upper bound is tested on the line above",
	"qrcode/encoder.embedTypeInfo:encoder.matrixUtil_TYPE_INFO_COORDINATES#0/in1":                                           "hi|validated by makeTypeInfoBits: it fails unless the bit array holds exactly 15 bits, and the loop runs i < GetSize()",
	"qrcode/encoder.maybeEmbedPositionAdjustmentPatterns:encoder.matrixUtil_POSITION_ADJUSTMENT_PATTERN_COORDINATE_TABLE#0": "both|version numbers are 1..40 (Version objects exist only for the 40 rows of VERSIONS: T-QRVER)",
}

// frozenOK: does the frozen row cover what the analysis could not prove?
func frozenOK(row string, rg ival, length int64) (why string, ok bool) {
	side, why := "both", row
	for i := 0; i < len(row) && i < 5; i++ {
		if row[i] == '|' {
			side, why = row[:i], row[i+1:]
			break
		}
	}
	loOK := rg.okLo && rg.lo >= 0
	hiOK := rg.okHi && rg.hi < length
	switch side {
	case "lo":
		return why, hiOK
	case "hi":
		return why, loOK
	}
	return why, true
}

// validatedBy: reason "validated by F: ..." holds only if a call of F dominates the site.
func validatedBy(reason string, f *ssa.Function, site *ssa.BasicBlock) (string, bool) {
	const pfx = "validated by "
	if len(reason) < len(pfx) || reason[:len(pfx)] != pfx {
		return "", true
	}
	name := reason[len(pfx):]
	for i := 0; i < len(name); i++ {
		if name[i] == ':' {
			name = name[:i]
			break
		}
	}
	for _, b := range f.Blocks {
		if !b.Dominates(site) {
			continue
		}
		for _, in := range b.Instrs {
			if call, ok := in.(*ssa.Call); ok {
				if cal := call.Call.StaticCallee(); cal != nil && cal.Name() == name {
					return name, true
				}
			}
		}
	}
	return name, false
}

func runETableIdx(c *Ctx, r *Report, reach map[*ssa.Function]bool, scope string, min int) {
	r.Rule("E-TABLEIDX", "every index into a package-level literal table (slice, array or string with a literal initialiser) reached from "+scope+" lies inside the table: shown by an interval analysis over SSA (constants, integer type ranges, % and & by constants, shifts, element ranges of other literal tables, dominating comparisons with constants or len(table), loop counters bounded by their loop test)", min)
	ia := c.newIdxAnalysis()
	var fs []*ssa.Function
	for f := range reach {
		fs = append(fs, f)
	}
	sort.Slice(fs, func(i, j int) bool { return fs[i].String() < fs[j].String() })
	n := 0
	for _, f := range fs {
		ord := map[string]int{}
		for _, b := range f.Blocks {
			for _, in := range b.Instrs {
				var base, idx ssa.Value
				switch x := in.(type) {
				case *ssa.IndexAddr:
					base, idx = x.X, x.Index
				case *ssa.Index:
					base, idx = x.X, x.Index
				case *ssa.Lookup:
					if _, isMap := x.X.Type().Underlying().(*types.Map); isMap {
						continue
					}
					base, idx = x.X, x.Index
				default:
					continue
				}
				g, ti := ia.tableOf(base)
				if ti == nil {
					continue
				}
				n++
				name := g.Pkg.Pkg.Name() + "." + g.Name()
				key := fmt.Sprintf("%s:%s#%d", shortFn(f), name, ord[name])
				ord[name]++
				rg := ia.rangeOf(idx, b, 0, map[ssa.Value]bool{})
				pos := c.pos(in.Pos())
				if rg.okLo && rg.okHi && rg.lo >= 0 && rg.hi < ti.length {
					r.Pass("E-TABLEIDX", key, pos, fmt.Sprintf("index in %s, table length %d", rg, ti.length))
					continue
				}
				// an index merged from several assignments: one obligation per incoming value, so that a proven
				// branch stays checked when another one needs a frozen justification
				if phi, isPhi := idx.(*ssa.Phi); isPhi {
					cr := ia.condRange(idx, b)
					type leaf struct {
						v  ssa.Value
						at *ssa.BasicBlock
					}
					var leaves []leaf
					seenPhi := map[*ssa.Phi]bool{}
					var expand func(ph *ssa.Phi, depth int)
					expand = func(ph *ssa.Phi, depth int) {
						seenPhi[ph] = true
						for i, e := range ph.Edges {
							if sub, isSub := e.(*ssa.Phi); isSub && depth < 4 {
								if !seenPhi[sub] {
									expand(sub, depth+1)
								}
								continue
							}
							leaves = append(leaves, leaf{e, ph.Block().Preds[i]})
						}
					}
					expand(phi, 0)
					for i, lf := range leaves {
						e := lf.v
						ek := fmt.Sprintf("%s/in%d", key, i)
						er := meet(ia.rangeOf(e, lf.at, 1, map[ssa.Value]bool{}), cr)
						epos := pos
						if e.Pos().IsValid() {
							epos = c.pos(e.Pos())
						}
						switch {
						case er.okLo && er.okHi && er.lo >= 0 && er.hi < ti.length:
							r.Pass("E-TABLEIDX", ek, epos, fmt.Sprintf("incoming value in %s, table length %d", er, ti.length))
						case frozenTableIdx[ek] != "":
							why, covered := frozenOK(frozenTableIdx[ek], er, ti.length)
							if !covered {
								r.Fail("E-TABLEIDX", ek, epos, "violation", fmt.Sprintf("this index into %s (length %d) is only known to lie in %s; the recorded justification covers one bound only (%s)", name, ti.length, er, why))
							} else if v, okV := validatedBy(why, f, b); !okV {
								r.Fail("E-TABLEIDX", ek, epos, "violation", fmt.Sprintf("this index into %s (length %d) relied on the validation by %s, which no longer dominates the lookup", name, ti.length, v))
							} else {
								r.Pass("E-TABLEIDX", ek, epos, "frozen: "+why)
							}
						default:
							r.Fail("E-TABLEIDX", ek, epos, "violation", fmt.Sprintf("this value, used at %s as an index into %s (length %d), is only known to lie in %s: it may fall outside the table", pos, name, ti.length, er))
						}
					}
					continue
				}
				if row, ok := frozenTableIdx[key]; ok {
					why, covered := frozenOK(row, rg, ti.length)
					if !covered {
						r.Fail("E-TABLEIDX", key, pos, "violation", fmt.Sprintf("index into %s (length %d) is only known to lie in %s; the recorded justification covers one bound only (%s) and the other is no longer proven", name, ti.length, rg, why))
						continue
					}
					if v, okV := validatedBy(why, f, b); !okV {
						r.Fail("E-TABLEIDX", key, pos, "violation", fmt.Sprintf("index into %s (length %d) relied on the validation by %s, which no longer dominates this lookup", name, ti.length, v))
						continue
					}
					r.Pass("E-TABLEIDX", key, pos, "frozen: "+why)
					continue
				}
				r.Fail("E-TABLEIDX", key, pos, "violation", fmt.Sprintf("index into %s (length %d) is only known to lie in %s: it may fall outside the table", name, ti.length, rg))
			}
		}
	}
	r.Extra("table_index_sites_"+scope, n)
}
