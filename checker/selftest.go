package main

import (
	_ "embed"
	"encoding/json"
	"fmt"
	"io/fs"
	"os"
	"os/exec"
	"path/filepath"
	"strings"
	"sync"
)

// Self-validation of the checker (thorough tier): a catalogue of minimal breaking edits, one or more per
// rule instance. Each is applied to a scratch copy of /repo's *current* non-test sources (outside /repo and
// /verif, removed immediately), the property's rules are re-run out of process, and the run must report
// the expected rule on the expected construct. An edit whose context no longer exists is skipped and counted.

//go:embed selftest/catalog.json
var selftestCatalog []byte

type selfEdit struct {
	ID   string `json:"id"`
	Prop string `json:"prop"`
	File string `json:"file"`
	Old  string `json:"old"`
	New  string `json:"new"`
	Rule string `json:"rule"`
	Key  string `json:"key,omitempty"` // substring of the reported key
	Note string `json:"note,omitempty"`
	More []struct {
		File string `json:"file"`
		Old  string `json:"old"`
		New  string `json:"new"`
	} `json:"more,omitempty"`
}

type selfResult struct {
	ID     string `json:"id"`
	Status string `json:"status"` // fired | skipped-context-missing | missed | invalid
	Detail string `json:"detail,omitempty"`
}

func copyRepoSources(dst string) error {
	return filepath.WalkDir(repoDir, func(path string, d fs.DirEntry, err error) error {
		if err != nil {
			return err
		}
		rel, _ := filepath.Rel(repoDir, path)
		if d.IsDir() {
			if d.Name() == ".git" || d.Name() == "testdata" {
				return filepath.SkipDir
			}
			return nil
		}
		if rel == "go.mod" || rel == "go.sum" || (strings.HasSuffix(rel, ".go") && !strings.HasSuffix(rel, "_test.go")) {
			b, err := os.ReadFile(path)
			if err != nil {
				return err
			}
			out := filepath.Join(dst, rel)
			if err := os.MkdirAll(filepath.Dir(out), 0o755); err != nil {
				return err
			}
			return os.WriteFile(out, b, 0o644)
		}
		return nil
	})
}

func runSelfEdit(e selfEdit) selfResult {
	src := filepath.Join(repoDir, e.File)
	b, err := os.ReadFile(src)
	if err != nil || !strings.Contains(string(b), e.Old) {
		return selfResult{e.ID, "skipped-context-missing", ""}
	}
	dir, err := os.MkdirTemp("", "gzself-")
	if err != nil {
		return selfResult{e.ID, "invalid", err.Error()}
	}
	defer os.RemoveAll(dir)
	if err := copyRepoSources(dir); err != nil {
		return selfResult{e.ID, "invalid", err.Error()}
	}
	mut := strings.Replace(string(b), e.Old, e.New, 1)
	if err := os.WriteFile(filepath.Join(dir, e.File), []byte(mut), 0o644); err != nil {
		return selfResult{e.ID, "invalid", err.Error()}
	}
	for _, m := range e.More {
		mb, err := os.ReadFile(filepath.Join(dir, m.File))
		if err != nil || !strings.Contains(string(mb), m.Old) {
			return selfResult{e.ID, "skipped-context-missing", ""}
		}
		if err := os.WriteFile(filepath.Join(dir, m.File), []byte(strings.Replace(string(mb), m.Old, m.New, 1)), 0o644); err != nil {
			return selfResult{e.ID, "invalid", err.Error()}
		}
	}
	self, _ := os.Executable()
	cmd := exec.Command(self, "-repo", dir, "-verif", verifDir, "-no-evidence", "-prop", e.Prop, "-tier", "quick")
	cmd.Env = append(os.Environ(), "GZCHECK_CHILD=1")
	out, _ := cmd.CombinedOutput()
	txt := string(out)
	if strings.Contains(txt, "[CHECKER/checker-failure]") {
		return selfResult{e.ID, "invalid", firstLine(txt)}
	}
	for _, ln := range strings.Split(txt, "\n") {
		i := strings.Index(ln, "["+e.Rule+"/")
		if i < 0 {
			continue
		}
		if e.Key == "" || strings.Contains(ln[i:], e.Key) {
			return selfResult{e.ID, "fired", ""}
		}
	}
	return selfResult{e.ID, "missed", lastLines(txt, 3)}
}

func firstLine(s string) string {
	if i := strings.Index(s, "\n"); i >= 0 {
		s = s[:i]
	}
	if len(s) > 300 {
		s = s[:300]
	}
	return s
}

func lastLines(s string, n int) string {
	ls := strings.Split(strings.TrimSpace(s), "\n")
	if len(ls) > n {
		ls = ls[len(ls)-n:]
	}
	out := strings.Join(ls, " | ")
	if len(out) > 400 {
		out = out[:400]
	}
	return out
}

func runSelftest(prop string, r *Report) {
	var cat []selfEdit
	if err := json.Unmarshal(selftestCatalog, &cat); err != nil {
		r.Fail("SELFTEST", "catalog", "", "checker-failure", "self-test catalogue unreadable: "+err.Error())
		return
	}
	var mine []selfEdit
	for _, e := range cat {
		if e.Prop == prop {
			mine = append(mine, e)
		}
	}
	if len(mine) == 0 {
		return
	}
	r.Rule("SELFTEST", "checker self-validation: each catalogued one-line breaking edit, applied to a scratch copy of the current tree, makes the named rule fire on the named construct (edits whose context is gone are skipped and counted)", 0)
	results := make([]selfResult, len(mine))
	sem := make(chan struct{}, 4)
	var wg sync.WaitGroup
	for i, e := range mine {
		wg.Add(1)
		go func(i int, e selfEdit) {
			defer wg.Done()
			sem <- struct{}{}
			defer func() { <-sem }()
			results[i] = runSelfEdit(e)
		}(i, e)
	}
	wg.Wait()
	counts := map[string]int{}
	for i, res := range results {
		counts[res.Status]++
		key := "selftest:" + mine[i].ID
		switch res.Status {
		case "fired":
			r.Pass("SELFTEST", key, mine[i].File, "")
		case "skipped-context-missing":
			// not an obligation: the code the edit targeted has changed
		case "missed":
			r.Fail("SELFTEST", key, mine[i].File, "checker-failure", fmt.Sprintf("seeded edit %q -> %q did not make rule %s fire (%s): the checker no longer detects this breakage", mine[i].Old, mine[i].New, mine[i].Rule, res.Detail))
		default:
			r.Fail("SELFTEST", key, mine[i].File, "checker-failure", "seeded edit could not be evaluated: "+res.Detail)
		}
	}
	r.Extra("selftest", map[string]interface{}{"entries": len(mine), "fired": counts["fired"], "skipped_context_missing": counts["skipped-context-missing"], "missed": counts["missed"], "invalid": counts["invalid"], "results": results})
}
