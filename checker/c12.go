package main

import (
	"fmt"
	"go/types"
	"golang.org/x/tools/go/ssa"
	"strings"
)

func init() {
	registerProp("C12", "Encoding is total", checkC12)
}

func encodeRoots(c *Ctx, r *Report, nf *nilFlow) []*ssa.Function {
	var roots []*ssa.Function
	roots = append(roots, nf.entryMethods("", "Writer", "Encode")...)
	for _, t := range [][2]string{
		{"qrcode/encoder", "Encoder_encode"},
	} {
		if f := c.ssaFunc(t[0], t[1]); f != nil {
			roots = append(roots, f)
		} else {
			r.AnchorLost("E-XOR", t[0]+"."+t[1], "entry point not found")
		}
	}
	return roots
}

func checkC12(c *Ctx, r *Report) {
	runEDrop(c, r, nil, 60)
	nf := c.newNilFlow()
	roots := encodeRoots(c, r, nf)
	runEXOR(c, r, nf, roots, 5)
	reach := nf.reachableFrom(roots)
	runENIL(c, r, nf, reach, 4)
	nonZeroHook = func(call *ssa.Call, idx int) bool {
		cs := nf.callees(call)
		if len(cs) == 0 {
			return false
		}
		for _, g := range cs {
			if !nf.nonZeroResult(g, idx) {
				return false
			}
		}
		return true
	}
	runEFMTARG(c, r)
	runEPANIC(c, r, reach, "the encode entry points")
	runEMAKE(c, r, reach, "the encode entry points")
	runEDIV(c, r, reach, "the encode entry points")
	runETableIdx(c, r, reach, "the encode entry points", 1)
	runECONSTIDX(c, r, reach, roots, "the encode entry points", 1)
	// the Data Matrix ECC step indexes its codeword buffer by the symbol table's counts (data + error codewords, blocks x
	// check words per block): the table rules decide that those agree
	checkDMTables(c, r)
	// the Code 128 writer's value computation indexes its contents by position: folded over contents and forced code sets
	checkCode128RoundTrip(c, r)
	// the C40 / Text character encoders recurse for upper-shifted characters: folded for all 256 characters (also C02)
	checkDMCharEncodersTotal(c, r)
	// the Codabar writer sizes its module slice before it fills it: folded as a whole function (also C03)
	checkCodabarWriterWhole(c, r)
	// every renderer fills module blocks with SetRegion: its word arithmetic at the right and bottom edge (also C16, C14)
	checkWholeOps(c, r)
	// "never smaller than the symbol": the margin the renderers add is not negative
	checkMarginNonNegative(c, r)
	checkBitMatrixCtor(c, r) // the writers that discard NewBitMatrix's error have excluded the one thing it refuses
	// the size clause itself: the output size, module size and padding terms of the three renderers (same obligations as
	// under C14): a matrix narrower than symbol + quiet zone, or a module size that overruns it, is decided here
	declareRenderRules(r, 3)
	renderQR(c, r)
	renderDM(c, r)
	renderOneD(c, r)
	checkNumericOnly(c, r) // the table lookups contents[i] - '0' of ITF / UPC / EAN rest on it
	// the Data Matrix end-of-data handlers index the message and the codeword list: folded on the context model
	checkDMX12EOD(c, r)
	checkDMEdifactEOD(c, r)
	checkDMC40EOD(c, r)
	r.Note("not decided: termination of the Data Matrix mode loop (needs a ranking argument over data-dependent rewinds)")
}

// E-CHARENC: the recursive C40 / Text character encoders end for every character
func checkDMCharEncodersTotal(c *Ctx, r *Report) {
	r.Rule("E-CHARENC", "c40EncodeChar and textEncodeChar, which call themselves for an upper-shifted character, are folded for every byte value 0..255: the fold ends (no unbounded recursion - a stack overflow cannot be recovered from) and yields one to four values below 40 together with their count", 2)
	for _, name := range []string{"c40EncodeChar", "textEncodeChar"} {
		fd, p := c.funcDeclOf("datamatrix/encoder", name)
		key := "datamatrix/encoder." + name
		if fd == nil {
			r.AnchorLost("E-CHARENC", key, "function not found")
			continue
		}
		r.Analysed(key)
		bad := ""
		for ch := int64(0); ch < 256 && bad == ""; ch++ {
			res, err := c.rpfCall(fd, p, []*Val{vint(ch), emptyBytes()}, nil)
			if err != nil {
				if strings.Contains(err.Error(), "unbounded recursion") {
					bad = fmt.Sprintf("%s(0x%02X) never returns: %v", name, ch, err)
				} else {
					bad = fmt.Sprintf("?%s(0x%02X): %v", name, ch, err)
				}
				break
			}
			vals, ok := listInts(res[1])
			if len(res) != 2 || !ok || res[0].K != VInt || res[0].I != int64(len(vals)) || len(vals) < 1 || len(vals) > 4 {
				bad = fmt.Sprintf("%s(0x%02X) does not yield one to four values and their count", name, ch)
				break
			}
			for _, v := range vals {
				if v < 0 || v >= 40 {
					bad = fmt.Sprintf("%s(0x%02X) produces value %d, outside 0..39", name, ch, v)
				}
			}
		}
		reportFold(r, c, "E-CHARENC", key, fd.Pos(), bad)
	}
}

// M-MATRIXCTOR: when NewBitMatrix refuses
func checkBitMatrixCtor(c *Ctx, r *Report) {
	r.Rule("M-MATRIXCTOR", "NewBitMatrix refuses a size exactly when a dimension is below 1: its guards, folded over a grid of widths and heights from -1 to 200 000, fire for those and for no other size - several callers discard its error on the strength of having tested the dimensions themselves (the frozen E-DROP rows for NewBitMatrix), and would go on with a nil matrix if it refused anything else", 1)
	fd, p := c.funcDeclOf("", "NewBitMatrix")
	key := "gozxing.NewBitMatrix/refusals"
	if fd == nil {
		r.AnchorLost("M-MATRIXCTOR", key, "constructor not found")
		return
	}
	r.Analysed(key)
	ps := paramObjs(p, fd)
	bad := ""
	if len(ps) != 2 {
		bad = "?NewBitMatrix no longer takes (width, height)"
	}
	dims := []int64{-1, 0, 1, 2, 31, 32, 33, 1000, 12000, 200000}
	for _, w := range dims {
		for _, h := range dims {
			if bad != "" {
				break
			}
			env := map[types.Object]*Val{ps[0]: vint(w), ps[1]: vint(h)}
			fired, err := guardFires(c, fd, p, env, &rpf{callHook: errCtorHook}, 0)
			if err != "" {
				bad = "?" + err
				break
			}
			if want := w < 1 || h < 1; fired != want {
				bad = fmt.Sprintf("NewBitMatrix(%d, %d): refused = %v; only a dimension below 1 is refused", w, h, fired)
			}
		}
	}
	reportFold(r, c, "M-MATRIXCTOR", key, fd.Pos(), bad)
}

// M-NONEMPTY: a 2-D writer's own preconditions on the contents
func checkWriterAcceptsContents(c *Ctx, r *Report, rel, method, format string) {
	r.Rule("M-NONEMPTY", "the writer's leading guards - folded over contents that are empty, blank only (a space, CR LF, ten spaces, a no-break space), and ordinary, with the writer's own format and a requested size of 0x0 and 10x10 - refuse the empty string and nothing else: every non-empty text goes on to the encoder, which alone decides what it can represent", 1)
	fd, p := c.funcDeclOf(rel, method)
	key := rel + "." + method + "/contents"
	if fd == nil {
		r.AnchorLost("M-NONEMPTY", key, "method not found")
		return
	}
	r.Analysed(key)
	ps := paramObjs(p, fd)
	fv, ok := constValIn(c, "", format)
	bad := ""
	if len(ps) != 5 || !ok {
		bad = "?Encode signature or format constant changed"
	}
	for _, s := range []string{"", " ", "\r\n", "          ", " ", "a", " a ", "0"} {
		for _, sz := range []int64{0, 10} {
			if bad != "" {
				break
			}
			env := map[types.Object]*Val{ps[0]: vstr(s), ps[1]: vint(fv), ps[2]: vint(sz), ps[3]: vint(sz), ps[4]: {K: VNil}}
			if ro := recvObj(p, fd); ro != nil {
				env[ro] = &Val{K: VStruct, Ptr: true, Fields: map[string]*Val{}}
			}
			fired, err := guardFires(c, fd, p, env, &rpf{callHook: errCtorHook}, 0)
			if err != "" {
				bad = "?" + err
				break
			}
			if want := s == ""; fired != want {
				bad = fmt.Sprintf("contents %q at %dx%d: refused by the writer's own guards = %v; only the empty string is refused there", s, sz, sz, fired)
			}
		}
	}
	reportFold(r, c, "M-NONEMPTY", key, fd.Pos(), bad)
}
