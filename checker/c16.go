package main

import (
	"fmt"
	"go/ast"
	"go/token"
	"go/types"
	"math/bits"
	"strings"

	"golang.org/x/tools/go/packages"
	"golang.org/x/tools/go/types/typeutil"
)

func init() {
	registerProp("C16", "BitMatrix and BitArray behave as plain bit containers", checkC16)
}

func checkC16(c *Ctx, r *Report) {
	checkBitOps(c, r)
	checkRangeMasks(c, r)
	checkContainerGuards(c, r)
	checkRowSize(c, r)
	checkReversal(c, r)
	checkPairedSlices(c, r)
	checkWholeOps(c, r)
	checkWholeOps2(c, r)
	checkGetRowWhole(c, r)
	checkMatrixParse(c, r)
	checkBitArrayHistories(c, r)
	checkSetRowWhole(c, r)
	r.Note("decided: the single-bit operations, per-word mask transitions, argument guards, word-geometry formulae, unconditional bit reversal in the 180-degree rotations and paired-slice loop bounds. Not decided: the model equivalence the property states over operation histories (rotation realignment shifts, GetNextSet/Unset scanning, growth) — run-time by nature")
}

// wordModel: a tiny word store the folded bodies read and write through hooks
type wordModel struct {
	words map[int64]uint32
	reads []int64
}

func (m *wordModel) hooks(p *packages.Package, width, height, rowSize, size, nwords int64) *rpf {
	return &rpf{
		selHook: func(x *rpf, sel *ast.SelectorExpr) (*Val, bool) {
			switch sel.Sel.Name {
			case "width":
				return vint(width), true
			case "height":
				return vint(height), true
			case "rowSize":
				return vint(rowSize), true
			case "size":
				return vint(size), true
			}
			return nil, false
		},
		idxHook: func(x *rpf, ix *ast.IndexExpr) (*Val, bool) {
			if sel, ok := ix.X.(*ast.SelectorExpr); ok && sel.Sel.Name == "bits" {
				i := x.expr(ix.Index)
				if !i.isInt() || i.I < 0 || i.I >= nwords {
					rpfFail("word index %v outside the %d-word store", i, nwords)
				}
				m.reads = append(m.reads, i.I)
				return &Val{K: VInt, I: int64(m.words[i.I]), T: types.Typ[types.Uint32]}, true
			}
			return nil, false
		},
		stHook: func(x *rpf, lhs ast.Expr, v *Val) bool {
			ix, ok := lhs.(*ast.IndexExpr)
			if !ok {
				return false
			}
			if sel, ok := ix.X.(*ast.SelectorExpr); !ok || sel.Sel.Name != "bits" {
				return false
			}
			i := x.expr(ix.Index)
			if !i.isInt() || i.I < 0 || i.I >= nwords {
				rpfFail("word index %v outside the %d-word store", i, nwords)
			}
			m.words[i.I] = uint32(v.I)
			return true
		},
		callHook: func(x *rpf, call *ast.CallExpr, callee types.Object) (*Val, bool) {
			if f, ok := callee.(*types.Func); ok && f.Pkg() != nil && f.Pkg().Path() == "golang.org/x/xerrors" {
				return vstr("error"), true
			}
			if f, ok := callee.(*types.Func); ok && f.Name() == "ensureCapacity" {
				return &Val{K: VNil}, true
			}
			if b, ok := callee.(*types.Builtin); ok && b.Name() == "len" {
				if sel, ok := call.Args[0].(*ast.SelectorExpr); ok && sel.Sel.Name == "bits" {
					return vint(nwords), true
				}
			}
			return nil, false
		},
	}
}

func checkBitOps(c *Ctx, r *Report) {
	r.Rule("S-BITOPS", "the single-bit operations folded against a word model for every bit position of a 3-word store (and a 70x3 matrix): BitArray Get/Set/Flip/SetBulk/AppendBit and BitMatrix Get/Set/Unset/Flip touch exactly word index/32 (+ row*rowSize) at bit index%32 with the right operator; SetRegion's inner statement sets bit (x, y)", 9)
	pattern := []uint32{0xA5A5F00F, 0x0F0F1234, 0xFFFF0000}
	type op struct {
		recv, name string
		matrix     bool
		eff        func(old uint32, bit uint) uint32 // expected new word (nil = pure read)
	}
	ops := []op{
		{"BitArray", "Set", false, func(o uint32, b uint) uint32 { return o | 1<<b }},
		{"BitArray", "Flip", false, func(o uint32, b uint) uint32 { return o ^ 1<<b }},
		{"BitArray", "Get", false, nil},
		{"BitMatrix", "Set", true, func(o uint32, b uint) uint32 { return o | 1<<b }},
		{"BitMatrix", "Unset", true, func(o uint32, b uint) uint32 { return o &^ (1 << b) }},
		{"BitMatrix", "Flip", true, func(o uint32, b uint) uint32 { return o ^ 1<<b }},
		{"BitMatrix", "Get", true, nil},
	}
	for _, o := range ops {
		fd, p := c.funcDeclOf("", o.recv+"."+o.name)
		key := "gozxing." + o.recv + "." + o.name
		if fd == nil {
			r.AnchorLost("S-BITOPS", key, "method not found")
			continue
		}
		r.Analysed(key)
		bad := ""
		const W, H, RS = 70, 3, 3
		maxY := int64(1)
		if o.matrix {
			maxY = H
		}
		for y := int64(0); y < maxY && bad == ""; y++ {
			for x := int64(0); x < int64(map[bool]int{true: W, false: 96}[o.matrix]); x++ {
				m := &wordModel{words: map[int64]uint32{}}
				n := int64(3)
				if o.matrix {
					n = RS * H
				}
				for i := int64(0); i < n; i++ {
					m.words[i] = pattern[i%3] + uint32(i)
				}
				before := map[int64]uint32{}
				for k, v := range m.words {
					before[k] = v
				}
				args := []*Val{vint(x)}
				if o.matrix {
					args = append(args, vint(y))
				}
				res, err := c.rpfCall(fd, p, args, m.hooks(p, W, H, RS, 96, n))
				if err != nil {
					bad = "?" + err.Error()
					break
				}
				wi := x / 32
				if o.matrix {
					wi = y*RS + x/32
				}
				bit := uint(x % 32)
				if o.eff == nil {
					want := before[wi]>>bit&1 == 1
					if len(res) != 1 || res[0].K != VBool || res[0].B != want {
						bad = fmt.Sprintf("position (%d,%d): reads %v, the model has %v", x, y, res, want)
						break
					}
					continue
				}
				for k, v := range before {
					want := v
					if k == wi {
						want = o.eff(v, bit)
					}
					if m.words[k] != want {
						bad = fmt.Sprintf("position (%d,%d): word %d becomes %#x, the model has %#x", x, y, k, m.words[k], want)
					}
				}
				if bad != "" {
					break
				}
			}
		}
		if bad != "" && bad[0] == '?' {
			r.Undecided("S-BITOPS", key, c.pos(fd.Pos()), bad[1:])
		} else {
			r.Check(bad == "", "S-BITOPS", key, c.pos(fd.Pos()), bad)
		}
	}
	// SetBulk, AppendBit
	if fd, p := c.funcDeclOf("", "BitArray.SetBulk"); fd != nil {
		bad := ""
		for _, i := range []int64{0, 32, 64} {
			m := &wordModel{words: map[int64]uint32{0: 1, 1: 2, 2: 3}}
			if _, err := c.rpfCall(fd, p, []*Val{vint(i), {K: VInt, I: 0xDEADBEEF}}, m.hooks(p, 0, 0, 0, 96, 3)); err != nil {
				bad = "?" + err.Error()
			} else if m.words[i/32] != 0xDEADBEEF {
				bad = fmt.Sprintf("SetBulk(%d, w) wrote word %v", i, m.words)
			}
		}
		if bad != "" && bad[0] == '?' {
			r.Undecided("S-BITOPS", "gozxing.BitArray.SetBulk", c.pos(fd.Pos()), bad[1:])
		} else {
			r.Check(bad == "", "S-BITOPS", "gozxing.BitArray.SetBulk", c.pos(fd.Pos()), bad)
		}
	} else {
		r.AnchorLost("S-BITOPS", "gozxing.BitArray.SetBulk", "method not found")
	}
	// SetRegion inner body
	if fd, p := c.funcDeclOf("", "BitMatrix.SetRegion"); fd != nil {
		key := "gozxing.BitMatrix.SetRegion.body"
		var outer, inner *ast.ForStmt
		ast.Inspect(fd.Body, func(n ast.Node) bool {
			if f, ok := n.(*ast.ForStmt); ok {
				if outer == nil {
					outer = f
				} else if inner == nil {
					inner = f
				}
			}
			return true
		})
		bad := ""
		if outer == nil || inner == nil {
			bad = "?nested fill loops not found"
		} else {
			oy := identObj(p, outer.Init.(*ast.AssignStmt).Lhs[0])
			ox := identObj(p, inner.Init.(*ast.AssignStmt).Lhs[0])
			const RS = 3
			for y := int64(0); y < 3 && bad == ""; y++ {
				for x := int64(0); x < 70; x++ {
					m := &wordModel{words: map[int64]uint32{}}
					h := m.hooks(p, 70, 3, RS, 0, 9)
					env := map[types.Object]*Val{oy: vint(y), ox: vint(x)}
					if err := foldLoopBodies(c, p, env, h, outer, inner); err != nil {
						bad = "?" + err.Error()
						break
					}
					if len(m.words) != 1 || m.words[y*RS+x/32] != 1<<uint(x%32) {
						bad = fmt.Sprintf("fill step (%d,%d) writes %v, expected bit %d of word %d", x, y, m.words, x%32, y*RS+x/32)
						break
					}
				}
			}
			// headers: y from top to bottom-1, x from left to right-1 with right = left+width, bottom = top+height
			if bad == "" {
				s := c.newSymExec(p)
				for _, st := range fd.Body.List {
					if as, ok := st.(*ast.AssignStmt); ok && as.Tok == token.DEFINE {
						s.stmt(as)
					}
				}
				ps := paramObjs(p, fd)
				A := func(i int) *Poly { return polyAtom(objAtom(ps[i])) }
				okH := func(f *ast.ForStmt, lo, hi *Poly) bool {
					as, ok := f.Init.(*ast.AssignStmt)
					be, ok2 := f.Cond.(*ast.BinaryExpr)
					return ok && ok2 && be.Op == token.LSS && s.expr(as.Rhs[0]).equal(lo) && s.expr(be.Y).equal(hi)
				}
				if !okH(outer, A(1), A(1).add(A(3))) || !okH(inner, A(0), A(0).add(A(2))) {
					bad = "fill loops must run y in [top, top+height) and x in [left, left+width)"
				}
			}
		}
		if bad != "" && bad[0] == '?' {
			r.Undecided("S-BITOPS", key, c.pos(fd.Pos()), bad[1:])
		} else {
			r.Check(bad == "", "S-BITOPS", key, c.pos(fd.Pos()), bad)
		}
	} else {
		r.AnchorLost("S-BITOPS", "gozxing.BitMatrix.SetRegion", "method not found")
	}
}

// SetRange / IsRange: per-word mask transition
func checkRangeMasks(c *Ctx, r *Report) {
	r.Rule("S-RANGEMASK", "BitArray.SetRange and IsRange: the per-word loop body folded for every (start, end) in 0..70 and every word of the range ORs / tests exactly the bits of that word inside [start, end); the word loop runs firstInt..lastInt inclusive with end made inclusive first", 2)
	for _, name := range []string{"SetRange", "IsRange"} {
		fd, p := c.funcDeclOf("", "BitArray."+name)
		key := "gozxing.BitArray." + name
		if fd == nil {
			r.AnchorLost("S-RANGEMASK", key, "method not found")
			continue
		}
		r.Analysed(key)
		var loop *ast.ForStmt
		var pre []ast.Stmt
		for _, st := range fd.Body.List {
			if f, ok := st.(*ast.ForStmt); ok {
				loop = f
				break
			}
			pre = append(pre, st)
		}
		if loop == nil {
			r.Undecided("S-RANGEMASK", key, c.pos(fd.Pos()), "word loop not found")
			continue
		}
		ps := paramObjs(p, fd)
		iv := identObj(p, loop.Init.(*ast.AssignStmt).Lhs[0])
		bad := ""
		const SIZE = 70
	outer:
		for start := int64(0); start <= SIZE; start++ {
			for end := start + 1; end <= SIZE; end++ {
				// fold the prefix (guards fall through for valid arguments; end-- ; firstInt, lastInt)
				m := &wordModel{words: map[int64]uint32{}}
				h := m.hooks(p, 0, 0, 0, SIZE, 3)
				env := map[types.Object]*Val{ps[0]: vint(start), ps[1]: vint(end)}
				if name == "IsRange" {
					env[ps[2]] = vbool(true)
				}
				rr := &rpf{c: c, p: p, env: env, callHook: h.callHook, selHook: h.selHook, idxHook: h.idxHook, stHook: h.stHook}
				var err error
				var early *rpfReturn
				func() {
					defer func() {
						if y := recover(); y != nil {
							if re, ok := y.(*rpfErr); ok {
								err = re
								return
							}
							panic(y)
						}
					}()
					for _, st := range pre {
						if ret := rr.stmt(st); ret != nil {
							early = ret
							return
						}
					}
				}()
				if err != nil {
					bad = "?" + err.Error()
					break outer
				}
				if early != nil {
					bad = fmt.Sprintf("valid range [%d,%d) of a %d-bit array is refused", start, end, SIZE)
					break outer
				}
				// loop bounds
				lo, e1 := c.rpfExpr(p, loop.Init.(*ast.AssignStmt).Rhs[0], env, h)
				be, okB := loop.Cond.(*ast.BinaryExpr)
				if e1 != nil || !okB || be.Op != token.LEQ {
					bad = "?word loop header not recognised"
					break outer
				}
				hi, e2 := c.rpfExpr(p, be.Y, env, h)
				if e2 != nil || lo.I != start/32 || hi.I != (end-1)/32 {
					bad = fmt.Sprintf("range [%d,%d): word loop runs %v..%v, expected %d..%d", start, end, lo, hi, start/32, (end-1)/32)
					break outer
				}
				for w := lo.I; w <= hi.I; w++ {
					// expected mask of word w
					var want uint32
					for b := int64(0); b < 32; b++ {
						if pos := w*32 + b; pos >= start && pos < end {
							want |= 1 << uint(b)
						}
					}
					e2 := map[types.Object]*Val{}
					for k, v := range env {
						e2[k] = v
					}
					e2[iv] = vint(w)
					if name == "SetRange" {
						m.words = map[int64]uint32{0: 0, 1: 0, 2: 0}
						if err := foldLoopBodies(c, p, e2, h, nil, loop); err != nil {
							bad = "?" + err.Error()
							break outer
						}
						if m.words[w] != want {
							bad = fmt.Sprintf("range [%d,%d), word %d: sets %#x, expected %#x", start, end, w, m.words[w], want)
							break outer
						}
					} else {
						// IsRange(value=true): word equal to mask passes, a word missing one bit of the mask fails
						m.words = map[int64]uint32{0: 0, 1: 0, 2: 0}
						m.words[w] = want
						failed := false
						func() {
							defer func() {
								if y := recover(); y != nil {
									if _, ok := y.(*rpfErr); ok {
										if y.(*rpfErr).msg == "return inside loop body" {
											failed = true
											return
										}
										bad = "?" + y.(*rpfErr).msg
										return
									}
									panic(y)
								}
							}()
							if err := foldLoopBodies(c, p, e2, h, nil, loop); err != nil {
								if err.Error() == "return inside loop body" {
									failed = true
								} else {
									bad = "?" + err.Error()
								}
							}
						}()
						if bad != "" {
							break outer
						}
						if failed {
							bad = fmt.Sprintf("range [%d,%d), word %d fully set inside the range is reported as not set", start, end, w)
							break outer
						}
						low := want & -want
						m.words[w] = want &^ low
						failed = false
						if err := foldLoopBodies(c, p, e2, h, nil, loop); err != nil && err.Error() == "return inside loop body" {
							failed = true
						}
						if !failed {
							bad = fmt.Sprintf("range [%d,%d), word %d with bit %d cleared is reported as set", start, end, w, bits.TrailingZeros32(low))
							break outer
						}
					}
				}
			}
		}
		if bad != "" && bad[0] == '?' {
			r.Undecided("S-RANGEMASK", key, c.pos(loop.Pos()), bad[1:])
		} else {
			r.Check(bad == "", "S-RANGEMASK", key, c.pos(loop.Pos()), bad)
		}
	}
}

// argument guards folded against the reference predicates
func checkContainerGuards(c *Ctx, r *Report) {
	r.Rule("M-GUARD", "the argument-checked operations reject exactly the invalid arguments before touching storage: BitArray.SetRange/IsRange (end < start, start < 0, end > size), AppendBits (width outside 0..32), BitMatrix.Get (outside the matrix), SetRegion (negative origin, empty or overhanging region), NewBitMatrix (dimension < 1), Xor (size / dimension mismatch)", 6)
	foldGuards := func(rel, fn, key string, n int, domain [][]int64, hooksFor func(p *packages.Package) *rpf, invalid func(a []int64) bool) {
		foldArgGuards(c, r, "M-GUARD", rel, fn, key, n, domain, hooksFor, invalid)
	}
	small := []int64{-2, -1, 0, 1, 5, 9, 10, 11, 12}
	arrHooks := func(p *packages.Package) *rpf {
		return (&wordModel{words: map[int64]uint32{}}).hooks(p, 0, 0, 0, 10, 1)
	}
	rangeInvalid := func(a []int64) bool { return a[1] < a[0] || a[0] < 0 || a[1] > 10 }
	foldGuards("", "BitArray.SetRange", "gozxing.BitArray.SetRange", 2, [][]int64{small, small}, arrHooks, rangeInvalid)
	foldGuards("", "BitArray.IsRange", "gozxing.BitArray.IsRange", 2, [][]int64{small, small}, arrHooks, rangeInvalid)
	foldGuards("", "BitArray.AppendBits", "gozxing.BitArray.AppendBits", 2, [][]int64{{0, 5}, {-1, 0, 1, 31, 32, 33}}, arrHooks, func(a []int64) bool { return a[1] < 0 || a[1] > 32 })
	matHooks := func(p *packages.Package) *rpf {
		return (&wordModel{words: map[int64]uint32{}}).hooks(p, 10, 6, 1, 0, 6)
	}
	foldGuards("", "BitMatrix.SetRegion", "gozxing.BitMatrix.SetRegion", 4, [][]int64{{-1, 0, 3, 9, 10}, {-1, 0, 2, 5, 6}, {-1, 0, 1, 7, 10, 11}, {-1, 0, 1, 4, 6, 7}}, matHooks,
		func(a []int64) bool {
			return a[1] < 0 || a[0] < 0 || a[3] < 1 || a[2] < 1 || a[1]+a[3] > 6 || a[0]+a[2] > 10
		})
	foldGuards("", "NewBitMatrix", "gozxing.NewBitMatrix", 2, [][]int64{{-1, 0, 1, 2}, {-1, 0, 1, 2}}, matHooks, func(a []int64) bool { return a[0] < 1 || a[1] < 1 })
	checkBitMatrixGetGuard(c, r, "M-GUARD")
}

func checkRowSize(c *Ctx, r *Report) {
	r.Rule("S-ROWSIZE", "word geometry follows from the 32-bit element type: NewBitMatrix rowSize = (width+31)/32 and rowSize*height words, Rotate90's new row size (newWidth+31)/32, makeArray (size+31)/32 words, ensureCapacity grows when size > 32*len", 4)
	s32 := func(p *Poly) *Poly { return symDiv("idiv", p.add(polyInt(31)), polyInt(32)) }
	if fd, p := c.funcDeclOf("", "NewBitMatrix"); fd != nil {
		ps := paramObjs(p, fd)
		s := c.symFunc(fd, p, nil)
		w, h := polyAtom(objAtom(ps[0])), polyAtom(objAtom(ps[1]))
		ok := false
		ast.Inspect(fd.Body, func(n ast.Node) bool {
			if call, isC := n.(*ast.CallExpr); isC {
				if id, isI := call.Fun.(*ast.Ident); isI && id.Name == "make" && len(call.Args) == 2 {
					s2 := c.newSymExec(p)
					for _, st := range fd.Body.List {
						if as, isA := st.(*ast.AssignStmt); isA && as.Tok == token.DEFINE && wholeBefore(st, call) {
							s2.stmt(as)
						}
					}
					if s2.expr(call.Args[1]).equal(s32(w).mul(h)) {
						ok = true
					}
				}
			}
			return true
		})
		_ = s
		r.Check(ok, "S-ROWSIZE", "gozxing.NewBitMatrix", c.pos(fd.Pos()), "storage must be ((width+31)/32) * height 32-bit words")
	} else {
		r.AnchorLost("S-ROWSIZE", "gozxing.NewBitMatrix", "function not found")
	}
	if fd, p := c.funcDeclOf("", "makeArray"); fd != nil {
		ps := paramObjs(p, fd)
		s := c.symFunc(fd, p, nil)
		ok := false
		ast.Inspect(fd.Body, func(n ast.Node) bool {
			if call, isC := n.(*ast.CallExpr); isC {
				if id, isI := call.Fun.(*ast.Ident); isI && id.Name == "make" && len(call.Args) == 2 {
					if s.expr(call.Args[1]).equal(s32(polyAtom(objAtom(ps[0])))) {
						ok = true
					}
				}
			}
			return true
		})
		r.Check(ok, "S-ROWSIZE", "gozxing.makeArray", c.pos(fd.Pos()), "a bit array of `size` bits needs (size+31)/32 words")
	} else {
		r.AnchorLost("S-ROWSIZE", "gozxing.makeArray", "function not found")
	}
	if fd, p := c.funcDeclOf("", "BitMatrix.Rotate90"); fd != nil {
		s := c.newSymExec(p)
		ok := false
		for _, st := range fd.Body.List {
			as, isA := st.(*ast.AssignStmt)
			if !isA || len(as.Lhs) != 1 || len(as.Rhs) != 1 {
				continue
			}
			if as.Tok == token.DEFINE {
				s.stmt(as)
				continue
			}
			// the value stored into the rowSize field at the end
			if sel, isS := as.Lhs[0].(*ast.SelectorExpr); isS && sel.Sel.Name == "rowSize" && as.Tok == token.ASSIGN {
				ro := polyAtom(objAtom(recvObj(p, fd))).String()
				want := s32(polyAtom("fld(" + ro + ",height)"))
				if v := s.expr(as.Rhs[0]); v != nil && v.equal(want) {
					ok = true
				}
			}
		}
		r.Check(ok, "S-ROWSIZE", "gozxing.BitMatrix.Rotate90", c.pos(fd.Pos()), "after a quarter turn the row size is (old height + 31)/32")
	} else {
		r.AnchorLost("S-ROWSIZE", "gozxing.BitMatrix.Rotate90", "method not found")
	}
	if fd, p := c.funcDeclOf("", "BitArray.ensureCapacity"); fd != nil {
		ok := false
		if ifs, isI := fd.Body.List[0].(*ast.IfStmt); isI {
			ok = true
			for _, t := range []struct {
				size, words int64
				want        bool
			}{{32, 1, false}, {33, 1, true}, {64, 2, false}, {65, 2, true}, {0, 0, false}, {1, 0, true}} {
				h := (&wordModel{words: map[int64]uint32{}}).hooks(p, 0, 0, 0, 0, t.words)
				v, err := c.rpfExpr(p, ifs.Cond, map[types.Object]*Val{paramObjs(p, fd)[0]: vint(t.size)}, h)
				if err != nil || v.K != VBool || v.B != t.want {
					ok = false
				}
			}
		}
		r.Check(ok, "S-ROWSIZE", "gozxing.BitArray.ensureCapacity", c.pos(fd.Pos()), "must grow exactly when size > 32 * len(bits)")
	} else {
		r.AnchorLost("S-ROWSIZE", "gozxing.BitArray.ensureCapacity", "method not found")
	}
}

// a 180-degree rotation / reversal must reverse the bits inside every word on every path
func checkReversal(c *Ctx, r *Report) {
	r.Rule("M-REVERSE", "BitMatrix.Rotate180 and BitArray.Reverse reverse the bit order inside every storage word on every path: the word-reversal (bits.Reverse32) is not confined to the branch taken only when the width / size is not a multiple of 32", 2)
	for _, t := range [][2]string{{"BitMatrix", "Rotate180"}, {"BitArray", "Reverse"}} {
		fd, p := c.funcDeclOf("", t[0]+"."+t[1])
		key := "gozxing." + t[0] + "." + t[1]
		if fd == nil {
			r.AnchorLost("M-REVERSE", key, "method not found")
			continue
		}
		r.Analysed(key)
		calls := findCalls(p, fd.Body, func(o types.Object) bool {
			f, ok := o.(*types.Func)
			return ok && f.Pkg() != nil && f.Pkg().Path() == "math/bits" && f.Name() == "Reverse32"
		})
		if len(calls) == 0 {
			r.Fail("M-REVERSE", key, c.pos(fd.Pos()), "violation", "no word-level bit reversal at all")
			continue
		}
		// a reversal that is not under any if-condition (loops are fine), or reversals on both arms of every enclosing if
		unconditional := false
		condArms := map[*ast.IfStmt]map[bool]bool{}
		for _, call := range calls {
			gi, _ := guardsOf(fd.Body, enclosingStmt(fd.Body, call))
			underIf := false
			for _, e := range gi.Enclosing {
				if ifs, ok := e.Node.(*ast.IfStmt); ok {
					underIf = true
					if condArms[ifs] == nil {
						condArms[ifs] = map[bool]bool{}
					}
					condArms[ifs][e.Branch] = true
				}
			}
			if !underIf {
				unconditional = true
			}
		}
		ok := unconditional
		if !ok {
			ok = len(condArms) > 0
			for ifs, arms := range condArms {
				if !(arms[true] && arms[false]) || ifs.Else == nil {
					ok = false
				}
			}
		}
		r.Check(ok, "M-REVERSE", key, c.pos(calls[0].Pos()), "the bits inside each word are reversed only under a condition on the width/size: when that condition is false (an exact multiple of 32) the words are moved but not mirrored")
	}
}

// a loop bounded by len(A) that also indexes B with the loop variable needs a guard relating the two lengths
func checkPairedSlices(c *Ctx, r *Report) {
	r.Rule("S-PAIRED", "in bit_array.go / bit_matrix.go a loop `for i < len(A)` (or < a length derived from A) that also indexes another object's storage B[i] is dominated by a comparison of the two storage lengths, or bounds i by both; one obligation per such loop", 1)
	for _, fileRecv := range []string{"BitArray", "BitMatrix"} {
		obj := c.lookupObj("", fileRecv)
		named, ok := obj.Type().(*types.Named)
		if !ok {
			continue
		}
		for i := 0; i < named.NumMethods(); i++ {
			m := named.Method(i)
			fd := c.funcDecl[m]
			if fd == nil || fd.Body == nil {
				continue
			}
			p := c.declPkg[fd]
			ro := recvObj(p, fd)
			ast.Inspect(fd.Body, func(n ast.Node) bool {
				loop, ok := n.(*ast.ForStmt)
				if !ok || loop.Cond == nil {
					return true
				}
				// bounds: conjunction of `i < len(X.bits)`
				bounded := map[types.Object]bool{}
				var iv types.Object
				var collect func(e ast.Expr)
				collect = func(e ast.Expr) {
					be, ok := ast.Unparen(e).(*ast.BinaryExpr)
					if !ok {
						return
					}
					if be.Op == token.LAND {
						collect(be.X)
						collect(be.Y)
						return
					}
					if be.Op != token.LSS {
						return
					}
					call, ok := be.Y.(*ast.CallExpr)
					if !ok {
						return
					}
					if id, ok := call.Fun.(*ast.Ident); !ok || id.Name != "len" {
						return
					}
					sel, ok := call.Args[0].(*ast.SelectorExpr)
					if !ok || sel.Sel.Name != "bits" {
						return
					}
					if o := identObj(p, sel.X); o != nil {
						bounded[o] = true
						iv = identObj(p, be.X)
					}
				}
				collect(loop.Cond)
				if !bounded[ro] || iv == nil {
					return true
				}
				// other.bits[i] in the body
				var other types.Object
				ast.Inspect(loop.Body, func(m ast.Node) bool {
					if ix, ok := m.(*ast.IndexExpr); ok && identObj(p, ix.Index) == iv {
						if s2, ok := ix.X.(*ast.SelectorExpr); ok && s2.Sel.Name == "bits" {
							if o := identObj(p, s2.X); o != nil && o != ro {
								other = o
							}
						}
					}
					return true
				})
				if other == nil {
					return true
				}
				key := "gozxing." + fileRecv + "." + m.Name() + ":paired-loop"
				// a dominating guard that compares len(recv.bits) with len(other.bits), or rowSize fields of both
				gi, _ := guardsOf(fd.Body, loop)
				okGuard := bounded[other]
				for _, g := range gi.EarlyExits {
					txt := exprString(g.Cond)
					if (containsAll(txt, "len(", ro.Name()+".bits", other.Name()+".bits")) || containsAll(txt, ro.Name()+".rowSize", other.Name()+".rowSize") {
						okGuard = true
					}
				}
				r.Check(okGuard, "S-PAIRED", key, c.pos(loop.Pos()), fmt.Sprintf("the loop runs to len(%s.bits) and indexes %s.bits with the same index, but no guard relates the two lengths (equal logical sizes do not imply equal word counts: an empty array may own one word or none)", ro.Name(), other.Name()))
				return true
			})
		}
	}
	_ = typeutil.Callee
}

// returnsFalseOnly: `return false` (BitMatrix.Get's out-of-range answer)
func returnsFalseOnly(list []ast.Stmt) bool {
	if len(list) != 1 {
		return false
	}
	rs, ok := list[0].(*ast.ReturnStmt)
	if !ok || len(rs.Results) != 1 {
		return false
	}
	id, ok := rs.Results[0].(*ast.Ident)
	return ok && id.Name == "false"
}

func containsAll(s string, subs ...string) bool {
	for _, x := range subs {
		if !contains(s, x) {
			return false
		}
	}
	return true
}

func contains(s, sub string) bool {
	for i := 0; i+len(sub) <= len(s); i++ {
		if s[i:i+len(sub)] == sub {
			return true
		}
	}
	return false
}

// foldArgGuards folds the leading guard statements of a function over a grid of argument values and compares
// "an error return fired" with the contract predicate.
func foldArgGuards(c *Ctx, r *Report, rule, rel, fn, key string, n int, domain [][]int64, hooksFor func(p *packages.Package) *rpf, invalid func(a []int64) bool) {
	fd, p := c.funcDeclOf(rel, fn)
	if fd == nil {
		r.AnchorLost(rule, key, "function not found")
		return
	}
	r.Analysed(key)
	ps := paramObjs(p, fd)
	// leading if-statements that return (the guards)
	var guards []*ast.IfStmt
	for _, st := range fd.Body.List {
		ifs, ok := st.(*ast.IfStmt)
		if ok && terminates(ifs.Body.List) {
			guards = append(guards, ifs)
			continue
		}
		if _, isAssign := st.(*ast.AssignStmt); isAssign {
			continue // right := left + width etc.
		}
		break
	}
	bad := ""
	var walk func(i int, cur []int64)
	walk = func(i int, cur []int64) {
		if bad != "" {
			return
		}
		if i == n {
			env := map[types.Object]*Val{}
			for k := 0; k < n; k++ {
				env[ps[k]] = vint(cur[k])
			}
			h := hooksFor(p)
			// fold the straight-line prefix with guards
			rr := &rpf{c: c, p: p, env: env, callHook: h.callHook, selHook: h.selHook}
			fired := false
			func() {
				defer func() {
					if y := recover(); y != nil {
						if re, ok := y.(*rpfErr); ok {
							bad = "?" + re.Error()
							return
						}
						panic(y)
					}
				}()
				for _, st := range fd.Body.List {
					switch x := st.(type) {
					case *ast.IfStmt:
						if !terminates(x.Body.List) {
							return
						}
						cv := rr.expr(x.Cond)
						if cv.K == VBool && cv.B {
							// a valid early return (e.g. empty range) is not a rejection
							fired = blockReturnsError(p, x.Body.List, nil) || returnsFalseOnly(x.Body.List)
							return
						}
					case *ast.AssignStmt:
						if x.Tok != token.DEFINE {
							return
						}
						rr.stmt(x)
					default:
						return
					}
				}
			}()
			if bad == "" && fired != invalid(cur) {
				bad = fmt.Sprintf("arguments %v: rejected=%v, contract says %v", cur, fired, invalid(cur))
			}
			return
		}
		for _, v := range domain[i] {
			walk(i+1, append(append([]int64{}, cur...), v))
		}
	}
	walk(0, nil)
	_ = guards
	if bad != "" && bad[0] == '?' {
		r.Undecided(rule, key, c.pos(fd.Pos()), bad[1:])
	} else {
		r.Check(bad == "", rule, key, c.pos(fd.Pos()), bad)
	}
}

// S-WHOLE: whole operations folded (constant propagation with bounded loop unrolling over a small word store)
// against the bit-level model
func checkWholeOps(c *Ctx, r *Report) {
	r.Rule("S-WHOLE", "BitArray.SetRange (every 0 <= start <= end <= 70, the empty range included), BitArray.Reverse (sizes 1..70), BitMatrix.SetRegion (rectangles straddling one, two and three storage words, whole rows of a matrix whose width is no multiple of the word size among them: the unused bits of a row's last word stay clear) and BitMatrix.Rotate180 (widths around the 32/64/96-bit word boundaries, heights 1..4) are folded as whole functions on a pre-filled word store and compared bit by bit with the model", 4)
	pattern := func(i int64) bool { return (i*7+i/3)%5 < 2 }
	ext := func(m *wordModel, p *packages.Package, width, height, rowSize, size, nwords int64) *rpf {
		h := m.hooks(p, width, height, rowSize, size, nwords)
		h.unroll = 4096
		baseSel, baseCall, baseSt := h.selHook, h.callHook, h.stHook
		// one list stands for the word store during the whole fold, so that a slice of it held in a local variable
		// (row := this.bits[a:b]) reads and writes the same words; the model's words are the truth, the list mirrors them
		store := &Val{K: VList, L: make([]*Val, nwords)}
		refresh := func() {
			for i := int64(0); i < nwords; i++ {
				store.L[i] = &Val{K: VInt, I: int64(m.words[i]), T: types.Typ[types.Uint32]}
			}
		}
		refresh()
		h.selHook = func(x *rpf, sel *ast.SelectorExpr) (*Val, bool) {
			if sel.Sel.Name == "bits" {
				refresh()
				return store, true
			}
			return baseSel(x, sel)
		}
		h.callHook = func(x *rpf, call *ast.CallExpr, callee types.Object) (*Val, bool) {
			if f, ok := callee.(*types.Func); ok && f.Pkg() != nil && f.Pkg().Path() == "math/bits" && f.Name() == "Reverse32" {
				v := x.expr(call.Args[0])
				if !v.isInt() {
					rpfFail("Reverse32 of a non-integer")
				}
				return &Val{K: VInt, I: int64(bits.Reverse32(uint32(v.I))), T: types.Typ[types.Uint32]}, true
			}
			return baseCall(x, call, callee)
		}
		h.stHook = func(x *rpf, lhs ast.Expr, v *Val) bool {
			if sel, ok := lhs.(*ast.SelectorExpr); ok && sel.Sel.Name == "bits" && v.K == VList {
				if int64(len(v.L)) != nwords {
					rpfFail("storage replaced by a slice of %d words, expected %d", len(v.L), nwords)
				}
				for i, e := range v.L {
					m.words[int64(i)] = uint32(e.I)
				}
				refresh()
				return true
			}
			if baseSt(x, lhs, v) {
				refresh()
				return true
			}
			// a store through a slice of the word store held in a variable
			if ix, ok := lhs.(*ast.IndexExpr); ok && nwords > 0 {
				if base, err := x.tryExpr(ix.X); err == nil && base.K == VList && len(base.L) > 0 {
					for k := int64(0); k < nwords; k++ {
						if &store.L[k] == &base.L[0] {
							i := x.expr(ix.Index)
							if !i.isInt() || i.I < 0 || i.I >= int64(len(base.L)) || !v.isInt() {
								rpfFail("word index %v outside the %d-word slice of the store", i, len(base.L))
							}
							m.words[k+i.I] = uint32(v.I)
							refresh()
							return true
						}
					}
				}
			}
			return false
		}
		return h
	}
	get := func(m *wordModel, i int64) bool { return m.words[i/32]>>(uint(i)%32)&1 == 1 }
	// ---- SetRange
	if fd, p := c.funcDeclOf("", "BitArray.SetRange"); fd != nil {
		key := "gozxing.BitArray.SetRange/whole"
		r.Analysed(key)
		bad := ""
		const SIZE = 70
		for start := int64(0); start <= SIZE && bad == ""; start++ {
			for end := start; end <= SIZE && bad == ""; end++ {
				m := &wordModel{words: map[int64]uint32{}}
				for i := int64(0); i < SIZE; i++ {
					if pattern(i) {
						m.words[i/32] |= 1 << (uint(i) % 32)
					}
				}
				res, err := c.rpfCall(fd, p, []*Val{vint(start), vint(end)}, ext(m, p, 0, 0, 0, SIZE, 3))
				if err != nil {
					bad = fmt.Sprintf("?SetRange(%d,%d): %v", start, end, err)
					break
				}
				if len(res) != 1 || res[0].K != VNil {
					bad = fmt.Sprintf("SetRange(%d,%d) on a %d-bit array returns an error", start, end, SIZE)
					break
				}
				for i := int64(0); i < 96; i++ {
					want := (i < SIZE && pattern(i)) || (i >= start && i < end)
					if get(m, i) != want {
						bad = fmt.Sprintf("SetRange(%d,%d): bit %d is %v afterwards, expected %v", start, end, i, get(m, i), want)
						break
					}
				}
			}
		}
		reportFold(r, c, "S-WHOLE", key, fd.Pos(), bad)
	} else {
		r.AnchorLost("S-WHOLE", "gozxing.BitArray.SetRange/whole", "method not found")
	}
	// ---- Reverse
	if fd, p := c.funcDeclOf("", "BitArray.Reverse"); fd != nil {
		key := "gozxing.BitArray.Reverse/whole"
		r.Analysed(key)
		bad := ""
		for size := int64(1); size <= 70 && bad == ""; size++ {
			nw := (size + 31) / 32
			m := &wordModel{words: map[int64]uint32{}}
			for i := int64(0); i < size; i++ {
				if pattern(i) {
					m.words[i/32] |= 1 << (uint(i) % 32)
				}
			}
			if _, err := c.rpfCall(fd, p, nil, ext(m, p, 0, 0, 0, size, nw)); err != nil {
				bad = fmt.Sprintf("?Reverse of %d bits: %v", size, err)
				break
			}
			for i := int64(0); i < size; i++ {
				if get(m, i) != pattern(size-1-i) {
					bad = fmt.Sprintf("Reverse of a %d-bit array: bit %d is %v, expected the old bit %d = %v", size, i, get(m, i), size-1-i, pattern(size-1-i))
					break
				}
			}
		}
		reportFold(r, c, "S-WHOLE", key, fd.Pos(), bad)
	} else {
		r.AnchorLost("S-WHOLE", "gozxing.BitArray.Reverse/whole", "method not found")
	}
	// ---- SetRegion
	if fd, p := c.funcDeclOf("", "BitMatrix.SetRegion"); fd != nil {
		key := "gozxing.BitMatrix.SetRegion/whole"
		r.Analysed(key)
		bad := ""
		// a wide matrix whose width is no multiple of 32, and two whose right edge is a word boundary: regions that end
		// at the last module of the last row must not touch a word beyond the store
		for _, dim := range [][2]int64{{130, 3}, {64, 2}, {96, 2}} {
			W, H := dim[0], dim[1]
			rs := (W + 31) / 32
			for _, left := range []int64{0, 1, 20, 31, 32, 33, 40, 63, 64} {
				for _, width := range []int64{1, 2, 12, 31, 32, 33, 34, 44, 60, 64, 66, 96, W - left, W - left - 1} {
					// (the last two: a region that ends at, and one module before, the right edge - whole rows when left is 0)
					for _, top := range []int64{0, 1} {
						for _, height := range []int64{1, 2} {
							if width < 1 || left+width > W || top+height > H || bad != "" {
								continue
							}
							m := &wordModel{words: map[int64]uint32{}}
							res, err := c.rpfCall(fd, p, []*Val{vint(left), vint(top), vint(width), vint(height)}, ext(m, p, W, H, rs, 0, rs*H))
							if err != nil {
								bad = fmt.Sprintf("?SetRegion(%d,%d,%d,%d): %v", left, top, width, height, err)
								continue
							}
							if len(res) != 1 || res[0].K != VNil {
								bad = fmt.Sprintf("SetRegion(%d,%d,%d,%d) inside a %dx%d matrix returns an error", left, top, width, height, W, H)
								continue
							}
							for wi := range m.words {
								if wi < 0 || wi >= rs*H {
									bad = fmt.Sprintf("SetRegion(%d,%d,%d,%d) on a %dx%d matrix writes word %d of a store of %d words", left, top, width, height, W, H, wi, rs*H)
								}
							}
							for y := int64(0); y < H && bad == ""; y++ {
								for x := int64(0); x < rs*32; x++ {
									got := m.words[y*rs+x/32]>>(uint(x)%32)&1 == 1
									want := x >= left && x < left+width && y >= top && y < top+height
									if got != want {
										bad = fmt.Sprintf("SetRegion(%d,%d,%d,%d): module (%d,%d) is %v afterwards, expected %v", left, top, width, height, x, y, got, want)
										break
									}
								}
							}
						}
					}
				}
			}
		}
		reportFold(r, c, "S-WHOLE", key, fd.Pos(), bad)
	} else {
		r.AnchorLost("S-WHOLE", "gozxing.BitMatrix.SetRegion/whole", "method not found")
	}
	r.DecidedWhenUndecided("S-BITOPS", "S-WHOLE", "SetRegion folded whole on rectangles straddling one, two and three words, compared bit by bit", "SetRegion.body")
	// ---- Rotate180
	if fd, p := c.funcDeclOf("", "BitMatrix.Rotate180"); fd != nil {
		key := "gozxing.BitMatrix.Rotate180/whole"
		r.Analysed(key)
		bad := ""
		for _, w := range []int64{1, 5, 31, 32, 33, 40, 63, 64, 65, 70, 96, 97, 100, 128} {
			for h := int64(1); h <= 4 && bad == ""; h++ {
				rs := (w + 31) / 32
				m := &wordModel{words: map[int64]uint32{}}
				orig := func(x, y int64) bool { return pattern(y*131 + x) }
				for y := int64(0); y < h; y++ {
					for x := int64(0); x < w; x++ {
						if orig(x, y) {
							m.words[y*rs+x/32] |= 1 << (uint(x) % 32)
						}
					}
				}
				if _, err := c.rpfCall(fd, p, nil, ext(m, p, w, h, rs, 0, rs*h)); err != nil {
					bad = fmt.Sprintf("?Rotate180 of %dx%d: %v", w, h, err)
					break
				}
				for y := int64(0); y < h && bad == ""; y++ {
					for x := int64(0); x < w; x++ {
						got := m.words[y*rs+x/32]>>(uint(x)%32)&1 == 1
						if got != orig(w-1-x, h-1-y) {
							bad = fmt.Sprintf("Rotate180 of a %dx%d matrix: module (%d,%d) is %v, expected the old module (%d,%d) = %v", w, h, x, y, got, w-1-x, h-1-y, orig(w-1-x, h-1-y))
							break
						}
					}
				}
			}
		}
		reportFold(r, c, "S-WHOLE", key, fd.Pos(), bad)
	} else {
		r.AnchorLost("S-WHOLE", "gozxing.BitMatrix.Rotate180/whole", "method not found")
	}
}

// ---- S-WHOLE2: more whole operations on a word store with mutable geometry ----

type bitStore struct {
	words                        map[int64]uint32
	nwords                       int64
	size, width, height, rowSize int64
}

func (bs *bitStore) hooks(p *packages.Package) *rpf {
	h := &rpf{unroll: 8192}
	h.selHook = func(x *rpf, sel *ast.SelectorExpr) (*Val, bool) {
		switch sel.Sel.Name {
		case "size":
			return vint(bs.size), true
		case "width":
			return vint(bs.width), true
		case "height":
			return vint(bs.height), true
		case "rowSize":
			return vint(bs.rowSize), true
		case "bits":
			out := &Val{K: VList}
			for i := int64(0); i < bs.nwords; i++ {
				out.L = append(out.L, &Val{K: VInt, I: int64(bs.words[i]), T: types.Typ[types.Uint32]})
			}
			return out, true
		}
		return nil, false
	}
	h.idxHook = func(x *rpf, ix *ast.IndexExpr) (*Val, bool) {
		if sel, ok := ix.X.(*ast.SelectorExpr); ok && sel.Sel.Name == "bits" {
			i := x.expr(ix.Index)
			if !i.isInt() || i.I < 0 || i.I >= bs.nwords {
				rpfFail("word index %v outside the %d-word store", i, bs.nwords)
			}
			return &Val{K: VInt, I: int64(bs.words[i.I]), T: types.Typ[types.Uint32]}, true
		}
		return nil, false
	}
	h.stHook = func(x *rpf, lhs ast.Expr, v *Val) bool {
		switch l := lhs.(type) {
		case *ast.IndexExpr:
			if sel, ok := l.X.(*ast.SelectorExpr); ok && sel.Sel.Name == "bits" {
				i := x.expr(l.Index)
				if !i.isInt() || i.I < 0 || i.I >= bs.nwords {
					rpfFail("word index %v outside the %d-word store", i, bs.nwords)
				}
				bs.words[i.I] = uint32(v.I)
				return true
			}
		case *ast.SelectorExpr:
			switch l.Sel.Name {
			case "size":
				bs.size = v.I
				return true
			case "width":
				bs.width = v.I
				return true
			case "height":
				bs.height = v.I
				return true
			case "rowSize":
				bs.rowSize = v.I
				return true
			case "bits":
				if v.K == VList {
					bs.words = map[int64]uint32{}
					bs.nwords = int64(len(v.L))
					for i, e := range v.L {
						bs.words[int64(i)] = uint32(e.I)
					}
					return true
				}
			}
		}
		return false
	}
	h.callHook = func(x *rpf, call *ast.CallExpr, callee types.Object) (*Val, bool) {
		if f, ok := callee.(*types.Func); ok {
			if f.Pkg() != nil && f.Pkg().Path() == "math/bits" {
				v := x.expr(call.Args[0])
				if !v.isInt() {
					rpfFail("math/bits call on a non-integer")
				}
				switch f.Name() {
				case "Reverse32":
					return &Val{K: VInt, I: int64(bits.Reverse32(uint32(v.I))), T: types.Typ[types.Uint32]}, true
				case "TrailingZeros32":
					return vint(int64(bits.TrailingZeros32(uint32(v.I)))), true
				case "LeadingZeros32":
					return vint(int64(bits.LeadingZeros32(uint32(v.I)))), true
				}
			}
			if f.Pkg() != nil && f.Pkg().Path() == "golang.org/x/xerrors" {
				return vstr("error"), true
			}
			switch f.Name() {
			case "ensureCapacity":
				// growth itself is decided by S-ROWSIZE; here the store is made large enough
				n := x.expr(call.Args[0])
				if need := (n.I + 31) / 32; need > bs.nwords {
					bs.nwords = need
				}
				return &Val{K: VNil}, true
			}
			if isMethodNamed(callee, "", "BitArray", "Get") {
				i := x.expr(call.Args[0])
				if !i.isInt() || i.I < 0 || i.I >= bs.nwords*32 {
					rpfFail("Get(%v) outside the store", i)
				}
				return vbool(bs.words[i.I/32]>>(uint(i.I)%32)&1 == 1), true
			}
		}
		if b, ok := callee.(*types.Builtin); ok && b.Name() == "len" {
			if sel, ok := call.Args[0].(*ast.SelectorExpr); ok && sel.Sel.Name == "bits" {
				return vint(bs.nwords), true
			}
		}
		return nil, false
	}
	return h
}

func (bs *bitStore) bit(i int64) bool { return bs.words[i/32]>>(uint(i)%32)&1 == 1 }

func newBitStoreArray(size int64, pat func(int64) bool) *bitStore {
	bs := &bitStore{words: map[int64]uint32{}, nwords: (size + 31) / 32, size: size}
	for i := int64(0); i < size; i++ {
		if pat(i) {
			bs.words[i/32] |= 1 << (uint(i) % 32)
		}
	}
	return bs
}

func newBitStoreMatrix(w, h int64, pat func(x, y int64) bool) *bitStore {
	rs := (w + 31) / 32
	bs := &bitStore{words: map[int64]uint32{}, nwords: rs * h, width: w, height: h, rowSize: rs}
	for y := int64(0); y < h; y++ {
		for x := int64(0); x < w; x++ {
			if pat(x, y) {
				bs.words[y*rs+x/32] |= 1 << (uint(x) % 32)
			}
		}
	}
	return bs
}

func checkWholeOps2(c *Ctx, r *Report) {
	r.Rule("S-WHOLE2", "further container operations folded as whole functions on a pre-filled word store and compared with the bit model: GetNextSet / GetNextUnset (every position of arrays around the word boundaries), IsRange (every 0 <= start <= end <= 70, both values), AppendBit / AppendBits (every width 0..32 at array sizes around the word boundaries; most significant bit first), ToBytes, BitMatrix.Rotate90 (index map and new geometry), FlipAll, GetTopLeftOnBit / GetBottomRightOnBit / GetEnclosingRectangle (empty, single-bit and mixed matrices)", 9)
	pats := []func(int64) bool{
		func(i int64) bool { return (i*7+i/3)%5 < 2 },
		func(i int64) bool { return false },
		func(i int64) bool { return true },
		func(i int64) bool { return i%37 == 36 },
	}
	foldOn := func(name string, bs *bitStore, args []*Val) ([]*Val, string) {
		fd, p := c.funcDeclOf("", name)
		if fd == nil {
			return nil, "!"
		}
		res, err := c.rpfCall(fd, p, args, bs.hooks(p))
		if err != nil {
			return nil, "?" + err.Error()
		}
		return res, ""
	}
	report := func(name, bad string) {
		key := "gozxing." + name + "/whole"
		fd, _ := c.funcDeclOf("", name)
		if fd == nil || bad == "!" {
			r.AnchorLost("S-WHOLE2", key, "method not found")
			return
		}
		r.Analysed(key)
		reportFold(r, c, "S-WHOLE2", key, fd.Pos(), bad)
	}
	// ---- GetNextSet / GetNextUnset
	for _, t := range []struct {
		name string
		want bool
	}{{"BitArray.GetNextSet", true}, {"BitArray.GetNextUnset", false}} {
		bad := ""
		for _, size := range []int64{1, 5, 31, 32, 33, 64, 70} {
			for pi, pat := range pats {
				for from := int64(0); from <= size+1 && bad == ""; from++ {
					bs := newBitStoreArray(size, pat)
					res, e := foldOn(t.name, bs, []*Val{vint(from)})
					if e != "" {
						bad = e
						break
					}
					want := size
					for i := from; i < size; i++ {
						if pat(i) == t.want {
							want = i
							break
						}
					}
					// bits at and beyond `size` inside the last word are zero in this store
					if len(res) != 1 || res[0].K != VInt || res[0].I != want {
						bad = fmt.Sprintf("array of %d bits (pattern %d), from %d: returns %s, the first %s bit at or after it is %d (size when none)", size, pi, from, valString(res[0]), map[bool]string{true: "set", false: "unset"}[t.want], want)
					}
				}
			}
		}
		report(t.name, bad)
	}
	// ---- IsRange
	{
		bad := ""
		const SIZE = 70
		for _, pat := range pats[:3] {
			for start := int64(0); start <= SIZE && bad == ""; start++ {
				for end := start; end <= SIZE && bad == ""; end++ {
					for _, value := range []bool{false, true} {
						// make the range itself uniform half of the time so that `true` answers are exercised
						p2 := func(i int64) bool {
							if i >= start && i < end && (start+end)%2 == 0 {
								return value
							}
							return pat(i)
						}
						bs := newBitStoreArray(SIZE, p2)
						res, e := foldOn("BitArray.IsRange", bs, []*Val{vint(start), vint(end), vbool(value)})
						if e != "" {
							bad = e
							break
						}
						want := true
						for i := start; i < end; i++ {
							if p2(i) != value {
								want = false
							}
						}
						if len(res) != 2 || res[1].K != VNil || res[0].K != VBool || res[0].B != want {
							bad = fmt.Sprintf("IsRange(%d, %d, %v): returns %s, the model says %v", start, end, value, valString(res[0]), want)
							break
						}
					}
				}
			}
		}
		report("BitArray.IsRange", bad)
	}
	// ---- AppendBits / AppendBit
	{
		bad := ""
		for _, size := range []int64{0, 1, 5, 30, 31, 32, 33, 60, 64} {
			for n := int64(0); n <= 32 && bad == ""; n++ {
				for _, value := range []int64{0, 1, 0x5A5A5A5A, 0xFFFFFFFF, 0x80000001, 0x12345678} {
					bs := newBitStoreArray(size, pats[0])
					res, e := foldOn("BitArray.AppendBits", bs, []*Val{vint(value), vint(n)})
					if e != "" {
						bad = e
						break
					}
					if len(res) != 1 || res[0].K != VNil {
						bad = fmt.Sprintf("AppendBits(%#x, %d) on %d bits returns an error", value, n, size)
						break
					}
					if bs.size != size+n {
						bad = fmt.Sprintf("AppendBits(%#x, %d) on %d bits leaves size %d", value, n, size, bs.size)
						break
					}
					for i := int64(0); i < size+n && bad == ""; i++ {
						want := pats[0](i)
						if i >= size {
							want = value>>uint(n-1-(i-size))&1 == 1
						}
						if bs.bit(i) != want {
							bad = fmt.Sprintf("AppendBits(%#x, %d) on %d bits: bit %d is %v, expected %v (most significant bit first)", value, n, size, i, bs.bit(i), want)
						}
					}
				}
			}
		}
		report("BitArray.AppendBits", bad)
		bad = ""
		for _, size := range []int64{0, 1, 31, 32, 33, 63, 64} {
			for _, bit := range []bool{false, true} {
				bs := newBitStoreArray(size, pats[0])
				_, e := foldOn("BitArray.AppendBit", bs, []*Val{vbool(bit)})
				if e != "" {
					bad = e
					break
				}
				if bs.size != size+1 || bs.bit(size) != bit {
					bad = fmt.Sprintf("AppendBit(%v) on %d bits: size %d, new bit %v", bit, size, bs.size, bs.bit(size))
				}
				for i := int64(0); i < size; i++ {
					if bs.bit(i) != pats[0](i) {
						bad = fmt.Sprintf("AppendBit(%v) on %d bits disturbs bit %d", bit, size, i)
					}
				}
			}
		}
		report("BitArray.AppendBit", bad)
	}
	// ---- ToBytes
	{
		bad := ""
		for _, off := range []int64{0, 3, 8, 29, 32} {
			for _, nb := range []int64{0, 1, 2, 4} {
				bs := newBitStoreArray(96, pats[0])
				arr := &Val{K: VList, Local: true}
				for i := 0; i < 6; i++ {
					arr.L = append(arr.L, vint(0xEE))
				}
				_, e := foldOn("BitArray.ToBytes", bs, []*Val{vint(off), arr, vint(1), vint(nb)})
				if e != "" {
					bad = e
					break
				}
				got, _ := listInts(arr)
				for k := int64(0); k < 6 && bad == ""; k++ {
					want := int64(0xEE)
					if k >= 1 && k < 1+nb {
						want = 0
						for j := int64(0); j < 8; j++ {
							if pats[0](off + (k-1)*8 + j) {
								want |= 1 << uint(7-j)
							}
						}
					}
					if got[k] != want {
						bad = fmt.Sprintf("ToBytes(%d, array, 1, %d): array[%d] = %#x, expected %#x (8 bits from bit %d, first bit most significant)", off, nb, k, got[k], want, off+(k-1)*8)
					}
				}
			}
		}
		report("BitArray.ToBytes", bad)
	}
	// ---- Rotate90, FlipAll, corners
	mpat := func(x, y int64) bool { return ((y*131+x)*7+(y*131+x)/3)%5 < 2 }
	{
		bad := ""
		for _, w := range []int64{1, 5, 31, 32, 33, 40, 64, 65} {
			for _, h := range []int64{1, 2, 3, 33} {
				if bad != "" {
					continue
				}
				bs := newBitStoreMatrix(w, h, mpat)
				_, e := foldOn("BitMatrix.Rotate90", bs, nil)
				if e != "" {
					bad = e
					continue
				}
				if bs.width != h || bs.height != w || bs.rowSize != (h+31)/32 || bs.nwords != bs.rowSize*w {
					bad = fmt.Sprintf("Rotate90 of %dx%d leaves %dx%d with row size %d and %d words", w, h, bs.width, bs.height, bs.rowSize, bs.nwords)
					continue
				}
				for y := int64(0); y < bs.height && bad == ""; y++ {
					for x := int64(0); x < bs.rowSize*32; x++ {
						got := bs.words[y*bs.rowSize+x/32]>>(uint(x)%32)&1 == 1
						want := x < bs.width && mpat(w-1-y, x)
						if got != want {
							bad = fmt.Sprintf("Rotate90 of %dx%d: new module (%d,%d) is %v, expected the old module (%d,%d) = %v (counter-clockwise quarter turn)", w, h, x, y, got, w-1-y, x, want)
							break
						}
					}
				}
			}
		}
		report("BitMatrix.Rotate90", bad)
	}
	{
		bad := ""
		for _, w := range []int64{5, 31, 32, 33, 40, 64, 70} {
			if bad != "" {
				break
			}
			// a sparse matrix: the complement has its last set module in the last column, next to the unused bits of the word
			sparse := func(x, y int64) bool { return x == 1 && y == 0 }
			for pi, pat := range []func(x, y int64) bool{mpat, sparse} {
				if bad != "" {
					break
				}
				bs := newBitStoreMatrix(w, 2, pat)
				_, e := foldOn("BitMatrix.FlipAll", bs, nil)
				if e != "" {
					bad = e
					break
				}
				var set [][2]int64
				for y := int64(0); y < 2 && bad == ""; y++ {
					for x := int64(0); x < w; x++ {
						got := bs.words[y*bs.rowSize+x/32]>>(uint(x)%32)&1 == 1
						if got == pat(x, y) {
							bad = fmt.Sprintf("FlipAll of a %dx2 matrix: module (%d,%d) was %v and is %v", w, x, y, pat(x, y), got)
							break
						}
						if got {
							set = append(set, [2]int64{x, y})
						}
					}
				}
				// the queries on the flipped matrix answer as the model does (whatever the implementation does with
				// the unused bits of each row's last word)
				for _, q := range []string{"BitMatrix.GetTopLeftOnBit", "BitMatrix.GetBottomRightOnBit", "BitMatrix.GetEnclosingRectangle"} {
					if bad != "" {
						break
					}
					res, e := foldOn(q, bs, nil)
					if e != "" {
						bad = e
						break
					}
					want := cornerModel(q, w, 2, set)
					var got []int64
					if len(res) == 1 && res[0].K == VList {
						got, _ = listInts(res[0])
					}
					if len(res) != 1 || fmt.Sprint(got) != fmt.Sprint(want) {
						bad = fmt.Sprintf("FlipAll of a %dx2 matrix (pattern %d), then %s: returns %v, the model gives %v", w, pi, strings.TrimPrefix(q, "BitMatrix."), got, want)
					}
				}
			}
		}
		report("BitMatrix.FlipAll", bad)
	}
	for _, name := range []string{"BitMatrix.GetTopLeftOnBit", "BitMatrix.GetBottomRightOnBit", "BitMatrix.GetEnclosingRectangle"} {
		bad := ""
		type mcase struct {
			w, h int64
			set  [][2]int64
		}
		cases := []mcase{
			{5, 3, nil}, {40, 2, nil},
			{5, 3, [][2]int64{{0, 0}}}, {5, 3, [][2]int64{{4, 2}}}, {40, 3, [][2]int64{{33, 1}}}, {64, 2, [][2]int64{{31, 0}, {32, 1}}},
			{70, 3, [][2]int64{{69, 0}, {0, 2}}}, {70, 3, [][2]int64{{10, 1}, {40, 1}, {65, 1}}}, {33, 4, [][2]int64{{32, 3}, {0, 1}, {5, 2}}},
			{70, 3, [][2]int64{{33, 0}, {50, 1}}}, {70, 3, [][2]int64{{50, 0}, {33, 1}}}, {70, 3, [][2]int64{{50, 0}, {33, 1}, {60, 2}, {34, 2}}},
		}
		for _, cs := range cases {
			if bad != "" {
				break
			}
			setm := map[[2]int64]bool{}
			for _, s := range cs.set {
				setm[s] = true
			}
			bs := newBitStoreMatrix(cs.w, cs.h, func(x, y int64) bool { return setm[[2]int64{x, y}] })
			res, e := foldOn(name, bs, nil)
			if e != "" {
				bad = e
				break
			}
			want := cornerModel(name, cs.w, cs.h, cs.set)
			var got []int64
			if len(res) == 1 && res[0].K == VList {
				got, _ = listInts(res[0])
			}
			if (len(res) != 1) || (want == nil) != (res[0].K == VNil) || (want != nil && fmt.Sprint(got) != fmt.Sprint(want)) {
				bad = fmt.Sprintf("%dx%d matrix with set modules %v: returns %s, the model gives %v", cs.w, cs.h, cs.set, func() string {
					if len(res) == 1 && res[0].K == VNil {
						return "nil"
					}
					return fmt.Sprint(got)
				}(), want)
			}
		}
		report(name, bad)
	}
}

// S-GETROW: BitMatrix.GetRow with every kind of caller-supplied buffer
func checkGetRowWhole(c *Ctx, r *Report) {
	r.Rule("S-GETROW", "BitMatrix.GetRow, folded from source together with NewBitArray / Clear / SetBulk / GetSize, returns for every row of matrices of width 20, 32, 33, 64 and 70 and for no buffer, a too small buffer, a buffer of the same size and a larger buffer full of ones, an array that holds the row's bits at 0..width-1 and nothing else (no stale bit of the buffer at or beyond the width), of size at least the width, reuses the caller's buffer exactly when it is large enough, and never shares its words with the matrix (a word written into the result does not show in the matrix's store)", 1)
	fd, p := c.funcDeclOf("", "BitMatrix.GetRow")
	key := "gozxing.BitMatrix.GetRow/whole"
	if fd == nil {
		r.AnchorLost("S-GETROW", key, "method not found")
		return
	}
	r.Analysed(key)
	u32 := func(v uint32) *Val { return &Val{K: VInt, I: int64(v), T: types.Typ[types.Uint32]} }
	bad := ""
	folds := 0
	for _, w := range []int64{20, 32, 33, 64, 70} {
		const hgt = 3
		rs := (w + 31) / 32
		pat := func(x, y int64) bool { return (x*5+y*11+x*y)%3 == 0 }
		mbits := &Val{K: VList}
		for y := int64(0); y < hgt; y++ {
			for k := int64(0); k < rs; k++ {
				var word uint32
				for b := int64(0); b < 32; b++ {
					if x := k*32 + b; x < w && pat(x, y) {
						word |= 1 << uint(b)
					}
				}
				mbits.L = append(mbits.L, u32(word))
			}
		}
		m := &Val{K: VStruct, Ptr: true, Fields: map[string]*Val{"width": vint(w), "height": vint(hgt), "rowSize": vint(rs), "bits": mbits}}
		for _, bufSize := range []int64{-1, w - 1, w, w + 64} {
			for y := int64(0); y < hgt && bad == ""; y++ {
				var buf *Val = &Val{K: VNil}
				if bufSize >= 0 {
					words := &Val{K: VList, Local: true}
					for k := int64(0); k < (bufSize+31)/32; k++ {
						words.L = append(words.L, u32(0xFFFFFFFF))
					}
					buf = &Val{K: VStruct, Ptr: true, Local: true, Fields: map[string]*Val{"bits": words, "size": vint(bufSize)}}
				}
				h := &rpf{unroll: 1000, effectCalls: true, env: map[types.Object]*Val{}}
				h.env[recvObj(p, fd)] = m
				res, err := c.rpfCall(fd, p, []*Val{vint(y), buf}, h)
				folds++
				what := fmt.Sprintf("row %d of a %d-wide matrix into ", y, w)
				switch {
				case bufSize < 0:
					what += "no buffer"
				default:
					what += fmt.Sprintf("a buffer of %d bits, all set", bufSize)
				}
				if err != nil {
					bad = "?" + what + ": " + err.Error()
					break
				}
				if len(res) != 1 || res[0].K != VStruct || res[0].Fields["bits"] == nil || !res[0].Fields["size"].isInt() {
					bad = what + ": the result is not a bit array value"
					break
				}
				out := res[0]
				if bufSize >= w && out != buf {
					bad = what + ": the caller's buffer is large enough and must be reused"
					break
				}
				if out.Fields["size"].I < w {
					bad = fmt.Sprintf("%s: the result has size %d", what, out.Fields["size"].I)
					break
				}
				ws, ok := listInts(out.Fields["bits"])
				if !ok {
					bad = "?" + what + ": the result's words are not constants"
					break
				}
				// the extracted row is storage of its own: a word written into it does not show in the matrix
				if ol := out.Fields["bits"].L; len(ol) > 0 {
					keep, marker := ol[0], u32(0x5A5A5A5A)
					ol[0] = marker
					shared := false
					for _, mw := range mbits.L {
						if mw == marker {
							shared = true
						}
					}
					ol[0] = keep
					if shared {
						bad = what + ": the array returned shares its words with the matrix - a bit set in the extracted row changes the matrix, and later writes to the matrix change the row"
						break
					}
				}
				for i := int64(0); i < int64(len(ws))*32; i++ {
					got := uint32(ws[i/32])>>(uint(i)%32)&1 == 1
					want := i < w && pat(i, y)
					if got != want {
						if i >= w {
							bad = fmt.Sprintf("%s: bit %d of the result is set - a stale bit of the buffer, the row ends at %d", what, i, w-1)
						} else {
							bad = fmt.Sprintf("%s: bit %d of the result is %v, the matrix holds %v", what, i, got, want)
						}
						break
					}
				}
			}
		}
	}
	r.Extra("S-GETROW folds", folds)
	reportFold(r, c, "S-GETROW", key, fd.Pos(), bad)
}

// S-HIST: short histories of a bit array folded from the source, storage included
func checkBitArrayHistories(c *Ctx, r *Report) {
	r.Rule("S-HIST", "bit arrays built the way callers build them - NewEmptyBitArray or NewBitArray(n) for n = 0, 1, 31, 32, 33, then 0..70 appended bits (AppendBit, AppendBits in groups of 10, and groups of ten zero bits as AppendBits(0, 10)) - are folded from the source with their real storage (constructor, ensureCapacity and makeArray included, so whatever spare words the growth policy leaves are there), then reversed: after every history the size is the number of bits put in, bit i of the store is the model's bit for i < size and clear for every i from size to the end of the store, and after Reverse bit i is the model's bit size-1-i; dst.AppendBitArray(src), for empty and non-empty dst, leaves dst holding both bit strings, src unchanged, and the two arrays independent (a bit flipped in one does not show in the other); a source whose last word carries bits beyond its size (NewBitArray(40) after SetBulk(32, 0xFFFFFFFF)) appended to 0, 5, 32 and 64 bits contributes its 40 bits only, and eight clear bits appended afterwards read clear", 1)
	key := "gozxing.BitArray/histories"
	need := map[string]*ast.FuncDecl{}
	var pk *packages.Package
	for _, n := range []string{"NewEmptyBitArray", "NewBitArray", "BitArray.AppendBit", "BitArray.AppendBits", "BitArray.Reverse", "BitArray.AppendBitArray", "BitArray.Flip", "BitArray.SetBulk"} {
		fd, p := c.funcDeclOf("", n)
		if fd == nil {
			r.AnchorLost("S-HIST", key, n+" not found")
			return
		}
		need[n], pk = fd, p
	}
	r.Analysed(key)
	pattern := func(i int64) bool { return (i*7+i/3)%5 < 2 }
	call := func(name string, recv *Val, args ...*Val) ([]*Val, error) {
		fd := need[name]
		h := &rpf{unroll: 4096, effectCalls: true, env: map[types.Object]*Val{}}
		if recv != nil {
			h.env[recvObj(pk, fd)] = recv
		}
		return c.rpfCall(fd, pk, args, h)
	}
	check := func(what string, a *Val, model []bool, reversed bool) string {
		if a.K != VStruct || a.Fields["bits"] == nil || a.Fields["size"] == nil || !a.Fields["size"].isInt() {
			return "?" + what + ": not a bit array value"
		}
		n := int64(len(model))
		if a.Fields["size"].I != n {
			return fmt.Sprintf("%s: the size is %d, %d bits were put in", what, a.Fields["size"].I, n)
		}
		ws, ok := listInts(a.Fields["bits"])
		if !ok {
			return "?" + what + ": the words are not constants"
		}
		if int64(len(ws))*32 < n {
			return fmt.Sprintf("%s: %d words cannot hold %d bits", what, len(ws), n)
		}
		for i := int64(0); i < int64(len(ws))*32; i++ {
			got := uint32(ws[i/32])>>(uint(i)%32)&1 == 1
			want := false
			if i < n {
				want = model[i]
				if reversed {
					want = model[n-1-i]
				}
			}
			if got != want {
				if i >= n {
					return fmt.Sprintf("%s: bit %d of the store is set, beyond the %d bits of the array", what, i, n)
				}
				return fmt.Sprintf("%s: bit %d is %v, the model holds %v", what, i, got, want)
			}
		}
		return ""
	}
	bad := ""
	folds := 0
	type start struct {
		name string
		n    int64
	}
	starts := []start{{"NewEmptyBitArray", 0}, {"NewBitArray", 0}, {"NewBitArray", 1}, {"NewBitArray", 31}, {"NewBitArray", 32}, {"NewBitArray", 33}}
	maxApp := int64(70)
	for _, st := range starts {
		for mode := 0; mode < 3; mode++ {
			grouped, zeros := mode > 0, mode == 2 // mode 2: every group is AppendBits(0, 10), the way padding is appended
			if bad != "" {
				break
			}
			var args []*Val
			desc := "NewEmptyBitArray()"
			if st.name == "NewBitArray" {
				args = []*Val{vint(st.n)}
				desc = fmt.Sprintf("NewBitArray(%d)", st.n)
			}
			res, err := call(st.name, nil, args...)
			folds++
			if err != nil || len(res) != 1 {
				bad = fmt.Sprintf("?%s: %v", desc, err)
				break
			}
			arr := res[0]
			model := make([]bool, st.n)
			step := int64(1)
			if grouped {
				step = 10
			}
			for k := int64(0); k <= maxApp && bad == ""; k += step {
				what := fmt.Sprintf("%s then %d bits appended", desc, k)
				if grouped {
					what += " in groups of 10"
				}
				if zeros {
					what += ", all of them zero (AppendBits(0, 10))"
				}
				if bad = check(what, arr, model, false); bad != "" {
					break
				}
				// reverse a copy of the state
				cp := &Val{K: VStruct, Ptr: true, Local: true, Fields: map[string]*Val{"size": vint(arr.Fields["size"].I)}}
				words := &Val{K: VList, Local: true}
				for _, w := range arr.Fields["bits"].L {
					words.L = append(words.L, &Val{K: VInt, I: w.I, T: types.Typ[types.Uint32]})
				}
				cp.Fields["bits"] = words
				_, err := call("BitArray.Reverse", cp)
				folds++
				if err != nil {
					if strings.Contains(err.Error(), "out of range") {
						bad = fmt.Sprintf("%s: Reverse indexes outside its storage (%v): a run-time panic", what, err)
					} else {
						bad = fmt.Sprintf("?%s, Reverse: %v", what, err)
					}
					break
				}
				if bad = check(what+", after Reverse", cp, model, true); bad != "" {
					break
				}
				if k == maxApp {
					break
				}
				// next appends
				if grouped {
					var v int64
					for j := int64(0); j < 10; j++ {
						b := pattern(int64(len(model))) && !zeros
						model = append(model, b)
						v <<= 1
						if b {
							v |= 1
						}
					}
					res, err = call("BitArray.AppendBits", arr, vint(v), vint(10))
					if err == nil && (len(res) != 1 || res[0].K != VNil) {
						err = fmt.Errorf("AppendBits(%#x, 10) returns an error", v)
					}
				} else {
					b := pattern(int64(len(model)))
					model = append(model, b)
					_, err = call("BitArray.AppendBit", arr, vbool(b))
				}
				folds++
				if err != nil {
					bad = fmt.Sprintf("?%s, next append: %v", what, err)
				}
			}
		}
	}
	// two arrays: dst.AppendBitArray(src) copies - afterwards a change to one is not seen through the other
	if bad == "" {
		mk := func(start string, n int64, bits int64) (*Val, []bool, error) {
			var args []*Val
			if start == "NewBitArray" {
				args = []*Val{vint(n)}
			}
			res, err := call(start, nil, args...)
			if err != nil || len(res) != 1 {
				return nil, nil, fmt.Errorf("%s: %v", start, err)
			}
			arr := res[0]
			model := make([]bool, n)
			for k := int64(0); k < bits; k++ {
				b := pattern(int64(len(model)) + 3)
				model = append(model, b)
				if _, err := call("BitArray.AppendBit", arr, vbool(b)); err != nil {
					return nil, nil, err
				}
			}
			return arr, model, nil
		}
		for _, dstBits := range []int64{0, 1, 31, 40} {
			for _, dstStart := range []string{"NewEmptyBitArray", "NewBitArray"} {
				for _, srcBits := range []int64{0, 5, 32, 45} {
					if bad != "" {
						break
					}
					dst, dm, e1 := mk(dstStart, 0, dstBits)
					src, sm, e2 := mk("NewEmptyBitArray", 0, srcBits)
					what := fmt.Sprintf("%s with %d bits, AppendBitArray of an array of %d bits", dstStart, dstBits, srcBits)
					if e1 != nil || e2 != nil {
						bad = fmt.Sprintf("?%s: %v %v", what, e1, e2)
						break
					}
					if _, err := call("BitArray.AppendBitArray", dst, src); err != nil {
						bad = fmt.Sprintf("?%s: %v", what, err)
						break
					}
					folds++
					all := append(append([]bool{}, dm...), sm...)
					if bad = check(what, dst, all, false); bad != "" {
						break
					}
					if bad = check(what+": the source", src, sm, false); bad != "" {
						break
					}
					if srcBits > 0 {
						// flip a bit of the source, then one of the destination
						if _, err := call("BitArray.Flip", src, vint(srcBits-1)); err != nil {
							bad = fmt.Sprintf("?%s, Flip: %v", what, err)
							break
						}
						if b2 := check(what+", then the source's last bit flipped: the destination", dst, all, false); b2 != "" {
							bad = b2 + " - the two arrays share their storage"
							break
						}
						sm[srcBits-1] = !sm[srcBits-1]
						if _, err := call("BitArray.Flip", dst, vint(int64(len(all))-1)); err != nil {
							bad = fmt.Sprintf("?%s, Flip: %v", what, err)
							break
						}
						if b2 := check(what+", then the destination's last bit flipped: the source", src, sm, false); b2 != "" {
							bad = b2 + " - the two arrays share their storage"
							break
						}
					}
				}
			}
		}
	}
	// a source whose last storage word carries bits beyond its size (SetBulk writes whole words): only the size bits
	// are appended, and bits appended afterwards read as appended
	if bad == "" {
		for _, dstBits := range []int64{0, 5, 32, 64} {
			if bad != "" {
				break
			}
			what := fmt.Sprintf("NewEmptyBitArray with %d bits, AppendBitArray of NewBitArray(40) after SetBulk(32, 0xFFFFFFFF), then 8 clear bits appended", dstBits)
			res, e1 := call("NewEmptyBitArray", nil)
			sres, e2 := call("NewBitArray", nil, vint(40))
			if e1 != nil || e2 != nil || len(res) != 1 || len(sres) != 1 {
				bad = fmt.Sprintf("?%s: %v %v", what, e1, e2)
				break
			}
			dst, src := res[0], sres[0]
			model := []bool{}
			for k := int64(0); k < dstBits && bad == ""; k++ {
				b := pattern(k + 3)
				model = append(model, b)
				if _, err := call("BitArray.AppendBit", dst, vbool(b)); err != nil {
					bad = fmt.Sprintf("?%s: %v", what, err)
				}
			}
			if bad != "" {
				break
			}
			if _, err := call("BitArray.SetBulk", src, vint(32), vint(0xFFFFFFFF)); err != nil {
				bad = fmt.Sprintf("?%s, SetBulk: %v", what, err)
				break
			}
			if _, err := call("BitArray.AppendBitArray", dst, src); err != nil {
				bad = fmt.Sprintf("?%s: %v", what, err)
				break
			}
			for k := 0; k < 40; k++ {
				model = append(model, k >= 32)
			}
			for k := 0; k < 8 && bad == ""; k++ {
				model = append(model, false)
				if _, err := call("BitArray.AppendBit", dst, vbool(false)); err != nil {
					bad = fmt.Sprintf("?%s: %v", what, err)
				}
			}
			folds++
			if bad == "" {
				bad = check(what, dst, model, false)
			}
		}
	}
	r.Extra("S-HIST method folds", folds)
	reportFold(r, c, "S-HIST", key, need["BitArray.Reverse"].Pos(), bad)
}

// cornerModel answers GetTopLeftOnBit / GetBottomRightOnBit / GetEnclosingRectangle for a matrix with the given set modules.
func cornerModel(name string, w, h int64, set [][2]int64) []int64 {
	if len(set) == 0 {
		return nil
	}
	switch name {
	case "BitMatrix.GetTopLeftOnBit":
		best := set[0]
		for _, s := range set {
			if s[1] < best[1] || (s[1] == best[1] && s[0] < best[0]) {
				best = s
			}
		}
		return []int64{best[0], best[1]}
	case "BitMatrix.GetBottomRightOnBit":
		best := set[0]
		for _, s := range set {
			if s[1] > best[1] || (s[1] == best[1] && s[0] > best[0]) {
				best = s
			}
		}
		return []int64{best[0], best[1]}
	}
	l, tp, rg, bt := w, h, int64(-1), int64(-1)
	for _, s := range set {
		if s[0] < l {
			l = s[0]
		}
		if s[0] > rg {
			rg = s[0]
		}
		if s[1] < tp {
			tp = s[1]
		}
		if s[1] > bt {
			bt = s[1]
		}
	}
	return []int64{l, tp, rg - l + 1, bt - tp + 1}
}

// S-SETROW: BitMatrix.SetRow writes one row and nothing else
func checkSetRowWhole(c *Ctx, r *Report) {
	r.Rule("S-SETROW", "BitMatrix.SetRow(y, row), folded from source on matrices of width 20, 40 and 64 with three rows, for every y and for row arrays of exactly the matrix width and - as GetRow hands them back when the caller's buffer was larger - of 100 and 200 bits: afterwards row y holds the array's bits 0..width-1 and every other row is as before (a row array with more words than a matrix row does not spill into the rows below)", 1)
	fd, p := c.funcDeclOf("", "BitMatrix.SetRow")
	key := "gozxing.BitMatrix.SetRow/whole"
	if fd == nil {
		r.AnchorLost("S-SETROW", key, "method not found")
		return
	}
	r.Analysed(key)
	u32 := func(v uint32) *Val { return &Val{K: VInt, I: int64(v), T: types.Typ[types.Uint32]} }
	pat := func(x, y int64) bool { return (x*5+y*11+x*y)%3 == 0 }
	rpat := func(x int64) bool { return (x*7+x/5)%4 < 2 }
	bad := ""
	for _, w := range []int64{20, 40, 64} {
		const hgt = 3
		rs := (w + 31) / 32
		for _, rowBits := range []int64{w, 100, 200} {
			for y := int64(0); y < hgt && bad == ""; y++ {
				mbits := &Val{K: VList, Local: true}
				for yy := int64(0); yy < hgt; yy++ {
					for k := int64(0); k < rs; k++ {
						var word uint32
						for b := int64(0); b < 32; b++ {
							if x := k*32 + b; x < w && pat(x, yy) {
								word |= 1 << uint(b)
							}
						}
						mbits.L = append(mbits.L, u32(word))
					}
				}
				m := &Val{K: VStruct, Ptr: true, Local: true, Fields: map[string]*Val{"width": vint(w), "height": vint(hgt), "rowSize": vint(rs), "bits": mbits}}
				words := &Val{K: VList, Local: true}
				for k := int64(0); k < (rowBits+31)/32; k++ {
					var word uint32
					for b := int64(0); b < 32; b++ {
						// a row GetRow filled: the matrix width's worth of bits, clear beyond
						if x := k*32 + b; x < w && rpat(x) {
							word |= 1 << uint(b)
						}
					}
					words.L = append(words.L, u32(word))
				}
				row := &Val{K: VStruct, Ptr: true, Local: true, Fields: map[string]*Val{"bits": words, "size": vint(rowBits)}}
				h := &rpf{unroll: 1000, effectCalls: true, env: map[types.Object]*Val{}}
				h.env[recvObj(p, fd)] = m
				what := fmt.Sprintf("SetRow(%d, an array of %d bits) on a %dx%d matrix", y, rowBits, w, hgt)
				if _, err := c.rpfCall(fd, p, []*Val{vint(y), row}, h); err != nil {
					bad = "?" + what + ": " + err.Error()
					break
				}
				ws, ok := listInts(m.Fields["bits"])
				if !ok || int64(len(ws)) != rs*hgt {
					bad = what + ": the matrix storage changes its length"
					break
				}
				for yy := int64(0); yy < hgt && bad == ""; yy++ {
					for x := int64(0); x < w; x++ {
						got := uint32(ws[yy*rs+x/32])>>(uint(x)%32)&1 == 1
						want := pat(x, yy)
						if yy == y {
							want = rpat(x)
						}
						if got != want {
							if yy == y {
								bad = fmt.Sprintf("%s: module (%d,%d) is %v, the array's bit %d is %v", what, x, yy, got, x, want)
							} else {
								bad = fmt.Sprintf("%s: module (%d,%d) of another row changed from %v to %v", what, x, yy, want, got)
							}
							break
						}
					}
				}
			}
		}
	}
	reportFold(r, c, "S-SETROW", key, fd.Pos(), bad)
}

// S-PARSE: the constructors that build a matrix from a grid of booleans and from its string form
func checkMatrixParse(c *Ctx, r *Report) {
	r.Rule("S-PARSE", "ParseBoolMapToBitMatrix, folded from source (with NewBitMatrix and Set) on grids of width 1, 20, 31, 32, 33, 64 and 65 and height 2, builds the matrix of that size whose store holds exactly the grid's cells and nothing beyond the width; BitMatrix.ToString folded on such a matrix writes one line per row, two characters per cell; and ParseStringToBitMatrix folded on that very string gives the matrix back (Parse(ToString(m)) = m) - for every width, the multiples of the 32-bit word included", 3)
	pfd, pp := c.funcDeclOf("", "ParseBoolMapToBitMatrix")
	sfd, sp := c.funcDeclOf("", "ParseStringToBitMatrix")
	tfd, tp := c.funcDeclOf("", "BitMatrix.ToString")
	if pfd == nil || sfd == nil || tfd == nil {
		r.AnchorLost("S-PARSE", "gozxing.ParseBoolMapToBitMatrix / ParseStringToBitMatrix / BitMatrix.ToString", "function not found")
		return
	}
	pat := func(x, y int64) bool { return (x*7+y*13+x*y+x/31)%3 != 1 }
	const hgt = int64(2)
	widths := []int64{1, 20, 31, 32, 33, 64, 65}
	// model check of a folded matrix value
	checkM := func(what string, m *Val, w int64) string {
		if m == nil || m.K != VStruct || m.Fields["bits"] == nil || !m.Fields["width"].isInt() || !m.Fields["height"].isInt() || !m.Fields["rowSize"].isInt() {
			return "?" + what + ": the result is not a matrix value"
		}
		if m.Fields["width"].I != w || m.Fields["height"].I != hgt {
			return fmt.Sprintf("%s: the matrix is %d x %d, the grid %d x %d", what, m.Fields["width"].I, m.Fields["height"].I, w, hgt)
		}
		rs := m.Fields["rowSize"].I
		ws, ok := listInts(m.Fields["bits"])
		if !ok || rs != (w+31)/32 || int64(len(ws)) != rs*hgt {
			return fmt.Sprintf("?%s: row size %d / %d words for a %d x %d matrix", what, rs, len(ws), w, hgt)
		}
		for y := int64(0); y < hgt; y++ {
			for x := int64(0); x < rs*32; x++ {
				got := uint32(ws[y*rs+x/32])>>(uint(x)%32)&1 == 1
				want := x < w && pat(x, y)
				if got != want {
					if x >= w {
						return fmt.Sprintf("%s: bit %d of row %d is set, beyond the width %d", what, x, y, w)
					}
					return fmt.Sprintf("%s: cell (%d, %d) is %v, the grid holds %v", what, x, y, got, want)
				}
			}
		}
		return ""
	}
	hooks := func() *rpf {
		h := &rpf{unroll: 100000, maxSteps: 2000000, effectCalls: true, env: map[types.Object]*Val{}}
		h.callHook = func(rr *rpf, call *ast.CallExpr, callee types.Object) (*Val, bool) {
			return errCtorHook(rr, call, callee)
		}
		return h
	}
	// ---- from a grid
	key := "gozxing.ParseBoolMapToBitMatrix/whole"
	r.Analysed(key)
	bad := ""
	mats := map[int64]*Val{}
	for _, w := range widths {
		grid := &Val{K: VList}
		for y := int64(0); y < hgt; y++ {
			row := &Val{K: VList}
			for x := int64(0); x < w; x++ {
				row.L = append(row.L, vbool(pat(x, y)))
			}
			grid.L = append(grid.L, row)
		}
		res, err := c.rpfCall(pfd, pp, []*Val{grid}, hooks())
		what := fmt.Sprintf("a grid %d wide and %d high", w, hgt)
		if err != nil {
			if strings.Contains(err.Error(), "out of range") {
				bad = what + ": " + err.Error() + " - a run-time panic"
			} else {
				bad = "?" + what + ": " + err.Error()
			}
			break
		}
		if len(res) != 2 || res[1].K != VNil {
			bad = what + " is refused"
			break
		}
		if bad = checkM(what, res[0], w); bad != "" {
			break
		}
		mats[w] = res[0]
	}
	reportFold(r, c, "S-PARSE", key, pfd.Pos(), bad)
	// ---- to a string and back
	tkey, skey := "gozxing.BitMatrix.ToString/whole", "gozxing.ParseStringToBitMatrix/whole"
	r.Analysed(tkey)
	r.Analysed(skey)
	tbad, sbad := "", ""
	for _, w := range widths {
		// the matrix the first part built, or (if that failed) one built here
		m := mats[w]
		if m == nil {
			rs := (w + 31) / 32
			words := &Val{K: VList}
			for y := int64(0); y < hgt; y++ {
				for k := int64(0); k < rs; k++ {
					var word uint32
					for b := int64(0); b < 32; b++ {
						if x := k*32 + b; x < w && pat(x, y) {
							word |= 1 << uint(b)
						}
					}
					words.L = append(words.L, &Val{K: VInt, I: int64(word), T: types.Typ[types.Uint32]})
				}
			}
			m = &Val{K: VStruct, Ptr: true, Fields: map[string]*Val{"width": vint(w), "height": vint(hgt), "rowSize": vint(rs), "bits": words}}
		}
		h := hooks()
		h.env[recvObj(tp, tfd)] = m
		res, err := c.rpfCall(tfd, tp, []*Val{vstr("X "), vstr("  ")}, h)
		what := fmt.Sprintf("a matrix %d wide and %d high", w, hgt)
		if err != nil || len(res) != 1 || res[0].K != VStr {
			tbad = fmt.Sprintf("?%s: ToString does not fold to a string (%v)", what, err)
			break
		}
		want := ""
		for y := int64(0); y < hgt; y++ {
			for x := int64(0); x < w; x++ {
				if pat(x, y) {
					want += "X "
				} else {
					want += "  "
				}
			}
			want += "\n"
		}
		if res[0].S != want {
			tbad = fmt.Sprintf("%s: ToString(\"X \", \"  \") gives %q, expected %q", what, res[0].S, want)
			break
		}
		if sbad != "" {
			continue
		}
		pres, err := c.rpfCall(sfd, sp, []*Val{vstr(want), vstr("X "), vstr("  ")}, hooks())
		if err != nil {
			if strings.Contains(err.Error(), "out of range") {
				sbad = what + ", parsed from its string form: " + err.Error() + " - a run-time panic"
			} else {
				sbad = "?" + what + ", parsed from its string form: " + err.Error()
			}
			continue
		}
		if len(pres) != 2 || pres[1].K != VNil {
			sbad = what + ": its own string form is refused"
			continue
		}
		sbad = checkM(what+", parsed from its string form", pres[0], w)
	}
	reportFold(r, c, "S-PARSE", tkey, tfd.Pos(), tbad)
	reportFold(r, c, "S-PARSE", skey, sfd.Pos(), sbad)
}
