package main

import (
	"fmt"
	"go/ast"
	"go/token"
	"go/types"
	"sort"
	"strings"
	"unicode/utf8"

	"golang.org/x/tools/go/ssa"
	"golang.org/x/tools/go/types/typeutil"
)

func init() {
	registerProp("C15", "Character sets and ECI", checkC15)
}

// AIM ECI assignments (ITS/04-001 / ISO 18004 Annex): charset -> designator values, with the x/text object
// that must implement it. Only the encodings golang.org/x/text provides are registered by the library.
type refECI struct {
	name   string  // primary name in the registry
	values []int64 // ECI designators
	enc    string  // qualified identifier of the encoding object in the source
}

var refECIs = []refECI{
	{"Cp437", []int64{0, 2}, "charmap.CodePage437"},
	{"ISO-8859-1", []int64{1, 3}, "charmap.ISO8859_1"},
	{"ISO-8859-2", []int64{4}, "charmap.ISO8859_2"},
	{"ISO-8859-3", []int64{5}, "charmap.ISO8859_3"},
	{"ISO-8859-4", []int64{6}, "charmap.ISO8859_4"},
	{"ISO-8859-5", []int64{7}, "charmap.ISO8859_5"},
	{"ISO-8859-6", []int64{8}, "charmap.ISO8859_6"},
	{"ISO-8859-7", []int64{9}, "charmap.ISO8859_7"},
	{"ISO-8859-8", []int64{10}, "charmap.ISO8859_8"},
	{"ISO-8859-9", []int64{11}, "charmap.ISO8859_9"},
	{"ISO-8859-10", []int64{12}, "charmap.ISO8859_10"},
	{"ISO-8859-13", []int64{15}, "charmap.ISO8859_13"},
	{"ISO-8859-14", []int64{16}, "charmap.ISO8859_14"},
	{"ISO-8859-15", []int64{17}, "charmap.ISO8859_15"},
	{"ISO-8859-16", []int64{18}, "charmap.ISO8859_16"},
	{"Shift_JIS", []int64{20}, "japanese.ShiftJIS"},
	{"windows-1250", []int64{21}, "charmap.Windows1250"},
	{"windows-1251", []int64{22}, "charmap.Windows1251"},
	{"windows-1252", []int64{23}, "charmap.Windows1252"},
	{"windows-1256", []int64{24}, "charmap.Windows1256"},
	{"UTF-16BE", []int64{25}, "utf16beEnc"},
	{"UTF-8", []int64{26}, "unicode.UTF8"},
	{"ASCII", []int64{27, 170}, "asciiEnc"},
	{"Big5", []int64{28}, "traditionalchinese.Big5"},
	{"GB18030", []int64{29}, "simplifiedchinese.GB18030"},
	{"EUC-KR", []int64{30}, "korean.EUCKR"},
}

func checkC15(c *Ctx, r *Report) {
	checkECIRegistry(c, r)
	checkECILookups(c, r)
	checkECIParse(c, r)
	checkECIUnknownIsFormatError(c, r)
	checkECIEmission(c, r)
	checkGuessUTF8(c, r)
	checkGuessHint(c, r)
	checkECIBeatsHint(c, r)
	checkByteSegmentTranscode(c, r)
	checkHintForwarding(c, r) // a CHARACTER_SET decode hint must reach every retry
	checkQRSegments(c, r)     // Kanji mode (chosen under a Shift_JIS hint): the double-byte arithmetic of writer and reader are inverse
	checkQRCounts(c, r)       // ... and the character count written for it counts characters, not bytes (also C01)
	checkQRChooseMode(c, r)   // non-Latin text goes to byte mode (where its character set is written), never to a mode that cannot hold it (also C01)
	r.Note("not decided: charset guessing over whole texts (only single well-formed multi-byte characters, S-GUESS); per-charset transcoding (golang.org/x/text)")
}

func checkECIRegistry(c *Ctx, r *Report) {
	r.Rule("T-ECI", "every newCharsetECI(values, charset, names...) registration: values equal the AIM ECI assignment of that charset object, values and names/aliases are pairwise disjoint across the registry, each entry's first value fits the one-byte designator the writer emits (< 128), every value lies in the range the lookup accepts (0..899); newCharsetECI stores each value and each name into the two maps", 22)
	p := c.pkg("common")
	if p == nil {
		r.AnchorLost("T-ECI", "common", "package not found")
		return
	}
	nce, _ := c.lookupObj("common", "newCharsetECI").(*types.Func)
	if nce == nil {
		r.AnchorLost("T-ECI", "common.newCharsetECI", "function not found")
		return
	}
	byEnc := map[string]refECI{}
	for _, e := range refECIs {
		byEnc[e.enc] = e
	}
	seenVal := map[int64]string{}
	seenName := map[string]string{}
	n := 0
	for _, f := range p.Syntax {
		for _, d := range f.Decls {
			gd, ok := d.(*ast.GenDecl)
			if !ok || gd.Tok != token.VAR {
				continue
			}
			for _, sp := range gd.Specs {
				vs := sp.(*ast.ValueSpec)
				for i, val := range vs.Values {
					call, ok := val.(*ast.CallExpr)
					if !ok || typeutil.Callee(p.TypesInfo, call) != nce {
						continue
					}
					n++
					varName := vs.Names[i].Name
					key := "common." + varName
					r.Analysed(key)
					if len(call.Args) < 3 {
						r.Undecided("T-ECI", key, c.pos(call.Pos()), "registration without a name")
						continue
					}
					vals, okV := c.eval(p, call.Args[0]).ints()
					encTxt := exprString(call.Args[1])
					var names []string
					okN := true
					for _, a := range call.Args[2:] {
						v := c.eval(p, a)
						if v.K != VStr {
							okN = false
						}
						names = append(names, v.S)
					}
					if !okV || !okN || len(vals) == 0 {
						r.Undecided("T-ECI", key, c.pos(call.Pos()), "values or names are not constants")
						continue
					}
					bad := ""
					ref, known := byEnc[encTxt]
					switch {
					case !known:
						bad = fmt.Sprintf("charset object %s has no AIM assignment known to the checker", encTxt)
					case !sameInts(vals, ref.values):
						bad = fmt.Sprintf("values %v for %s, AIM ECI assigns %v", vals, encTxt, ref.values)
					case vals[0] >= 128:
						bad = fmt.Sprintf("first value %d does not fit the one-byte designator the writer emits", vals[0])
					}
					for _, v := range vals {
						if v < 0 || v >= 900 {
							bad = fmt.Sprintf("value %d outside the range 0..899 the lookup accepts", v)
						}
						if o, dup := seenVal[v]; dup && bad == "" {
							bad = fmt.Sprintf("value %d already registered by %s", v, o)
						}
						seenVal[v] = varName
					}
					for _, nm := range names {
						if o, dup := seenName[nm]; dup && bad == "" {
							bad = fmt.Sprintf("name %q already registered by %s", nm, o)
						}
						seenName[nm] = varName
					}
					r.Check(bad == "", "T-ECI", key, c.pos(call.Pos()), bad)
				}
			}
		}
	}
	// newCharsetECI body: both loops store c
	fd := c.funcDecl[nce]
	okBody := false
	if fd != nil {
		ps := paramObjs(p, fd)
		maps := map[string]types.Object{}
		ast.Inspect(fd.Body, func(nd ast.Node) bool {
			rs, ok := nd.(*ast.RangeStmt)
			if !ok || len(rs.Body.List) != 1 {
				return true
			}
			as, ok := rs.Body.List[0].(*ast.AssignStmt)
			if !ok || len(as.Lhs) != 1 {
				return true
			}
			ix, ok := as.Lhs[0].(*ast.IndexExpr)
			if !ok {
				return true
			}
			if identObj(p, ix.Index) == identObj(p, rs.Value) && identObj(p, rs.Value) != nil {
				if identObj(p, rs.X) == ps[0] {
					maps["values"] = identObj(p, ix.X)
				}
				if identObj(p, rs.X) == ps[2] {
					maps["names"] = identObj(p, ix.X)
				}
			}
			return true
		})
		okBody = maps["values"] == c.lookupObj("common", "valueToECI") && maps["names"] == c.lookupObj("common", "nameToECI") && maps["values"] != nil
	}
	r.Check(okBody, "T-ECI", "common.newCharsetECI", c.pos(fd.Pos()), "must register every value in valueToECI and every name in nameToECI")
	_ = n
}

func sameInts(a, b []int64) bool {
	if len(a) != len(b) {
		return false
	}
	for i := range a {
		if a[i] != b[i] {
			return false
		}
	}
	return true
}

func checkECILookups(c *Ctx, r *Report) {
	r.Rule("M-ECILOOKUP", "GetCharacterSetECIByValue rejects values outside 0..899 with a format error and otherwise returns the registry entry (range test folded); GetCharacterSetECIByName and GetCharacterSetECI return the map entry with its presence flag; GetValue is the entry's first value", 4)
	if fd, p := c.funcDeclOf("common", "GetCharacterSetECIByValue"); fd != nil {
		key := "common.GetCharacterSetECIByValue"
		r.Analysed(key)
		ps := paramObjs(p, fd)
		bad := ""
		var guard *ast.IfStmt
		if len(fd.Body.List) > 0 {
			guard, _ = fd.Body.List[0].(*ast.IfStmt)
		}
		if guard == nil || !blockReturnsError(p, guard.Body.List, func(o types.Object) bool { return isFuncNamed(o, "", "NewFormatException") }) {
			bad = "first statement must be the range guard returning a format error"
		} else {
			for _, t := range []struct {
				v    int64
				want bool
			}{{-1, true}, {0, false}, {26, false}, {899, false}, {900, true}, {999999, true}} {
				v, err := c.rpfExpr(p, guard.Cond, map[types.Object]*Val{ps[0]: vint(t.v)}, nil)
				if err != nil || v.K != VBool || v.B != t.want {
					bad = fmt.Sprintf("value %d: range guard gives %v, expected %v", t.v, v, t.want)
				}
			}
		}
		// the remaining return: valueToECI[value], nil
		okRet := false
		if rs, ok := fd.Body.List[len(fd.Body.List)-1].(*ast.ReturnStmt); ok && len(rs.Results) == 2 {
			if ix, ok := rs.Results[0].(*ast.IndexExpr); ok && identObj(p, ix.X) == c.lookupObj("common", "valueToECI") && identObj(p, ix.Index) == ps[0] {
				okRet = true
			}
		}
		if bad == "" && !okRet {
			bad = "must return valueToECI[value]"
		}
		r.Check(bad == "", "M-ECILOOKUP", key, c.pos(fd.Pos()), bad)
	} else {
		r.AnchorLost("M-ECILOOKUP", "common.GetCharacterSetECIByValue", "function not found")
	}
	if fd, p := c.funcDeclOf("common", "GetCharacterSetECIByName"); fd != nil {
		ok := false
		ast.Inspect(fd.Body, func(n ast.Node) bool {
			if ix, isI := n.(*ast.IndexExpr); isI && identObj(p, ix.X) == c.lookupObj("common", "nameToECI") && identObj(p, ix.Index) == paramObjs(p, fd)[0] {
				ok = true
			}
			return true
		})
		r.Check(ok, "M-ECILOOKUP", "common.GetCharacterSetECIByName", c.pos(fd.Pos()), "must look the name up in nameToECI")
	} else {
		r.AnchorLost("M-ECILOOKUP", "common.GetCharacterSetECIByName", "function not found")
	}
	if fd, p := c.funcDeclOf("common", "CharacterSetECI.GetValue"); fd != nil {
		ok := false
		if rs, isR := fd.Body.List[0].(*ast.ReturnStmt); isR && len(rs.Results) == 1 {
			if ix, isI := rs.Results[0].(*ast.IndexExpr); isI {
				if z, isC := constInt(p, ix.Index); isC && z == 0 {
					if sel, isS := ix.X.(*ast.SelectorExpr); isS && sel.Sel.Name == "values" {
						ok = true
					}
				}
			}
		}
		r.Check(ok, "M-ECILOOKUP", "common.CharacterSetECI.GetValue", c.pos(fd.Pos()), "must return values[0] (the designator the writer emits)")
	} else {
		r.AnchorLost("M-ECILOOKUP", "common.CharacterSetECI.GetValue", "method not found")
	}
	if m := methodOf(c, "common", "CharacterSetECI", "GetCharset"); m != nil {
		f, ok := c.trivialGetter(m)
		r.Check(ok && f == "charset", "M-ECILOOKUP", "common.CharacterSetECI.GetCharset", "", "must return the registered charset")
	} else {
		r.AnchorLost("M-ECILOOKUP", "common.CharacterSetECI.GetCharset", "method not found")
	}
}

func refParseECI(b1, b2, b3 int64) (int64, bool) {
	switch {
	case b1&0x80 == 0:
		return b1 & 0x7F, true
	case b1&0xC0 == 0x80:
		return (b1&0x3F)<<8 | b2, true
	case b1&0xE0 == 0xC0:
		return (b1&0x1F)<<16 | b2<<8 | b3, true
	}
	return 0, false
}

func checkECIParse(c *Ctx, r *Report) {
	r.Rule("M-ECIPARSE", "DecodedBitStreamParser_parseECIValue folded for every first byte (256) with representative continuation bytes equals ISO 18004 8.4.1: 0xxxxxxx one byte, 10xxxxxx two bytes, 110xxxxx three bytes, anything else a format error; a failed read is a format error", 256)
	fd, p := c.funcDeclOf("qrcode/decoder", "DecodedBitStreamParser_parseECIValue")
	if fd == nil {
		r.AnchorLost("M-ECIPARSE", "qrcode/decoder.DecodedBitStreamParser_parseECIValue", "function not found")
		return
	}
	r.Analysed("qrcode/decoder.DecodedBitStreamParser_parseECIValue")
	for b1 := int64(0); b1 < 256; b1++ {
		key := fmt.Sprintf("qrcode/decoder.DecodedBitStreamParser_parseECIValue(first byte %#02x)", b1)
		bad := ""
		for _, rest := range [][2]int64{{0, 0}, {0xA5, 0x3C}, {0xFF, 0xFF}} {
			stream := []int64{b1, rest[0], rest[1]}
			pos := 0
			hooks := &rpf{callHook: func(rr *rpf, call *ast.CallExpr, callee types.Object) (*Val, bool) {
				if isFuncNamed(callee, "", "NewFormatException") || isFuncNamed(callee, "", "WrapFormatException") {
					return vstr("format-error"), true
				}
				return nil, false
			}}
			// ReadBits(n) is a two-result method call: supplied through callMulti's hook below
			hooks.callHook = func(rr *rpf, call *ast.CallExpr, callee types.Object) (*Val, bool) {
				if isFuncNamed(callee, "", "NewFormatException") || isFuncNamed(callee, "", "WrapFormatException") {
					return vstr("format-error"), true
				}
				return nil, false
			}
			multi := func(call *ast.CallExpr, callee types.Object) ([]*Val, bool) {
				if !isMethodNamed(callee, "common", "BitSource", "ReadBits") {
					return nil, false
				}
				n, ok := constInt(p, call.Args[0])
				if !ok || n%8 != 0 {
					return nil, false
				}
				v := int64(0)
				for k := int64(0); k < n/8; k++ {
					v = v<<8 | stream[pos]
					pos++
				}
				return []*Val{vint(v), {K: VNil}}, true
			}
			res, err := c.rpfCallMulti(fd, p, []*Val{{K: VNil}}, hooks, multi)
			if err != nil {
				bad = "?" + err.Error()
				break
			}
			want, okW := refParseECI(b1, rest[0], rest[1])
			if okW {
				if len(res) != 2 || !res[0].isInt() || res[0].I != want || res[1].K != VNil {
					bad = fmt.Sprintf("bytes %#02x %#02x %#02x parse to %v, ISO 18004 gives %d", b1, rest[0], rest[1], res, want)
				}
			} else if len(res) != 2 || res[1].K != VStr {
				bad = fmt.Sprintf("first byte %#02x is not a valid ECI lead byte but the result is %v (format error expected)", b1, res)
			}
			if bad != "" {
				break
			}
		}
		if bad != "" && bad[0] == '?' {
			r.Undecided("M-ECIPARSE", key, c.pos(fd.Pos()), bad)
		} else {
			r.Check(bad == "", "M-ECIPARSE", key, c.pos(fd.Pos()), bad)
		}
	}
}

// an ECI designator that parses but is not registered, or is out of range, is a format error in both readers
func checkECIUnknownIsFormatError(c *Ctx, r *Report) {
	r.Rule("M-ECIFMT", "after looking an ECI designator up, each reader returns a format error both when the lookup fails and when it finds no registered entry (QR bit-stream parser; Aztec high-level decoder), and only then switches the character set", 2)
	type site struct{ rel, fn string }
	for _, s := range []site{{"qrcode/decoder", "DecodedBitStreamParser_Decode"}, {"aztec/decoder", "Decoder.getEncodedData"}} {
		fd, p := c.funcDeclOf(s.rel, s.fn)
		key := s.rel + "." + s.fn
		if fd == nil {
			r.AnchorLost("M-ECIFMT", key, "function not found")
			continue
		}
		r.Analysed(key)
		calls := findCalls(p, fd.Body, func(o types.Object) bool { return isFuncNamed(o, "common", "GetCharacterSetECIByValue") })
		if len(calls) != 1 {
			r.Undecided("M-ECIFMT", key, c.pos(fd.Pos()), fmt.Sprintf("%d lookups", len(calls)))
			continue
		}
		st := enclosingStmt(fd.Body, calls[0])
		as, ok := st.(*ast.AssignStmt)
		if !ok || len(as.Lhs) != 2 {
			r.Undecided("M-ECIFMT", key, c.pos(calls[0].Pos()), "lookup result not assigned to (entry, error)")
			continue
		}
		eciObj, errObj := identObj(p, as.Lhs[0]), identObj(p, as.Lhs[1])
		// the statements following in the same block: guards that exit with a format error
		blk := blockOf(fd.Body, st)
		errExit, nilExit := false, false
		after := false
		isFmt := func(o types.Object) bool {
			return isFuncNamed(o, "", "NewFormatException") || isFuncNamed(o, "", "WrapFormatException")
		}
		for _, s2 := range blk {
			if s2 == st {
				after = true
				continue
			}
			if !after {
				continue
			}
			ifs, isI := s2.(*ast.IfStmt)
			if !isI || !blockReturnsError(p, ifs.Body.List, isFmt) {
				// any use of the entry before both guards ends the search
				if usesIdent(p, s2, eciObj) {
					break
				}
				continue
			}
			// fold the condition over (err nil?, entry nil?)
			for _, t := range [][2]bool{{true, false}, {false, true}, {true, true}} {
				env := map[types.Object]*Val{}
				if t[0] {
					env[errObj] = vstr("err")
				} else {
					env[errObj] = &Val{K: VNil}
				}
				if t[1] {
					env[eciObj] = &Val{K: VNil}
				} else {
					env[eciObj] = &Val{K: VStruct, Fields: map[string]*Val{}}
				}
				v, err := c.rpfExpr(p, ifs.Cond, env, nil)
				if err == nil && v.K == VBool && v.B {
					if t[0] {
						errExit = true
					}
					if t[1] && !t[0] {
						nilExit = true
					}
				}
			}
		}
		r.Check(errExit && nilExit, "M-ECIFMT", key, c.pos(calls[0].Pos()), fmt.Sprintf("format-error exit for a failed lookup: %v; for an unregistered designator (nil entry): %v", errExit, nilExit))
	}
}

func blockOf(body *ast.BlockStmt, st ast.Stmt) []ast.Stmt {
	var out []ast.Stmt
	ast.Inspect(body, func(n ast.Node) bool {
		switch x := n.(type) {
		case *ast.BlockStmt:
			for _, s := range x.List {
				if s == st {
					out = x.List
				}
			}
		case *ast.CaseClause:
			for _, s := range x.Body {
				if s == st {
					out = x.Body
				}
			}
		}
		return true
	})
	return out
}

func checkECIEmission(c *Ctx, r *Report) {
	r.Rule("M-ECIEMIT", "Encoder_encode: an unknown CHARACTER_SET name is refused; the ECI header is appended exactly under (byte mode and hint present), on the header bits and before the mode indicator, for the registry entry of the same encoding object that encodes the bytes; appendECI emits the ECI mode indicator in 4 bits and the entry's value in 8 bits", 4)
	fd, p := c.funcDeclOf("qrcode/encoder", "Encoder_encode")
	key := "qrcode/encoder.Encoder_encode"
	if fd == nil {
		r.AnchorLost("M-ECIEMIT", key, "function not found")
		return
	}
	r.Analysed(key)
	// (1) unknown name -> error
	okUnknown := false
	var encObj, hasHintObj types.Object
	// the lookup of the hinted name: (entry, found); whatever way the test of `found` is spelled, the branch taken
	// when it is false must return an error, and the charset used is the entry's
	var entryObj, foundObj types.Object
	ast.Inspect(fd.Body, func(n ast.Node) bool {
		if as, ok := n.(*ast.AssignStmt); ok && len(as.Rhs) == 1 && len(as.Lhs) == 2 {
			if call, ok := as.Rhs[0].(*ast.CallExpr); ok && isFuncNamed(typeutil.Callee(p.TypesInfo, call), "common", "GetCharacterSetECIByName") {
				entryObj, foundObj = identObj(p, as.Lhs[0]), identObj(p, as.Lhs[1])
			}
		}
		return true
	})
	ast.Inspect(fd.Body, func(n ast.Node) bool {
		switch x := n.(type) {
		case *ast.IfStmt:
			if foundObj == nil || !usesIdent(p, x.Cond, foundObj) {
				return true
			}
			v, err := c.rpfExpr(p, x.Cond, map[types.Object]*Val{foundObj: vbool(false)}, nil)
			if err != nil || v.K != VBool {
				return true
			}
			if v.B && blockReturnsError(p, x.Body.List, nil) {
				okUnknown = true
			}
			if eb, isB := x.Else.(*ast.BlockStmt); !v.B && isB && blockReturnsError(p, eb.List, nil) {
				okUnknown = true
			}
		case *ast.AssignStmt:
			if len(x.Lhs) == 1 && len(x.Rhs) == 1 && entryObj != nil {
				if call, ok := ast.Unparen(x.Rhs[0]).(*ast.CallExpr); ok && isMethodNamed(typeutil.Callee(p.TypesInfo, call), "common", "CharacterSetECI", "GetCharset") {
					if sel, ok := call.Fun.(*ast.SelectorExpr); ok && identObj(p, sel.X) == entryObj {
						encObj = identObj(p, x.Lhs[0])
					}
				}
			}
		}
		return true
	})
	r.Check(okUnknown && encObj != nil, "M-ECIEMIT", key+".unknown-charset", c.pos(fd.Pos()), "an unregistered CHARACTER_SET name must return an error; a registered one must select that entry's charset")
	// hint-present flag: second result of the hints[...] lookup
	for _, st := range fd.Body.List {
		if as, ok := st.(*ast.AssignStmt); ok && len(as.Lhs) == 2 && len(as.Rhs) == 1 {
			if ix, ok := as.Rhs[0].(*ast.IndexExpr); ok {
				if sel, ok := ix.Index.(*ast.SelectorExpr); ok && sel.Sel.Name == "EncodeHintType_CHARACTER_SET" {
					hasHintObj = identObj(p, as.Lhs[1])
				}
			}
		}
	}
	// (2) appendECI placement
	eciCalls := findCalls(p, fd.Body, func(o types.Object) bool { return isFuncNamed(o, "qrcode/encoder", "appendECI") })
	modeCalls := findCalls(p, fd.Body, func(o types.Object) bool { return isFuncNamed(o, "qrcode/encoder", "appendModeInfo") })
	bad := ""
	if len(eciCalls) != 1 || len(modeCalls) < 1 {
		bad = "appendECI / appendModeInfo calls not found"
	} else {
		ec := eciCalls[0]
		var modeCall *ast.CallExpr
		for _, mc := range modeCalls {
			// the segment's mode: a local variable (the FNC1 indicator is written from a package-level constant)
			if v, isV := identObj(p, mc.Args[0]).(*types.Var); isV && v.Pkg() != nil && v.Parent() != v.Pkg().Scope() {
				modeCall = mc
			}
		}
		if modeCall == nil {
			bad = "appendModeInfo(mode, ...) not found"
		} else if !(ec.Pos() < modeCall.Pos()) || identObj(p, ec.Args[1]) != identObj(p, modeCall.Args[1]) {
			bad = "the ECI header must be appended to the same header bits before the mode indicator"
		}
		gi, _ := guardsOf(fd.Body, enclosingStmt(fd.Body, ec))
		condOK := false
		var eciVar types.Object
		for _, e := range gi.Enclosing {
			ifs, ok := e.Node.(*ast.IfStmt)
			if !ok || !e.Branch {
				continue
			}
			// fold: mode == Mode_BYTE && hasEncodingHint
			if hasHintObj != nil && usesIdent(p, ifs.Cond, hasHintObj) {
				all := true
				for _, t := range [][2]bool{{true, true}, {true, false}, {false, true}, {false, false}} {
					modeObj := identObj(p, modeCall.Args[0])
					env := map[types.Object]*Val{hasHintObj: vbool(t[1])}
					hooks := &rpf{selHook: func(rr *rpf, sel *ast.SelectorExpr) (*Val, bool) {
						if sel.Sel.Name == "Mode_BYTE" {
							return vint(4), true
						}
						return nil, false
					}}
					if t[0] {
						env[modeObj] = vint(4)
					} else {
						env[modeObj] = vint(1)
					}
					v, err := c.rpfExpr(p, ifs.Cond, env, hooks)
					if err != nil || v.K != VBool || v.B != (t[0] && t[1]) {
						all = false
					}
				}
				condOK = all
			}
			if ifs.Init != nil {
				if as, ok := ifs.Init.(*ast.AssignStmt); ok {
					eciVar = identObj(p, as.Lhs[0])
				}
			}
		}
		// every other condition on the way to appendECI holds whenever the lookup found an entry: the header is not
		// withheld for some registered character sets
		var lookupOK, lookupEntry types.Object
		ast.Inspect(fd.Body, func(n ast.Node) bool {
			if as, ok := n.(*ast.AssignStmt); ok && len(as.Rhs) == 1 && len(as.Lhs) == 2 {
				if call, ok := as.Rhs[0].(*ast.CallExpr); ok && isFuncNamed(typeutil.Callee(p.TypesInfo, call), "common", "GetCharacterSetECI") {
					lookupEntry, lookupOK = identObj(p, as.Lhs[0]), identObj(p, as.Lhs[1])
				}
			}
			return true
		})
		for _, e := range gi.Enclosing {
			ifs, ok := e.Node.(*ast.IfStmt)
			if !ok || (hasHintObj != nil && usesIdent(p, ifs.Cond, hasHintObj)) || bad != "" {
				continue
			}
			env := map[types.Object]*Val{}
			if lookupOK != nil {
				env[lookupOK] = vbool(true)
			}
			if lookupEntry != nil {
				env[lookupEntry] = &Val{K: VStruct, Ptr: true, Fields: map[string]*Val{}}
			}
			v, err := c.rpfExpr(p, ifs.Cond, env, nil)
			switch {
			case err != nil:
				bad = fmt.Sprintf("the ECI header is appended only under `%s`, which depends on more than whether the registry has an entry for the character set (%v): a hinted character set can be written without its designator", types.ExprString(ifs.Cond), err)
			case v.K != VBool || v.B != e.Branch:
				bad = fmt.Sprintf("the ECI header is not appended when the registry has an entry for the hinted character set (condition `%s`)", types.ExprString(ifs.Cond))
			}
		}
		// the entry comes from GetCharacterSetECI(encoding) on the same encoding object used by appendBytes
		sameEnc := false
		ast.Inspect(fd.Body, func(n ast.Node) bool {
			if as, ok := n.(*ast.AssignStmt); ok && len(as.Rhs) == 1 {
				if call, ok := as.Rhs[0].(*ast.CallExpr); ok && isFuncNamed(typeutil.Callee(p.TypesInfo, call), "common", "GetCharacterSetECI") {
					if identObj(p, call.Args[0]) == encObj && identObj(p, as.Lhs[0]) == identObj(p, ec.Args[0]) {
						sameEnc = true
					}
				}
			}
			return true
		})
		usedByBytes := false
		for _, call := range findCalls(p, fd.Body, func(o types.Object) bool { return isFuncNamed(o, "qrcode/encoder", "appendBytes") }) {
			if len(call.Args) == 4 && identObj(p, call.Args[3]) == encObj {
				usedByBytes = true
			}
		}
		_ = eciVar
		if bad == "" && !(condOK && sameEnc && usedByBytes) {
			bad = fmt.Sprintf("condition is (byte mode && hint present): %v; entry looked up for the encoding object: %v; the same object encodes the bytes: %v", condOK, sameEnc, usedByBytes)
		}
	}
	r.Check(bad == "", "M-ECIEMIT", key+".header", c.pos(fd.Pos()), bad)
	// (3) appendECI body
	if fd2, p2 := c.funcDeclOf("qrcode/encoder", "appendECI"); fd2 != nil {
		var widths []int64
		var firstIsMode, secondIsValue bool
		walkCalls(p2, fd2.Body, func(cs *callSite) {
			if isMethodNamed(cs.Callee, "", "BitArray", "AppendBits") {
				w, _ := constInt(p2, cs.Call.Args[1])
				widths = append(widths, w)
				txt := exprString(cs.Call.Args[0])
				if len(widths) == 1 && strings.Contains(txt, "Mode_ECI.GetBits()") {
					firstIsMode = true
				}
				if len(widths) == 2 && strings.HasSuffix(txt, ".GetValue()") {
					secondIsValue = true
				}
			}
		})
		ok := len(widths) == 2 && widths[0] == 4 && widths[1] == 8 && firstIsMode && secondIsValue
		r.Check(ok, "M-ECIEMIT", "qrcode/encoder.appendECI", c.pos(fd2.Pos()), fmt.Sprintf("AppendBits widths %v (want [4 8]), mode indicator first %v, entry value second %v", widths, firstIsMode, secondIsValue))
	} else {
		r.AnchorLost("M-ECIEMIT", "qrcode/encoder.appendECI", "function not found")
	}
	// default encoding is UTF-8
	if init, p3 := c.varInit("qrcode/encoder", "Encoder_DEFAULT_BYTE_MODE_ENCODING"); init != nil {
		r.Check(exprString(init) == "unicode.UTF8", "M-ECIEMIT", "qrcode/encoder.Encoder_DEFAULT_BYTE_MODE_ENCODING", c.pos(init.Pos()), "without a hint byte mode must encode UTF-8")
		_ = p3
	} else {
		r.AnchorLost("M-ECIEMIT", "qrcode/encoder.Encoder_DEFAULT_BYTE_MODE_ENCODING", "variable not found")
	}
	var names []string
	for _, e := range refECIs {
		names = append(names, e.name)
	}
	sort.Strings(names)
}

// S-GUESS: text without a hint that is UTF-8 is read as UTF-8
func checkGuessUTF8(c *Ctx, r *Report) {
	r.Rule("S-GUESS", "StringUtils_guessCharset, folded from source without hints, answers UTF-8 for every text consisting of one well-formed multi-byte UTF-8 character - every lead byte C2..F4, continuation bytes from the classes 80, 8F, 90, 9F, A0, BF that keep the sequence well formed - alone, between ASCII letters, repeated, and (one sequence of each length) at the end of 1530 ASCII bytes - the whole payload is examined: the clause 'without a hint, UTF-8 text decodes as itself' needs at least that (whole texts are beyond a static argument: the guess is a heuristic over byte statistics)", 1)
	fd, p := c.funcDeclOf("common", "StringUtils_guessCharset")
	key := "common.StringUtils_guessCharset/utf8"
	if fd == nil {
		r.AnchorLost("S-GUESS", key, "function not found")
		return
	}
	r.Analysed(key)
	env := map[types.Object]*Val{}
	for _, n := range []string{"StringUtils_SHIFT_JIS_CHARSET", "StringUtils_PLATFORM_DEFAULT_ENCODING", "StringUtils_ASSUME_SHIFT_JIS"} {
		if o := c.lookupObj("common", n); o != nil {
			if n == "StringUtils_ASSUME_SHIFT_JIS" {
				continue
			}
			env[o] = vstr("var:" + n)
		}
	}
	conts := []int{0x80, 0x8F, 0x90, 0x9F, 0xA0, 0xBF}
	var seqs [][]byte
	for lead := 0xC2; lead <= 0xF4; lead++ {
		n := 1
		if lead >= 0xE0 {
			n = 2
		}
		if lead >= 0xF0 {
			n = 3
		}
		var rec func(cur []byte)
		rec = func(cur []byte) {
			if len(cur) == n+1 {
				if utf8.Valid(cur) {
					seqs = append(seqs, append([]byte{}, cur...))
				}
				return
			}
			for _, ct := range conts {
				rec(append(cur, byte(ct)))
			}
		}
		rec([]byte{byte(lead)})
	}
	bad := ""
	folds := 0
	longDone := map[int]bool{}
	for _, sq := range seqs {
		nv := 3
		if !longDone[len(sq)] {
			// once per sequence length: the character at the very end of a long ASCII text (the whole payload counts)
			longDone[len(sq)] = true
			nv = 4
		}
		for variant := 0; variant < nv && bad == ""; variant++ {
			var text []byte
			switch variant {
			case 3:
				text = append([]byte(strings.Repeat("plain ascii text ", 90)), sq...)
			case 0:
				text = sq
			case 1:
				text = append(append([]byte("ab"), sq...), []byte("cd")...)
			case 2:
				text = append(append(append([]byte{}, sq...), ' '), sq...)
			}
			lst := &Val{K: VList}
			for _, b := range text {
				lst.L = append(lst.L, &Val{K: VInt, I: int64(b), T: types.Typ[types.Byte]})
			}
			h := &rpf{unroll: 5000, maxSteps: 3000000, env: env}
			h.selHook = func(rr *rpf, sel *ast.SelectorExpr) (*Val, bool) {
				if id, ok := sel.X.(*ast.Ident); ok {
					if pn, isPkg := rr.p.TypesInfo.Uses[id].(*types.PkgName); isPkg && !strings.HasPrefix(pn.Imported().Path(), modPath) {
						if _, isVar := rr.p.TypesInfo.Uses[sel.Sel].(*types.Var); isVar {
							return vstr(pn.Imported().Name() + "." + sel.Sel.Name), true
						}
					}
				}
				return nil, false
			}
			h.callHook = errCtorHook
			res, err := c.rpfCall(fd, p, []*Val{lst, {K: VNil}}, h)
			folds++
			if err != nil {
				bad = "?" + err.Error()
				break
			}
			if len(res) != 2 || res[1].K != VNil || res[0].K != VStr || res[0].S != "unicode.UTF8" {
				got := "an error"
				if len(res) == 2 && res[0].K == VStr {
					got = res[0].S
				}
				show := text
				if len(show) > 24 {
					show = show[len(show)-24:]
				}
				bad = fmt.Sprintf("the bytes ... % x (the character %q%s) are guessed as %s, not UTF-8", show, string(sq), []string{"", " between ASCII letters", " twice", " at the end of 1530 ASCII bytes"}[variant], got)
			}
		}
		if bad != "" {
			break
		}
	}
	r.Extra("S-GUESS sequences", len(seqs))
	r.Extra("S-GUESS folds", folds)
	reportFold(r, c, "S-GUESS", key, fd.Pos(), bad)
}

// M-TRANSCODE: byte segments reach the text only through the decoder of the selected character set
func checkByteSegmentTranscode(c *Ctx, r *Report) {
	r.Rule("M-TRANSCODE", "DecodedBitStreamParser_decodeByteSegment: on every return without error the text is the first result of transform.Append(dec, result, readBytes), where dec is NewDecoder() of the character set selected for the segment - the current ECI's charset when one is in force, otherwise what StringUtils_guessCharset(readBytes, hints) answers - and readBytes are the count bytes read from the stream; no other value reaches the returned text", 1)
	f := c.ssaFunc("qrcode/decoder", "DecodedBitStreamParser_decodeByteSegment")
	key := "qrcode/decoder.DecodedBitStreamParser_decodeByteSegment"
	if f == nil {
		r.AnchorLost("M-TRANSCODE", key, "function not found")
		return
	}
	r.Analysed(key)
	bad := ""
	isCallTo := func(v ssa.Value, pkgSuffix, name string) *ssa.Call {
		call, ok := v.(*ssa.Call)
		if !ok {
			return nil
		}
		if g := call.Call.StaticCallee(); g != nil && g.Name() == name && g.Pkg != nil && strings.HasSuffix(g.Pkg.Pkg.Path(), pkgSuffix) {
			return call
		}
		return nil
	}
	nOK := 0
	for _, ret := range returnsOf(f) {
		if len(ret.Results) != 3 {
			continue
		}
		if cst, ok := unspill(ret.Results[2], ret).(*ssa.Const); !ok || !cst.IsNil() {
			continue // an error return
		}
		v := unspill(ret.Results[0], ret)
		ex, ok := v.(*ssa.Extract)
		var app *ssa.Call
		if ok && ex.Index == 0 {
			app = isCallTo(ex.Tuple, "golang.org/x/text/transform", "Append")
		}
		if app == nil {
			bad = fmt.Sprintf("the return at %s delivers text that is not the result of transform.Append", c.pos(ret.Pos()))
			break
		}
		// transform.Append(dec, result, readBytes)
		args := app.Call.Args
		if p0, isP := args[1].(*ssa.Parameter); !isP || p0 != f.Params[1] {
			bad = "transform.Append does not extend the text handed in"
			break
		}
		if _, isMake := args[2].(*ssa.MakeSlice); !isMake {
			if sl, isSl := args[2].(*ssa.Slice); !isSl || !func() bool { _, a := sl.X.(*ssa.Alloc); _, m := sl.X.(*ssa.MakeSlice); return a || m }() {
				bad = "transform.Append is not given the bytes read in this call"
				break
			}
		}
		// dec = MakeInterface / ChangeInterface of encoding.NewDecoder()
		dec := args[0]
		for {
			if mi, isMI := dec.(*ssa.MakeInterface); isMI {
				dec = mi.X
				continue
			}
			if ci, isCI := dec.(*ssa.ChangeInterface); isCI {
				dec = ci.X
				continue
			}
			break
		}
		dcall, isCall := dec.(*ssa.Call)
		if !isCall || !dcall.Call.IsInvoke() || dcall.Call.Method.Name() != "NewDecoder" {
			bad = "the transformer is not NewDecoder() of the selected character set"
			break
		}
		enc := dcall.Call.Value
		phi, isPhi := enc.(*ssa.Phi)
		if !isPhi || len(phi.Edges) != 2 {
			bad = "the character set is not selected between the ECI in force and the guess"
			break
		}
		seenGuess, seenECI := false, false
		for _, e := range phi.Edges {
			if ex2, isEx := e.(*ssa.Extract); isEx && ex2.Index == 0 {
				if g := isCallTo(ex2.Tuple, "/common", "StringUtils_guessCharset"); g != nil {
					seenGuess = true
				}
			}
			if gc, isC := e.(*ssa.Call); isC {
				if g := gc.Call.StaticCallee(); g != nil && g.Name() == "GetCharset" && len(gc.Call.Args) == 1 && gc.Call.Args[0] == ssa.Value(f.Params[3]) {
					seenECI = true
				}
			}
		}
		if !seenGuess || !seenECI {
			bad = fmt.Sprintf("character set sources: guess %v, ECI in force %v - both are needed", seenGuess, seenECI)
			break
		}
		nOK++
	}
	if bad == "" && nOK == 0 {
		bad = "no successful return found"
	}
	r.Check(bad == "", "M-TRANSCODE", key, c.pos(f.Pos()), bad)
}

// M-GUESSHINT: a CHARACTER_SET decode hint decides the character set whatever the bytes look like
func checkGuessHint(c *Ctx, r *Report) {
	r.Rule("M-GUESSHINT", "StringUtils_guessCharset, folded from source with a CHARACTER_SET hint, answers the hinted character set - given as an encoding object, or as a registered name resolved through GetCharacterSetECIByName(...).GetCharset() - for every byte text of the sample, which includes texts that start with a UTF-16 or UTF-8 byte-order mark, well-formed UTF-8, Shift_JIS lead bytes, plain ASCII and the empty text: the hint is consulted before anything is inferred from the bytes", 1)
	fd, p := c.funcDeclOf("common", "StringUtils_guessCharset")
	key := "common.StringUtils_guessCharset/hint"
	if fd == nil {
		r.AnchorLost("M-GUESSHINT", key, "function not found")
		return
	}
	r.Analysed(key)
	hk, ok := constValIn(c, "", "DecodeHintType_CHARACTER_SET")
	if !ok {
		r.Undecided("M-GUESSHINT", key, c.pos(fd.Pos()), "DecodeHintType_CHARACTER_SET is not a constant")
		return
	}
	texts := [][]byte{{}, {0x41}, {0x41, 0x42, 0x43}, {0xFE, 0xFF, 0x00, 0x41}, {0xFF, 0xFE, 0x41, 0x00}, {0xFE, 0xFF, 0x41}, {0xEF, 0xBB, 0xBF, 0x41}, {0xC3, 0xA9}, {0xC3, 0xA9, 0xC3, 0xA9, 0x41}, {0x83, 0x41, 0x83, 0x42}, {0xE9, 0x20, 0xE9}, {0xFF, 0xFE, 0xFF, 0xFE}}
	bad := ""
	folds := 0
	for _, byName := range []bool{false, true} {
		for _, text := range texts {
			if bad != "" {
				break
			}
			lst := &Val{K: VList}
			for _, b := range text {
				lst.L = append(lst.L, &Val{K: VInt, I: int64(b), T: types.Typ[types.Byte]})
			}
			hint, want := vstr("enc:hinted"), "enc:hinted"
			if byName {
				hint, want = vstr("X-NAME"), "eci:X-NAME"
			}
			hints := &Val{K: VStruct, Fields: map[string]*Val{fmt.Sprint(hk): hint}}
			h := &rpf{unroll: 1000}
			h.assertHook = func(rr *rpf, ta *ast.TypeAssertExpr, v *Val) (bool, bool) {
				return v.K == VStr && strings.HasPrefix(v.S, "enc:"), true
			}
			h.selHook = func(rr *rpf, sel *ast.SelectorExpr) (*Val, bool) {
				if id, ok := sel.X.(*ast.Ident); ok {
					if pn, isPkg := rr.p.TypesInfo.Uses[id].(*types.PkgName); isPkg && !strings.HasPrefix(pn.Imported().Path(), modPath) {
						if _, isVar := rr.p.TypesInfo.Uses[sel.Sel].(*types.Var); isVar {
							return vstr(pn.Imported().Name() + "." + sel.Sel.Name), true
						}
					}
				}
				return nil, false
			}
			h.callHook = func(rr *rpf, call *ast.CallExpr, callee types.Object) (*Val, bool) {
				if fn, ok := callee.(*types.Func); ok {
					switch {
					case fn.Pkg() != nil && fn.Pkg().Path() == "fmt" && fn.Name() == "Sprintf" && len(call.Args) == 2:
						if f := rr.expr(call.Args[0]); f.K == VStr && f.S == "%v" {
							return rr.expr(call.Args[1]), true
						}
					case fn.Pkg() != nil && fn.Pkg().Path() == "golang.org/x/text/encoding/unicode" && fn.Name() == "UTF16":
						return vstr("UTF-16 (inferred from a byte-order mark)"), true
					case isMethodNamed(fn, "common", "CharacterSetECI", "GetCharset"):
						if sel, ok := call.Fun.(*ast.SelectorExpr); ok {
							if e := rr.expr(sel.X); e.K == VStruct && e.Fields["name"] != nil {
								return vstr("eci:" + e.Fields["name"].S), true
							}
						}
					}
				}
				return errCtorHook(rr, call, callee)
			}
			h.multiHook = func(call *ast.CallExpr, callee types.Object) ([]*Val, bool) {
				if isFuncNamed(callee, "common", "GetCharacterSetECIByName") && len(call.Args) == 1 {
					n := rpfCurrent.expr(call.Args[0])
					if n.K == VStr {
						return []*Val{{K: VStruct, Ptr: true, Fields: map[string]*Val{"name": vstr(n.S)}}, vbool(true)}, true
					}
				}
				return nil, false
			}
			res, err := c.rpfCall(fd, p, []*Val{lst, hints}, h)
			folds++
			how := "an encoding object"
			if byName {
				how = "a registered name"
			}
			if err != nil {
				bad = "?" + err.Error()
				break
			}
			if len(res) != 2 || res[1].K != VNil || res[0].K != VStr || res[0].S != want {
				got := "an error"
				if len(res) == 2 && res[0].K == VStr {
					got = res[0].S
				}
				bad = fmt.Sprintf("with a CHARACTER_SET hint given as %s, the bytes [% x] are read as %s, not the hinted character set", how, text, got)
			}
		}
	}
	r.Extra("M-GUESSHINT folds", folds)
	reportFold(r, c, "M-GUESSHINT", key, fd.Pos(), bad)
}

// M-ECIWINS: a designator carried by the symbol decides the character set of the byte segment, whatever the caller hints
func checkECIBeatsHint(c *Ctx, r *Report) {
	r.Rule("M-ECIWINS", "DecodedBitStreamParser_decodeByteSegment, folded with the bit source, the guess and the transcoder replaced by recorders: when an ECI is in force the bytes are decoded with that entry's GetCharset() - with no decode hints and with a CHARACTER_SET decode hint alike - and StringUtils_guessCharset is not consulted; without an ECI the character set is what guessCharset(readBytes, hints) answers", 1)
	fd, p := c.funcDeclOf("qrcode/decoder", "DecodedBitStreamParser_decodeByteSegment")
	key := "qrcode/decoder.DecodedBitStreamParser_decodeByteSegment/charset-choice"
	if fd == nil {
		r.AnchorLost("M-ECIWINS", key, "function not found")
		return
	}
	r.Analysed(key)
	hk, ok := constValIn(c, "", "DecodeHintType_CHARACTER_SET")
	if !ok {
		r.Undecided("M-ECIWINS", key, c.pos(fd.Pos()), "DecodeHintType_CHARACTER_SET is not a constant")
		return
	}
	bad := ""
	for _, withECI := range []bool{true, false} {
		for _, withHint := range []bool{false, true} {
			if bad != "" {
				break
			}
			eci := &Val{K: VNil}
			if withECI {
				eci = &Val{K: VStruct, Ptr: true, Fields: map[string]*Val{"tag": vstr("eci")}}
			}
			hints := &Val{K: VNil}
			if withHint {
				hints = &Val{K: VStruct, Fields: map[string]*Val{fmt.Sprint(hk): vstr("ISO-8859-1")}}
			}
			used, guesses := "", 0
			h := &rpf{unroll: 64}
			h.callHook = func(rr *rpf, call *ast.CallExpr, callee types.Object) (*Val, bool) {
				fn, ok := callee.(*types.Func)
				if !ok {
					return nil, false
				}
				switch {
				case isMethodNamed(callee, "common", "BitSource", "Available"):
					return vint(1 << 20), true
				case isMethodNamed(callee, "common", "CharacterSetECI", "GetCharset"):
					return vstr("charset of the ECI"), true
				case fn.Name() == "NewDecoder":
					if sel, ok := call.Fun.(*ast.SelectorExpr); ok {
						if v := rr.expr(sel.X); v.K == VStr {
							used = v.S
							return vstr("decoder of " + v.S), true
						}
					}
					rpfFail("NewDecoder on an undetermined character set")
				}
				return errCtorHook(rr, call, callee)
			}
			h.multiHook = func(call *ast.CallExpr, callee types.Object) ([]*Val, bool) {
				fn, ok := callee.(*types.Func)
				if !ok {
					return nil, false
				}
				switch {
				case isMethodNamed(callee, "common", "BitSource", "ReadBits"):
					return []*Val{vint(0x41), {K: VNil}}, true
				case isFuncNamed(callee, "common", "StringUtils_guessCharset"):
					guesses++
					return []*Val{vstr("guess"), {K: VNil}}, true
				case fn.Pkg() != nil && fn.Pkg().Path() == "golang.org/x/text/transform" && fn.Name() == "Append":
					return []*Val{rpfCurrent.expr(call.Args[1]), vint(0), {K: VNil}}, true
				}
				return nil, false
			}
			res, err := c.rpfCall(fd, p, []*Val{{K: VStruct, Ptr: true, Fields: map[string]*Val{}}, {K: VList, Local: true}, vint(2), eci, {K: VList, Local: true}, hints}, h)
			desc := map[bool]string{true: "an ECI in force", false: "no ECI"}[withECI] + map[bool]string{true: " and a CHARACTER_SET decode hint", false: ", no hints"}[withHint]
			switch {
			case err != nil:
				bad = "?" + desc + ": " + err.Error()
			case len(res) != 3 || res[2].K != VNil:
				bad = desc + ": the segment is refused"
			case withECI && (used != "charset of the ECI" || guesses != 0):
				bad = fmt.Sprintf("%s: the bytes are decoded as %q (guessCharset consulted %d times); the symbol's own designator must decide", desc, used, guesses)
			case !withECI && (used != "guess" || guesses != 1):
				bad = fmt.Sprintf("%s: the bytes are decoded as %q (guessCharset consulted %d times); expected the guess", desc, used, guesses)
			}
		}
	}
	reportFold(r, c, "M-ECIWINS", key, fd.Pos(), bad)
}
