package main

import (
	"fmt"
	"go/ast"
	"go/token"
	"go/types"
	"os"
	"os/exec"
	"sort"
	"strings"

	"golang.org/x/tools/go/callgraph"
	"golang.org/x/tools/go/callgraph/cha"
	"golang.org/x/tools/go/callgraph/vta"
	"golang.org/x/tools/go/packages"
	"golang.org/x/tools/go/ssa"
	"golang.org/x/tools/go/ssa/ssautil"
)

const modPath = "github.com/makiuchi-d/gozxing"

type Ctx struct {
	iifeVals map[types.Object]*Val // package variables initialised by an immediately invoked function literal, folded
	Tier     string
	Seed     int
	Canon    int // comparisons reoriented by canonicaliseComparisons
	Fset     *token.FileSet
	Pkgs     map[string]*packages.Package // by import path, repository packages only
	PkgList  []*packages.Package
	Prog     *ssa.Program
	SSA      map[string]*ssa.Package
	NumFuncs int
	cg       *callgraph.Graph
	allFuncs map[*ssa.Function]bool
	funcDecl map[*types.Func]*ast.FuncDecl
	declPkg  map[*ast.FuncDecl]*packages.Package
}

func loadRepo(dir string) (*Ctx, error) {
	env := append(os.Environ(), "GOWORK=off", "GOFLAGS=-mod=mod", "GOPROXY=off", "GOSUMDB=off", "GOTOOLCHAIN=local")
	cfg := &packages.Config{Mode: packages.LoadAllSyntax, Dir: dir, Tests: false, Env: env}
	pkgs, err := packages.Load(cfg, "./...")
	if err != nil {
		return nil, err
	}
	if len(pkgs) == 0 {
		return nil, fmt.Errorf("zero packages loaded from %s", dir)
	}
	// cross-check the package count with `go list`
	cmd := exec.Command("go", "list", "./...")
	cmd.Dir = dir
	cmd.Env = env
	if out, err := cmd.Output(); err == nil {
		n := len(strings.Fields(string(out)))
		if n != len(pkgs) {
			return nil, fmt.Errorf("go list reports %d packages, loader saw %d", n, len(pkgs))
		}
	} else {
		return nil, fmt.Errorf("go list failed: %v", err)
	}
	var errs []string
	packages.Visit(pkgs, nil, func(p *packages.Package) {
		for _, e := range p.Errors {
			errs = append(errs, e.Error())
		}
	})
	if len(errs) > 0 {
		return nil, fmt.Errorf("type/load errors: %s", strings.Join(errs, "; "))
	}
	c := &Ctx{Pkgs: map[string]*packages.Package{}, SSA: map[string]*ssa.Package{},
		funcDecl: map[*types.Func]*ast.FuncDecl{}, declPkg: map[*ast.FuncDecl]*packages.Package{}}
	sort.Slice(pkgs, func(i, j int) bool { return pkgs[i].PkgPath < pkgs[j].PkgPath })
	c.PkgList = pkgs
	c.Fset = pkgs[0].Fset
	if os.Getenv("GZ_NOCANON") == "" {
		c.Canon = canonicaliseComparisons(repoOnly(pkgs)) + canonicaliseUpdates(repoOnly(pkgs))
	}
	prog, spkgs := ssautil.AllPackages(pkgs, ssa.InstantiateGenerics)
	prog.Build()
	c.Prog = prog
	for i, p := range pkgs {
		c.Pkgs[p.PkgPath] = p
		c.SSA[p.PkgPath] = spkgs[i]
		for _, f := range p.Syntax {
			for _, d := range f.Decls {
				if fd, ok := d.(*ast.FuncDecl); ok {
					if obj, ok := p.TypesInfo.Defs[fd.Name].(*types.Func); ok {
						c.funcDecl[obj] = fd
						c.declPkg[fd] = p
					}
				}
			}
			// assert: no unsafe / cgo / linkname
			for _, imp := range f.Imports {
				if strings.HasSuffix(p.PkgPath, "/testutil") {
					continue // test helper package, not part of the library
				}
				if imp.Path.Value == `"unsafe"` || imp.Path.Value == `"C"` || imp.Path.Value == `"reflect"` {
					return nil, fmt.Errorf("%s imports %s: outside the analysed fragment", c.Fset.Position(imp.Pos()), imp.Path.Value)
				}
			}
			for _, cg := range f.Comments {
				for _, cm := range cg.List {
					if strings.HasPrefix(cm.Text, "//go:linkname") {
						return nil, fmt.Errorf("%s: go:linkname", c.Fset.Position(cm.Pos()))
					}
				}
			}
		}
	}
	c.allFuncs = ssautil.AllFunctions(prog)
	for f := range c.allFuncs {
		if f.Pkg != nil && strings.HasPrefix(f.Pkg.Pkg.Path(), modPath) {
			c.NumFuncs++
		}
	}
	return c, nil
}

// CG returns the VTA call graph (computed on demand).
func (c *Ctx) CG() *callgraph.Graph {
	if c.cg == nil {
		c.cg = vta.CallGraph(c.allFuncs, cha.CallGraph(c.Prog))
	}
	return c.cg
}

func (c *Ctx) pos(p token.Pos) string {
	if !p.IsValid() {
		return ""
	}
	ps := c.Fset.Position(p)
	return fmt.Sprintf("%s:%d", relRepo(ps.Filename), ps.Line)
}

// pkg returns the repository package with the given path relative to the module root ("" = root).
func (c *Ctx) pkg(rel string) *packages.Package {
	p := modPath
	if rel != "" {
		p += "/" + rel
	}
	return c.Pkgs[p]
}

func (c *Ctx) ssaPkg(rel string) *ssa.Package {
	p := modPath
	if rel != "" {
		p += "/" + rel
	}
	return c.SSA[p]
}

// lookupObj finds a package-level object.
func (c *Ctx) lookupObj(rel, name string) types.Object {
	p := c.pkg(rel)
	if p == nil {
		return nil
	}
	return p.Types.Scope().Lookup(name)
}

// funcDeclOf finds the declaration of a package-level function, or of a method given as "Type.Method"
// or "*Type.Method".
func (c *Ctx) funcDeclOf(rel, name string) (*ast.FuncDecl, *packages.Package) {
	p := c.pkg(rel)
	if p == nil {
		return nil, nil
	}
	recv := ""
	if i := strings.Index(name, "."); i >= 0 {
		recv = strings.TrimPrefix(name[:i], "*")
		name = name[i+1:]
	}
	for _, f := range p.Syntax {
		for _, d := range f.Decls {
			fd, ok := d.(*ast.FuncDecl)
			if !ok || fd.Name.Name != name {
				continue
			}
			if recv == "" {
				if fd.Recv == nil {
					return fd, p
				}
				continue
			}
			if fd.Recv == nil || len(fd.Recv.List) == 0 {
				continue
			}
			t := fd.Recv.List[0].Type
			if st, ok := t.(*ast.StarExpr); ok {
				t = st.X
			}
			if id, ok := t.(*ast.Ident); ok && id.Name == recv {
				return fd, p
			}
		}
	}
	return nil, nil
}

// ssaFunc finds the SSA function for a package-level function or "Type.Method".
func (c *Ctx) ssaFunc(rel, name string) *ssa.Function {
	sp := c.ssaPkg(rel)
	if sp == nil {
		return nil
	}
	if i := strings.Index(name, "."); i >= 0 {
		tn := strings.TrimPrefix(name[:i], "*")
		m := name[i+1:]
		obj := sp.Pkg.Scope().Lookup(tn)
		if obj == nil {
			return nil
		}
		named, ok := obj.Type().(*types.Named)
		if !ok {
			return nil
		}
		for _, T := range []types.Type{named, types.NewPointer(named)} {
			ms := c.Prog.MethodSets.MethodSet(T)
			for i := 0; i < ms.Len(); i++ {
				if ms.At(i).Obj().Name() == m {
					if fn := c.Prog.MethodValue(ms.At(i)); fn != nil {
						// prefer the declared (non-wrapper) function
						if fn.Synthetic == "" {
							return fn
						}
						if f2 := c.Prog.FuncValue(ms.At(i).Obj().(*types.Func)); f2 != nil {
							return f2
						}
						return fn
					}
				}
			}
		}
		return nil
	}
	return sp.Func(name)
}

// varInit returns the initialiser expression of a package-level variable or constant.
func (c *Ctx) varInit(rel, name string) (ast.Expr, *packages.Package) {
	p := c.pkg(rel)
	if p == nil {
		return nil, nil
	}
	for _, f := range p.Syntax {
		for _, d := range f.Decls {
			gd, ok := d.(*ast.GenDecl)
			if !ok {
				continue
			}
			for _, s := range gd.Specs {
				vs, ok := s.(*ast.ValueSpec)
				if !ok {
					continue
				}
				for i, n := range vs.Names {
					if n.Name == name && i < len(vs.Values) {
						return vs.Values[i], p
					}
				}
			}
		}
	}
	return nil, nil
}

// varInitOfObj: initialiser of a package-level var given its object (any repository package).
func (c *Ctx) varInitOfObj(obj types.Object) (ast.Expr, *packages.Package) {
	if obj == nil || obj.Pkg() == nil {
		return nil, nil
	}
	p := c.Pkgs[obj.Pkg().Path()]
	if p == nil {
		return nil, nil
	}
	for _, f := range p.Syntax {
		for _, d := range f.Decls {
			gd, ok := d.(*ast.GenDecl)
			if !ok {
				continue
			}
			for _, s := range gd.Specs {
				vs, ok := s.(*ast.ValueSpec)
				if !ok {
					continue
				}
				for i, n := range vs.Names {
					if p.TypesInfo.Defs[n] == obj && i < len(vs.Values) {
						return vs.Values[i], p
					}
				}
			}
		}
	}
	return nil, nil
}

// repoFuncs lists all SSA functions (incl. methods and anonymous functions) of repository packages.
func (c *Ctx) repoFuncs() []*ssa.Function {
	var out []*ssa.Function
	for f := range c.allFuncs {
		if f.Blocks != nil && isRepoPkgFn(f) {
			out = append(out, f)
		}
	}
	sort.Slice(out, func(i, j int) bool { return out[i].String() < out[j].String() })
	return out
}

func isRepoPkg(p *types.Package) bool {
	return p != nil && strings.HasPrefix(p.Path(), modPath)
}

// shortFn gives a stable, line-free name for a function.
func shortFn(f *ssa.Function) string {
	s := f.String()
	s = strings.ReplaceAll(s, modPath+"/", "")
	s = strings.ReplaceAll(s, modPath, "gozxing")
	return s
}

func shortObj(o types.Object) string {
	if o == nil {
		return "<nil>"
	}
	if f, ok := o.(*types.Func); ok {
		s := f.FullName()
		s = strings.ReplaceAll(s, modPath+"/", "")
		s = strings.ReplaceAll(s, modPath, "gozxing")
		return s
	}
	if o.Pkg() != nil {
		p := strings.TrimPrefix(strings.TrimPrefix(o.Pkg().Path(), modPath), "/")
		if p == "" {
			p = "gozxing"
		}
		return p + "." + o.Name()
	}
	return o.Name()
}

func repoOnly(pkgs []*packages.Package) []*packages.Package {
	var out []*packages.Package
	for _, p := range pkgs {
		if strings.HasPrefix(p.PkgPath, modPath) {
			out = append(out, p)
		}
	}
	return out
}
