package main

import (
	"crypto/sha1"
	"encoding/json"
	"fmt"
	"golang.org/x/tools/go/ssa"
	"os"
	"path/filepath"
	"sort"
	"strings"
	"time"
)

// Obligation is one rule instance: a rule applied to one resolved construct.
type Obligation struct {
	Rule string `json:"rule"`
	Key  string `json:"key"` // resolved construct (package.func / var / call-site ordinal), never a line number
	Pos  string `json:"pos"` // file:line, for the human only
	OK   bool   `json:"ok"`
	Kind string `json:"kind,omitempty"` // violation | undecided | anchor-lost | checker-failure
	Msg  string `json:"msg,omitempty"`
}

type Report struct {
	relaxCount [][]string
	movedRows  []movedRowsSpec
	prop       string
	tier       string
	seed       int
	obls       []Obligation
	seen       map[string]bool
	rules      map[string]string // rule id -> rule text
	ruleOrder  []string
	minCounts  map[string]int
	analysed   map[string]bool // functions / tables / call sites looked at
	assume     []string
	exhaustive bool
	notes      []string
	noEvidence bool
	extra      map[string]interface{}
	decidedBy  [][3]string // shape rule, deciding fold rule, why the fold covers the clause
}

func newReport(prop, tier string, seed int) *Report {
	return &Report{prop: prop, tier: tier, seed: seed, seen: map[string]bool{}, rules: map[string]string{},
		minCounts: map[string]int{}, analysed: map[string]bool{}, exhaustive: false, extra: map[string]interface{}{}}
}

// Rule declares a rule (id + text) and the minimum number of instances confirmed by hand.
func (r *Report) Rule(id, text string, min int) {
	if _, ok := r.rules[id]; !ok {
		r.ruleOrder = append(r.ruleOrder, id)
	}
	r.rules[id] = text
	r.minCounts[id] = min
}

func (r *Report) add(o Obligation) {
	k := o.Rule + "|" + o.Key
	if r.seen[k] {
		// same construct reported twice under one rule: keep the failing one
		for i := range r.obls {
			if r.obls[i].Rule+"|"+r.obls[i].Key == k {
				if r.obls[i].OK && !o.OK {
					r.obls[i] = o
				}
				return
			}
		}
	}
	r.seen[k] = true
	r.obls = append(r.obls, o)
}

func (r *Report) Pass(rule, key, pos, msg string) {
	r.add(Obligation{Rule: rule, Key: key, Pos: pos, OK: true, Msg: msg})
}

func (r *Report) Fail(rule, key, pos, kind, msg string) {
	if kind == "" {
		kind = "violation"
	}
	r.add(Obligation{Rule: rule, Key: key, Pos: pos, OK: false, Kind: kind, Msg: msg})
}

// Check records pass or violation.
func (r *Report) Check(ok bool, rule, key, pos, msg string) bool {
	if ok {
		r.Pass(rule, key, pos, "")
	} else {
		r.Fail(rule, key, pos, "violation", msg)
	}
	return ok
}

func (r *Report) Undecided(rule, key, pos, msg string) {
	r.Fail(rule, key, pos, "undecided", msg)
}

func (r *Report) AnchorLost(rule, key, msg string) {
	r.Fail(rule, key, "", "anchor-lost", msg)
}

func (r *Report) Analysed(s string)             { r.analysed[s] = true }
func (r *Report) Assume(s string)               { r.assume = append(r.assume, s) }
func (r *Report) Note(s string)                 { r.notes = append(r.notes, s) }
func (r *Report) Extra(k string, v interface{}) { r.extra[k] = v }

type knownFinding struct {
	Status   string `json:"status"` // "open" | "fixed"
	Property string `json:"property"`
	Rule     string `json:"rule"`
	Key      string `json:"key"`
	What     string `json:"what"`
	Commit   string `json:"commit,omitempty"`
	Line     string `json:"line,omitempty"` // the "fixed: property=<id> <commit> <what failed>" line
}

type knownFile struct {
	Comment  string         `json:"comment"`
	Findings []knownFinding `json:"findings"`
}

type replayFile struct {
	Property string `json:"property"`
	Rule     string `json:"rule"`
	Key      string `json:"key"`
	Kind     string `json:"kind"`
	Pos      string `json:"pos"`
	Msg      string `json:"msg"`
	RuleText string `json:"rule_text"`
	Replay   string `json:"replay_cmd"`
}

func loadKnown() []knownFinding {
	b, err := os.ReadFile(filepath.Join(verifDir, "known_findings.json"))
	if err != nil {
		return nil
	}
	var kf knownFile
	if err := json.Unmarshal(b, &kf); err != nil {
		fmt.Fprintf(os.Stderr, "known_findings.json: %v\n", err)
		return nil
	}
	return kf.Findings
}

// DecidedBy registers that the clause a shape rule (a matcher over the syntax of one implementation) stands for is
// decided semantically by a fold rule of the same run: when the matcher does not recognise the code - after a
// refactoring - but the fold rule holds on its whole declared domain, the shape rule's obligations are discharged by
// it. A genuine deviation makes the fold rule fail too, and then nothing is discharged.
func (r *Report) DecidedBy(shapeRule, foldRule, why string) {
	r.decidedBy = append(r.decidedBy, [3]string{shapeRule, foldRule, why})
}

// DecidedByKeys is DecidedBy restricted to the obligations of the shape rule whose key ends in one of the suffixes
// (the others are decided by folds of their own and stand).
func (r *Report) DecidedByKeys(shapeRule, foldRule, why string, suffixes ...string) {
	r.decidedBy = append(r.decidedBy, [3]string{shapeRule + "\x00" + strings.Join(suffixes, "\x00"), foldRule, why})
}

// DecidedWhenUndecided is DecidedByKeys for a shape rule that is itself a fold of a fragment of the function: only
// its "undecided" obligations (the fragment was not found or left the foldable language) are discharged by the whole
// fold; a deviation the fragment fold reports stands.
func (r *Report) DecidedWhenUndecided(shapeRule, foldRule, why string, suffixes ...string) {
	r.decidedBy = append(r.decidedBy, [3]string{shapeRule + "\x00" + strings.Join(suffixes, "\x00") + "\x00\x01undecided", foldRule, why})
}

// RelaxCountWhen says that every obligation of a shape rule is covered by one of the given fold rules (through
// DecidedByKeys): when all of them hold on their whole domains, the number of constructs the matcher recognised says
// nothing, and the rule's instance minimum is dropped.
func (r *Report) RelaxCountWhen(shapeRule string, foldRules ...string) {
	r.relaxCount = append(r.relaxCount, append([]string{shapeRule}, foldRules...))
}

func (r *Report) foldHolds(fold string) bool {
	n := 0
	for _, o := range r.obls {
		if o.Rule == fold {
			n++
			if !o.OK {
				return false
			}
		}
	}
	return n > 0 && n >= r.minCounts[fold]
}

func (r *Report) applyDecidedBy() {
	defer func() {
		for _, rc := range r.relaxCount {
			all := true
			for _, f := range rc[1:] {
				all = all && r.foldHolds(f)
			}
			if all {
				r.minCounts[rc[0]] = 0
			}
		}
	}()
	for _, d := range r.decidedBy {
		shape, fold, why := d[0], d[1], d[2]
		var suffixes []string
		onlyUndecided := false
		if parts := strings.Split(shape, "\x00"); len(parts) > 1 {
			shape, suffixes = parts[0], parts[1:]
			if suffixes[len(suffixes)-1] == "\x01undecided" {
				onlyUndecided, suffixes = true, suffixes[:len(suffixes)-1]
			}
		}
		covered := func(key string) bool {
			if suffixes == nil {
				return true
			}
			for _, sfx := range suffixes {
				if strings.HasSuffix(key, sfx) {
					return true
				}
			}
			return false
		}
		// (a decider written "A+B" is two fold rules that must both hold: one per side of an agreement)
		holds := true
		for _, f := range strings.Split(fold, "+") {
			holds = holds && r.foldHolds(f)
		}
		if !holds {
			continue
		}
		failing := 0
		for i := range r.obls {
			o := &r.obls[i]
			if o.Rule == shape && !o.OK && covered(o.Key) && (!onlyUndecided || o.Kind == "undecided") {
				failing++
				o.Msg = fmt.Sprintf("the matcher does not recognise this code (%s: %s); the clause is decided by %s, which holds on its whole domain (%s)", o.Kind, o.Msg, fold, why)
				o.OK, o.Kind = true, ""
			}
		}
		// the matcher's instance count says nothing once the fold has decided
		if suffixes == nil {
			r.minCounts[shape] = 0
		}
		if failing > 0 {
			r.Note(fmt.Sprintf("%s: %d obligation(s) whose code the matcher did not recognise were decided by %s", shape, failing, fold))
		}
	}
}

// MovedRows registers a frozen table (keys "function:kind#ordinal") of a rule for the helper transfer: a failing site
// that lies in an unexported function called from exactly one function (which may itself be such a helper, up to three
// levels) takes over a row the table holds for that function and kind when the site the row names no longer exists -
// the statement was moved into the helper, and the row's reason goes with it.
func (r *Report) MovedRows(rule string, frozen map[string]string) {
	r.movedRows = append(r.movedRows, movedRowsSpec{rule, frozen})
}

type movedRowsSpec struct {
	rule   string
	frozen map[string]string
}

func (r *Report) applyMovedRows(c *Ctx) {
	if len(r.movedRows) == 0 || c == nil {
		return
	}
	byName := map[string]*ssa.Function{}
	for _, f := range c.repoFuncs() {
		byName[shortFn(f)] = f
	}
	cg := c.CG()
	for _, spec := range r.movedRows {
		present, taken := map[string]bool{}, map[string]bool{}
		for _, o := range r.obls {
			if o.Rule == spec.rule {
				present[o.Key] = true
			}
		}
		for i := range r.obls {
			o := &r.obls[i]
			if o.Rule != spec.rule || o.OK || o.Kind != "violation" {
				continue
			}
			colon, hash := strings.LastIndex(o.Key, ":"), strings.LastIndex(o.Key, "#")
			if colon < 0 || hash < colon {
				continue
			}
			kind := o.Key[colon+1 : hash]
			f := byName[o.Key[:colon]]
			// the same function first: when another site of the function moved out, the ordinals of the ones that stay
			// shift down, and a row of the function is left without its site
			same := ""
			for k := 0; k < 12; k++ {
				cand := fmt.Sprintf("%s:%s#%d", o.Key[:colon], kind, k)
				if _, ok := spec.frozen[cand]; ok && !present[cand] && !taken[cand] {
					same = cand
					break
				}
			}
			if same != "" {
				taken[same] = true
				o.Msg = fmt.Sprintf("frozen: (row %s of this function: the ordinals shifted when another site of it moved) %s", same, spec.frozen[same])
				o.OK, o.Kind = true, ""
				continue
			}
			for depth := 0; depth < 3 && f != nil; depth++ {
				if f.Object() == nil || f.Object().Exported() {
					break
				}
				n := cg.Nodes[f]
				if n == nil {
					break
				}
				callers := map[*ssa.Function]bool{}
				for _, e := range n.In {
					if e.Caller.Func != f {
						callers[e.Caller.Func] = true
					}
				}
				if len(callers) != 1 {
					break
				}
				var caller *ssa.Function
				for cf := range callers {
					caller = cf
				}
				row := ""
				for k := 0; k < 12; k++ {
					cand := fmt.Sprintf("%s:%s#%d", shortFn(caller), kind, k)
					if _, ok := spec.frozen[cand]; ok && !present[cand] && !taken[cand] {
						row = cand
						break
					}
				}
				if row != "" {
					taken[row] = true
					o.Msg = fmt.Sprintf("frozen: (row %s, whose site now lies in this helper of that function) %s", row, spec.frozen[row])
					o.OK, o.Kind = true, ""
					break
				}
				f = caller
			}
		}
	}
}

func (r *Report) finish(start time.Time, c *Ctx) int {
	r.applyMovedRows(c)
	r.applyDecidedBy()
	// instance minima
	counts := map[string]int{}
	for _, o := range r.obls {
		counts[o.Rule]++
	}
	for _, id := range r.ruleOrder {
		if counts[id] < r.minCounts[id] {
			r.Fail(id, "instance-count", "", "anchor-lost",
				fmt.Sprintf("rule %s matched %d instances, fewer than the %d confirmed by hand on the pinned tree: an anchor moved or the matcher no longer recognises the code", id, counts[id], r.minCounts[id]))
		}
	}
	sort.SliceStable(r.obls, func(i, j int) bool {
		if r.obls[i].Rule != r.obls[j].Rule {
			return r.obls[i].Rule < r.obls[j].Rule
		}
		return r.obls[i].Key < r.obls[j].Key
	})

	known := loadKnown()
	if os.Getenv("GZCHECK_CHILD") != "" {
		known = nil // self-test child runs judge a mutated scratch tree: nothing is suppressed
	}
	isKnown := func(o Obligation) *knownFinding {
		for i := range known {
			k := &known[i]
			if k.Status == "open" && k.Property == r.prop && k.Rule == o.Rule && k.Key == o.Key {
				return k
			}
		}
		return nil
	}

	nviol := 0
	nknown := 0
	discharged := 0
	replayDir := filepath.Join(verifDir, "replay", r.prop)
	if !r.noEvidence {
		_ = os.RemoveAll(replayDir)
	}
	for _, o := range r.obls {
		if o.OK {
			discharged++
			continue
		}
		if k := isKnown(o); k != nil {
			nknown++
			fmt.Printf("KNOWN-FINDING: property=%s %s [%s %s] %s\n", r.prop, k.What, o.Rule, o.Key, o.Pos)
			continue
		}
		nviol++
		h := sha1.Sum([]byte(o.Rule + "|" + o.Key))
		name := fmt.Sprintf("%s-%x.json", sanitize(o.Rule), h[:4])
		path := filepath.Join(replayDir, name)
		if !r.noEvidence {
			mustMkdir(replayDir)
			rp := replayFile{Property: r.prop, Rule: o.Rule, Key: o.Key, Kind: o.Kind, Pos: o.Pos, Msg: o.Msg,
				RuleText: r.rules[o.Rule], Replay: "./bin/gzcheck -replay " + path}
			b, _ := json.MarshalIndent(rp, "", " ")
			_ = os.WriteFile(path, append(b, '\n'), 0o644)
		}
		fmt.Printf("%s: [%s/%s] %s: %s\n", o.Pos, o.Rule, o.Kind, o.Key, o.Msg)
		fmt.Printf("VIOLATION property=%s replay=%s\n", r.prop, path)
	}

	wall := time.Since(start).Seconds()
	if !r.noEvidence {
		r.writeEvidence(counts, discharged, nviol, nknown, wall, c)
	}
	fmt.Printf("%s %s: %d obligations, %d discharged, %d known findings, %d violations, %.1fs\n",
		r.prop, r.tier, len(r.obls), discharged, nknown, nviol, wall)
	if nviol > 0 {
		return 1
	}
	return 0
}

func sanitize(s string) string {
	return strings.Map(func(c rune) rune {
		if c >= 'a' && c <= 'z' || c >= 'A' && c <= 'Z' || c >= '0' && c <= '9' || c == '-' || c == '_' {
			return c
		}
		return '_'
	}, s)
}

func (r *Report) writeEvidence(counts map[string]int, discharged, nviol, nknown int, wall float64, c *Ctx) {
	var expl []string
	ruleInst := map[string]interface{}{}
	for _, id := range r.ruleOrder {
		expl = append(expl, id+": "+r.rules[id])
		ruleInst[id] = map[string]int{"instances": counts[id], "minimum": r.minCounts[id]}
	}
	// samples: up to 3 obligations per rule, written out
	var samples []interface{}
	per := map[string]int{}
	for _, o := range r.obls {
		if per[o.Rule] >= 3 {
			continue
		}
		per[o.Rule]++
		samples = append(samples, o)
	}
	var failing []Obligation
	for _, o := range r.obls {
		if !o.OK {
			failing = append(failing, o)
		}
	}
	analysed := make([]string, 0, len(r.analysed))
	for s := range r.analysed {
		analysed = append(analysed, s)
	}
	sort.Strings(analysed)
	distinct := map[string]bool{}
	for _, o := range r.obls {
		distinct[o.Rule+"|"+o.Key] = true
	}
	cov := map[string]interface{}{
		"explanation":         "Static analysis of /repo's current source (go/packages + go/types + go/ssa; nothing from /repo is executed). Rules applied:\n" + strings.Join(expl, "\n"),
		"obligations":         len(r.obls),
		"discharged":          discharged,
		"evaluations":         len(r.obls),
		"distinct_nontrivial": len(distinct),
		"rule":                "one obligation per (rule, resolved construct); distinct = distinct (rule, construct key) pairs; all are non-trivial in that each names a concrete table cell, call site, function exit or path in the current source",
		"rule_instances":      ruleInst,
		"analysed":            analysed,
		"samples":             samples,
		"exhaustive":          r.exhaustive,
		"known_findings":      nknown,
		"failing":             failing,
		"checker_cmd":         fmt.Sprintf("./bin/gzcheck -prop %s -tier %s", r.prop, r.tier),
		"trusted_base":        []string{"go/parser, go/types, golang.org/x/tools/go/ssa v0.29.0", "the reference data embedded in /verif/checker (provenance in comments)", "the checker's own rule code"},
	}
	if c != nil {
		cov["packages_loaded"] = len(c.Pkgs)
		cov["functions_in_program"] = c.NumFuncs
		cov["constructs_normalised_at_load"] = c.Canon // comparisons reoriented, update statements and if-else forms rewritten (canon.go)
	}
	for k, v := range r.extra {
		cov[k] = v
	}
	if len(r.notes) > 0 {
		cov["notes"] = r.notes
	}
	ev := map[string]interface{}{
		"property_id": r.prop,
		"tier":        r.tier,
		"seed":        r.seed,
		"level":       "other",
		"coverage":    cov,
		"assumptions": append([]string{"the Go type checker and SSA builder represent the source faithfully", "no unsafe, cgo, reflection-based mutation or go:linkname in the repository (asserted by the loader)"}, r.assume...),
		"wall_s":      wall,
		"violations":  nviol,
	}
	mustMkdir(filepath.Join(verifDir, "evidence"))
	b, _ := json.MarshalIndent(ev, "", " ")
	_ = os.WriteFile(filepath.Join(verifDir, "evidence", r.prop+".json"), append(b, '\n'), 0o644)
}
