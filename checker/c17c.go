package main

import (
	"fmt"
	"go/ast"
	"go/token"
	"go/types"
	"math/big"
	"regexp"
	"sort"
	"strings"

	"golang.org/x/tools/go/packages"
	"golang.org/x/tools/go/ssa"
	"golang.org/x/tools/go/types/typeutil"
)

type pixRead struct {
	ix    *ast.IndexExpr
	base  *Poly
	index *Poly
	conds []symCond
	env   map[types.Object]*Poly
}

type setCall struct {
	call  *ast.CallExpr
	args  []*Poly
	conds []symCond
	last  *pixRead // the last luminance read before the call
}

// liftPixels lifts fd recording byte-slice reads and BitMatrix.Set / BitArray.Set calls.
func liftPixels(c *Ctx, fd *ast.FuncDecl, p *packages.Package, pure func(types.Object) bool) (*symExec, []pixRead, []setCall) {
	s := c.newSymExec(p)
	s.pure = pure
	var reads []pixRead
	var sets []setCall
	s.onIndex = func(s *symExec, ix *ast.IndexExpr, base, index *Poly) {
		t := p.TypesInfo.TypeOf(ix.X)
		if t == nil {
			return
		}
		if sl, ok := t.Underlying().(*types.Slice); ok {
			if b, isB := sl.Elem().Underlying().(*types.Basic); isB && b.Kind() == types.Uint8 {
				reads = append(reads, pixRead{ix, base, index, append([]symCond(nil), s.conds...), s.copyEnv()})
			}
		}
	}
	s.onCall = func(s *symExec, call *ast.CallExpr, callee types.Object) {
		if isMethodNamed(callee, "", "BitMatrix", "Set") || isMethodNamed(callee, "", "BitArray", "Set") {
			sc := setCall{call: call, conds: append([]symCond(nil), s.conds...)}
			// arguments are evaluated with hooks off to avoid recording reads twice
			oi := s.onIndex
			s.onIndex = nil
			for _, a := range call.Args {
				sc.args = append(sc.args, s.expr(a))
			}
			s.onIndex = oi
			if len(reads) > 0 {
				rd := reads[len(reads)-1]
				sc.last = &rd
			}
			sets = append(sets, sc)
		}
	}
	s.block(fd.Body.List)
	return s, reads, sets
}

func unmask(s string) string {
	if strings.HasPrefix(s, "&(") && strings.HasSuffix(s, ",255)") {
		return s[2 : len(s)-5]
	}
	return s
}

var minAtomRe = regexp.MustCompile(`^min\(`)

// ---------------------------------------------------------------------------------------------------------------
// S-PIXMAP
// ---------------------------------------------------------------------------------------------------------------

func checkPixelMaps(c *Ctx, r *Report) {
	r.Rule("S-PIXMAP", "wherever a binariser turns a luminance read into a black bit, the read index and the bit's coordinates agree (index = y*stride + x with the matrix's own width as stride); the block offsets are min(8*k, size-8) in both passes of the local method, every block read is (yoffset+a)*width + xoffset+b with a, b loop counters only, and the 5x5 neighbourhood is blackPoints[cap(y,2,subHeight-3)+z][cap(x,2,subWidth-3)+d] for z, d in -2..2 averaged over 25", 7)
	hybPure := func(o types.Object) bool {
		fn, ok := o.(*types.Func)
		return ok && (fn.Name() == "cap" || gettersPure(o))
	}
	// (A) thresholdBlock
	if fd, p := c.funcDeclOf("", "HybridBinarizer.thresholdBlock"); fd != nil {
		key := "gozxing.HybridBinarizer.thresholdBlock"
		r.Analysed(key)
		ps := paramObjs(p, fd)
		_, _, sets := liftPixels(c, fd, p, hybPure)
		if len(sets) != 1 || sets[0].last == nil || len(ps) < 6 {
			r.Fail("S-PIXMAP", key, c.pos(fd.Pos()), "violation", "expected one matrix.Set guarded by one luminance read")
		} else {
			sc := sets[0]
			stride := polyAtom(objAtom(ps[4]))
			want := sc.args[1].mul(stride).add(sc.args[0])
			ok := sc.last.index.equal(want)
			// and the coordinates are the block origin plus the two counters
			ks := kAtomsOf(sc.args[0], sc.args[1])
			xo, yo := polyAtom(objAtom(ps[1])), polyAtom(objAtom(ps[2]))
			okc := len(ks) == 2 && ((sc.args[0].equal(xo.add(polyAtom(ks[0]))) && sc.args[1].equal(yo.add(polyAtom(ks[1])))) || (sc.args[0].equal(xo.add(polyAtom(ks[1]))) && sc.args[1].equal(yo.add(polyAtom(ks[0])))))
			switch {
			case !ok:
				r.Fail("S-PIXMAP", key, c.pos(sc.call.Pos()), "violation", "pixel luminances["+prettyPoly(sc.last.index)+"] decides bit ("+prettyPoly(sc.args[0])+", "+prettyPoly(sc.args[1])+"); with stride "+prettyPoly(stride)+" that bit's pixel is at "+prettyPoly(want))
			case !okc:
				r.Fail("S-PIXMAP", key, c.pos(sc.call.Pos()), "violation", "the bit set must be (xoffset+x, yoffset+y) for the two block counters; got ("+prettyPoly(sc.args[0])+", "+prettyPoly(sc.args[1])+")")
			default:
				r.Pass("S-PIXMAP", key, c.pos(sc.call.Pos()), "")
			}
		}
	} else {
		r.AnchorLost("S-PIXMAP", "gozxing.HybridBinarizer.thresholdBlock", "method not found")
	}
	// (B) global matrix
	if fd, p := c.funcDeclOf("", "GlobalHistogramBinarizer.GetBlackMatrix"); fd != nil {
		key := "gozxing.GlobalHistogramBinarizer.GetBlackMatrix"
		r.Analysed(key)
		s, _, sets := liftPixels(c, fd, p, gettersPure)
		var mw *Poly
		for _, cl := range s.calls {
			if isFuncNamed(cl.Callee, "", "NewBitMatrix") && len(cl.Args) == 2 {
				mw = cl.Args[0]
			}
		}
		if len(sets) != 1 || sets[0].last == nil || mw == nil {
			r.Fail("S-PIXMAP", key, c.pos(fd.Pos()), "violation", "expected NewBitMatrix(width, height) and one matrix.Set guarded by one luminance read")
		} else {
			sc := sets[0]
			want := sc.args[1].mul(mw).add(sc.args[0])
			ks := kAtomsOf(sc.args[0], sc.args[1])
			ok := sc.last.index.equal(want) && len(ks) == 2 && strings.Contains(sc.last.base.String(), "GetMatrix")
			r.Check(ok, "S-PIXMAP", key, c.pos(sc.call.Pos()), "pixel ["+prettyPoly(sc.last.index)+"] of "+prettyPoly(sc.last.base)+" decides bit ("+prettyPoly(sc.args[0])+", "+prettyPoly(sc.args[1])+") of a matrix "+prettyPoly(mw)+" wide; expected matrix[y*width+x] of the source's own matrix")
		}
	} else {
		r.AnchorLost("S-PIXMAP", "gozxing.GlobalHistogramBinarizer.GetBlackMatrix", "method not found")
	}
	// (C) block offsets and block reads in the two passes of the local method
	blockOffsets := func(name string) (xoff, yoff *Poly, s *symExec, reads []pixRead, ok bool) {
		fd, p := c.funcDeclOf("", "HybridBinarizer."+name)
		key := "gozxing.HybridBinarizer." + name + "/offsets"
		if fd == nil {
			r.AnchorLost("S-PIXMAP", key, "method not found")
			return
		}
		r.Analysed(key)
		ps := paramObjs(p, fd)
		// width, height are the 4th and 5th parameters in both passes
		if len(ps) < 5 {
			r.Undecided("S-PIXMAP", key, c.pos(fd.Pos()), "signature changed")
			return
		}
		width, height := polyAtom(objAtom(ps[3])), polyAtom(objAtom(ps[4]))
		bs, _ := constVal(p, "BLOCK_SIZE")
		s, reads, _ = liftPixels(c, fd, p, hybPure)
		// the clamped offsets: assignments whose final value is min(8*K, size-8)
		var mins []*Poly
		seen := map[string]bool{}
		collect := func(pl *Poly) {
			for mono := range pl.m {
				for _, a := range splitMono(mono) {
					if minAtomRe.MatchString(a) && !seen[a] {
						seen[a] = true
						mins = append(mins, polyAtom(a))
					}
				}
			}
		}
		for _, rd := range reads {
			collect(rd.index)
			for _, v := range rd.env {
				collect(v)
			}
		}
		for _, cl := range s.calls {
			if fn, isF := cl.Callee.(*types.Func); isF && fn.Name() == "thresholdBlock" {
				for _, a := range cl.Args {
					collect(a)
				}
			}
		}
		for _, m := range mins {
			for _, k := range kAtomsOf(m) {
				K := polyAtom(k)
				if m.equal(symMin(K.mul(polyInt(bs)), width.sub(polyInt(bs)))) {
					xoff = m
				}
				if m.equal(symMin(K.mul(polyInt(bs)), height.sub(polyInt(bs)))) {
					yoff = m
				}
			}
		}
		if xoff == nil || yoff == nil || len(mins) != 2 {
			var got []string
			for _, m := range mins {
				got = append(got, prettyPoly(m))
			}
			r.Fail("S-PIXMAP", key, c.pos(fd.Pos()), "violation", fmt.Sprintf("block offsets must be min(%d*x, width-%d) and min(%d*y, height-%d) (the last block pulled back inside the image); found %v", bs, bs, bs, bs, got))
			return
		}
		r.Pass("S-PIXMAP", key, c.pos(fd.Pos()), "")
		ok = true
		return
	}
	if xoff, yoff, _, reads, ok := blockOffsets("calculateBlackPoints"); ok {
		fd, p := c.funcDeclOf("", "HybridBinarizer.calculateBlackPoints")
		key := "gozxing.HybridBinarizer.calculateBlackPoints/reads"
		widthObj := paramObjs(p, fd)[3]
		bs, _ := constVal(p, "BLOCK_SIZE")
		bad := checkBlockWalk(c, p, fd, reads, xoff, yoff, widthObj, bs)
		if bad != "" && bad[0] == '?' {
			r.Undecided("S-PIXMAP", key, c.pos(fd.Pos()), bad[1:])
		} else {
			r.Check(bad == "", "S-PIXMAP", key, c.pos(fd.Pos()), bad)
		}
	}
	if xoff, yoff, s, _, ok := blockOffsets("calculateThresholdForBlock"); ok {
		fd, p := c.funcDeclOf("", "HybridBinarizer.calculateThresholdForBlock")
		ps := paramObjs(p, fd)
		key := "gozxing.HybridBinarizer.calculateThresholdForBlock/call"
		width := polyAtom(objAtom(ps[3]))
		found := false
		for _, cl := range s.calls {
			if fn, isF := cl.Callee.(*types.Func); isF && fn.Name() == "thresholdBlock" && len(cl.Args) == 6 {
				found = true
				ok := cl.Args[1].equal(xoff) && cl.Args[2].equal(yoff) && cl.Args[4].equal(width) && cl.Args[0].equal(polyAtom(objAtom(ps[0]))) && cl.Args[5].equal(polyAtom(objAtom(ps[6])))
				r.Check(ok, "S-PIXMAP", key, c.pos(cl.Call.Pos()), "thresholdBlock must receive (luminances, xoffset, yoffset, average, width, matrix); got offsets ("+prettyPoly(cl.Args[1])+", "+prettyPoly(cl.Args[2])+") stride "+prettyPoly(cl.Args[4]))
			}
		}
		if !found {
			r.Fail("S-PIXMAP", key, c.pos(fd.Pos()), "violation", "thresholdBlock is not called")
		}
		checkWindow(c, r, fd, p)
	}
}

// checkWindow: the 5x5 neighbourhood of calculateThresholdForBlock.
func checkWindow(c *Ctx, r *Report, fd *ast.FuncDecl, p *packages.Package) {
	key := "gozxing.HybridBinarizer.calculateThresholdForBlock/window"
	ps := paramObjs(p, fd)
	subW, subH := polyAtom(objAtom(ps[1])), polyAtom(objAtom(ps[2]))
	s := c.newSymExec(p)
	s.pure = func(o types.Object) bool {
		fn, ok := o.(*types.Func)
		return ok && fn.Name() == "cap"
	}
	type rd struct{ base, index *Poly }
	var reads []rd
	s.onIndex = func(s *symExec, ix *ast.IndexExpr, base, index *Poly) {
		t := p.TypesInfo.TypeOf(ix.X)
		if sl, ok := t.Underlying().(*types.Slice); ok {
			if b, isB := sl.Elem().Underlying().(*types.Basic); isB && b.Kind() == types.Int {
				reads = append(reads, rd{base, index})
			}
		}
	}
	s.block(fd.Body.List)
	// cap atoms
	var capX, capY *Poly
	for _, cl := range s.calls {
		if fn, ok := cl.Callee.(*types.Func); ok && fn.Name() == "cap" && len(cl.Args) == 3 && cl.Recv != nil {
			a := polyAtom("call:" + shortObj(cl.Callee) + "(" + cl.Recv.String() + ";" + cl.Args[0].String() + ";" + cl.Args[1].String() + ";" + cl.Args[2].String() + ")")
			two, okTwo := cl.Args[1].isConst()
			if !okTwo || two.Cmp(big.NewRat(2, 1)) != 0 || len(kAtomsOf(cl.Args[0])) != 1 || !cl.Args[0].equal(polyAtom(kAtomsOf(cl.Args[0])[0])) {
				continue
			}
			if cl.Args[2].equal(subW.sub(polyInt(3))) {
				capX = a
			}
			if cl.Args[2].equal(subH.sub(polyInt(3))) {
				capY = a
			}
		}
	}
	if capX == nil || capY == nil {
		r.Fail("S-PIXMAP", key, c.pos(fd.Pos()), "violation", "the window centre must be cap(x, 2, subWidth-3) / cap(y, 2, subHeight-3) of the block counters")
		return
	}
	offs := map[string]bool{}
	bad := ""
	for _, x := range reads {
		d := x.index.sub(capX)
		dc, isC := d.isConst()
		if !isC {
			bad = "a black-point read uses column " + prettyPoly(x.index) + ", not the capped centre plus a constant"
			break
		}
		offs[dc.RatString()] = true
		// row: blackPoints[capY + z], z = -2 + K
		bs := x.base.String()
		okRow := false
		for _, k := range kAtomsOf(x.base) {
			want := "idx(" + polyAtom(objAtom(ps[5])).String() + "," + capY.sub(polyInt(2)).add(polyAtom(k)).String() + ")"
			if bs == want {
				okRow = true
			}
		}
		if !okRow {
			bad = "a black-point read uses row " + prettyPoly(x.base) + ", expected blackPoints[cap(y,2,subHeight-3) + z] with z counting from -2"
			break
		}
	}
	if bad == "" {
		for _, w := range []string{"-2", "-1", "0", "1", "2"} {
			if !offs[w] {
				bad = "column offset " + w + " of the 5-wide window is not read"
			}
		}
		if len(offs) != 5 && bad == "" {
			bad = fmt.Sprintf("%d distinct column offsets read, expected the 5 offsets -2..2", len(offs))
		}
	}
	// z range and the divisor
	if bad == "" {
		okZ := false
		ast.Inspect(fd.Body, func(n ast.Node) bool {
			if l, ok := n.(*ast.ForStmt); ok {
				if lr, isR := loopVarRange(p, l); isR && lr.lo == -2 && lr.hi == 3 {
					okZ = true
				}
			}
			return true
		})
		if !okZ {
			bad = "the row loop of the window must run z = -2..2"
		}
	}
	if bad == "" {
		okDiv := false
		for _, a := range s.assigns {
			if strings.HasPrefix(a.Val.String(), "idiv(") && strings.HasSuffix(a.Val.String(), ",25)") {
				okDiv = true
			}
		}
		if !okDiv {
			bad = "the threshold must be the window sum divided by 25"
		}
	}
	r.Check(bad == "", "S-PIXMAP", key, c.pos(fd.Pos()), bad)
	// cap itself is the clamp
	keyC := "gozxing.HybridBinarizer.cap"
	if cfd, cp := c.funcDeclOf("", "HybridBinarizer.cap"); cfd != nil {
		r.Analysed(keyC)
		badC := ""
		for v := int64(-3); v <= 12 && badC == ""; v++ {
			res, err := c.rpfCall(cfd, cp, []*Val{vint(v), vint(2), vint(7)}, nil)
			want := v
			if want < 2 {
				want = 2
			}
			if want > 7 {
				want = 7
			}
			if err != nil {
				badC = "?" + err.Error()
			} else if len(res) != 1 || res[0].K != VInt || res[0].I != want {
				badC = fmt.Sprintf("cap(%d, 2, 7) = %s, expected %d", v, valString(res[0]), want)
			}
		}
		if badC != "" && badC[0] == '?' {
			r.Undecided("S-PIXMAP", keyC, c.pos(cfd.Pos()), badC[1:])
		} else {
			r.Check(badC == "", "S-PIXMAP", keyC, c.pos(cfd.Pos()), badC)
		}
	} else {
		r.AnchorLost("S-PIXMAP", keyC, "method not found")
	}
}

// ---------------------------------------------------------------------------------------------------------------
// S-THRESH: the comparators and the low-contrast rule on which exact binarisation of bilevel images rests
// ---------------------------------------------------------------------------------------------------------------

func checkThresholds(c *Ctx, r *Report) {
	r.Rule("S-THRESH", "comparators and threshold values: the local method blackens a pixel iff luminance <= block threshold; a low-contrast block (max-min <= MIN_DYNAMIC_RANGE) gets min/2, raised to the neighbours' (up + 2*left + upleft)/4 only when min is below it, other blocks sum>>6; the global method blackens iff luminance < black point, indexes buckets by byte >> LUMINANCE_SHIFT and returns valley << LUMINANCE_SHIFT. With these, a pure black pixel (0) is below every threshold and a pure white one (255) above", 5)
	shift, _ := constVal(c.pkg(""), "LUMINANCE_SHIFT")
	// local comparator
	if fd, p := c.funcDeclOf("", "HybridBinarizer.thresholdBlock"); fd != nil {
		key := "gozxing.HybridBinarizer.thresholdBlock/compare"
		r.Analysed(key)
		ps := paramObjs(p, fd)
		_, _, sets := liftPixels(c, fd, p, nil)
		ok := false
		if len(sets) == 1 && sets[0].last != nil && len(sets[0].conds) > 0 {
			cd := sets[0].conds[len(sets[0].conds)-1]
			pix := "idx(" + sets[0].last.base.String() + "," + sets[0].last.index.String() + ")"
			thr := polyAtom(objAtom(ps[3]))
			for _, l := range []string{pix, "&(" + pix + ",255)"} {
				if condIs(cd, token.LEQ, polyAtom(l), thr) {
					ok = true
				}
			}
		}
		r.Check(ok, "S-THRESH", key, c.pos(fd.Pos()), "a pixel must be set black exactly when luminance <= threshold: with `<` an all-black block (threshold 0) would come out white")
	} else {
		r.AnchorLost("S-THRESH", "gozxing.HybridBinarizer.thresholdBlock/compare", "method not found")
	}
	// global comparators
	for _, m := range []string{"GetBlackMatrix", "GetBlackRow"} {
		fd, p := c.funcDeclOf("", "GlobalHistogramBinarizer."+m)
		key := "gozxing.GlobalHistogramBinarizer." + m + "/compare"
		if fd == nil {
			r.AnchorLost("S-THRESH", key, "method not found")
			continue
		}
		r.Analysed(key)
		s, reads, sets := liftPixels(c, fd, p, gettersPure)
		bad := ""
		nDirect := 0
		for _, sc := range sets {
			if len(sc.conds) == 0 {
				bad = "a bit is set unconditionally"
				break
			}
			cd := sc.conds[len(sc.conds)-1]
			if cd.op == token.ILLEGAL || !strings.Contains(cd.r.String(), "estimateBlackPoint") {
				bad = "the bit must be set under `value < blackPoint` with the black point of estimateBlackPoint; got " + cd.String()
				break
			}
			op := cd.op
			if cd.neg {
				bad = "negated comparison"
				break
			}
			if op != token.LSS {
				bad = "the global method blackens strictly below the black point (operator " + op.String() + " found)"
				break
			}
			l := unmask(cd.l.String())
			if strings.HasPrefix(l, "idx(") {
				nDirect++
				// plain threshold: the compared pixel is the pixel of the bit's x
				if m == "GetBlackRow" && !(strings.HasSuffix(l, ","+sc.args[0].String()+")")) {
					bad = "the pixel compared is " + prettyPoly(cd.l) + " but bit " + prettyPoly(sc.args[0]) + " is set"
				}
			}
		}
		// bucket indexing
		nb := 0
		for _, st := range s.stores {
			_ = st
		}
		ast.Inspect(fd.Body, func(n ast.Node) bool {
			if inc, ok := n.(*ast.IncDecStmt); ok {
				if ix, isIx := inc.X.(*ast.IndexExpr); isIx {
					if be, isB := ast.Unparen(ix.Index).(*ast.BinaryExpr); isB && be.Op == token.SHR {
						nb++
						if v, isK := constInt(p, be.Y); !isK || v != shift {
							bad = "histogram bucket index must be luminance >> LUMINANCE_SHIFT"
						}
					} else if id := identObj(p, ix.Index); id == nil {
						bad = "histogram bucket index is not a shifted luminance"
					}
				}
			}
			return true
		})
		_ = reads
		if bad == "" && nb == 0 {
			// GetBlackMatrix computes `pixel >> SHIFT` on a variable: accept a shift by the constant anywhere in an index
			ast.Inspect(fd.Body, func(n ast.Node) bool {
				if be, ok := n.(*ast.BinaryExpr); ok && be.Op == token.SHR {
					if v, isK := constInt(p, be.Y); isK && v == shift {
						nb++
					}
				}
				return true
			})
			if nb == 0 {
				bad = "no luminance >> LUMINANCE_SHIFT bucket index found"
			}
		}
		r.Check(bad == "", "S-THRESH", key, c.pos(fd.Pos()), bad)
	}
	// estimateBlackPoint result scale
	if fd, p := c.funcDeclOf("", "GlobalHistogramBinarizer.estimateBlackPoint"); fd != nil {
		key := "gozxing.GlobalHistogramBinarizer.estimateBlackPoint/scale"
		r.Analysed(key)
		s := c.newSymExec(p)
		s.block(fd.Body.List)
		ok := false
		for _, rt := range s.rets {
			if len(rt.Vals) == 2 && strings.HasPrefix(rt.Vals[1].String(), "nil") {
				// value = 2^shift * atom
				if len(rt.Vals[0].m) == 1 {
					for mono, coef := range rt.Vals[0].m {
						if mono != "" && coef.Cmp(big.NewRat(int64(1)<<uint(shift), 1)) == 0 {
							ok = true
						}
					}
				}
			}
		}
		r.Check(ok, "S-THRESH", key, c.pos(fd.Pos()), "the black point must be the valley bucket << LUMINANCE_SHIFT (bucket index back to the luminance scale)")
	} else {
		r.AnchorLost("S-THRESH", "gozxing.GlobalHistogramBinarizer.estimateBlackPoint/scale", "method not found")
	}
	// low-contrast rule
	fd, p := c.funcDeclOf("", "HybridBinarizer.calculateBlackPoints")
	key := "gozxing.HybridBinarizer.calculateBlackPoints/blackpoint"
	if fd == nil {
		r.AnchorLost("S-THRESH", key, "method not found")
		return
	}
	r.Analysed(key)
	pw, _ := constVal(p, "BLOCK_SIZE_POWER")
	rng, _ := constVal(p, "MIN_DYNAMIC_RANGE")
	s := c.newSymExec(p)
	s.block(fd.Body.List)
	// the store blackPoints[y][x] = average
	var avgObj types.Object
	for _, st := range s.stores {
		if strings.HasPrefix(st.Base.String(), "idx(") && st.Loop == 2 {
			if id := identObj(p, st.Stmt.(*ast.AssignStmt).Rhs[0]); id != nil {
				avgObj = id
			}
		}
	}
	if avgObj == nil {
		r.Fail("S-THRESH", key, c.pos(fd.Pos()), "violation", "the block's black point store blackPoints[y][x] = <variable> not found")
		return
	}
	var hasShift, hasHalf, hasNeighbour bool
	why := ""
	for _, a := range s.assigns {
		if a.Obj != avgObj {
			continue
		}
		v := a.Val.String()
		low := func() (mn, mx *Poly, ok bool) {
			for _, cd := range a.Conds {
				if cd.op == token.LEQ && !cd.neg {
					if rc, isC := cd.r.isConst(); isC && rc.Cmp(big.NewRat(int64(rng), 1)) == 0 && len(cd.l.m) == 2 {
						// max - min
						for mono, coef := range cd.l.m {
							if coef.Sign() > 0 {
								mx = polyAtom(mono)
							} else {
								mn = polyAtom(mono)
							}
						}
						if mn != nil && mx != nil {
							return mn, mx, true
						}
					}
				}
			}
			return nil, nil, false
		}
		switch {
		case strings.HasPrefix(v, "shr(") && strings.HasSuffix(v, fmt.Sprintf(",%d)", 2*pw)):
			hasShift = true
			if _, _, isLow := low(); isLow {
				why = "the sum>>6 average must be the default, not part of the low-contrast branch"
			}
		default:
			mn, _, isLow := low()
			if !isLow {
				why = "black point assigned " + prettyPoly(a.Val) + " outside the low-contrast condition max-min <= MIN_DYNAMIC_RANGE"
				continue
			}
			if a.Val.equal(symDiv("idiv", mn, polyInt(2))) || v == "shr("+mn.String()+",1)" {
				hasHalf = true
				continue
			}
			// neighbour average under min < navg, y > 0, x > 0
			okN := false
			for _, cd := range a.Conds {
				if condIs(cd, token.LSS, mn, a.Val) {
					okN = true
				}
			}
			npos := 0
			for _, cd := range a.Conds {
				if l, rr, strict, ok := cd.lessForm(); ok && strict { // 0 < y, 0 < x
					if lc, isC := l.isConst(); isC && lc.Sign() == 0 && len(kAtomsOf(rr)) == 1 {
						npos++
					}
				}
			}
			// the neighbour formula
			nv := a.Val.String()
			isAvg := strings.HasPrefix(nv, "idiv(") && strings.HasSuffix(nv, ",4)") && strings.Count(nv, "idx(idx(") == 3
			if okN && npos >= 2 && isAvg {
				hasNeighbour = true
			} else {
				why = "low-contrast black point " + prettyPoly(a.Val) + " is neither min/2 nor the neighbour average (up + 2*left + upleft)/4 taken only when min < that average and y > 0, x > 0"
			}
		}
	}
	ok := hasShift && hasHalf && hasNeighbour && why == ""
	if why == "" && !ok {
		why = fmt.Sprintf("expected three assignments to the block's black point: sum>>%d, min/2, neighbour average (found shift=%v half=%v neighbour=%v)", 2*pw, hasShift, hasHalf, hasNeighbour)
	}
	r.Check(ok, "S-THRESH", key, c.pos(fd.Pos()), why)
}

// ---------------------------------------------------------------------------------------------------------------
// S-SHARPEN: the sliding window of the global row method
// ---------------------------------------------------------------------------------------------------------------

var loopAtomRe = regexp.MustCompile(`loop:\w+~\d+`)

func checkSharpen(c *Ctx, r *Report) {
	r.Rule("S-SHARPEN", "GetBlackRow's sharpening loop keeps the invariant left = lum[x-1], center = lum[x]: before the loop (x starting at 1) they are lum[0], lum[1]; each iteration reads right = lum[x+1], sets bit x iff (4*center - left - right)/2 < black point, then shifts left = center, center = right; the loop runs while x < width-1", 1)
	fd, p := c.funcDeclOf("", "GlobalHistogramBinarizer.GetBlackRow")
	key := "gozxing.GlobalHistogramBinarizer.GetBlackRow/sharpen"
	if fd == nil {
		r.AnchorLost("S-SHARPEN", key, "method not found")
		return
	}
	r.Analysed(key)
	s, _, sets := liftPixels(c, fd, p, gettersPure)
	// the Set whose condition is a division
	var sc *setCall
	for i := range sets {
		if len(sets[i].conds) > 0 {
			cd := sets[i].conds[len(sets[i].conds)-1]
			if cd.op != token.ILLEGAL && strings.HasPrefix(cd.l.String(), "idiv(") {
				sc = &sets[i]
			}
		}
	}
	if sc == nil {
		r.Fail("S-SHARPEN", key, c.pos(fd.Pos()), "violation", "no bit set under a (…)/2 < blackPoint comparison")
		return
	}
	cd := sc.conds[len(sc.conds)-1]
	X := sc.args[0]
	ks := kAtomsOf(X)
	if len(ks) != 1 || !X.sub(polyAtom(ks[0])).equal(polyInt(1)) {
		r.Fail("S-SHARPEN", key, c.pos(sc.call.Pos()), "violation", "the bit index must be the loop counter starting at 1; got "+prettyPoly(X))
		return
	}
	if sc.last == nil {
		r.Fail("S-SHARPEN", key, c.pos(sc.call.Pos()), "violation", "no luminance read before the comparison")
		return
	}
	lum := sc.last.base.String()
	px := func(i *Poly) string { return "idx(" + lum + "," + i.String() + ")" }
	// right
	if !sc.last.index.equal(X.add(polyInt(1))) {
		r.Fail("S-SHARPEN", key, c.pos(sc.last.ix.Pos()), "violation", "the look-ahead pixel must be lum[x+1]; got lum["+prettyPoly(sc.last.index)+"]")
		return
	}
	las := loopAtomRe.FindAllString(cd.l.String(), -1)
	uniq := map[string]bool{}
	for _, a := range las {
		uniq[a] = true
	}
	var L, C string
	found := false
	for a := range uniq {
		for b := range uniq {
			if a == b {
				continue
			}
			for _, R := range []string{px(X.add(polyInt(1))), "&(" + px(X.add(polyInt(1))) + ",255)"} {
				num := polyAtom(a).mul(polyInt(4)).sub(polyAtom(b)).sub(polyAtom(R))
				if cd.op == token.LSS && !cd.neg && cd.l.equal(symDiv("idiv", num, polyInt(2))) && strings.Contains(cd.r.String(), "estimateBlackPoint") {
					C, L, found = a, b, true
				}
			}
		}
	}
	if !found {
		r.Fail("S-SHARPEN", key, c.pos(sc.call.Pos()), "violation", "the condition must be (4*center - left - right)/2 < blackPoint; got "+prettyPoly(cd.l)+" "+cd.op.String()+" "+prettyPoly(cd.r))
		return
	}
	// carried variables: in-loop assignments
	var leftObj, centerObj types.Object
	for _, a := range s.assigns {
		if a.Loop != 1 || a.Tok != token.ASSIGN {
			continue
		}
		if a.Val.equal(polyAtom(C)) {
			leftObj = a.Obj
		}
		if u := unmask(a.Val.String()); u == px(X.add(polyInt(1))) {
			centerObj = a.Obj
		}
	}
	bad := ""
	switch {
	case leftObj == nil || !strings.HasPrefix(L, "loop:"+leftObj.Name()+"~"):
		bad = "at the end of an iteration `left` must take the old center"
	case centerObj == nil || !strings.HasPrefix(C, "loop:"+centerObj.Name()+"~"):
		bad = "at the end of an iteration `center` must take right = lum[x+1]"
	}
	// `left = center` must precede `center = right` (otherwise left would take the new center)
	if bad == "" {
		var posL, posC token.Pos
		for _, a := range s.assigns {
			if a.Loop == 1 && a.Tok == token.ASSIGN {
				if a.Obj == leftObj {
					posL = a.Stmt.Pos()
				}
				if a.Obj == centerObj {
					posC = a.Stmt.Pos()
				}
			}
		}
		if !(posL < posC) {
			bad = "`left = center` must come before `center = right`"
		}
	}
	// initial values
	if bad == "" {
		okL, okC := false, false
		for _, a := range s.assigns {
			if a.Loop != 0 {
				continue
			}
			u := unmask(a.Val.String())
			if a.Obj == leftObj && u == px(polyInt(0)) {
				okL = true
			}
			if a.Obj == centerObj && u == px(polyInt(1)) {
				okC = true
			}
		}
		if !okL || !okC {
			bad = "before the loop left must be lum[0] and center lum[1]"
		}
	}
	// loop bound
	if bad == "" {
		okB := false
		for _, cnd := range sc.conds {
			if cnd.op == token.LSS && !cnd.neg && cnd.l.equal(X) && strings.Contains(cnd.r.String(), "GetWidth") {
				if cnd.r.String() != "" && len(cnd.r.m) == 2 {
					if k, has := cnd.r.m[""]; has && k.Cmp(big.NewRat(int64(-1), 1)) == 0 {
						okB = true
					}
				}
			}
		}
		if !okB {
			bad = "the loop must run while x < width-1 (lum[x+1] is read)"
		}
	}
	r.Check(bad == "", "S-SHARPEN", key, c.pos(sc.call.Pos()), bad)
}

// ---------------------------------------------------------------------------------------------------------------
// W-CACHE: who may write the cached matrix
// ---------------------------------------------------------------------------------------------------------------

func checkMatrixCache(c *Ctx, r *Report) {
	r.Rule("W-CACHE", "the cached black matrix of HybridBinarizer and BinaryBitmap is written only by that type's GetBlackMatrix, from a matrix computed in the same call; constructors leave it nil; CreateBinarizer builds a new binarizer over the source it is given", 6)
	p := c.pkg("")
	if p == nil {
		r.AnchorLost("W-CACHE", "gozxing", "root package not found")
		return
	}
	owners := map[string]bool{"HybridBinarizer": true, "BinaryBitmap": true}
	typeNameOf := func(t types.Type) string {
		if pt, ok := t.(*types.Pointer); ok {
			t = pt.Elem()
		}
		if nt, ok := t.(*types.Named); ok {
			return nt.Obj().Name()
		}
		return ""
	}
	writes := map[string]int{}
	for _, f := range p.Syntax {
		for _, d := range f.Decls {
			fd, ok := d.(*ast.FuncDecl)
			if !ok || fd.Body == nil {
				continue
			}
			fk := fdKey(p, fd)
			ast.Inspect(fd.Body, func(n ast.Node) bool {
				switch x := n.(type) {
				case *ast.AssignStmt:
					for i, l := range x.Lhs {
						sel, isS := l.(*ast.SelectorExpr)
						if !isS || sel.Sel.Name != "matrix" {
							continue
						}
						tn := typeNameOf(p.TypesInfo.TypeOf(sel.X))
						if !owners[tn] {
							continue
						}
						key := fk + " writes " + tn + ".matrix"
						writes[tn]++
						allowed := fd.Recv != nil && fd.Name.Name == "GetBlackMatrix" && typeNameOf(p.TypesInfo.TypeOf(fd.Recv.List[0].Type)) == tn
						if !allowed {
							r.Fail("W-CACHE", key, c.pos(x.Pos()), "violation", "the cached matrix may only be written by "+tn+".GetBlackMatrix")
							continue
						}
						// the stored value: a local defined in this function from a call, or the call itself
						okVal := false
						var rhs ast.Expr
						if len(x.Rhs) == len(x.Lhs) {
							rhs = x.Rhs[i]
						} else if len(x.Rhs) == 1 {
							rhs = x.Rhs[0]
						}
						if call, isC := ast.Unparen(rhs).(*ast.CallExpr); isC {
							okVal = producesMatrix(p, call)
						} else if id := identObj(p, rhs); id != nil {
							ast.Inspect(fd.Body, func(m ast.Node) bool {
								if as, isA := m.(*ast.AssignStmt); isA && as.Tok == token.DEFINE && len(as.Rhs) == 1 {
									if identObj(p, as.Lhs[0]) == id {
										if call, isC := as.Rhs[0].(*ast.CallExpr); isC && producesMatrix(p, call) {
											okVal = true
										}
									}
								}
								return true
							})
						}
						r.Check(okVal, "W-CACHE", key+fmt.Sprintf("#%d", writes[tn]), c.pos(x.Pos()), "the cached value must be the matrix just produced by NewBitMatrix / the wrapped GetBlackMatrix in this call")
					}
				case *ast.CompositeLit:
					tn := typeNameOf(p.TypesInfo.TypeOf(x))
					if !owners[tn] {
						return true
					}
					fs := structLitFields(p, x)
					key := fk + " constructs " + tn
					if e, has := fs["matrix"]; has {
						id, isI := ast.Unparen(e).(*ast.Ident)
						r.Check(isI && id.Name == "nil", "W-CACHE", key, c.pos(x.Pos()), "a new "+tn+" must start without a cached matrix")
					} else {
						r.Pass("W-CACHE", key, c.pos(x.Pos()), "matrix left at its zero value")
					}
				}
				return true
			})
		}
	}
	for tn := range owners {
		if writes[tn] == 0 {
			r.AnchorLost("W-CACHE", tn+".matrix", "no write of the cache found")
		}
	}
	for _, t := range [][2]string{{"HybridBinarizer", "NewHybridBinarizer"}, {"GlobalHistogramBinarizer", "NewGlobalHistgramBinarizer"}} {
		key := "gozxing." + t[0] + ".CreateBinarizer"
		fd, pp := c.funcDeclOf("", t[0]+".CreateBinarizer")
		if fd == nil {
			r.AnchorLost("W-CACHE", key, "method not found")
			continue
		}
		r.Analysed(key)
		ok := false
		if len(fd.Body.List) == 1 {
			if rs, isR := fd.Body.List[0].(*ast.ReturnStmt); isR && len(rs.Results) == 1 {
				if call, isC := ast.Unparen(rs.Results[0]).(*ast.CallExpr); isC && len(call.Args) == 1 {
					ok = isFuncNamed(typeutil.Callee(pp.TypesInfo, call), "", t[1]) && identObj(pp, call.Args[0]) == paramObjs(pp, fd)[0]
				}
			}
		}
		r.Check(ok, "W-CACHE", key, c.pos(fd.Pos()), "CreateBinarizer(source) must return "+t[1]+"(source): a fresh binarizer of the same kind over the new source")
	}
}

func producesMatrix(p *packages.Package, call *ast.CallExpr) bool {
	callee := typeutil.Callee(p.TypesInfo, call)
	if isFuncNamed(callee, "", "NewBitMatrix") {
		return true
	}
	fn, ok := callee.(*types.Func)
	return ok && fn.Name() == "GetBlackMatrix"
}

// checkBlockWalk: in calculateBlackPoints the pair (row counter, running offset) is only ever initialised to
// (0, yoffset*width + xoffset) or advanced by (+1, +width), so offset = (yoffset+row)*width + xoffset is invariant;
// every pixel read is luminances[offset + col] with col a 0..BLOCK_SIZE-1 loop counter, and the row loops stop
// at BLOCK_SIZE.
func checkBlockWalk(c *Ctx, p *packages.Package, fd *ast.FuncDecl, reads []pixRead, xoff, yoff *Poly, widthObj types.Object, bs int64) string {
	if len(reads) == 0 {
		return "no block pixel reads found"
	}
	// the objects holding the clamped offsets at the time of the first read
	var xoffObj, yoffObj types.Object
	for o, v := range reads[0].env {
		if v.equal(xoff) {
			xoffObj = o
		}
		if v.equal(yoff) {
			yoffObj = o
		}
	}
	if xoffObj == nil || yoffObj == nil {
		return "?block offset variables not identified"
	}
	// the running offset: the non-counter identifier of the read index
	var offObj types.Object
	colObjs := map[types.Object]bool{}
	for _, rd := range reads {
		be, ok := ast.Unparen(rd.ix.Index).(*ast.BinaryExpr)
		if !ok || be.Op != token.ADD {
			return "a block pixel read is not luminances[offset + column]: " + exprString(rd.ix.Index)
		}
		a, b := identObj(p, be.X), identObj(p, be.Y)
		if a == nil || b == nil {
			return "a block pixel read is not luminances[offset + column]: " + exprString(rd.ix.Index)
		}
		// the column is the variable of a 0..BLOCK_SIZE-1 loop
		col, off := b, a
		if !isBlockCounter(p, fd, col, bs) {
			col, off = a, b
		}
		if !isBlockCounter(p, fd, col, bs) {
			return "the column of a block pixel read (" + exprString(rd.ix.Index) + ") is not a loop counter over 0..BLOCK_SIZE-1"
		}
		colObjs[col] = true
		if offObj != nil && offObj != off {
			return "block pixel reads use different running offsets"
		}
		offObj = off
	}
	// every assignment to the running offset
	width := polyAtom(objAtom(widthObj))
	bad := ""
	n := 0
	var rowObj types.Object
	ast.Inspect(fd.Body, func(nd ast.Node) bool {
		as, ok := nd.(*ast.AssignStmt)
		if !ok || bad != "" {
			return true
		}
		idx := -1
		for i, l := range as.Lhs {
			if identObj(p, l) == offObj {
				idx = i
			}
		}
		if idx < 0 {
			return true
		}
		n++
		if len(as.Lhs) != 2 || len(as.Rhs) != 2 || (as.Tok != token.DEFINE && as.Tok != token.ASSIGN) {
			bad = c.pos(as.Pos()) + ": the running offset must be assigned together with its row counter"
			return true
		}
		ro := identObj(p, as.Lhs[1-idx])
		if rowObj != nil && ro != rowObj {
			bad = c.pos(as.Pos()) + ": the running offset is paired with different row counters"
			return true
		}
		rowObj = ro
		s := c.newSymExec(p)
		rv, ov := s.expr(as.Rhs[1-idx]), s.expr(as.Rhs[idx])
		rowA, offA := polyAtom(objAtom(ro)), polyAtom(objAtom(offObj))
		isInit := rv.equal(polyInt(0)) && ov.equal(polyAtom(objAtom(yoffObj)).mul(width).add(polyAtom(objAtom(xoffObj))))
		isStep := rv.equal(rowA.add(polyInt(1))) && ov.equal(offA.add(width))
		if !isInit && !isStep {
			bad = c.pos(as.Pos()) + ": (row, offset) becomes (" + prettyPoly(rv) + ", " + prettyPoly(ov) + "); only (0, yoffset*width+xoffset) and (row+1, offset+width) keep offset = (yoffset+row)*width + xoffset"
		}
		return true
	})
	if bad != "" {
		return bad
	}
	if n < 2 || rowObj == nil {
		return "?running offset assignments not found"
	}
	// every loop whose post statement advances the row stops at BLOCK_SIZE
	ast.Inspect(fd.Body, func(nd ast.Node) bool {
		l, ok := nd.(*ast.ForStmt)
		if !ok || l.Post == nil || !assignedIn(p, l.Post, rowObj) {
			return true
		}
		be, isB := ast.Unparen(l.Cond).(*ast.BinaryExpr)
		if !isB || be.Op != token.LSS || identObj(p, be.X) != rowObj {
			bad = c.pos(l.Pos()) + ": a row loop of the block is not bounded by row < BLOCK_SIZE"
			return true
		}
		if v, isK := constInt(p, be.Y); !isK || v != bs {
			bad = c.pos(l.Pos()) + ": a row loop of the block is not bounded by row < BLOCK_SIZE"
		}
		return true
	})
	return bad
}

// isBlockCounter: obj is the variable of some `for obj := 0; obj < BLOCK_SIZE; obj++` in fd and is assigned nowhere else.
func isBlockCounter(p *packages.Package, fd *ast.FuncDecl, obj types.Object, bs int64) bool {
	found := false
	ast.Inspect(fd.Body, func(nd ast.Node) bool {
		if l, ok := nd.(*ast.ForStmt); ok {
			if lr, isR := loopVarRange(p, l); isR && lr.v == obj && lr.lo == 0 && lr.hi == bs && !assignedIn(p, l.Body, obj) {
				found = true
			}
		}
		return true
	})
	return found
}

// ---------------------------------------------------------------------------------------------------------------
// W-ROWALIAS: GetRow never hands out the source's own storage
// ---------------------------------------------------------------------------------------------------------------

func checkRowAlias(c *Ctx, r *Report) {
	r.Rule("W-ROWALIAS", "every LuminanceSource.GetRow of the library returns, on every path, the caller's buffer, a slice made in the call, nil, or what another GetRow returned - never a slice of the source's stored pixels: callers (InvertedLuminanceSource.GetRow inverts in place, binarisers reuse the row as the next buffer) write into what they get back, which would change the source and with it every later row and matrix", 3)
	n := 0
	var fs []*ssa.Function
	for f := range c.allFuncs {
		if f.Name() != "GetRow" || f.Blocks == nil || f.Synthetic != "" || !isRepoPkgFn(f) || f.Signature.Recv() == nil {
			continue
		}
		if strings.HasSuffix(f.Pkg.Pkg.Path(), "/testutil") {
			continue
		}
		res := f.Signature.Results()
		if res.Len() != 2 {
			continue
		}
		if sl, ok := res.At(0).Type().Underlying().(*types.Slice); !ok || !types.Identical(sl.Elem(), types.Typ[types.Byte]) {
			continue
		}
		fs = append(fs, f)
	}
	sort.Slice(fs, func(i, j int) bool { return fs[i].String() < fs[j].String() })
	for _, f := range fs {
		n++
		key := shortFn(f)
		r.Analysed(key)
		bad := ""
		var trace func(v ssa.Value, depth int) string
		trace = func(v ssa.Value, depth int) string {
			if depth > 12 {
				return "value flow too deep to follow"
			}
			switch x := v.(type) {
			case *ssa.Parameter:
				if _, ok := x.Type().Underlying().(*types.Slice); ok {
					return ""
				}
			case *ssa.MakeSlice:
				return ""
			case *ssa.Const:
				if x.IsNil() {
					return ""
				}
			case *ssa.Slice:
				return trace(x.X, depth+1)
			case *ssa.Phi:
				for _, e := range x.Edges {
					if w := trace(e, depth+1); w != "" {
						return w
					}
				}
				return ""
			case *ssa.Extract:
				if call, ok := x.Tuple.(*ssa.Call); ok && x.Index == 0 && call.Call.Value != nil {
					if call.Call.IsInvoke() && call.Call.Method.Name() == "GetRow" {
						return ""
					}
					if g := call.Call.StaticCallee(); g != nil && g.Name() == "GetRow" {
						return ""
					}
				}
			case *ssa.Alloc:
				return "" // a local array
			case *ssa.UnOp:
				if fa, ok := x.X.(*ssa.FieldAddr); ok && x.Op == token.MUL {
					return "the stored field " + fieldKey(fa.X.Type(), fa.Field)
				}
			}
			return fmt.Sprintf("a value the rule cannot classify (%T %s)", v, v.Name())
		}
		for _, ret := range returnsOf(f) {
			if len(ret.Results) != 2 {
				continue
			}
			if w := trace(unspill(ret.Results[0], ret), 0); w != "" {
				bad = fmt.Sprintf("the return at %s hands out %s", c.pos(ret.Pos()), w)
				break
			}
		}
		r.Check(bad == "", "W-ROWALIAS", key, c.pos(f.Pos()), bad)
	}
	if n == 0 {
		r.AnchorLost("W-ROWALIAS", "LuminanceSource.GetRow", "no implementation found")
	}
}

// ---------------------------------------------------------------------------------------------------------------
// M-HISTINIT: every histogram starts from zero
// ---------------------------------------------------------------------------------------------------------------

func checkHistogramInit(c *Ctx, r *Report) {
	r.Rule("M-HISTINIT", "GlobalHistogramBinarizer keeps its 32 histogram buckets on the object: initArrays, folded on a receiver whose buckets are all non-zero, leaves every bucket zero (and a luminance buffer at least as long as asked), and GetBlackRow / GetBlackMatrix call it before the first bucket is counted - so a row's threshold never depends on rows seen before, whether or not an earlier call ended in an error", 3)
	fd, p := c.funcDeclOf("", "GlobalHistogramBinarizer.initArrays")
	key := "gozxing.GlobalHistogramBinarizer.initArrays"
	if fd == nil {
		r.AnchorLost("M-HISTINIT", key, "method not found")
	} else {
		r.Analysed(key)
		bad := ""
		nb, ok := constValIn(c, "", "LUMINANCE_BUCKETS")
		if !ok || nb <= 0 || nb > 4096 {
			bad = "?LUMINANCE_BUCKETS is not a constant"
		}
		for _, have := range []int64{0, 10, 50} {
			if bad != "" {
				break
			}
			buckets := &Val{K: VList, Local: true}
			for i := int64(0); i < nb; i++ {
				buckets.L = append(buckets.L, vint(7+i))
			}
			lum := &Val{K: VList, Local: true}
			for i := int64(0); i < have; i++ {
				lum.L = append(lum.L, vint(1))
			}
			recv := &Val{K: VStruct, Ptr: true, Local: true, Fields: map[string]*Val{"buckets": buckets, "luminances": lum}}
			h := &rpf{unroll: 10000, env: map[types.Object]*Val{recvObj(p, fd): recv}}
			if _, err := c.rpfCall(fd, p, []*Val{vint(30)}, h); err != nil {
				bad = "?" + err.Error()
				break
			}
			bs, okb := listInts(recv.Fields["buckets"])
			if !okb || int64(len(bs)) != nb {
				bad = "the buckets are not 32 counters after initArrays"
				break
			}
			for i, v := range bs {
				if v != 0 {
					bad = fmt.Sprintf("bucket %d still holds %d after initArrays", i, v)
					break
				}
			}
			if l := recv.Fields["luminances"]; bad == "" && (l == nil || l.K != VList || len(l.L) < 30) {
				bad = "the luminance buffer is shorter than the size asked for"
			}
		}
		reportFold(r, c, "M-HISTINIT", key, fd.Pos(), bad)
	}
	for _, name := range []string{"GetBlackRow", "GetBlackMatrix"} {
		fd, p := c.funcDeclOf("", "GlobalHistogramBinarizer."+name)
		key := "gozxing.GlobalHistogramBinarizer." + name
		if fd == nil {
			r.AnchorLost("M-HISTINIT", key, "method not found")
			continue
		}
		r.Analysed(key)
		var initPos, firstCount token.Pos
		ast.Inspect(fd.Body, func(n ast.Node) bool {
			switch x := n.(type) {
			case *ast.CallExpr:
				if fn, ok := typeutil.Callee(p.TypesInfo, x).(*types.Func); ok && fn.Name() == "initArrays" && !initPos.IsValid() {
					initPos = x.Pos()
				}
			case *ast.IncDecStmt:
				if _, isIx := x.X.(*ast.IndexExpr); isIx && !firstCount.IsValid() {
					firstCount = x.Pos()
				}
			}
			return true
		})
		// the call must be at statement level of the body (not under a condition)
		top := false
		for _, st := range fd.Body.List {
			if es, ok := st.(*ast.ExprStmt); ok && es.X.Pos() == initPos {
				top = true
			}
		}
		okOrder := initPos.IsValid() && top && (!firstCount.IsValid() || initPos < firstCount)
		r.Check(okOrder, "M-HISTINIT", key, c.pos(fd.Pos()), "initArrays must be called unconditionally before the first bucket is counted")
	}
}

// S-BLACKPOINT: the global black point on the histograms of bilevel images
func checkBlackPointBilevel(c *Ctx, r *Report) {
	r.Rule("S-BLACKPOINT", "GlobalHistogramBinarizer.estimateBlackPoint, folded from source on the 32-bucket histograms a pure black-and-white image gives - black and white in any proportion from one black sample in two thousand to the reverse, and white alone (the sampled rows of a narrow, tall rendering lie in the quiet zone and miss the symbol) - returns without an error a black point above 0 and at most 255: black pixels (0) fall below it, white pixels (255) do not, so the image is binarised to exactly its black pixels", 1)
	fd, p := c.funcDeclOf("", "GlobalHistogramBinarizer.estimateBlackPoint")
	key := "gozxing.GlobalHistogramBinarizer.estimateBlackPoint/bilevel"
	if fd == nil {
		r.AnchorLost("S-BLACKPOINT", key, "method not found")
		return
	}
	r.Analysed(key)
	bad := ""
	for _, hist := range [][2]int64{{500, 1500}, {1, 1999}, {1999, 1}, {1000, 1000}, {0, 2000}, {37, 80}} {
		buckets := &Val{K: VList}
		for i := 0; i < 32; i++ {
			n := int64(0)
			if i == 0 {
				n = hist[0]
			}
			if i == 31 {
				n = hist[1]
			}
			buckets.L = append(buckets.L, vint(n))
		}
		h := &rpf{unroll: 1000, env: map[types.Object]*Val{}}
		h.env[recvObj(p, fd)] = &Val{K: VStruct, Ptr: true, Fields: map[string]*Val{}}
		h.callHook = errCtorHook
		res, err := c.rpfCall(fd, p, []*Val{buckets}, h)
		what := fmt.Sprintf("a histogram of %d black and %d white samples", hist[0], hist[1])
		if err != nil {
			bad = "?" + what + ": " + err.Error()
			break
		}
		if len(res) != 2 || res[1].K != VNil {
			bad = what + " is refused as having no contrast; a black-and-white image whose sampled rows look like this is then not read at all"
			break
		}
		if !res[0].isInt() || res[0].I <= 0 || res[0].I > 255 {
			bad = fmt.Sprintf("%s gives the black point %v: black (0) must fall below it and white (255) must not", what, valString(res[0]))
			break
		}
	}
	reportFold(r, c, "S-BLACKPOINT", key, fd.Pos(), bad)
}
