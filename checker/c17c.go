package main

import (
	"fmt"
	"go/ast"
	"go/token"
	"go/types"
	"math/big"
	"regexp"
	"sort"
	"strings"

	"golang.org/x/tools/go/packages"
	"golang.org/x/tools/go/ssa"
	"golang.org/x/tools/go/types/typeutil"
)

type pixRead struct {
	ix    *ast.IndexExpr
	base  *Poly
	index *Poly
	conds []symCond
	env   map[types.Object]*Poly
}

type setCall struct {
	call  *ast.CallExpr
	args  []*Poly
	conds []symCond
	last  *pixRead // the last luminance read before the call
}

// liftPixels lifts fd recording byte-slice reads and BitMatrix.Set / BitArray.Set calls.
func liftPixels(c *Ctx, fd *ast.FuncDecl, p *packages.Package, pure func(types.Object) bool) (*symExec, []pixRead, []setCall) {
	s := c.newSymExec(p)
	s.pure = pure
	var reads []pixRead
	var sets []setCall
	s.onIndex = func(s *symExec, ix *ast.IndexExpr, base, index *Poly) {
		t := p.TypesInfo.TypeOf(ix.X)
		if t == nil {
			return
		}
		if sl, ok := t.Underlying().(*types.Slice); ok {
			if b, isB := sl.Elem().Underlying().(*types.Basic); isB && b.Kind() == types.Uint8 {
				reads = append(reads, pixRead{ix, base, index, append([]symCond(nil), s.conds...), s.copyEnv()})
			}
		}
	}
	s.onCall = func(s *symExec, call *ast.CallExpr, callee types.Object) {
		if isMethodNamed(callee, "", "BitMatrix", "Set") || isMethodNamed(callee, "", "BitArray", "Set") {
			sc := setCall{call: call, conds: append([]symCond(nil), s.conds...)}
			// arguments are evaluated with hooks off to avoid recording reads twice
			oi := s.onIndex
			s.onIndex = nil
			for _, a := range call.Args {
				sc.args = append(sc.args, s.expr(a))
			}
			s.onIndex = oi
			if len(reads) > 0 {
				rd := reads[len(reads)-1]
				sc.last = &rd
			}
			sets = append(sets, sc)
		}
	}
	s.block(fd.Body.List)
	return s, reads, sets
}

func unmask(s string) string {
	if strings.HasPrefix(s, "&(") && strings.HasSuffix(s, ",255)") {
		return s[2 : len(s)-5]
	}
	return s
}

var minAtomRe = regexp.MustCompile(`^min\(`)

// ---------------------------------------------------------------------------------------------------------------
// S-PIXMAP
// ---------------------------------------------------------------------------------------------------------------

func checkPixelMaps(c *Ctx, r *Report) {
	defer checkGlobalBinarizerWhole(c, r)
	defer checkHybridWhole(c, r)
	r.Rule("S-PIXMAP", "wherever a binariser turns a luminance read into a black bit, the read index and the bit's coordinates agree (index = y*stride + x with the matrix's own width as stride); the block offsets are min(8*k, size-8) in both passes of the local method, every block read is (yoffset+a)*width + xoffset+b with a, b loop counters only, and the 5x5 neighbourhood is blackPoints[cap(y,2,subHeight-3)+z][cap(x,2,subWidth-3)+d] for z, d in -2..2 averaged over 25", 7)
	hybPure := func(o types.Object) bool {
		fn, ok := o.(*types.Func)
		return ok && (fn.Name() == "cap" || gettersPure(o))
	}
	// (A) thresholdBlock
	if fd, p := c.funcDeclOf("", "HybridBinarizer.thresholdBlock"); fd != nil {
		key := "gozxing.HybridBinarizer.thresholdBlock"
		r.Analysed(key)
		ps := paramObjs(p, fd)
		_, _, sets := liftPixels(c, fd, p, hybPure)
		if len(sets) != 1 || sets[0].last == nil || len(ps) < 6 {
			r.Fail("S-PIXMAP", key, c.pos(fd.Pos()), "violation", "expected one matrix.Set guarded by one luminance read")
		} else {
			sc := sets[0]
			stride := polyAtom(objAtom(ps[4]))
			want := sc.args[1].mul(stride).add(sc.args[0])
			ok := sc.last.index.equal(want)
			// and the coordinates are the block origin plus the two counters
			ks := kAtomsOf(sc.args[0], sc.args[1])
			xo, yo := polyAtom(objAtom(ps[1])), polyAtom(objAtom(ps[2]))
			okc := len(ks) == 2 && ((sc.args[0].equal(xo.add(polyAtom(ks[0]))) && sc.args[1].equal(yo.add(polyAtom(ks[1])))) || (sc.args[0].equal(xo.add(polyAtom(ks[1]))) && sc.args[1].equal(yo.add(polyAtom(ks[0])))))
			switch {
			case !ok:
				r.Fail("S-PIXMAP", key, c.pos(sc.call.Pos()), "violation", "pixel luminances["+prettyPoly(sc.last.index)+"] decides bit ("+prettyPoly(sc.args[0])+", "+prettyPoly(sc.args[1])+"); with stride "+prettyPoly(stride)+" that bit's pixel is at "+prettyPoly(want))
			case !okc:
				r.Fail("S-PIXMAP", key, c.pos(sc.call.Pos()), "violation", "the bit set must be (xoffset+x, yoffset+y) for the two block counters; got ("+prettyPoly(sc.args[0])+", "+prettyPoly(sc.args[1])+")")
			default:
				r.Pass("S-PIXMAP", key, c.pos(sc.call.Pos()), "")
			}
		}
	} else {
		r.AnchorLost("S-PIXMAP", "gozxing.HybridBinarizer.thresholdBlock", "method not found")
	}
	// (B) global matrix
	if fd, p := c.funcDeclOf("", "GlobalHistogramBinarizer.GetBlackMatrix"); fd != nil {
		key := "gozxing.GlobalHistogramBinarizer.GetBlackMatrix"
		r.Analysed(key)
		s, _, sets := liftPixels(c, fd, p, gettersPure)
		var mw *Poly
		for _, cl := range s.calls {
			if isFuncNamed(cl.Callee, "", "NewBitMatrix") && len(cl.Args) == 2 {
				mw = cl.Args[0]
			}
		}
		if len(sets) != 1 || sets[0].last == nil || mw == nil {
			r.Fail("S-PIXMAP", key, c.pos(fd.Pos()), "violation", "expected NewBitMatrix(width, height) and one matrix.Set guarded by one luminance read")
		} else {
			sc := sets[0]
			want := sc.args[1].mul(mw).add(sc.args[0])
			ks := kAtomsOf(sc.args[0], sc.args[1])
			ok := sc.last.index.equal(want) && len(ks) == 2 && strings.Contains(sc.last.base.String(), "GetMatrix")
			r.Check(ok, "S-PIXMAP", key, c.pos(sc.call.Pos()), "pixel ["+prettyPoly(sc.last.index)+"] of "+prettyPoly(sc.last.base)+" decides bit ("+prettyPoly(sc.args[0])+", "+prettyPoly(sc.args[1])+") of a matrix "+prettyPoly(mw)+" wide; expected matrix[y*width+x] of the source's own matrix")
		}
	} else {
		r.AnchorLost("S-PIXMAP", "gozxing.GlobalHistogramBinarizer.GetBlackMatrix", "method not found")
	}
	// (C) block offsets and block reads in the two passes of the local method
	blockOffsets := func(name string) (xoff, yoff *Poly, s *symExec, reads []pixRead, ok bool) {
		fd, p := c.funcDeclOf("", "HybridBinarizer."+name)
		key := "gozxing.HybridBinarizer." + name + "/offsets"
		if fd == nil {
			r.AnchorLost("S-PIXMAP", key, "method not found")
			return
		}
		r.Analysed(key)
		ps := paramObjs(p, fd)
		// width, height are the 4th and 5th parameters in both passes
		if len(ps) < 5 {
			r.Undecided("S-PIXMAP", key, c.pos(fd.Pos()), "signature changed")
			return
		}
		width, height := polyAtom(objAtom(ps[3])), polyAtom(objAtom(ps[4]))
		bs, _ := constVal(p, "BLOCK_SIZE")
		s, reads, _ = liftPixels(c, fd, p, hybPure)
		// the clamped offsets: assignments whose final value is min(8*K, size-8)
		var mins []*Poly
		seen := map[string]bool{}
		collect := func(pl *Poly) {
			for mono := range pl.m {
				for _, a := range splitMono(mono) {
					if minAtomRe.MatchString(a) && !seen[a] {
						seen[a] = true
						mins = append(mins, polyAtom(a))
					}
				}
			}
		}
		for _, rd := range reads {
			collect(rd.index)
			for _, v := range rd.env {
				collect(v)
			}
		}
		for _, cl := range s.calls {
			if fn, isF := cl.Callee.(*types.Func); isF && fn.Name() == "thresholdBlock" {
				for _, a := range cl.Args {
					collect(a)
				}
			}
		}
		for _, m := range mins {
			for _, k := range kAtomsOf(m) {
				K := polyAtom(k)
				if m.equal(symMin(K.mul(polyInt(bs)), width.sub(polyInt(bs)))) {
					xoff = m
				}
				if m.equal(symMin(K.mul(polyInt(bs)), height.sub(polyInt(bs)))) {
					yoff = m
				}
			}
		}
		if xoff == nil || yoff == nil || len(mins) != 2 {
			var got []string
			for _, m := range mins {
				got = append(got, prettyPoly(m))
			}
			r.Fail("S-PIXMAP", key, c.pos(fd.Pos()), "violation", fmt.Sprintf("block offsets must be min(%d*x, width-%d) and min(%d*y, height-%d) (the last block pulled back inside the image); found %v", bs, bs, bs, bs, got))
			return
		}
		r.Pass("S-PIXMAP", key, c.pos(fd.Pos()), "")
		ok = true
		return
	}
	if xoff, yoff, _, reads, ok := blockOffsets("calculateBlackPoints"); ok {
		fd, p := c.funcDeclOf("", "HybridBinarizer.calculateBlackPoints")
		key := "gozxing.HybridBinarizer.calculateBlackPoints/reads"
		widthObj := paramObjs(p, fd)[3]
		bs, _ := constVal(p, "BLOCK_SIZE")
		bad := checkBlockWalk(c, p, fd, reads, xoff, yoff, widthObj, bs)
		if bad != "" && bad[0] == '?' {
			r.Undecided("S-PIXMAP", key, c.pos(fd.Pos()), bad[1:])
		} else {
			r.Check(bad == "", "S-PIXMAP", key, c.pos(fd.Pos()), bad)
		}
	}
	if xoff, yoff, s, _, ok := blockOffsets("calculateThresholdForBlock"); ok {
		fd, p := c.funcDeclOf("", "HybridBinarizer.calculateThresholdForBlock")
		ps := paramObjs(p, fd)
		key := "gozxing.HybridBinarizer.calculateThresholdForBlock/call"
		width := polyAtom(objAtom(ps[3]))
		found := false
		for _, cl := range s.calls {
			if fn, isF := cl.Callee.(*types.Func); isF && fn.Name() == "thresholdBlock" && len(cl.Args) == 6 {
				found = true
				ok := cl.Args[1].equal(xoff) && cl.Args[2].equal(yoff) && cl.Args[4].equal(width) && cl.Args[0].equal(polyAtom(objAtom(ps[0]))) && cl.Args[5].equal(polyAtom(objAtom(ps[6])))
				r.Check(ok, "S-PIXMAP", key, c.pos(cl.Call.Pos()), "thresholdBlock must receive (luminances, xoffset, yoffset, average, width, matrix); got offsets ("+prettyPoly(cl.Args[1])+", "+prettyPoly(cl.Args[2])+") stride "+prettyPoly(cl.Args[4]))
			}
		}
		if !found {
			r.Fail("S-PIXMAP", key, c.pos(fd.Pos()), "violation", "thresholdBlock is not called")
		}
		checkWindow(c, r, fd, p)
	}
}

// checkWindow: the 5x5 neighbourhood of calculateThresholdForBlock.
func checkWindow(c *Ctx, r *Report, fd *ast.FuncDecl, p *packages.Package) {
	key := "gozxing.HybridBinarizer.calculateThresholdForBlock/window"
	ps := paramObjs(p, fd)
	subW, subH := polyAtom(objAtom(ps[1])), polyAtom(objAtom(ps[2]))
	s := c.newSymExec(p)
	s.pure = func(o types.Object) bool {
		fn, ok := o.(*types.Func)
		return ok && fn.Name() == "cap"
	}
	type rd struct{ base, index *Poly }
	var reads []rd
	s.onIndex = func(s *symExec, ix *ast.IndexExpr, base, index *Poly) {
		t := p.TypesInfo.TypeOf(ix.X)
		if sl, ok := t.Underlying().(*types.Slice); ok {
			if b, isB := sl.Elem().Underlying().(*types.Basic); isB && b.Kind() == types.Int {
				reads = append(reads, rd{base, index})
			}
		}
	}
	s.block(fd.Body.List)
	// cap atoms
	var capX, capY *Poly
	for _, cl := range s.calls {
		if fn, ok := cl.Callee.(*types.Func); ok && fn.Name() == "cap" && len(cl.Args) == 3 && cl.Recv != nil {
			a := polyAtom("call:" + shortObj(cl.Callee) + "(" + cl.Recv.String() + ";" + cl.Args[0].String() + ";" + cl.Args[1].String() + ";" + cl.Args[2].String() + ")")
			two, okTwo := cl.Args[1].isConst()
			if !okTwo || two.Cmp(big.NewRat(2, 1)) != 0 || len(kAtomsOf(cl.Args[0])) != 1 || !cl.Args[0].equal(polyAtom(kAtomsOf(cl.Args[0])[0])) {
				continue
			}
			if cl.Args[2].equal(subW.sub(polyInt(3))) {
				capX = a
			}
			if cl.Args[2].equal(subH.sub(polyInt(3))) {
				capY = a
			}
		}
	}
	if capX == nil || capY == nil {
		r.Fail("S-PIXMAP", key, c.pos(fd.Pos()), "violation", "the window centre must be cap(x, 2, subWidth-3) / cap(y, 2, subHeight-3) of the block counters")
		return
	}
	offs := map[string]bool{}
	bad := ""
	for _, x := range reads {
		d := x.index.sub(capX)
		dc, isC := d.isConst()
		if !isC {
			bad = "a black-point read uses column " + prettyPoly(x.index) + ", not the capped centre plus a constant"
			break
		}
		offs[dc.RatString()] = true
		// row: blackPoints[capY + z], z = -2 + K
		bs := x.base.String()
		okRow := false
		for _, k := range kAtomsOf(x.base) {
			want := "idx(" + polyAtom(objAtom(ps[5])).String() + "," + capY.sub(polyInt(2)).add(polyAtom(k)).String() + ")"
			if bs == want {
				okRow = true
			}
		}
		if !okRow {
			bad = "a black-point read uses row " + prettyPoly(x.base) + ", expected blackPoints[cap(y,2,subHeight-3) + z] with z counting from -2"
			break
		}
	}
	if bad == "" {
		for _, w := range []string{"-2", "-1", "0", "1", "2"} {
			if !offs[w] {
				bad = "column offset " + w + " of the 5-wide window is not read"
			}
		}
		if len(offs) != 5 && bad == "" {
			bad = fmt.Sprintf("%d distinct column offsets read, expected the 5 offsets -2..2", len(offs))
		}
	}
	// z range and the divisor
	if bad == "" {
		okZ := false
		ast.Inspect(fd.Body, func(n ast.Node) bool {
			if l, ok := n.(*ast.ForStmt); ok {
				if lr, isR := loopVarRange(p, l); isR && lr.lo == -2 && lr.hi == 3 {
					okZ = true
				}
			}
			return true
		})
		if !okZ {
			bad = "the row loop of the window must run z = -2..2"
		}
	}
	if bad == "" {
		okDiv := false
		for _, a := range s.assigns {
			if strings.HasPrefix(a.Val.String(), "idiv(") && strings.HasSuffix(a.Val.String(), ",25)") {
				okDiv = true
			}
		}
		if !okDiv {
			bad = "the threshold must be the window sum divided by 25"
		}
	}
	r.Check(bad == "", "S-PIXMAP", key, c.pos(fd.Pos()), bad)
	// cap itself is the clamp
	keyC := "gozxing.HybridBinarizer.cap"
	if cfd, cp := c.funcDeclOf("", "HybridBinarizer.cap"); cfd != nil {
		r.Analysed(keyC)
		badC := ""
		for v := int64(-3); v <= 12 && badC == ""; v++ {
			res, err := c.rpfCall(cfd, cp, []*Val{vint(v), vint(2), vint(7)}, nil)
			want := v
			if want < 2 {
				want = 2
			}
			if want > 7 {
				want = 7
			}
			if err != nil {
				badC = "?" + err.Error()
			} else if len(res) != 1 || res[0].K != VInt || res[0].I != want {
				badC = fmt.Sprintf("cap(%d, 2, 7) = %s, expected %d", v, valString(res[0]), want)
			}
		}
		if badC != "" && badC[0] == '?' {
			r.Undecided("S-PIXMAP", keyC, c.pos(cfd.Pos()), badC[1:])
		} else {
			r.Check(badC == "", "S-PIXMAP", keyC, c.pos(cfd.Pos()), badC)
		}
	} else {
		r.AnchorLost("S-PIXMAP", keyC, "method not found")
	}
}

// ---------------------------------------------------------------------------------------------------------------
// S-THRESH: the comparators and the low-contrast rule on which exact binarisation of bilevel images rests
// ---------------------------------------------------------------------------------------------------------------

func checkThresholds(c *Ctx, r *Report) {
	r.Rule("S-THRESH", "comparators and threshold values: the local method blackens a pixel iff luminance <= block threshold; a low-contrast block (max-min <= MIN_DYNAMIC_RANGE) gets min/2, raised to the neighbours' (up + 2*left + upleft)/4 only when min is below it, other blocks sum>>6; the global method blackens iff luminance < black point, indexes buckets by byte >> LUMINANCE_SHIFT and returns valley << LUMINANCE_SHIFT. With these, a pure black pixel (0) is below every threshold and a pure white one (255) above", 5)
	shift, _ := constVal(c.pkg(""), "LUMINANCE_SHIFT")
	// local comparator
	if fd, p := c.funcDeclOf("", "HybridBinarizer.thresholdBlock"); fd != nil {
		key := "gozxing.HybridBinarizer.thresholdBlock/compare"
		r.Analysed(key)
		ps := paramObjs(p, fd)
		_, _, sets := liftPixels(c, fd, p, nil)
		ok := false
		if len(sets) == 1 && sets[0].last != nil && len(sets[0].conds) > 0 {
			cd := sets[0].conds[len(sets[0].conds)-1]
			pix := "idx(" + sets[0].last.base.String() + "," + sets[0].last.index.String() + ")"
			thr := polyAtom(objAtom(ps[3]))
			for _, l := range []string{pix, "&(" + pix + ",255)"} {
				if condIs(cd, token.LEQ, polyAtom(l), thr) {
					ok = true
				}
			}
		}
		r.Check(ok, "S-THRESH", key, c.pos(fd.Pos()), "a pixel must be set black exactly when luminance <= threshold: with `<` an all-black block (threshold 0) would come out white")
	} else {
		r.AnchorLost("S-THRESH", "gozxing.HybridBinarizer.thresholdBlock/compare", "method not found")
	}
	// global comparators
	for _, m := range []string{"GetBlackMatrix", "GetBlackRow"} {
		fd, p := c.funcDeclOf("", "GlobalHistogramBinarizer."+m)
		key := "gozxing.GlobalHistogramBinarizer." + m + "/compare"
		if fd == nil {
			r.AnchorLost("S-THRESH", key, "method not found")
			continue
		}
		r.Analysed(key)
		s, reads, sets := liftPixels(c, fd, p, gettersPure)
		bad := ""
		nDirect := 0
		for _, sc := range sets {
			if len(sc.conds) == 0 {
				bad = "a bit is set unconditionally"
				break
			}
			cd := sc.conds[len(sc.conds)-1]
			if cd.op == token.ILLEGAL || !strings.Contains(cd.r.String(), "estimateBlackPoint") {
				bad = "the bit must be set under `value < blackPoint` with the black point of estimateBlackPoint; got " + cd.String()
				break
			}
			op := cd.op
			if cd.neg {
				bad = "negated comparison"
				break
			}
			if op != token.LSS {
				bad = "the global method blackens strictly below the black point (operator " + op.String() + " found)"
				break
			}
			l := unmask(cd.l.String())
			if strings.HasPrefix(l, "idx(") {
				nDirect++
				// plain threshold: the compared pixel is the pixel of the bit's x
				if m == "GetBlackRow" && !(strings.HasSuffix(l, ","+sc.args[0].String()+")")) {
					bad = "the pixel compared is " + prettyPoly(cd.l) + " but bit " + prettyPoly(sc.args[0]) + " is set"
				}
			}
		}
		// bucket indexing
		nb := 0
		for _, st := range s.stores {
			_ = st
		}
		ast.Inspect(fd.Body, func(n ast.Node) bool {
			if inc, ok := n.(*ast.IncDecStmt); ok {
				if ix, isIx := inc.X.(*ast.IndexExpr); isIx {
					if be, isB := ast.Unparen(ix.Index).(*ast.BinaryExpr); isB && be.Op == token.SHR {
						nb++
						if v, isK := constInt(p, be.Y); !isK || v != shift {
							bad = "histogram bucket index must be luminance >> LUMINANCE_SHIFT"
						}
					} else if id := identObj(p, ix.Index); id == nil {
						bad = "histogram bucket index is not a shifted luminance"
					}
				}
			}
			return true
		})
		_ = reads
		if bad == "" && nb == 0 {
			// GetBlackMatrix computes `pixel >> SHIFT` on a variable: accept a shift by the constant anywhere in an index
			ast.Inspect(fd.Body, func(n ast.Node) bool {
				if be, ok := n.(*ast.BinaryExpr); ok && be.Op == token.SHR {
					if v, isK := constInt(p, be.Y); isK && v == shift {
						nb++
					}
				}
				return true
			})
			if nb == 0 {
				bad = "no luminance >> LUMINANCE_SHIFT bucket index found"
			}
		}
		r.Check(bad == "", "S-THRESH", key, c.pos(fd.Pos()), bad)
	}
	// estimateBlackPoint result scale
	if fd, p := c.funcDeclOf("", "GlobalHistogramBinarizer.estimateBlackPoint"); fd != nil {
		key := "gozxing.GlobalHistogramBinarizer.estimateBlackPoint/scale"
		r.Analysed(key)
		s := c.newSymExec(p)
		s.block(fd.Body.List)
		ok := false
		for _, rt := range s.rets {
			if len(rt.Vals) == 2 && strings.HasPrefix(rt.Vals[1].String(), "nil") {
				// value = 2^shift * atom
				if len(rt.Vals[0].m) == 1 {
					for mono, coef := range rt.Vals[0].m {
						if mono != "" && coef.Cmp(big.NewRat(int64(1)<<uint(shift), 1)) == 0 {
							ok = true
						}
					}
				}
			}
		}
		r.Check(ok, "S-THRESH", key, c.pos(fd.Pos()), "the black point must be the valley bucket << LUMINANCE_SHIFT (bucket index back to the luminance scale)")
	} else {
		r.AnchorLost("S-THRESH", "gozxing.GlobalHistogramBinarizer.estimateBlackPoint/scale", "method not found")
	}
	// low-contrast rule
	fd, p := c.funcDeclOf("", "HybridBinarizer.calculateBlackPoints")
	key := "gozxing.HybridBinarizer.calculateBlackPoints/blackpoint"
	if fd == nil {
		r.AnchorLost("S-THRESH", key, "method not found")
		return
	}
	r.Analysed(key)
	pw, _ := constVal(p, "BLOCK_SIZE_POWER")
	rng, _ := constVal(p, "MIN_DYNAMIC_RANGE")
	s := c.newSymExec(p)
	s.block(fd.Body.List)
	// the store blackPoints[y][x] = average
	var avgObj types.Object
	for _, st := range s.stores {
		if strings.HasPrefix(st.Base.String(), "idx(") && st.Loop == 2 {
			if id := identObj(p, st.Stmt.(*ast.AssignStmt).Rhs[0]); id != nil {
				avgObj = id
			}
		}
	}
	if avgObj == nil {
		r.Fail("S-THRESH", key, c.pos(fd.Pos()), "violation", "the block's black point store blackPoints[y][x] = <variable> not found")
		return
	}
	var hasShift, hasHalf, hasNeighbour bool
	why := ""
	for _, a := range s.assigns {
		if a.Obj != avgObj {
			continue
		}
		v := a.Val.String()
		low := func() (mn, mx *Poly, ok bool) {
			for _, cd := range a.Conds {
				if cd.op == token.LEQ && !cd.neg {
					if rc, isC := cd.r.isConst(); isC && rc.Cmp(big.NewRat(int64(rng), 1)) == 0 && len(cd.l.m) == 2 {
						// max - min
						for mono, coef := range cd.l.m {
							if coef.Sign() > 0 {
								mx = polyAtom(mono)
							} else {
								mn = polyAtom(mono)
							}
						}
						if mn != nil && mx != nil {
							return mn, mx, true
						}
					}
				}
			}
			return nil, nil, false
		}
		switch {
		case strings.HasPrefix(v, "shr(") && strings.HasSuffix(v, fmt.Sprintf(",%d)", 2*pw)):
			hasShift = true
			if _, _, isLow := low(); isLow {
				why = "the sum>>6 average must be the default, not part of the low-contrast branch"
			}
		default:
			mn, _, isLow := low()
			if !isLow {
				why = "black point assigned " + prettyPoly(a.Val) + " outside the low-contrast condition max-min <= MIN_DYNAMIC_RANGE"
				continue
			}
			if a.Val.equal(symDiv("idiv", mn, polyInt(2))) || v == "shr("+mn.String()+",1)" {
				hasHalf = true
				continue
			}
			// neighbour average under min < navg, y > 0, x > 0
			okN := false
			for _, cd := range a.Conds {
				if condIs(cd, token.LSS, mn, a.Val) {
					okN = true
				}
			}
			npos := 0
			for _, cd := range a.Conds {
				if l, rr, strict, ok := cd.lessForm(); ok && strict { // 0 < y, 0 < x
					if lc, isC := l.isConst(); isC && lc.Sign() == 0 && len(kAtomsOf(rr)) == 1 {
						npos++
					}
				}
			}
			// the neighbour formula
			nv := a.Val.String()
			isAvg := strings.HasPrefix(nv, "idiv(") && strings.HasSuffix(nv, ",4)") && strings.Count(nv, "idx(idx(") == 3
			if okN && npos >= 2 && isAvg {
				hasNeighbour = true
			} else {
				why = "low-contrast black point " + prettyPoly(a.Val) + " is neither min/2 nor the neighbour average (up + 2*left + upleft)/4 taken only when min < that average and y > 0, x > 0"
			}
		}
	}
	ok := hasShift && hasHalf && hasNeighbour && why == ""
	if why == "" && !ok {
		why = fmt.Sprintf("expected three assignments to the block's black point: sum>>%d, min/2, neighbour average (found shift=%v half=%v neighbour=%v)", 2*pw, hasShift, hasHalf, hasNeighbour)
	}
	r.Check(ok, "S-THRESH", key, c.pos(fd.Pos()), why)
}

// ---------------------------------------------------------------------------------------------------------------
// S-SHARPEN: the sliding window of the global row method
// ---------------------------------------------------------------------------------------------------------------

var loopAtomRe = regexp.MustCompile(`loop:\w+~\d+`)

func checkSharpen(c *Ctx, r *Report) {
	defer checkGlobalBinarizerWhole(c, r)
	r.Rule("S-SHARPEN", "GetBlackRow's sharpening loop keeps the invariant left = lum[x-1], center = lum[x]: before the loop (x starting at 1) they are lum[0], lum[1]; each iteration reads right = lum[x+1], sets bit x iff (4*center - left - right)/2 < black point, then shifts left = center, center = right; the loop runs while x < width-1", 1)
	fd, p := c.funcDeclOf("", "GlobalHistogramBinarizer.GetBlackRow")
	key := "gozxing.GlobalHistogramBinarizer.GetBlackRow/sharpen"
	if fd == nil {
		r.AnchorLost("S-SHARPEN", key, "method not found")
		return
	}
	r.Analysed(key)
	s, _, sets := liftPixels(c, fd, p, gettersPure)
	// the Set whose condition is a division
	var sc *setCall
	for i := range sets {
		if len(sets[i].conds) > 0 {
			cd := sets[i].conds[len(sets[i].conds)-1]
			if cd.op != token.ILLEGAL && strings.HasPrefix(cd.l.String(), "idiv(") {
				sc = &sets[i]
			}
		}
	}
	if sc == nil {
		r.Fail("S-SHARPEN", key, c.pos(fd.Pos()), "violation", "no bit set under a (…)/2 < blackPoint comparison")
		return
	}
	cd := sc.conds[len(sc.conds)-1]
	X := sc.args[0]
	ks := kAtomsOf(X)
	if len(ks) != 1 || !X.sub(polyAtom(ks[0])).equal(polyInt(1)) {
		r.Fail("S-SHARPEN", key, c.pos(sc.call.Pos()), "violation", "the bit index must be the loop counter starting at 1; got "+prettyPoly(X))
		return
	}
	if sc.last == nil {
		r.Fail("S-SHARPEN", key, c.pos(sc.call.Pos()), "violation", "no luminance read before the comparison")
		return
	}
	lum := sc.last.base.String()
	px := func(i *Poly) string { return "idx(" + lum + "," + i.String() + ")" }
	// right
	if !sc.last.index.equal(X.add(polyInt(1))) {
		r.Fail("S-SHARPEN", key, c.pos(sc.last.ix.Pos()), "violation", "the look-ahead pixel must be lum[x+1]; got lum["+prettyPoly(sc.last.index)+"]")
		return
	}
	las := loopAtomRe.FindAllString(cd.l.String(), -1)
	uniq := map[string]bool{}
	for _, a := range las {
		uniq[a] = true
	}
	var L, C string
	found := false
	for a := range uniq {
		for b := range uniq {
			if a == b {
				continue
			}
			for _, R := range []string{px(X.add(polyInt(1))), "&(" + px(X.add(polyInt(1))) + ",255)"} {
				num := polyAtom(a).mul(polyInt(4)).sub(polyAtom(b)).sub(polyAtom(R))
				if cd.op == token.LSS && !cd.neg && cd.l.equal(symDiv("idiv", num, polyInt(2))) && strings.Contains(cd.r.String(), "estimateBlackPoint") {
					C, L, found = a, b, true
				}
			}
		}
	}
	if !found {
		r.Fail("S-SHARPEN", key, c.pos(sc.call.Pos()), "violation", "the condition must be (4*center - left - right)/2 < blackPoint; got "+prettyPoly(cd.l)+" "+cd.op.String()+" "+prettyPoly(cd.r))
		return
	}
	// carried variables: in-loop assignments
	var leftObj, centerObj types.Object
	for _, a := range s.assigns {
		if a.Loop != 1 || a.Tok != token.ASSIGN {
			continue
		}
		if a.Val.equal(polyAtom(C)) {
			leftObj = a.Obj
		}
		if u := unmask(a.Val.String()); u == px(X.add(polyInt(1))) {
			centerObj = a.Obj
		}
	}
	bad := ""
	switch {
	case leftObj == nil || !strings.HasPrefix(L, "loop:"+leftObj.Name()+"~"):
		bad = "at the end of an iteration `left` must take the old center"
	case centerObj == nil || !strings.HasPrefix(C, "loop:"+centerObj.Name()+"~"):
		bad = "at the end of an iteration `center` must take right = lum[x+1]"
	}
	// `left = center` must precede `center = right` (otherwise left would take the new center)
	if bad == "" {
		var posL, posC token.Pos
		for _, a := range s.assigns {
			if a.Loop == 1 && a.Tok == token.ASSIGN {
				if a.Obj == leftObj {
					posL = a.Stmt.Pos()
				}
				if a.Obj == centerObj {
					posC = a.Stmt.Pos()
				}
			}
		}
		if !(posL < posC) {
			bad = "`left = center` must come before `center = right`"
		}
	}
	// initial values
	if bad == "" {
		okL, okC := false, false
		for _, a := range s.assigns {
			if a.Loop != 0 {
				continue
			}
			u := unmask(a.Val.String())
			if a.Obj == leftObj && u == px(polyInt(0)) {
				okL = true
			}
			if a.Obj == centerObj && u == px(polyInt(1)) {
				okC = true
			}
		}
		if !okL || !okC {
			bad = "before the loop left must be lum[0] and center lum[1]"
		}
	}
	// loop bound
	if bad == "" {
		okB := false
		for _, cnd := range sc.conds {
			if cnd.op == token.LSS && !cnd.neg && cnd.l.equal(X) && strings.Contains(cnd.r.String(), "GetWidth") {
				if cnd.r.String() != "" && len(cnd.r.m) == 2 {
					if k, has := cnd.r.m[""]; has && k.Cmp(big.NewRat(int64(-1), 1)) == 0 {
						okB = true
					}
				}
			}
		}
		if !okB {
			bad = "the loop must run while x < width-1 (lum[x+1] is read)"
		}
	}
	r.Check(bad == "", "S-SHARPEN", key, c.pos(sc.call.Pos()), bad)
}

// ---------------------------------------------------------------------------------------------------------------
// W-CACHE: who may write the cached matrix
// ---------------------------------------------------------------------------------------------------------------

func checkMatrixCache(c *Ctx, r *Report) {
	r.Rule("W-CACHE", "the cached black matrix of HybridBinarizer and BinaryBitmap is written only by that type's GetBlackMatrix, from a matrix computed in the same call; constructors leave it nil; CreateBinarizer builds a new binarizer over the source it is given", 6)
	p := c.pkg("")
	if p == nil {
		r.AnchorLost("W-CACHE", "gozxing", "root package not found")
		return
	}
	owners := map[string]bool{"HybridBinarizer": true, "BinaryBitmap": true}
	typeNameOf := func(t types.Type) string {
		if pt, ok := t.(*types.Pointer); ok {
			t = pt.Elem()
		}
		if nt, ok := t.(*types.Named); ok {
			return nt.Obj().Name()
		}
		return ""
	}
	writes := map[string]int{}
	for _, f := range p.Syntax {
		for _, d := range f.Decls {
			fd, ok := d.(*ast.FuncDecl)
			if !ok || fd.Body == nil {
				continue
			}
			fk := fdKey(p, fd)
			ast.Inspect(fd.Body, func(n ast.Node) bool {
				switch x := n.(type) {
				case *ast.AssignStmt:
					for i, l := range x.Lhs {
						sel, isS := l.(*ast.SelectorExpr)
						if !isS || sel.Sel.Name != "matrix" {
							continue
						}
						tn := typeNameOf(p.TypesInfo.TypeOf(sel.X))
						if !owners[tn] {
							continue
						}
						key := fk + " writes " + tn + ".matrix"
						writes[tn]++
						allowed := fd.Recv != nil && fd.Name.Name == "GetBlackMatrix" && typeNameOf(p.TypesInfo.TypeOf(fd.Recv.List[0].Type)) == tn
						if !allowed {
							r.Fail("W-CACHE", key, c.pos(x.Pos()), "violation", "the cached matrix may only be written by "+tn+".GetBlackMatrix")
							continue
						}
						// the stored value: a local defined in this function from a call, or the call itself
						okVal := false
						var rhs ast.Expr
						if len(x.Rhs) == len(x.Lhs) {
							rhs = x.Rhs[i]
						} else if len(x.Rhs) == 1 {
							rhs = x.Rhs[0]
						}
						if call, isC := ast.Unparen(rhs).(*ast.CallExpr); isC {
							okVal = producesMatrix(p, call)
						} else if id := identObj(p, rhs); id != nil {
							ast.Inspect(fd.Body, func(m ast.Node) bool {
								if as, isA := m.(*ast.AssignStmt); isA && as.Tok == token.DEFINE && len(as.Rhs) == 1 {
									if identObj(p, as.Lhs[0]) == id {
										if call, isC := as.Rhs[0].(*ast.CallExpr); isC && producesMatrix(p, call) {
											okVal = true
										}
									}
								}
								return true
							})
						}
						r.Check(okVal, "W-CACHE", key+fmt.Sprintf("#%d", writes[tn]), c.pos(x.Pos()), "the cached value must be the matrix just produced by NewBitMatrix / the wrapped GetBlackMatrix in this call")
					}
				case *ast.CompositeLit:
					tn := typeNameOf(p.TypesInfo.TypeOf(x))
					if !owners[tn] {
						return true
					}
					fs := structLitFields(p, x)
					key := fk + " constructs " + tn
					if e, has := fs["matrix"]; has {
						id, isI := ast.Unparen(e).(*ast.Ident)
						r.Check(isI && id.Name == "nil", "W-CACHE", key, c.pos(x.Pos()), "a new "+tn+" must start without a cached matrix")
					} else {
						r.Pass("W-CACHE", key, c.pos(x.Pos()), "matrix left at its zero value")
					}
				}
				return true
			})
		}
	}
	for tn := range owners {
		if writes[tn] == 0 {
			r.AnchorLost("W-CACHE", tn+".matrix", "no write of the cache found")
		}
	}
	for _, t := range [][2]string{{"HybridBinarizer", "NewHybridBinarizer"}, {"GlobalHistogramBinarizer", "NewGlobalHistgramBinarizer"}} {
		key := "gozxing." + t[0] + ".CreateBinarizer"
		fd, pp := c.funcDeclOf("", t[0]+".CreateBinarizer")
		if fd == nil {
			r.AnchorLost("W-CACHE", key, "method not found")
			continue
		}
		r.Analysed(key)
		ok := false
		if len(fd.Body.List) == 1 {
			if rs, isR := fd.Body.List[0].(*ast.ReturnStmt); isR && len(rs.Results) == 1 {
				if call, isC := ast.Unparen(rs.Results[0]).(*ast.CallExpr); isC && len(call.Args) == 1 {
					ok = isFuncNamed(typeutil.Callee(pp.TypesInfo, call), "", t[1]) && identObj(pp, call.Args[0]) == paramObjs(pp, fd)[0]
				}
			}
		}
		r.Check(ok, "W-CACHE", key, c.pos(fd.Pos()), "CreateBinarizer(source) must return "+t[1]+"(source): a fresh binarizer of the same kind over the new source")
	}
}

func producesMatrix(p *packages.Package, call *ast.CallExpr) bool {
	callee := typeutil.Callee(p.TypesInfo, call)
	if isFuncNamed(callee, "", "NewBitMatrix") {
		return true
	}
	fn, ok := callee.(*types.Func)
	return ok && fn.Name() == "GetBlackMatrix"
}

// checkBlockWalk: in calculateBlackPoints the pair (row counter, running offset) is only ever initialised to
// (0, yoffset*width + xoffset) or advanced by (+1, +width), so offset = (yoffset+row)*width + xoffset is invariant;
// every pixel read is luminances[offset + col] with col a 0..BLOCK_SIZE-1 loop counter, and the row loops stop
// at BLOCK_SIZE.
func checkBlockWalk(c *Ctx, p *packages.Package, fd *ast.FuncDecl, reads []pixRead, xoff, yoff *Poly, widthObj types.Object, bs int64) string {
	if len(reads) == 0 {
		return "no block pixel reads found"
	}
	// the objects holding the clamped offsets at the time of the first read
	var xoffObj, yoffObj types.Object
	for o, v := range reads[0].env {
		if v.equal(xoff) {
			xoffObj = o
		}
		if v.equal(yoff) {
			yoffObj = o
		}
	}
	if xoffObj == nil || yoffObj == nil {
		return "?block offset variables not identified"
	}
	// the running offset: the non-counter identifier of the read index
	var offObj types.Object
	colObjs := map[types.Object]bool{}
	for _, rd := range reads {
		be, ok := ast.Unparen(rd.ix.Index).(*ast.BinaryExpr)
		if !ok || be.Op != token.ADD {
			return "a block pixel read is not luminances[offset + column]: " + exprString(rd.ix.Index)
		}
		a, b := identObj(p, be.X), identObj(p, be.Y)
		if a == nil || b == nil {
			return "a block pixel read is not luminances[offset + column]: " + exprString(rd.ix.Index)
		}
		// the column is the variable of a 0..BLOCK_SIZE-1 loop
		col, off := b, a
		if !isBlockCounter(p, fd, col, bs) {
			col, off = a, b
		}
		if !isBlockCounter(p, fd, col, bs) {
			return "the column of a block pixel read (" + exprString(rd.ix.Index) + ") is not a loop counter over 0..BLOCK_SIZE-1"
		}
		colObjs[col] = true
		if offObj != nil && offObj != off {
			return "block pixel reads use different running offsets"
		}
		offObj = off
	}
	// every assignment to the running offset
	width := polyAtom(objAtom(widthObj))
	bad := ""
	n := 0
	var rowObj types.Object
	ast.Inspect(fd.Body, func(nd ast.Node) bool {
		as, ok := nd.(*ast.AssignStmt)
		if !ok || bad != "" {
			return true
		}
		idx := -1
		for i, l := range as.Lhs {
			if identObj(p, l) == offObj {
				idx = i
			}
		}
		if idx < 0 {
			return true
		}
		n++
		if len(as.Lhs) != 2 || len(as.Rhs) != 2 || (as.Tok != token.DEFINE && as.Tok != token.ASSIGN) {
			bad = c.pos(as.Pos()) + ": the running offset must be assigned together with its row counter"
			return true
		}
		ro := identObj(p, as.Lhs[1-idx])
		if rowObj != nil && ro != rowObj {
			bad = c.pos(as.Pos()) + ": the running offset is paired with different row counters"
			return true
		}
		rowObj = ro
		s := c.newSymExec(p)
		rv, ov := s.expr(as.Rhs[1-idx]), s.expr(as.Rhs[idx])
		rowA, offA := polyAtom(objAtom(ro)), polyAtom(objAtom(offObj))
		isInit := rv.equal(polyInt(0)) && ov.equal(polyAtom(objAtom(yoffObj)).mul(width).add(polyAtom(objAtom(xoffObj))))
		isStep := rv.equal(rowA.add(polyInt(1))) && ov.equal(offA.add(width))
		if !isInit && !isStep {
			bad = c.pos(as.Pos()) + ": (row, offset) becomes (" + prettyPoly(rv) + ", " + prettyPoly(ov) + "); only (0, yoffset*width+xoffset) and (row+1, offset+width) keep offset = (yoffset+row)*width + xoffset"
		}
		return true
	})
	if bad != "" {
		return bad
	}
	if n < 2 || rowObj == nil {
		return "?running offset assignments not found"
	}
	// every loop whose post statement advances the row stops at BLOCK_SIZE
	ast.Inspect(fd.Body, func(nd ast.Node) bool {
		l, ok := nd.(*ast.ForStmt)
		if !ok || l.Post == nil || !assignedIn(p, l.Post, rowObj) {
			return true
		}
		be, isB := ast.Unparen(l.Cond).(*ast.BinaryExpr)
		if !isB || be.Op != token.LSS || identObj(p, be.X) != rowObj {
			bad = c.pos(l.Pos()) + ": a row loop of the block is not bounded by row < BLOCK_SIZE"
			return true
		}
		if v, isK := constInt(p, be.Y); !isK || v != bs {
			bad = c.pos(l.Pos()) + ": a row loop of the block is not bounded by row < BLOCK_SIZE"
		}
		return true
	})
	return bad
}

// isBlockCounter: obj is the variable of some `for obj := 0; obj < BLOCK_SIZE; obj++` in fd and is assigned nowhere else.
func isBlockCounter(p *packages.Package, fd *ast.FuncDecl, obj types.Object, bs int64) bool {
	found := false
	ast.Inspect(fd.Body, func(nd ast.Node) bool {
		if l, ok := nd.(*ast.ForStmt); ok {
			if lr, isR := loopVarRange(p, l); isR && lr.v == obj && lr.lo == 0 && lr.hi == bs && !assignedIn(p, l.Body, obj) {
				found = true
			}
		}
		return true
	})
	return found
}

// ---------------------------------------------------------------------------------------------------------------
// W-ROWALIAS: GetRow never hands out the source's own storage
// ---------------------------------------------------------------------------------------------------------------

func checkRowAlias(c *Ctx, r *Report) {
	r.Rule("W-ROWALIAS", "every LuminanceSource.GetRow of the library returns, on every path, the caller's buffer, a slice made in the call, nil, or what another GetRow returned - never a slice of the source's stored pixels: callers (InvertedLuminanceSource.GetRow inverts in place, binarisers reuse the row as the next buffer) write into what they get back, which would change the source and with it every later row and matrix", 3)
	n := 0
	var fs []*ssa.Function
	for f := range c.allFuncs {
		if f.Name() != "GetRow" || f.Blocks == nil || f.Synthetic != "" || !isRepoPkgFn(f) || f.Signature.Recv() == nil {
			continue
		}
		if strings.HasSuffix(f.Pkg.Pkg.Path(), "/testutil") {
			continue
		}
		res := f.Signature.Results()
		if res.Len() != 2 {
			continue
		}
		if sl, ok := res.At(0).Type().Underlying().(*types.Slice); !ok || !types.Identical(sl.Elem(), types.Typ[types.Byte]) {
			continue
		}
		fs = append(fs, f)
	}
	sort.Slice(fs, func(i, j int) bool { return fs[i].String() < fs[j].String() })
	for _, f := range fs {
		n++
		key := shortFn(f)
		r.Analysed(key)
		bad := ""
		var trace func(v ssa.Value, depth int) string
		trace = func(v ssa.Value, depth int) string {
			if depth > 12 {
				return "value flow too deep to follow"
			}
			switch x := v.(type) {
			case *ssa.Parameter:
				if _, ok := x.Type().Underlying().(*types.Slice); ok {
					return ""
				}
			case *ssa.MakeSlice:
				return ""
			case *ssa.Const:
				if x.IsNil() {
					return ""
				}
			case *ssa.Slice:
				return trace(x.X, depth+1)
			case *ssa.Phi:
				for _, e := range x.Edges {
					if w := trace(e, depth+1); w != "" {
						return w
					}
				}
				return ""
			case *ssa.Extract:
				if call, ok := x.Tuple.(*ssa.Call); ok && x.Index == 0 && call.Call.Value != nil {
					if call.Call.IsInvoke() && call.Call.Method.Name() == "GetRow" {
						return ""
					}
					if g := call.Call.StaticCallee(); g != nil && g.Name() == "GetRow" {
						return ""
					}
				}
			case *ssa.Alloc:
				return "" // a local array
			case *ssa.UnOp:
				if fa, ok := x.X.(*ssa.FieldAddr); ok && x.Op == token.MUL {
					return "the stored field " + fieldKey(fa.X.Type(), fa.Field)
				}
			}
			return fmt.Sprintf("a value the rule cannot classify (%T %s)", v, v.Name())
		}
		for _, ret := range returnsOf(f) {
			if len(ret.Results) != 2 {
				continue
			}
			if w := trace(unspill(ret.Results[0], ret), 0); w != "" {
				bad = fmt.Sprintf("the return at %s hands out %s", c.pos(ret.Pos()), w)
				break
			}
		}
		r.Check(bad == "", "W-ROWALIAS", key, c.pos(f.Pos()), bad)
	}
	if n == 0 {
		r.AnchorLost("W-ROWALIAS", "LuminanceSource.GetRow", "no implementation found")
	}
}

// ---------------------------------------------------------------------------------------------------------------
// M-HISTINIT: every histogram starts from zero
// ---------------------------------------------------------------------------------------------------------------

func checkHistogramInit(c *Ctx, r *Report) {
	r.Rule("M-HISTINIT", "GlobalHistogramBinarizer keeps its 32 histogram buckets on the object: initArrays, folded on a receiver whose buckets are all non-zero, leaves every bucket zero (and a luminance buffer at least as long as asked), and GetBlackRow / GetBlackMatrix call it before the first bucket is counted - so a row's threshold never depends on rows seen before, whether or not an earlier call ended in an error", 3)
	fd, p := c.funcDeclOf("", "GlobalHistogramBinarizer.initArrays")
	key := "gozxing.GlobalHistogramBinarizer.initArrays"
	if fd == nil {
		r.AnchorLost("M-HISTINIT", key, "method not found")
	} else {
		r.Analysed(key)
		bad := ""
		nb, ok := constValIn(c, "", "LUMINANCE_BUCKETS")
		if !ok || nb <= 0 || nb > 4096 {
			bad = "?LUMINANCE_BUCKETS is not a constant"
		}
		for _, have := range []int64{0, 10, 50} {
			if bad != "" {
				break
			}
			buckets := &Val{K: VList, Local: true}
			for i := int64(0); i < nb; i++ {
				buckets.L = append(buckets.L, vint(7+i))
			}
			lum := &Val{K: VList, Local: true}
			for i := int64(0); i < have; i++ {
				lum.L = append(lum.L, vint(1))
			}
			recv := &Val{K: VStruct, Ptr: true, Local: true, Fields: map[string]*Val{"buckets": buckets, "luminances": lum}}
			h := &rpf{unroll: 10000, env: map[types.Object]*Val{recvObj(p, fd): recv}}
			if _, err := c.rpfCall(fd, p, []*Val{vint(30)}, h); err != nil {
				bad = "?" + err.Error()
				break
			}
			bs, okb := listInts(recv.Fields["buckets"])
			if !okb || int64(len(bs)) != nb {
				bad = "the buckets are not 32 counters after initArrays"
				break
			}
			for i, v := range bs {
				if v != 0 {
					bad = fmt.Sprintf("bucket %d still holds %d after initArrays", i, v)
					break
				}
			}
			if l := recv.Fields["luminances"]; bad == "" && (l == nil || l.K != VList || len(l.L) < 30) {
				bad = "the luminance buffer is shorter than the size asked for"
			}
		}
		reportFold(r, c, "M-HISTINIT", key, fd.Pos(), bad)
	}
	for _, name := range []string{"GetBlackRow", "GetBlackMatrix"} {
		fd, p := c.funcDeclOf("", "GlobalHistogramBinarizer."+name)
		key := "gozxing.GlobalHistogramBinarizer." + name
		if fd == nil {
			r.AnchorLost("M-HISTINIT", key, "method not found")
			continue
		}
		r.Analysed(key)
		var initPos, firstCount token.Pos
		ast.Inspect(fd.Body, func(n ast.Node) bool {
			switch x := n.(type) {
			case *ast.CallExpr:
				if fn, ok := typeutil.Callee(p.TypesInfo, x).(*types.Func); ok && fn.Name() == "initArrays" && !initPos.IsValid() {
					initPos = x.Pos()
				}
			case *ast.IncDecStmt:
				if _, isIx := x.X.(*ast.IndexExpr); isIx && !firstCount.IsValid() {
					firstCount = x.Pos()
				}
			}
			return true
		})
		// the call must be at statement level of the body (not under a condition)
		top := false
		for _, st := range fd.Body.List {
			if es, ok := st.(*ast.ExprStmt); ok && es.X.Pos() == initPos {
				top = true
			}
		}
		okOrder := initPos.IsValid() && top && (!firstCount.IsValid() || initPos < firstCount)
		r.Check(okOrder, "M-HISTINIT", key, c.pos(fd.Pos()), "initArrays must be called unconditionally before the first bucket is counted")
	}
}

// S-BLACKPOINT: the global black point on the histograms of bilevel images
func checkBlackPointBilevel(c *Ctx, r *Report) {
	r.Rule("S-BLACKPOINT", "GlobalHistogramBinarizer.estimateBlackPoint, folded from source on the 32-bucket histograms a pure black-and-white image gives - black and white in any proportion from one black sample in two thousand to the reverse, and white alone (the sampled rows of a narrow, tall rendering lie in the quiet zone and miss the symbol) - returns without an error a black point above 0 and at most 255: black pixels (0) fall below it, white pixels (255) do not, so the image is binarised to exactly its black pixels", 1)
	fd, p := c.funcDeclOf("", "GlobalHistogramBinarizer.estimateBlackPoint")
	key := "gozxing.GlobalHistogramBinarizer.estimateBlackPoint/bilevel"
	if fd == nil {
		r.AnchorLost("S-BLACKPOINT", key, "method not found")
		return
	}
	r.Analysed(key)
	bad := ""
	for _, hist := range [][2]int64{{500, 1500}, {1, 1999}, {1999, 1}, {1000, 1000}, {0, 2000}, {37, 80}} {
		buckets := &Val{K: VList}
		for i := 0; i < 32; i++ {
			n := int64(0)
			if i == 0 {
				n = hist[0]
			}
			if i == 31 {
				n = hist[1]
			}
			buckets.L = append(buckets.L, vint(n))
		}
		h := &rpf{unroll: 1000, env: map[types.Object]*Val{}}
		h.env[recvObj(p, fd)] = &Val{K: VStruct, Ptr: true, Fields: map[string]*Val{}}
		h.callHook = errCtorHook
		res, err := c.rpfCall(fd, p, []*Val{buckets}, h)
		what := fmt.Sprintf("a histogram of %d black and %d white samples", hist[0], hist[1])
		if err != nil {
			bad = "?" + what + ": " + err.Error()
			break
		}
		if len(res) != 2 || res[1].K != VNil {
			bad = what + " is refused as having no contrast; a black-and-white image whose sampled rows look like this is then not read at all"
			break
		}
		if !res[0].isInt() || res[0].I <= 0 || res[0].I > 255 {
			bad = fmt.Sprintf("%s gives the black point %v: black (0) must fall below it and white (255) must not", what, valString(res[0]))
			break
		}
	}
	reportFold(r, c, "S-BLACKPOINT", key, fd.Pos(), bad)
}

// S-GHBW: the global-histogram binariser's two entry points folded whole over a scripted source.
func checkGlobalBinarizerWhole(c *Ctx, r *Report) {
	if _, done := r.rules["S-GHBW"]; done {
		return
	}
	r.Rule("S-GHBW", "GlobalHistogramBinarizer.GetBlackRow and GetBlackMatrix folded whole over a scripted source (estimateBlackPoint replaced by a recorder that answers 100): GetBlackRow, for rows of 1, 2, 3, 7 and 40 pixels and a row of 9 on which 4*centre - left - right is odd and next to twice the black point, with no row passed, a shorter one and a longer one that holds bits, hands the estimator the histogram of the whole row (32 buckets of 8 grey levels), answers a cleared row of at least the width in which bit x is set exactly when (4*lum[x] - lum[x-1] - lum[x+1])/2 < 100 for 0 < x < width-1 (for fewer than 3 pixels: lum[x] < 100); GetBlackMatrix, on 10x5 and 7x11 images, hands the estimator the histogram of columns width/5 .. 4*width/5-1 of rows height/5, 2*height/5, 3*height/5, 4*height/5 and answers a width x height matrix whose bit (x, y) is set exactly when matrix[y*width+x] < 100", 2)
	u8 := types.Typ[types.Uint8]
	lumAt := func(i int64) int64 { return (i*89 + (i/3)*41 + 7) % 256 }
	type run struct {
		W, H      int64
		pix       []int64
		rowArg    *Val
		hist      [][]int64
		sets      map[[2]int64]bool
		cleared   bool
		made      [][2]int64
		resultRow *Val
	}
	fold := func(fd *ast.FuncDecl, p *packages.Package, rn *run, args []*Val) ([]*Val, error) {
		rowObj := &Val{K: VStruct, Ptr: true, Fields: map[string]*Val{"\x00made": vbool(true)}}
		h := &rpf{unroll: 4096}
		isRecv := func(fnc *types.Func, name string) bool {
			sig, ok := fnc.Type().(*types.Signature)
			return ok && sig.Recv() != nil && namedOf(sig.Recv().Type()) == name
		}
		h.callHook = func(rr *rpf, call *ast.CallExpr, callee types.Object) (*Val, bool) {
			fnc, ok := callee.(*types.Func)
			if !ok {
				return nil, false
			}
			switch {
			case isRecv(fnc, "LuminanceSource") && fnc.Name() == "GetWidth":
				return vint(rn.W), true
			case isRecv(fnc, "LuminanceSource") && fnc.Name() == "GetHeight":
				return vint(rn.H), true
			case isRecv(fnc, "LuminanceSource") && fnc.Name() == "GetMatrix":
				out := &Val{K: VList}
				for _, v := range rn.pix {
					out.L = append(out.L, &Val{K: VInt, I: v, T: u8})
				}
				return out, true
			case fnc.Name() == "NewBitArray" && fnc.Type().(*types.Signature).Recv() == nil:
				n := rr.expr(call.Args[0])
				if !n.isInt() {
					rpfFail("NewBitArray of a non-constant size")
				}
				rn.made = append(rn.made, [2]int64{n.I, 0})
				rn.sets = map[[2]int64]bool{}
				rowObj.Fields["\x00size"] = vint(n.I)
				return rowObj, true
			case isRecv(fnc, "BitArray") && fnc.Name() == "GetSize":
				if sel, ok := call.Fun.(*ast.SelectorExpr); ok {
					if v := rr.expr(sel.X); v.K == VStruct && v.Fields["\x00size"] != nil {
						return v.Fields["\x00size"], true
					}
				}
				rpfFail("GetSize of an unknown row")
			case isRecv(fnc, "BitArray") && fnc.Name() == "Clear":
				rn.cleared = true
				rn.sets = map[[2]int64]bool{}
				return &Val{K: VNil}, true
			case isRecv(fnc, "BitArray") && fnc.Name() == "Set":
				x := rr.expr(call.Args[0])
				if !x.isInt() {
					rpfFail("row.Set of a non-constant position")
				}
				rn.sets[[2]int64{x.I, 0}] = true
				return &Val{K: VNil}, true
			case isRecv(fnc, "BitMatrix") && fnc.Name() == "Set":
				x, y := rr.expr(call.Args[0]), rr.expr(call.Args[1])
				if !x.isInt() || !y.isInt() {
					rpfFail("matrix.Set of a non-constant position")
				}
				rn.sets[[2]int64{x.I, y.I}] = true
				return &Val{K: VNil}, true
			}
			return errCtorHook(rr, call, callee)
		}
		h.multiHook = func(call *ast.CallExpr, callee types.Object) ([]*Val, bool) {
			fnc, ok := callee.(*types.Func)
			if !ok {
				return nil, false
			}
			rr := rpfCurrent
			switch {
			case isRecv(fnc, "LuminanceSource") && fnc.Name() == "GetRow":
				y := rr.expr(call.Args[0])
				if !y.isInt() || y.I < 0 || y.I >= rn.H {
					rpfFail("the source is asked for row %s of %d", y, rn.H)
				}
				out := &Val{K: VList}
				for x := int64(0); x < rn.W; x++ {
					out.L = append(out.L, &Val{K: VInt, I: rn.pix[y.I*rn.W+x], T: u8})
				}
				return []*Val{out, {K: VNil}}, true
			case fnc.Name() == "estimateBlackPoint":
				b := rr.expr(call.Args[0])
				if b.K != VList {
					rpfFail("estimateBlackPoint is not given the buckets")
				}
				hist, ok := b.ints()
				if !ok {
					rpfFail("the buckets are not integers")
				}
				rn.hist = append(rn.hist, hist)
				return []*Val{vint(100), {K: VNil}}, true
			case fnc.Name() == "NewBitMatrix":
				w, hh := rr.expr(call.Args[0]), rr.expr(call.Args[1])
				if !w.isInt() || !hh.isInt() {
					rpfFail("NewBitMatrix of non-constant dimensions")
				}
				rn.made = append(rn.made, [2]int64{w.I, hh.I})
				rn.sets = map[[2]int64]bool{}
				return []*Val{{K: VStruct, Ptr: true, Fields: map[string]*Val{}}, {K: VNil}}, true
			}
			return nil, false
		}
		buckets := &Val{K: VList, Local: true}
		for i := 0; i < 32; i++ {
			buckets.L = append(buckets.L, vint(5)) // left over from an earlier call
		}
		h.env = map[types.Object]*Val{}
		if ro := recvObj(p, fd); ro != nil {
			h.env[ro] = &Val{K: VStruct, Ptr: true, Local: true, Fields: map[string]*Val{
				"source": {K: VStruct, Ptr: true, Fields: map[string]*Val{}}, "luminances": {K: VNil}, "buckets": buckets}}
		}
		return c.rpfCall(fd, p, args, h)
	}
	histOf := func(vals []int64) []int64 {
		out := make([]int64, 32)
		for _, v := range vals {
			out[v>>3]++
		}
		return out
	}
	sameInts := func(a, b []int64) bool {
		if len(a) != len(b) {
			return false
		}
		for i := range a {
			if a[i] != b[i] {
				return false
			}
		}
		return true
	}
	if fd, p := c.funcDeclOf("", "GlobalHistogramBinarizer.GetBlackRow"); fd == nil {
		r.AnchorLost("S-GHBW", "gozxing.GlobalHistogramBinarizer.GetBlackRow", "method not found")
	} else {
		key := "gozxing.GlobalHistogramBinarizer.GetBlackRow/whole"
		r.Analysed(key)
		bad := ""
		for _, W := range []int64{1, 2, 3, 7, 40, 9} {
			for _, given := range []int64{-1, W - 1, W + 9} {
				if bad != "" {
					break
				}
				rn := &run{W: W, H: 3, sets: map[[2]int64]bool{}}
				for i := int64(0); i < W*3; i++ {
					rn.pix = append(rn.pix, lumAt(i))
				}
				if W == 9 {
					// 4*centre - left - right is 199, 201 and -37 here: odd, and next to twice the black point
					copy(rn.pix[W:2*W], []int64{20, 60, 21, 60, 19, 60, 21, 9, 52})
				}
				rowArg := &Val{K: VNil}
				if given >= 0 {
					rowArg = &Val{K: VStruct, Ptr: true, Fields: map[string]*Val{"\x00size": vint(given)}}
					rn.sets[[2]int64{0, 0}] = true // a bit left by an earlier use
				}
				res, err := fold(fd, p, rn, []*Val{vint(1), rowArg})
				name := fmt.Sprintf("GetBlackRow(1, row of %d bits) on a %d-pixel row", given, W)
				lum := rn.pix[W : 2*W]
				switch {
				case err != nil:
					bad = "?" + name + ": " + err.Error()
				case len(res) != 2 || res[1].K != VNil || res[0].K != VStruct:
					bad = name + " does not return (row, nil)"
				case res[0].Fields["\x00size"] == nil || res[0].Fields["\x00size"].I < W:
					bad = name + " answers a row shorter than the image is wide"
				case given >= W && !rn.cleared && len(rn.made) == 0:
					bad = name + ": the row passed in is used without being cleared"
				case len(rn.hist) != 1 || !sameInts(rn.hist[0], histOf(lum)):
					bad = fmt.Sprintf("%s: estimateBlackPoint is given %v, the histogram of the row is %v", name, rn.hist, histOf(lum))
				default:
					for x := int64(0); x < W; x++ {
						want := false
						if W < 3 {
							want = lum[x] < 100
						} else if x > 0 && x < W-1 {
							want = (4*lum[x]-lum[x-1]-lum[x+1])/2 < 100
						}
						if rn.sets[[2]int64{x, 0}] != want {
							bad = fmt.Sprintf("%s: bit %d is %v, expected %v (pixels %d, %d, %d around it; black point 100)", name, x, rn.sets[[2]int64{x, 0}], want, lum[max(x-1, 0)], lum[x], lum[min(x+1, W-1)])
							break
						}
					}
					for k := range rn.sets {
						if k[0] < 0 || k[0] >= W {
							bad = fmt.Sprintf("%s: bit %d outside the row is set", name, k[0])
						}
					}
				}
			}
		}
		reportFold(r, c, "S-GHBW", key, fd.Pos(), bad)
	}
	if fd, p := c.funcDeclOf("", "GlobalHistogramBinarizer.GetBlackMatrix"); fd == nil {
		r.AnchorLost("S-GHBW", "gozxing.GlobalHistogramBinarizer.GetBlackMatrix", "method not found")
	} else {
		key := "gozxing.GlobalHistogramBinarizer.GetBlackMatrix/whole"
		r.Analysed(key)
		bad := ""
		for _, d := range [][2]int64{{10, 5}, {7, 11}} {
			if bad != "" {
				break
			}
			W, H := d[0], d[1]
			rn := &run{W: W, H: H, sets: map[[2]int64]bool{}}
			for i := int64(0); i < W*H; i++ {
				rn.pix = append(rn.pix, lumAt(i))
			}
			var sampled []int64
			for y := int64(1); y < 5; y++ {
				row := H * y / 5
				for x := W / 5; x < W*4/5; x++ {
					sampled = append(sampled, rn.pix[row*W+x])
				}
			}
			res, err := fold(fd, p, rn, nil)
			name := fmt.Sprintf("GetBlackMatrix on a %dx%d image", W, H)
			switch {
			case err != nil:
				bad = "?" + name + ": " + err.Error()
			case len(res) != 2 || res[1].K != VNil || res[0].K != VStruct:
				bad = name + " does not return (matrix, nil)"
			case len(rn.made) != 1 || rn.made[0] != [2]int64{W, H}:
				bad = fmt.Sprintf("%s: the matrices made are %v, expected one of %dx%d", name, rn.made, W, H)
			case len(rn.hist) != 1 || !sameInts(rn.hist[0], histOf(sampled)):
				bad = fmt.Sprintf("%s: estimateBlackPoint is given %v, the histogram of the four sampled rows is %v", name, rn.hist, histOf(sampled))
			default:
				for y := int64(0); y < H && bad == ""; y++ {
					for x := int64(0); x < W; x++ {
						if want := rn.pix[y*W+x] < 100; rn.sets[[2]int64{x, y}] != want {
							bad = fmt.Sprintf("%s: bit (%d, %d) is %v, the pixel there is %d and the black point 100", name, x, y, rn.sets[[2]int64{x, y}], rn.pix[y*W+x])
							break
						}
					}
				}
				for k := range rn.sets {
					if k[0] < 0 || k[0] >= W || k[1] < 0 || k[1] >= H {
						bad = fmt.Sprintf("%s: bit (%d, %d) outside the image is set", name, k[0], k[1])
					}
				}
			}
		}
		reportFold(r, c, "S-GHBW", key, fd.Pos(), bad)
	}
	r.DecidedBy("S-SHARPEN", "S-GHBW", "GetBlackRow folded whole: every bit of rows of 1 to 40 pixels compared with the -1 4 -1 filter")
	r.DecidedByKeys("S-PIXMAP", "S-GHBW", "GetBlackMatrix folded whole: every bit compared with the pixel at its own coordinates", "GlobalHistogramBinarizer.GetBlackMatrix")
}

// S-HYBRIDW: the local-threshold binariser folded whole over scripted images, against a plain transcription of the method.
func checkHybridWhole(c *Ctx, r *Report) {
	if _, done := r.rules["S-HYBRIDW"]; done {
		return
	}
	r.Rule("S-HYBRIDW", "HybridBinarizer.calculateBlackPoints and HybridBinarizer.GetBlackMatrix folded whole on images of 43x41, 48x45 and 45x48 pixels (neither, only the width, only the height a multiple of the block size) made of textured, flat light, flat dark and nearly flat regions, and on a 40x40 chequer with flat blocks at, one below and one above the neighbours' black point and blocks whose range is 25 by one grey level, and compared with the method written out plainly: blocks of 8x8 at min(8k, size-8); a block's black point is its mean, or for a range of at most 24 - minimum and maximum taken over the rows up to the first one after which the range exceeds 24 - half its minimum, raised to (above + 2*left + above-left)/4 when the minimum lies below that; a pixel is black when it is <= the mean of the 5x5 black points around the block (centre kept 2 away from the edges); the matrix is width x height and every one of its bits is compared", 8)
	u8 := types.Typ[types.Uint8]
	image := func(W, H int64) []int64 {
		pix := make([]int64, W*H)
		for y := int64(0); y < H; y++ {
			for x := int64(0); x < W; x++ {
				var v int64
				if W == 40 && H == 40 {
					// blocks of a 50 / 150 chequer (black point 100) around flat blocks at, just below and just
					// above that value, and blocks whose range is 25 by one grey level at either end
					bx, by, first := x/8, y/8, y%8 == 0
					switch {
					case bx == 1 && by == 1:
						v = 100
					case bx == 3 && by == 2:
						v = 99
					case bx == 2 && by == 3:
						v = 101
					case bx == 3 && by == 3:
						v = 100
						if first && x%8 == 1 {
							v = 124
						} else if first && x%8 == 2 {
							v = 125
						}
					case bx == 4 && by == 3:
						v = 125
						if first && x%8 == 1 {
							v = 101
						} else if first && x%8 == 2 {
							v = 100
						}
					default:
						v = 50 + 100*((x+y)%2)
					}
					pix[y*W+x] = v
					continue
				}
				switch {
				case x < 16 && y < 16: // flat light with a little noise
					v = 200 + (x*3+y*5)%9
				case x >= 24 && y < 16: // flat dark
					v = 20 + (x+y)%7
				case y >= 32 && x < 24: // nearly flat: the range passes 24 only in the lower rows of a block
					v = 120 + (y%8)*4 + (x*7)%5
				case y >= 24 && x >= 24: // flat mid-grey next to texture
					v = 90 + (x*y)%11
				default: // texture
					v = (x*89 + y*57 + (x/3)*41 + (y/2)*13 + 7) % 256
				}
				pix[y*W+x] = v
			}
		}
		return pix
	}
	capv := func(v, lo, hi int64) int64 {
		if v < lo {
			return lo
		}
		if v > hi {
			return hi
		}
		return v
	}
	refPoints := func(pix []int64, W, H int64) [][]int64 {
		subW, subH := (W+7)/8, (H+7)/8
		bp := make([][]int64, subH)
		for y := int64(0); y < subH; y++ {
			bp[y] = make([]int64, subW)
			yo := min(8*y, H-8)
			for x := int64(0); x < subW; x++ {
				xo := min(8*x, W-8)
				sum, mn, mx := int64(0), int64(255), int64(0)
				met := false
				for yy := int64(0); yy < 8; yy++ {
					for xx := int64(0); xx < 8; xx++ {
						p := pix[(yo+yy)*W+xo+xx]
						sum += p
						if !met {
							mn, mx = min(mn, p), max(mx, p)
						}
					}
					if mx-mn > 24 {
						met = true
					}
				}
				avg := sum >> 6
				if mx-mn <= 24 {
					avg = mn / 2
					if y > 0 && x > 0 {
						nb := (bp[y-1][x] + 2*bp[y][x-1] + bp[y-1][x-1]) / 4
						if mn < nb {
							avg = nb
						}
					}
				}
				bp[y][x] = avg
			}
		}
		return bp
	}
	refMatrix := func(pix []int64, W, H int64) map[[2]int64]bool {
		bp := refPoints(pix, W, H)
		subW, subH := (W+7)/8, (H+7)/8
		out := map[[2]int64]bool{}
		for y := int64(0); y < subH; y++ {
			yo := min(8*y, H-8)
			top := capv(y, 2, subH-3)
			for x := int64(0); x < subW; x++ {
				xo := min(8*x, W-8)
				left := capv(x, 2, subW-3)
				sum := int64(0)
				for z := int64(-2); z <= 2; z++ {
					for d := int64(-2); d <= 2; d++ {
						sum += bp[top+z][left+d]
					}
				}
				avg := sum / 25
				for yy := int64(0); yy < 8; yy++ {
					for xx := int64(0); xx < 8; xx++ {
						if pix[(yo+yy)*W+xo+xx] <= avg {
							out[[2]int64{xo + xx, yo + yy}] = true
						}
					}
				}
			}
		}
		return out
	}
	lumList := func(pix []int64) *Val {
		out := &Val{K: VList}
		for _, v := range pix {
			out.L = append(out.L, &Val{K: VInt, I: v, T: u8})
		}
		return out
	}
	fdP, pP := c.funcDeclOf("", "HybridBinarizer.calculateBlackPoints")
	fdM, pM := c.funcDeclOf("", "HybridBinarizer.GetBlackMatrix")
	if fdP == nil || fdM == nil {
		r.AnchorLost("S-HYBRIDW", "gozxing.HybridBinarizer", "calculateBlackPoints or GetBlackMatrix not found")
		return
	}
	for _, d := range [][2]int64{{43, 41}, {48, 45}, {45, 48}, {40, 40}} {
		W, H := d[0], d[1]
		pix := image(W, H)
		subW, subH := (W+7)/8, (H+7)/8
		// the table of black points
		key := fmt.Sprintf("gozxing.HybridBinarizer.calculateBlackPoints/whole(%dx%d)", W, H)
		r.Analysed(key)
		bad := ""
		h := &rpf{unroll: 4096, maxSteps: 4000000}
		h.env = map[types.Object]*Val{}
		if ro := recvObj(pP, fdP); ro != nil {
			h.env[ro] = &Val{K: VStruct, Ptr: true, Fields: map[string]*Val{}}
		}
		res, err := c.rpfCall(fdP, pP, []*Val{lumList(pix), vint(subW), vint(subH), vint(W), vint(H)}, h)
		want := refPoints(pix, W, H)
		switch {
		case err != nil:
			bad = "?" + err.Error()
		case len(res) != 1 || res[0].K != VList || int64(len(res[0].L)) != subH:
			bad = fmt.Sprintf("the table has not %d rows", subH)
		default:
			for y := int64(0); y < subH && bad == ""; y++ {
				row, ok := res[0].L[y].ints()
				if !ok || int64(len(row)) != subW {
					bad = fmt.Sprintf("row %d of the table has not %d black points", y, subW)
					break
				}
				for x := int64(0); x < subW; x++ {
					if row[x] != want[y][x] {
						bad = fmt.Sprintf("the black point of block (%d, %d) is %d, the method gives %d", x, y, row[x], want[y][x])
						break
					}
				}
			}
		}
		reportFold(r, c, "S-HYBRIDW", key, fdP.Pos(), bad)
		// the whole matrix
		key = fmt.Sprintf("gozxing.HybridBinarizer.GetBlackMatrix/whole(%dx%d)", W, H)
		r.Analysed(key)
		bad = ""
		sets := map[[2]int64]bool{}
		var made [][2]int64
		isRecv := func(fnc *types.Func, name string) bool {
			sig, ok := fnc.Type().(*types.Signature)
			return ok && sig.Recv() != nil && namedOf(sig.Recv().Type()) == name
		}
		h = &rpf{unroll: 4096, maxSteps: 8000000}
		h.callHook = func(rr *rpf, call *ast.CallExpr, callee types.Object) (*Val, bool) {
			fnc, ok := callee.(*types.Func)
			if !ok {
				return nil, false
			}
			switch {
			case fnc.Name() == "GetLuminanceSource":
				return &Val{K: VStruct, Ptr: true, Fields: map[string]*Val{}}, true
			case isRecv(fnc, "LuminanceSource") && fnc.Name() == "GetWidth":
				return vint(W), true
			case isRecv(fnc, "LuminanceSource") && fnc.Name() == "GetHeight":
				return vint(H), true
			case isRecv(fnc, "LuminanceSource") && fnc.Name() == "GetMatrix":
				return lumList(pix), true
			case isRecv(fnc, "BitMatrix") && fnc.Name() == "Set":
				x, y := rr.expr(call.Args[0]), rr.expr(call.Args[1])
				if !x.isInt() || !y.isInt() {
					rpfFail("matrix.Set of a non-constant position")
				}
				sets[[2]int64{x.I, y.I}] = true
				return &Val{K: VNil}, true
			}
			return errCtorHook(rr, call, callee)
		}
		h.multiHook = func(call *ast.CallExpr, callee types.Object) ([]*Val, bool) {
			if fnc, ok := callee.(*types.Func); ok && fnc.Name() == "NewBitMatrix" {
				w, hh := rpfCurrent.expr(call.Args[0]), rpfCurrent.expr(call.Args[1])
				if !w.isInt() || !hh.isInt() {
					rpfFail("NewBitMatrix of non-constant dimensions")
				}
				made = append(made, [2]int64{w.I, hh.I})
				return []*Val{{K: VStruct, Ptr: true, Fields: map[string]*Val{"\x00n": vint(int64(len(made)))}}, {K: VNil}}, true
			}
			return nil, false
		}
		h.env = map[types.Object]*Val{}
		if ro := recvObj(pM, fdM); ro != nil {
			h.env[ro] = &Val{K: VStruct, Ptr: true, Local: true, Fields: map[string]*Val{"matrix": {K: VNil}, "GlobalHistogramBinarizer": {K: VStruct, Ptr: true, Fields: map[string]*Val{}}}}
		}
		res, err = c.rpfCall(fdM, pM, nil, h)
		wantM := refMatrix(pix, W, H)
		switch {
		case err != nil:
			bad = "?" + err.Error()
		case len(res) != 2 || res[1].K != VNil || res[0].K != VStruct || res[0].Fields["\x00n"] == nil:
			bad = "GetBlackMatrix does not return (the matrix it made, nil)"
		case len(made) != 1 || made[0] != [2]int64{W, H}:
			bad = fmt.Sprintf("the matrices made are %v, expected one of %dx%d", made, W, H)
		default:
			for y := int64(0); y < H && bad == ""; y++ {
				for x := int64(0); x < W; x++ {
					if sets[[2]int64{x, y}] != wantM[[2]int64{x, y}] {
						bad = fmt.Sprintf("bit (%d, %d) is %v, the method gives %v (pixel %d)", x, y, sets[[2]int64{x, y}], wantM[[2]int64{x, y}], pix[y*W+x])
						break
					}
				}
			}
			for k := range sets {
				if k[0] < 0 || k[0] >= W || k[1] < 0 || k[1] >= H {
					bad = fmt.Sprintf("bit (%d, %d) outside the image is set", k[0], k[1])
				}
			}
		}
		reportFold(r, c, "S-HYBRIDW", key, fdM.Pos(), bad)
	}
	r.DecidedByKeys("S-PIXMAP", "S-HYBRIDW", "the local method folded whole on two images: every black point and every bit compared",
		"HybridBinarizer.thresholdBlock", "calculateBlackPoints/offsets", "calculateThresholdForBlock/offsets", "calculateBlackPoints/reads", "calculateThresholdForBlock/call", "calculateThresholdForBlock/window", "HybridBinarizer.cap")
	r.RelaxCountWhen("S-PIXMAP", "S-HYBRIDW", "S-GHBW")
	r.DecidedByKeys("S-THRESH", "S-HYBRIDW", "the local method folded whole on two images: every black point and every bit compared",
		"HybridBinarizer.thresholdBlock/compare", "calculateBlackPoints/blackpoint")
}

// S-ESTIMATOR: the black-point estimator folded on grey histograms against the method written out, ties included.
func checkBlackPointEstimator(c *Ctx, r *Report) {
	r.Rule("S-ESTIMATOR", "GlobalHistogramBinarizer.estimateBlackPoint folded on 80 histograms of 32 buckets (two and three humps of varied heights and distances, flat stretches, equal peaks, and valleys whose scores tie) and compared with the method written out: the tallest bucket (the first of equals), the second peak by count times squared distance (the first of equals), too little contrast when the two peaks are at most 2 buckets apart, otherwise the valley between them that maximises (distance from the black peak) squared times distance to the white peak times (tallest count minus the valley's count), searched from the white peak downwards so that of equal scores the one nearer the white peak wins; the result is the valley's bucket times 8", 1)
	fd, p := c.funcDeclOf("", "GlobalHistogramBinarizer.estimateBlackPoint")
	key := "gozxing.GlobalHistogramBinarizer.estimateBlackPoint/grey"
	if fd == nil {
		r.AnchorLost("S-ESTIMATOR", key, "method not found")
		return
	}
	r.Analysed(key)
	ref := func(b []int64) (int64, bool) {
		n := int64(len(b))
		var maxCount, firstPeak, firstSize int64
		for x := int64(0); x < n; x++ {
			if b[x] > firstSize {
				firstPeak, firstSize = x, b[x]
			}
			if b[x] > maxCount {
				maxCount = b[x]
			}
		}
		var secondPeak, secondScore int64
		for x := int64(0); x < n; x++ {
			d := x - firstPeak
			if s := b[x] * d * d; s > secondScore {
				secondPeak, secondScore = x, s
			}
		}
		if firstPeak > secondPeak {
			firstPeak, secondPeak = secondPeak, firstPeak
		}
		if secondPeak-firstPeak <= n/16 {
			return 0, false
		}
		best, bestScore := secondPeak-1, int64(-1)
		for x := secondPeak - 1; x > firstPeak; x-- {
			f := x - firstPeak
			if s := f * f * (secondPeak - x) * (maxCount - b[x]); s > bestScore {
				best, bestScore = x, s
			}
		}
		return best << 3, true
	}
	var hists [][]int64
	hump := func(h []int64, at, height, spread int64) {
		for d := -spread; d <= spread; d++ {
			if x := at + d; x >= 0 && x < 32 {
				v := height - (height*abs64(d))/(spread+1)
				if v > h[x] {
					h[x] = v
				}
			}
		}
	}
	for i := int64(0); i < 60; i++ {
		h := make([]int64, 32)
		hump(h, (i*5)%13, 40+(i*7)%50, 1+i%3)
		hump(h, 18+(i*3)%14, 30+(i*11)%60, 1+(i/3)%3)
		if i%4 == 0 {
			hump(h, 12+(i%5), 20+(i*13)%30, 1)
		}
		for x := range h {
			h[x] += (i*int64(x) + i/2) % 3
		}
		hists = append(hists, h)
	}
	// ties: a flat valley floor between two equal peaks; valley candidates with equal scores; equal first peaks;
	// the row 0 x8, 7, 28, 47, 40 x7 of the seeded change C17-18 (buckets 0, 3, 5 hold 9, 1 and 8 pixels)
	for _, spec := range [][][2]int64{
		{{2, 50}, {20, 50}}, {{2, 50}, {20, 50}, {10, 5}, {11, 5}, {12, 5}}, {{0, 9}, {3, 1}, {5, 8}}, {{0, 9}, {3, 1}, {5, 8}, {4, 1}},
		{{4, 30}, {4 + 3, 30}}, {{4, 30}, {4 + 2, 30}}, {{1, 10}, {31, 10}}, {{1, 10}, {31, 10}, {16, 10}}, {{0, 8}, {1, 1}, {2, 1}, {3, 1}, {4, 1}, {5, 1}, {6, 8}},
		{{3, 12}, {9, 12}, {15, 12}, {21, 12}}, {{10, 100}, {11, 99}, {30, 2}}, {{10, 100}, {13, 1}}, {{31, 60}, {0, 1}}, {{15, 1}}, {},
		{{5, 20}, {25, 20}, {10, 7}, {20, 7}}, {{5, 20}, {25, 20}, {10, 7}, {15, 9}, {20, 7}}, {{0, 1}, {31, 1}}, {{7, 1000}, {12, 999}, {17, 998}}, {{6, 3}, {9, 3}, {8, 3}, {7, 3}},
	} {
		h := make([]int64, 32)
		for _, e := range spec {
			h[e[0]] = e[1]
		}
		hists = append(hists, h)
	}
	bad := ""
	for _, hist := range hists {
		buckets := &Val{K: VList}
		for _, v := range hist {
			buckets.L = append(buckets.L, vint(v))
		}
		h := &rpf{unroll: 1000, env: map[types.Object]*Val{}}
		h.callHook = errCtorHook
		if ro := recvObj(p, fd); ro != nil {
			h.env[ro] = &Val{K: VStruct, Ptr: true, Fields: map[string]*Val{}}
		}
		res, err := c.rpfCall(fd, p, []*Val{buckets}, h)
		want, ok := ref(hist)
		switch {
		case err != nil:
			bad = "?" + err.Error()
		case len(res) != 2:
			bad = "estimateBlackPoint does not return (black point, error)"
		case !ok && res[1].K == VNil:
			bad = fmt.Sprintf("histogram %v: a black point %s is returned, the method finds too little contrast", hist, res[0])
		case ok && (res[1].K != VNil || !res[0].isInt() || res[0].I != want):
			bad = fmt.Sprintf("histogram %v: the result is (%s, %s), the method gives %d", hist, res[0], res[1], want)
		}
		if bad != "" {
			break
		}
	}
	reportFold(r, c, "S-ESTIMATOR", key, fd.Pos(), bad)
}

func abs64(x int64) int64 {
	if x < 0 {
		return -x
	}
	return x
}
