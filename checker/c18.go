package main

import (
	"fmt"
	"go/ast"
	"go/token"
	"go/types"
	"sort"
	"strings"

	"golang.org/x/tools/go/ssa"
)

func init() {
	registerProp("C18", "Independent readers and writers can run concurrently", checkC18)
}

// W-STORE: "global-derived" value flow. Seeds are the package-level variables of every non-test package (their
// addresses and loaded values). Propagation (may-analysis, least fixpoint):
//   - address arithmetic and projections: FieldAddr, IndexAddr, Field, Index, Slice, Lookup, loads, Phi, Extract,
//     ChangeType/ChangeInterface/Convert, MakeInterface, TypeAssert, MakeClosure bindings
//   - field-based heap: a derived value stored into field T.f makes every load of T.f derived; a derived value stored
//     into a slice/array/map element of element type E makes loads from containers of E derived
//   - interprocedural, context-insensitive: derived argument -> callee parameter; derived return value -> call result
// A write is a Store / MapUpdate through a derived address, or a builtin copy/delete/clear on a derived value,
// or an external call receiving a derived pointer/slice/map and not on the frozen list of non-mutating externals.
// Every write must sit in a function reachable only from package initialisers.

type sharedFlow struct {
	c        *Ctx
	funcs    []*ssa.Function
	derived  map[ssa.Value]string // value -> witness global
	fields   map[string]string    // "pkg.Type.field" -> witness
	elems    map[string]string    // element type string -> witness (containers of that element type)
	initOnly map[*ssa.Function]bool
	nf       *nilFlow
}

func fieldKey(t types.Type, idx int) string {
	if p, ok := t.Underlying().(*types.Pointer); ok {
		t = p.Elem()
	}
	st, ok := t.Underlying().(*types.Struct)
	if !ok || idx >= st.NumFields() {
		return ""
	}
	return types.TypeString(t, nil) + "." + st.Field(idx).Name()
}

func pointerLike(t types.Type) bool {
	switch t.Underlying().(type) {
	case *types.Pointer, *types.Slice, *types.Map, *types.Interface, *types.Signature, *types.Chan:
		return true
	}
	return false
}

func (c *Ctx) newSharedFlow(nf *nilFlow) *sharedFlow {
	sf := &sharedFlow{c: c, funcs: nf.funcs, derived: map[ssa.Value]string{}, fields: map[string]string{}, elems: map[string]string{}, initOnly: map[*ssa.Function]bool{}, nf: nf}
	// init-only functions
	cg := c.CG()
	isInit := func(f *ssa.Function) bool {
		return f.Name() == "init" || strings.HasPrefix(f.Name(), "init#")
	}
	for _, f := range sf.funcs {
		if isInit(f) {
			sf.initOnly[f] = true
		}
	}
	for changed := true; changed; {
		changed = false
		for _, f := range sf.funcs {
			if sf.initOnly[f] {
				continue
			}
			n := cg.Nodes[f]
			if n == nil || len(n.In) == 0 {
				continue
			}
			// exported functions and methods can be called by anyone at any time
			if f.Object() != nil && f.Object().Exported() && f.Parent() == nil {
				continue
			}
			all := true
			for _, e := range n.In {
				if e.Caller == nil || e.Caller.Func == nil || !sf.initOnly[e.Caller.Func] {
					all = false
					break
				}
			}
			if all {
				sf.initOnly[f] = true
				changed = true
			}
		}
	}
	// fixpoint
	for iter := 0; iter < 60; iter++ {
		changed := false
		mark := func(v ssa.Value, w string) {
			if v == nil || w == "" {
				return
			}
			if _, ok := sf.derived[v]; !ok {
				sf.derived[v] = w
				changed = true
			}
		}
		for _, f := range sf.funcs {
			for _, b := range f.Blocks {
				for _, in := range b.Instrs {
					switch x := in.(type) {
					case *ssa.UnOp:
						if x.Op == token.MUL {
							if g, ok := x.X.(*ssa.Global); ok && isRepoPkg(g.Pkg.Pkg) {
								if pointerLike(x.Type()) {
									mark(x, shortObj(g.Object()))
								}
								continue
							}
							if w, ok := sf.derived[x.X]; ok && pointerLike(x.Type()) {
								mark(x, w)
							}
							// field-based heap
							if fa, ok := x.X.(*ssa.FieldAddr); ok {
								if w, ok := sf.fields[fieldKey(fa.X.Type(), fa.Field)]; ok && pointerLike(x.Type()) {
									mark(x, w)
								}
							}
							if _, ok := x.X.(*ssa.IndexAddr); ok {
								if w, ok := sf.elems[f.String()+"|"+types.TypeString(x.Type(), nil)]; ok && pointerLike(x.Type()) {
									mark(x, w)
								}
							}
						}
					case *ssa.FieldAddr:
						if g, ok := x.X.(*ssa.Global); ok && isRepoPkg(g.Pkg.Pkg) {
							mark(x, shortObj(g.Object()))
						} else if w, ok := sf.derived[x.X]; ok {
							mark(x, w)
						}
					case *ssa.IndexAddr:
						if g, ok := x.X.(*ssa.Global); ok && isRepoPkg(g.Pkg.Pkg) {
							mark(x, shortObj(g.Object()))
						} else if w, ok := sf.derived[x.X]; ok {
							mark(x, w)
						}
					case *ssa.Field:
						if w, ok := sf.derived[x.X]; ok && pointerLike(x.Type()) {
							mark(x, w)
						}
					case *ssa.Index:
						if w, ok := sf.derived[x.X]; ok && pointerLike(x.Type()) {
							mark(x, w)
						}
					case *ssa.Lookup:
						if w, ok := sf.derived[x.X]; ok {
							mark(x, w)
						}
					case *ssa.Slice:
						if g, ok := x.X.(*ssa.Global); ok && isRepoPkg(g.Pkg.Pkg) {
							mark(x, shortObj(g.Object())) // a slice of a package-level array shares its storage
						} else if w, ok := sf.derived[x.X]; ok {
							mark(x, w)
						}
					case *ssa.Phi:
						for _, e := range x.Edges {
							if w, ok := sf.derived[e]; ok {
								mark(x, w)
							}
						}
					case *ssa.Extract:
						if _, isCall := x.Tuple.(*ssa.Call); !isCall {
							if w, ok := sf.derived[x.Tuple]; ok && pointerLike(x.Type()) {
								mark(x, w)
							}
						}
					case *ssa.ChangeType:
						if w, ok := sf.derived[x.X]; ok {
							mark(x, w)
						}
					case *ssa.ChangeInterface:
						if w, ok := sf.derived[x.X]; ok {
							mark(x, w)
						}
					case *ssa.Convert:
						if w, ok := sf.derived[x.X]; ok && pointerLike(x.Type()) {
							mark(x, w)
						}
					case *ssa.MakeInterface:
						if w, ok := sf.derived[x.X]; ok && pointerLike(x.X.Type()) {
							mark(x, w)
						}
					case *ssa.TypeAssert:
						if w, ok := sf.derived[x.X]; ok {
							mark(x, w)
						}
					case *ssa.Next:
						if w, ok := sf.derived[x.Iter]; ok {
							mark(x, w)
						}
					case *ssa.Range:
						if w, ok := sf.derived[x.X]; ok {
							mark(x, w)
						}
					case *ssa.Store:
						// heap: derived value stored somewhere
						if w, ok := sf.derived[x.Val]; ok {
							if fa, ok := x.Addr.(*ssa.FieldAddr); ok {
								k := fieldKey(fa.X.Type(), fa.Field)
								if _, seen := sf.fields[k]; !seen && k != "" {
									sf.fields[k] = w
									changed = true
								}
							}
							if _, ok := x.Addr.(*ssa.IndexAddr); ok {
								k := f.String() + "|" + types.TypeString(x.Val.Type(), nil)
								if _, seen := sf.elems[k]; !seen {
									sf.elems[k] = w
									changed = true
								}
							}
						}
					case *ssa.Call:
						com := x.Common()
						callees := nf.callees(x)
						// arguments -> parameters
						for _, g := range callees {
							if g.Blocks == nil || !isRepoPkgFn(g) {
								continue
							}
							args := com.Args
							params := g.Params
							if com.IsInvoke() {
								if w, ok := sf.derived[com.Value]; ok && len(params) > 0 {
									mark(params[0], w)
								}
								params = params[min1(1, len(params)):]
							}
							for i, a := range args {
								if i < len(params) {
									if w, ok := sf.derived[a]; ok {
										mark(params[i], w)
									}
								}
							}
							// free variables of closures
							if mc, ok := com.Value.(*ssa.MakeClosure); ok {
								for i, bnd := range mc.Bindings {
									if w, ok := sf.derived[bnd]; ok && i < len(g.FreeVars) {
										mark(g.FreeVars[i], w)
									}
								}
							}
							// results
							for _, r := range returnsOf(g) {
								for i, rv := range retVals(r) {
									if w, ok := sf.derived[rv]; ok {
										if len(r.Results) == 1 && i == 0 {
											if pointerLike(x.Type()) {
												mark(x, w)
											}
										} else if x.Referrers() != nil {
											for _, ref := range *x.Referrers() {
												if ex, ok := ref.(*ssa.Extract); ok && ex.Index == i && pointerLike(ex.Type()) {
													mark(ex, w)
												}
											}
										}
									}
								}
							}
						}
						// builtin append(derived, ...) returns a slice that may share the backing array
						if bi, ok := com.Value.(*ssa.Builtin); ok && bi.Name() == "append" && len(com.Args) > 0 {
							if w, ok := sf.derived[com.Args[0]]; ok {
								mark(x, w)
							}
						}
					}
				}
			}
		}
		if !changed {
			break
		}
	}
	return sf
}

func min1(a, b int) int {
	if a < b {
		return a
	}
	return b
}

// externals that never write through their arguments
func nonMutatingExternal(name string) bool {
	for _, p := range []string{"fmt.", "strings.", "strconv.", "math.", "math/bits.", "unicode/utf8.", "errors.", "golang.org/x/xerrors.", "sort.Search", "bytes.Equal", "bytes.Index", "bytes.Compare", "reflect.DeepEqual",
		"(golang.org/x/text/encoding.Encoding).", "(*golang.org/x/text/encoding.Decoder).", "(*golang.org/x/text/encoding.Encoder).", "golang.org/x/text/transform.Append", "golang.org/x/text/transform.String",
		"(*golang.org/x/text/encoding/ianaindex.Index).", "(image.Image).", "(image/color.Color).", "(image/color.Model)."} {
		if strings.HasPrefix(name, p) {
			return true
		}
	}
	return false
}

type sharedWrite struct {
	Fn      *ssa.Function
	Pos     token.Pos
	Witness string
	What    string
}

func (sf *sharedFlow) writes() []sharedWrite {
	var out []sharedWrite
	for _, f := range sf.funcs {
		for _, b := range f.Blocks {
			for _, in := range b.Instrs {
				switch x := in.(type) {
				case *ssa.Store:
					if g, ok := x.Addr.(*ssa.Global); ok && isRepoPkg(g.Pkg.Pkg) {
						out = append(out, sharedWrite{f, x.Pos(), shortObj(g.Object()), "assignment to the package variable"})
					} else if w, ok := sf.derived[x.Addr]; ok {
						out = append(out, sharedWrite{f, x.Pos(), w, "store through an address derived from the package variable"})
					}
				case *ssa.MapUpdate:
					if w, ok := sf.derived[x.Map]; ok {
						out = append(out, sharedWrite{f, x.Pos(), w, "map update on a map derived from the package variable"})
					}
				case *ssa.Call:
					com := x.Common()
					if bi, ok := com.Value.(*ssa.Builtin); ok {
						switch bi.Name() {
						case "copy", "delete", "clear":
							if len(com.Args) > 0 {
								if w, ok := sf.derived[com.Args[0]]; ok {
									out = append(out, sharedWrite{f, x.Pos(), w, bi.Name() + "() on a value derived from the package variable"})
								}
							}
						case "append":
							// append writes into the spare capacity of its first argument's backing array
							if len(com.Args) > 1 {
								if w, ok := sf.derived[com.Args[0]]; ok {
									out = append(out, sharedWrite{f, x.Pos(), w, "append() to a slice derived from the package variable: the elements land in its backing array when the capacity allows"})
								}
							}
						}
						continue
					}
					for _, g := range sf.nf.callees(x) {
						if g.Blocks != nil && isRepoPkgFn(g) {
							continue
						}
						name := extName(g)
						if nonMutatingExternal(name) {
							continue
						}
						args := com.Args
						for _, a := range args {
							if w, ok := sf.derived[a]; ok && pointerLike(a.Type()) {
								if _, isStr := a.Type().Underlying().(*types.Basic); isStr {
									continue
								}
								out = append(out, sharedWrite{f, x.Pos(), w, "passed to external " + name + " which may write through it"})
							}
						}
					}
				}
			}
		}
	}
	return out
}

var frozenSharedWriters = map[string]string{
	"common.GridSampler_SetGridSampler": "the documented global configuration hook: replaces the sampler for the whole process; not reachable from any Encode/Decode entry point (checked as its own obligation)",
}

// checkSharedStores is rule W-STORE, over all package variables or (pkgPrefix non-empty) those of the packages whose
// import path, relative to the module, starts with one of the comma-separated prefixes.
func checkSharedStores(c *Ctx, r *Report, pkgPrefix string, min int) *nilFlow {
	what := "every package variable"
	if pkgPrefix != "" {
		what = "every package variable of " + pkgPrefix
	}
	r.Rule("W-STORE", "package-level state ("+what+" and everything reachable from it) is written only by functions reachable solely from package initialisers - a store through an address derived from the variable, a map update, copy / clear / delete, an append into the spare capacity of a slice of it, a hand-over to an external function that may write; one obligation per package variable, listing its writers", min)
	wanted := func(key string) bool {
		if pkgPrefix == "" {
			return true
		}
		for _, pre := range strings.Split(pkgPrefix, ",") {
			if strings.HasPrefix(key, pre+".") || strings.HasPrefix(key, pre+"/") {
				return true
			}
		}
		return false
	}
	nf := c.newNilFlow()
	sf := c.newSharedFlow(nf)
	ws := sf.writes()
	// all package-level vars
	type gv struct {
		key string
		pos token.Pos
	}
	var globals []gv
	for _, p := range c.PkgList {
		if strings.HasSuffix(p.PkgPath, "/testutil") {
			continue
		}
		sp := c.SSA[p.PkgPath]
		for _, m := range sp.Members {
			if g, ok := m.(*ssa.Global); ok && g.Object() != nil && !strings.HasPrefix(g.Name(), "init$") {
				if wanted(shortObj(g.Object())) {
					globals = append(globals, gv{shortObj(g.Object()), g.Pos()})
				}
			}
		}
	}
	sort.Slice(globals, func(i, j int) bool { return globals[i].key < globals[j].key })
	// a package variable initialised to an empty slice literal has no elements and no spare capacity: element
	// stores through it cannot happen (they would be index-out-of-range), and append allocates a fresh array
	emptySlices := map[string]bool{}
	for _, p := range c.PkgList {
		sp := c.SSA[p.PkgPath]
		for _, m := range sp.Members {
			if g, ok := m.(*ssa.Global); ok && g.Object() != nil {
				if _, isSlice := g.Object().Type().Underlying().(*types.Slice); !isSlice {
					continue
				}
				if init, ip := c.varInitOfObj(g.Object()); init != nil {
					if cl, ok := init.(*ast.CompositeLit); ok && len(cl.Elts) == 0 {
						_ = ip
						emptySlices[shortObj(g.Object())] = true
					}
				}
			}
		}
	}
	byGlobal := map[string][]sharedWrite{}
	for _, w := range ws {
		if emptySlices[w.Witness] && (strings.HasPrefix(w.What, "store through an address") || strings.HasPrefix(w.What, "append()")) {
			continue
		}
		byGlobal[w.Witness] = append(byGlobal[w.Witness], w)
	}
	r.Extra("empty_slice_globals", len(emptySlices))
	writerSets := map[string][]string{}
	for _, g := range globals {
		var bad []string
		seenW := map[string]bool{}
		for _, w := range byGlobal[g.key] {
			name := shortFn(w.Fn)
			if !seenW[name] {
				seenW[name] = true
				writerSets[g.key] = append(writerSets[g.key], name)
			}
			if sf.initOnly[w.Fn] {
				continue
			}
			if _, ok := frozenSharedWriters[name]; ok {
				continue
			}
			bad = append(bad, fmt.Sprintf("%s at %s (%s)", name, c.pos(w.Pos), w.What))
		}
		if len(bad) == 0 {
			r.Pass("W-STORE", g.key, c.pos(g.pos), "")
		} else {
			sort.Strings(bad)
			r.Fail("W-STORE", g.key, c.pos(g.pos), "violation", "written after package initialisation by: "+strings.Join(bad, "; ")+" — shared mutable state breaks independent concurrent use")
		}
		r.Analysed("package variable " + g.key)
	}
	// writes whose witness is not a known global key (should not happen) are reported too
	known := map[string]bool{}
	for _, g := range globals {
		known[g.key] = true
	}
	for w, list := range byGlobal {
		if !known[w] && pkgPrefix == "" {
			for _, x := range list {
				if !sf.initOnly[x.Fn] {
					r.Fail("W-STORE", w, c.pos(x.Pos), "violation", "write to shared state in "+shortFn(x.Fn))
				}
			}
		}
	}
	r.Extra("writer_sets", writerSets)

	// W-HOOK
	return nf
}

func checkC18(c *Ctx, r *Report) {
	r.Rule("W-HOOK", "the one allowed post-init writer, GridSampler_SetGridSampler, is not reachable from any reader/writer entry point", 1)
	r.Rule("W-NOGO", "the library starts no goroutine and uses no sync/atomic/unsafe (asserted over all non-test files), so the only sharing between independent instances is package-level state", 1)
	r.Rule("W-FRESH", "the per-call objects named in the property's anchors are allocated inside the call: generateECBytes calls NewReedSolomonEncoder, EncodeHighLevel builds its six mode encoders, decoders are built by constructors; none is loaded from a package variable", 3)
	nf := checkSharedStores(c, r, "", 60)
	checkHintMapsReadOnly(c, r)
	checkNoSharedTransformers(c, r)
	checkFreshResults(c, r, "")
	checkMatrixCache(c, r) // binarizers and bitmaps made by Crop / Rotate / CreateBinarizer own their buffers (same obligations as under C17)
	var roots []*ssa.Function
	roots = append(roots, nf.entryMethods("", "Reader", "Decode")...)
	roots = append(roots, nf.entryMethods("", "Writer", "Encode")...)
	roots = append(roots, nf.entryMethods("oned", "RowDecoder", "DecodeRow")...)
	reach := nf.reachableFrom(roots)
	if hook := c.ssaFunc("common", "GridSampler_SetGridSampler"); hook != nil {
		r.Check(!reach[hook], "W-HOOK", "common.GridSampler_SetGridSampler", c.pos(hook.Pos()), "the global sampler hook is reachable from an entry point")
	} else {
		r.Pass("W-HOOK", "common.GridSampler_SetGridSampler", "", "hook not present")
	}

	// W-NOGO
	bad := ""
	for _, p := range c.PkgList {
		if strings.HasSuffix(p.PkgPath, "/testutil") {
			continue
		}
		for _, f := range p.Syntax {
			for _, imp := range f.Imports {
				switch imp.Path.Value {
				case `"sync"`, `"sync/atomic"`, `"unsafe"`:
					bad = c.pos(imp.Pos()) + " imports " + imp.Path.Value
				}
			}
			ast.Inspect(f, func(n ast.Node) bool {
				if g, ok := n.(*ast.GoStmt); ok {
					bad = c.pos(g.Pos()) + " starts a goroutine"
				}
				return true
			})
		}
	}
	r.Check(bad == "", "W-NOGO", "all packages", "", bad+": the who-may-write argument covers package state only")

	// W-FRESH
	fresh := func(rel, fn string, ctorRel string, ctors ...string) {
		f := c.ssaFunc(rel, fn)
		key := rel + "." + fn
		if f == nil {
			r.AnchorLost("W-FRESH", key, "function not found")
			return
		}
		found := map[string]bool{}
		for _, b := range f.Blocks {
			for _, in := range b.Instrs {
				if call, ok := in.(*ssa.Call); ok {
					if sc := call.Common().StaticCallee(); sc != nil {
						found[sc.Name()] = true
					}
				}
			}
		}
		var missing []string
		for _, k := range ctors {
			if !found[k] {
				missing = append(missing, k)
			}
		}
		r.Check(len(missing) == 0, "W-FRESH", key, c.pos(f.Pos()), fmt.Sprintf("per-call construction of %v not found in the function body (hoisted into shared state?)", missing))
	}
	fresh("qrcode/encoder", "generateECBytes", "common/reedsolomon", "NewReedSolomonEncoder")
	fresh("datamatrix/encoder", "EncodeHighLevel", "datamatrix/encoder", "NewASCIIEncoder", "NewC40Encoder", "NewTextEncoder", "NewX12Encoder", "NewEdifactEncoder", "NewBase256Encoder", "NewEncoderContext")
	fresh("qrcode/decoder", "NewDecoder", "common/reedsolomon", "NewReedSolomonDecoder")
	r.Note("decides 'no write to shared state after init' (which implies freedom from data races between independent instances under the Go memory model: package initialisation happens before main); does not decide that concurrent results equal sequential results beyond that")
}

// W-HINTS: the hints a caller passes in are read, never written
func checkHintMapsReadOnly(c *Ctx, r *Report) {
	r.Rule("W-HINTS", "no function of the module stores into or deletes from a hints map it received as a parameter (map[DecodeHintType]interface{} / map[EncodeHintType]interface{}), directly or through a callee it hands the map to: two calls that share one hints map - the usual way to configure several readers - do not see each other's changes, and a map being read by one goroutine is not written by another; a reader that needs a modified set of hints builds its own map", 1)
	isHints := func(t types.Type) bool {
		m, ok := t.Underlying().(*types.Map)
		if !ok {
			return false
		}
		n, ok := m.Key().(*types.Named)
		return ok && (n.Obj().Name() == "DecodeHintType" || n.Obj().Name() == "EncodeHintType")
	}
	var fns []*ssa.Function
	for f := range c.allFuncs {
		if isRepoPkgFn(f) && f.Blocks != nil {
			fns = append(fns, f)
		}
	}
	sort.Slice(fns, func(i, j int) bool { return fns[i].String() < fns[j].String() })
	// origin of a map value inside f: the index of the hints parameter it is, or -1
	var paramOf func(v ssa.Value, seen map[ssa.Value]bool) int
	paramOf = func(v ssa.Value, seen map[ssa.Value]bool) int {
		if seen[v] {
			return -1
		}
		seen[v] = true
		switch x := v.(type) {
		case *ssa.Parameter:
			if isHints(x.Type()) {
				for i, p := range x.Parent().Params {
					if p == x {
						return i
					}
				}
			}
		case *ssa.Phi:
			for _, e := range x.Edges {
				if i := paramOf(e, seen); i >= 0 {
					return i
				}
			}
		case *ssa.ChangeType:
			return paramOf(x.X, seen)
		}
		return -1
	}
	writes := map[*ssa.Function]map[int]string{} // function -> parameter index -> where
	note := func(f *ssa.Function, i int, where string) bool {
		if writes[f] == nil {
			writes[f] = map[int]string{}
		}
		if _, has := writes[f][i]; has {
			return false
		}
		writes[f][i] = where
		return true
	}
	nf := c.newNilFlow()
	for round := 0; round < 10; round++ {
		changed := false
		for _, f := range fns {
			for _, b := range f.Blocks {
				for _, in := range b.Instrs {
					switch x := in.(type) {
					case *ssa.MapUpdate:
						if i := paramOf(x.Map, map[ssa.Value]bool{}); i >= 0 && note(f, i, c.pos(x.Pos())+" (store)") {
							changed = true
						}
					case *ssa.Call:
						com := x.Common()
						if bi, ok := com.Value.(*ssa.Builtin); ok {
							if (bi.Name() == "delete" || bi.Name() == "clear") && len(com.Args) > 0 {
								if i := paramOf(com.Args[0], map[ssa.Value]bool{}); i >= 0 && note(f, i, c.pos(x.Pos())+" ("+bi.Name()+")") {
									changed = true
								}
							}
							continue
						}
						for _, g := range nf.callees(x) {
							w := writes[g]
							if len(w) == 0 {
								continue
							}
							args := com.Args
							off := 0
							if com.IsInvoke() {
								off = 1
							}
							for j, a := range args {
								if where, has := w[j+off]; has {
									if i := paramOf(a, map[ssa.Value]bool{}); i >= 0 && note(f, i, c.pos(x.Pos())+" (handed to "+shortFn(g)+", which writes it at "+where+")") {
										changed = true
									}
								}
							}
						}
					}
				}
			}
		}
		if !changed {
			break
		}
	}
	key := "hints parameters"
	r.Analysed(key)
	var bad []string
	for _, f := range fns {
		for i, where := range writes[f] {
			bad = append(bad, fmt.Sprintf("%s writes its hints parameter %s at %s", shortFn(f), f.Params[i].Name(), where))
		}
	}
	sort.Strings(bad)
	if len(bad) > 3 {
		bad = append(bad[:3], fmt.Sprintf("... and %d more", len(bad)-3))
	}
	r.Check(len(bad) == 0, "W-HINTS", key, "", strings.Join(bad, "; "))
	r.Extra("W-HINTS functions scanned", len(fns))
}

// W-EXTSTATE: package-level state holds no stateful object of a dependency
func checkNoSharedTransformers(c *Ctx, r *Report) {
	r.Rule("W-EXTSTATE", "no package-level variable of the module can reach, through its type (fields, elements, pointers, map keys and values), a text transformer of golang.org/x/text - *encoding.Decoder, *encoding.Encoder or a transform.Transformer: those objects carry conversion state (the UTF-16 decoder rewrites its byte-order state on every use) and are made per call with NewDecoder() / NewEncoder() from the stateless encoding.Encoding values the tables hold; one obligation per package variable whose type is not basic", 10)
	isStateful := func(t types.Type) string {
		if n, ok := t.(*types.Named); ok && n.Obj().Pkg() != nil {
			q := n.Obj().Pkg().Path() + "." + n.Obj().Name()
			switch q {
			case "golang.org/x/text/encoding.Decoder", "golang.org/x/text/encoding.Encoder", "golang.org/x/text/transform.Transformer", "golang.org/x/text/transform.SpanningTransformer":
				return q
			}
		}
		return ""
	}
	var reach func(t types.Type, seen map[types.Type]bool, path string) string
	reach = func(t types.Type, seen map[types.Type]bool, path string) string {
		if seen[t] {
			return ""
		}
		seen[t] = true
		if q := isStateful(t); q != "" {
			return path + " holds a " + q
		}
		switch x := t.(type) {
		case *types.Named:
			if x.Obj().Pkg() != nil && !strings.HasPrefix(x.Obj().Pkg().Path(), modPath) {
				return "" // a dependency's own type: only the listed ones are known to carry state
			}
			return reach(x.Underlying(), seen, path)
		case *types.Pointer:
			return reach(x.Elem(), seen, path)
		case *types.Slice:
			return reach(x.Elem(), seen, path+"[]")
		case *types.Array:
			return reach(x.Elem(), seen, path+"[]")
		case *types.Map:
			if s := reach(x.Key(), seen, path+"[key]"); s != "" {
				return s
			}
			return reach(x.Elem(), seen, path+"[]")
		case *types.Struct:
			for i := 0; i < x.NumFields(); i++ {
				if s := reach(x.Field(i).Type(), seen, path+"."+x.Field(i).Name()); s != "" {
					return s
				}
			}
		}
		return ""
	}
	for _, p := range c.PkgList {
		if !strings.HasPrefix(p.PkgPath, modPath) || strings.HasSuffix(p.PkgPath, "/testutil") {
			continue
		}
		sc := p.Types.Scope()
		for _, name := range sc.Names() {
			v, ok := sc.Lookup(name).(*types.Var)
			if !ok {
				continue
			}
			if _, basic := v.Type().Underlying().(*types.Basic); basic {
				continue
			}
			key := shortObj(v)
			r.Analysed("package variable " + key)
			s := reach(v.Type(), map[types.Type]bool{}, key)
			r.Check(s == "", "W-EXTSTATE", key, c.pos(v.Pos()), s+": one object shared by every reader; concurrent decodes race inside it")
		}
	}
}

// W-FRESHRESULT: functions that hand out a new container do not hand out (an alias of) what they were given
type freshSpec struct{ rel, fn, why string }

var freshResultSpecs = []freshSpec{
	{"datamatrix/encoder", "ErrorCorrection_EncodeECC200", "the interleaved codewords are a buffer of their own: appending the check words to the caller's slice writes into whatever else shares its backing array (the next message of a batch)"},
	{"qrcode", "QRCodeReader.extractPureBits", "the decoder un-masks and mirrors the matrix it is given in place: handing it the caller's own image changes the black matrix cached in the caller's bitmap"},
	{"datamatrix", "extractPureBits", "as for QR: the module matrix is a new one, never the image itself"},
}

func checkFreshResults(c *Ctx, r *Report, only string) {
	r.Rule("W-FRESHRESULT", "the listed functions return storage of their own: walking back from every returned first result through slicing, append (its first argument), conversions and phi nodes never reaches a parameter or the receiver - ErrorCorrection_EncodeECC200 (the interleaved codewords), the pure-barcode extractors of the QR and Data Matrix readers (the module matrix the decoder then changes in place)", 1)
	for _, sp := range freshResultSpecs {
		if only != "" && !strings.HasPrefix(sp.rel, only) {
			continue
		}
		f := c.ssaFunc(sp.rel, sp.fn)
		key := sp.rel + "." + sp.fn
		if f == nil {
			r.AnchorLost("W-FRESHRESULT", key, "function not found")
			continue
		}
		r.Analysed(key)
		bad := ""
		seen := map[ssa.Value]bool{}
		var from func(v ssa.Value) string
		from = func(v ssa.Value) string {
			if seen[v] {
				return ""
			}
			seen[v] = true
			switch x := v.(type) {
			case *ssa.Parameter:
				return x.Name()
			case *ssa.Slice:
				return from(x.X)
			case *ssa.ChangeType:
				return from(x.X)
			case *ssa.Convert:
				return from(x.X)
			case *ssa.MakeInterface:
				return from(x.X)
			case *ssa.Phi:
				for _, e := range x.Edges {
					if s := from(e); s != "" {
						return s
					}
				}
			case *ssa.Call:
				if b, ok := x.Call.Value.(*ssa.Builtin); ok && b.Name() == "append" && len(x.Call.Args) > 0 {
					return from(x.Call.Args[0])
				}
			case *ssa.UnOp:
				// a load from a local the parameter was stored into
				if a, ok := x.X.(*ssa.Alloc); ok && x.Op == token.MUL {
					for _, ref := range *a.Referrers() {
						if st, isSt := ref.(*ssa.Store); isSt && st.Addr == a {
							if s := from(st.Val); s != "" {
								return s
							}
						}
					}
				}
			}
			return ""
		}
		for _, b := range f.Blocks {
			for _, in := range b.Instrs {
				ret, ok := in.(*ssa.Return)
				if !ok || len(ret.Results) == 0 || bad != "" {
					continue
				}
				if cst, isC := ret.Results[0].(*ssa.Const); isC && cst.IsNil() {
					continue
				}
				if p := from(ret.Results[0]); p != "" {
					bad = fmt.Sprintf("the value returned at %s is (derived from) the parameter %s: %s", c.pos(ret.Pos()), p, sp.why)
				}
			}
		}
		reportFold(r, c, "W-FRESHRESULT", key, f.Pos(), bad)
	}
}
