package main

import (
	"fmt"
	"go/ast"
	"go/token"
	"go/types"
	"golang.org/x/tools/go/ssa"
	"math/bits"
	"strconv"
	"strings"

	"golang.org/x/tools/go/packages"
)

func init() {
	registerProp("C07", "QR symbols conform to ISO/IEC 18004", checkC07)
}

func checkC07(c *Ctx, r *Report) {
	r.exhaustive = true
	rows := checkQRVersionTable(c, r)
	checkQRAlignEncoder(c, r)
	checkQRBCHWords(c, r)
	checkQRPatterns(c, r)
	checkQRMasks(c, r)
	checkQRModes(c, r)
	checkQRFunctionPattern(c, r)
	checkQRFormatPlacement(c, r)
	checkQRInfoReadPositions(c, r)
	checkQRPadBytes(c, r)
	checkQRBlockSizing(c, r, rows)
	checkQRInterleave(c, r)
	checkQRZigZag(c, r)
	checkQRTerminate(c, r)
	checkQRBasicPatterns(c, r)
	checkQRFinalBuild(c, r)
	checkVersionDecodeFold(c, r) // the version words are recognised for every version 7..40 (also C05)
	checkQRMaskHint(c, r)
	// Reed-Solomon parity of the QR field: Encode folded on complete small domains (same obligations as under C04)
	checkRSEncodeQR(c, r)
	checkRSInstances(c, r)                                          // the encoder generateECBytes asks for is one of the QR field, whatever was built before (also C04)
	checkSharedStores(c, r, "common/reedsolomon,qrcode/encoder", 5) // no symbol is built from state left by another (also C18)
	checkQRVersionPlacement(c, r)
	checkQRBasicPlacement(c, r)
	r.Assume("ISO/IEC 18004 Table 9 as transcribed in checker/ref_qr.go (cross-validated by the geometry-derived totals: a wrong transcription would make data/blocks non-integral or disagree with the published capacities)")
	r.Note("not decided: that MatrixUtil_buildMatrix calls its (individually decided) steps in the prescribed order for every payload, and mask selection by penalty score (any of the eight masks is a conforming symbol)")
}

// ---- encoder alignment coordinate table ----

func checkQRAlignEncoder(c *Ctx, r *Report) {
	r.Rule("T-QRALIGN-ENC", "encoder matrixUtil_POSITION_ADJUSTMENT_PATTERN_COORDINATE_TABLE row v-1 equals the Annex E formula (padded with -1) and the decoder's list for version v", 40)
	init, p := c.varInit("qrcode/encoder", "matrixUtil_POSITION_ADJUSTMENT_PATTERN_COORDINATE_TABLE")
	name := "qrcode/encoder.matrixUtil_POSITION_ADJUSTMENT_PATTERN_COORDINATE_TABLE"
	if init == nil {
		r.AnchorLost("T-QRALIGN-ENC", name, "table not found")
		return
	}
	r.Analysed(name)
	v := c.eval(p, init)
	if v.K != VList {
		r.Undecided("T-QRALIGN-ENC", name, c.pos(init.Pos()), "not a literal table")
		return
	}
	if len(v.L) != 40 {
		r.Fail("T-QRALIGN-ENC", name+".len", c.pos(init.Pos()), "violation", fmt.Sprintf("%d rows, expected 40", len(v.L)))
	}
	for i, row := range v.L {
		key := fmt.Sprintf("%s[v%d]", name, i+1)
		xs, ok := row.ints()
		if !ok {
			r.Undecided("T-QRALIGN-ENC", key, c.pos(row.Pos), "row is not a constant list")
			continue
		}
		if i >= 40 {
			continue
		}
		ref := refQRAlign(i + 1)
		// the encoder iterates over entries >= 0; padding must be negative
		var got []int
		okPad := true
		seenNeg := false
		for _, x := range xs {
			if x >= 0 {
				if seenNeg {
					okPad = false
				}
				got = append(got, int(x))
			} else {
				seenNeg = true
			}
		}
		same := okPad && len(got) == len(ref)
		if same {
			for k := range ref {
				if got[k] != ref[k] {
					same = false
				}
			}
		}
		r.Check(same, "T-QRALIGN-ENC", key, c.pos(row.Pos), fmt.Sprintf("version %d: encoder centres %v, Annex E formula gives %v", i+1, xs, ref))
	}
}

// ---- BCH code words ----

// the encoder computes its BCH remainders at run time: calculateBCHCode folded (constant propagation with bounded
// unrolling of its division loop) on every version 7..40 and every 5-bit format value
func checkQRBCHEncoder(c *Ctx, r *Report) {
	r.Rule("T-BCHENC", "the encoder's calculateBCHCode(value, generator) yields, for every version 7..40 with the version generator and every format value 0..31 with the format generator, the BCH remainder recomputed independently (12 resp. 10 bits)", 66)
	fd, p := c.funcDeclOf("qrcode/encoder", "calculateBCHCode")
	if fd == nil {
		r.AnchorLost("T-BCHENC", "qrcode/encoder.calculateBCHCode", "function not found")
		return
	}
	r.Analysed("qrcode/encoder.calculateBCHCode")
	hooks := &rpf{unroll: 64, callHook: func(rr *rpf, call *ast.CallExpr, callee types.Object) (*Val, bool) {
		if f, ok := callee.(*types.Func); ok && f.Pkg() != nil && f.Pkg().Path() == "math/bits" {
			v := rr.expr(call.Args[0])
			if !v.isInt() {
				rpfFail("math/bits call on a non-integer")
			}
			switch f.Name() {
			case "LeadingZeros32":
				return vint(int64(bits.LeadingZeros32(uint32(v.I)))), true
			case "Len32", "Len":
				return vint(int64(bits.Len32(uint32(v.I)))), true
			}
		}
		return errCtorHook(rr, call, callee)
	}}
	verPoly, ok1 := constValIn(c, "qrcode/encoder", "matrixUtil_VERSION_INFO_POLY")
	fmtPoly, ok2 := constValIn(c, "qrcode/encoder", "matrixUtil_TYPE_INFO_POLY")
	if !ok1 || !ok2 {
		r.AnchorLost("T-BCHENC", "qrcode/encoder generator constants", "matrixUtil_VERSION_INFO_POLY / matrixUtil_TYPE_INFO_POLY not found")
		return
	}
	for v := int64(7); v <= 40; v++ {
		key := fmt.Sprintf("qrcode/encoder.calculateBCHCode(version %d)", v)
		res, err := c.rpfCall(fd, p, []*Val{vint(v), vint(verPoly)}, hooks)
		want := int64(refQRVersionWord(int(v)) & 0xFFF)
		switch {
		case err != nil:
			r.Undecided("T-BCHENC", key, c.pos(fd.Pos()), err.Error())
		case len(res) != 2 || res[0].K != VInt || res[1].K != VNil || res[0].I != want:
			r.Fail("T-BCHENC", key, c.pos(fd.Pos()), "violation", fmt.Sprintf("remainder %s, BCH(18,6) gives 0x%03X: the version information of version %d symbols would be wrong", valString(res[0]), want, v))
		default:
			r.Pass("T-BCHENC", key, c.pos(fd.Pos()), "")
		}
	}
	for t := int64(0); t < 32; t++ {
		key := fmt.Sprintf("qrcode/encoder.calculateBCHCode(format %d)", t)
		res, err := c.rpfCall(fd, p, []*Val{vint(t), vint(fmtPoly)}, hooks)
		want := int64((refQRFormatWord(int(t)) ^ 0x5412) & 0x3FF)
		switch {
		case err != nil:
			r.Undecided("T-BCHENC", key, c.pos(fd.Pos()), err.Error())
		case len(res) != 2 || res[0].K != VInt || res[1].K != VNil || res[0].I != want:
			r.Fail("T-BCHENC", key, c.pos(fd.Pos()), "violation", fmt.Sprintf("remainder %s, BCH(15,5) gives 0x%03X", valString(res[0]), want))
		default:
			r.Pass("T-BCHENC", key, c.pos(fd.Pos()), "")
		}
	}
}

func constValIn(c *Ctx, rel, name string) (int64, bool) {
	p := c.pkg(rel)
	if p == nil {
		return 0, false
	}
	if v, ok := constVal(p, name); ok {
		return v, true
	}
	// a package-level variable with a constant initialiser (never written after init: rule W-STORE under C18)
	if init, ip := c.varInit(rel, name); init != nil {
		return constInt(ip, init)
	}
	return 0, false
}

func checkQRBCHWords(c *Ctx, r *Report) {
	r.Rule("T-VERWORDS", "VERSION_DECODE_INFO[i] equals the BCH(18,6) code word of version i+7 recomputed with generator 0x1F25", 34)
	r.Rule("T-FMTWORDS", "formatInfoDecodeLookup[i] = {BCH(15,5)(i) xor 0x5412, i} recomputed with generator 0x537", 32)
	r.Rule("T-BCHCONST", "BCH generator and mask constants of encoder and decoder (0x537, 0x5412, 0x1F25) and the shape of calculateBCHCode's uses", 6)

	checkQRBCHEncoder(c, r)
	// version words
	if init, p := c.varInit("qrcode/decoder", "VERSION_DECODE_INFO"); init != nil {
		r.Analysed("qrcode/decoder.VERSION_DECODE_INFO")
		v := c.eval(p, init)
		xs, ok := v.ints()
		if !ok {
			r.Undecided("T-VERWORDS", "qrcode/decoder.VERSION_DECODE_INFO", c.pos(init.Pos()), "not a constant list")
		} else {
			if len(xs) != 34 {
				r.Fail("T-VERWORDS", "qrcode/decoder.VERSION_DECODE_INFO.len", c.pos(init.Pos()), "violation", fmt.Sprintf("%d entries, expected 34 (versions 7..40)", len(xs)))
			}
			for i, x := range xs {
				if i >= 34 {
					break
				}
				want := refQRVersionWord(i + 7)
				r.Check(int(x) == want, "T-VERWORDS", fmt.Sprintf("qrcode/decoder.VERSION_DECODE_INFO[v%d]", i+7), c.pos(v.L[i].Pos),
					fmt.Sprintf("version %d word 0x%05X, BCH(18,6) gives 0x%05X", i+7, x, want))
			}
		}
	} else {
		r.AnchorLost("T-VERWORDS", "qrcode/decoder.VERSION_DECODE_INFO", "table not found")
	}

	// format words
	if init, p := c.varInit("qrcode/decoder", "formatInfoDecodeLookup"); init != nil {
		r.Analysed("qrcode/decoder.formatInfoDecodeLookup")
		v := c.eval(p, init)
		if v.K != VList {
			r.Undecided("T-FMTWORDS", "qrcode/decoder.formatInfoDecodeLookup", c.pos(init.Pos()), "not a literal table")
		} else {
			if len(v.L) != 32 {
				r.Fail("T-FMTWORDS", "qrcode/decoder.formatInfoDecodeLookup.len", c.pos(init.Pos()), "violation", fmt.Sprintf("%d rows, expected 32", len(v.L)))
			}
			seen := map[int64]bool{}
			for i, row := range v.L {
				xs, ok := row.ints()
				key := fmt.Sprintf("qrcode/decoder.formatInfoDecodeLookup[%d]", i)
				if !ok || len(xs) != 2 {
					r.Undecided("T-FMTWORDS", key, c.pos(row.Pos), "row is not a constant pair")
					continue
				}
				data := xs[1]
				okRow := data >= 0 && data < 32 && !seen[data] && int(xs[0]) == refQRFormatWord(int(data))
				seen[data] = true
				want := 0
				if data >= 0 && data < 32 {
					want = refQRFormatWord(int(data))
				}
				r.Check(okRow, "T-FMTWORDS", key, c.pos(row.Pos), fmt.Sprintf("{0x%04X, 0x%02X}: BCH(15,5) of %d masked with 0x5412 is 0x%04X (each data value must appear once)", xs[0], xs[1], data, want))
			}
		}
	} else {
		r.AnchorLost("T-FMTWORDS", "qrcode/decoder.formatInfoDecodeLookup", "table not found")
	}

	constCheck := func(rel, name string, want int64) {
		init, p := c.varInit(rel, name)
		key := rel + "." + name
		if init == nil {
			r.AnchorLost("T-BCHCONST", key, "constant not found")
			return
		}
		v := c.eval(p, init)
		r.Check(v.isInt() && v.I == want, "T-BCHCONST", key, c.pos(init.Pos()), fmt.Sprintf("%s = %s, standard value 0x%X", name, v, want))
	}
	constCheck("qrcode/decoder", "formatInfoMaskQR", 0x5412)
	constCheck("qrcode/encoder", "matrixUtil_TYPE_INFO_MASK_PATTERN", 0x5412)
	constCheck("qrcode/encoder", "matrixUtil_TYPE_INFO_POLY", 0x537)
	constCheck("qrcode/encoder", "matrixUtil_VERSION_INFO_POLY", 0x1F25)

	// makeTypeInfoBits: typeInfo = (ecLevel.GetBits() << 3) | maskPattern; 5 data bits, 10 BCH bits with TYPE_INFO_POLY,
	// xor with 15 bits of TYPE_INFO_MASK_PATTERN. makeVersionInfoBits: 6 + 12 bits with VERSION_INFO_POLY.
	checkAppendSeq(c, r, "T-BCHCONST", "qrcode/encoder", "makeTypeInfoBits", []int64{5, 10, 15}, "matrixUtil_TYPE_INFO_POLY", "matrixUtil_TYPE_INFO_MASK_PATTERN")
	checkAppendSeq(c, r, "T-BCHCONST", "qrcode/encoder", "makeVersionInfoBits", []int64{6, 12}, "matrixUtil_VERSION_INFO_POLY", "")
	checkTypeInfoExpr(c, r)
}

// checkAppendSeq: the AppendBits calls of the function have the given constant widths in order, the
// calculateBCHCode call uses the named polynomial, and (optional) the mask constant is what is appended last.
func checkAppendSeq(c *Ctx, r *Report, rule, rel, fn string, widths []int64, poly, mask string) {
	fd, p := c.funcDeclOf(rel, fn)
	key := rel + "." + fn
	if fd == nil {
		r.AnchorLost(rule, key, "function not found")
		return
	}
	r.Analysed(key)
	var got []int64
	polyOK := false
	maskOK := mask == ""
	walkCalls(p, fd.Body, func(cs *callSite) {
		if isMethodNamed(cs.Callee, "", "BitArray", "AppendBits") && len(cs.Call.Args) == 2 {
			w, ok := constInt(p, cs.Call.Args[1])
			if !ok {
				w = -1
			}
			got = append(got, w)
			if mask != "" {
				if id, ok := cs.Call.Args[0].(*ast.Ident); ok && p.TypesInfo.Uses[id] == c.lookupObj(rel, mask) {
					maskOK = true
				}
			}
		}
		if isFuncNamed(cs.Callee, rel, "calculateBCHCode") && len(cs.Call.Args) == 2 {
			if id, ok := cs.Call.Args[1].(*ast.Ident); ok && p.TypesInfo.Uses[id] == c.lookupObj(rel, poly) {
				polyOK = true
			}
		}
	})
	same := len(got) == len(widths)
	if same {
		for i := range got {
			if got[i] != widths[i] {
				same = false
			}
		}
	}
	r.Check(same && polyOK && maskOK, rule, key, c.pos(fd.Pos()),
		fmt.Sprintf("AppendBits widths %v (want %v), BCH polynomial %s used: %v, mask constant appended: %v", got, widths, poly, polyOK, maskOK))
}

// typeInfo := (ecLevel.GetBits() << 3) | maskPattern — folded over 4 levels x 8 masks
func checkTypeInfoExpr(c *Ctx, r *Report) {
	fd, p := c.funcDeclOf("qrcode/encoder", "makeTypeInfoBits")
	if fd == nil {
		return
	}
	params := paramObjs(p, fd)
	// the 5-bit data term: the variable handed to calculateBCHCode, assigned once
	var rhs ast.Expr
	var dataObj types.Object
	for _, call := range findCalls(p, fd.Body, func(o types.Object) bool { return isFuncNamed(o, "qrcode/encoder", "calculateBCHCode") }) {
		if len(call.Args) == 2 {
			dataObj = identObj(p, call.Args[0])
		}
	}
	nAssign := 0
	ast.Inspect(fd.Body, func(n ast.Node) bool {
		if as, ok := n.(*ast.AssignStmt); ok && len(as.Lhs) == 1 && len(as.Rhs) == 1 && dataObj != nil {
			if id, ok := as.Lhs[0].(*ast.Ident); ok && (p.TypesInfo.Defs[id] == dataObj || p.TypesInfo.Uses[id] == dataObj) {
				rhs = as.Rhs[0]
				nAssign++
			}
		}
		return true
	})
	if nAssign != 1 {
		rhs = nil
	}
	key := "qrcode/encoder.makeTypeInfoBits.typeInfo"
	if rhs == nil || len(params) < 2 {
		r.Undecided("T-BCHCONST", key, c.pos(fd.Pos()), "the 5-bit format data term was not found")
		return
	}
	ok := true
	msg := ""
	for lv := int64(0); lv < 4 && ok; lv++ {
		for m := int64(0); m < 8; m++ {
			hooks := &rpf{callHook: func(rr *rpf, call *ast.CallExpr, callee types.Object) (*Val, bool) {
				if isMethodNamed(callee, "qrcode/decoder", "ErrorCorrectionLevel", "GetBits") {
					return rr.expr(call.Fun.(*ast.SelectorExpr).X), true
				}
				return nil, false
			}}
			v, err := c.rpfExpr(p, rhs, map[types.Object]*Val{params[0]: vint(lv), params[1]: vint(m)}, hooks)
			if err != nil {
				r.Undecided("T-BCHCONST", key, c.pos(rhs.Pos()), err.Error())
				return
			}
			if !v.isInt() || v.I != lv<<3|m {
				ok = false
				msg = fmt.Sprintf("level bits %d, mask %d: data term folds to %v, ISO 18004 prescribes %d", lv, m, v, lv<<3|m)
				break
			}
		}
	}
	r.Check(ok, "T-BCHCONST", key, c.pos(rhs.Pos()), msg)
}

// ---- function pattern bitmaps ----

func checkQRPatterns(c *Ctx, r *Report) {
	r.Rule("T-PATTERNS", "finder (7x7) and alignment (5x5) bitmaps and the 15 first-copy format information coordinates equal ISO 18004", 3)
	check2D := func(name string, rows, cols int, ref func(i, j int) int) {
		init, p := c.varInit("qrcode/encoder", name)
		key := "qrcode/encoder." + name
		if init == nil {
			r.AnchorLost("T-PATTERNS", key, "table not found")
			return
		}
		r.Analysed(key)
		v := c.eval(p, init)
		ok := v.K == VList && len(v.L) == rows
		msg := ""
		if ok {
			for i, row := range v.L {
				xs, isl := row.ints()
				if !isl || len(xs) != cols {
					ok = false
					msg = fmt.Sprintf("row %d malformed", i)
					break
				}
				for j, x := range xs {
					if int(x) != ref(i, j) {
						ok = false
						msg = fmt.Sprintf("cell [%d][%d] = %d, standard has %d", i, j, x, ref(i, j))
					}
				}
			}
		} else {
			msg = fmt.Sprintf("expected %d rows", rows)
		}
		r.Check(ok, "T-PATTERNS", key, c.pos(init.Pos()), msg)
	}
	check2D("matrixUtil_POSITION_DETECTION_PATTERN", 7, 7, func(i, j int) int { return refQRFinder[i][j] })
	check2D("matrixUtil_POSITION_ADJUSTMENT_PATTERN", 5, 5, func(i, j int) int { return refQRAlignPattern[i][j] })
	check2D("matrixUtil_TYPE_INFO_COORDINATES", 15, 2, func(i, j int) int { return refQRFormatPos1[i][j] })
}

// ---- masks ----

// maskPeriodic establishes syntactically that a mask term is 12-periodic in both variables on
// non-negative arguments: only + * / % & with constant divisors/moduli in {2,3,6} and mask 1.
func maskTermOK(p *packages.Package, e ast.Expr) (ok bool, why string) {
	ok = true
	ast.Inspect(e, func(n ast.Node) bool {
		switch x := n.(type) {
		case *ast.BinaryExpr:
			switch x.Op {
			case token.ADD, token.MUL, token.EQL, token.LSS, token.NEQ, token.LEQ, token.GTR, token.GEQ:
			case token.QUO, token.REM:
				k, isC := constInt(p, x.Y)
				if !isC || (k != 2 && k != 3 && k != 6) {
					ok, why = false, "divisor/modulus outside {2,3,6}"
				}
			case token.AND:
				k, isC := constInt(p, x.Y)
				if !isC || k != 1 {
					ok, why = false, "bit mask other than 1"
				}
			default:
				ok, why = false, "operator "+x.Op.String()+" outside the periodic fragment"
			}
		case *ast.CallExpr, *ast.IndexExpr, *ast.SelectorExpr, *ast.UnaryExpr:
			ok, why = false, "construct outside the periodic fragment"
		}
		return true
	})
	return
}

func checkQRMasks(c *Ctx, r *Report) {
	r.Rule("S-MASK", "for k=0..7: encoder MaskUtil_getDataMaskBit(k, x, y) == decoder DataMaskValues[k](i=y, j=x) == ISO 18004 mask condition k: on all 144 residues (mod 12) when the term is periodic by construction (only +, *, /2, /3, %2, %3, &1 of the coordinates), otherwise folded at every one of the 177 x 177 positions of the largest symbol", 16)
	// decoder side
	init, dp := c.varInit("qrcode/decoder", "DataMaskValues")
	var decLits []*ast.FuncLit
	if init == nil {
		r.AnchorLost("S-MASK", "qrcode/decoder.DataMaskValues", "table not found")
	} else {
		r.Analysed("qrcode/decoder.DataMaskValues")
		if cl, ok := init.(*ast.CompositeLit); ok {
			for _, el := range cl.Elts {
				var fl *ast.FuncLit
				ast.Inspect(el, func(n ast.Node) bool {
					if f, ok := n.(*ast.FuncLit); ok && fl == nil {
						fl = f
						return false
					}
					return true
				})
				decLits = append(decLits, fl)
			}
		}
		if len(decLits) != 8 {
			r.Fail("S-MASK", "qrcode/decoder.DataMaskValues.len", c.pos(init.Pos()), "violation", fmt.Sprintf("%d masks, the standard defines 8", len(decLits)))
		}
	}
	// UnmaskBitMatrix must call isMasked(i, j) and flip (j, i): i = row, j = column
	decRowFirst := checkUnmaskOrientation(c, r)

	encFd, ep := c.funcDeclOf("qrcode/encoder", "MaskUtil_getDataMaskBit")
	if encFd == nil {
		r.AnchorLost("S-MASK", "qrcode/encoder.MaskUtil_getDataMaskBit", "function not found")
	} else {
		r.Analysed("qrcode/encoder.MaskUtil_getDataMaskBit")
	}
	for k := 0; k < 8; k++ {
		// decoder
		if k < len(decLits) {
			key := fmt.Sprintf("qrcode/decoder.DataMaskValues[%d]", k)
			fl := decLits[k]
			if fl == nil || len(fl.Body.List) != 1 {
				r.Undecided("S-MASK", key, c.pos(init.Pos()), "entry is not a single-return function literal")
			} else if rs, ok := fl.Body.List[0].(*ast.ReturnStmt); !ok || len(rs.Results) != 1 {
				r.Undecided("S-MASK", key, c.pos(fl.Pos()), "entry is not a single-return function literal")
			} else {
				// a term built from +, *, /2, /3, %2, %3, &1 of the coordinates has period 12 in both: 12 x 12
				// positions decide it; any other term is folded at every position of the largest symbol
				span := 12
				if ok, _ := maskTermOK(dp, rs.Results[0]); !ok {
					span = 177
				}
				var ps []types.Object
				for _, f := range fl.Type.Params.List {
					for _, n := range f.Names {
						ps = append(ps, dp.TypesInfo.Defs[n])
					}
				}
				bad := ""
				for i := 0; i < span && bad == "" && len(ps) == 2; i++ {
					for j := 0; j < span; j++ {
						v, err := c.rpfExpr(dp, rs.Results[0], map[types.Object]*Val{ps[0]: vint(int64(i)), ps[1]: vint(int64(j))}, nil)
						if err != nil {
							bad = "?" + err.Error()
							break
						}
						row, col := i, j
						if !decRowFirst {
							row, col = j, i
						}
						if v.K != VBool || v.B != refQRMask(k, row, col) {
							bad = fmt.Sprintf("at row %d, column %d the decoder's mask %d gives %v, ISO 18004 gives %v", row, col, k, v, refQRMask(k, row, col))
							break
						}
					}
				}
				r.Check(bad == "" && len(ps) == 2, "S-MASK", key, c.pos(fl.Pos()), bad)
			}
		}
		// encoder: fold the whole function with maskPattern = k
		if encFd != nil {
			key := fmt.Sprintf("qrcode/encoder.MaskUtil_getDataMaskBit[%d]", k)
			// periodicity: check every expression in the matching case clause
			perOK, why := true, ""
			ast.Inspect(encFd.Body, func(n ast.Node) bool {
				cc, ok := n.(*ast.CaseClause)
				if !ok {
					return true
				}
				for _, ce := range cc.List {
					if cv, isC := constInt(ep, ce); isC && int(cv) == k {
						for _, st := range cc.Body {
							if as, ok := st.(*ast.AssignStmt); ok {
								for _, rhs := range as.Rhs {
									if o, w := maskTermOK(ep, rhs); !o {
										perOK, why = false, w
									}
								}
							}
						}
					}
				}
				return true
			})
			span := 12
			if !perOK {
				// not a term of period 12 by construction (%s): folded at every position of the largest symbol
				_ = why
				span = 177
			}
			bad := ""
			for x := 0; x < span && bad == ""; x++ {
				for y := 0; y < span; y++ {
					res, err := c.rpfCall(encFd, ep, []*Val{vint(int64(k)), vint(int64(x)), vint(int64(y))}, nil)
					if err != nil {
						bad = "?" + err.Error()
						break
					}
					if len(res) != 2 || res[0].K != VBool || res[1].K != VNil || res[0].B != refQRMask(k, y, x) {
						bad = fmt.Sprintf("at x=%d (column), y=%d (row) the encoder's mask %d gives %v, ISO 18004 gives %v", x, y, k, res, refQRMask(k, y, x))
						break
					}
				}
			}
			r.Check(bad == "", "S-MASK", key, c.pos(encFd.Pos()), bad)
		}
	}
}

// checkUnmaskOrientation: in DataMask.UnmaskBitMatrix the predicate is called as isMasked(a, b) and the
// flipped module is bits.Flip(b, a): first predicate argument is the row (y), second the column (x).
func checkUnmaskOrientation(c *Ctx, r *Report) bool {
	fd, p := c.funcDeclOf("qrcode/decoder", "DataMask.UnmaskBitMatrix")
	key := "qrcode/decoder.DataMask.UnmaskBitMatrix"
	if fd == nil {
		r.AnchorLost("S-MASK", key, "method not found")
		return true
	}
	r.Analysed(key)
	var predArgs, flipArgs []types.Object
	var loops []*ast.ForStmt
	ast.Inspect(fd.Body, func(n ast.Node) bool {
		if f, ok := n.(*ast.ForStmt); ok {
			loops = append(loops, f)
		}
		call, ok := n.(*ast.CallExpr)
		if !ok || len(call.Args) != 2 {
			return true
		}
		a0, ok0 := call.Args[0].(*ast.Ident)
		a1, ok1 := call.Args[1].(*ast.Ident)
		if !ok0 || !ok1 {
			return true
		}
		if sel, ok := call.Fun.(*ast.SelectorExpr); ok {
			if sel.Sel.Name == "isMasked" {
				predArgs = []types.Object{p.TypesInfo.Uses[a0], p.TypesInfo.Uses[a1]}
			}
			if sel.Sel.Name == "Flip" {
				flipArgs = []types.Object{p.TypesInfo.Uses[a0], p.TypesInfo.Uses[a1]}
			}
		}
		return true
	})
	if len(predArgs) != 2 || len(flipArgs) != 2 {
		r.Undecided("S-MASK", key, c.pos(fd.Pos()), "isMasked(a,b)/Flip(x,y) call pair not recognised")
		return true
	}
	// Flip(x, y): x = column. predicate's first argument must be Flip's second (row) and vice versa
	ok := predArgs[0] == flipArgs[1] && predArgs[1] == flipArgs[0] && predArgs[0] != predArgs[1]
	// both loops must run over 0..dimension-1
	okLoops := len(loops) == 2
	params := paramObjs(p, fd)
	for _, l := range loops {
		be, isB := l.Cond.(*ast.BinaryExpr)
		if !isB || be.Op != token.LSS {
			okLoops = false
			continue
		}
		if id, isI := be.Y.(*ast.Ident); !isI || len(params) != 2 || p.TypesInfo.Uses[id] != params[1] {
			okLoops = false
		}
		if as, isA := l.Init.(*ast.AssignStmt); !isA || len(as.Rhs) != 1 {
			okLoops = false
		} else if z, isC := constInt(p, as.Rhs[0]); !isC || z != 0 {
			okLoops = false
		}
	}
	r.Check(ok && okLoops, key2("S-MASK"), key, c.pos(fd.Pos()), "the mask predicate must be evaluated as isMasked(row, column) for the module flipped with Flip(column, row), over 0 <= row, column < dimension")
	return true
}

func key2(s string) string { return s }

// ---- modes ----

func checkQRModes(c *Ctx, r *Report) {
	r.Rule("T-MODE", "mode indicators and character count widths equal ISO 18004 Tables 2/3; ModeForBits is the inverse of Mode.bits; GetCharacterCountBits folded over versions 1..40 selects the width class with boundaries 9|10 and 26|27", 10+10+40)
	newMode, _ := c.lookupObj("qrcode/decoder", "NewMode").(*types.Func)
	ctor, okCtor := c.fieldInitCtor(newMode)
	if newMode == nil || !okCtor || ctor["characterCountBitsForVersions"] != 0 || ctor["bits"] != 1 || len(ctor) != 2 {
		r.Undecided("T-MODE", "qrcode/decoder.NewMode", "", "NewMode is not the field-initialising constructor {characterCountBitsForVersions: arg0, bits: arg1}")
		return
	}
	r.Analysed("qrcode/decoder.NewMode")
	modeVals := map[string]*Val{}
	for _, m := range refQRModes {
		init, p := c.varInit("qrcode/decoder", m.name)
		key := "qrcode/decoder." + m.name
		if init == nil {
			r.AnchorLost("T-MODE", key, "mode variable not found")
			continue
		}
		v := c.eval(p, init)
		if v.K != VCall || v.Fn != newMode || len(v.L) != 2 {
			r.Undecided("T-MODE", key, c.pos(init.Pos()), "initialiser is not a NewMode(widths, bits) call")
			continue
		}
		ws, ok := v.L[0].ints()
		good := ok && len(ws) == 3 && v.L[1].isInt() && int(v.L[1].I) == m.bits
		if good {
			for i := 0; i < 3; i++ {
				if int(ws[i]) != m.widths[i] {
					good = false
				}
			}
		}
		modeVals[m.name] = v
		r.Check(good, "T-MODE", key, c.pos(init.Pos()), fmt.Sprintf("%s = %s, ISO 18004 gives widths %v indicator %#x", m.name, v, m.widths, m.bits))
	}
	// ModeForBits: switch bits -> Mode var
	if fd, p := c.funcDeclOf("qrcode/decoder", "ModeForBits"); fd != nil {
		r.Analysed("qrcode/decoder.ModeForBits")
		got := map[int64]types.Object{}
		hasDefaultErr := false
		ast.Inspect(fd.Body, func(n ast.Node) bool {
			cc, ok := n.(*ast.CaseClause)
			if !ok {
				return true
			}
			if cc.List == nil {
				for _, st := range cc.Body {
					if rs, ok := st.(*ast.ReturnStmt); ok && len(rs.Results) == 2 {
						if tv, ok := p.TypesInfo.Types[rs.Results[0]]; ok && tv.IsNil() {
							if tv2, ok := p.TypesInfo.Types[rs.Results[1]]; ok && !tv2.IsNil() {
								hasDefaultErr = true
							}
						}
					}
				}
			}
			for _, ce := range cc.List {
				cv, isC := constInt(p, ce)
				if !isC {
					continue
				}
				for _, st := range cc.Body {
					if rs, ok := st.(*ast.ReturnStmt); ok && len(rs.Results) == 2 {
						if id, ok := rs.Results[0].(*ast.Ident); ok {
							got[cv] = p.TypesInfo.Uses[id]
						}
					}
				}
			}
			return true
		})
		for _, m := range refQRModes {
			key := fmt.Sprintf("qrcode/decoder.ModeForBits(%#x)", m.bits)
			obj := got[int64(m.bits)]
			r.Check(obj != nil && obj == c.lookupObj("qrcode/decoder", m.name), "T-MODE", key, c.pos(fd.Pos()),
				fmt.Sprintf("ModeForBits(%#x) must return %s; returns %v", m.bits, m.name, obj))
		}
		r.Check(len(got) == len(refQRModes) && hasDefaultErr, "T-MODE", "qrcode/decoder.ModeForBits.default", c.pos(fd.Pos()),
			fmt.Sprintf("%d indicator values are mapped (standard: %d) and any other value must give (nil, error)", len(got), len(refQRModes)))
	} else {
		r.AnchorLost("T-MODE", "qrcode/decoder.ModeForBits", "function not found")
	}
	// GetCharacterCountBits folded over versions x modes
	fd, p := c.funcDeclOf("qrcode/decoder", "Mode.GetCharacterCountBits")
	if fd == nil {
		r.AnchorLost("T-MODE", "qrcode/decoder.Mode.GetCharacterCountBits", "method not found")
		return
	}
	r.Analysed("qrcode/decoder.Mode.GetCharacterCountBits")
	getVN, _ := c.trivialGetter(methodOf(c, "qrcode/decoder", "Version", "GetVersionNumber"))
	if getVN != "versionNumber" {
		r.Undecided("T-MODE", "qrcode/decoder.Version.GetVersionNumber", "", "GetVersionNumber is not the trivial getter of versionNumber")
		return
	}
	ro := recvObj(p, fd)
	for ver := 1; ver <= 40; ver++ {
		key := fmt.Sprintf("qrcode/decoder.Mode.GetCharacterCountBits(v%d)", ver)
		bad := ""
		for _, m := range refQRModes {
			mv := modeVals[m.name]
			if mv == nil {
				continue
			}
			recv := &Val{K: VStruct, Fields: map[string]*Val{"characterCountBitsForVersions": mv.L[0], "bits": mv.L[1]}}
			verVal := &Val{K: VStruct, Fields: map[string]*Val{"versionNumber": vint(int64(ver))}}
			res, err := c.rpfCall(fd, p, []*Val{verVal}, &rpf{env: map[types.Object]*Val{ro: recv}})
			if err != nil {
				bad = "?" + err.Error()
				break
			}
			want := m.widths[refQRCountClass(ver)]
			if len(res) != 1 || !res[0].isInt() || int(res[0].I) != want {
				bad = fmt.Sprintf("%s at version %d: %v bits, ISO 18004 Table 3 gives %d", m.name, ver, res, want)
				break
			}
		}
		if bad != "" && len(bad) > 0 && bad[0] == '?' {
			r.Undecided("T-MODE", key, c.pos(fd.Pos()), bad)
		} else {
			r.Check(bad == "", "T-MODE", key, c.pos(fd.Pos()), bad)
		}
	}
}

func methodOf(c *Ctx, rel, tname, m string) *types.Func {
	obj := c.lookupObj(rel, tname)
	if obj == nil {
		return nil
	}
	named, ok := obj.Type().(*types.Named)
	if !ok {
		return nil
	}
	for i := 0; i < named.NumMethods(); i++ {
		if named.Method(i).Name() == m {
			return named.Method(i)
		}
	}
	return nil
}

// ---- decoder function pattern ----

type rect struct{ x, y, w, h int64 }

func checkQRFunctionPattern(c *Ctx, r *Report) {
	r.Rule("T-FUNCPAT", "Version.buildFunctionPattern marks exactly the ISO 18004 function regions: finder+format corners, timing lines, version blocks for v>=7 and 5x5 alignment squares at all centre pairs except the three finder corners (straight-line SetRegion arguments folded for all 40 dimensions; the alignment loop's skip condition folded over all (x, y, max))", 40+1+1)
	fd, p := c.funcDeclOf("qrcode/decoder", "Version.buildFunctionPattern")
	key := "qrcode/decoder.Version.buildFunctionPattern"
	if fd == nil {
		r.AnchorLost("T-FUNCPAT", key, "method not found")
		return
	}
	r.Analysed(key)
	ro := recvObj(p, fd)
	// classify SetRegion calls
	type site struct {
		cs *callSite
	}
	var straight, gated, looped []*callSite
	var gateCond ast.Expr
	var dimObj types.Object
	ast.Inspect(fd.Body, func(n ast.Node) bool {
		if as, ok := n.(*ast.AssignStmt); ok && as.Tok == token.DEFINE && len(as.Lhs) == 1 {
			if call, ok := as.Rhs[0].(*ast.CallExpr); ok {
				if sel, ok := call.Fun.(*ast.SelectorExpr); ok && sel.Sel.Name == "GetDimensionForVersion" {
					dimObj = p.TypesInfo.Defs[as.Lhs[0].(*ast.Ident)]
				}
			}
		}
		return true
	})
	undec := ""
	walkCalls(p, fd.Body, func(cs *callSite) {
		if !isMethodNamed(cs.Callee, "", "BitMatrix", "SetRegion") {
			return
		}
		switch {
		case cs.InLoop > 0:
			looped = append(looped, cs)
		case len(cs.Conds) == 0:
			straight = append(straight, cs)
		case len(cs.Conds) == 1:
			if ifs, ok := cs.Conds[0].Node.(*ast.IfStmt); ok && cs.Conds[0].Branch {
				gated = append(gated, cs)
				gateCond = ifs.Cond
			} else {
				undec = "SetRegion under an unrecognised condition"
			}
		default:
			undec = "SetRegion under nested conditions"
		}
	})
	if dimObj == nil || undec != "" {
		if undec == "" {
			undec = "dimension := v.GetDimensionForVersion() not found"
		}
		r.Undecided("T-FUNCPAT", key, c.pos(fd.Pos()), undec)
		return
	}
	// GetDimensionForVersion folded
	dimFd, dimP := c.funcDeclOf("qrcode/decoder", "Version.GetDimensionForVersion")
	for ver := 1; ver <= 40; ver++ {
		k := fmt.Sprintf("%s(v%d)", key, ver)
		d := int64(17 + 4*ver)
		recv := &Val{K: VStruct, Fields: map[string]*Val{"versionNumber": vint(int64(ver))}}
		if dimFd != nil {
			res, err := c.rpfCall(dimFd, dimP, nil, &rpf{env: map[types.Object]*Val{recvObj(dimP, dimFd): recv}})
			if err != nil || len(res) != 1 || !res[0].isInt() || res[0].I != d {
				r.Fail("T-FUNCPAT", k, c.pos(dimFd.Pos()), "violation", fmt.Sprintf("GetDimensionForVersion folds to %v for version %d, standard: %d", res, ver, d))
				continue
			}
		}
		env := map[types.Object]*Val{ro: recv, dimObj: vint(d)}
		got := map[rect]int{}
		bad := ""
		evalRect := func(cs *callSite) {
			var a [4]int64
			for i := 0; i < 4; i++ {
				v, err := c.rpfExpr(p, cs.Call.Args[i], env, nil)
				if err != nil || !v.isInt() {
					bad = fmt.Sprintf("SetRegion argument %d not foldable", i)
					return
				}
				a[i] = v.I
			}
			got[rect{a[0], a[1], a[2], a[3]}]++
		}
		for _, cs := range straight {
			evalRect(cs)
		}
		if len(gated) > 0 {
			g, err := c.rpfExpr(p, gateCond, env, nil)
			if err != nil || g.K != VBool {
				bad = "version gate not foldable"
			} else if g.B {
				for _, cs := range gated {
					evalRect(cs)
				}
			}
		}
		want := map[rect]int{
			{0, 0, 9, 9}: 1, {d - 8, 0, 8, 9}: 1, {0, d - 8, 9, 8}: 1,
			{6, 9, 1, d - 17}: 1, {9, 6, d - 17, 1}: 1,
		}
		if ver >= 7 {
			want[rect{d - 11, 0, 3, 6}] = 1
			want[rect{0, d - 11, 6, 3}] = 1
		}
		if bad == "" {
			if len(got) != len(want) {
				bad = fmt.Sprintf("regions %v, ISO 18004 function regions %v", got, want)
			}
			for k2 := range want {
				if got[k2] != 1 {
					bad = fmt.Sprintf("region %v missing or duplicated; got %v", k2, got)
				}
			}
		}
		r.Check(bad == "", "T-FUNCPAT", k, c.pos(fd.Pos()), bad)
	}
	// alignment loop: exactly one SetRegion in a doubly nested loop over x, y in [0, max), args
	// (centres[y]-2, centres[x]-2, 5, 5) and skip condition == three finder corners
	k := key + ".alignment"
	if len(looped) != 1 || looped[0].InLoop != 2 {
		r.Undecided("T-FUNCPAT", k, c.pos(fd.Pos()), "expected one SetRegion call inside the two alignment loops")
		return
	}
	cs := looped[0]
	var loops []*ast.ForStmt
	for _, cc := range cs.Conds {
		if f, ok := cc.Node.(*ast.ForStmt); ok {
			loops = append(loops, f)
		}
	}
	if len(loops) != 2 {
		r.Undecided("T-FUNCPAT", k, c.pos(cs.Call.Pos()), "alignment loops are not two counted for-loops")
		return
	}
	lv := make([]types.Object, 2)
	var maxObj types.Object
	okLoops := true
	for i, l := range loops {
		as, ok := l.Init.(*ast.AssignStmt)
		if !ok || len(as.Lhs) != 1 {
			okLoops = false
			break
		}
		lv[i] = p.TypesInfo.Defs[as.Lhs[0].(*ast.Ident)]
		z, isC := constInt(p, as.Rhs[0])
		be, isB := l.Cond.(*ast.BinaryExpr)
		if !isC || z != 0 || !isB || be.Op != token.LSS {
			okLoops = false
			break
		}
		id, isI := be.Y.(*ast.Ident)
		if !isI {
			okLoops = false
			break
		}
		if maxObj == nil {
			maxObj = p.TypesInfo.Uses[id]
		} else if maxObj != p.TypesInfo.Uses[id] {
			okLoops = false
		}
		if inc, ok := l.Post.(*ast.IncDecStmt); !ok || inc.Tok != token.INC {
			okLoops = false
		}
	}
	if !okLoops {
		r.Undecided("T-FUNCPAT", k, c.pos(cs.Call.Pos()), "alignment loops are not `for v := 0; v < max; v++`")
		return
	}
	// max must be len(v.alignmentPatternCenters)
	maxIsLen := false
	ast.Inspect(fd.Body, func(n ast.Node) bool {
		if as, ok := n.(*ast.AssignStmt); ok && as.Tok == token.DEFINE && len(as.Lhs) == 1 && p.TypesInfo.Defs[as.Lhs[0].(*ast.Ident)] == maxObj {
			if call, ok := as.Rhs[0].(*ast.CallExpr); ok && len(call.Args) == 1 {
				if id, ok := call.Fun.(*ast.Ident); ok && id.Name == "len" {
					if sel, ok := call.Args[0].(*ast.SelectorExpr); ok && sel.Sel.Name == "alignmentPatternCenters" {
						maxIsLen = true
					}
				}
			}
		}
		return true
	})
	// fold the inner-loop body for every (outer, inner, max) with a synthetic centres table c[k] = 100+k
	bad := ""
	if !maxIsLen {
		bad = "loop bound is not len(alignmentPatternCenters)"
	}
	outer, inner := loops[0], loops[1]
	for max := 0; max <= 7 && bad == ""; max++ {
		centres := &Val{K: VList}
		for q := 0; q < max; q++ {
			centres.L = append(centres.L, vint(int64(1000+10*q)))
		}
		recv := &Val{K: VStruct, Fields: map[string]*Val{"alignmentPatternCenters": centres, "versionNumber": vint(7)}}
		for a := 0; a < max && bad == ""; a++ {
			for b := 0; b < max; b++ {
				env := map[types.Object]*Val{ro: recv, maxObj: vint(int64(max)), lv[0]: vint(int64(a)), lv[1]: vint(int64(b)), dimObj: vint(45)}
				var rec []rect
				hooks := &rpf{callHook: func(rr *rpf, call *ast.CallExpr, callee types.Object) (*Val, bool) {
					if isMethodNamed(callee, "", "BitMatrix", "SetRegion") {
						var q [4]int64
						for i := 0; i < 4; i++ {
							v := rr.expr(call.Args[i])
							if !v.isInt() {
								rpfFail("SetRegion argument not an integer")
							}
							q[i] = v.I
						}
						rec = append(rec, rect{q[0], q[1], q[2], q[3]})
						return &Val{K: VNil}, true
					}
					return nil, false
				}}
				// statements of the outer body preceding the inner loop, then the inner body; `continue` = skip
				err := foldLoopBodies(c, p, env, hooks, outer, inner)
				if err != nil {
					bad = "?" + err.Error()
					break
				}
				corner := (a == 0 && (b == 0 || b == max-1)) || (a == max-1 && b == 0)
				// outer variable indexes one axis, inner the other; the squares are symmetric in the standard
				// (all pairs except the three corners), so only the pairing matters:
				wantX, wantY := int64(1000+10*b-2), int64(1000+10*a-2)
				if corner {
					if len(rec) != 0 {
						bad = fmt.Sprintf("finder corner (%d,%d) of %d centres is not skipped", a, b, max)
					}
				} else if len(rec) != 1 || rec[0].w != 5 || rec[0].h != 5 ||
					!((rec[0].x == wantX && rec[0].y == wantY) || (rec[0].x == wantY && rec[0].y == wantX)) {
					bad = fmt.Sprintf("centre pair (%d,%d) of %d: regions %v, expected one 5x5 square at (centre-2, centre-2)", a, b, max, rec)
				}
			}
		}
	}
	r.Check(bad == "", "T-FUNCPAT", k, c.pos(cs.Call.Pos()), bad)
	r.Pass("T-FUNCPAT", key+".calls", c.pos(fd.Pos()), fmt.Sprintf("%d straight-line, %d version-gated, %d looped SetRegion calls", len(straight), len(gated), len(looped)))
}

type rpfContinue struct{}

// foldLoopBodies folds, for fixed values of the loop variables (in env), the statements of the outer loop
// body that precede the inner loop and then the inner loop's body. `continue` ends the fold normally.
func foldLoopBodies(c *Ctx, p *packages.Package, env map[types.Object]*Val, hooks *rpf, outer, inner *ast.ForStmt) (err error) {
	r := &rpf{c: c, p: p, env: env, callHook: hooks.callHook, selHook: hooks.selHook, idxHook: hooks.idxHook, stHook: hooks.stHook, multiHook: hooks.multiHook}
	defer func() {
		if x := recover(); x != nil {
			if re, ok := x.(*rpfErr); ok {
				err = re
				return
			}
			if _, ok := x.(rpfContinue); ok {
				err = nil
				return
			}
			panic(x)
		}
	}()
	run := func(stmts []ast.Stmt, stop ast.Stmt) {
		for _, s := range stmts {
			if s == stop {
				return
			}
			if ret := r.stmtC(s); ret != nil {
				rpfFail("return inside loop body")
			}
		}
	}
	if outer != nil {
		run(outer.Body.List, inner)
	}
	run(inner.Body.List, nil)
	return nil
}

// stmtC is stmt with `continue` support for loop-body folding.
func (r *rpf) stmtC(s ast.Stmt) *rpfReturn {
	switch x := s.(type) {
	case *ast.BranchStmt:
		if x.Tok == token.CONTINUE && x.Label == nil {
			panic(rpfContinue{})
		}
		if x.Tok == token.BREAK && x.Label == nil && r.inTableLoop > 0 {
			panic(rpfLoopBreak{})
		}
	case *ast.IfStmt:
		if x.Init != nil {
			if ret := r.stmtC(x.Init); ret != nil {
				return ret
			}
		}
		cond := r.expr(x.Cond)
		if cond.K != VBool {
			rpfFail("%s: condition not decidable", r.c.pos(x.Cond.Pos()))
		}
		if cond.B {
			for _, st := range x.Body.List {
				if ret := r.stmtC(st); ret != nil {
					return ret
				}
			}
			return nil
		}
		if x.Else != nil {
			return r.stmtC(x.Else)
		}
		return nil
	case *ast.BlockStmt:
		for _, st := range x.List {
			if ret := r.stmtC(st); ret != nil {
				return ret
			}
		}
		return nil
	}
	return r.stmt(s)
}

// ---- encoder: second copy of the format information, pad bytes, block sizing ----

func checkQRFormatPlacement(c *Ctx, r *Report) {
	defer checkQRInfoPlaceWhole(c, r)
	r.Rule("T-FMTPOS", "embedTypeInfo places bit i of the format word at TYPE_INFO_COORDINATES[i] and at the ISO 18004 second-copy position (i<8: (dim-1-i, 8); else (8, dim-7+(i-8))), folded for i=0..14 and all 40 dimensions", 1)
	fd, p := c.funcDeclOf("qrcode/encoder", "embedTypeInfo")
	key := "qrcode/encoder.embedTypeInfo"
	if fd == nil {
		r.AnchorLost("T-FMTPOS", key, "function not found")
		return
	}
	r.Analysed(key)
	var loop *ast.ForStmt
	for _, st := range fd.Body.List {
		if f, ok := st.(*ast.ForStmt); ok {
			loop = f
		}
	}
	if loop == nil {
		r.Undecided("T-FMTPOS", key, c.pos(fd.Pos()), "placement loop not found")
		return
	}
	as, ok := loop.Init.(*ast.AssignStmt)
	if !ok || len(as.Lhs) != 1 {
		r.Undecided("T-FMTPOS", key, c.pos(loop.Pos()), "loop variable not recognised")
		return
	}
	iv := p.TypesInfo.Defs[as.Lhs[0].(*ast.Ident)]
	bad := ""
	for ver := 1; ver <= 40 && bad == ""; ver++ {
		d := int64(17 + 4*ver)
		for i := int64(0); i < 15; i++ {
			env := map[types.Object]*Val{iv: vint(i)}
			var set [][2]int64
			var bitIdx []int64
			hooks := &rpf{callHook: func(rr *rpf, call *ast.CallExpr, callee types.Object) (*Val, bool) {
				switch {
				case isMethodNamed(callee, "qrcode/encoder", "ByteMatrix", "GetWidth"), isMethodNamed(callee, "qrcode/encoder", "ByteMatrix", "GetHeight"):
					return vint(d), true
				case isMethodNamed(callee, "", "BitArray", "GetSize"):
					return vint(15), true
				case isMethodNamed(callee, "", "BitArray", "Get"):
					v := rr.expr(call.Args[0])
					bitIdx = append(bitIdx, v.I)
					return &Val{K: VUnknown}, true
				case isMethodNamed(callee, "qrcode/encoder", "ByteMatrix", "SetBool"):
					x, y := rr.expr(call.Args[0]), rr.expr(call.Args[1])
					if !x.isInt() || !y.isInt() {
						rpfFail("SetBool coordinates not integers")
					}
					set = append(set, [2]int64{x.I, y.I})
					return &Val{K: VNil}, true
				}
				return nil, false
			}}
			if err := foldLoopBodies(c, p, env, hooks, nil, loop); err != nil {
				bad = "?" + err.Error()
				break
			}
			w1 := [2]int64{int64(refQRFormatPos1[i][0]), int64(refQRFormatPos1[i][1])}
			p2 := refQRFormatPos2(int(i), int(d))
			w2 := [2]int64{int64(p2[0]), int64(p2[1])}
			has1, has2, other := false, false, false
			for _, s := range set {
				switch s {
				case w1:
					has1 = true
				case w2:
					has2 = true
				default:
					other = true
				}
			}
			// typeInfoBits.Get(size-1-i): the word is appended MSB first, so index size-1-i is bit i
			if len(bitIdx) != 1 || bitIdx[0] != 14-i {
				bad = fmt.Sprintf("i=%d: reads bit index %v of the 15-bit word, expected %d (bit i counted from the least significant end)", i, bitIdx, 14-i)
				break
			}
			if !has1 || !has2 || other {
				bad = fmt.Sprintf("dimension %d, bit %d: modules set %v, ISO 18004 positions %v and %v", d, i, set, w1, w2)
				break
			}
		}
	}
	if bad != "" && bad[0] == '?' {
		r.Undecided("T-FMTPOS", key, c.pos(loop.Pos()), bad)
		return
	}
	r.Check(bad == "", "T-FMTPOS", key, c.pos(loop.Pos()), bad)
}

func checkQRPadBytes(c *Ctx, r *Report) {
	r.Rule("T-PAD", "terminateBits appends pad codewords 0xEC, 0x11 alternately starting with 0xEC, 8 bits each (loop body folded for i = 0..3)", 1)
	fd, p := c.funcDeclOf("qrcode/encoder", "terminateBits")
	key := "qrcode/encoder.terminateBits.pad"
	if fd == nil {
		r.AnchorLost("T-PAD", key, "function not found")
		return
	}
	r.Analysed("qrcode/encoder.terminateBits")
	// the loop containing AppendBits(v, 8)
	var loop *ast.ForStmt
	walkCalls(p, fd.Body, func(cs *callSite) {
		if isMethodNamed(cs.Callee, "", "BitArray", "AppendBits") && cs.InLoop == 1 {
			for _, cc := range cs.Conds {
				if f, ok := cc.Node.(*ast.ForStmt); ok {
					loop = f
				}
			}
		}
	})
	if loop == nil {
		r.Undecided("T-PAD", key, c.pos(fd.Pos()), "padding loop not found")
		return
	}
	as, ok := loop.Init.(*ast.AssignStmt)
	if !ok {
		r.Undecided("T-PAD", key, c.pos(loop.Pos()), "loop variable not recognised")
		return
	}
	z, isC := constInt(p, as.Rhs[0])
	if !isC || z != 0 {
		r.Fail("T-PAD", key, c.pos(loop.Pos()), "violation", "padding loop does not start at 0")
		return
	}
	iv := p.TypesInfo.Defs[as.Lhs[0].(*ast.Ident)]
	bad := ""
	for i := int64(0); i < 4; i++ {
		var got [][2]int64
		hooks := &rpf{callHook: func(rr *rpf, call *ast.CallExpr, callee types.Object) (*Val, bool) {
			if isMethodNamed(callee, "", "BitArray", "AppendBits") {
				a, b := rr.expr(call.Args[0]), rr.expr(call.Args[1])
				got = append(got, [2]int64{a.I, b.I})
				return &Val{K: VNil}, true
			}
			return nil, false
		}}
		if err := foldLoopBodies(c, p, map[types.Object]*Val{iv: vint(i)}, hooks, nil, loop); err != nil {
			r.Undecided("T-PAD", key, c.pos(loop.Pos()), err.Error())
			return
		}
		want := int64(0xEC)
		if i%2 == 1 {
			want = 0x11
		}
		if len(got) != 1 || got[0][0] != want || got[0][1] != 8 {
			bad = fmt.Sprintf("pad codeword %d: appends %v, ISO 18004 8.4.9 prescribes 0x%X in 8 bits", i, got, want)
			break
		}
	}
	r.Check(bad == "", "T-PAD", key, c.pos(loop.Pos()), bad)
}

func checkQRBlockSizing(c *Ctx, r *Report, rows []qrVersionRow) {
	r.Rule("T-BLOCKSIZE", "getNumDataBytesAndNumECBytesForBlockID folded for every block of all 160 (version, level) pairs yields the ISO 18004 Table 9 block sizes (short blocks first), and rejects blockID == numBlocks", 160)
	fd, p := c.funcDeclOf("qrcode/encoder", "getNumDataBytesAndNumECBytesForBlockID")
	if fd == nil {
		r.AnchorLost("T-BLOCKSIZE", "qrcode/encoder.getNumDataBytesAndNumECBytesForBlockID", "function not found")
		return
	}
	r.Analysed("qrcode/encoder.getNumDataBytesAndNumECBytesForBlockID")
	hooks := &rpf{callHook: func(rr *rpf, call *ast.CallExpr, callee types.Object) (*Val, bool) {
		if isFuncNamed(callee, "", "NewWriterException") {
			return &Val{K: VStr, S: "error"}, true
		}
		return nil, false
	}}
	for v := 1; v <= 40; v++ {
		for lv := 0; lv < 4; lv++ {
			key := fmt.Sprintf("qrcode/encoder.getNumDataBytesAndNumECBytesForBlockID(v%d,%s)", v, refQRLevelNames[lv])
			ec, groups := refQRBlocks(v, lv)
			total := refQRTotalCodewords(v)
			nb := refQRNumBlocks[lv][v-1]
			data := total - ec*nb
			bad := ""
			id := 0
			for _, g := range groups {
				for k := 0; k < g[0]; k++ {
					res, err := c.rpfCall(fd, p, []*Val{vint(int64(total)), vint(int64(data)), vint(int64(nb)), vint(int64(id))}, hooks)
					if err != nil {
						r.Undecided("T-BLOCKSIZE", key, c.pos(fd.Pos()), err.Error())
						return
					}
					if len(res) != 3 || !res[0].isInt() || !res[1].isInt() || res[2].K != VNil || int(res[0].I) != g[1] || int(res[1].I) != ec {
						bad = fmt.Sprintf("block %d: (%v) but Table 9 gives data=%d ec=%d", id, res, g[1], ec)
					}
					id++
				}
			}
			res, err := c.rpfCall(fd, p, []*Val{vint(int64(total)), vint(int64(data)), vint(int64(nb)), vint(int64(nb))}, hooks)
			if err == nil && (len(res) != 3 || res[2].K == VNil) {
				bad = "blockID == numRSBlocks is not rejected"
			}
			r.Check(bad == "", "T-BLOCKSIZE", key, c.pos(fd.Pos()), bad)
		}
	}
	_ = rows
}

// maybeEmbedVersionInfo: bit k (17..0) at (i, dim-11+j) and its transpose, i=0..5, j=0..2, gated by version >= 7
func checkQRVersionPlacement(c *Ctx, r *Report) {
	defer checkQRInfoPlaceWhole(c, r)
	r.Rule("T-VERPOS", "maybeEmbedVersionInfo is skipped below version 7 and otherwise writes each version bit to (i, dim-11+j) and its transpose (loop body folded over i=0..5, j=0..2, all dimensions)", 2)
	fd, p := c.funcDeclOf("qrcode/encoder", "maybeEmbedVersionInfo")
	key := "qrcode/encoder.maybeEmbedVersionInfo"
	if fd == nil {
		r.AnchorLost("T-VERPOS", key, "function not found")
		return
	}
	r.Analysed(key)
	// gate: first statement `if version.GetVersionNumber() < 7 { return nil }`
	gateOK := false
	if len(fd.Body.List) > 0 {
		if ifs, ok := fd.Body.List[0].(*ast.IfStmt); ok && ifs.Else == nil && len(ifs.Body.List) == 1 {
			if _, isRet := ifs.Body.List[0].(*ast.ReturnStmt); isRet {
				all := true
				for ver := int64(1); ver <= 40; ver++ {
					hooks := &rpf{callHook: func(rr *rpf, call *ast.CallExpr, callee types.Object) (*Val, bool) {
						if isMethodNamed(callee, "qrcode/decoder", "Version", "GetVersionNumber") {
							return vint(ver), true
						}
						return nil, false
					}}
					v, err := c.rpfExpr(p, ifs.Cond, map[types.Object]*Val{}, hooks)
					if err != nil || v.K != VBool || v.B != (ver < 7) {
						all = false
					}
				}
				gateOK = all
			}
		}
	}
	r.Check(gateOK, "T-VERPOS", key+".gate", c.pos(fd.Pos()), "version information must be embedded exactly for versions >= 7")
	var loops []*ast.ForStmt
	ast.Inspect(fd.Body, func(n ast.Node) bool {
		if f, ok := n.(*ast.ForStmt); ok {
			loops = append(loops, f)
		}
		return true
	})
	if len(loops) != 2 {
		r.Undecided("T-VERPOS", key+".positions", c.pos(fd.Pos()), "two nested placement loops not found")
		return
	}
	li, okI := loopVarRange(p, loops[0])
	lj, okJ := loopVarRange(p, loops[1])
	if !okI || !okJ || li.lo != 0 || li.hi != 6 || lj.lo != 0 || lj.hi != 3 {
		r.Fail("T-VERPOS", key+".positions", c.pos(loops[0].Pos()), "violation", "placement loops must run i=0..5, j=0..2")
		return
	}
	bad := ""
	for _, d := range []int64{45, 49, 101, 177} {
		for i := int64(0); i < 6 && bad == ""; i++ {
			for j := int64(0); j < 3; j++ {
				var set [][2]int64
				hooks := &rpf{callHook: func(rr *rpf, call *ast.CallExpr, callee types.Object) (*Val, bool) {
					switch {
					case isMethodNamed(callee, "qrcode/encoder", "ByteMatrix", "GetWidth"), isMethodNamed(callee, "qrcode/encoder", "ByteMatrix", "GetHeight"):
						return vint(d), true
					case isMethodNamed(callee, "", "BitArray", "Get"):
						return &Val{K: VUnknown}, true
					case isMethodNamed(callee, "qrcode/encoder", "ByteMatrix", "SetBool"):
						x, y := rr.expr(call.Args[0]), rr.expr(call.Args[1])
						set = append(set, [2]int64{x.I, y.I})
						return &Val{K: VNil}, true
					}
					return nil, false
				}}
				env := map[types.Object]*Val{li.v: vint(i), lj.v: vint(j)}
				// the bit index is loop-carried (counted down in the inner loop); bind it to the value it has there
				ast.Inspect(loops[1].Body, func(n ast.Node) bool {
					if dec, ok := n.(*ast.IncDecStmt); ok && dec.Tok == token.DEC {
						if o := identObj(p, dec.X); o != nil && o != li.v && o != lj.v {
							env[o] = vint(17 - (i*3 + j))
						}
					}
					return true
				})
				if err := foldLoopBodies(c, p, env, hooks, loops[0], loops[1]); err != nil {
					bad = "?" + err.Error()
					break
				}
				w1, w2 := [2]int64{i, d - 11 + j}, [2]int64{d - 11 + j, i}
				if len(set) != 2 || !((set[0] == w1 && set[1] == w2) || (set[0] == w2 && set[1] == w1)) {
					bad = fmt.Sprintf("dimension %d i=%d j=%d: modules %v, ISO 18004 positions %v and %v", d, i, j, set, w1, w2)
					break
				}
			}
		}
	}
	if bad != "" && bad[0] == '?' {
		r.Undecided("T-VERPOS", key+".positions", c.pos(loops[0].Pos()), bad)
		return
	}
	r.Check(bad == "", "T-VERPOS", key+".positions", c.pos(loops[0].Pos()), bad)
}

type loopRange struct {
	v      types.Object
	lo, hi int64 // lo <= v < hi
}

// loopVarRange recognises `for v := lo; v < hi; v++` with constant bounds.
func loopVarRange(p *packages.Package, l *ast.ForStmt) (loopRange, bool) {
	var out loopRange
	as, ok := l.Init.(*ast.AssignStmt)
	if !ok || len(as.Lhs) != 1 || len(as.Rhs) != 1 || as.Tok != token.DEFINE {
		return out, false
	}
	id, ok := as.Lhs[0].(*ast.Ident)
	if !ok {
		return out, false
	}
	out.v = p.TypesInfo.Defs[id]
	lo, ok := constInt(p, as.Rhs[0])
	if !ok {
		return out, false
	}
	out.lo = lo
	be, ok := ast.Unparen(l.Cond).(*ast.BinaryExpr)
	if !ok {
		return out, false
	}
	lid, ok := ast.Unparen(be.X).(*ast.Ident)
	if !ok || p.TypesInfo.Uses[lid] != out.v {
		return out, false
	}
	hi, ok := constInt(p, be.Y)
	if !ok {
		return out, false
	}
	switch be.Op {
	case token.LSS:
		out.hi = hi
	case token.LEQ:
		out.hi = hi + 1
	default:
		return out, false
	}
	inc, ok := l.Post.(*ast.IncDecStmt)
	if !ok || inc.Tok != token.INC {
		return out, false
	}
	if iid, ok := inc.X.(*ast.Ident); !ok || p.TypesInfo.Uses[iid] != out.v {
		return out, false
	}
	return out, true
}

// finder/separator/dark-module/timing placement in the encoder: constants folded for all dimensions.
func checkQRBasicPlacement(c *Ctx, r *Report) {
	r.Rule("T-BASICPOS", "embedPositionDetectionPatternsAndSeparators places finders at (0,0), (dim-7,0), (0,dim-7) and separators per ISO 18004; the dark module is at (8, dim-8); timing modules alternate starting dark at index 8 on row/column 6", 3)
	// 1. finder + separator call arguments
	fd, p := c.funcDeclOf("qrcode/encoder", "embedPositionDetectionPatternsAndSeparators")
	key := "qrcode/encoder.embedPositionDetectionPatternsAndSeparators"
	if fd == nil {
		r.AnchorLost("T-BASICPOS", key, "function not found")
	} else {
		r.Analysed(key)
		bad := ""
		for _, d := range []int64{21, 25, 45, 177} {
			env := map[types.Object]*Val{}
			hooks := &rpf{callHook: func(rr *rpf, call *ast.CallExpr, callee types.Object) (*Val, bool) {
				if isMethodNamed(callee, "qrcode/encoder", "ByteMatrix", "GetWidth") || isMethodNamed(callee, "qrcode/encoder", "ByteMatrix", "GetHeight") {
					return vint(d), true
				}
				return nil, false
			}}
			// local constants (pdpWidth, hspWidth, vspSize)
			for _, st := range fd.Body.List {
				if as, ok := st.(*ast.AssignStmt); ok && as.Tok == token.DEFINE && len(as.Lhs) == 1 {
					if _, isCall := as.Rhs[0].(*ast.CallExpr); isCall {
						if v, err := c.rpfExpr(p, as.Rhs[0], env, hooks); err == nil && v.isInt() {
							env[p.TypesInfo.Defs[as.Lhs[0].(*ast.Ident)]] = v
						}
						continue
					}
					if v, err := c.rpfExpr(p, as.Rhs[0], env, hooks); err == nil && v.isInt() {
						env[p.TypesInfo.Defs[as.Lhs[0].(*ast.Ident)]] = v
					}
				}
			}
			got := map[string]map[[2]int64]bool{"pdp": {}, "h": {}, "v": {}}
			walkCalls(p, fd.Body, func(cs *callSite) {
				var kind string
				switch {
				case isFuncNamed(cs.Callee, "qrcode/encoder", "embedPositionDetectionPattern"):
					kind = "pdp"
				case isFuncNamed(cs.Callee, "qrcode/encoder", "embedHorizontalSeparationPattern"):
					kind = "h"
				case isFuncNamed(cs.Callee, "qrcode/encoder", "embedVerticalSeparationPattern"):
					kind = "v"
				default:
					return
				}
				x, e1 := c.rpfExpr(p, cs.Call.Args[0], env, hooks)
				y, e2 := c.rpfExpr(p, cs.Call.Args[1], env, hooks)
				if e1 != nil || e2 != nil || !x.isInt() || !y.isInt() {
					bad = "argument not foldable"
					return
				}
				got[kind][[2]int64{x.I, y.I}] = true
			})
			want := map[string][][2]int64{
				"pdp": {{0, 0}, {d - 7, 0}, {0, d - 7}},
				"h":   {{0, 7}, {d - 8, 7}, {0, d - 8}},
				"v":   {{7, 0}, {d - 8, 0}, {7, d - 7}},
			}
			for k, ws := range want {
				if len(got[k]) != len(ws) {
					bad = fmt.Sprintf("dimension %d: %s placements %v, ISO 18004: %v", d, k, got[k], ws)
				}
				for _, w := range ws {
					if !got[k][w] {
						bad = fmt.Sprintf("dimension %d: %s placements %v, ISO 18004: %v", d, k, got[k], ws)
					}
				}
			}
		}
		r.Check(bad == "", "T-BASICPOS", key, c.pos(fd.Pos()), bad)
	}
	// 2. dark module
	fd, p = c.funcDeclOf("qrcode/encoder", "embedDarkDotAtLeftBottomCorner")
	key = "qrcode/encoder.embedDarkDotAtLeftBottomCorner"
	if fd == nil {
		r.AnchorLost("T-BASICPOS", key, "function not found")
	} else {
		r.Analysed(key)
		bad := ""
		n := 0
		for _, d := range []int64{21, 45, 177} {
			hooks := &rpf{callHook: func(rr *rpf, call *ast.CallExpr, callee types.Object) (*Val, bool) {
				if isMethodNamed(callee, "qrcode/encoder", "ByteMatrix", "GetWidth") || isMethodNamed(callee, "qrcode/encoder", "ByteMatrix", "GetHeight") {
					return vint(d), true
				}
				return nil, false
			}}
			walkCalls(p, fd.Body, func(cs *callSite) {
				if isMethodNamed(cs.Callee, "qrcode/encoder", "ByteMatrix", "Set") && len(cs.Call.Args) == 3 {
					n++
					x, e1 := c.rpfExpr(p, cs.Call.Args[0], nil, hooks)
					y, e2 := c.rpfExpr(p, cs.Call.Args[1], nil, hooks)
					v, e3 := c.rpfExpr(p, cs.Call.Args[2], nil, hooks)
					if e1 != nil || e2 != nil || e3 != nil || x.I != 8 || y.I != d-8 || v.I != 1 {
						bad = fmt.Sprintf("dimension %d: sets (%v,%v)=%v, ISO 18004: (8, %d) dark", d, x, y, v, d-8)
					}
				}
			})
		}
		r.Check(bad == "" && n == 3, "T-BASICPOS", key, c.pos(fd.Pos()), bad)
	}
	// 3. timing
	fd, p = c.funcDeclOf("qrcode/encoder", "embedTimingPatterns")
	key = "qrcode/encoder.embedTimingPatterns"
	if fd == nil {
		r.AnchorLost("T-BASICPOS", key, "function not found")
		return
	}
	r.Analysed(key)
	var loop *ast.ForStmt
	for _, st := range fd.Body.List {
		if f, ok := st.(*ast.ForStmt); ok {
			loop = f
		}
	}
	if loop == nil {
		r.Undecided("T-BASICPOS", key, c.pos(fd.Pos()), "timing loop not found")
		return
	}
	as, ok := loop.Init.(*ast.AssignStmt)
	lo, isC := int64(0), false
	if ok && len(as.Rhs) == 1 {
		lo, isC = constInt(p, as.Rhs[0])
	}
	bad := ""
	if !ok || !isC || lo != 8 {
		bad = "timing loop must start at index 8"
	}
	// upper bound: i < width-8
	if bad == "" {
		hooks := &rpf{callHook: func(rr *rpf, call *ast.CallExpr, callee types.Object) (*Val, bool) {
			if isMethodNamed(callee, "qrcode/encoder", "ByteMatrix", "GetWidth") || isMethodNamed(callee, "qrcode/encoder", "ByteMatrix", "GetHeight") {
				return vint(45), true
			}
			return nil, false
		}}
		iv := p.TypesInfo.Defs[as.Lhs[0].(*ast.Ident)]
		for _, t := range []struct {
			i    int64
			want bool
		}{{36, true}, {37, false}} {
			v, err := c.rpfExpr(p, loop.Cond, map[types.Object]*Val{iv: vint(t.i)}, hooks)
			if err != nil || v.K != VBool || v.B != t.want {
				bad = "timing loop must run up to index dimension-9"
			}
		}
		for i := int64(8); i < 12 && bad == ""; i++ {
			var set [][3]int64
			h2 := &rpf{callHook: func(rr *rpf, call *ast.CallExpr, callee types.Object) (*Val, bool) {
				switch {
				case isMethodNamed(callee, "qrcode/encoder", "ByteMatrix", "Get"):
					return vint(-1), true
				case isFuncNamed(callee, "qrcode/encoder", "isEmpty"):
					return vbool(true), true
				case isMethodNamed(callee, "qrcode/encoder", "ByteMatrix", "Set"):
					x, y, v := rr.expr(call.Args[0]), rr.expr(call.Args[1]), rr.expr(call.Args[2])
					set = append(set, [3]int64{x.I, y.I, v.I})
					return &Val{K: VNil}, true
				}
				return nil, false
			}}
			if err := foldLoopBodies(c, p, map[types.Object]*Val{iv: vint(i)}, h2, nil, loop); err != nil {
				bad = "?" + err.Error()
				break
			}
			want := (i + 1) % 2
			okSet := len(set) == 2
			for _, s := range set {
				if s[2] != want || !((s[0] == i && s[1] == 6) || (s[0] == 6 && s[1] == i)) {
					okSet = false
				}
			}
			if !okSet {
				bad = fmt.Sprintf("index %d: sets %v, ISO 18004: (i,6) and (6,i) = %d", i, set, want)
			}
		}
	}
	r.Check(bad == "", "T-BASICPOS", key, c.pos(loop.Pos()), bad)
}

// ---- S-INTERLEAVE: block split and interleaving, and its inverse in the decoder ----

func checkQRInterleave(c *Ctx, r *Report) {
	r.Rule("S-INTERLEAVE", "for a (version, level) structure the encoder's interleaveWithECBytes - folded with tagged codewords (data byte k carries tag k, check byte j of block b its own tag; Reed-Solomon itself is not run) - emits the data codewords column by column over the blocks (shorter blocks first, sequentially filled), then the check codewords column by column, as ISO 18004 8.6 prescribes, and the decoder's DataBlock_GetDataBlocks, folded on that very sequence, hands every block exactly its own data and check codewords back in order; quick tier: 10 versions x 4 levels, thorough tier: all 160", 40)
	efd, ep := c.funcDeclOf("qrcode/encoder", "interleaveWithECBytes")
	dfd, dp := c.funcDeclOf("qrcode/decoder", "DataBlock_GetDataBlocks")
	if efd == nil || dfd == nil {
		r.AnchorLost("S-INTERLEAVE", "qrcode interleave", "interleaveWithECBytes / DataBlock_GetDataBlocks not found")
		return
	}
	versions := []int{1, 2, 5, 7, 10, 15, 20, 27, 32, 40}
	if c.Tier == "thorough" {
		versions = nil
		for v := 1; v <= 40; v++ {
			versions = append(versions, v)
		}
	}
	const ecTag = 1000000
	for _, v := range versions {
		for lv := 0; lv < 4; lv++ {
			key := fmt.Sprintf("qrcode interleave v%d-%s", v, refQRLevelNames[lv])
			r.Analysed(key)
			ec, groups := refQRBlocks(v, lv)
			total := refQRTotalCodewords(v)
			// reference block structure
			var dataLen []int
			for _, g := range groups {
				for i := 0; i < g[0]; i++ {
					dataLen = append(dataLen, g[1])
				}
			}
			nb := len(dataLen)
			numData := total - ec*nb
			// expected interleaved sequence
			var want []int64
			start := make([]int, nb)
			off := 0
			maxD := 0
			for b, n := range dataLen {
				start[b] = off
				off += n
				if n > maxD {
					maxD = n
				}
			}
			for i := 0; i < maxD; i++ {
				for b := 0; b < nb; b++ {
					if i < dataLen[b] {
						want = append(want, int64(start[b]+i))
					}
				}
			}
			for i := 0; i < ec; i++ {
				for b := 0; b < nb; b++ {
					want = append(want, int64(ecTag+b*1000+i))
				}
			}
			// ---- encoder
			var emitted []int64
			blockNo := 0
			eh := &rpf{unroll: 100000, maxSteps: 3000000}
			eh.callHook = func(rr *rpf, call *ast.CallExpr, callee types.Object) (*Val, bool) {
				fn, ok := callee.(*types.Func)
				if !ok {
					return nil, false
				}
				switch {
				case isMethodNamed(callee, "", "BitArray", "GetSizeInBytes"):
					// the size of the input bits (the first parameter) or of the stream built so far
					if identObj(ep, call.Fun.(*ast.SelectorExpr).X) == paramObjs(ep, efd)[0] {
						return vint(int64(numData)), true
					}
					return vint(int64(len(emitted))), true
				case isMethodNamed(callee, "", "BitArray", "ToBytes"):
					o, dst, n := rr.expr(call.Args[0]), rr.expr(call.Args[1]), rr.expr(call.Args[3])
					if o.K != VInt || n.K != VInt || dst.K != VList || o.I%8 != 0 || int64(len(dst.L)) < n.I {
						rpfFail("ToBytes with unexpected arguments")
					}
					for k := int64(0); k < n.I; k++ {
						dst.L[k] = vint(o.I/8 + k)
					}
					return &Val{K: VNil}, true
				case isMethodNamed(callee, "", "BitArray", "AppendBits"):
					val, w := rr.expr(call.Args[0]), rr.expr(call.Args[1])
					if val.K != VInt || w.K != VInt || w.I != 8 {
						rpfFail("AppendBits with unexpected arguments")
					}
					emitted = append(emitted, val.I)
					return &Val{K: VNil}, true
				case fn.Name() == "NewEmptyBitArray":
					return &Val{K: VNil}, true
				}
				return errCtorHook(rr, call, callee)
			}
			eh.multiHook = func(call *ast.CallExpr, callee types.Object) ([]*Val, bool) {
				if isFuncNamed(callee, "qrcode/encoder", "generateECBytes") {
					n := rpfCurrent.expr(call.Args[1])
					out := &Val{K: VList}
					for i := int64(0); i < n.I; i++ {
						out.L = append(out.L, vint(int64(ecTag+blockNo*1000)+i))
					}
					blockNo++
					return []*Val{out, {K: VNil}}, true
				}
				return nil, false
			}
			res, err := c.rpfCall(efd, ep, []*Val{{K: VNil}, vint(int64(total)), vint(int64(numData)), vint(int64(nb))}, eh)
			pos := c.pos(efd.Pos())
			if err != nil {
				r.Undecided("S-INTERLEAVE", key, pos, "encoder: "+err.Error())
				continue
			}
			if len(res) != 2 || res[1].K != VNil {
				r.Fail("S-INTERLEAVE", key, pos, "violation", fmt.Sprintf("interleaveWithECBytes(%d total, %d data, %d blocks) reports an error", total, numData, nb))
				continue
			}
			if fmt.Sprint(emitted) != fmt.Sprint(want) {
				at := 0
				for at < len(emitted) && at < len(want) && emitted[at] == want[at] {
					at++
				}
				r.Fail("S-INTERLEAVE", key, pos, "violation", fmt.Sprintf("the interleaved stream has %d codewords (expected %d) and first differs from ISO 18004 8.6 at position %d: %s instead of %s", len(emitted), len(want), at, tagName(emitted, at, ecTag), tagName(want, at, ecTag)))
				continue
			}
			// ---- decoder on that stream
			raw := &Val{K: VList}
			for _, t := range emitted {
				raw.L = append(raw.L, vint(t))
			}
			ecb := &Val{K: VList}
			for _, g := range groups {
				ecb.L = append(ecb.L, &Val{K: VStruct, Fields: map[string]*Val{"count": vint(int64(g[0])), "dataCodewords": vint(int64(g[1]))}})
			}
			ecBlocks := &Val{K: VStruct, Ptr: true, Fields: map[string]*Val{"ecCodewordsPerBlock": vint(int64(ec)), "ecBlocks": ecb}}
			dh := &rpf{unroll: 100000, maxSteps: 3000000}
			dh.callHook = func(rr *rpf, call *ast.CallExpr, callee types.Object) (*Val, bool) {
				fn, ok := callee.(*types.Func)
				if !ok {
					return nil, false
				}
				switch fn.Name() {
				case "GetTotalCodewords":
					return vint(int64(total)), true
				case "GetECBlocksForLevel":
					return ecBlocks, true
				}
				return errCtorHook(rr, call, callee)
			}
			dres, err := c.rpfCall(dfd, dp, []*Val{raw, {K: VNil}, vint(int64(lv))}, dh)
			dpos := c.pos(dfd.Pos())
			if err != nil {
				r.Undecided("S-INTERLEAVE", key, dpos, "decoder: "+err.Error())
				continue
			}
			if len(dres) != 2 || dres[1].K != VNil || dres[0].K != VList || len(dres[0].L) != nb {
				r.Fail("S-INTERLEAVE", key, dpos, "violation", fmt.Sprintf("DataBlock_GetDataBlocks does not return the %d blocks of this structure", nb))
				continue
			}
			bad := ""
			for b := 0; b < nb && bad == ""; b++ {
				blk := dres[0].L[b]
				if blk.K != VStruct || blk.Fields["codewords"] == nil || blk.Fields["numDataCodewords"] == nil {
					bad = "?block value not recognised"
					break
				}
				if blk.Fields["numDataCodewords"].I != int64(dataLen[b]) {
					bad = fmt.Sprintf("block %d is given %d data codewords, the structure has %d", b, blk.Fields["numDataCodewords"].I, dataLen[b])
					break
				}
				got, _ := listInts(blk.Fields["codewords"])
				var exp []int64
				for i := 0; i < dataLen[b]; i++ {
					exp = append(exp, int64(start[b]+i))
				}
				for i := 0; i < ec; i++ {
					exp = append(exp, int64(ecTag+b*1000+i))
				}
				if fmt.Sprint(got) != fmt.Sprint(exp) {
					at := 0
					for at < len(got) && at < len(exp) && got[at] == exp[at] {
						at++
					}
					bad = fmt.Sprintf("block %d: codeword %d handed back by the decoder is %s, the encoder put %s there", b, at, tagName(got, at, ecTag), tagName(exp, at, ecTag))
				}
			}
			if bad != "" && bad[0] == '?' {
				r.Undecided("S-INTERLEAVE", key, dpos, bad[1:])
			} else {
				r.Check(bad == "", "S-INTERLEAVE", key, dpos, bad)
			}
		}
	}
}

func tagName(xs []int64, at int, ecTag int64) string {
	if at >= len(xs) {
		return "<end of stream>"
	}
	t := xs[at]
	if t >= ecTag {
		return fmt.Sprintf("check codeword %d of block %d", (t-ecTag)%1000, (t-ecTag)/1000)
	}
	return fmt.Sprintf("data codeword %d", t)
}

// ---- S-ZIGZAG: module placement of the codeword stream and its read-out ----

func refQRIsFunction(v, x, y int) bool {
	dim := 17 + 4*v
	// finder patterns with separators and format information
	if (x < 9 && y < 9) || (x >= dim-8 && y < 9) || (x < 9 && y >= dim-8) {
		return true
	}
	// timing patterns
	if x == 6 || y == 6 {
		return true
	}
	// alignment patterns
	al := refQRAlign(v)
	for _, cy := range al {
		for _, cx := range al {
			if (cx == 6 && cy == 6) || (cx == 6 && cy == dim-7) || (cx == dim-7 && cy == 6) {
				continue
			}
			if x >= cx-2 && x <= cx+2 && y >= cy-2 && y <= cy+2 {
				return true
			}
		}
	}
	// version information
	if v >= 7 {
		if (x >= dim-11 && x < dim-8 && y < 6) || (y >= dim-11 && y < dim-8 && x < 6) {
			return true
		}
	}
	return false
}

// refQRZigZag: ISO 18004 8.7.3 - two-module wide columns from the right, alternately upwards and downwards,
// the vertical timing column skipped, within a column pair the right module first.
func refQRZigZag(v int) [][2]int {
	dim := 17 + 4*v
	var out [][2]int
	up := true
	for x := dim - 1; x > 0; x -= 2 {
		if x == 6 {
			x--
		}
		for k := 0; k < dim; k++ {
			y := k
			if up {
				y = dim - 1 - k
			}
			for c := 0; c < 2; c++ {
				if !refQRIsFunction(v, x-c, y) {
					out = append(out, [2]int{x - c, y})
				}
			}
		}
		up = !up
	}
	return out
}

func checkQRZigZag(c *Ctx, r *Report) {
	r.Rule("S-ZIGZAG", "the encoder's embedDataBits places bit k of the codeword stream, and the decoder's ReadCodewords reads its k-th bit, at the k-th data module of the ISO 18004 8.7.3 traversal (two-module columns from the right, alternately up and down, vertical timing column skipped, function modules skipped) - both functions are folded on the reference function-pattern map of versions 1, 2, 7 and 14 (thorough tier: also 21, 32, 40); bits are taken from the stream in order and the mask is asked for the module's own (x, y)", 8)
	efd, ep := c.funcDeclOf("qrcode/encoder", "embedDataBits")
	dfd, dp := c.funcDeclOf("qrcode/decoder", "BitMatrixParser.ReadCodewords")
	if efd == nil || dfd == nil {
		r.AnchorLost("S-ZIGZAG", "qrcode placement", "embedDataBits / ReadCodewords not found")
		return
	}
	versions := []int{1, 2, 7, 14}
	if c.Tier == "thorough" {
		versions = append(versions, 21, 32, 40)
	}
	for _, v := range versions {
		dim := int64(17 + 4*v)
		total := int64(refQRTotalCodewords(v))
		want := refQRZigZag(v)
		describe := func(seq [][2]int64) string {
			at := 0
			for at < len(seq) && at < len(want) && seq[at][0] == int64(want[at][0]) && seq[at][1] == int64(want[at][1]) {
				at++
			}
			if at >= len(seq) && at >= len(want) {
				return ""
			}
			g, w := "<end>", "<end>"
			if at < len(seq) {
				g = fmt.Sprintf("(%d,%d)", seq[at][0], seq[at][1])
			}
			if at < len(want) {
				w = fmt.Sprintf("(%d,%d)", want[at][0], want[at][1])
			}
			return fmt.Sprintf("%d modules visited, %d data modules in the symbol; bit %d goes to module %s, ISO 18004 8.7.3 puts it at %s", len(seq), len(want), at, g, w)
		}
		// ---- encoder
		key := fmt.Sprintf("qrcode/encoder.embedDataBits v%d", v)
		r.Analysed(key)
		var placed [][2]int64
		var taken []int64
		maskArgsOK := true
		eh := &rpf{unroll: 1000000, maxSteps: 8000000}
		eh.callHook = func(rr *rpf, call *ast.CallExpr, callee types.Object) (*Val, bool) {
			fn, ok := callee.(*types.Func)
			if !ok {
				return nil, false
			}
			switch {
			case isMethodNamed(callee, "qrcode/encoder", "ByteMatrix", "GetWidth"), isMethodNamed(callee, "qrcode/encoder", "ByteMatrix", "GetHeight"):
				return vint(dim), true
			case isMethodNamed(callee, "qrcode/encoder", "ByteMatrix", "Get"):
				x, y := rr.expr(call.Args[0]), rr.expr(call.Args[1])
				if x.K != VInt || y.K != VInt || x.I < 0 || y.I < 0 || x.I >= dim || y.I >= dim {
					rpfFail("matrix.Get outside the symbol")
				}
				if refQRIsFunction(v, int(x.I), int(y.I)) {
					return vint(1), true
				}
				for _, pl := range placed {
					if pl[0] == x.I && pl[1] == y.I {
						return vint(0), true
					}
				}
				return vint(-1), true
			case isMethodNamed(callee, "qrcode/encoder", "ByteMatrix", "SetBool"):
				x, y := rr.expr(call.Args[0]), rr.expr(call.Args[1])
				placed = append(placed, [2]int64{x.I, y.I})
				return &Val{K: VNil}, true
			case isMethodNamed(callee, "", "BitArray", "GetSize"):
				return vint(total * 8), true
			case isMethodNamed(callee, "", "BitArray", "Get"):
				i := rr.expr(call.Args[0])
				taken = append(taken, i.I)
				return vbool(false), true
			case fn.Name() == "isEmpty":
				return nil, false
			}
			return errCtorHook(rr, call, callee)
		}
		eh.multiHook = func(call *ast.CallExpr, callee types.Object) ([]*Val, bool) {
			if isFuncNamed(callee, "qrcode/encoder", "MaskUtil_getDataMaskBit") {
				x, y := rpfCurrent.expr(call.Args[1]), rpfCurrent.expr(call.Args[2])
				// the mask must be asked for the module about to be written
				n := len(placed)
				_ = n
				maskAsk = append(maskAsk, [2]int64{x.I, y.I})
				return []*Val{vbool(false), {K: VNil}}, true
			}
			return nil, false
		}
		maskAsk = nil
		res, err := c.rpfCall(efd, ep, []*Val{{K: VNil}, vint(0), {K: VNil}}, eh)
		pos := c.pos(efd.Pos())
		switch {
		case err != nil:
			r.Undecided("S-ZIGZAG", key, pos, err.Error())
		case len(res) != 1 || res[0].K != VNil:
			r.Fail("S-ZIGZAG", key, pos, "violation", "embedDataBits reports an error on a symbol of the right size")
		default:
			bad := describe(placed)
			if bad == "" {
				for k, t := range taken {
					if t != int64(k) {
						bad = fmt.Sprintf("the %d-th bit placed is bit %d of the stream", k, t)
						break
					}
				}
			}
			if bad == "" && int64(len(taken)) != total*8 {
				bad = fmt.Sprintf("%d bits taken from a stream of %d", len(taken), total*8)
			}
			if bad == "" {
				if len(maskAsk) != len(placed) {
					maskArgsOK = false
				}
				for k := range maskAsk {
					if k < len(placed) && maskAsk[k] != placed[k] {
						maskArgsOK = false
					}
				}
				if !maskArgsOK {
					bad = "the data mask is not evaluated at the coordinates of the module being written"
				}
			}
			r.Check(bad == "", "S-ZIGZAG", key, pos, bad)
		}
		// ---- decoder
		key = fmt.Sprintf("qrcode/decoder.BitMatrixParser.ReadCodewords v%d", v)
		r.Analysed(key)
		var read [][2]int64
		dh := &rpf{unroll: 1000000, maxSteps: 8000000}
		dh.selHook = func(rr *rpf, sel *ast.SelectorExpr) (*Val, bool) {
			if sel.Sel.Name == "bitMatrix" {
				return &Val{K: VStruct, Fields: map[string]*Val{"tag": vstr("image")}}, true
			}
			return nil, false
		}
		dh.idxHook = func(rr *rpf, ix *ast.IndexExpr) (*Val, bool) {
			if id, ok := ix.X.(*ast.Ident); ok && id.Name == "DataMaskValues" {
				return &Val{K: VStruct, Fields: map[string]*Val{"tag": vstr("mask")}}, true
			}
			return nil, false
		}
		dh.callHook = func(rr *rpf, call *ast.CallExpr, callee types.Object) (*Val, bool) {
			fn, ok := callee.(*types.Func)
			if !ok {
				return nil, false
			}
			switch fn.Name() {
			case "GetDataMask":
				return vint(0), true
			case "UnmaskBitMatrix":
				return &Val{K: VNil}, true
			case "GetTotalCodewords":
				return vint(total), true
			case "GetHeight", "GetWidth":
				return vint(dim), true
			case "Get":
				if !isMethodNamed(callee, "", "BitMatrix", "Get") {
					return nil, false
				}
				x, y := rr.expr(call.Args[0]), rr.expr(call.Args[1])
				if x.K != VInt || y.K != VInt || x.I < 0 || y.I < 0 || x.I >= dim || y.I >= dim {
					rpfFail("a module outside the symbol is read")
				}
				// which matrix is asked: the function-pattern map built for the version, or the image
				recv := rr.expr(call.Fun.(*ast.SelectorExpr).X)
				if recv.K == VStruct && recv.Fields["tag"] != nil && recv.Fields["tag"].S == "buildFunctionPattern" {
					return vbool(refQRIsFunction(v, int(x.I), int(y.I))), true
				}
				read = append(read, [2]int64{x.I, y.I})
				return vbool(false), true
			}
			return errCtorHook(rr, call, callee)
		}
		dh.multiHook = func(call *ast.CallExpr, callee types.Object) ([]*Val, bool) {
			if fn, ok := callee.(*types.Func); ok {
				switch fn.Name() {
				case "ReadFormatInformation", "ReadVersion", "buildFunctionPattern":
					return []*Val{{K: VStruct, Fields: map[string]*Val{"tag": vstr(fn.Name())}}, {K: VNil}}, true
				}
			}
			return nil, false
		}
		dh.env = map[types.Object]*Val{}
		if ro := recvObj(dp, dfd); ro != nil {
			dh.env[ro] = &Val{K: VStruct, Fields: map[string]*Val{}, Local: true}
		}
		dres, err := c.rpfCall(dfd, dp, nil, dh)
		dpos := c.pos(dfd.Pos())
		switch {
		case err != nil:
			r.Undecided("S-ZIGZAG", key, dpos, err.Error())
		case len(dres) != 2 || dres[1].K != VNil:
			r.Fail("S-ZIGZAG", key, dpos, "violation", "ReadCodewords reports an error on a symbol of the right size: the number of data modules it visits does not give the version's codeword count")
		default:
			r.Check(describe(read) == "", "S-ZIGZAG", key, dpos, describe(read))
		}
	}
}

var maskAsk [][2]int64

// S-TERM: terminator, bit padding and pad codewords (ISO 18004 8.4.8 - 8.4.9)
func checkQRTerminate(c *Ctx, r *Report) {
	r.Rule("S-TERM", "terminateBits, folded on a model of the bit array (size, append) for every data capacity of 1..6 codewords and every bit count from 0 to one past the capacity, rejects only a bit count over the capacity and otherwise leaves exactly: the bits given, a terminator of min(4, capacity - size) zero bits, zero bits up to the codeword boundary, then pad codewords 0xEC, 0x11 alternately up to the capacity", 1)
	fd, p := c.funcDeclOf("qrcode/encoder", "terminateBits")
	if fd == nil {
		r.AnchorLost("S-TERM", "qrcode/encoder.terminateBits", "function not found")
		return
	}
	key := "qrcode/encoder.terminateBits"
	r.Analysed(key)
	bad := ""
	folds := 0
	for n := int64(1); n <= 6 && bad == ""; n++ {
		for size := int64(0); size <= 8*n+1 && bad == ""; size++ {
			var bits []bool
			for i := int64(0); i < size; i++ {
				bits = append(bits, (i*5+n)%3 == 0)
			}
			orig := append([]bool{}, bits...)
			h := &rpf{unroll: 1000}
			h.callHook = func(rr *rpf, call *ast.CallExpr, callee types.Object) (*Val, bool) {
				switch {
				case isMethodNamed(callee, "", "BitArray", "GetSize"):
					return vint(int64(len(bits))), true
				case isMethodNamed(callee, "", "BitArray", "GetSizeInBytes"):
					return vint(int64(len(bits)+7) / 8), true
				case isMethodNamed(callee, "", "BitArray", "AppendBit"):
					b := rr.expr(call.Args[0])
					if b.K != VBool {
						rpfFail("AppendBit with a non-constant argument")
					}
					bits = append(bits, b.B)
					return &Val{K: VNil}, true
				case isMethodNamed(callee, "", "BitArray", "AppendBits"):
					v, w := rr.expr(call.Args[0]), rr.expr(call.Args[1])
					if v.K != VInt || w.K != VInt || w.I < 0 || w.I > 32 {
						rpfFail("AppendBits with non-constant arguments")
					}
					for k := w.I - 1; k >= 0; k-- {
						bits = append(bits, v.I>>uint(k)&1 == 1)
					}
					return &Val{K: VNil}, true
				}
				return errCtorHook(rr, call, callee)
			}
			res, err := c.rpfCall(fd, p, []*Val{vint(n), {K: VNil}}, h)
			folds++
			if err != nil {
				bad = "?" + err.Error()
				break
			}
			failed := len(res) != 1 || res[0].K != VNil
			if size > 8*n {
				if !failed {
					bad = fmt.Sprintf("%d bits are accepted for a capacity of %d codewords", size, n)
				}
				continue
			}
			if failed {
				bad = fmt.Sprintf("%d bits, which fit the capacity of %d codewords (%d bits), are rejected", size, n, 8*n)
				break
			}
			want := append([]bool{}, orig...)
			for i := 0; i < 4 && int64(len(want)) < 8*n; i++ {
				want = append(want, false)
			}
			for len(want)%8 != 0 {
				want = append(want, false)
			}
			for i := 0; int64(len(want)) < 8*n; i++ {
				v := 0xEC
				if i%2 == 1 {
					v = 0x11
				}
				for k := 7; k >= 0; k-- {
					want = append(want, v>>uint(k)&1 == 1)
				}
			}
			if fmt.Sprint(bits) != fmt.Sprint(want) {
				bad = fmt.Sprintf("for %d bits and a capacity of %d codewords the result has %d bits %s; ISO 18004 8.4.8/8.4.9 gives %s", size, n, len(bits), bitString(bits[min(len(bits), int(size)):]), bitString(want[size:]))
			}
		}
	}
	r.Extra("S-TERM folds", folds)
	reportFold(r, c, "S-TERM", key, fd.Pos(), bad)
}

func bitString(b []bool) string {
	s := "after the data: "
	for _, x := range b {
		if x {
			s += "1"
		} else {
			s += "0"
		}
	}
	return s
}

// S-QRBASIC: finder patterns, separators, dark module, alignment patterns and timing tracks as drawn, for every version
func checkQRBasicPatterns(c *Ctx, r *Report) {
	r.Rule("S-QRBASIC", "embedBasicPatterns, folded from source for each version 1..40 on a module-matrix model (Get / Set recorded, everything else folded as written), leaves exactly the fixed patterns of ISO 18004: the three finder patterns with their separators, the dark module, an alignment pattern at every pair of the version's centre coordinates except the three that meet a finder pattern, the two timing tracks - every other module still empty, no module outside the symbol touched", 40)
	fd, p := c.funcDeclOf("qrcode/encoder", "embedBasicPatterns")
	if fd == nil {
		r.AnchorLost("S-QRBASIC", "qrcode/encoder.embedBasicPatterns", "function not found")
		return
	}
	for v := 1; v <= 40; v++ {
		key := fmt.Sprintf("qrcode/encoder.embedBasicPatterns v%d", v)
		r.Analysed(key)
		dim := 17 + 4*v
		want := make([][]int, dim)
		for y := range want {
			want[y] = make([]int, dim)
			for x := range want[y] {
				want[y][x] = -1
			}
		}
		// timing first (the lowest priority in the comparison; alignment patterns on row / column 6 agree with it)
		for i := 8; i < dim-8; i++ {
			want[6][i] = (i + 1) % 2
			want[i][6] = (i + 1) % 2
		}
		ctrs := refQRAlign(v)
		for _, cy := range ctrs {
			for _, cx := range ctrs {
				if (cx == 6 && cy == 6) || (cx == 6 && cy == dim-7) || (cx == dim-7 && cy == 6) {
					continue
				}
				for dy := -2; dy <= 2; dy++ {
					for dx := -2; dx <= 2; dx++ {
						want[cy+dy][cx+dx] = refQRAlignPattern[dy+2][dx+2]
					}
				}
			}
		}
		for _, o := range [][2]int{{0, 0}, {dim - 7, 0}, {0, dim - 7}} {
			for dy := -1; dy <= 7; dy++ {
				for dx := -1; dx <= 7; dx++ {
					x, y := o[0]+dx, o[1]+dy
					if x < 0 || y < 0 || x >= dim || y >= dim {
						continue
					}
					if dx >= 0 && dx < 7 && dy >= 0 && dy < 7 {
						want[y][x] = refQRFinder[dy][dx]
					} else {
						want[y][x] = 0 // separator
					}
				}
			}
		}
		want[dim-8][8] = 1
		got := map[[2]int64]int64{}
		h := &rpf{unroll: 100000, maxSteps: 5000000, effectCalls: true}
		h.callHook = func(rr *rpf, call *ast.CallExpr, callee types.Object) (*Val, bool) {
			fn, ok := callee.(*types.Func)
			if !ok {
				return nil, false
			}
			recv := fn.Type().(*types.Signature).Recv()
			if recv != nil && strings.HasSuffix(recv.Type().String(), "ByteMatrix") {
				switch fn.Name() {
				case "GetWidth", "GetHeight":
					return vint(int64(dim)), true
				case "Get", "Set", "SetBool":
					x, y := rr.expr(call.Args[0]), rr.expr(call.Args[1])
					if x.K != VInt || y.K != VInt || x.I < 0 || y.I < 0 || x.I >= int64(dim) || y.I >= int64(dim) {
						rpfFail("%s(%v, %v) outside the %dx%d symbol", fn.Name(), x, y, dim, dim)
					}
					k := [2]int64{x.I, y.I}
					if fn.Name() == "Get" {
						if val, ok := got[k]; ok {
							return &Val{K: VInt, I: val, T: types.Typ[types.Int8]}, true
						}
						return &Val{K: VInt, I: -1, T: types.Typ[types.Int8]}, true
					}
					val := rr.expr(call.Args[2])
					switch val.K {
					case VInt:
						got[k] = val.I
					case VBool:
						got[k] = 0
						if val.B {
							got[k] = 1
						}
					default:
						rpfFail("a non-constant module value is stored")
					}
					return &Val{K: VNil}, true
				}
			}
			if fn.Name() == "GetVersionNumber" {
				return vint(int64(v)), true
			}
			return errCtorHook(rr, call, callee)
		}
		res, err := c.rpfCall(fd, p, []*Val{{K: VStruct, Ptr: true, Fields: map[string]*Val{}}, {K: VStruct, Ptr: true, Fields: map[string]*Val{}}}, h)
		pos := c.pos(fd.Pos())
		if err != nil {
			r.Undecided("S-QRBASIC", key, pos, err.Error())
			continue
		}
		bad := ""
		if len(res) != 1 || res[0].K != VNil {
			bad = "embedBasicPatterns reports an error on an empty matrix"
		}
		for y := 0; y < dim && bad == ""; y++ {
			for x := 0; x < dim; x++ {
				g, ok := got[[2]int64{int64(x), int64(y)}]
				if !ok {
					g = -1
				}
				if int(g) != want[y][x] {
					name := func(vv int) string {
						switch vv {
						case -1:
							return "empty"
						case 0:
							return "light"
						}
						return "dark"
					}
					bad = fmt.Sprintf("version %d, module (x=%d, y=%d) is %s, the fixed patterns of ISO 18004 make it %s", v, x, y, name(int(g)), name(want[y][x]))
					break
				}
			}
		}
		r.Check(bad == "", "S-QRBASIC", key, pos, bad)
	}
}

// M-QRFINAL: the symbol handed back is the one built with the mask that is reported
func checkQRFinalBuild(c *Ctx, r *Report) {
	r.Rule("M-QRFINAL", "Encoder_encode: every successful return is dominated by one MatrixUtil_buildMatrix call - made unconditionally after the mask is settled, whether it was chosen by penalty or given by the hint - on the matrix that SetMatrix stores, with the mask pattern that SetMaskPattern stores and the bits / level / version the mask choice was made for; the QRCode never leaves with a matrix built for another mask or not built at all", 1)
	f := c.ssaFunc("qrcode/encoder", "Encoder_encode")
	key := "qrcode/encoder.Encoder_encode"
	if f == nil {
		r.AnchorLost("M-QRFINAL", key, "function not found")
		return
	}
	r.Analysed(key)
	var builds, chooses []*ssa.Call
	var setMatrix, setMask *ssa.Call
	for _, b := range f.Blocks {
		for _, in := range b.Instrs {
			call, ok := in.(*ssa.Call)
			if !ok {
				continue
			}
			g := call.Call.StaticCallee()
			if g == nil {
				continue
			}
			switch g.Name() {
			case "MatrixUtil_buildMatrix":
				builds = append(builds, call)
			case "chooseMaskPattern":
				chooses = append(chooses, call)
			case "SetMatrix":
				setMatrix = call
			case "SetMaskPattern":
				setMask = call
			}
		}
	}
	bad := ""
	switch {
	case len(builds) != 1:
		bad = fmt.Sprintf("%d MatrixUtil_buildMatrix calls", len(builds))
	case setMatrix == nil || setMask == nil:
		bad = "SetMatrix / SetMaskPattern not called"
	case len(builds[0].Call.Args) != 5:
		bad = "unexpected signature of MatrixUtil_buildMatrix"
	}
	if bad == "" {
		bm := builds[0]
		for _, ret := range returnsOf(f) {
			if len(ret.Results) != 2 {
				continue
			}
			if cst, ok := unspill(ret.Results[1], ret).(*ssa.Const); !ok || !cst.IsNil() {
				continue
			}
			if !(bm.Block() == ret.Block() || bm.Block().Dominates(ret.Block())) {
				bad = fmt.Sprintf("the successful return at %s can be reached without building the matrix", c.pos(ret.Pos()))
			}
		}
		last := func(call *ssa.Call) ssa.Value { return call.Call.Args[len(call.Call.Args)-1] }
		if bad == "" && bm.Call.Args[4] != last(setMatrix) {
			bad = "the matrix built is not the matrix stored in the QRCode"
		}
		if bad == "" && bm.Call.Args[3] != last(setMask) {
			bad = "the mask pattern the matrix is built with is not the one stored in the QRCode"
		}
		for _, ch := range chooses {
			if bad == "" && (len(ch.Call.Args) != 4 || ch.Call.Args[0] != bm.Call.Args[0] || ch.Call.Args[1] != bm.Call.Args[1] || ch.Call.Args[2] != bm.Call.Args[2]) {
				bad = "the mask is chosen for other bits / level / version than the matrix is built from"
			}
		}
	}
	r.Check(bad == "", "M-QRFINAL", key, c.pos(f.Pos()), bad)
}

// M-MASKHINT: the requested mask pattern is the one used
func checkQRMaskHint(c *Ctx, r *Report) {
	r.Rule("M-MASKHINT", "Encoder_encode, from the statement that introduces the mask pattern to the final build, folded with the penalty choice replaced by a recorder: a QR_MASK_PATTERN hint of 0..7 - as int or as decimal string - is the pattern handed to SetMaskPattern and to MatrixUtil_buildMatrix (0 included) and chooseMaskPattern is not consulted; without the hint, or with a value that is no mask pattern (-1, 8, \"x\", \"9\"), the pattern chooseMaskPattern answers is used", 1)
	fd, p := c.funcDeclOf("qrcode/encoder", "Encoder_encode")
	key := "qrcode/encoder.Encoder_encode/mask-hint"
	if fd == nil {
		r.AnchorLost("M-MASKHINT", key, "function not found")
		return
	}
	r.Analysed(key)
	builds := findCalls(p, fd.Body, func(o types.Object) bool { return isFuncNamed(o, "qrcode/encoder", "MatrixUtil_buildMatrix") })
	hk, okK := constValIn(c, "", "EncodeHintType_QR_MASK_PATTERN")
	if len(builds) == 0 || len(builds[len(builds)-1].Args) != 5 || !okK {
		r.Undecided("M-MASKHINT", key, c.pos(fd.Pos()), "final MatrixUtil_buildMatrix call / hint key not found")
		return
	}
	build := builds[len(builds)-1]
	maskObj := identObj(p, build.Args[3])
	// the slice of top-level statements from the definition of the mask variable to the end
	from := -1
	for i, st := range fd.Body.List {
		if as, ok := st.(*ast.AssignStmt); ok && as.Tok == token.DEFINE && len(as.Lhs) == 1 && maskObj != nil && identObj(p, as.Lhs[0]) == maskObj {
			from = i
		}
	}
	if from < 0 {
		r.Undecided("M-MASKHINT", key, c.pos(fd.Pos()), "the mask variable handed to the final build is not introduced by a top-level statement")
		return
	}
	stmts := fd.Body.List[from:]
	hintsObj := paramObjs(p, fd)[2]
	// variables the slice uses but does not define: opaque values
	defined := map[types.Object]bool{}
	for _, st := range stmts {
		ast.Inspect(st, func(n ast.Node) bool {
			if id, ok := n.(*ast.Ident); ok {
				if o := p.TypesInfo.Defs[id]; o != nil {
					defined[o] = true
				}
			}
			return true
		})
	}
	type tc struct {
		hint     *Val
		want     int64
		wantAuto bool
		desc     string
	}
	const auto = 5
	cases := []tc{{nil, auto, true, "no hint"}, {vint(-1), auto, true, "hint -1"}, {vint(8), auto, true, "hint 8"}, {vstr("x"), auto, true, `hint "x"`}, {vstr("9"), auto, true, `hint "9"`}}
	for m := int64(0); m < 8; m++ {
		cases = append(cases, tc{vint(m), m, false, fmt.Sprintf("hint %d", m)}, tc{vstr(fmt.Sprint(m)), m, false, fmt.Sprintf("hint %q", fmt.Sprint(m))})
	}
	bad := ""
	for _, cs := range cases {
		env := map[types.Object]*Val{}
		for _, st := range stmts {
			ast.Inspect(st, func(n ast.Node) bool {
				if id, ok := n.(*ast.Ident); ok {
					if v, isVar := p.TypesInfo.Uses[id].(*types.Var); isVar && !defined[v] && v.Pkg() != nil && v.Parent() != v.Pkg().Scope() && !v.IsField() {
						if _, has := env[v]; !has {
							env[v] = &Val{K: VStruct, Ptr: true, Local: true, Fields: map[string]*Val{}}
						}
					}
				}
				return true
			})
		}
		env[hintsObj] = &Val{K: VNil}
		if cs.hint != nil {
			env[hintsObj] = &Val{K: VStruct, Fields: map[string]*Val{fmt.Sprint(hk): cs.hint}}
		}
		var setMask, builtMask []int64
		autoCalls := 0
		h := &rpf{unroll: 100}
		h.callHook = func(rr *rpf, call *ast.CallExpr, callee types.Object) (*Val, bool) {
			switch {
			case isMethodNamed(callee, "qrcode/encoder", "QRCode", "SetMaskPattern"):
				if v := rr.expr(call.Args[0]); v.K == VInt {
					setMask = append(setMask, v.I)
				} else {
					rpfFail("SetMaskPattern with a non-constant pattern")
				}
				return &Val{K: VNil}, true
			case isFuncNamed(callee, "qrcode/encoder", "MatrixUtil_buildMatrix"):
				if v := rr.expr(call.Args[3]); v.K == VInt {
					builtMask = append(builtMask, v.I)
				} else {
					rpfFail("MatrixUtil_buildMatrix with a non-constant pattern")
				}
				return &Val{K: VNil}, true
			case isMethodNamed(callee, "qrcode/encoder", "QRCode", "SetMatrix"):
				return &Val{K: VNil}, true
			}
			return errCtorHook(rr, call, callee)
		}
		h.multiHook = func(call *ast.CallExpr, callee types.Object) ([]*Val, bool) {
			fn, ok := callee.(*types.Func)
			if !ok {
				return nil, false
			}
			switch {
			case isFuncNamed(callee, "qrcode/encoder", "chooseMaskPattern"):
				autoCalls++
				return []*Val{vint(auto), {K: VNil}}, true
			case fn.Pkg() != nil && fn.Pkg().Path() == "strconv" && fn.Name() == "Atoi":
				s := rpfCurrent.expr(call.Args[0])
				if s.K == VStr {
					if n, err := strconv.Atoi(s.S); err == nil {
						return []*Val{vint(int64(n)), {K: VNil}}, true
					}
					return []*Val{vint(0), vstr("error")}, true
				}
			}
			return nil, false
		}
		rr := &rpf{c: c, p: p, env: env, callHook: h.callHook, multiHook: h.multiHook, unroll: 100, curFn: fd}
		var err error
		func() {
			defer func() {
				if x := recover(); x != nil {
					if re, ok := x.(*rpfErr); ok {
						err = re
						return
					}
					panic(x)
				}
			}()
			rr.block(stmts)
		}()
		if err != nil {
			bad = "?" + cs.desc + ": " + err.Error()
			break
		}
		switch {
		case len(setMask) != 1 || len(builtMask) != 1:
			bad = fmt.Sprintf("%s: SetMaskPattern is reached %d times and the final build %d times", cs.desc, len(setMask), len(builtMask))
		case cs.wantAuto && autoCalls != 1:
			bad = fmt.Sprintf("%s: the mask is not chosen by penalty (chooseMaskPattern called %d times; pattern %d used)", cs.desc, autoCalls, builtMask[0])
		case !cs.wantAuto && autoCalls != 0:
			bad = fmt.Sprintf("%s: the requested pattern is overridden by the penalty choice", cs.desc)
		case setMask[0] != cs.want || builtMask[0] != cs.want:
			bad = fmt.Sprintf("%s: pattern %d is recorded and pattern %d is built; expected %d", cs.desc, setMask[0], builtMask[0], cs.want)
		}
		if bad != "" {
			break
		}
	}
	reportFold(r, c, "M-MASKHINT", key, fd.Body.List[from].Pos(), bad)
}

// S-INFOPLACEW: embedTypeInfo and maybeEmbedVersionInfo folded whole over a recording matrix and a planted bit array.
func checkQRInfoPlaceWhole(c *Ctx, r *Report) {
	if _, done := r.rules["S-INFOPLACEW"]; done {
		return
	}
	r.Rule("S-INFOPLACEW", "embedTypeInfo and maybeEmbedVersionInfo folded whole with the word builders replaced by a planted bit array (one bit set at a time, and none) and the matrix by a recorder of SetBool: for each of the 40 dimensions the modules written are exactly the two copies of the standard - format bit k (most significant first) at (0..5,8),(7,8),(8,8),(8,7),(8,5..0) and at (8,d-1..d-7),(d-8..d-1,8); version bit k at columns d-9..d-11 of rows 5..0 and at the transpose - the planted bit dark at its two modules and every other module of the copies light; below version 7 maybeEmbedVersionInfo writes nothing", 3)
	type coord struct{ i, j int64 }
	fold := func(fd *ast.FuncDecl, p *packages.Package, args []*Val, dim int64, nbits int, set int) (map[coord]bool, error) {
		written := map[coord]bool{}
		h := &rpf{unroll: 64}
		h.callHook = func(rr *rpf, call *ast.CallExpr, callee types.Object) (*Val, bool) {
			fnc, ok := callee.(*types.Func)
			if !ok {
				return nil, false
			}
			recv := ""
			if sig, ok := fnc.Type().(*types.Signature); ok && sig.Recv() != nil {
				recv = namedOf(sig.Recv().Type())
			}
			switch {
			case fnc.Name() == "NewEmptyBitArray":
				return &Val{K: VStruct, Ptr: true, Fields: map[string]*Val{}}, true
			case fnc.Name() == "makeTypeInfoBits" || fnc.Name() == "makeVersionInfoBits":
				return &Val{K: VNil}, true
			case recv == "BitArray" && fnc.Name() == "GetSize":
				return vint(int64(nbits)), true
			case recv == "BitArray" && fnc.Name() == "Get":
				k := rr.expr(call.Args[0])
				if k.K != VInt || k.I < 0 || k.I >= int64(nbits) {
					rpfFail("bit %s of the %d-bit word is read", k, nbits)
				}
				return vbool(int(k.I) == set), true
			case recv == "ByteMatrix" && (fnc.Name() == "GetWidth" || fnc.Name() == "GetHeight"):
				return vint(dim), true
			case recv == "ByteMatrix" && fnc.Name() == "SetBool":
				x, y, b := rr.expr(call.Args[0]), rr.expr(call.Args[1]), rr.expr(call.Args[2])
				if x.K != VInt || y.K != VInt || b.K != VBool {
					rpfFail("SetBool with non-constant arguments")
				}
				if x.I < 0 || y.I < 0 || x.I >= dim || y.I >= dim {
					rpfFail("SetBool(%d, %d) outside the %dx%d symbol", x.I, y.I, dim, dim)
				}
				written[coord{x.I, y.I}] = b.B
				return &Val{K: VNil}, true
			case recv == "ByteMatrix" && fnc.Name() == "Set":
				rpfFail("the matrix is written through Set")
			}
			return errCtorHook(rr, call, callee)
		}
		res, err := c.rpfCall(fd, p, args, h)
		if err == nil && (len(res) != 1 || res[0].K != VNil) {
			err = fmt.Errorf("an error is returned")
		}
		return written, err
	}
	decide := func(key string, fd *ast.FuncDecl, p *packages.Package, nbits int, versions []int64, args func(ver int64) []*Val, copies func(dim int64) ([]coord, []coord)) {
		r.Analysed(key)
		folds := 0
		for _, ver := range versions {
			dim := 17 + 4*ver
			w1, w2 := copies(dim)
			for set := -1; set < nbits; set++ {
				written, err := fold(fd, p, args(ver), dim, nbits, set)
				folds++
				if err != nil {
					r.Undecided("S-INFOPLACEW", key, c.pos(fd.Pos()), fmt.Sprintf("version %d, bit %d set: %v", ver, set, err))
					return
				}
				if len(written) != 2*nbits {
					r.Fail("S-INFOPLACEW", key, c.pos(fd.Pos()), "violation", fmt.Sprintf("version %d: %d modules are written, expected the %d of the two copies", ver, len(written), 2*nbits))
					return
				}
				for k := 0; k < nbits; k++ {
					for ci, cd := range []coord{w1[k], w2[k]} {
						b, ok := written[cd]
						if !ok || b != (k == set) {
							r.Fail("S-INFOPLACEW", key, c.pos(fd.Pos()), "violation", fmt.Sprintf("version %d, only bit %d (most significant first) of the word set: module (%d, %d) - bit %d of copy %d - is written=%v dark=%v", ver, set, cd.i, cd.j, k, ci+1, ok, b))
							return
						}
					}
				}
			}
		}
		r.Pass("S-INFOPLACEW", key, c.pos(fd.Pos()), fmt.Sprintf("%d folds", folds))
	}
	var all, from7 []int64
	for v := int64(1); v <= 40; v++ {
		all = append(all, v)
		if v >= 7 {
			from7 = append(from7, v)
		}
	}
	verVal := func(ver int64) *Val {
		return &Val{K: VStruct, Ptr: true, Fields: map[string]*Val{"versionNumber": vint(ver)}}
	}
	matrix := func() *Val { return &Val{K: VStruct, Ptr: true, Fields: map[string]*Val{}} }
	if fd, p := c.funcDeclOf("qrcode/encoder", "embedTypeInfo"); fd == nil {
		r.AnchorLost("S-INFOPLACEW", "qrcode/encoder.embedTypeInfo", "function not found")
	} else {
		decide("qrcode/encoder.embedTypeInfo", fd, p, 15, all, func(int64) []*Val { return []*Val{vint(1), vint(3), matrix()} }, func(dim int64) (w1, w2 []coord) {
			for i := int64(0); i <= 5; i++ {
				w1 = append(w1, coord{i, 8})
			}
			w1 = append(w1, coord{7, 8}, coord{8, 8}, coord{8, 7})
			for j := int64(5); j >= 0; j-- {
				w1 = append(w1, coord{8, j})
			}
			for j := dim - 1; j >= dim-7; j-- {
				w2 = append(w2, coord{8, j})
			}
			for i := dim - 8; i < dim; i++ {
				w2 = append(w2, coord{i, 8})
			}
			return
		})
	}
	if fd, p := c.funcDeclOf("qrcode/encoder", "maybeEmbedVersionInfo"); fd == nil {
		r.AnchorLost("S-INFOPLACEW", "qrcode/encoder.maybeEmbedVersionInfo", "function not found")
	} else {
		decide("qrcode/encoder.maybeEmbedVersionInfo/positions", fd, p, 18, from7, func(ver int64) []*Val { return []*Val{verVal(ver), matrix()} }, func(dim int64) (w1, w2 []coord) {
			for j := int64(5); j >= 0; j-- {
				for i := dim - 9; i >= dim-11; i-- {
					w1 = append(w1, coord{i, j})
				}
			}
			for i := int64(5); i >= 0; i-- {
				for j := dim - 9; j >= dim-11; j-- {
					w2 = append(w2, coord{i, j})
				}
			}
			return
		})
		key := "qrcode/encoder.maybeEmbedVersionInfo/gate"
		r.Analysed(key)
		bad := ""
		for ver := int64(1); ver < 7 && bad == ""; ver++ {
			written, err := fold(fd, p, []*Val{verVal(ver), matrix()}, 17+4*ver, 18, 0)
			if err != nil {
				bad = fmt.Sprintf("?version %d: %v", ver, err)
			} else if len(written) != 0 {
				bad = fmt.Sprintf("version %d: %d modules are written, a symbol below version 7 has no version information", ver, len(written))
			}
		}
		switch {
		case strings.HasPrefix(bad, "?"):
			r.Undecided("S-INFOPLACEW", key, c.pos(fd.Pos()), bad[1:])
		case bad != "":
			r.Fail("S-INFOPLACEW", key, c.pos(fd.Pos()), "violation", bad)
		default:
			r.Pass("S-INFOPLACEW", key, c.pos(fd.Pos()), "")
		}
	}
	r.DecidedBy("T-FMTPOS", "S-INFOPLACEW", "the modules written for every bit of the format word, on every dimension")
	r.DecidedBy("T-VERPOS", "S-INFOPLACEW", "the modules written for every bit of the version word, on every dimension from version 7, and none below")
}
