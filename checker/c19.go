package main

import (
	"fmt"
	"go/ast"
	"go/token"
	"go/types"
	"math"
	"strings"

	"golang.org/x/tools/go/packages"
	"golang.org/x/tools/go/types/typeutil"
)

func init() {
	registerProp("C19", "Grid sampling and perspective mapping", checkC19)
}

func checkC19(c *Ctx, r *Report) {
	checkNudge(c, r)
	checkNudgeWhole(c, r)
	checkSampleGrid(c, r)
	checkPerspective(c, r)
	checkTransformPointsWhole(c, r)
	checkSampleGridForwarding(c, r)
	checkSamplerRefusals(c, r)
	checkSamplerWhole(c, r)
	checkBitMatrixGetGuard(c, r, "M-GETGUARD")
	checkSharedStores(c, r, "common", 5) // the row of sample points is per call: two samplings do not share it (also C18)
	r.Note("not decided: floating-point accuracy of the transform; detectors' choice of the four points")
}

// ---- S-NUDGE ----

type nudgeEffect struct {
	reject  bool
	stores  map[int64]float64 // index relative to offset -> value
	nudged  int               // -1 unknown, 0 false, 1 true
	retNil  bool
	unknown string
}

func checkNudge(c *Ctx, r *Report) {
	r.Rule("S-NUDGE", "GridSampler_checkAndNudgePoints: in both passes the loop body, folded over every (x, y) in [-2, w+1] x [-2, h+1], rejects exactly the points farther than one pixel outside, pulls x = -1 to 0, x = w to w-1, y = -1 to 0, y = h to h-1, stores nothing else and sets the continuation flag iff it nudged; pass 1 runs forward from the first pair, pass 2 backward from the last", 2+2)
	fd, p := c.funcDeclOf("common", "GridSampler_checkAndNudgePoints")
	key := "common.GridSampler_checkAndNudgePoints"
	if fd == nil {
		r.AnchorLost("S-NUDGE", key, "function not found")
		return
	}
	r.Analysed(key)
	ps := paramObjs(p, fd)
	if len(ps) != 2 {
		r.Undecided("S-NUDGE", key, c.pos(fd.Pos()), "signature changed")
		return
	}
	imgObj, ptsObj := ps[0], ps[1]
	// locals bound to image.GetWidth()/GetHeight() and other loop-invariant locals are folded from their definitions
	var loops []*ast.ForStmt
	var pre []ast.Stmt
	for _, st := range fd.Body.List {
		if f, ok := st.(*ast.ForStmt); ok {
			loops = append(loops, f)
		} else if len(loops) == 0 {
			pre = append(pre, st)
		}
	}
	if len(loops) != 2 {
		r.Undecided("S-NUDGE", key, c.pos(fd.Pos()), fmt.Sprintf("%d top-level loops, expected the two passes", len(loops)))
		return
	}
	const W, H, NPTS = 3, 5, 8
	for li, loop := range loops {
		pass := fmt.Sprintf("%s.pass%d", key, li+1)
		// loop variable
		as, ok := loop.Init.(*ast.AssignStmt)
		if !ok || len(as.Lhs) != 1 {
			r.Undecided("S-NUDGE", pass, c.pos(loop.Pos()), "loop header not recognised")
			continue
		}
		off := p.TypesInfo.Defs[as.Lhs[0].(*ast.Ident)]
		mkHooks := func(px, py int64, eff *nudgeEffect, offset int64) *rpf {
			return &rpf{
				callHook: func(rr *rpf, call *ast.CallExpr, callee types.Object) (*Val, bool) {
					switch {
					case isMethodNamed(callee, "", "BitMatrix", "GetWidth"):
						return vint(W), true
					case isMethodNamed(callee, "", "BitMatrix", "GetHeight"):
						return vint(H), true
					case isFuncNamed(callee, "", "NewNotFoundException"):
						return &Val{K: VStr, S: "NotFound"}, true
					}
					if b, ok := callee.(*types.Builtin); ok && b.Name() == "len" {
						if id, ok := call.Args[0].(*ast.Ident); ok && p.TypesInfo.Uses[id] == ptsObj {
							return vint(NPTS), true
						}
					}
					return nil, false
				},
				idxHook: func(rr *rpf, ix *ast.IndexExpr) (*Val, bool) {
					if id, ok := ix.X.(*ast.Ident); ok && p.TypesInfo.Uses[id] == ptsObj {
						iv := rr.expr(ix.Index)
						if iv.isInt() && iv.I == offset {
							return &Val{K: VInt, I: px}, true // int(points[offset]) truncation of a value with that integer part
						}
						if iv.isInt() && iv.I == offset+1 {
							return &Val{K: VInt, I: py}, true
						}
						rpfFail("read of points[%d] outside the current pair", iv.I)
					}
					return nil, false
				},
				stHook: func(rr *rpf, lhs ast.Expr, v *Val) bool {
					ix, ok := lhs.(*ast.IndexExpr)
					if !ok {
						return false
					}
					if id, ok := ix.X.(*ast.Ident); !ok || p.TypesInfo.Uses[id] != ptsObj {
						return false
					}
					iv := rr.expr(ix.Index)
					f := v.F
					if v.K == VInt {
						f = float64(v.I)
					} else if v.K != VFloat {
						rpfFail("stored value not numeric")
					}
					if _, dup := eff.stores[iv.I-offset]; dup {
						rpfFail("two stores to the same coordinate")
					}
					eff.stores[iv.I-offset] = f
					return true
				},
			}
		}
		// fold the straight-line prefix (width := ..., height := ..., nudged := true, maxOffset := ...)
		baseEnv := map[types.Object]*Val{}
		foldPre := func(hooks *rpf) error {
			rr := &rpf{c: c, p: p, env: baseEnv, callHook: hooks.callHook, idxHook: hooks.idxHook, stHook: hooks.stHook}
			var err error
			func() {
				defer func() {
					if x := recover(); x != nil {
						if re, ok := x.(*rpfErr); ok {
							err = re
							return
						}
						panic(x)
					}
				}()
				for _, st := range pre {
					rr.stmt(st)
				}
			}()
			return err
		}
		_ = imgObj
		bad := ""
		undec := ""
		// the flag variable: the boolean local that the loop condition reads
		var flag types.Object
		ast.Inspect(loop.Cond, func(n ast.Node) bool {
			if id, ok := n.(*ast.Ident); ok {
				if o, isVar := p.TypesInfo.Uses[id].(*types.Var); isVar {
					if b, ok := o.Type().Underlying().(*types.Basic); ok && b.Kind() == types.Bool {
						flag = o
					}
				}
			}
			return true
		})
		if flag == nil {
			r.Undecided("S-NUDGE", pass, c.pos(loop.Pos()), "continuation flag not found in the loop condition")
			continue
		}
		const offset = 2
	grid:
		for px := int64(-2); px <= W+1; px++ {
			for py := int64(-2); py <= H+1; py++ {
				eff := &nudgeEffect{stores: map[int64]float64{}, nudged: -1}
				hooks := mkHooks(px, py, eff, offset)
				for k := range baseEnv {
					delete(baseEnv, k)
				}
				if err := foldPre(hooks); err != nil {
					undec = err.Error()
					break grid
				}
				env := map[types.Object]*Val{}
				for k, v := range baseEnv {
					env[k] = v
				}
				env[off] = vint(offset)
				rr := &rpf{c: c, p: p, env: env, callHook: hooks.callHook, idxHook: hooks.idxHook, stHook: hooks.stHook}
				var ret *rpfReturn
				var err error
				func() {
					defer func() {
						if x := recover(); x != nil {
							if re, ok := x.(*rpfErr); ok {
								err = re
								return
							}
							panic(x)
						}
					}()
					ret = rr.block(loop.Body.List)
				}()
				if err != nil {
					undec = err.Error()
					break grid
				}
				wantReject := px < -1 || px > W || py < -1 || py > H
				if wantReject {
					if ret == nil || len(ret.vals) != 1 || ret.vals[0].K != VStr {
						bad = fmt.Sprintf("point (%d,%d) on a %dx%d image is more than one pixel outside but is not rejected with NotFound", px, py, W, H)
						break grid
					}
					continue
				}
				if ret != nil {
					bad = fmt.Sprintf("point (%d,%d) on a %dx%d image is within one pixel of the image but the pass returns %v", px, py, W, H, ret.vals)
					break grid
				}
				want := map[int64]float64{}
				switch px {
				case -1:
					want[0] = 0
				case W:
					want[0] = W - 1
				}
				switch py {
				case -1:
					want[1] = 0
				case H:
					want[1] = H - 1
				}
				if len(want) != len(eff.stores) {
					bad = fmt.Sprintf("point (%d,%d) on a %dx%d image: stores %v, expected %v (index 0 = x, 1 = y)", px, py, W, H, eff.stores, want)
					break grid
				}
				for k, v := range want {
					if g, ok := eff.stores[k]; !ok || g != v {
						bad = fmt.Sprintf("point (%d,%d) on a %dx%d image: stores %v, expected %v (index 0 = x, 1 = y)", px, py, W, H, eff.stores, want)
						break grid
					}
				}
				fv := env[flag]
				if fv == nil || fv.K != VBool || fv.B != (len(want) > 0) {
					bad = fmt.Sprintf("point (%d,%d): continuation flag is %v, expected %v", px, py, fv, len(want) > 0)
					break grid
				}
			}
		}
		if undec != "" {
			r.Undecided("S-NUDGE", pass+".body", c.pos(loop.Pos()), "loop body leaves the foldable fragment: "+undec)
		} else {
			r.Check(bad == "", "S-NUDGE", pass+".body", c.pos(loop.Pos()), bad)
		}
		// header: pass 1: offset = 0; offset < len-1 && flag; offset += 2 — pass 2: offset = len-2; offset >= 0 && flag; offset -= 2
		hooks := mkHooks(0, 0, &nudgeEffect{stores: map[int64]float64{}}, 0)
		for k := range baseEnv {
			delete(baseEnv, k)
		}
		hbad := ""
		if err := foldPre(hooks); err != nil {
			hbad = "?" + err.Error()
		} else {
			initV, err := c.rpfExpr(p, as.Rhs[0], baseEnv, hooks)
			wantInit := int64(0)
			wantStep := int64(2)
			if li == 1 {
				wantInit, wantStep = NPTS-2, -2
			}
			if err != nil || !initV.isInt() || initV.I != wantInit {
				hbad = fmt.Sprintf("starts at pair offset %v, expected %d (of %d coordinates)", initV, wantInit, NPTS)
			}
			// condition over offsets and flag
			lo, hi := int64(0), int64(NPTS+2) // offsets reachable from the start value in the step direction
			if li == 1 {
				lo, hi = -4, NPTS-2
			}
			for o := lo; o <= hi && hbad == ""; o += 2 {
				for _, fl := range []bool{true, false} {
					env := map[types.Object]*Val{}
					for k, v := range baseEnv {
						env[k] = v
					}
					env[off] = vint(o)
					env[flag] = vbool(fl)
					cv, err := c.rpfExpr(p, loop.Cond, env, hooks)
					inRange := o >= 0 && o+1 < NPTS
					if err != nil || cv.K != VBool || cv.B != (inRange && fl) {
						hbad = fmt.Sprintf("at offset %d (flag %v) the loop condition is %v, expected %v", o, fl, cv, inRange && fl)
						break
					}
				}
			}
			// step
			env := map[types.Object]*Val{off: vint(4)}
			rr := &rpf{c: c, p: p, env: env}
			func() {
				defer func() {
					if x := recover(); x != nil {
						if _, ok := x.(*rpfErr); ok {
							hbad = "loop step not foldable"
							return
						}
						panic(x)
					}
				}()
				rr.stmt(loop.Post)
			}()
			if hbad == "" && (env[off] == nil || env[off].I != 4+wantStep) {
				hbad = fmt.Sprintf("loop step is %d, expected %d", env[off].I-4, wantStep)
			}
		}
		r.Check(hbad == "", "S-NUDGE", pass+".header", c.pos(loop.Pos()), hbad)
	}
}

// ---- sampling ----

func checkSampleGrid(c *Ctx, r *Report) {
	r.Rule("M-SAMPLE", "DefaultGridSampler.SampleGridWithTransform: every image.Get(px, py) is reached only after checkAndNudgePoints succeeded on the transformed row and after a guard that exits for px >= width or py >= height; the points fed to the transform are (x+0.5, y+0.5), the slice that is transformed is the one that is checked and the one the pixel coordinates are read from, cell (x, y) receives the pixel read for pair x, and the only refusals are a dimension below 1, a row check-and-nudge rejects and a pixel beyond the image - none depends on the transform's coefficients", 6)
	fd, p := c.funcDeclOf("common", "DefaultGridSampler.SampleGridWithTransform")
	key := "common.DefaultGridSampler.SampleGridWithTransform"
	if fd == nil {
		r.AnchorLost("M-SAMPLE", key, "method not found")
		return
	}
	r.Analysed(key)
	gets := findCalls(p, fd.Body, func(o types.Object) bool { return isMethodNamed(o, "", "BitMatrix", "Get") })
	if len(gets) != 1 {
		r.Undecided("M-SAMPLE", key, c.pos(fd.Pos()), fmt.Sprintf("%d BitMatrix.Get calls, expected one sampling read", len(gets)))
		return
	}
	get := gets[0]
	stmt := enclosingStmt(fd.Body, get)
	gi, _ := guardsOf(fd.Body, stmt)
	// (a) nudge call precedes, with its error leading to return
	okNudge := false
	var nudgeErr types.Object
	for _, st := range gi.Preceding {
		if as, ok := st.(*ast.AssignStmt); ok && len(as.Rhs) == 1 {
			if call, ok := as.Rhs[0].(*ast.CallExpr); ok && isFuncNamed(typeutil.Callee(p.TypesInfo, call), "common", "GridSampler_checkAndNudgePoints") {
				if id, ok := as.Lhs[0].(*ast.Ident); ok {
					nudgeErr = p.TypesInfo.Defs[id]
					if nudgeErr == nil {
						nudgeErr = p.TypesInfo.Uses[id]
					}
				}
			}
		}
		if ifs, ok := st.(*ast.IfStmt); ok && nudgeErr != nil && terminates(ifs.Body.List) {
			if be, ok := ifs.Cond.(*ast.BinaryExpr); ok && be.Op == token.NEQ {
				if id, ok := be.X.(*ast.Ident); ok && p.TypesInfo.Uses[id] == nudgeErr {
					if tv, ok := p.TypesInfo.Types[be.Y]; ok && tv.IsNil() {
						if _, isRet := ifs.Body.List[len(ifs.Body.List)-1].(*ast.ReturnStmt); isRet {
							okNudge = true
						}
					}
				}
			}
		}
	}
	r.Check(okNudge, "M-SAMPLE", key+".nudge-dominates", c.pos(get.Pos()), "the sampling read is not dominated by a successful GridSampler_checkAndNudgePoints (error -> return)")
	// (a') what is checked and nudged is the whole row of transformed points: the very slice handed to TransformPoints
	// and read back for the pixel coordinates, not a copy or a part of it
	{
		var nudged, transformed types.Object
		for _, call := range findCalls(p, fd.Body, func(o types.Object) bool { return isFuncNamed(o, "common", "GridSampler_checkAndNudgePoints") }) {
			if len(call.Args) == 2 {
				nudged = identObj(p, call.Args[1])
			}
		}
		for _, call := range findCalls(p, fd.Body, func(o types.Object) bool {
			return isMethodNamed(o, "common", "PerspectiveTransform", "TransformPoints")
		}) {
			if len(call.Args) == 1 {
				transformed = identObj(p, call.Args[0])
			}
		}
		readsFrom := map[types.Object]bool{}
		for _, a := range get.Args {
			o := identObj(p, a)
			if o == nil {
				continue
			}
			if def := singleDef(p, fd, o); def != nil {
				ast.Inspect(def, func(n ast.Node) bool {
					if ix, ok := n.(*ast.IndexExpr); ok {
						if b := identObj(p, ix.X); b != nil {
							readsFrom[b] = true
						}
					}
					return true
				})
			}
		}
		okSlice := nudged != nil && nudged == transformed && len(readsFrom) == 1 && readsFrom[nudged]
		r.Check(okSlice, "M-SAMPLE", key+".nudged-slice", c.pos(get.Pos()), "checkAndNudgePoints must be given the whole slice of transformed points that the pixel coordinates are then read from (a row whose interior points lie just outside the image is pulled in point by point)")
	}
	// (b) upper-bound guard: for every (px,py) with px>=W or py>=H some early exit fires
	pxE, pyE := get.Args[0], get.Args[1]
	pxO, pyO := identObj(p, pxE), identObj(p, pyE)
	bad := ""
	if pxO == nil || pyO == nil {
		bad = "Get arguments are not simple variables"
	}
	const W, H = 4, 6
	hooks := &rpf{callHook: func(rr *rpf, call *ast.CallExpr, callee types.Object) (*Val, bool) {
		switch {
		case isMethodNamed(callee, "", "BitMatrix", "GetWidth"):
			return vint(W), true
		case isMethodNamed(callee, "", "BitMatrix", "GetHeight"):
			return vint(H), true
		}
		return nil, false
	}}
	for px := int64(0); px <= W+1 && bad == ""; px++ {
		for py := int64(0); py <= H+1; py++ {
			fired := false
			for _, g := range gi.EarlyExits {
				v, err := c.rpfExpr(p, g.Cond, map[types.Object]*Val{pxO: vint(px), pyO: vint(py)}, hooks)
				if err == nil && v.K == VBool && v.B {
					fired = true
				}
			}
			out := px >= W || py >= H
			if out && !fired {
				bad = fmt.Sprintf("(px,py)=(%d,%d) on a %dx%d image reaches image.Get: no dominating guard exits", px, py, W, H)
				break
			}
		}
	}
	r.Check(bad == "", "M-SAMPLE", key+".upper-bound", c.pos(get.Pos()), bad)
	// (c) seeded points and (d) cell mapping, by symbolic lifting
	s := c.symFunc(fd, p, func(o types.Object) bool { return false })
	ps := paramObjs(p, fd)
	var ptsAtom string
	okSeed := 0
	var seedK string
	for _, st := range s.stores {
		if st.Loop != 2 || st.Index == nil {
			continue
		}
		for _, k := range atomsWithPrefix(st.Index.String(), "K~") {
			K := polyAtom(k)
			half := polyConstRat(ratHalf())
			if st.Index.equal(K.mul(polyInt(2))) && st.Val.equal(K.add(half)) {
				okSeed++
				ptsAtom = st.Base.String()
				seedK = k
			}
			if st.Index.equal(K.mul(polyInt(2)).add(polyInt(1))) {
				// value must be y + 0.5 where y is the outer loop's counter: a K atom different from k
				for _, k2 := range atomsWithPrefix(st.Val.String(), "K~") {
					if k2 != k && st.Val.equal(polyAtom(k2).add(half)) {
						okSeed++
					}
				}
			}
		}
	}
	_ = seedK
	r.Check(okSeed == 2, "M-SAMPLE", key+".cell-centres", c.pos(fd.Pos()), "the row buffer is not seeded with (x + 0.5, y + 0.5) for x = 0..dimensionX-1")
	// Get(int(points[2K]), int(points[2K+1])) and Set(K, y)
	okMap := false
	for _, cl := range s.calls {
		if !isMethodNamed(cl.Callee, "", "BitMatrix", "Get") || len(cl.Args) != 2 {
			continue
		}
		for _, k := range atomsWithPrefix(cl.Args[0].String(), "K~") {
			K := polyAtom(k)
			wantX := polyAtom("trunc(" + polyAtom("idx("+ptsAtom+","+K.mul(polyInt(2)).String()+")").String() + ")")
			wantY := polyAtom("trunc(" + polyAtom("idx("+ptsAtom+","+K.mul(polyInt(2)).add(polyInt(1)).String()+")").String() + ")")
			if cl.Args[0].equal(wantX) && cl.Args[1].equal(wantY) {
				// matching Set
				for _, st := range s.calls {
					if isMethodNamed(st.Callee, "", "BitMatrix", "Set") && len(st.Args) == 2 && st.Args[0].equal(K) {
						for _, k2 := range atomsWithPrefix(st.Args[1].String(), "K~") {
							if k2 != k && st.Args[1].equal(polyAtom(k2)) {
								okMap = true
							}
						}
					}
				}
			}
		}
	}
	_ = ps
	r.Check(okMap, "M-SAMPLE", key+".cell-mapping", c.pos(get.Pos()), "cell (x, y) of the result must receive image.Get(int(points[2x]), int(points[2x+1]))")
}

func identObj(p *packages.Package, e ast.Expr) types.Object {
	if id, ok := ast.Unparen(e).(*ast.Ident); ok {
		if o := p.TypesInfo.Uses[id]; o != nil {
			return o
		}
		return p.TypesInfo.Defs[id]
	}
	return nil
}

// checkBitMatrixGetGuard: BitMatrix.Get rejects out-of-range coordinates (incl. negatives) before indexing.
func checkBitMatrixGetGuard(c *Ctx, r *Report, rule string) {
	r.Rule(rule, "BitMatrix.Get returns false (reads nothing) for x < 0, y < 0, x >= width or y >= height: the guard dominating the bits[] read is folded over a grid of coordinates", 1)
	fd, p := c.funcDeclOf("", "BitMatrix.Get")
	key := "gozxing.BitMatrix.Get"
	if fd == nil {
		r.AnchorLost(rule, key, "method not found")
		return
	}
	r.Analysed(key)
	// find the index expression on the bits field
	var read *ast.IndexExpr
	ast.Inspect(fd.Body, func(n ast.Node) bool {
		if ix, ok := n.(*ast.IndexExpr); ok {
			if sel, ok := ix.X.(*ast.SelectorExpr); ok && sel.Sel.Name == "bits" {
				read = ix
			}
		}
		return true
	})
	if read == nil {
		r.Undecided(rule, key, c.pos(fd.Pos()), "bits[] read not found")
		return
	}
	gi, _ := guardsOf(fd.Body, enclosingStmt(fd.Body, read))
	ps := paramObjs(p, fd)
	const W, H = 5, 3
	hooks := &rpf{selHook: func(rr *rpf, sel *ast.SelectorExpr) (*Val, bool) {
		switch sel.Sel.Name {
		case "width":
			return vint(W), true
		case "height":
			return vint(H), true
		}
		return nil, false
	}}
	bad := ""
	for x := int64(-2); x <= W+1 && bad == ""; x++ {
		for y := int64(-2); y <= H+1; y++ {
			fired := false
			for _, g := range gi.EarlyExits {
				v, err := c.rpfExpr(p, g.Cond, map[types.Object]*Val{ps[0]: vint(x), ps[1]: vint(y)}, hooks)
				if err == nil && v.K == VBool && v.B {
					fired = true
				}
			}
			out := x < 0 || y < 0 || x >= W || y >= H
			if out && !fired {
				bad = fmt.Sprintf("(%d,%d) on a %dx%d matrix reaches the bits[] read", x, y, W, H)
				break
			}
			if !out && fired {
				bad = fmt.Sprintf("(%d,%d) on a %dx%d matrix is rejected although it is inside", x, y, W, H)
				break
			}
		}
	}
	r.Check(bad == "", rule, key, c.pos(read.Pos()), bad)
}

// ---- perspective transform algebra ----

func checkPerspective(c *Ctx, r *Report) {
	r.Rule("T-PERSP", "PerspectiveTransform algebra as polynomial identities over the nine coefficients: TransformPoints applies x' = (a11 x + a21 y + a31)/(a13 x + a23 y + a33), y' likewise; buildAdjoint is the transposed cofactor matrix; times is the matrix product applying `other` first; QuadrilateralToQuadrilateral = sToQ.times(qToS); SquareToQuadrilateral has Heckbert's coefficients (affine and projective branch) and maps the unit square's corners to the four points", 9+9+2+2+9+4)
	pkg := c.pkg("common")
	if pkg == nil {
		r.AnchorLost("T-PERSP", "common", "package not found")
		return
	}
	fields := []string{"a11", "a21", "a31", "a12", "a22", "a32", "a13", "a23", "a33"}
	// column-vector convention: M[r][c] = a(c+1)(r+1)
	M := func(base string) [3][3]*Poly {
		var m [3][3]*Poly
		for rr := 0; rr < 3; rr++ {
			for cc := 0; cc < 3; cc++ {
				m[rr][cc] = polyAtom(fmt.Sprintf("fld(%s,a%d%d)", base, cc+1, rr+1))
			}
		}
		return m
	}
	fieldRC := func(name string) (int, int) { return int(name[2] - '1'), int(name[1] - '1') }
	// struct literal -> field name -> expression
	litFields := func(p *packages.Package, cl *ast.CompositeLit) map[string]ast.Expr {
		out := map[string]ast.Expr{}
		st, ok := p.TypesInfo.TypeOf(cl).Underlying().(*types.Struct)
		if !ok {
			return nil
		}
		for i, el := range cl.Elts {
			if kv, ok := el.(*ast.KeyValueExpr); ok {
				out[kv.Key.(*ast.Ident).Name] = kv.Value
			} else if i < st.NumFields() {
				out[st.Field(i).Name()] = el
			}
		}
		return out
	}
	retLit := func(fd *ast.FuncDecl) *ast.CompositeLit {
		if len(fd.Body.List) == 0 {
			return nil
		}
		rs, ok := fd.Body.List[len(fd.Body.List)-1].(*ast.ReturnStmt)
		if !ok || len(rs.Results) != 1 {
			return nil
		}
		e := rs.Results[0]
		if u, ok := e.(*ast.UnaryExpr); ok {
			e = u.X
		}
		cl, _ := e.(*ast.CompositeLit)
		return cl
	}

	// buildAdjoint
	if fd, p := c.funcDeclOf("common", "PerspectiveTransform.buildAdjoint"); fd != nil {
		r.Analysed("common.PerspectiveTransform.buildAdjoint")
		cl := retLit(fd)
		ro := recvObj(p, fd)
		if cl == nil || ro == nil {
			r.Undecided("T-PERSP", "common.PerspectiveTransform.buildAdjoint", c.pos(fd.Pos()), "body is not a single struct-literal return")
		} else {
			m := M(polyAtom(objAtom(ro)).String())
			fe := litFields(p, cl)
			s := c.newSymExec(p)
			for _, f := range fields {
				rr, cc := fieldRC(f)
				// adj[rr][cc] = cofactor(M, cc, rr)
				r1, r2 := (cc+1)%3, (cc+2)%3
				c1, c2 := (rr+1)%3, (rr+2)%3
				want := m[r1][c1].mul(m[r2][c2]).sub(m[r1][c2].mul(m[r2][c1]))
				e := fe[f]
				k := "common.PerspectiveTransform.buildAdjoint." + f
				if e == nil {
					r.Undecided("T-PERSP", k, c.pos(cl.Pos()), "field not set")
					continue
				}
				got := s.expr(e)
				r.Check(got.equal(want), "T-PERSP", k, c.pos(e.Pos()), fmt.Sprintf("field %s = %s, the adjugate's entry is %s", f, prettyPoly(got), prettyPoly(want)))
			}
		}
	} else {
		r.AnchorLost("T-PERSP", "common.PerspectiveTransform.buildAdjoint", "method not found")
	}
	// times
	if fd, p := c.funcDeclOf("common", "PerspectiveTransform.times"); fd != nil {
		r.Analysed("common.PerspectiveTransform.times")
		cl := retLit(fd)
		ro := recvObj(p, fd)
		ps := paramObjs(p, fd)
		if cl == nil || ro == nil || len(ps) != 1 {
			r.Undecided("T-PERSP", "common.PerspectiveTransform.times", c.pos(fd.Pos()), "body is not a single struct-literal return")
		} else {
			P := M(polyAtom(objAtom(ro)).String())
			O := M(polyAtom(objAtom(ps[0])).String())
			fe := litFields(p, cl)
			s := c.newSymExec(p)
			for _, f := range fields {
				rr, cc := fieldRC(f)
				want := newPoly()
				for k := 0; k < 3; k++ {
					want = want.add(P[rr][k].mul(O[k][cc]))
				}
				e := fe[f]
				k := "common.PerspectiveTransform.times." + f
				if e == nil {
					r.Undecided("T-PERSP", k, c.pos(cl.Pos()), "field not set")
					continue
				}
				got := s.expr(e)
				r.Check(got.equal(want), "T-PERSP", k, c.pos(e.Pos()), fmt.Sprintf("field %s = %s, the product's entry is %s", f, prettyPoly(got), prettyPoly(want)))
			}
		}
	} else {
		r.AnchorLost("T-PERSP", "common.PerspectiveTransform.times", "method not found")
	}
	// TransformPoints / TransformPointsXY
	for _, name := range []string{"TransformPoints", "TransformPointsXY"} {
		fd, p := c.funcDeclOf("common", "PerspectiveTransform."+name)
		k := "common.PerspectiveTransform." + name
		if fd == nil {
			r.AnchorLost("T-PERSP", k, "method not found")
			continue
		}
		r.Analysed(k)
		ro := recvObj(p, fd)
		m := M(polyAtom(objAtom(ro)).String())
		s := c.symFunc(fd, p, nil)
		okX, okY := false, false
		ps := paramObjs(p, fd)
		for _, st := range s.stores {
			if st.Index == nil || st.Loop != 1 {
				continue
			}
			var x, y *Poly
			var isX bool
			if name == "TransformPoints" {
				// index i (x) or i+1 (y); x = points[i], y = points[i+1] with i = 2K
				for _, kk := range atomsWithPrefix(st.Index.String(), "K~") {
					i := polyAtom(kk).mul(polyInt(2))
					base := polyAtom(objAtom(ps[0])).String()
					x = polyAtom("idx(" + base + "," + i.String() + ")")
					y = polyAtom("idx(" + base + "," + i.add(polyInt(1)).String() + ")")
					if st.Index.equal(i) {
						isX = true
					} else if !st.Index.equal(i.add(polyInt(1))) {
						x = nil
					}
				}
			} else {
				for _, kk := range atomsWithPrefix(st.Index.String(), "K~") {
					i := polyAtom(kk)
					if !st.Index.equal(i) {
						continue
					}
					x = polyAtom("idx(" + polyAtom(objAtom(ps[0])).String() + "," + i.String() + ")")
					y = polyAtom("idx(" + polyAtom(objAtom(ps[1])).String() + "," + i.String() + ")")
					isX = st.Base.equal(polyAtom(objAtom(ps[0])))
				}
			}
			if x == nil {
				continue
			}
			den := m[2][0].mul(x).add(m[2][1].mul(y)).add(m[2][2])
			row := 1
			if isX {
				row = 0
			}
			num := m[row][0].mul(x).add(m[row][1].mul(y)).add(m[row][2])
			if st.Val.equal(symDiv("fdiv", num, den)) {
				if isX {
					okX = true
				} else {
					okY = true
				}
			}
		}
		r.Check(okX && okY, "T-PERSP", k, c.pos(fd.Pos()), "the stored coordinates are not ((a11 x + a21 y + a31)/(a13 x + a23 y + a33), (a12 x + a22 y + a32)/(same denominator))")
	}
	// QuadrilateralToQuadrilateral: sToQ.times(qToS), qToS = QuadrilateralToSquare(first 8), sToQ = SquareToQuadrilateral(last 8)
	if fd, p := c.funcDeclOf("common", "PerspectiveTransform_QuadrilateralToQuadrilateral"); fd != nil {
		k := "common.PerspectiveTransform_QuadrilateralToQuadrilateral"
		r.Analysed(k)
		ps := paramObjs(p, fd)
		s := c.symFunc(fd, p, func(o types.Object) bool { return true })
		ok := false
		if len(s.rets) == 1 && len(s.rets[0].Vals) == 1 && len(ps) == 16 {
			arg := func(from int) string {
				var as []string
				for i := from; i < from+8; i++ {
					as = append(as, polyAtom(objAtom(ps[i])).String())
				}
				return strings.Join(as, ";")
			}
			q2s := "call:common.PerspectiveTransform_QuadrilateralToSquare(" + arg(0) + ")"
			s2q := "call:common.PerspectiveTransform_SquareToQuadrilateral(" + arg(8) + ")"
			want := "call:(*common.PerspectiveTransform).times(" + s2q + ";" + q2s + ")"
			ok = s.rets[0].Vals[0].String() == want
		}
		r.Check(ok, "T-PERSP", k, c.pos(fd.Pos()), "must return SquareToQuadrilateral(destination points).times(QuadrilateralToSquare(source points))")
	} else {
		r.AnchorLost("T-PERSP", "common.PerspectiveTransform_QuadrilateralToQuadrilateral", "function not found")
	}
	if fd, p := c.funcDeclOf("common", "PerspectiveTransform_QuadrilateralToSquare"); fd != nil {
		k := "common.PerspectiveTransform_QuadrilateralToSquare"
		r.Analysed(k)
		ps := paramObjs(p, fd)
		s := c.symFunc(fd, p, func(o types.Object) bool { return true })
		ok := false
		if len(s.rets) == 1 && len(s.rets[0].Vals) == 1 && len(ps) == 8 {
			var as []string
			for i := 0; i < 8; i++ {
				as = append(as, polyAtom(objAtom(ps[i])).String())
			}
			want := "call:(*common.PerspectiveTransform).buildAdjoint(call:common.PerspectiveTransform_SquareToQuadrilateral(" + strings.Join(as, ";") + "))"
			ok = s.rets[0].Vals[0].String() == want
		}
		r.Check(ok, "T-PERSP", k, c.pos(fd.Pos()), "must return SquareToQuadrilateral(points).buildAdjoint()")
	} else {
		r.AnchorLost("T-PERSP", "common.PerspectiveTransform_QuadrilateralToSquare", "function not found")
	}
	// SquareToQuadrilateral
	fd, p := c.funcDeclOf("common", "PerspectiveTransform_SquareToQuadrilateral")
	k := "common.PerspectiveTransform_SquareToQuadrilateral"
	if fd == nil {
		r.AnchorLost("T-PERSP", k, "function not found")
		return
	}
	r.Analysed(k)
	ps := paramObjs(p, fd)
	if len(ps) != 8 {
		r.Undecided("T-PERSP", k, c.pos(fd.Pos()), "signature changed")
		return
	}
	var X, Y [4]*Poly
	for i := 0; i < 4; i++ {
		X[i] = polyAtom(objAtom(ps[2*i]))
		Y[i] = polyAtom(objAtom(ps[2*i+1]))
	}
	// walk: collect the two struct literals with the environment at that point
	s := c.newSymExec(p)
	type litAt struct {
		cl    *ast.CompositeLit
		vals  map[string]*Poly
		conds []symCond
	}
	var lits []litAt
	var walk func(list []ast.Stmt)
	walk = func(list []ast.Stmt) {
		pushed := 0
		defer func() { s.conds = s.conds[:len(s.conds)-pushed] }()
		for _, st := range list {
			switch x := st.(type) {
			case *ast.BlockStmt:
				walk(x.List)
			case *ast.IfStmt:
				cnd := s.cond(x.Cond)
				saved := s.copyEnv()
				s.conds = append(s.conds, cnd)
				walk(x.Body.List)
				s.conds = s.conds[:len(s.conds)-1]
				s.env = saved
				if x.Else != nil {
					s.conds = append(s.conds, negCond(cnd))
					if eb, ok := x.Else.(*ast.BlockStmt); ok {
						walk(eb.List)
					}
					s.conds = s.conds[:len(s.conds)-1]
					s.env = saved
				} else if terminates(x.Body.List) {
					// `if c { ...; return }` followed by the other branch: the rest runs under !c
					s.conds = append(s.conds, negCond(cnd))
					pushed++
				}
			case *ast.ReturnStmt:
				if len(x.Results) == 1 {
					e := x.Results[0]
					if u, ok := e.(*ast.UnaryExpr); ok {
						e = u.X
					}
					if cl, ok := e.(*ast.CompositeLit); ok {
						vals := map[string]*Poly{}
						for f, fe := range litFields(p, cl) {
							vals[f] = s.expr(fe)
						}
						lits = append(lits, litAt{cl, vals, append([]symCond(nil), s.conds...)})
					}
				}
			default:
				s.stmt(st)
			}
		}
	}
	walk(fd.Body.List)
	if len(lits) != 2 {
		r.Undecided("T-PERSP", k, c.pos(fd.Pos()), fmt.Sprintf("%d struct-literal returns, expected the affine and the projective branch", len(lits)))
		return
	}
	dx3 := X[0].sub(X[1]).add(X[2]).sub(X[3])
	dy3 := Y[0].sub(Y[1]).add(Y[2]).sub(Y[3])
	dx1, dx2 := X[1].sub(X[2]), X[3].sub(X[2])
	dy1, dy2 := Y[1].sub(Y[2]), Y[3].sub(Y[2])
	den := dx1.mul(dy2).sub(dx2.mul(dy1))
	a13 := symDiv("fdiv", dx3.mul(dy2).sub(dx2.mul(dy3)), den)
	a23 := symDiv("fdiv", dx1.mul(dy3).sub(dx3.mul(dy1)), den)
	proj := map[string]*Poly{
		"a11": X[1].sub(X[0]).add(a13.mul(X[1])), "a21": X[3].sub(X[0]).add(a23.mul(X[3])), "a31": X[0],
		"a12": Y[1].sub(Y[0]).add(a13.mul(Y[1])), "a22": Y[3].sub(Y[0]).add(a23.mul(Y[3])), "a32": Y[0],
		"a13": a13, "a23": a23, "a33": polyInt(1),
	}
	// affine branch: valid under dx3 == 0 and dy3 == 0, i.e. x3 = x0 - x1 + x2: a21 may be written x2-x1 or x3-x0
	for _, l := range lits {
		isAffine := false
		if a, ok := l.vals["a13"]; ok {
			if cst, isC := a.isConst(); isC && cst.Sign() == 0 {
				isAffine = true
			}
		}
		if isAffine {
			// the branch condition must be dx3 == 0 && dy3 == 0 (opaque text of the conjunction)
			condOK := false
			if len(l.conds) == 1 {
				txt := l.conds[0].String()
				w1 := "(" + dx3.String() + " == 0) && (" + dy3.String() + " == 0)"
				w2 := "(" + dy3.String() + " == 0) && (" + dx3.String() + " == 0)"
				condOK = strings.Contains(txt, w1) || strings.Contains(txt, w2)
			}
			r.Check(condOK, "T-PERSP", k+".affine.condition", c.pos(l.cl.Pos()), "the affine branch must be taken exactly when x0-x1+x2-x3 == 0 and y0-y1+y2-y3 == 0")
			// substitute x3 := x0 - x1 + x2, y3 likewise and compare modulo the branch condition
			sub := func(pp *Poly) *Poly {
				return substAtom(substAtom(pp, objAtom(ps[6]), X[0].sub(X[1]).add(X[2])), objAtom(ps[7]), Y[0].sub(Y[1]).add(Y[2]))
			}
			want := map[string]*Poly{
				"a11": X[1].sub(X[0]), "a21": X[2].sub(X[1]), "a31": X[0],
				"a12": Y[1].sub(Y[0]), "a22": Y[2].sub(Y[1]), "a32": Y[0],
				"a13": polyInt(0), "a23": polyInt(0), "a33": polyInt(1),
			}
			for _, f := range fields {
				got := l.vals[f]
				kk := k + ".affine." + f
				if got == nil {
					r.Undecided("T-PERSP", kk, c.pos(l.cl.Pos()), "field not set")
					continue
				}
				r.Check(sub(got).equal(sub(want[f])), "T-PERSP", kk, c.pos(l.cl.Pos()), fmt.Sprintf("affine %s = %s, expected %s (modulo the branch condition)", f, prettyPoly(got), prettyPoly(want[f])))
			}
			continue
		}
		for _, f := range fields {
			got := l.vals[f]
			kk := k + ".projective." + f
			if got == nil {
				r.Undecided("T-PERSP", kk, c.pos(l.cl.Pos()), "field not set")
				continue
			}
			r.Check(got.equal(proj[f]), "T-PERSP", kk, c.pos(l.cl.Pos()), fmt.Sprintf("projective %s = %s, Heckbert's coefficient is %s", f, prettyPoly(got), prettyPoly(proj[f])))
		}
	}
	// corner identities of the reference coefficients themselves (so that a wrong reference cannot pass):
	// with g = a13, h = a23 as free symbols the map sends (0,0)->(x0,y0), (1,0)->(x1,y1), (0,1)->(x3,y3) identically;
	// (1,1)->(x2,y2) reduces to the two linear equations that define g and h.
	g, h := polyAtom("g"), polyAtom("h")
	refc := map[string]*Poly{
		"a11": X[1].sub(X[0]).add(g.mul(X[1])), "a21": X[3].sub(X[0]).add(h.mul(X[3])), "a31": X[0],
		"a12": Y[1].sub(Y[0]).add(g.mul(Y[1])), "a22": Y[3].sub(Y[0]).add(h.mul(Y[3])), "a32": Y[0],
		"a13": g, "a23": h, "a33": polyInt(1),
	}
	apply := func(u, v int64) (*Poly, *Poly, *Poly) {
		U, V := polyInt(u), polyInt(v)
		return refc["a11"].mul(U).add(refc["a21"].mul(V)).add(refc["a31"]),
			refc["a12"].mul(U).add(refc["a22"].mul(V)).add(refc["a32"]),
			refc["a13"].mul(U).add(refc["a23"].mul(V)).add(refc["a33"])
	}
	corners := [][2]int64{{0, 0}, {1, 0}, {1, 1}, {0, 1}}
	for i, cr := range corners {
		nx, ny, w := apply(cr[0], cr[1])
		okc := false
		if i != 2 {
			okc = nx.sub(X[i].mul(w)).equal(newPoly()) && ny.sub(Y[i].mul(w)).equal(newPoly())
		} else {
			// residual must be  g*dx1 + h*dx2 - dx3 (and y likewise), which vanishes for Cramer's g, h:
			rx := nx.sub(X[2].mul(w))
			ry := ny.sub(Y[2].mul(w))
			okc = rx.equal(g.mul(dx1).add(h.mul(dx2)).sub(dx3)) && ry.equal(g.mul(dy1).add(h.mul(dy2)).sub(dy3))
			// Cramer: g*den = dx3*dy2 - dx2*dy3 ; h*den = dx1*dy3 - dx3*dy1 solves [dx1 dx2; dy1 dy2][g h]^T = [dx3 dy3]^T
			gn := dx3.mul(dy2).sub(dx2.mul(dy3))
			hn := dx1.mul(dy3).sub(dx3.mul(dy1))
			okc = okc && gn.mul(dx1).add(hn.mul(dx2)).equal(dx3.mul(den)) && gn.mul(dy1).add(hn.mul(dy2)).equal(dy3.mul(den))
		}
		r.Check(okc, "T-PERSP", fmt.Sprintf("%s.reference-corner%d", k, i), c.pos(fd.Pos()), "reference coefficient identities do not hold (checker's own reference is inconsistent)")
	}
}

func substAtom(p *Poly, atom string, by *Poly) *Poly {
	out := newPoly()
	for mono, coef := range p.m {
		term := polyConstRat(coef)
		for _, a := range splitMono(mono) {
			if a == atom {
				term = term.mul(by)
			} else {
				term = term.mul(polyAtom(a))
			}
		}
		out = out.add(term)
	}
	return out
}

func prettyPoly(p *Poly) string {
	s := p.String()
	// drop the position suffixes of variable atoms for readability
	var sb strings.Builder
	for i := 0; i < len(s); i++ {
		if s[i] == '#' {
			j := i + 1
			for j < len(s) && s[j] >= '0' && s[j] <= '9' {
				j++
			}
			i = j - 1
			continue
		}
		sb.WriteByte(s[i])
	}
	return sb.String()
}

// M-SAMPLEFWD: SampleGrid hands its sixteen coordinates on in the order it received them
func checkSampleGridForwarding(c *Ctx, r *Report) {
	r.Rule("M-SAMPLEFWD", "DefaultGridSampler.SampleGrid builds its transform with PerspectiveTransform_QuadrilateralToQuadrilateral from its own sixteen coordinate parameters, each passed in the position it was received in (eight symbol-side coordinates, then eight image-side coordinates), and samples with SampleGridWithTransform(image, dimensionX, dimensionY, that transform)", 1)
	fd, p := c.funcDeclOf("common", "DefaultGridSampler.SampleGrid")
	key := "common.DefaultGridSampler.SampleGrid"
	if fd == nil {
		r.AnchorLost("M-SAMPLEFWD", key, "method not found")
		return
	}
	r.Analysed(key)
	ps := paramObjs(p, fd)
	if len(ps) != 19 {
		r.Undecided("M-SAMPLEFWD", key, c.pos(fd.Pos()), fmt.Sprintf("expected image, two dimensions and sixteen coordinates; the method has %d parameters", len(ps)))
		return
	}
	bad := ""
	q := findCalls(p, fd.Body, func(o types.Object) bool {
		return isFuncNamed(o, "common", "PerspectiveTransform_QuadrilateralToQuadrilateral")
	})
	w := findCalls(p, fd.Body, func(o types.Object) bool {
		return isMethodNamed(o, "common", "DefaultGridSampler", "SampleGridWithTransform")
	})
	assigned := func(o types.Object) int { return countAssignsAST(p, fd.Body, o) }
	switch {
	case len(q) != 1 || len(q[0].Args) != 16:
		bad = "?expected one call of PerspectiveTransform_QuadrilateralToQuadrilateral with sixteen arguments"
	case len(w) != 1 || len(w[0].Args) != 4:
		bad = "?expected one call of SampleGridWithTransform"
	}
	if bad == "" {
		for i, a := range q[0].Args {
			o := identObj(p, a)
			if o != ps[3+i] || assigned(o) != 0 {
				bad = fmt.Sprintf("argument %d of QuadrilateralToQuadrilateral is %s; the coordinate received in that position is %s", i+1, types.ExprString(a), ps[3+i].Name())
				break
			}
		}
	}
	if bad == "" {
		for i := 0; i < 3; i++ {
			if o := identObj(p, w[0].Args[i]); o != ps[i] || assigned(o) != 0 {
				bad = fmt.Sprintf("argument %d of SampleGridWithTransform is %s, not the %s received", i+1, types.ExprString(w[0].Args[i]), ps[i].Name())
			}
		}
		// the transform: the result of the call above, directly or through a variable assigned once
		t := ast.Unparen(w[0].Args[3])
		if t != ast.Expr(q[0]) {
			o := identObj(p, t)
			okT := false
			if o != nil {
				n := 0
				ast.Inspect(fd.Body, func(nd ast.Node) bool {
					if as, ok := nd.(*ast.AssignStmt); ok {
						for i, l := range as.Lhs {
							if id, ok := l.(*ast.Ident); ok && (p.TypesInfo.Defs[id] == o || p.TypesInfo.Uses[id] == o) {
								n++
								if len(as.Rhs) == len(as.Lhs) && ast.Unparen(as.Rhs[i]) == ast.Expr(q[0]) {
									okT = true
								}
							}
						}
					}
					return true
				})
				okT = okT && n == 1
			}
			if !okT && bad == "" {
				bad = "the transform sampled with is not the one built from the sixteen coordinates"
			}
		}
	}
	reportFold(r, c, "M-SAMPLEFWD", key, fd.Pos(), bad)
}

// M-SAMPLE (refusals): the sampler gives up only for the reasons the contract names
func checkSamplerRefusals(c *Ctx, r *Report) {
	fd, p := c.funcDeclOf("common", "DefaultGridSampler.SampleGridWithTransform")
	key := "common.DefaultGridSampler.SampleGridWithTransform.refusals"
	if fd == nil {
		r.AnchorLost("M-SAMPLE", key, "method not found")
		return
	}
	r.Analysed(key)
	ps := paramObjs(p, fd)
	if len(ps) != 4 {
		r.Undecided("M-SAMPLE", key, c.pos(fd.Pos()), "signature changed")
		return
	}
	var nudgeErr types.Object
	for _, call := range findCalls(p, fd.Body, func(o types.Object) bool { return isFuncNamed(o, "common", "GridSampler_checkAndNudgePoints") }) {
		if as, ok := enclosingStmt(fd.Body, call).(*ast.AssignStmt); ok && len(as.Lhs) == 1 {
			nudgeErr = identObj(p, as.Lhs[0])
		}
	}
	// every error return sits under a condition that mentions only: the two dimensions; the nudge error; the pixel
	// coordinates read from the transformed points against the image size
	bad := ""
	n := 0
	ast.Inspect(fd.Body, func(nd ast.Node) bool {
		if _, isLit := nd.(*ast.FuncLit); isLit {
			return false
		}
		rs, ok := nd.(*ast.ReturnStmt)
		if !ok || len(rs.Results) != 2 || bad != "" {
			return true
		}
		if id, isI := ast.Unparen(rs.Results[1]).(*ast.Ident); isI && id.Name == "nil" {
			return true
		}
		n++
		gi, _ := guardsOf(fd.Body, rs)
		okWhy := false
		for _, e := range gi.Enclosing {
			ifs, isIf := e.Node.(*ast.IfStmt)
			if !isIf {
				continue
			}
			usesDims := usesIdent(p, ifs.Cond, ps[1]) || usesIdent(p, ifs.Cond, ps[2])
			usesNudge := nudgeErr != nil && usesIdent(p, ifs.Cond, nudgeErr)
			usesImage := usesIdent(p, ifs.Cond, ps[0])
			usesTransform := usesIdent(p, ifs.Cond, ps[3])
			if (usesDims || usesNudge || usesImage) && !usesTransform {
				okWhy = true
			}
			if usesTransform {
				okWhy = false
				break
			}
		}
		if !okWhy {
			bad = "the refusal at " + c.pos(rs.Pos()) + " is not one of: a dimension below 1, a row that check-and-nudge rejects, a pixel beyond the image; a transform is not refused for its coefficients (a mirrored or rotated pair of quadrilaterals maps as well as any other)"
		}
		return true
	})
	if bad == "" && n < 3 {
		bad = fmt.Sprintf("only %d refusals found, expected the dimension test, the nudge failure and the per-pixel guard", n)
	}
	r.Check(bad == "", "M-SAMPLE", key, c.pos(fd.Pos()), bad)
	// what is refused before a single point is transformed: a dimension below 1, and nothing else - in particular not a
	// grid with more cells along one axis than the image has pixels along the same axis (the grid's axes need not lie
	// along the image's, and a module may be smaller than a pixel)
	dkey := "common.DefaultGridSampler.SampleGridWithTransform.refusals/dimensions"
	r.Analysed(dkey)
	dbad := ""
	for _, img := range [][2]int64{{10, 10}, {30, 100}, {100, 30}} {
		for _, dx := range []int64{-1, 0, 1, 8, 32, 150} {
			for _, dy := range []int64{-2, 0, 1, 8, 32, 150} {
				h := &rpf{callHook: func(rr *rpf, call *ast.CallExpr, callee types.Object) (*Val, bool) {
					if fn, ok := callee.(*types.Func); ok {
						switch fn.Name() {
						case "GetWidth":
							return vint(img[0]), true
						case "GetHeight":
							return vint(img[1]), true
						}
					}
					return errCtorHook(rr, call, callee)
				}}
				env := map[types.Object]*Val{ps[0]: {K: VStruct, Ptr: true, Fields: map[string]*Val{}}, ps[1]: vint(dx), ps[2]: vint(dy), ps[3]: {K: VStruct, Ptr: true, Fields: map[string]*Val{}}}
				fired, err := guardFires(c, fd, p, env, h, 0)
				if err != "" {
					dbad = "?" + err
					break
				}
				if want := dx <= 0 || dy <= 0; fired != want {
					dbad = fmt.Sprintf("a grid of %d x %d cells on an image of %d x %d pixels: refused before sampling = %v; only a dimension below 1 is refused there", dx, dy, img[0], img[1], fired)
					break
				}
			}
			if dbad != "" {
				break
			}
		}
		if dbad != "" {
			break
		}
	}
	reportFold(r, c, "M-SAMPLE", dkey, fd.Pos(), dbad)
}

// S-NUDGEW: check-and-nudge as a whole function
func checkNudgeWhole(c *Ctx, r *Report) {
	r.Rule("S-NUDGEW", "GridSampler_checkAndNudgePoints, folded from source as a whole on a 10 x 8 image for every row of two points drawn from a set of 24 (inside, on each edge, up to one pixel outside on each side, farther outside) and for rows of one, three and four points (among them: a point to nudge at one end, a point far outside next to it, a point inside at the other end): it returns an error exactly when, scanning inwards from either end over the points that need a nudge, a point farther than one pixel outside is met; otherwise the points one pixel outside are pulled onto the edge - from both ends inwards, stopping at the first point that needs no nudge - and nothing else is changed", 1)
	fd, p := c.funcDeclOf("common", "GridSampler_checkAndNudgePoints")
	key := "common.GridSampler_checkAndNudgePoints/whole"
	if fd == nil {
		r.AnchorLost("S-NUDGEW", key, "function not found")
		return
	}
	r.Analysed(key)
	const w, hgt = 10, 8
	// the reference: what the two passes are specified to do (coordinates truncated toward zero, as the code reads them)
	ref := func(in []float64) ([]float64, bool) {
		pts := append([]float64{}, in...)
		step := func(off int) (nudged, ok bool) {
			x, y := int(pts[off]), int(pts[off+1])
			if x < -1 || x > w || y < -1 || y > hgt {
				return false, false
			}
			if x == -1 {
				pts[off], nudged = 0, true
			} else if x == w {
				pts[off], nudged = w-1, true
			}
			if y == -1 {
				pts[off+1], nudged = 0, true
			} else if y == hgt {
				pts[off+1], nudged = hgt-1, true
			}
			return nudged, true
		}
		nudged := true
		for off := 0; off < len(pts)-1 && nudged; off += 2 {
			var ok bool
			if nudged, ok = step(off); !ok {
				return nil, false
			}
		}
		nudged = true
		for off := len(pts) - 2; off >= 0 && nudged; off -= 2 {
			var ok bool
			if nudged, ok = step(off); !ok {
				return nil, false
			}
		}
		return pts, true
	}
	base := [][2]float64{{3.5, 4.5}, {0, 0}, {9.9, 7.9}, {-0.5, 3}, {-1, 3}, {-1.5, 3}, {-2, 3}, {-2.5, 3}, {10, 3}, {10.5, 3}, {11, 3}, {11.5, 3},
		{3, -0.5}, {3, -1}, {3, -1.9}, {3, -2}, {3, 8}, {3, 8.5}, {3, 9}, {3, 9.5}, {-1, -1}, {10, 8}, {-1, 8}, {10.9, 8.9}}
	var rows [][]float64
	for _, a := range base {
		rows = append(rows, []float64{a[0], a[1]})
		for _, b := range base {
			rows = append(rows, []float64{a[0], a[1], b[0], b[1]})
		}
	}
	for i := 0; i+3 < len(base); i += 2 {
		rows = append(rows, []float64{base[i+1][0], base[i+1][1], base[0][0], base[0][1], base[i+2][0], base[i+2][1]})
		rows = append(rows, []float64{base[i+1][0], base[i+1][1], base[i+3][0], base[i+3][1], base[0][0], base[0][1], base[i+2][0], base[i+2][1]})
	}
	// a point that is nudged at one end, then a point far outside (or a second one to nudge), then one inside: only
	// a scan that goes on after a nudge - of either coordinate, at either edge, from either end - meets the middle one
	for _, a := range [][2]float64{{-1, 3}, {10, 3}, {3, -1}, {3, 8}, {-1, 8}, {10.9, -0.5}} {
		for _, m := range [][2]float64{{-2, 3}, {11, 3}, {3, -2}, {3, 9}, {10, 3}, {3, -1}, {3.5, 4.5}} {
			rows = append(rows, []float64{a[0], a[1], m[0], m[1], 3.5, 4.5})
			rows = append(rows, []float64{3.5, 4.5, m[0], m[1], a[0], a[1]})
		}
	}
	rows = append(rows, []float64{})
	bad := ""
	for _, row := range rows {
		pts := &Val{K: VList, Local: true}
		for _, v := range row {
			pts.L = append(pts.L, &Val{K: VFloat, F: v})
		}
		h := &rpf{unroll: 1000}
		h.callHook = func(rr *rpf, call *ast.CallExpr, callee types.Object) (*Val, bool) {
			if fn, ok := callee.(*types.Func); ok {
				switch fn.Name() {
				case "GetWidth":
					return vint(w), true
				case "GetHeight":
					return vint(hgt), true
				}
			}
			return errCtorHook(rr, call, callee)
		}
		res, err := c.rpfCall(fd, p, []*Val{{K: VStruct, Ptr: true, Fields: map[string]*Val{}}, pts}, h)
		if err != nil {
			if strings.Contains(err.Error(), "out of range") {
				bad = fmt.Sprintf("points %v: %s - a run-time panic", row, err.Error())
			} else {
				bad = fmt.Sprintf("?points %v: %s", row, err.Error())
			}
			break
		}
		want, ok := ref(row)
		refused := len(res) == 1 && res[0].K != VNil
		if refused != !ok {
			bad = fmt.Sprintf("points %v on a %dx%d image: refused = %v, expected %v", row, w, hgt, refused, !ok)
			break
		}
		if ok {
			for i, e := range pts.L {
				var g float64
				switch e.K {
				case VFloat:
					g = e.F
				case VInt:
					g = float64(e.I)
				default:
					bad = fmt.Sprintf("?points %v: element %d is not a constant afterwards", row, i)
				}
				if bad == "" && g != want[i] {
					bad = fmt.Sprintf("points %v on a %dx%d image: coordinate %d is %v afterwards, expected %v", row, w, hgt, i, g, want[i])
				}
			}
		}
		if bad != "" {
			break
		}
	}
	r.Extra("S-NUDGEW rows folded", len(rows))
	reportFold(r, c, "S-NUDGEW", key, fd.Pos(), bad)
	r.DecidedBy("S-NUDGE", "S-NUDGEW", "the whole function folded on rows of points around every edge of the image")
}

// S-SAMPLEW: the sampler as a whole function
func checkSamplerWhole(c *Ctx, r *Report) {
	r.Rule("S-SAMPLEW", "DefaultGridSampler.SampleGridWithTransform, folded from source as a whole with the transform, check-and-nudge, the image and the result matrix replaced by recorders, for grids of 1x1, 4x3 and 7x2 cells: every cell (i, j) is set exactly when the image is black at the pixel the transform (here x -> 3x + 2.25, y -> 2y + 1.75) sends the cell centre (i + 0.5, j + 0.5) to - read after check-and-nudge has been given the row's transformed points, from the very values it left (a nudge made by the recorder shows in the pixel read); a row that check-and-nudge refuses, and a pixel at or beyond the image's width or height, are a not-found error", 1)
	fd, p := c.funcDeclOf("common", "DefaultGridSampler.SampleGridWithTransform")
	key := "common.DefaultGridSampler.SampleGridWithTransform/whole"
	if fd == nil {
		r.AnchorLost("S-SAMPLEW", key, "method not found")
		return
	}
	r.Analysed(key)
	imgBlack := func(x, y int64) bool { return (x*7+y*3+x*y)%5 < 2 }
	bad := ""
	for _, sc := range []struct {
		dx, dy, iw, ih int64
		refuseRow      int64 // row at which check-and-nudge refuses (-1: never)
		nudge          bool  // the recorder moves the first point of every row one pixel right
	}{{1, 1, 40, 30, -1, false}, {4, 3, 40, 30, -1, false}, {7, 2, 40, 30, -1, true}, {4, 3, 40, 30, -1, true}, {4, 3, 40, 30, 1, false}, {4, 3, 12, 30, -1, false}, {4, 3, 40, 6, -1, false}} {
		type cell struct{ x, y int64 }
		set := map[cell]bool{}
		var reads []cell
		row := int64(-1)
		nudgedRows := map[int64]bool{}
		img := &Val{K: VStruct, Ptr: true, Fields: map[string]*Val{"image": vbool(true)}}
		outM := &Val{K: VStruct, Ptr: true, Fields: map[string]*Val{"result": vbool(true)}}
		h := &rpf{unroll: 100000, maxSteps: 2000000}
		h.callHook = func(rr *rpf, call *ast.CallExpr, callee types.Object) (*Val, bool) {
			fn, ok := callee.(*types.Func)
			if !ok {
				return nil, false
			}
			sel, _ := call.Fun.(*ast.SelectorExpr)
			switch fn.Name() {
			case "GetWidth":
				return vint(sc.iw), true
			case "GetHeight":
				return vint(sc.ih), true
			case "TransformPoints":
				if pts := rr.expr(call.Args[0]); pts.K == VList {
					for i := 0; i+1 < len(pts.L); i += 2 {
						x, y := pts.L[i], pts.L[i+1]
						if x.K != VFloat || y.K != VFloat {
							rpfFail("the points handed to the transform are not constants")
						}
						pts.L[i] = &Val{K: VFloat, F: 3*x.F + 2.25}
						pts.L[i+1] = &Val{K: VFloat, F: 2*y.F + 1.75}
					}
					return &Val{K: VNil}, true
				}
			case "GridSampler_checkAndNudgePoints":
				pts := rr.expr(call.Args[1])
				if pts.K != VList || len(pts.L) < 2 || pts.L[1].K != VFloat {
					rpfFail("check-and-nudge is not given a row of transformed points")
				}
				// which grid row this is, from the transformed y of its first point
				row = int64((pts.L[1].F-1.75)/2 - 0.5 + 0.25)
				if int64(len(pts.L)) != 2*sc.dx {
					rpfFail("check-and-nudge is given %d coordinates for a row of %d cells: points it does not see are not pulled onto the image", len(pts.L), sc.dx)
				}
				if row == sc.refuseRow {
					return vstr("error"), true
				}
				if sc.nudge {
					// as the real routine may: the first two points and the last one are moved
					for _, i := range []int{0, 2, len(pts.L) - 2} {
						if i >= 0 && i < len(pts.L) && pts.L[i].K == VFloat {
							pts.L[i] = &Val{K: VFloat, F: pts.L[i].F + 1}
						}
					}
				}
				nudgedRows[row] = true
				return &Val{K: VNil}, true
			case "Get":
				if sel != nil && len(call.Args) == 2 {
					x, y := rr.expr(call.Args[0]), rr.expr(call.Args[1])
					if x.K != VInt || y.K != VInt {
						rpfFail("a pixel is read at coordinates that are not constants")
					}
					if x.I < 0 || y.I < 0 || x.I >= sc.iw || y.I >= sc.ih {
						rpfFail("the pixel (%d, %d) is read, outside the %dx%d image", x.I, y.I, sc.iw, sc.ih)
					}
					reads = append(reads, cell{x.I, y.I})
					return vbool(imgBlack(x.I, y.I)), true
				}
			case "Set":
				if len(call.Args) == 2 {
					x, y := rr.expr(call.Args[0]), rr.expr(call.Args[1])
					set[cell{x.I, y.I}] = true
					return &Val{K: VNil}, true
				}
			}
			return errCtorHook(rr, call, callee)
		}
		h.multiHook = func(call *ast.CallExpr, callee types.Object) ([]*Val, bool) {
			if isFuncNamed(callee, "", "NewBitMatrix") {
				return []*Val{outM, {K: VNil}}, true
			}
			return nil, false
		}
		h.env = map[types.Object]*Val{}
		if ro := recvObj(p, fd); ro != nil {
			h.env[ro] = &Val{K: VStruct, Fields: map[string]*Val{}}
		}
		res, err := c.rpfCall(fd, p, []*Val{img, vint(sc.dx), vint(sc.dy), {K: VStruct, Ptr: true, Fields: map[string]*Val{}}}, h)
		what := fmt.Sprintf("a grid of %dx%d cells on a %dx%d image (refusing row %d, nudging %v)", sc.dx, sc.dy, sc.iw, sc.ih, sc.refuseRow, sc.nudge)
		if err != nil {
			if strings.Contains(err.Error(), "outside the") || strings.Contains(err.Error(), "out of range") {
				bad = what + ": " + err.Error()
			} else {
				bad = "?" + what + ": " + err.Error()
			}
			break
		}
		// the expected outcome
		wantErr := sc.refuseRow >= 0
		want := map[cell]bool{}
		for j := int64(0); j < sc.dy && !wantErr; j++ {
			for i := int64(0); i < sc.dx; i++ {
				fx, fy := 3*(float64(i)+0.5)+2.25, 2*(float64(j)+0.5)+1.75
				if sc.nudge && (i == 0 || i == 1 || i == sc.dx-1) {
					fx++
					if sc.dx == 2 && i == 1 || sc.dx == 1 {
						fx++ // the same point is first (or second) and last: moved twice
					}
				}
				px, py := int64(fx), int64(fy)
				if px >= sc.iw || py >= sc.ih {
					wantErr = true
					break
				}
				if imgBlack(px, py) {
					want[cell{i, j}] = true
				}
			}
		}
		gotErr := len(res) == 2 && res[1].K != VNil
		if gotErr != wantErr {
			bad = fmt.Sprintf("%s: error = %v, expected %v", what, gotErr, wantErr)
			break
		}
		if !wantErr {
			for j := int64(0); j < sc.dy; j++ {
				if !nudgedRows[j] {
					bad = fmt.Sprintf("%s: row %d is sampled without having been handed to check-and-nudge", what, j)
				}
			}
		}
		if !wantErr && bad == "" {
			if len(set) != len(want) {
				bad = fmt.Sprintf("%s: %d cells are set, expected %d", what, len(set), len(want))
				break
			}
			for k := range want {
				if !set[k] {
					bad = fmt.Sprintf("%s: cell (%d, %d) is not set although the image is black where its centre is mapped to", what, k.x, k.y)
				}
			}
		}
		if bad != "" {
			break
		}
	}
	reportFold(r, c, "S-SAMPLEW", key, fd.Pos(), bad)
	r.DecidedByKeys("M-SAMPLE", "S-SAMPLEW", "the sampler folded as a whole: seeding of the cell centres, the order transform - nudge - read, the per-pixel guard", ".cell-centres", ".cell-mapping", ".nudge-dominates", ".nudged-slice", ".upper-bound")
}

// S-TRANSFORMW: both point-transforming methods folded whole on concrete transforms and points.
func checkTransformPointsWhole(c *Ctx, r *Report) {
	r.Rule("S-TRANSFORMW", "PerspectiveTransform.TransformPoints (interleaved coordinates) and TransformPointsXY (two lists) folded whole, in float64, on four transforms - the identity, an affine one whose a33 is not 1 (what buildAdjoint and times produce: a13 = a23 = 0, a33 = 196), a projective one, a projective one with a negative a33 - and six points each: every point (x, y) becomes ((a11 x + a21 y + a31)/d, (a12 x + a22 y + a32)/d) with d = a13 x + a23 y + a33 (relative tolerance 1e-12), nothing else in the lists changes, and the two methods agree; PerspectiveTransform_QuadrilateralToQuadrilateral folded whole for pairs drawn from eight quadrilaterals (squares, parallelograms, two with exactly one of x0-x1+x2-x3 and y0-y1+y2-y3 zero, two general ones): the transform sends every source corner onto its destination corner and interior points where the composition of the two square-to-quadrilateral maps of the standard construction sends them (relative tolerance 1e-9)", 3)
	transforms := [][9]float64{
		{1, 0, 0, 0, 1, 0, 0, 0, 1},
		{2744, -392, 980, 588, 1960, -2352, 0, 0, 196},
		{1.5, 0.25, 3, -0.5, 2, 7, 0.001, 0.002, 1},
		{-3, 1, 10, 2, -4, 5, 0.01, -0.02, -2.5},
	}
	pts := [][2]float64{{0, 0}, {1, 0}, {0.5, 0.5}, {3.5, 3.5}, {17.5, -4.25}, {-2, 30}}
	names := []string{"a11", "a21", "a31", "a12", "a22", "a32", "a13", "a23", "a33"}
	ref := func(t [9]float64, x, y float64) (float64, float64) {
		d := t[6]*x + t[7]*y + t[8]
		return (t[0]*x + t[1]*y + t[2]) / d, (t[3]*x + t[4]*y + t[5]) / d
	}
	close := func(a, b float64) bool { return math.Abs(a-b) <= 1e-12*math.Max(1, math.Max(math.Abs(a), math.Abs(b))) }
	flt := func(v *Val) (float64, bool) {
		switch v.K {
		case VFloat:
			return v.F, true
		case VInt:
			return float64(v.I), true
		}
		return 0, false
	}
	for _, m := range []string{"TransformPoints", "TransformPointsXY"} {
		fd, p := c.funcDeclOf("common", "PerspectiveTransform."+m)
		key := "common.PerspectiveTransform." + m + "/whole"
		if fd == nil {
			r.AnchorLost("S-TRANSFORMW", key, "method not found")
			continue
		}
		r.Analysed(key)
		bad := ""
		for ti, t := range transforms {
			if bad != "" {
				break
			}
			recv := &Val{K: VStruct, Ptr: true, Fields: map[string]*Val{}}
			for i, n := range names {
				recv.Fields[n] = &Val{K: VFloat, F: t[i]}
			}
			var args []*Val
			if m == "TransformPoints" {
				l := &Val{K: VList, Local: true}
				for _, q := range pts {
					l.L = append(l.L, &Val{K: VFloat, F: q[0]}, &Val{K: VFloat, F: q[1]})
				}
				args = []*Val{l}
			} else {
				xs, ys := &Val{K: VList, Local: true}, &Val{K: VList, Local: true}
				for _, q := range pts {
					xs.L = append(xs.L, &Val{K: VFloat, F: q[0]})
					ys.L = append(ys.L, &Val{K: VFloat, F: q[1]})
				}
				args = []*Val{xs, ys}
			}
			h := &rpf{unroll: 64, env: map[types.Object]*Val{}}
			if ro := recvObj(p, fd); ro != nil {
				h.env[ro] = recv
			}
			if _, err := c.rpfCall(fd, p, args, h); err != nil {
				bad = fmt.Sprintf("?transform %d: %v", ti, err)
				break
			}
			for i, q := range pts {
				var gx, gy *Val
				if m == "TransformPoints" {
					if len(args[0].L) != 2*len(pts) {
						bad = "the list changes its length"
						break
					}
					gx, gy = args[0].L[2*i], args[0].L[2*i+1]
				} else {
					if len(args[0].L) != len(pts) || len(args[1].L) != len(pts) {
						bad = "a list changes its length"
						break
					}
					gx, gy = args[0].L[i], args[1].L[i]
				}
				wx, wy := ref(t, q[0], q[1])
				fx, okx := flt(gx)
				fy, oky := flt(gy)
				if !okx || !oky || !close(fx, wx) || !close(fy, wy) {
					bad = fmt.Sprintf("transform %d (a13 = %g, a23 = %g, a33 = %g): the point (%g, %g) becomes (%s, %s), the projective map gives (%g, %g)", ti, t[6], t[7], t[8], q[0], q[1], gx, gy, wx, wy)
					break
				}
			}
		}
		reportFold(r, c, "S-TRANSFORMW", key, fd.Pos(), bad)
	}
	// the transform through four point pairs, built whole
	if fd, p := c.funcDeclOf("common", "PerspectiveTransform_QuadrilateralToQuadrilateral"); fd == nil {
		r.AnchorLost("S-TRANSFORMW", "common.PerspectiveTransform_QuadrilateralToQuadrilateral", "function not found")
	} else {
		key := "common.PerspectiveTransform_QuadrilateralToQuadrilateral/whole"
		r.Analysed(key)
		// Heckbert's construction, written out: unit square -> quadrilateral
		s2q := func(q [8]float64) [9]float64 {
			x0, y0, x1, y1, x2, y2, x3, y3 := q[0], q[1], q[2], q[3], q[4], q[5], q[6], q[7]
			dx3, dy3 := x0-x1+x2-x3, y0-y1+y2-y3
			if dx3 == 0 && dy3 == 0 {
				return [9]float64{x1 - x0, x2 - x1, x0, y1 - y0, y2 - y1, y0, 0, 0, 1}
			}
			dx1, dx2, dy1, dy2 := x1-x2, x3-x2, y1-y2, y3-y2
			den := dx1*dy2 - dx2*dy1
			a13, a23 := (dx3*dy2-dx2*dy3)/den, (dx1*dy3-dx3*dy1)/den
			return [9]float64{x1 - x0 + a13*x1, x3 - x0 + a23*x3, x0, y1 - y0 + a13*y1, y3 - y0 + a23*y3, y0, a13, a23, 1}
		}
		quads := [][8]float64{
			{0, 0, 10, 0, 10, 10, 0, 10},                 // axis-aligned square
			{3.5, 3.5, 17.5, 3.5, 17.5, 17.5, 3.5, 17.5}, // square off the origin
			{2, 1, 12, 4, 9, 14, -1, 11},                 // rotated square (a parallelogram)
			{0, 0, 8, 2, 11, 9, 3, 7},                    // sheared parallelogram
			{0, 0, 10, 1, 12, 9, 2, 12},                  // dx3 == 0, dy3 != 0
			{0, 0, 10, 0, 13, 9, 1, 9},                   // dy3 == 0, dx3 != 0
			{1, 2, 20, 4, 17, 19, 3, 15},                 // general perspective
			{0, 0, 30, 5, 22, 28, -4, 18},                // general perspective
		}
		bad := ""
		for si, src := range quads {
			for di, dst := range quads {
				if bad != "" || (si+2*di)%3 == 1 {
					continue
				}
				var args []*Val
				for _, v := range src {
					args = append(args, &Val{K: VFloat, F: v})
				}
				for _, v := range dst {
					args = append(args, &Val{K: VFloat, F: v})
				}
				res, err := c.rpfCall(fd, p, args, &rpf{unroll: 16})
				if err != nil {
					bad = fmt.Sprintf("?quadrilaterals %d -> %d: %v", si, di, err)
					break
				}
				if len(res) != 1 || res[0].K != VStruct {
					bad = "the result is not a transform"
					break
				}
				var t [9]float64
				for i, n := range names {
					f, ok := res[0].Fields[n]
					if !ok {
						bad = "?the transform has no coefficient " + n
						break
					}
					t[i], _ = flt(f)
				}
				if bad != "" {
					break
				}
				// every source corner onto its destination corner; interior points as the composition of the two
				// Heckbert maps sends them (through the unit square)
				fwdS, fwdD := s2q(src), s2q(dst)
				for k := 0; k < 4 && bad == ""; k++ {
					gx, gy := ref(t, src[2*k], src[2*k+1])
					if !(math.Abs(gx-dst[2*k]) <= 1e-9*(1+math.Abs(dst[2*k])) && math.Abs(gy-dst[2*k+1]) <= 1e-9*(1+math.Abs(dst[2*k+1]))) {
						bad = fmt.Sprintf("quadrilaterals %d -> %d: corner %d (%g, %g) is mapped to (%g, %g), expected (%g, %g)", si, di, k, src[2*k], src[2*k+1], gx, gy, dst[2*k], dst[2*k+1])
					}
				}
				for _, uv := range [][2]float64{{0.5, 0.5}, {0.25, 0.75}, {0.9, 0.1}} {
					sx, sy := ref(fwdS, uv[0], uv[1])
					wx, wy := ref(fwdD, uv[0], uv[1])
					gx, gy := ref(t, sx, sy)
					if bad == "" && !(math.Abs(gx-wx) <= 1e-9*(1+math.Abs(wx)) && math.Abs(gy-wy) <= 1e-9*(1+math.Abs(wy))) {
						bad = fmt.Sprintf("quadrilaterals %d -> %d: the point (%g, %g) is mapped to (%g, %g), the projective map through the four pairs gives (%g, %g)", si, di, sx, sy, gx, gy, wx, wy)
					}
				}
			}
		}
		reportFold(r, c, "S-TRANSFORMW", key, fd.Pos(), bad)
	}
	r.DecidedBy("T-PERSP", "S-TRANSFORMW", "the transform built whole for parallelograms, quadrilaterals with exactly one of the two sums zero and general ones, and applied whole: corners and interior points")
}
