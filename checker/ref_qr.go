package main

// Reference data for ISO/IEC 18004 (QR Code 2005/2015), written independently of the repository.
//
// Table 9 ("Error correction characteristics") in compressed form: per version 1..40 and level
// L, M, Q, H the number of EC codewords per block and the number of blocks. Everything else in the
// block structure follows from these and the total codeword count, which is NOT embedded but
// recomputed from the symbol geometry (refQRTotalCodewords).

var refQRECPerBlock = [4][40]int{
	// L
	{7, 10, 15, 20, 26, 18, 20, 24, 30, 18, 20, 24, 26, 30, 22, 24, 28, 30, 28, 28, 28, 28, 30, 30, 26, 28, 30, 30, 30, 30, 30, 30, 30, 30, 30, 30, 30, 30, 30, 30},
	// M
	{10, 16, 26, 18, 24, 16, 18, 22, 22, 26, 30, 22, 22, 24, 24, 28, 28, 26, 26, 26, 26, 28, 28, 28, 28, 28, 28, 28, 28, 28, 28, 28, 28, 28, 28, 28, 28, 28, 28, 28},
	// Q
	{13, 22, 18, 26, 18, 24, 18, 22, 20, 24, 28, 26, 24, 20, 30, 24, 28, 28, 26, 30, 28, 30, 30, 30, 30, 28, 30, 30, 30, 30, 30, 30, 30, 30, 30, 30, 30, 30, 30, 30},
	// H
	{17, 28, 22, 16, 22, 28, 26, 26, 24, 28, 24, 28, 22, 24, 24, 30, 28, 28, 26, 28, 30, 24, 30, 30, 30, 30, 30, 30, 30, 30, 30, 30, 30, 30, 30, 30, 30, 30, 30, 30},
}

var refQRNumBlocks = [4][40]int{
	// L
	{1, 1, 1, 1, 1, 2, 2, 2, 2, 4, 4, 4, 4, 4, 6, 6, 6, 6, 7, 8, 8, 9, 9, 10, 12, 12, 12, 13, 14, 15, 16, 17, 18, 19, 19, 20, 21, 22, 24, 25},
	// M
	{1, 1, 1, 2, 2, 4, 4, 4, 5, 5, 5, 8, 9, 9, 10, 10, 11, 13, 14, 16, 17, 17, 18, 20, 21, 23, 25, 26, 28, 29, 31, 33, 35, 37, 38, 40, 43, 45, 47, 49},
	// Q
	{1, 1, 2, 2, 4, 4, 6, 6, 8, 8, 8, 10, 12, 16, 12, 17, 16, 18, 21, 20, 23, 23, 25, 27, 29, 34, 34, 35, 38, 40, 43, 45, 48, 51, 53, 56, 59, 62, 65, 68},
	// H
	{1, 1, 2, 4, 4, 4, 5, 6, 8, 8, 11, 11, 16, 16, 18, 16, 19, 21, 25, 25, 25, 34, 30, 32, 35, 37, 40, 42, 45, 48, 51, 54, 57, 60, 63, 66, 70, 74, 77, 81},
}

var refQRLevelNames = [4]string{"L", "M", "Q", "H"}

// ISO 18004 Table 12 level indicator bits: L=01, M=00, Q=11, H=10.
var refQRLevelBits = [4]int{1, 0, 3, 2}

// refQRAlign: Annex E alignment pattern centre coordinates, by formula.
func refQRAlign(v int) []int {
	if v == 1 {
		return []int{}
	}
	n := v/7 + 2
	step := 26
	if v != 32 {
		step = (v*4 + n*2 + 1) / (n*2 - 2) * 2
	}
	size := 17 + 4*v
	out := make([]int, n)
	out[0] = 6
	pos := size - 7
	for i := n - 1; i >= 1; i-- {
		out[i] = pos
		pos -= step
	}
	return out
}

// refQRTotalCodewords: data+EC codewords, from the geometry: all modules minus function patterns.
func refQRTotalCodewords(v int) int {
	size := 17 + 4*v
	mods := size * size
	mods -= 3 * 64          // finder patterns with separators
	mods -= 2 * (size - 16) // timing patterns between the separators
	if v >= 2 {
		n := v/7 + 2
		mods -= 25 * (n*n - 3)  // alignment patterns (not at the three finder corners)
		mods += 5 * 2 * (n - 2) // those sitting on a timing line share 5 modules with it
	}
	mods -= 31 // two copies of the 15 format bits + the dark module
	if v >= 7 {
		mods -= 36 // two copies of the 18 version bits
	}
	return mods / 8
}

// refQRBlocks gives the (count, dataCodewords) groups for a version and level index (0=L..3=H).
func refQRBlocks(v, lv int) (ec int, groups [][2]int) {
	ec = refQRECPerBlock[lv][v-1]
	nb := refQRNumBlocks[lv][v-1]
	total := refQRTotalCodewords(v)
	data := total - ec*nb
	short := data / nb
	long := data % nb
	if long == 0 {
		return ec, [][2]int{{nb, short}}
	}
	return ec, [][2]int{{nb - long, short}, {long, short + 1}}
}

func refQRDataCodewords(v, lv int) int {
	return refQRTotalCodewords(v) - refQRECPerBlock[lv][v-1]*refQRNumBlocks[lv][v-1]
}

// BCH(15,5), generator x^10+x^8+x^5+x^4+x^2+x+1 = 0x537, XOR mask 101010000010010 = 0x5412.
func refQRFormatWord(data int) int {
	rem := data
	for i := 0; i < 10; i++ {
		rem = (rem << 1) ^ ((rem >> 9) * 0x537)
	}
	return (data<<10 | rem) ^ 0x5412
}

// BCH(18,6), generator x^12+x^11+x^10+x^9+x^8+x^5+x^2+1 = 0x1F25.
func refQRVersionWord(v int) int {
	rem := v
	for i := 0; i < 12; i++ {
		rem = (rem << 1) ^ ((rem >> 11) * 0x1F25)
	}
	return v<<12 | rem
}

// ISO 18004 mask pattern conditions, i = row, j = column.
func refQRMask(k, i, j int) bool {
	switch k {
	case 0:
		return (i+j)%2 == 0
	case 1:
		return i%2 == 0
	case 2:
		return j%3 == 0
	case 3:
		return (i+j)%3 == 0
	case 4:
		return (i/2+j/3)%2 == 0
	case 5:
		return (i*j)%2+(i*j)%3 == 0
	case 6:
		return ((i*j)%2+(i*j)%3)%2 == 0
	case 7:
		return ((i+j)%2+(i*j)%3)%2 == 0
	}
	return false
}

// Mode indicators and character count indicator widths (ISO 18004 Tables 2 and 3).
type refQRModeT struct {
	name   string
	bits   int
	widths [3]int
}

var refQRModes = []refQRModeT{
	{"Mode_TERMINATOR", 0x0, [3]int{0, 0, 0}},
	{"Mode_NUMERIC", 0x1, [3]int{10, 12, 14}},
	{"Mode_ALPHANUMERIC", 0x2, [3]int{9, 11, 13}},
	{"Mode_STRUCTURED_APPEND", 0x3, [3]int{0, 0, 0}},
	{"Mode_BYTE", 0x4, [3]int{8, 16, 16}},
	{"Mode_ECI", 0x7, [3]int{0, 0, 0}},
	{"Mode_KANJI", 0x8, [3]int{8, 10, 12}},
	{"Mode_FNC1_FIRST_POSITION", 0x5, [3]int{0, 0, 0}},
	{"Mode_FNC1_SECOND_POSITION", 0x9, [3]int{0, 0, 0}},
	{"Mode_HANZI", 0xD, [3]int{8, 10, 12}},
}

func refQRCountClass(v int) int {
	if v <= 9 {
		return 0
	}
	if v <= 26 {
		return 1
	}
	return 2
}

var refQRFinder = [7][7]int{
	{1, 1, 1, 1, 1, 1, 1},
	{1, 0, 0, 0, 0, 0, 1},
	{1, 0, 1, 1, 1, 0, 1},
	{1, 0, 1, 1, 1, 0, 1},
	{1, 0, 1, 1, 1, 0, 1},
	{1, 0, 0, 0, 0, 0, 1},
	{1, 1, 1, 1, 1, 1, 1},
}

var refQRAlignPattern = [5][5]int{
	{1, 1, 1, 1, 1},
	{1, 0, 0, 0, 1},
	{1, 0, 1, 0, 1},
	{1, 0, 0, 0, 1},
	{1, 1, 1, 1, 1},
}

// Format information module positions (x=column, y=row), first copy around the top-left finder, for
// bit i = 0 (least significant) .. 14 (ISO 18004 Figure 25).
var refQRFormatPos1 = [15][2]int{
	{8, 0}, {8, 1}, {8, 2}, {8, 3}, {8, 4}, {8, 5}, {8, 7}, {8, 8},
	{7, 8}, {5, 8}, {4, 8}, {3, 8}, {2, 8}, {1, 8}, {0, 8},
}

// second copy: bits 0..7 in row 8 from the right edge leftwards, bits 8..14 in column 8 downwards to the bottom
func refQRFormatPos2(i, dim int) [2]int {
	if i < 8 {
		return [2]int{dim - 1 - i, 8}
	}
	return [2]int{8, dim - 7 + (i - 8)}
}

// Published capacities (ISO 18004 Table 7) for versions 1 and 40: numeric, alphanumeric, byte, kanji.
var refQRCapacity = map[int][4][4]int{
	1:  {{41, 25, 17, 10}, {34, 20, 14, 8}, {27, 16, 11, 7}, {17, 10, 7, 4}},
	40: {{7089, 4296, 2953, 1817}, {5596, 3391, 2331, 1435}, {3993, 2420, 1663, 1024}, {3057, 1852, 1273, 784}},
}

const refQRAlnum = "0123456789ABCDEFGHIJKLMNOPQRSTUVWXYZ $%*+-./:"
