package main

import (
	"fmt"
	"os"
	"sort"

	"golang.org/x/tools/go/ssa"
)

func init() {
	registerProp("C06", "Decoding is total", checkC06)
}

func checkC06(c *Ctx, r *Report) {
	runEDrop(c, r, nil, 60)
	nf := c.newNilFlow()
	var roots []*ssa.Function
	roots = append(roots, nf.entryMethods("", "Reader", "Decode")...)
	roots = append(roots, nf.entryMethods("oned", "RowDecoder", "DecodeRow")...)
	for _, t := range [][2]string{
		{"qrcode/decoder", "Decoder.Decode"}, {"datamatrix/decoder", "Decoder.Decode"}, {"aztec/decoder", "Decoder.Decode"},
		{"qrcode/decoder", "DecodedBitStreamParser_Decode"}, {"datamatrix/decoder", "DecodedBitStreamParser_decode"},
	} {
		if f := c.ssaFunc(t[0], t[1]); f != nil {
			roots = append(roots, f)
		} else {
			r.AnchorLost("E-XOR", t[0]+"."+t[1], "entry point not found")
		}
	}
	if os.Getenv("GZ_DEBUG_XOR") != "" {
		var names []string
		for f, ok := range nf.xor {
			if !ok {
				names = append(names, fmt.Sprintf("%s  succ=%v failnil=%v :: %s", shortFn(f), nf.succ[f], nf.failnil[f], nf.xorWhy[f]))
			}
		}
		sort.Strings(names)
		for _, n := range names {
			fmt.Println("NOT-XOR", n)
		}
	}
	debugNil(nf, c)
	debugKinds(nf.kf)
	runEXOR(c, r, nf, roots, 20)
	runENIL(c, r, nf, nil, 25)
	readers := nf.entryMethods("", "Reader", "Decode")
	runEKIND(c, r, nf, readers, 5)
	reach := nf.reachableFrom(roots)
	nonZeroHook = func(call *ssa.Call, idx int) bool {
		cs := nf.callees(call)
		if len(cs) == 0 {
			return false
		}
		for _, g := range cs {
			if !nf.nonZeroResult(g, idx) {
				return false
			}
		}
		return true
	}
	runEFMTARG(c, r)
	runEPANIC(c, r, reach, "the decode entry points")
	runEMAKE(c, r, reach, "the decode entry points")
	runEDIV(c, r, reach, "the decode entry points")
}

func runEXOR(c *Ctx, r *Report, nf *nilFlow, roots []*ssa.Function, min int) {
	r.Rule("E-XOR", "each entry point with a (result, error) pair returns, on every path, either (non-nil, nil) or (nil, non-nil): proven inductively over callee summaries with dominating nil tests and the correlation of a callee's own pair", min)
	seen := map[*ssa.Function]bool{}
	for _, f := range roots {
		if seen[f] {
			continue
		}
		seen[f] = true
		key := shortFn(f)
		r.Analysed("entry " + key)
		if _, _, ok := xorShape(f.Signature); !ok {
			continue
		}
		if nf.xor[f] {
			r.Pass("E-XOR", key, c.pos(f.Pos()), "")
		} else {
			r.Fail("E-XOR", key, c.pos(f.Pos()), "violation", "cannot show (result != nil) xor (error != nil) on every return: "+explainXOR(nf, f, 0))
		}
	}
}

// explainXOR follows the chain of unproven callees to the first concrete offending return.
func explainXOR(nf *nilFlow, f *ssa.Function, depth int) string {
	why := nf.xorWhy[f]
	if depth > 6 {
		return why
	}
	// if the offending return passes through an unproven callee, descend
	for _, ret := range returnsOf(f) {
		for _, v := range ret.Results {
			if ex, ok := v.(*ssa.Extract); ok {
				if call, ok := ex.Tuple.(*ssa.Call); ok {
					for _, g := range nf.callees(call) {
						if _, _, shape := xorShape(g.Signature); shape && !nf.xor[g] && g != f && isRepoPkgFn(g) {
							return fmt.Sprintf("%s <- via %s: %s", why, shortFn(g), explainXOR(nf, g, depth+1))
						}
					}
				}
			}
		}
	}
	return why
}

func runENIL(c *Ctx, r *Report, nf *nilFlow, within map[*ssa.Function]bool, min int) {
	r.Rule("E-NIL", "a value obtained from a function that may return nil without an error (discovered from the returns: nil constant or pass-through, error absent or not provably non-nil; plus ianaindex.Encoding) is not dereferenced, invoked or passed to a dereferencing callee unless a non-nil test of it dominates the use", min)
	var fs []*ssa.Function
	for _, f := range nf.funcs {
		if within == nil || within[f] {
			fs = append(fs, f)
		}
	}
	// report the producers
	var prods []string
	for f, m := range nf.maynil {
		for i, b := range m {
			if b {
				prods = append(prods, fmt.Sprintf("%s#%d", shortFn(f), i))
			}
		}
	}
	sort.Strings(prods)
	r.Extra("maynil_producers", prods)
	for _, f := range fs {
		vals := nf.mayNilValues(f)
		if len(vals) == 0 {
			continue
		}
		ord := map[string]int{}
		// deterministic order
		type item struct {
			v   ssa.Value
			src string
		}
		var items []item
		for v, src := range vals {
			items = append(items, item{v, src})
		}
		sort.Slice(items, func(i, j int) bool { return items[i].v.Pos() < items[j].v.Pos() })
		for _, it := range items {
			key := fmt.Sprintf("%s<-%s#%d", shortFn(f), it.src, ord[it.src])
			ord[it.src]++
			uses := nf.unsafeUses(it.v, map[ssa.Value]bool{}, 0)
			if len(uses) == 0 {
				r.Pass("E-NIL", key, c.pos(it.v.Pos()), "")
				continue
			}
			if why, ok := frozenNilUses[key]; ok {
				r.Pass("E-NIL", key, c.pos(uses[0].Pos()), "frozen: "+why)
				continue
			}
			r.Fail("E-NIL", key, c.pos(uses[0].Pos()), "violation", fmt.Sprintf("the result of %s (obtained at %s) may be nil and is used here without a dominating nil test", it.src, c.pos(it.v.Pos())))
		}
	}
}
