package main

import (
	"fmt"
	"go/ast"
	"go/token"
	"go/types"
	"os"
	"sort"
	"strings"

	"golang.org/x/tools/go/ssa"
	"golang.org/x/tools/go/types/typeutil"
)

func init() {
	registerProp("C06", "Decoding is total", checkC06)
}

func checkC06(c *Ctx, r *Report) {
	runEDrop(c, r, nil, 60)
	checkBothCopies(c, r)
	checkAztecRSBeforeUnstuff(c, r) // the codeword counts handed to the Reed-Solomon decoder are checked first: a negative parity count panics (also C11, C09) // both version reads are checked against the dimension: ReadCodewords sizes its result by the version (also C05)
	nf := c.newNilFlow()
	var roots []*ssa.Function
	roots = append(roots, nf.entryMethods("", "Reader", "Decode")...)
	roots = append(roots, nf.entryMethods("oned", "RowDecoder", "DecodeRow")...)
	for _, t := range [][2]string{
		{"qrcode/decoder", "Decoder.Decode"}, {"datamatrix/decoder", "Decoder.Decode"}, {"aztec/decoder", "Decoder.Decode"},
		{"qrcode/decoder", "DecodedBitStreamParser_Decode"}, {"datamatrix/decoder", "DecodedBitStreamParser_decode"},
	} {
		if f := c.ssaFunc(t[0], t[1]); f != nil {
			roots = append(roots, f)
		} else {
			r.AnchorLost("E-XOR", t[0]+"."+t[1], "entry point not found")
		}
	}
	if os.Getenv("GZ_DEBUG_XOR") != "" {
		var names []string
		for f, ok := range nf.xor {
			if !ok {
				names = append(names, fmt.Sprintf("%s  succ=%v failnil=%v :: %s", shortFn(f), nf.succ[f], nf.failnil[f], nf.xorWhy[f]))
			}
		}
		sort.Strings(names)
		for _, n := range names {
			fmt.Println("NOT-XOR", n)
		}
	}
	debugNil(nf, c)
	debugKinds(nf.kf)
	runEXOR(c, r, nf, roots, 20)
	runENIL(c, r, nf, nil, 25)
	readers := nf.entryMethods("", "Reader", "Decode")
	runEKIND(c, r, nf, readers, 5)
	reach := nf.reachableFrom(roots)
	checkCallbackNil(c, r, reach)
	nonZeroHook = func(call *ssa.Call, idx int) bool {
		cs := nf.callees(call)
		if len(cs) == 0 {
			return false
		}
		for _, g := range cs {
			if !nf.nonZeroResult(g, idx) {
				return false
			}
		}
		return true
	}
	runEFMTARG(c, r)
	runEPANIC(c, r, reach, "the decode entry points")
	runEMAKE(c, r, reach, "the decode entry points")
	runEDIV(c, r, reach, "the decode entry points")
	runETableIdx(c, r, reach, "the decode entry points", 1)
	runECONSTIDX(c, r, reach, roots, "the decode entry points", 1)
	runENEXTIDX(c, r, reach, "the decode entry points", 1)
	checkSquareGuard(c, r)
	checkAztecReadCode(c, r, "M-READCODE")
	checkGuardOrder(c, r, reach)
	checkCodabarIndexPair(c, r)
	// the frozen E-DROP rows of the Data Matrix decoder rest on its version table: decide that here as well
	checkDMTables(c, r)
	// the Code 128 row decoder removes the check symbol's characters from its text: folded over scripted symbol values
	checkCode128ReaderTotal(c, r)
	checkRSS14Text(c, r)
}

func runEXOR(c *Ctx, r *Report, nf *nilFlow, roots []*ssa.Function, min int) {
	r.Rule("E-XOR", "each entry point with a (result, error) pair returns, on every path, either (non-nil, nil) or (nil, non-nil): proven inductively over callee summaries with dominating nil tests and the correlation of a callee's own pair", min)
	seen := map[*ssa.Function]bool{}
	for _, f := range roots {
		if seen[f] {
			continue
		}
		seen[f] = true
		key := shortFn(f)
		r.Analysed("entry " + key)
		if _, _, ok := xorShape(f.Signature); !ok {
			continue
		}
		if nf.xor[f] {
			r.Pass("E-XOR", key, c.pos(f.Pos()), "")
		} else {
			r.Fail("E-XOR", key, c.pos(f.Pos()), "violation", "cannot show (result != nil) xor (error != nil) on every return: "+explainXOR(nf, f, 0))
		}
	}
}

// explainXOR follows the chain of unproven callees to the first concrete offending return.
func explainXOR(nf *nilFlow, f *ssa.Function, depth int) string {
	why := nf.xorWhy[f]
	if depth > 6 {
		return why
	}
	// if the offending return passes through an unproven callee, descend
	for _, ret := range returnsOf(f) {
		for _, v := range ret.Results {
			if ex, ok := v.(*ssa.Extract); ok {
				if call, ok := ex.Tuple.(*ssa.Call); ok {
					for _, g := range nf.callees(call) {
						if _, _, shape := xorShape(g.Signature); shape && !nf.xor[g] && g != f && isRepoPkgFn(g) {
							return fmt.Sprintf("%s <- via %s: %s", why, shortFn(g), explainXOR(nf, g, depth+1))
						}
					}
				}
			}
		}
	}
	return why
}

func runENIL(c *Ctx, r *Report, nf *nilFlow, within map[*ssa.Function]bool, min int) {
	r.Rule("E-NIL", "a value obtained from a function that may return nil without an error (discovered from the returns: nil constant or pass-through, error absent or not provably non-nil; plus ianaindex.Encoding) is not dereferenced, invoked or passed to a dereferencing callee unless a non-nil test of it dominates the use", min)
	var fs []*ssa.Function
	for _, f := range nf.funcs {
		if within == nil || within[f] {
			fs = append(fs, f)
		}
	}
	// report the producers
	var prods []string
	for f, m := range nf.maynil {
		for i, b := range m {
			if b {
				prods = append(prods, fmt.Sprintf("%s#%d", shortFn(f), i))
			}
		}
	}
	sort.Strings(prods)
	r.Extra("maynil_producers", prods)
	for _, f := range fs {
		vals := nf.mayNilValues(f)
		if len(vals) == 0 {
			continue
		}
		ord := map[string]int{}
		// deterministic order
		type item struct {
			v   ssa.Value
			src string
		}
		var items []item
		for v, src := range vals {
			items = append(items, item{v, src})
		}
		sort.Slice(items, func(i, j int) bool { return items[i].v.Pos() < items[j].v.Pos() })
		for _, it := range items {
			key := fmt.Sprintf("%s<-%s#%d", shortFn(f), it.src, ord[it.src])
			ord[it.src]++
			uses := nf.unsafeUses(it.v, map[ssa.Value]bool{}, 0)
			if len(uses) == 0 {
				r.Pass("E-NIL", key, c.pos(it.v.Pos()), "")
				continue
			}
			if why, ok := frozenNilUses[key]; ok {
				r.Pass("E-NIL", key, c.pos(uses[0].Pos()), "frozen: "+why)
				continue
			}
			r.Fail("E-NIL", key, c.pos(uses[0].Pos()), "violation", fmt.Sprintf("the result of %s (obtained at %s) may be nil and is used here without a dominating nil test", it.src, c.pos(it.v.Pos())))
		}
	}
}

// M-SQUARE: the QR module-matrix parser uses one dimension for both axes, so it must insist on a square matrix
func checkSquareGuard(c *Ctx, r *Report) {
	r.Rule("M-SQUARE", "qrcode/decoder.NewBitMatrixParser rejects, before anything is read, every matrix that is not a square of side 21 + 4k: all later index arithmetic (format/version positions, unmasking, the zig-zag) uses the height for both axes; the guard is folded over a grid of widths and heights", 1)
	fd, p := c.funcDeclOf("qrcode/decoder", "NewBitMatrixParser")
	key := "qrcode/decoder.NewBitMatrixParser"
	if fd == nil {
		r.AnchorLost("M-SQUARE", key, "function not found")
		return
	}
	r.Analysed(key)
	bad := ""
	for _, h := range []int64{0, 8, 20, 21, 22, 23, 24, 25, 49, 177} {
		for _, w := range []int64{0, 8, 20, 21, 25, 33, 48, 49, 50, 177} {
			hk := &rpf{callHook: func(rr *rpf, call *ast.CallExpr, callee types.Object) (*Val, bool) {
				if fn, ok := callee.(*types.Func); ok {
					switch fn.Name() {
					case "GetHeight":
						return vint(h), true
					case "GetWidth":
						return vint(w), true
					}
				}
				return nil, false
			}}
			fired, err := guardFires(c, fd, p, map[types.Object]*Val{paramObjs(p, fd)[0]: {K: VNil}}, hk, 0)
			if err != "" {
				bad = "?" + err
				break
			}
			invalid := h < 21 || h%4 != 1 || w != h
			if fired != invalid {
				bad = fmt.Sprintf("a %dx%d (width x height) matrix: rejected=%v, but it is %s", w, h, fired, map[bool]string{true: "not a square of side 21+4k: indexing by the height in both directions leaves the matrix", false: "a valid symbol size"}[invalid])
				break
			}
		}
		if bad != "" {
			break
		}
	}
	reportFold(r, c, "M-SQUARE", key, fd.Pos(), bad)
}

// M-IDXPAIR: Codabar's character matcher certifies the index its caller reads next
func checkCodabarIndexPair(c *Ctx, r *Report) {
	r.Rule("M-IDXPAIR", "codabarReader.toNarrowWidePattern(position) returns -1 unless position+7 < counterLength, and DecodeRow, which advances its cursor by exactly 8 after each accepted character, reads counters only at cursor-8 .. cursor-1 afterwards: the matcher's guard is what keeps counters[cursor-1] (the gap after the last character) inside the slice", 2)
	fd, p := c.funcDeclOf("oned", "codabarReader.toNarrowWidePattern")
	key := "oned.codabarReader.toNarrowWidePattern"
	if fd == nil {
		r.AnchorLost("M-IDXPAIR", key, "method not found")
	} else {
		r.Analysed(key)
		bad := ""
		for n := int64(0); n <= 24 && bad == ""; n++ {
			for pos := int64(0); pos <= 24 && bad == ""; pos++ {
				rr := &rpf{c: c, p: p, env: map[types.Object]*Val{paramObjs(p, fd)[0]: vint(pos)}, selHook: func(rr *rpf, sel *ast.SelectorExpr) (*Val, bool) {
					if sel.Sel.Name == "counterLength" {
						return vint(n), true
					}
					return nil, false
				}}
				rejected := false
				func() {
					defer func() {
						if y := recover(); y != nil {
							if re, ok := y.(*rpfErr); ok {
								bad = "?" + re.Error()
								return
							}
							panic(y)
						}
					}()
					for _, st := range fd.Body.List {
						switch x := st.(type) {
						case *ast.AssignStmt:
							if x.Tok != token.DEFINE || !allIntRhs(p, x) {
								return
							}
							rr.stmt(x)
						case *ast.IfStmt:
							if !terminates(x.Body.List) {
								return
							}
							cv := rr.expr(x.Cond)
							if cv.K == VBool && cv.B {
								if rs, ok := x.Body.List[len(x.Body.List)-1].(*ast.ReturnStmt); ok && len(rs.Results) == 1 {
									if v, isK := constInt(p, rs.Results[0]); isK && v == -1 {
										rejected = true
									}
								}
								return
							}
						default:
							return
						}
					}
				}()
				if bad == "" && rejected != (pos+7 >= n) {
					bad = fmt.Sprintf("position %d with %d counters: rejected=%v; the character's 7 elements and the gap after it end at index %d", pos, n, rejected, pos+7)
				}
			}
		}
		reportFold(r, c, "M-IDXPAIR", key, fd.Pos(), bad)
	}
	fd, p = c.funcDeclOf("oned", "codabarReader.DecodeRow")
	key = "oned.codabarReader.DecodeRow"
	if fd == nil {
		r.AnchorLost("M-IDXPAIR", key, "method not found")
		return
	}
	r.Analysed(key)
	// the cursor: argument of toNarrowWidePattern
	calls := findCalls(p, fd.Body, func(o types.Object) bool {
		fn, ok := o.(*types.Func)
		return ok && fn.Name() == "toNarrowWidePattern"
	})
	bad := ""
	if len(calls) != 1 {
		bad = "expected one toNarrowWidePattern call"
	} else {
		cur := identObj(p, calls[0].Args[0])
		loop := (*ast.ForStmt)(nil)
		gi, _ := guardsOf(fd.Body, enclosingStmt(fd.Body, calls[0]))
		for _, e := range gi.Enclosing {
			if l, ok := e.Node.(*ast.ForStmt); ok {
				loop = l
			}
		}
		if cur == nil || loop == nil {
			bad = "cursor / character loop not found"
		} else {
			// in the loop: the -1 test exits, then the only assignment to the cursor is += 8
			n := 0
			ast.Inspect(loop.Body, func(nd ast.Node) bool {
				if as, ok := nd.(*ast.AssignStmt); ok {
					for i, l := range as.Lhs {
						if identObj(p, l) == cur {
							n++
							if v, isK := constInt(p, as.Rhs[i]); as.Tok != token.ADD_ASSIGN || !isK || v != 8 {
								bad = "the cursor must advance by exactly 8 counters per accepted character"
							}
							if as.Pos() < calls[0].Pos() {
								bad = "the cursor moves before the character at it was matched"
							}
						}
					}
				}
				if inc, ok := nd.(*ast.IncDecStmt); ok && identObj(p, inc.X) == cur {
					bad = "the cursor must advance by exactly 8 counters per accepted character"
				}
				return true
			})
			if bad == "" && n != 1 {
				bad = "the cursor must advance exactly once per accepted character"
			}
			// after the loop every counters[...] read through the cursor is cursor+k with -8 <= k <= -1
			if bad == "" {
				s := c.newSymExec(p)
				s.onIndex = func(s *symExec, ix *ast.IndexExpr, base, index *Poly) {
					if ix.Pos() < loop.End() || !strings.HasSuffix(base.String(), ",counters)") {
						return
					}
					curVal := s.atomFor(cur)
					d := index.sub(curVal)
					// d is a constant or -8 + K with K < 7 (the pattern-size loop)
					if cst, isC := d.isConst(); isC {
						if !(cst.IsInt() && cst.Num().Int64() <= -1 && cst.Num().Int64() >= -8) {
							bad = c.pos(ix.Pos()) + ": counters[cursor" + prettyPoly(d) + "] is outside the last character's span cursor-8 .. cursor-1"
						}
						return
					}
					ks := kAtomsOf(d)
					if len(ks) == 1 && !usesCursor(index, curVal) {
						return // an index not derived from the cursor (bounded by its own loop)
					}
					if len(ks) == 1 {
						off := d.sub(polyAtom(ks[0]))
						if cst, isC := off.isConst(); isC && cst.IsInt() && cst.Num().Int64() >= -8 {
							// upper end: the loop condition bounds K
							okUp := false
							for _, cd := range s.conds {
								if cd.op == token.LSS && !cd.neg {
									if rc, isRC := cd.r.isConst(); isRC && rc.IsInt() && rc.Num().Int64() <= -1 {
										okUp = true
									}
								}
							}
							if okUp {
								return
							}
						}
					}
					bad = c.pos(ix.Pos()) + ": counters[" + prettyPoly(index) + "] cannot be shown to lie in cursor-8 .. cursor-1"
				}
				s.block(fd.Body.List)
			}
		}
	}
	reportFold(r, c, "M-IDXPAIR", key, fd.Pos(), bad)
}

func usesCursor(index, cur *Poly) bool {
	return strings.Contains(index.String(), cur.String())
}

// E-GUARDORDER: a bounds test combined with the access it protects must come first
func checkGuardOrder(c *Ctx, r *Report, reach map[*ssa.Function]bool) {
	r.Rule("E-GUARDORDER", "in a short-circuit condition A || B / A && B on a decode path, when one operand compares an integer variable with a bound (==, !=, <, <=, >, >= against an end / size / length) and the other operand uses that same variable as an index or as the position argument of a bit-container read (Get, GetNextSet, GetNextUnset, IsRange), the comparison is the left operand: written the other way round the read happens before the bound is tested (positive example: the Code 93 termination-bar test nextStart == end || !row.Get(nextStart))", 1)
	n, guarded := 0, 0
	for _, p := range c.PkgList {
		if strings.HasSuffix(p.PkgPath, "/testutil") {
			continue
		}
		for _, file := range p.Syntax {
			for _, d := range file.Decls {
				fd, ok := d.(*ast.FuncDecl)
				if !ok || fd.Body == nil {
					continue
				}
				if fn, _ := p.TypesInfo.Defs[fd.Name].(*types.Func); fn != nil {
					if sf := c.Prog.FuncValue(fn); sf != nil && reach != nil && !reach[sf] {
						continue
					}
				}
				ast.Inspect(fd.Body, func(nd ast.Node) bool {
					be, ok := nd.(*ast.BinaryExpr)
					if !ok || (be.Op != token.LOR && be.Op != token.LAND) {
						return true
					}
					n++
					// variables compared in an operand / used as a read position in an operand
					compared := func(e ast.Expr) map[types.Object]bool {
						out := map[types.Object]bool{}
						if cmp, ok := ast.Unparen(e).(*ast.BinaryExpr); ok {
							switch cmp.Op {
							case token.EQL, token.NEQ, token.LSS, token.LEQ, token.GTR, token.GEQ:
								for _, side := range []ast.Expr{cmp.X, cmp.Y} {
									if id, ok := ast.Unparen(side).(*ast.Ident); ok {
										if v, ok := p.TypesInfo.Uses[id].(*types.Var); ok {
											if bt, ok := v.Type().Underlying().(*types.Basic); ok && bt.Info()&types.IsInteger != 0 {
												out[v] = true
											}
										}
									}
								}
							}
						}
						return out
					}
					readsAt := func(e ast.Expr) map[types.Object]bool {
						out := map[types.Object]bool{}
						mention := func(x ast.Expr) {
							ast.Inspect(x, func(m ast.Node) bool {
								if id, ok := m.(*ast.Ident); ok {
									if v, ok := p.TypesInfo.Uses[id].(*types.Var); ok {
										out[v] = true
									}
								}
								return true
							})
						}
						ast.Inspect(e, func(m ast.Node) bool {
							switch x := m.(type) {
							case *ast.IndexExpr:
								if _, isMap := p.TypesInfo.TypeOf(x.X).Underlying().(*types.Map); !isMap {
									mention(x.Index)
								}
							case *ast.CallExpr:
								if fn, ok := typeutil.Callee(p.TypesInfo, x).(*types.Func); ok {
									switch fn.Name() {
									case "Get", "GetNextSet", "GetNextUnset", "IsRange":
										if recv := fn.Type().(*types.Signature).Recv(); recv != nil {
											for _, a := range x.Args {
												mention(a)
											}
										}
									}
								}
							}
							return true
						})
						return out
					}
					// positive instances: comparison on the left, read on the right
					if cmpL := compared(be.X); len(cmpL) > 0 {
						readR := readsAt(be.Y)
						for v := range cmpL {
							if readR[v] {
								guarded++
								r.Pass("E-GUARDORDER", fmt.Sprintf("%s:%s@%d", fdKey(p, fd), v.Name(), guarded), c.pos(be.Pos()), "bound tested before the read")
							}
						}
					}
					cmpR := compared(be.Y)
					if len(cmpR) == 0 {
						return true
					}
					readL := readsAt(be.X)
					for v := range cmpR {
						if readL[v] {
							// the left operand may itself guard v: A (guards v) op read(v) op cmp(v) is fine when an earlier
							// comparison of v precedes the read inside the left operand
							if lb, ok := ast.Unparen(be.X).(*ast.BinaryExpr); ok && (lb.Op == token.LOR || lb.Op == token.LAND) && compared(lb.X)[v] {
								continue
							}
							r.Fail("E-GUARDORDER", fdKey(p, fd)+":"+v.Name(), c.pos(be.Pos()), "violation", fmt.Sprintf("%s is used as a read position in the left operand and compared with its bound only in the right operand of %s", v.Name(), be.Op))
							return true
						}
					}
					return true
				})
			}
		}
	}
	r.Extra("E-GUARDORDER short-circuit conditions", n)
	r.Extra("E-GUARDORDER guarded reads", guarded)
}

// E-CALLBACKNIL: a result-point callback taken from the hints is tested before it is invoked
// checkCallbackNilIn is E-CALLBACKNIL over the functions of the packages under one directory of the module.
func checkCallbackNilIn(c *Ctx, r *Report, dir string, min int) {
	reach := map[*ssa.Function]bool{}
	for f := range c.allFuncs {
		if f.Pkg != nil && strings.HasPrefix(f.Pkg.Pkg.Path(), modPath+"/"+dir) {
			reach[f] = true
		}
	}
	checkCallbackNilMin(c, r, reach, min)
}

func checkCallbackNil(c *Ctx, r *Report, reach map[*ssa.Function]bool) {
	checkCallbackNilMin(c, r, reach, 5)
}

func checkCallbackNilMin(c *Ctx, r *Report, reach map[*ssa.Function]bool, min int) {
	r.Rule("E-CALLBACKNIL", "every invocation of a value of type gozxing.ResultPointCallback on a decode path is dominated by a test that the value is not nil: the callback arrives through the hints map (a well-typed hint value may be a nil function, which a type assertion accepts) or through a field that is nil when no hint was given; sibling readers agree on this test - one obligation per invocation", min)
	var fns []*ssa.Function
	for f := range reach {
		if f.Blocks != nil && isRepoPkgFn(f) {
			fns = append(fns, f)
		}
	}
	sort.Slice(fns, func(i, j int) bool { return fns[i].String() < fns[j].String() })
	same := func(a, b ssa.Value) bool {
		if a == b {
			return true
		}
		la, ok1 := a.(*ssa.UnOp)
		lb, ok2 := b.(*ssa.UnOp)
		if !ok1 || !ok2 || la.Op != token.MUL || lb.Op != token.MUL {
			return false
		}
		if la.X == lb.X {
			return true
		}
		fa, ok1 := la.X.(*ssa.FieldAddr)
		fb, ok2 := lb.X.(*ssa.FieldAddr)
		return ok1 && ok2 && fa.X == fb.X && fa.Field == fb.Field
	}
	isNil := func(v ssa.Value) bool {
		k, ok := v.(*ssa.Const)
		return ok && k.IsNil()
	}
	for _, f := range fns {
		n := 0
		for _, b := range f.Blocks {
			for _, in := range b.Instrs {
				call, ok := in.(*ssa.Call)
				if !ok || call.Call.IsInvoke() || call.Call.StaticCallee() != nil {
					continue
				}
				nt, ok := call.Call.Value.Type().(*types.Named)
				if !ok || nt.Obj().Name() != "ResultPointCallback" {
					continue
				}
				key := fmt.Sprintf("%s:callback#%d", shortFn(f), n)
				n++
				r.Analysed(key)
				v := call.Call.Value
				proven := false
				for _, blk := range f.Blocks {
					if proven || len(blk.Instrs) == 0 {
						break
					}
					iff, ok := blk.Instrs[len(blk.Instrs)-1].(*ssa.If)
					if !ok {
						continue
					}
					bo, ok := iff.Cond.(*ssa.BinOp)
					if !ok || (bo.Op != token.NEQ && bo.Op != token.EQL) {
						continue
					}
					var other ssa.Value
					switch {
					case isNil(bo.Y):
						other = bo.X
					case isNil(bo.X):
						other = bo.Y
					default:
						continue
					}
					if !same(other, v) {
						continue
					}
					side := 0 // NEQ: true edge is non-nil
					if bo.Op == token.EQL {
						side = 1
					}
					succ := blk.Succs[side]
					if len(succ.Preds) == 1 && (succ == b || succ.Dominates(b)) {
						proven = true
					}
				}
				r.Check(proven, "E-CALLBACKNIL", key, c.pos(call.Pos()), "the callback is invoked without a dominating test that it is not nil: a hints map carrying a nil ResultPointCallback (or no callback at all, for a field) makes the reader panic")
			}
		}
	}
}

// S-RSSTEXT: the text the RSS-14 reader builds from a pair of data values
func checkRSS14Text(c *Ctx, r *Report) {
	r.Rule("S-RSSTEXT", "oned/rss.constructResult, folded from source for pairs whose values span the range the data characters can produce (0 .. 4537076 each, among them the first pair that gives a number of 14 digits): it builds its text without indexing or slicing outside its buffer, and the text is the number left-padded with zeros to 13 digits followed by the mod-10 check digit of those 13", 1)
	fd, p := c.funcDeclOf("oned/rss", "constructResult")
	key := "oned/rss.constructResult/text"
	if fd == nil {
		r.AnchorLost("S-RSSTEXT", key, "function not found")
		return
	}
	r.Analysed(key)
	type stop struct{ text string }
	bad := ""
	for _, lv := range []int64{0, 1, 22, 220406, 2204063, 2204064, 3218016, 4537076} {
		for _, rv := range []int64{0, 7, 2923880, 4537076} {
			cur := lv
			pair := func(v int64) *Val {
				return &Val{K: VStruct, Ptr: true, Fields: map[string]*Val{"value": vint(v)}}
			}
			lp, rp := pair(lv), pair(rv)
			h := &rpf{unroll: 1000, effectCalls: true}
			h.callHook = func(rr *rpf, call *ast.CallExpr, callee types.Object) (*Val, bool) {
				if fn, ok := callee.(*types.Func); ok {
					switch fn.Name() {
					case "GetValue":
						if sel, isS := call.Fun.(*ast.SelectorExpr); isS {
							if b := rr.expr(sel.X); b == lp {
								return vint(lv), true
							} else if b == rp {
								return vint(rv), true
							}
						}
					case "GetFinderPattern":
						return &Val{K: VStruct, Ptr: true, Fields: map[string]*Val{}}, true
					case "GetResultPoints":
						return &Val{K: VList, L: []*Val{{K: VNil}, {K: VNil}}}, true
					case "NewResult":
						conv, isConv := call.Args[0].(*ast.CallExpr)
						if !isConv || len(conv.Args) != 1 {
							rpfFail("the result text is not string(<buffer>)")
						}
						bs, ok := listInts(rr.expr(conv.Args[0]))
						if !ok {
							rpfFail("the text buffer is not a list of constants")
						}
						b := make([]byte, len(bs))
						for i, x := range bs {
							b[i] = byte(x)
						}
						panic(stop{string(b)})
					}
				}
				return nil, false
			}
			_ = cur
			got, failed := "", ""
			func() {
				defer func() {
					if x := recover(); x != nil {
						if s, ok := x.(stop); ok {
							got = s.text
							return
						}
						panic(x)
					}
				}()
				if _, err := c.rpfCall(fd, p, []*Val{lp, rp}, h); err != nil {
					failed = err.Error()
				} else {
					failed = "no Result is constructed"
				}
			}()
			val := 4537077*lv + rv
			what := fmt.Sprintf("left value %d, right value %d (number %d)", lv, rv, val)
			if failed != "" {
				if strings.Contains(failed, "out of range") {
					bad = what + ": " + failed + " - a run-time panic"
				} else {
					bad = "?" + what + ": " + failed
				}
				break
			}
			num := fmt.Sprintf("%013d", val)
			sum := 0
			for i := 0; i < 13; i++ {
				d := int(num[i] - '0')
				if i%2 == 0 {
					sum += 3 * d
				} else {
					sum += d
				}
			}
			want := num + fmt.Sprint((10-sum%10)%10)
			if got != want {
				bad = fmt.Sprintf("%s: the text is %q, expected %q", what, got, want)
				break
			}
		}
		if bad != "" {
			break
		}
	}
	reportFold(r, c, "S-RSSTEXT", key, fd.Pos(), bad)
}
