package main

import (
	"fmt"
	"go/ast"
	"go/token"
	"go/types"
	"strings"

	"golang.org/x/tools/go/packages"
	"golang.org/x/tools/go/ssa"
	"golang.org/x/tools/go/types/typeutil"
)

func init() {
	registerProp("C01", "QR Code: what is written is what is read", checkC01)
}

func checkC01(c *Ctx, r *Report) {
	// the finite tables both sides are built on (same obligations as C07)
	checkC07(c, r)
	r.exhaustive = false
	checkQRAlnumPair(c, r)
	checkBitArrayHistories(c, r) // the header and data bits are assembled with AppendBitArray / AppendBits (same obligations as under C16)
	checkECIRegistry(c, r)       // the ECI designator written is the registered first value, which fits the one byte appendECI writes (also C15)
	checkWriterAcceptsContents(c, r, "qrcode", "QRCodeWriter.Encode", "BarcodeFormat_QR_CODE")
	checkBlackPointBilevel(c, r) // the rendered image is read back at every requested size: also when the sampled rows miss the symbol (also C17)
	checkHintMapsReadOnly(c, r)  // a hints map that is reused reads the next symbol as it read the first (also C18)
	checkECLevelReported(c, r)   // "reporting the same error-correction level": the level's way from the format bits to the result metadata
	checkQRSegments(c, r)
	checkQRHeader(c, r)
	checkQRCounts(c, r)
	checkQRChooseMode(c, r)
	checkDecodePipelines(c, r)
	checkGuessUTF8(c, r) // default byte mode writes UTF-8 without an ECI: the reader has to guess it (same obligation as under C15)
	// the statement quantifies over the requested pixel size: the rendering terms (same obligations as under C14)
	declareRenderRules(r, 1)
	renderQR(c, r)
	checkChooseVersion(c, r) // two-pass version recommendation (same obligations as under C13)
	checkPureAxis(c, r, [][2]string{{"qrcode", "QRCodeReader.extractPureBits"}, {"qrcode", "QRCodeReader.moduleSize"}})
	// error discipline on the QR chain
	runEDrop(c, r, []string{"qrcode", "qrcode/encoder", "qrcode/decoder", "qrcode/detector"}, 20)
	nf := c.newNilFlow()
	var roots []*ssa.Function
	for _, t := range [][2]string{
		{"qrcode", "QRCodeWriter.Encode"}, {"qrcode", "QRCodeWriter.EncodeWithoutHint"}, {"qrcode/encoder", "Encoder_encode"},
		{"qrcode", "QRCodeReader.Decode"}, {"qrcode/decoder", "Decoder.Decode"}, {"qrcode/decoder", "DecodedBitStreamParser_Decode"},
	} {
		if f := c.ssaFunc(t[0], t[1]); f != nil {
			roots = append(roots, f)
		} else {
			r.AnchorLost("E-XOR", t[0]+"."+t[1], "entry point not found")
		}
	}
	runEXOR(c, r, nf, roots, 5)
	reach := nf.reachableFrom(roots)
	runENIL(c, r, nf, reach, 2)
	r.Note("decided: the tables (C07 rules), the alphanumeric table pair, the per-group arithmetic of numeric / alphanumeric / Kanji segments as exact inverse transitions over their whole finite domains, the header field widths and count semantics, and the error discipline of the QR chain. Through the C07 rules also: interleave / de-interleave on tagged codewords, the zig-zag traversal with masking, terminator and padding. Not decided: Shift_JIS / UTF-8 transcoding (golang.org/x/text), the detector path, and the round trip as a whole (a composition of the decided parts over run-time payloads)")
}

// ---------------------------------------------------------------------------------------------------------------
// S-ALNUM
// ---------------------------------------------------------------------------------------------------------------

const qrAlnum = "0123456789ABCDEFGHIJKLMNOPQRSTUVWXYZ $%*+-./:"

func checkQRAlnumPair(c *Ctx, r *Report) {
	r.Rule("S-ALNUM", "the encoder's getAlphanumericCode and the decoder's toAlphaNumericChar are exact inverses on the 45 characters of ISO 18004 Table 5, the encoder maps every other byte to -1 and the decoder rejects every value >= 45", 2)
	efd, ep := c.funcDeclOf("qrcode/encoder", "getAlphanumericCode")
	dfd, dp := c.funcDeclOf("qrcode/decoder", "toAlphaNumericChar")
	if efd == nil || dfd == nil {
		r.AnchorLost("S-ALNUM", "qrcode alphanumeric pair", "getAlphanumericCode / toAlphaNumericChar not found")
		return
	}
	errHook := &rpf{callHook: errCtorHook}
	key := "qrcode/encoder.getAlphanumericCode"
	r.Analysed(key)
	bad := ""
	for ch := int64(0); ch < 256 && bad == ""; ch++ {
		res, err := c.rpfCall(efd, ep, []*Val{vint(ch)}, errHook)
		if err != nil {
			bad = "?" + err.Error()
			break
		}
		want := int64(strings.IndexByte(qrAlnum, byte(ch)))
		if len(res) != 1 || res[0].K != VInt || res[0].I != want {
			bad = fmt.Sprintf("getAlphanumericCode(%q) = %s, ISO 18004 Table 5 says %d", rune(ch), valString(res[0]), want)
		}
	}
	reportFold(r, c, "S-ALNUM", key, efd.Pos(), bad)
	key = "qrcode/decoder.toAlphaNumericChar"
	r.Analysed(key)
	bad = ""
	for v := int64(0); v < 64 && bad == ""; v++ {
		res, err := c.rpfCall(dfd, dp, []*Val{vint(v)}, errHook)
		if err != nil {
			bad = "?" + err.Error()
			break
		}
		if len(res) != 2 {
			bad = "?unexpected result shape"
			break
		}
		if v < 45 {
			if res[0].K != VInt || res[0].I != int64(qrAlnum[v]) || res[1].K != VNil {
				bad = fmt.Sprintf("toAlphaNumericChar(%d) = %s, expected %q", v, valString(res[0]), qrAlnum[v])
			}
		} else if res[1].K == VNil {
			bad = fmt.Sprintf("toAlphaNumericChar(%d) succeeds; values >= 45 are not characters", v)
		}
	}
	reportFold(r, c, "S-ALNUM", key, dfd.Pos(), bad)
}

func errCtorHook(rr *rpf, cl *ast.CallExpr, callee types.Object) (*Val, bool) {
	if f, ok := callee.(*types.Func); ok && (strings.Contains(f.Name(), "Exception") || f.Name() == "New" || f.Name() == "Errorf") {
		// (a constructor of an error value: one result that is not a plain bool / number / string - a predicate such
		// as isFormatException(e) bool is an ordinary function)
		if sig, ok := f.Type().(*types.Signature); ok && sig.Results().Len() == 1 {
			if _, basic := sig.Results().At(0).Type().Underlying().(*types.Basic); basic {
				return nil, false
			}
		}
		return vstr("error"), true
	}
	return nil, false
}

func reportFold(r *Report, c *Ctx, rule, key string, pos token.Pos, bad string) {
	if bad != "" && bad[0] == '?' {
		r.Undecided(rule, key, c.pos(pos), bad[1:])
	} else {
		r.Check(bad == "", rule, key, c.pos(pos), bad)
	}
}

// ---------------------------------------------------------------------------------------------------------------
// S-SEG: per-group arithmetic of the segment encoders and decoders as inverse transitions
// ---------------------------------------------------------------------------------------------------------------

type bitOp struct{ value, width int64 }

// firstFor returns the first for-statement of a function body.
func firstFor(fd *ast.FuncDecl) *ast.ForStmt {
	var out *ast.ForStmt
	ast.Inspect(fd.Body, func(n ast.Node) bool {
		if l, ok := n.(*ast.ForStmt); ok && out == nil {
			out = l
			return false
		}
		return out == nil
	})
	return out
}

// loopCondIdents returns the objects of the two identifiers of a loop condition `x < y` (or `x <= y`).
func loopCondIdents(p *packages.Package, l *ast.ForStmt) (types.Object, types.Object) {
	if l == nil {
		return nil, nil
	}
	be, ok := ast.Unparen(l.Cond).(*ast.BinaryExpr)
	if !ok || (be.Op != token.LSS && be.Op != token.LEQ) {
		return nil, nil
	}
	return identObj(p, be.X), identObj(p, be.Y)
}

// steppedBy finds the variable that `v += k` advances inside body.
func steppedBy(p *packages.Package, body ast.Node, k int64) types.Object {
	var out types.Object
	ast.Inspect(body, func(n ast.Node) bool {
		if as, ok := n.(*ast.AssignStmt); ok && as.Tok == token.ADD_ASSIGN && len(as.Lhs) == 1 && len(as.Rhs) == 1 && out == nil {
			if v, isK := constInt(p, as.Rhs[0]); isK && v == k {
				out = identObj(p, as.Lhs[0])
			}
		}
		return out == nil
	})
	return out
}

// firstResultOfCall finds the variable that receives the first result of the first call accepted by pred in fd.
func firstResultOfCall(p *packages.Package, fd *ast.FuncDecl, pred func(types.Object) bool) types.Object {
	var out types.Object
	ast.Inspect(fd.Body, func(n ast.Node) bool {
		if as, ok := n.(*ast.AssignStmt); ok && len(as.Rhs) == 1 && out == nil {
			if call, isC := ast.Unparen(as.Rhs[0]).(*ast.CallExpr); isC && pred(typeutil.Callee(p.TypesInfo, call)) {
				if id, isI := as.Lhs[0].(*ast.Ident); isI {
					out = p.TypesInfo.Defs[id]
					if out == nil {
						out = p.TypesInfo.Uses[id]
					}
				}
			}
		}
		return out == nil
	})
	return out
}

// runStmts folds statements under env, recording AppendBits / ReadBits traffic.
type bitTraffic struct {
	appended []bitOp
	reads    []int64
	feed     []int64 // values handed to successive ReadBits
	stores   map[int64]int64
}

func (bt *bitTraffic) hooks() *rpf {
	h := &rpf{}
	h.callHook = func(rr *rpf, call *ast.CallExpr, callee types.Object) (*Val, bool) {
		if isMethodNamed(callee, "", "BitArray", "AppendBits") && len(call.Args) == 2 {
			v, w := rr.expr(call.Args[0]), rr.expr(call.Args[1])
			if v.K != VInt || w.K != VInt {
				rpfFail("AppendBits with non-constant arguments")
			}
			bt.appended = append(bt.appended, bitOp{v.I, w.I})
			return &Val{K: VNil}, true
		}
		return errCtorHook(rr, call, callee)
	}
	h.multiHook = func(call *ast.CallExpr, callee types.Object) ([]*Val, bool) {
		if isMethodNamed(callee, "common", "BitSource", "ReadBits") && len(call.Args) == 1 {
			// the width is a constant in these loops
			return nil, false
		}
		return nil, false
	}
	h.stHook = func(rr *rpf, lhs ast.Expr, v *Val) bool {
		if ix, ok := lhs.(*ast.IndexExpr); ok {
			i := rr.expr(ix.Index)
			if i.K == VInt && v.K == VInt {
				if bt.stores == nil {
					bt.stores = map[int64]int64{}
				}
				bt.stores[i.I] = v.I
				return true
			}
		}
		return false
	}
	return h
}

func foldStmts(c *Ctx, p *packages.Package, stmts []ast.Stmt, env map[types.Object]*Val, h *rpf, bt *bitTraffic) (err error) {
	rr := &rpf{c: c, p: p, env: env, callHook: h.callHook, selHook: h.selHook, idxHook: h.idxHook, stHook: h.stHook}
	rr.multiHook = func(call *ast.CallExpr, callee types.Object) ([]*Val, bool) {
		if isMethodNamed(callee, "common", "BitSource", "ReadBits") && len(call.Args) == 1 {
			w := rr.expr(call.Args[0])
			if w.K != VInt {
				rpfFail("ReadBits with a non-constant width")
			}
			bt.reads = append(bt.reads, w.I)
			if len(bt.feed) == 0 {
				rpfFail("more ReadBits than values supplied")
			}
			v := bt.feed[0]
			bt.feed = bt.feed[1:]
			return []*Val{vint(v), {K: VNil}}, true
		}
		return nil, false
	}
	defer func() {
		if x := recover(); x != nil {
			if re, ok := x.(*rpfErr); ok {
				err = re
				return
			}
			if _, ok := x.(rpfContinue); ok {
				return
			}
			panic(x)
		}
	}()
	for _, s := range stmts {
		if ret := rr.stmtC(s); ret != nil {
			return fmt.Errorf("%s: the fold left the function (an error return on a valid group)", c.pos(s.Pos()))
		}
	}
	return nil
}

func listOfBytes(s string) *Val {
	out := &Val{K: VList}
	for i := 0; i < len(s); i++ {
		out.L = append(out.L, vint(int64(s[i])))
	}
	return out
}

func listInts(v *Val) ([]int64, bool) {
	if v == nil || v.K != VList {
		return nil, false
	}
	var out []int64
	for _, e := range v.L {
		if e.K != VInt {
			return nil, false
		}
		out = append(out, e.I)
	}
	return out, true
}

func checkQRSegments(c *Ctx, r *Report) {
	r.Rule("S-SEG", "for every group of a numeric (3/2/1 digits -> 10/7/4 bits), alphanumeric (2/1 characters -> 11/6 bits) and Kanji (one double byte -> 13 bits) segment, the encoder's loop body and the decoder's loop body / tail are inverse transitions: same field width, and the decoder reproduces exactly the characters the encoder consumed - folded over the whole finite domain of groups (1110 digit groups, 2070 character groups, every Shift_JIS double byte in 0x8140-0x9FFC and 0xE040-0xEBBF)", 3)
	// ---------- numeric
	func() {
		key := "qrcode numeric segment"
		efd, ep := c.funcDeclOf("qrcode/encoder", "appendNumericBytes")
		dfd, dp := c.funcDeclOf("qrcode/decoder", "DecodedBitStreamParser_decodeNumericSegment")
		if efd == nil || dfd == nil {
			r.AnchorLost("S-SEG", key, "appendNumericBytes / decodeNumericSegment not found")
			return
		}
		r.Analysed(key)
		eloop, dloop := firstFor(efd), firstFor(dfd)
		if eloop == nil || dloop == nil {
			r.Undecided("S-SEG", key, c.pos(efd.Pos()), "group loops not found")
			return
		}
		eps, dps := paramObjs(ep, efd), paramObjs(dp, dfd)
		iObj, lenObj := loopCondIdents(ep, eloop) // for i < length
		if iObj == nil || lenObj == nil {
			r.Undecided("S-SEG", key, c.pos(efd.Pos()), "encoder cursor variables not found")
			return
		}
		// decoder tail: statements after the loop
		var tail []ast.Stmt
		after := false
		for _, st := range dfd.Body.List {
			if after {
				if _, isRet := st.(*ast.ReturnStmt); !isRet {
					tail = append(tail, st)
				}
			}
			if st == ast.Stmt(dloop) {
				after = true
			}
		}
		bad := ""
		n := 0
		for g := 1; g <= 3 && bad == ""; g++ {
			limit := []int{0, 10, 100, 1000}[g]
			for v := 0; v < limit && bad == ""; v++ {
				digits := fmt.Sprintf("%0*d", g, v)
				n++
				bt := &bitTraffic{}
				env := map[types.Object]*Val{eps[0]: vstr(digits), iObj: vint(0), lenObj: vint(int64(g))}
				if err := foldStmts(c, ep, eloop.Body.List, env, bt.hooks(), bt); err != nil {
					bad = "?encoder: " + err.Error()
					break
				}
				if len(bt.appended) != 1 || env[iObj].K != VInt || env[iObj].I != int64(g) {
					bad = fmt.Sprintf("encoder group %q: %d fields appended, cursor advanced to %s (expected one field, %d)", digits, len(bt.appended), valString(env[iObj]), g)
					break
				}
				field := bt.appended[0]
				if field.value < 0 || field.value >= 1<<uint(field.width) {
					bad = fmt.Sprintf("encoder group %q: value %d does not fit its %d-bit field", digits, field.value, field.width)
					break
				}
				bt2 := &bitTraffic{feed: []int64{field.value}}
				denv := map[types.Object]*Val{dps[1]: {K: VList}, dps[2]: vint(int64(g))}
				stmts := tail
				if g == 3 {
					stmts = dloop.Body.List
				}
				if err := foldStmts(c, dp, stmts, denv, bt2.hooks(), bt2); err != nil {
					bad = "?decoder: " + err.Error()
					break
				}
				got, ok := listInts(denv[dps[1]])
				if !ok || len(bt2.reads) != 1 {
					bad = fmt.Sprintf("decoder group of %d digits: %d fields read", g, len(bt2.reads))
					break
				}
				if bt2.reads[0] != field.width {
					bad = fmt.Sprintf("a group of %d digits is written in %d bits but read in %d", g, field.width, bt2.reads[0])
					break
				}
				s := ""
				for _, b := range got {
					s += string(rune(b))
				}
				if s != digits {
					bad = fmt.Sprintf("digits %q are written as %d/%d bits and read back as %q", digits, field.value, field.width, s)
				}
			}
		}
		r.Extra("seg_numeric_groups", n)
		reportFold(r, c, "S-SEG", key, efd.Pos(), bad)
	}()
	// ---------- alphanumeric
	func() {
		key := "qrcode alphanumeric segment"
		efd, ep := c.funcDeclOf("qrcode/encoder", "appendAlphanumericBytes")
		dfd, dp := c.funcDeclOf("qrcode/decoder", "DecodedBitStreamParser_decodeAlphanumericSegment")
		if efd == nil || dfd == nil {
			r.AnchorLost("S-SEG", key, "appendAlphanumericBytes / decodeAlphanumericSegment not found")
			return
		}
		r.Analysed(key)
		eloop, dloop := firstFor(efd), firstFor(dfd)
		eps, dps := paramObjs(ep, efd), paramObjs(dp, dfd)
		iObj, lenObj := loopCondIdents(ep, eloop) // for i < length
		if eloop == nil || dloop == nil || iObj == nil || lenObj == nil {
			r.Undecided("S-SEG", key, c.pos(efd.Pos()), "group loops / cursor variables not found")
			return
		}
		// the single-character tail: the if statement right after the loop
		var tail []ast.Stmt
		for i, st := range dfd.Body.List {
			if st == ast.Stmt(dloop) && i+1 < len(dfd.Body.List) {
				tail = []ast.Stmt{dfd.Body.List[i+1]}
			}
		}
		bad := ""
		n := 0
		try := func(chars string) {
			n++
			g := len(chars)
			bt := &bitTraffic{}
			env := map[types.Object]*Val{eps[0]: vstr(chars), iObj: vint(0), lenObj: vint(int64(g))}
			if err := foldStmts(c, ep, eloop.Body.List, env, bt.hooks(), bt); err != nil {
				bad = "?encoder: " + err.Error()
				return
			}
			if len(bt.appended) != 1 || env[iObj].K != VInt || env[iObj].I != int64(g) {
				bad = fmt.Sprintf("encoder group %q: %d fields appended, cursor at %s", chars, len(bt.appended), valString(env[iObj]))
				return
			}
			field := bt.appended[0]
			if field.value < 0 || field.value >= 1<<uint(field.width) {
				bad = fmt.Sprintf("encoder group %q: value %d does not fit its %d-bit field", chars, field.value, field.width)
				return
			}
			bt2 := &bitTraffic{feed: []int64{field.value}}
			denv := map[types.Object]*Val{dps[1]: {K: VList}, dps[2]: vint(int64(g)), dps[3]: vbool(false)}
			stmts := tail
			if g == 2 {
				stmts = dloop.Body.List
			}
			if err := foldStmts(c, dp, stmts, denv, bt2.hooks(), bt2); err != nil {
				bad = "?decoder: " + err.Error()
				return
			}
			got, ok := listInts(denv[dps[1]])
			if !ok || len(bt2.reads) != 1 {
				bad = fmt.Sprintf("decoder group of %d characters: %d fields read", g, len(bt2.reads))
				return
			}
			if bt2.reads[0] != field.width {
				bad = fmt.Sprintf("a group of %d characters is written in %d bits but read in %d", g, field.width, bt2.reads[0])
				return
			}
			s := ""
			for _, b := range got {
				s += string(rune(b))
			}
			if s != chars {
				bad = fmt.Sprintf("characters %q are written as %d/%d bits and read back as %q", chars, field.value, field.width, s)
			}
		}
		for i := 0; i < len(qrAlnum) && bad == ""; i++ {
			try(qrAlnum[i : i+1])
			for j := 0; j < len(qrAlnum) && bad == ""; j++ {
				try(string([]byte{qrAlnum[i], qrAlnum[j]}))
			}
		}
		r.Extra("seg_alnum_groups", n)
		reportFold(r, c, "S-SEG", key, efd.Pos(), bad)
	}()
	// ---------- Kanji
	func() {
		key := "qrcode kanji segment"
		efd, ep := c.funcDeclOf("qrcode/encoder", "appendKanjiBytes")
		dfd, dp := c.funcDeclOf("qrcode/decoder", "DecodedBitStreamParser_decodeKanjiSegment")
		if efd == nil || dfd == nil {
			r.AnchorLost("S-SEG", key, "appendKanjiBytes / decodeKanjiSegment not found")
			return
		}
		r.Analysed(key)
		eloop, dloop := firstFor(efd), firstFor(dfd)
		// the Shift_JIS bytes (first result of the encoder's Bytes call), the encoder's cursor and the decoder's
		// output position (advanced by two per character)
		bytesObj := firstResultOfCall(ep, efd, func(o types.Object) bool {
			fn, ok := o.(*types.Func)
			return ok && fn.Name() == "Bytes" && fn.Pkg() != nil && strings.Contains(fn.Pkg().Path(), "golang.org/x/text")
		})
		iObj, _ := loopCondIdents(ep, eloop)
		var offObj types.Object
		if dloop != nil {
			offObj = steppedBy(dp, dloop.Body, 2)
		}
		dps := paramObjs(dp, dfd)
		if eloop == nil || dloop == nil || bytesObj == nil || iObj == nil || offObj == nil {
			r.Undecided("S-SEG", key, c.pos(efd.Pos()), "group loops / variables not found")
			return
		}
		bad := ""
		n := 0
		for hi := int64(0x81); hi <= 0xEB && bad == ""; hi++ {
			if hi > 0x9F && hi < 0xE0 {
				continue
			}
			for lo := int64(0x40); lo <= 0xFC && bad == ""; lo++ {
				code := hi<<8 | lo
				if !((code >= 0x8140 && code <= 0x9ffc) || (code >= 0xe040 && code <= 0xebbf)) {
					continue
				}
				n++
				bt := &bitTraffic{}
				env := map[types.Object]*Val{bytesObj: {K: VList, L: []*Val{vint(hi), vint(lo)}}, iObj: vint(0)}
				if err := foldStmts(c, ep, eloop.Body.List, env, bt.hooks(), bt); err != nil {
					bad = "?encoder: " + err.Error()
					break
				}
				if len(bt.appended) != 1 {
					bad = fmt.Sprintf("encoder: double byte %04X appends %d fields", code, len(bt.appended))
					break
				}
				field := bt.appended[0]
				if field.value < 0 || field.value >= 1<<uint(field.width) {
					bad = fmt.Sprintf("encoder: double byte %04X gives %d, which does not fit %d bits", code, field.value, field.width)
					break
				}
				bt2 := &bitTraffic{feed: []int64{field.value}}
				denv := map[types.Object]*Val{dps[2]: vint(1), offObj: vint(0)}
				if err := foldStmts(c, dp, dloop.Body.List, denv, bt2.hooks(), bt2); err != nil {
					bad = "?decoder: " + err.Error()
					break
				}
				if len(bt2.reads) != 1 || bt2.reads[0] != field.width {
					bad = fmt.Sprintf("a Kanji character is written in %d bits but read in %v", field.width, bt2.reads)
					break
				}
				if bt2.stores[0] != hi || bt2.stores[1] != lo {
					bad = fmt.Sprintf("double byte %04X is written as %d and read back as %02X%02X", code, field.value, bt2.stores[0], bt2.stores[1])
				}
			}
		}
		r.Extra("seg_kanji_codes", n)
		reportFold(r, c, "S-SEG", key, efd.Pos(), bad)
	}()
}

// ---------------------------------------------------------------------------------------------------------------
// S-HEADER
// ---------------------------------------------------------------------------------------------------------------

func checkQRHeader(c *Ctx, r *Report) {
	r.Rule("S-HEADER", "the mode indicator is written with AppendBits(mode.GetBits(), 4) and read with ReadBits(4) -> ModeForBits, the parser stops when fewer than 4 bits remain; the character count is written with AppendBits(n, mode.GetCharacterCountBits(version)) after rejecting n >= 2^width and read with ReadBits(mode.GetCharacterCountBits(version)) on the parsed mode and the symbol's version; ModeForBits(m.GetBits()) is m for every mode the writer emits", 4)
	// writer: mode
	if fd, p := c.funcDeclOf("qrcode/encoder", "appendModeInfo"); fd != nil {
		key := "qrcode/encoder.appendModeInfo"
		r.Analysed(key)
		ok := false
		for _, call := range findCalls(p, fd.Body, func(o types.Object) bool { return isMethodNamed(o, "", "BitArray", "AppendBits") }) {
			if w, isK := constInt(p, call.Args[1]); isK && w == 4 {
				if inner, isC := ast.Unparen(call.Args[0]).(*ast.CallExpr); isC {
					if sel, isS := inner.Fun.(*ast.SelectorExpr); isS && sel.Sel.Name == "GetBits" && identObj(p, sel.X) == paramObjs(p, fd)[0] {
						ok = true
					}
				}
			}
		}
		r.Check(ok, "S-HEADER", key, c.pos(fd.Pos()), "the mode indicator must be the mode's 4 indicator bits")
	} else {
		r.AnchorLost("S-HEADER", "qrcode/encoder.appendModeInfo", "function not found")
	}
	// writer: count
	if fd, p := c.funcDeclOf("qrcode/encoder", "appendLengthInfo"); fd != nil {
		key := "qrcode/encoder.appendLengthInfo"
		r.Analysed(key)
		ps := paramObjs(p, fd)
		s := c.newSymExec(p)
		s.pure = func(o types.Object) bool {
			fn, ok := o.(*types.Func)
			return ok && fn.Name() == "GetCharacterCountBits"
		}
		s.block(fd.Body.List)
		bad := "the count must be appended with the width mode.GetCharacterCountBits(version)"
		for _, cl := range s.calls {
			if isMethodNamed(cl.Callee, "", "BitArray", "AppendBits") && len(cl.Args) == 2 {
				w := cl.Args[1].String()
				wantW := "call:(*qrcode/decoder.Mode).GetCharacterCountBits(" + polyAtom(objAtom(ps[2])).String() + ";" + polyAtom(objAtom(ps[1])).String() + ")"
				if cl.Args[0].equal(polyAtom(objAtom(ps[0]))) && w == wantW {
					bad = "a count that does not fit the field must be rejected before it is written (numLetters >= 1 << width)"
					for _, cd := range cl.Conds {
						// reached under !(n >= 1<<w)
						if l, _, strict, ok := cd.lessForm(); ok && strict && l.equal(polyAtom(objAtom(ps[0]))) {
							bad = ""
						}
					}
				}
			}
		}
		r.Check(bad == "", "S-HEADER", key, c.pos(fd.Pos()), bad)
	} else {
		r.AnchorLost("S-HEADER", "qrcode/encoder.appendLengthInfo", "function not found")
	}
	// reader
	fd, p := c.funcDeclOf("qrcode/decoder", "DecodedBitStreamParser_Decode")
	if fd == nil {
		r.AnchorLost("S-HEADER", "qrcode/decoder.DecodedBitStreamParser_Decode", "function not found")
		return
	}
	key := "qrcode/decoder.DecodedBitStreamParser_Decode"
	r.Analysed(key)
	ps := paramObjs(p, fd)
	var modeObj types.Object
	okMode, okTerm := false, false
	ast.Inspect(fd.Body, func(n ast.Node) bool {
		switch x := n.(type) {
		case *ast.AssignStmt:
			if len(x.Rhs) == 1 {
				if call, isC := x.Rhs[0].(*ast.CallExpr); isC && isFuncNamed(typeutil.Callee(p.TypesInfo, call), "qrcode/decoder", "ModeForBits") && len(call.Args) == 1 {
					// the argument is the variable assigned from ReadBits(4)
					arg := identObj(p, call.Args[0])
					modeObj = identObj(p, x.Lhs[0])
					ast.Inspect(fd.Body, func(m ast.Node) bool {
						if as, isA := m.(*ast.AssignStmt); isA && len(as.Rhs) == 1 && identObj(p, as.Lhs[0]) == arg && arg != nil {
							if rc, isRC := as.Rhs[0].(*ast.CallExpr); isRC && isMethodNamed(typeutil.Callee(p.TypesInfo, rc), "common", "BitSource", "ReadBits") {
								if w, isK := constInt(p, rc.Args[0]); isK && w == 4 {
									okMode = true
								}
							}
						}
						return true
					})
				}
			}
		case *ast.IfStmt:
			if be, isB := ast.Unparen(x.Cond).(*ast.BinaryExpr); isB && be.Op == token.LSS {
				if call, isC := ast.Unparen(be.X).(*ast.CallExpr); isC && isMethodNamed(typeutil.Callee(p.TypesInfo, call), "common", "BitSource", "Available") {
					if w, isK := constInt(p, be.Y); isK && w == 4 {
						okTerm = true
					}
				}
			}
		}
		return true
	})
	r.Check(okMode && okTerm && modeObj != nil, "S-HEADER", key+"/mode", c.pos(fd.Pos()), fmt.Sprintf("the parser must read the 4-bit mode indicator into ModeForBits (%v) and treat fewer than 4 remaining bits as the terminator (%v)", okMode, okTerm))
	// count reads
	nCount, badCount := 0, ""
	for _, rc := range findCalls(p, fd.Body, func(o types.Object) bool { return isMethodNamed(o, "common", "BitSource", "ReadBits") }) {
		inner, isC := ast.Unparen(rc.Args[0]).(*ast.CallExpr)
		if !isC {
			continue
		}
		sel, isS := inner.Fun.(*ast.SelectorExpr)
		if !isS || sel.Sel.Name != "GetCharacterCountBits" {
			continue
		}
		nCount++
		if identObj(p, sel.X) != modeObj || len(inner.Args) != 1 || identObj(p, inner.Args[0]) != ps[1] {
			badCount = c.pos(rc.Pos()) + ": the count width must be mode.GetCharacterCountBits(version) of the parsed mode and this symbol's version"
		}
	}
	if nCount == 0 {
		badCount = "no character-count read found"
	}
	r.Check(badCount == "", "S-HEADER", key+"/count", c.pos(fd.Pos()), badCount)
	// ModeForBits inverse on the modes the writer emits
	mfd, mp := c.funcDeclOf("qrcode/decoder", "ModeForBits")
	if mfd == nil {
		r.AnchorLost("S-HEADER", "qrcode/decoder.ModeForBits", "function not found")
		return
	}
	r.Analysed("qrcode/decoder.ModeForBits")
	bad := ""
	for _, name := range []string{"Mode_NUMERIC", "Mode_ALPHANUMERIC", "Mode_BYTE", "Mode_KANJI", "Mode_ECI", "Mode_FNC1_FIRST_POSITION", "Mode_TERMINATOR"} {
		init, ip := c.varInit("qrcode/decoder", name)
		if init == nil {
			bad = "?mode " + name + " not found"
			break
		}
		mv := c.eval(ip, init)
		bitsV := modeBits(mv)
		if bitsV < 0 {
			bad = "?mode " + name + " is not a literal NewMode(...)"
			break
		}
		obj := mp.Types.Scope().Lookup(name)
		res, err := c.rpfCall(mfd, mp, []*Val{vint(bitsV)}, &rpf{callHook: errCtorHook, selHook: nil, env: map[types.Object]*Val{}, idxHook: nil})
		_ = obj
		if err != nil {
			bad = "?" + err.Error()
			break
		}
		if len(res) != 2 || res[1].K != VNil {
			bad = fmt.Sprintf("ModeForBits(%d) fails although the writer emits %s with these indicator bits", bitsV, name)
			break
		}
		if got := modeBits(res[0]); got != bitsV {
			bad = fmt.Sprintf("ModeForBits(%d) returns a mode whose indicator is %d (writer emitted %s)", bitsV, got, name)
			break
		}
		if !sameModeWidths(res[0], mv) {
			bad = fmt.Sprintf("ModeForBits(%d) returns a mode with other count widths than %s", bitsV, name)
			break
		}
	}
	reportFold(r, c, "S-HEADER", "qrcode/decoder.ModeForBits", mfd.Pos(), bad)
}

// modeBits extracts the indicator of a folded NewMode(widths, bits) value.
func modeBits(v *Val) int64 {
	if v == nil {
		return -1
	}
	if v.K == VCall && len(v.L) == 2 && v.L[1].K == VInt {
		return v.L[1].I
	}
	if v.K == VStruct {
		if f := v.Fields["bits"]; f != nil && f.K == VInt {
			return f.I
		}
	}
	return -1
}

func sameModeWidths(a, b *Val) bool {
	w := func(v *Val) string {
		if v.K == VCall && len(v.L) == 2 {
			if xs, ok := v.L[0].ints(); ok {
				return fmt.Sprint(xs)
			}
		}
		if v.K == VStruct {
			if f := v.Fields["characterCountBitsForVersions"]; f != nil {
				if xs, ok := f.ints(); ok {
					return fmt.Sprint(xs)
				}
			}
		}
		return "?"
	}
	return w(a) == w(b) && w(a) != "?"
}

// ---------------------------------------------------------------------------------------------------------------
// S-COUNT: what the character count counts
// ---------------------------------------------------------------------------------------------------------------

func checkQRCounts(c *Ctx, r *Report) {
	r.Rule("S-COUNT", "the count written for the main segment counts what the reader consumes per unit: bytes for byte mode (dataBits.GetSizeInBytes()), characters for Kanji, input length otherwise; the byte-segment reader consumes exactly `count` 8-bit fields after checking 8*count against the available bits, the Kanji reader 13*count", 3)
	fd, p := c.funcDeclOf("qrcode/encoder", "Encoder_encode")
	if fd == nil {
		r.AnchorLost("S-COUNT", "qrcode/encoder.Encoder_encode", "function not found")
	} else {
		key := "qrcode/encoder.Encoder_encode/numLetters"
		r.Analysed(key)
		calls := findCalls(p, fd.Body, func(o types.Object) bool { return isFuncNamed(o, "qrcode/encoder", "appendLengthInfo") })
		bad := ""
		if len(calls) != 1 {
			bad = "expected one appendLengthInfo call"
		} else {
			nObj := identObj(p, calls[0].Args[0])
			contentObj := paramObjs(p, fd)[0]
			seenLen, seenByte, seenKanji := false, false, false
			ast.Inspect(fd.Body, func(n ast.Node) bool {
				as, ok := n.(*ast.AssignStmt)
				if !ok || len(as.Lhs) != 1 || identObj(p, as.Lhs[0]) != nObj || nObj == nil {
					return true
				}
				rhs := ast.Unparen(as.Rhs[0])
				gi, _ := guardsOf(fd.Body, as)
				under := ""
				for _, e := range gi.Enclosing {
					if ifs, isI := e.Node.(*ast.IfStmt); isI && e.Branch {
						under = exprString(ifs.Cond)
					}
				}
				call, isC := rhs.(*ast.CallExpr)
				switch {
				case isC && isBuiltin(typeutil.Callee(p.TypesInfo, call), "len") && identObj(p, call.Args[0]) == contentObj && under == "":
					seenLen = true
				case isC && strings.HasSuffix(under, "Mode_BYTE") && strings.Contains(under, "=="):
					if sel, isS := call.Fun.(*ast.SelectorExpr); isS && sel.Sel.Name == "GetSizeInBytes" {
						seenByte = true
					} else {
						bad = "in byte mode the count must be the number of encoded bytes"
					}
				case isC && strings.HasSuffix(under, "Mode_KANJI") && strings.Contains(under, "=="):
					if fn, isF := typeutil.Callee(p.TypesInfo, call).(*types.Func); isF && fn.Name() == "RuneCountInString" && identObj(p, call.Args[0]) == contentObj {
						seenKanji = true
					} else {
						bad = "in Kanji mode the count must be the number of characters"
					}
				default:
					bad = "unexpected assignment to the character count at " + c.pos(as.Pos())
				}
				return true
			})
			if bad == "" && !(seenLen && seenByte && seenKanji) {
				bad = fmt.Sprintf("count sources: len(content) %v, byte-mode bytes %v, Kanji characters %v", seenLen, seenByte, seenKanji)
			}
			// the data written after the count is the same dataBits whose size was counted
			if bad == "" {
				// byte-mode source object
				var sized types.Object
				ast.Inspect(fd.Body, func(n ast.Node) bool {
					if call, ok := n.(*ast.CallExpr); ok {
						if sel, isS := call.Fun.(*ast.SelectorExpr); isS && sel.Sel.Name == "GetSizeInBytes" {
							sized = identObj(p, sel.X)
						}
					}
					return true
				})
				okAppend := false
				for _, call := range findCalls(p, fd.Body, func(o types.Object) bool { return isMethodNamed(o, "", "BitArray", "AppendBitArray") }) {
					if call.Pos() > calls[0].End() && identObj(p, call.Args[0]) == sized && sized != nil {
						okAppend = true
					}
				}
				if !okAppend {
					bad = "the bits appended after the count must be the very dataBits whose byte size was counted"
				}
			}
		}
		r.Check(bad == "", "S-COUNT", key, c.pos(fd.Pos()), bad)
	}
	for _, t := range []struct {
		fn    string
		width int64
	}{{"DecodedBitStreamParser_decodeByteSegment", 8}, {"DecodedBitStreamParser_decodeKanjiSegment", 13}} {
		fd, p := c.funcDeclOf("qrcode/decoder", t.fn)
		key := "qrcode/decoder." + t.fn
		if fd == nil {
			r.AnchorLost("S-COUNT", key, "function not found")
			continue
		}
		r.Analysed(key)
		countObj := paramObjs(p, fd)[2]
		s := c.newSymExec(p)
		s.pure = func(o types.Object) bool { fn, ok := o.(*types.Func); return ok && fn.Name() == "Available" }
		s.block(fd.Body.List)
		cnt := polyAtom(objAtom(countObj))
		okGuard, okRead := false, false
		for _, rt := range s.rets {
			for _, cd := range rt.Conds {
				if l, rr, strict, ok := cd.lessForm(); ok && strict && rr.equal(cnt.mul(polyInt(t.width))) && strings.Contains(l.String(), "Available") {
					okGuard = true
				}
			}
		}
		for _, cl := range s.calls {
			if isMethodNamed(cl.Callee, "common", "BitSource", "ReadBits") && len(cl.Args) == 1 && cl.Args[0].equal(polyInt(t.width)) {
				// inside a loop that runs count times: for i < count, or for count > 0 with count--
				for _, cd := range cl.Conds {
					l, rr, strict, ok := cd.lessForm()
					if !ok || !strict {
						continue
					}
					if rr.equal(cnt) && len(kAtomsOf(l)) == 1 {
						okRead = true
					}
					if lc, isC := l.isConst(); isC && lc.Sign() == 0 && strings.Contains(rr.String(), countObj.Name()) {
						okRead = true
					}
				}
			}
		}
		// `for count > 0 { ...; count-- }`
		if !okRead {
			if l := firstFor(fd); l != nil && l.Init == nil && l.Post == nil {
				if be, isB := ast.Unparen(l.Cond).(*ast.BinaryExpr); isB && be.Op == token.LSS && identObj(p, be.Y) == countObj { // 0 < count (comparisons are canonicalised at load time)
					if z, isK := constInt(p, be.X); isK && z == 0 {
						dec := 0
						for _, st := range l.Body.List {
							if inc, isInc := st.(*ast.IncDecStmt); isInc && inc.Tok == token.DEC && identObj(p, inc.X) == countObj {
								dec++
							}
						}
						nReads := len(findCalls(p, l.Body, func(o types.Object) bool { return isMethodNamed(o, "common", "BitSource", "ReadBits") }))
						okRead = dec == 1 && nReads == 1 && countAssignsAST(p, l.Body, countObj) == 1
					}
				}
			}
		}
		r.Check(okGuard && okRead, "S-COUNT", key, c.pos(fd.Pos()), fmt.Sprintf("must reject %d*count > Available() (%v) and then read exactly count fields of %d bits (%v)", t.width, okGuard, t.width, okRead))
	}
}

func countAssignsAST(p *packages.Package, body ast.Node, obj types.Object) int {
	n := 0
	ast.Inspect(body, func(nd ast.Node) bool {
		switch x := nd.(type) {
		case *ast.AssignStmt:
			for _, l := range x.Lhs {
				if identObj(p, l) == obj {
					n++
				}
			}
		case *ast.IncDecStmt:
			if identObj(p, x.X) == obj {
				n++
			}
		}
		return true
	})
	return n
}

// ---------------------------------------------------------------------------------------------------------------
// S-AXIS: pure-barcode extraction keeps x with width and y with height
// ---------------------------------------------------------------------------------------------------------------

// axisLint infers, inside one function, which integer variables are x-coordinates, y-coordinates, the image width or
// the image height (seeds: point[0] / point[1], GetWidth() / GetHeight(); propagation through sums and differences
// by the first operand that has an axis) and reports comparisons and Get/Set calls that mix the two axes.
func axisLint(c *Ctx, fd *ast.FuncDecl, p *packages.Package) (checked int, bad string) {
	axis := map[types.Object]byte{} // 'x', 'y', 'W', 'H'
	var exprAxis func(e ast.Expr) byte
	exprAxis = func(e ast.Expr) byte {
		e = ast.Unparen(e)
		switch x := e.(type) {
		case *ast.Ident:
			return axis[identObj(p, x)]
		case *ast.IndexExpr:
			if t, ok := p.TypesInfo.TypeOf(x.X).Underlying().(*types.Slice); ok && isIntT(t.Elem()) {
				if k, isK := constInt(p, x.Index); isK {
					if k == 0 {
						return 'x'
					}
					if k == 1 {
						return 'y'
					}
				}
			}
		case *ast.CallExpr:
			if ftv, ok := p.TypesInfo.Types[x.Fun]; ok && ftv.IsType() && len(x.Args) == 1 {
				return exprAxis(x.Args[0])
			}
			if fn, ok := typeutil.Callee(p.TypesInfo, x).(*types.Func); ok && isMethodNamed(fn, "", "BitMatrix", fn.Name()) {
				switch fn.Name() {
				case "GetWidth":
					return 'W'
				case "GetHeight":
					return 'H'
				}
			}
		case *ast.BinaryExpr:
			if x.Op == token.ADD || x.Op == token.SUB {
				if a := exprAxis(x.X); a != 0 {
					return a
				}
				return exprAxis(x.Y)
			}
		}
		return 0
	}
	// two passes so that later definitions see earlier ones regardless of traversal details
	for pass := 0; pass < 2; pass++ {
		ast.Inspect(fd.Body, func(n ast.Node) bool {
			as, ok := n.(*ast.AssignStmt)
			if !ok || len(as.Lhs) != len(as.Rhs) {
				return true
			}
			for i, l := range as.Lhs {
				o := identObj(p, l)
				if o == nil || !isIntT(o.Type()) {
					continue
				}
				if _, has := axis[o]; has {
					continue
				}
				if a := exprAxis(as.Rhs[i]); a != 0 && (as.Tok == token.DEFINE || as.Tok == token.ASSIGN) {
					axis[o] = a
				}
			}
			return true
		})
	}
	compat := func(a, b byte) bool {
		if a == 0 || b == 0 {
			return true
		}
		norm := func(z byte) byte {
			if z == 'W' {
				return 'x'
			}
			if z == 'H' {
				return 'y'
			}
			return z
		}
		return norm(a) == norm(b)
	}
	ast.Inspect(fd.Body, func(n ast.Node) bool {
		switch x := n.(type) {
		case *ast.BinaryExpr:
			switch x.Op {
			case token.LSS, token.LEQ, token.GTR, token.GEQ, token.EQL, token.NEQ:
				a, b := exprAxis(x.X), exprAxis(x.Y)
				if a != 0 && b != 0 {
					checked++
					// lengths along different axes may be compared (`bottom-top != right-left`): only a coordinate
					// against the image extent of the other axis is wrong
					if (a == 'W' || a == 'H' || b == 'W' || b == 'H') && !compat(a, b) && bad == "" {
						bad = fmt.Sprintf("%s: `%s` compares a %c-axis value with the image's %s", c.pos(x.Pos()), exprString(x), map[bool]byte{true: a, false: b}[a == 'x' || a == 'y'], map[byte]string{'W': "width", 'H': "height", 'x': "x", 'y': "y"}[map[bool]byte{true: b, false: a}[a == 'x' || a == 'y']])
					}
				}
			}
		case *ast.CallExpr:
			callee := typeutil.Callee(p.TypesInfo, x)
			if (isMethodNamed(callee, "", "BitMatrix", "Get") || isMethodNamed(callee, "", "BitMatrix", "Set")) && len(x.Args) == 2 {
				a, b := exprAxis(x.Args[0]), exprAxis(x.Args[1])
				if a != 0 || b != 0 {
					checked++
				}
				if (a == 'y' || a == 'H' || b == 'x' || b == 'W') && bad == "" {
					bad = fmt.Sprintf("%s: `%s` passes a %s as the %s coordinate", c.pos(x.Pos()), exprString(x), map[bool]string{true: "y-axis value", false: "x-axis value"}[a == 'y' || a == 'H'], map[bool]string{true: "x", false: "y"}[a == 'y' || a == 'H'])
				}
			}
		}
		return true
	})
	return checked, bad
}

func checkPureAxis(c *Ctx, r *Report, targets [][2]string) {
	r.Rule("S-AXIS", "in the pure-barcode extraction (extractPureBits, moduleSize) x-coordinates - values derived from point[0] - are compared only with the image width and passed only as the first coordinate, y-coordinates - derived from point[1] - only with the height and as the second coordinate: non-square renderings are read like square ones", len(targets))
	for _, t := range targets {
		fd, p := c.funcDeclOf(t[0], t[1])
		key := t[0] + "." + t[1]
		if fd == nil {
			r.AnchorLost("S-AXIS", key, "function not found")
			continue
		}
		r.Analysed(key)
		n, bad := axisLint(c, fd, p)
		if n == 0 {
			r.Undecided("S-AXIS", key, c.pos(fd.Pos()), "no axis-typed comparison or pixel access recognised")
			continue
		}
		r.Check(bad == "", "S-AXIS", key, c.pos(fd.Pos()), bad)
	}
}

// S-MODESEL: the mode chosen for a content can hold it
func checkQRChooseMode(c *Ctx, r *Report) {
	r.Rule("S-MODESEL", "chooseMode (without the Shift_JIS hint), folded for the empty string, every single byte and every pair of a byte with a representative of each character class in both orders, and texts of characters above U+007F whose code points end in the byte of a digit or an alphanumeric character, returns numeric exactly for all-digit content, alphanumeric exactly for content of the 45 ISO characters with at least one non-digit, and byte mode otherwise - a mode is never selected that cannot hold a character of the content", 1)
	fd, p := c.funcDeclOf("qrcode/encoder", "chooseMode")
	key := "qrcode/encoder.chooseMode"
	if fd == nil {
		r.AnchorLost("S-MODESEL", key, "function not found")
		return
	}
	r.Analysed(key)
	const alnum = "0123456789ABCDEFGHIJKLMNOPQRSTUVWXYZ $%*+-./:"
	want := func(s string) string {
		if s == "" {
			return "Mode_BYTE"
		}
		allDigit, allAl := true, true
		for i := 0; i < len(s); i++ {
			ch := s[i]
			if ch < '0' || ch > '9' {
				allDigit = false
			}
			if !strings.ContainsRune(alnum, rune(ch)) || ch >= 0x80 {
				allAl = false
			}
		}
		switch {
		case allDigit:
			return "Mode_NUMERIC"
		case allAl:
			return "Mode_ALPHANUMERIC"
		}
		return "Mode_BYTE"
	}
	env := map[types.Object]*Val{}
	if o := c.lookupObj("common", "StringUtils_SHIFT_JIS_CHARSET"); o != nil {
		env[o] = vstr("var:SJIS")
	}
	var inputs []string
	inputs = append(inputs, "")
	reps := []byte{'0', '5', '9', 'A', 'Z', ' ', '$', '%', '*', '+', '-', '.', '/', ':', 'a', 'z', 0, 0x1f, '!', '#', ',', ';', '@', '[', '`', 0x7f, 0x80, 0xe9, 0xff}
	for b := 0; b < 256; b++ {
		inputs = append(inputs, string([]byte{byte(b)}))
		for _, rp := range reps {
			inputs = append(inputs, string([]byte{byte(b), rp}), string([]byte{rp, byte(b)}))
		}
	}
	// well-formed characters above U+007F whose code point ends in the byte of an alphanumeric character or a digit
	// (U+0433 ends in '3', U+0141 in 'A', U+0131 in '1'): a classification by the low byte of the rune takes them for it
	inputs = append(inputs, "\u0433", "\u0141\u0150", "\u0131", "A\u0433", "\u0433\u0434\u0435", "7\u0141", "\u0131\u0132", "\u0433 \u0435\u0434\u0430")
	bad := ""
	for _, in := range inputs {
		h := &rpf{unroll: 100, env: env}
		h.selHook = func(rr *rpf, sel *ast.SelectorExpr) (*Val, bool) {
			if strings.HasPrefix(sel.Sel.Name, "Mode_") {
				return vstr(sel.Sel.Name), true
			}
			if sel.Sel.Name == "StringUtils_SHIFT_JIS_CHARSET" {
				return vstr("var:SJIS"), true
			}
			return nil, false
		}
		res, err := c.rpfCall(fd, p, []*Val{vstr(in), vstr("enc:other")}, h)
		if err != nil {
			bad = "?" + err.Error()
			break
		}
		if len(res) != 1 || res[0].K != VStr || res[0].S != want(in) {
			got := "?"
			if len(res) == 1 && res[0].K == VStr {
				got = res[0].S
			}
			bad = fmt.Sprintf("chooseMode(%q) selects %s; the content needs %s", in, got, want(in))
			break
		}
	}
	r.Extra("S-MODESEL inputs", len(inputs))
	reportFold(r, c, "S-MODESEL", key, fd.Pos(), bad)
}
