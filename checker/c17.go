package main

import (
	"fmt"
	"go/ast"
	"go/token"
	"go/types"
	"math"
	"regexp"
	"sort"
	"strings"

	"golang.org/x/tools/go/packages"
	"golang.org/x/tools/go/types/typeutil"
)

func init() {
	registerProp("C17", "Luminance views are consistent and bilevel images binarise exactly", checkC17)
}

func checkC17(c *Ctx, r *Report) {
	checkCropGuards(c, r)
	checkRowGuards(c, r)
	checkViewPassThrough(c, r)
	checkViewOffsets(c, r)
	checkRotate(c, r)
	checkInvert(c, r)
	checkLuma(c, r)
	checkImageRead(c, r)
	checkYUVMirror(c, r)
	checkBinarizerConstants(c, r)
	checkHybridGuard(c, r)
	checkPixelMaps(c, r)
	checkThresholds(c, r)
	checkBlackPointBilevel(c, r)
	checkBlackPointEstimator(c, r)
	checkSharpen(c, r)
	checkMatrixCache(c, r)
	checkRowAlias(c, r)
	checkHistogramInit(c, r)
	runEDrop(c, r, []string{""}, 3)
	r.Note("decided: the structural part of the view algebra (guards, offsets, index maps, wrappers) and of the two binarisers (block geometry, pixel/coordinate agreement, comparators, constants, cache discipline). Not decided: pixel-wise equality on concrete images, the histogram valley search and the 5x5 averaging arithmetic as numerical results; exact binarisation of bilevel images is argued from the checked comparators and constants, not computed")
}

// ---------------------------------------------------------------------------------------------------------------
// S-CROP: fold the rejection guards of each crop entry over a grid of (receiver offsets, rectangle)
// ---------------------------------------------------------------------------------------------------------------

type viewFields struct {
	left, top, dataWidth, dataHeight int64
}

func (v viewFields) hooks() *rpf {
	return &rpf{
		selHook: func(rr *rpf, sel *ast.SelectorExpr) (*Val, bool) {
			switch sel.Sel.Name {
			case "left":
				return vint(v.left), true
			case "top":
				return vint(v.top), true
			case "dataWidth":
				return vint(v.dataWidth), true
			case "dataHeight":
				return vint(v.dataHeight), true
			case "yuvData", "luminances":
				return &Val{K: VNil}, true
			}
			return nil, false
		},
	}
}

// guardFires folds the leading guards of fd under env; a tail call `return f(args)` to a repository function is followed.
// It returns whether an error-returning guard fired before anything else happened.
func guardFires(c *Ctx, fd *ast.FuncDecl, p *packages.Package, env map[types.Object]*Val, h *rpf, depth int) (fired bool, err string) {
	rr := &rpf{c: c, p: p, env: env, callHook: h.callHook, selHook: h.selHook}
	var next *ast.FuncDecl
	var nextEnv map[types.Object]*Val
	func() {
		defer func() {
			if y := recover(); y != nil {
				if re, ok := y.(*rpfErr); ok {
					err = re.Error()
					return
				}
				panic(y)
			}
		}()
		for _, st := range fd.Body.List {
			switch x := st.(type) {
			case *ast.IfStmt:
				if !terminates(x.Body.List) || x.Init != nil {
					return
				}
				cv, cerr := rr.tryExpr(x.Cond)
				if cerr != nil || cv.K != VBool {
					if blockReturnsError(p, x.Body.List, nil) {
						rpfFail("%s: guard condition not decidable", c.pos(x.Cond.Pos()))
					}
					return
				}
				if cv.B {
					fired = blockReturnsError(p, x.Body.List, nil)
					return
				}
			case *ast.AssignStmt:
				if x.Tok != token.DEFINE {
					return
				}
				// only integer temporaries are folded; anything else ends the guard prefix
				for _, rhs := range x.Rhs {
					if !isIntT(p.TypesInfo.TypeOf(rhs)) {
						return
					}
				}
				// a temporary that cannot be folded stays unbound; a later guard that needs it is reported undecided
				func() {
					defer func() {
						if y := recover(); y != nil {
							if _, ok := y.(*rpfErr); !ok {
								panic(y)
							}
						}
					}()
					rr.stmt(x)
				}()
			case *ast.ReturnStmt:
				if len(x.Results) != 1 || depth > 2 {
					return
				}
				call, ok := ast.Unparen(x.Results[0]).(*ast.CallExpr)
				if !ok {
					return
				}
				fn, ok := typeutil.Callee(p.TypesInfo, call).(*types.Func)
				if !ok || c.funcDecl[fn] == nil || c.funcDecl[fn].Recv != nil {
					return
				}
				cfd := c.funcDecl[fn]
				cp := c.declPkg[cfd]
				ps := paramObjs(cp, cfd)
				if len(ps) != len(call.Args) {
					return
				}
				nextEnv = map[types.Object]*Val{}
				for i, a := range call.Args {
					nextEnv[ps[i]] = rr.expr(a)
				}
				next = cfd
				return
			default:
				return
			}
		}
	}()
	if err != "" || fired || next == nil {
		return fired, err
	}
	return guardFires(c, next, c.declPkg[next], nextEnv, h, depth+1)
}

func checkCropGuards(c *Ctx, r *Report) {
	r.Rule("S-CROP", "every crop entry (RGBLuminanceSource.Crop, PlanarYUVLuminanceSource.Crop, NewPlanarYUVLuminanceSource) returns an error, before constructing anything, exactly when the rectangle has a negative origin, a negative width or height (which would let an origin beyond the data through the extent test and crash later) or its absolute extent (the receiver's own left/top offset included) leaves the underlying data: the guards, followed through tail delegation, are folded over a grid of receiver offsets and rectangles that includes origins and sizes next to the largest integer (where origin + size wraps round)", 3)
	const big = int64(math.MaxInt64)
	lefts := []int64{-3, -1, 0, 1, 3, 7, 8, 20, big}
	tops := []int64{-2, -1, 0, 1, 2, 6, 7, big - 1}
	widths := []int64{-15, -1, 1, 2, 5, 7, 8, 10, big, big - 4}
	heights := []int64{-6, -1, 1, 2, 5, 6, 7, 8, big}
	// the rectangle (origin o, size n, both non-negative) leaves data of size d seen through a view at offset off:
	// decided without forming o + n, which wraps round for sizes near the largest integer
	leaves := func(off, o, n, d int64) bool { return o > d-off || n > d-off-o }
	views := []viewFields{{0, 0, 10, 8}, {2, 1, 10, 8}, {5, 4, 10, 8}}
	for _, t := range []string{"RGBLuminanceSource.Crop", "PlanarYUVLuminanceSource.Crop"} {
		key := "gozxing." + t
		fd, p := c.funcDeclOf("", t)
		if fd == nil {
			r.AnchorLost("S-CROP", key, "method not found")
			continue
		}
		r.Analysed(key)
		ps := paramObjs(p, fd)
		if len(ps) != 4 {
			r.Undecided("S-CROP", key, c.pos(fd.Pos()), "Crop no longer takes (left, top, width, height)")
			continue
		}
		bad := ""
		n := 0
	grid:
		for _, v := range views {
			for _, l := range lefts {
				for _, tp := range tops {
					for _, w := range widths {
						for _, h := range heights {
							env := map[types.Object]*Val{ps[0]: vint(l), ps[1]: vint(tp), ps[2]: vint(w), ps[3]: vint(h)}
							fired, err := guardFires(c, fd, p, env, v.hooks(), 0)
							n++
							if err != "" {
								bad = "?" + err
								break grid
							}
							invalid := l < 0 || tp < 0 || w < 0 || h < 0 || leaves(v.left, l, w, v.dataWidth) || leaves(v.top, tp, h, v.dataHeight)
							if fired != invalid {
								bad = fmt.Sprintf("view at offset (%d,%d) of %dx%d data, Crop(%d,%d,%d,%d): rejected=%v but the rectangle is %s", v.left, v.top, v.dataWidth, v.dataHeight, l, tp, w, h, fired, map[bool]string{true: "outside the data, has a negative origin or a negative size", false: "inside the data"}[invalid])
								break grid
							}
						}
					}
				}
			}
		}
		if bad != "" && bad[0] == '?' {
			r.Undecided("S-CROP", key, c.pos(fd.Pos()), bad[1:])
		} else {
			r.Check(bad == "", "S-CROP", key, c.pos(fd.Pos()), bad)
		}
		r.Extra("crop_grid_points_"+t, n)
	}
	// the exported constructor takes the absolute rectangle
	key := "gozxing.NewPlanarYUVLuminanceSource"
	fd, p := c.funcDeclOf("", "NewPlanarYUVLuminanceSource")
	if fd == nil {
		r.AnchorLost("S-CROP", key, "constructor not found")
		return
	}
	r.Analysed(key)
	ps := paramObjs(p, fd)
	if len(ps) != 8 {
		r.Undecided("S-CROP", key, c.pos(fd.Pos()), "constructor signature changed")
		return
	}
	bad := ""
grid2:
	for _, l := range lefts {
		for _, tp := range tops {
			for _, w := range widths {
				for _, h := range heights {
					env := map[types.Object]*Val{ps[0]: {K: VNil}, ps[1]: vint(10), ps[2]: vint(8), ps[3]: vint(l), ps[4]: vint(tp), ps[5]: vint(w), ps[6]: vint(h), ps[7]: vbool(false)}
					fired, err := guardFires(c, fd, p, env, viewFields{}.hooks(), 0)
					if err != "" {
						bad = "?" + err
						break grid2
					}
					invalid := l < 0 || tp < 0 || w < 0 || h < 0 || leaves(0, l, w, 10) || leaves(0, tp, h, 8)
					if fired != invalid {
						bad = fmt.Sprintf("10x8 data, rectangle (%d,%d,%d,%d): rejected=%v, contract says %v", l, tp, w, h, fired, invalid)
						break grid2
					}
				}
			}
		}
	}
	if bad != "" && bad[0] == '?' {
		r.Undecided("S-CROP", key, c.pos(fd.Pos()), bad[1:])
	} else {
		r.Check(bad == "", "S-CROP", key, c.pos(fd.Pos()), bad)
	}
}

// ---------------------------------------------------------------------------------------------------------------
// S-ROW: GetRow rejects rows outside the view before reading
// ---------------------------------------------------------------------------------------------------------------

func checkRowGuards(c *Ctx, r *Report) {
	r.Rule("S-ROW", "every GetRow that reads pixel storage returns an error exactly for y < 0 or y >= the view's height, before the read; the inverting wrapper returns the delegate's error before touching the row", 3)
	for _, t := range []string{"RGBLuminanceSource", "PlanarYUVLuminanceSource"} {
		key := "gozxing." + t + ".GetRow"
		fd, p := c.funcDeclOf("", t+".GetRow")
		if fd == nil {
			r.AnchorLost("S-ROW", key, "method not found")
			continue
		}
		r.Analysed(key)
		ps := paramObjs(p, fd)
		bad := ""
		for _, hgt := range []int64{1, 4} {
			for _, y := range []int64{-2, -1, 0, 1, 3, 4, 5} {
				h := &rpf{callHook: func(rr *rpf, call *ast.CallExpr, callee types.Object) (*Val, bool) {
					if fn, ok := callee.(*types.Func); ok && fn.Name() == "GetHeight" {
						return vint(hgt), true
					}
					return nil, false
				}, selHook: func(rr *rpf, sel *ast.SelectorExpr) (*Val, bool) {
					if sel.Sel.Name == "Height" {
						return vint(hgt), true
					}
					return nil, false
				}}
				fired, err := guardFires(c, fd, p, map[types.Object]*Val{ps[0]: vint(y), ps[1]: {K: VNil}}, h, 0)
				if err != "" {
					bad = "?" + err
					break
				}
				if invalid := y < 0 || y >= hgt; fired != invalid {
					bad = fmt.Sprintf("view of height %d, GetRow(%d): rejected=%v, contract says %v", hgt, y, fired, invalid)
					break
				}
			}
			if bad != "" {
				break
			}
		}
		if bad != "" && bad[0] == '?' {
			r.Undecided("S-ROW", key, c.pos(fd.Pos()), bad[1:])
		} else {
			r.Check(bad == "", "S-ROW", key, c.pos(fd.Pos()), bad)
		}
	}
	// the wrapper: the delegate's error is returned before the first store into row
	key := "gozxing.InvertedLuminanceSource.GetRow"
	fd, p := c.funcDeclOf("", "InvertedLuminanceSource.GetRow")
	if fd == nil {
		r.AnchorLost("S-ROW", key, "method not found")
		return
	}
	r.Analysed(key)
	calls := findCalls(p, fd.Body, func(o types.Object) bool {
		fn, ok := o.(*types.Func)
		return ok && fn.Name() == "GetRow"
	})
	ok := false
	msg := "the delegate's GetRow is not called"
	if len(calls) == 1 {
		msg = "the error of the delegate's GetRow must be tested and returned before the row is modified"
		st := enclosingStmt(fd.Body, calls[0])
		// the statement directly after the call must be `if e != nil { return ..., e }`
		for i, s := range fd.Body.List {
			if s == st && i+1 < len(fd.Body.List) {
				if ifs, isIf := fd.Body.List[i+1].(*ast.IfStmt); isIf && blockReturnsError(p, ifs.Body.List, nil) {
					if be, isB := ast.Unparen(ifs.Cond).(*ast.BinaryExpr); isB && be.Op == token.NEQ && isErrorType(p.TypesInfo.TypeOf(be.X)) {
						ok = true
					}
				}
			}
		}
		// and the delegate receives the caller's y
		if ok {
			if id := identObj(p, calls[0].Args[0]); id == nil || id != paramObjs(p, fd)[0] {
				ok = false
				msg = "the delegate must be asked for the same row y"
			}
		}
	}
	r.Check(ok, "S-ROW", key, c.pos(fd.Pos()), msg)
}

// ---------------------------------------------------------------------------------------------------------------
// S-PASS: wrappers hand the rectangle through unchanged and keep their own nature
// ---------------------------------------------------------------------------------------------------------------

func checkViewPassThrough(c *Ctx, r *Report) {
	r.Rule("S-PASS", "a wrapper's Crop passes (left, top, width, height) to the wrapped Crop in that order, and the wrappers of an inverted source (Crop, RotateCounterClockwise, RotateCounterClockwise45) re-wrap the delegate's result in NewInvertedLuminanceSource; BinaryBitmap.Crop/Rotate build the new bitmap from a fresh binarizer over the new source; BinaryBitmap.GetBlackRow answers with its binarizer's GetBlackRow(y, row) on every return", 8)
	argsInOrder := func(t string) {
		key := "gozxing." + t + ".Crop"
		fd, p := c.funcDeclOf("", t+".Crop")
		if fd == nil {
			r.AnchorLost("S-PASS", key, "method not found")
			return
		}
		r.Analysed(key)
		ps := paramObjs(p, fd)
		calls := findCalls(p, fd.Body, func(o types.Object) bool {
			fn, ok := o.(*types.Func)
			return ok && fn.Name() == "Crop"
		})
		if len(calls) != 1 || len(calls[0].Args) != 4 || len(ps) != 4 {
			r.Fail("S-PASS", key, c.pos(fd.Pos()), "violation", "expected exactly one delegated Crop(left, top, width, height)")
			return
		}
		for i, a := range calls[0].Args {
			if identObj(p, a) != ps[i] {
				r.Fail("S-PASS", key, c.pos(a.Pos()), "violation", fmt.Sprintf("argument %d of the delegated Crop is %s, not the wrapper's own parameter %s", i, exprString(a), ps[i].Name()))
				return
			}
		}
		r.Pass("S-PASS", key, c.pos(fd.Pos()), "")
	}
	argsInOrder("GoImageLuminanceSource")
	argsInOrder("InvertedLuminanceSource")
	argsInOrder("BinaryBitmap")
	// re-wrapping
	for _, m := range []string{"Crop", "RotateCounterClockwise", "RotateCounterClockwise45"} {
		key := "gozxing.InvertedLuminanceSource." + m + "/rewrap"
		fd, p := c.funcDeclOf("", "InvertedLuminanceSource."+m)
		if fd == nil {
			r.AnchorLost("S-PASS", key, "method not found")
			continue
		}
		r.Analysed(key)
		ok := false
		// the delegate call result variable
		var resObj types.Object
		for _, st := range fd.Body.List {
			if as, isA := st.(*ast.AssignStmt); isA && len(as.Rhs) == 1 && len(as.Lhs) == 2 {
				if call, isC := as.Rhs[0].(*ast.CallExpr); isC {
					if fn, isF := typeutil.Callee(p.TypesInfo, call).(*types.Func); isF && fn.Name() == m {
						resObj = identObj(p, as.Lhs[0])
					}
				}
			}
		}
		if resObj != nil {
			if rs, isR := fd.Body.List[len(fd.Body.List)-1].(*ast.ReturnStmt); isR && len(rs.Results) == 2 {
				if call, isC := ast.Unparen(rs.Results[0]).(*ast.CallExpr); isC && len(call.Args) == 1 {
					if isFuncNamed(typeutil.Callee(p.TypesInfo, call), "", "NewInvertedLuminanceSource") && identObj(p, call.Args[0]) == resObj {
						ok = true
					}
				}
			}
		}
		r.Check(ok, "S-PASS", key, c.pos(fd.Pos()), "the result of the delegate's "+m+" must be returned wrapped in NewInvertedLuminanceSource: otherwise the view silently stops being inverted")
	}
	// BinaryBitmap: new bitmap over CreateBinarizer(newSource)
	for _, m := range []string{"Crop", "RotateCounterClockwise"} {
		key := "gozxing.BinaryBitmap." + m + "/fresh"
		fd, p := c.funcDeclOf("", "BinaryBitmap."+m)
		if fd == nil {
			r.AnchorLost("S-PASS", key, "method not found")
			continue
		}
		r.Analysed(key)
		var srcObj types.Object
		for _, st := range fd.Body.List {
			if as, isA := st.(*ast.AssignStmt); isA && len(as.Rhs) == 1 && len(as.Lhs) == 2 {
				if call, isC := as.Rhs[0].(*ast.CallExpr); isC {
					if fn, isF := typeutil.Callee(p.TypesInfo, call).(*types.Func); isF && fn.Name() == m {
						srcObj = identObj(p, as.Lhs[0])
					}
				}
			}
		}
		ok := false
		if srcObj != nil {
			if rs, isR := fd.Body.List[len(fd.Body.List)-1].(*ast.ReturnStmt); isR && len(rs.Results) == 1 {
				if call, isC := ast.Unparen(rs.Results[0]).(*ast.CallExpr); isC && len(call.Args) == 1 && isFuncNamed(typeutil.Callee(p.TypesInfo, call), "", "NewBinaryBitmap") {
					if inner, isC2 := ast.Unparen(call.Args[0]).(*ast.CallExpr); isC2 && len(inner.Args) == 1 {
						if fn, isF := typeutil.Callee(p.TypesInfo, inner).(*types.Func); isF && fn.Name() == "CreateBinarizer" && identObj(p, inner.Args[0]) == srcObj {
							ok = true
						}
					}
				}
			}
		}
		r.Check(ok, "S-PASS", key, c.pos(fd.Pos()), "must return NewBinaryBitmap(binarizer.CreateBinarizer(<the new source>)): a bitmap sharing the old binarizer would serve the old cached matrix")
	}
	// BinaryBitmap.GetBlackRow: every return hands on what the binarizer's own row method answers for (y, row) - the
	// row method has its own threshold (and its own range errors); the cached matrix of another method is no substitute
	if fd, p := c.funcDeclOf("", "BinaryBitmap.GetBlackRow"); fd != nil {
		key := "gozxing.BinaryBitmap.GetBlackRow/delegates"
		r.Analysed(key)
		ps := paramObjs(p, fd)
		bad := ""
		nRet := 0
		ast.Inspect(fd.Body, func(n ast.Node) bool {
			if _, isLit := n.(*ast.FuncLit); isLit {
				return false
			}
			rs, ok := n.(*ast.ReturnStmt)
			if !ok {
				return true
			}
			nRet++
			okRet := false
			if len(rs.Results) == 1 {
				if call, isC := ast.Unparen(rs.Results[0]).(*ast.CallExpr); isC && len(call.Args) == 2 && len(ps) == 2 {
					if fn, isF := typeutil.Callee(p.TypesInfo, call).(*types.Func); isF && fn.Name() == "GetBlackRow" && identObj(p, call.Args[0]) == ps[0] && identObj(p, call.Args[1]) == ps[1] {
						if sel, isS := call.Fun.(*ast.SelectorExpr); isS {
							if inner, isS2 := ast.Unparen(sel.X).(*ast.SelectorExpr); isS2 && inner.Sel.Name == "binarizer" {
								okRet = true
							}
						}
					}
				}
			}
			if !okRet && bad == "" {
				bad = "a return at " + c.pos(rs.Pos()) + " does not hand on binarizer.GetBlackRow(y, row)"
			}
			return true
		})
		if nRet == 0 {
			bad = "no return found"
		}
		r.Check(bad == "", "S-PASS", key, c.pos(fd.Pos()), bad)
	} else {
		r.AnchorLost("S-PASS", "gozxing.BinaryBitmap.GetBlackRow/delegates", "method not found")
	}
}

// ---------------------------------------------------------------------------------------------------------------
// S-OFFSET: GetRow, GetMatrix and Crop agree on where pixel (x, y) of the view lives
// ---------------------------------------------------------------------------------------------------------------

type copySite struct {
	call           *ast.CallExpr
	dstBase, dstLo *Poly
	srcBase        *Poly
	srcLo, srcHi   *Poly
	conds          []symCond
	loop           int
}

func isBuiltin(o types.Object, name string) bool {
	b, ok := o.(*types.Builtin)
	return ok && b.Name() == name
}

func gettersPure(o types.Object) bool {
	fn, ok := o.(*types.Func)
	return ok && (fn.Name() == "GetWidth" || fn.Name() == "GetHeight" || fn.Name() == "GetLuminanceSource" || fn.Name() == "GetMatrix")
}

// collectCopies lifts fd and records every copy(dst[..], src[lo:hi]).
func collectCopies(c *Ctx, fd *ast.FuncDecl, p *packages.Package) (*symExec, []copySite) {
	s := c.newSymExec(p)
	s.pure = gettersPure
	var out []copySite
	s.onCall = func(s *symExec, call *ast.CallExpr, callee types.Object) {
		if !isBuiltin(callee, "copy") || len(call.Args) != 2 {
			return
		}
		cs := copySite{call: call, conds: append([]symCond(nil), s.conds...), loop: s.loopDepth}
		if sl, ok := ast.Unparen(call.Args[0]).(*ast.SliceExpr); ok {
			cs.dstBase = s.expr(sl.X)
			cs.dstLo = polyInt(0)
			if sl.Low != nil {
				cs.dstLo = s.expr(sl.Low)
			}
		} else {
			cs.dstBase = s.expr(call.Args[0])
			cs.dstLo = polyInt(0)
		}
		if sl, ok := ast.Unparen(call.Args[1]).(*ast.SliceExpr); ok && sl.Low != nil && sl.High != nil {
			cs.srcBase = s.expr(sl.X)
			cs.srcLo = s.expr(sl.Low)
			cs.srcHi = s.expr(sl.High)
		}
		out = append(out, cs)
	}
	s.block(fd.Body.List)
	return s, out
}

var kAtomRe = regexp.MustCompile(`K~\d+`)

func kAtomsOf(ps ...*Poly) []string {
	seen := map[string]bool{}
	var out []string
	for _, p := range ps {
		if p == nil {
			continue
		}
		for _, a := range kAtomRe.FindAllString(p.String(), -1) {
			if !seen[a] {
				seen[a] = true
				out = append(out, a)
			}
		}
	}
	sort.Strings(out)
	return out
}

func checkViewOffsets(c *Ctx, r *Report) {
	r.Rule("S-OFFSET", "for each storage-backed source: GetRow(y) reads data[(y+top)*dataWidth+left : +width]; GetMatrix returns the storage itself only when width == dataWidth and height == dataHeight, copies one block from top*dataWidth+left only when width == dataWidth, and otherwise copies row k from top*dataWidth+left+k*dataWidth to k*width - the same place GetRow(k) reads; Crop keeps the storage and its dimensions and adds the rectangle's origin to its own", 8)
	for _, t := range [][2]string{{"RGBLuminanceSource", "luminances"}, {"PlanarYUVLuminanceSource", "yuvData"}} {
		typ, dataField := t[0], t[1]
		// --- GetRow
		fdR, pR := c.funcDeclOf("", typ+".GetRow")
		fdM, pM := c.funcDeclOf("", typ+".GetMatrix")
		if fdR == nil || fdM == nil {
			r.AnchorLost("S-OFFSET", "gozxing."+typ, "GetRow/GetMatrix not found")
			continue
		}
		r.Analysed("gozxing." + typ + ".GetRow")
		r.Analysed("gozxing." + typ + ".GetMatrix")
		thisR := polyAtom(objAtom(recvObj(pR, fdR))).String()
		fld := func(this, f string) *Poly { return polyAtom("fld(" + this + "," + f + ")") }
		yAtom := polyAtom(objAtom(paramObjs(pR, fdR)[0]))
		_, copies := collectCopies(c, fdR, pR)
		keyR := "gozxing." + typ + ".GetRow"
		if len(copies) != 1 || copies[0].srcLo == nil {
			r.Fail("S-OFFSET", keyR, c.pos(fdR.Pos()), "violation", "expected exactly one copy(row, data[lo:hi])")
		} else {
			cp := copies[0]
			want := yAtom.add(fld(thisR, "top")).mul(fld(thisR, "dataWidth")).add(fld(thisR, "left"))
			wAtom := polyAtom("call:(*gozxing.LuminanceSourceBase).GetWidth(" + thisR + ")")
			okBase := cp.srcBase.equal(fld(thisR, dataField))
			okLo := cp.srcLo.equal(want)
			okLen := cp.srcHi.sub(cp.srcLo).equal(wAtom) || strings.Contains(cp.srcHi.sub(cp.srcLo).String(), "GetWidth")
			switch {
			case !okBase:
				r.Fail("S-OFFSET", keyR, c.pos(cp.call.Pos()), "violation", "the row is not read from this."+dataField)
			case !okLo:
				r.Fail("S-OFFSET", keyR, c.pos(cp.call.Pos()), "violation", "row y starts at "+prettyPoly(cp.srcLo)+", expected (y+top)*dataWidth+left")
			case !okLen:
				r.Fail("S-OFFSET", keyR, c.pos(cp.call.Pos()), "violation", "the row slice is "+prettyPoly(cp.srcHi.sub(cp.srcLo))+" long, expected the view's width")
			default:
				r.Pass("S-OFFSET", keyR, c.pos(cp.call.Pos()), "")
			}
		}
		// --- GetMatrix
		thisM := polyAtom(objAtom(recvObj(pM, fdM))).String()
		sM, mcopies := collectCopies(c, fdM, pM)
		W := polyAtom("call:(*gozxing.LuminanceSourceBase).GetWidth(" + thisM + ")")
		H := polyAtom("call:(*gozxing.LuminanceSourceBase).GetHeight(" + thisM + ")")
		dw, dh := fld(thisM, "dataWidth"), fld(thisM, "dataHeight")
		base := fld(thisM, "top").mul(dw).add(fld(thisM, "left"))
		hasEq := func(conds []symCond, a, b *Poly) bool {
			for _, cd := range conds {
				if condIs(cd, token.EQL, a, b) {
					return true
				}
			}
			return false
		}
		// (1) returning the storage itself
		keyM1 := "gozxing." + typ + ".GetMatrix/whole"
		whole := 0
		bad := ""
		for _, rt := range sM.rets {
			if len(rt.Vals) == 1 && rt.Vals[0].equal(fld(thisM, dataField)) {
				whole++
				if !(hasEq(rt.Conds, W, dw) && hasEq(rt.Conds, H, dh)) {
					bad = "the storage itself is returned without requiring both width == dataWidth and height == dataHeight: a cropped view would return pixels outside the view"
				}
			}
		}
		if whole == 0 {
			r.Pass("S-OFFSET", keyM1, c.pos(fdM.Pos()), "no shortcut returning the storage")
		} else {
			r.Check(bad == "", "S-OFFSET", keyM1, c.pos(fdM.Pos()), bad)
		}
		// (2) copies
		keyM2 := "gozxing." + typ + ".GetMatrix/block"
		keyM3 := "gozxing." + typ + ".GetMatrix/rows"
		seenBlock, seenRows := false, false
		for _, cp := range mcopies {
			if cp.srcLo == nil || !cp.srcBase.equal(fld(thisM, dataField)) {
				r.Fail("S-OFFSET", keyM3, c.pos(cp.call.Pos()), "violation", "a copy in GetMatrix does not read a [lo:hi] slice of this."+dataField)
				continue
			}
			if cp.loop == 0 {
				seenBlock = true
				ok := cp.srcLo.equal(base) && cp.srcHi.sub(cp.srcLo).equal(W.mul(H)) && cp.dstLo.equal(polyInt(0)) && hasEq(cp.conds, W, dw)
				r.Check(ok, "S-OFFSET", keyM2, c.pos(cp.call.Pos()), "the single-block copy must start at top*dataWidth+left, be width*height long and happen only when width == dataWidth; got start "+prettyPoly(cp.srcLo)+", length "+prettyPoly(cp.srcHi.sub(cp.srcLo)))
				continue
			}
			seenRows = true
			ks := kAtomsOf(cp.srcLo, cp.dstLo)
			if len(ks) != 1 {
				r.Undecided("S-OFFSET", keyM3, c.pos(cp.call.Pos()), "row copy offsets are not an arithmetic progression in one loop counter: "+prettyPoly(cp.srcLo))
				continue
			}
			K := polyAtom(ks[0])
			ok := cp.srcLo.equal(base.add(K.mul(dw))) && cp.dstLo.equal(K.mul(W)) && cp.srcHi.sub(cp.srcLo).equal(W)
			msg := "row k must be copied from top*dataWidth+left+k*dataWidth to k*width, width bytes; got from " + prettyPoly(cp.srcLo) + " to " + prettyPoly(cp.dstLo) + ", " + prettyPoly(cp.srcHi.sub(cp.srcLo)) + " bytes"
			r.Check(ok, "S-OFFSET", keyM3, c.pos(cp.call.Pos()), msg)
		}
		if !seenRows {
			r.Fail("S-OFFSET", keyM3, c.pos(fdM.Pos()), "violation", "no row-by-row copy found")
		}
		if !seenBlock {
			r.Pass("S-OFFSET", keyM2, c.pos(fdM.Pos()), "no single-block shortcut")
		}
	}
	// --- Crop field composition
	checkCropFields(c, r)
}

// structLitFields maps field names of a (possibly positional) composite literal to expressions.
func structLitFields(p *packages.Package, cl *ast.CompositeLit) map[string]ast.Expr {
	out := map[string]ast.Expr{}
	t := p.TypesInfo.TypeOf(cl)
	if t == nil {
		return nil
	}
	st, ok := t.Underlying().(*types.Struct)
	if !ok {
		return nil
	}
	for i, el := range cl.Elts {
		if kv, isKV := el.(*ast.KeyValueExpr); isKV {
			if id, isI := kv.Key.(*ast.Ident); isI {
				out[id.Name] = kv.Value
			}
		} else if i < st.NumFields() {
			out[st.Field(i).Name()] = el
		}
	}
	return out
}

func findStructLit(p *packages.Package, body ast.Node, typeName string) *ast.CompositeLit {
	var found *ast.CompositeLit
	ast.Inspect(body, func(n ast.Node) bool {
		if cl, ok := n.(*ast.CompositeLit); ok && found == nil {
			if t := p.TypesInfo.TypeOf(cl); t != nil {
				if nt, isN := t.(*types.Named); isN && nt.Obj().Name() == typeName {
					found = cl
					return false
				}
			}
		}
		return true
	})
	return found
}

func checkCropFields(c *Ctx, r *Report) {
	// RGB: literal in Crop
	key := "gozxing.RGBLuminanceSource.Crop/fields"
	if fd, p := c.funcDeclOf("", "RGBLuminanceSource.Crop"); fd != nil {
		r.Analysed(key)
		s := c.newSymExec(p)
		this := polyAtom(objAtom(recvObj(p, fd))).String()
		ps := paramObjs(p, fd)
		fld := func(f string) *Poly { return polyAtom("fld(" + this + "," + f + ")") }
		cl := findStructLit(p, fd.Body, "RGBLuminanceSource")
		bad := ""
		if cl == nil {
			bad = "no RGBLuminanceSource literal constructed"
		} else {
			fs := structLitFields(p, cl)
			want := map[string]*Poly{
				"luminances": fld("luminances"), "dataWidth": fld("dataWidth"), "dataHeight": fld("dataHeight"),
				"left": fld("left").add(polyAtom(objAtom(ps[0]))), "top": fld("top").add(polyAtom(objAtom(ps[1]))),
			}
			names := []string{"luminances", "dataWidth", "dataHeight", "left", "top"}
			for _, n := range names {
				e, ok := fs[n]
				if !ok {
					bad = "field " + n + " is not set in the cropped source"
					break
				}
				if got := s.expr(e); !got.equal(want[n]) {
					bad = fmt.Sprintf("field %s of the cropped source is %s, expected %s", n, prettyPoly(got), prettyPoly(want[n]))
					break
				}
			}
			if bad == "" {
				if be, ok := fs["LuminanceSourceBase"]; !ok {
					bad = "view dimensions not set"
				} else if bl, isL := ast.Unparen(be).(*ast.CompositeLit); !isL {
					bad = "view dimensions not a literal"
				} else {
					bf := structLitFields(p, bl)
					if identObj(p, bf["Width"]) != ps[2] || identObj(p, bf["Height"]) != ps[3] {
						bad = "the cropped view's Width/Height must be the rectangle's width/height"
					}
				}
			}
		}
		r.Check(bad == "", "S-OFFSET", key, c.pos(fd.Pos()), bad)
	} else {
		r.AnchorLost("S-OFFSET", key, "method not found")
	}
	// YUV: Crop -> constructor arguments, constructor -> literal
	key = "gozxing.PlanarYUVLuminanceSource.Crop/fields"
	fd, p := c.funcDeclOf("", "PlanarYUVLuminanceSource.Crop")
	cfd, cp := c.funcDeclOf("", "NewPlanarYUVLuminanceSource")
	if fd == nil || cfd == nil {
		r.AnchorLost("S-OFFSET", key, "method or constructor not found")
		return
	}
	r.Analysed(key)
	bad := ""
	calls := findCalls(p, fd.Body, func(o types.Object) bool { return isFuncNamed(o, "", "NewPlanarYUVLuminanceSource") })
	cl := findStructLit(cp, cfd.Body, "PlanarYUVLuminanceSource")
	if len(calls) != 1 || cl == nil {
		bad = "Crop must delegate to NewPlanarYUVLuminanceSource, which builds the source literal"
	} else {
		s := c.newSymExec(p)
		this := polyAtom(objAtom(recvObj(p, fd))).String()
		ps := paramObjs(p, fd)
		fld := func(f string) *Poly { return polyAtom("fld(" + this + "," + f + ")") }
		cps := paramObjs(cp, cfd)
		argOf := map[types.Object]*Poly{}
		for i, a := range calls[0].Args {
			if i < len(cps) {
				argOf[cps[i]] = s.expr(a)
			}
		}
		fs := structLitFields(cp, cl)
		want := map[string]*Poly{
			"yuvData": fld("yuvData"), "dataWidth": fld("dataWidth"), "dataHeight": fld("dataHeight"),
			"left": fld("left").add(polyAtom(objAtom(ps[0]))), "top": fld("top").add(polyAtom(objAtom(ps[1]))),
		}
		for _, n := range []string{"yuvData", "dataWidth", "dataHeight", "left", "top"} {
			e, ok := fs[n]
			if !ok {
				bad = "field " + n + " is not set by the constructor"
				break
			}
			po := identObj(cp, e)
			if po == nil || argOf[po] == nil {
				bad = "field " + n + " is not initialised from a constructor parameter"
				break
			}
			if !argOf[po].equal(want[n]) {
				bad = fmt.Sprintf("field %s of the cropped source is %s, expected %s", n, prettyPoly(argOf[po]), prettyPoly(want[n]))
				break
			}
		}
		if bad == "" {
			if bl, isL := ast.Unparen(fs["LuminanceSourceBase"]).(*ast.CompositeLit); !isL {
				bad = "view dimensions not a literal"
			} else {
				bf := structLitFields(cp, bl)
				wo, ho := identObj(cp, bf["Width"]), identObj(cp, bf["Height"])
				if wo == nil || ho == nil || argOf[wo] == nil || argOf[ho] == nil || !argOf[wo].equal(polyAtom(objAtom(ps[2]))) || !argOf[ho].equal(polyAtom(objAtom(ps[3]))) {
					bad = "the cropped view's Width/Height must be the rectangle's width/height"
				}
			}
		}
	}
	r.Check(bad == "", "S-OFFSET", key, c.pos(fd.Pos()), bad)
}
