package main

import (
	"fmt"
	"go/ast"
	"go/types"
	"golang.org/x/tools/go/packages"
)

// S-RSWHOLE: ReedSolomonEncoder.Encode and ReedSolomonDecoder.Decode folded, with every callee in the package folded from
// source as well, over complete small domains, against the checker's own field arithmetic.

type refGF struct {
	size, prim, base int
	exp, log         []int
}

func newRefGF(prim, size, base int) *refGF {
	g := &refGF{size: size, prim: prim, base: base, exp: make([]int, size), log: make([]int, size)}
	x := 1
	for i := 0; i < size-1; i++ {
		g.exp[i] = x
		g.log[x] = i
		x <<= 1
		if x >= size {
			x ^= prim
		}
	}
	g.exp[size-1] = g.exp[0]
	return g
}

func (g *refGF) mul(a, b int) int {
	if a == 0 || b == 0 {
		return 0
	}
	return g.exp[(g.log[a]+g.log[b])%(g.size-1)]
}

// parity of data (highest-order symbol first) for r check symbols, generator roots alpha^(base..base+r-1)
func (g *refGF) parity(data []int, r int) []int {
	gen := []int{1}
	for d := 0; d < r; d++ {
		root := g.exp[(g.base+d)%(g.size-1)]
		next := make([]int, len(gen)+1)
		for i, cf := range gen {
			next[i] ^= cf
			next[i+1] ^= g.mul(cf, root)
		}
		gen = next
	}
	rem := make([]int, len(data)+r)
	copy(rem, data)
	for i := 0; i < len(data); i++ {
		f := rem[i]
		if f == 0 {
			continue
		}
		for j, cf := range gen {
			rem[i+j] ^= g.mul(cf, f)
		}
	}
	return rem[len(data):]
}

// fieldVal builds the GenericGF value the folds run on; its tables are the reference tables (T-GFBUILD decides that
// NewGenericGF produces exactly these).
func (g *refGF) fieldVal() *Val {
	mk := func(xs []int) *Val {
		l := &Val{K: VList}
		for _, x := range xs {
			l.L = append(l.L, vint(int64(x)))
		}
		return l
	}
	f := &Val{K: VStruct, Ptr: true, Fields: map[string]*Val{
		"expTable": mk(g.exp), "logTable": mk(g.log), "size": vint(int64(g.size)), "primitive": vint(int64(g.prim)), "generatorBase": vint(int64(g.base)),
	}}
	f.Fields["zero"] = &Val{K: VStruct, Ptr: true, Fields: map[string]*Val{"field": f, "coefficients": mk([]int{0})}}
	f.Fields["one"] = &Val{K: VStruct, Ptr: true, Fields: map[string]*Val{"field": f, "coefficients": mk([]int{1})}}
	return f
}

func localInts(xs []int) *Val {
	l := &Val{K: VList, Local: true}
	for _, x := range xs {
		l.L = append(l.L, vint(int64(x)))
	}
	return l
}

func checkRSWhole(c *Ctx, r *Report) {
	r.Rule("S-RSWHOLE", "ReedSolomonEncoder.Encode and ReedSolomonDecoder.Decode, folded from source together with every function of the package they call (generator cache, GenericGFPoly arithmetic, Euclid, Chien search, Forney), agree with the checker's own field arithmetic on complete small domains: Encode leaves the data symbols in place and appends exactly the remainder of x^r d(x) by the generator for every data word of the listed (field, k, r); Decode returns without error and leaves exactly the codeword for every error pattern of weight <= floor(r/2) on the listed (field, k, r) - over GF(16) with generator base 1 (the Aztec parameter field) and base 0 (the QR convention on the small field), including full-length words (k + r = 15), and over both 256-element fields for weight <= 1; with a single check symbol the uncorrupted word passes; the encoder domains include parity counts whose generator has a coefficient 1", 13)
	r.DecidedByKeys("S-RSROOTS", "S-RSWHOLE", "Decode folded on complete small domains over fields with generator base 0 and 1: wrong syndromes correct nothing", "common/reedsolomon.ReedSolomonDecoder.Decode")
	efd, ep := c.funcDeclOf("common/reedsolomon", "ReedSolomonEncoder.Encode")
	dfd, dp := c.funcDeclOf("common/reedsolomon", "ReedSolomonDecoder.Decode")
	if efd == nil || dfd == nil {
		r.AnchorLost("S-RSWHOLE", "common/reedsolomon Encode/Decode", "method not found")
		return
	}
	gf16b1 := newRefGF(0x13, 16, 1)
	gf16b0 := newRefGF(0x13, 16, 0)
	qr := newRefGF(0x11D, 256, 0)
	dm := newRefGF(0x12D, 256, 1)
	gf1024 := newRefGF(0x409, 1024, 1)
	gf4096 := newRefGF(0x1069, 4096, 1)
	encDoms := []rsDom{
		{g: gf1024, name: "GF(1024)/0x409 base 1", k: 1, r: 2},
		{g: gf4096, name: "GF(4096)/0x1069 base 1", k: 2, r: 3, words: 4096 * 2},
		{gf16b1, "GF(16)/0x13 base 1", 13, 2, 0, 300, nil},
		{gf16b1, "GF(16)/0x13 base 1", 1, 1, 0, 0, nil}, {gf16b1, "GF(16)/0x13 base 1", 1, 3, 0, 0, nil}, {gf16b1, "GF(16)/0x13 base 1", 2, 2, 0, 0, nil}, {gf16b1, "GF(16)/0x13 base 1", 2, 4, 0, 0, nil},
		{gf16b0, "GF(16)/0x13 base 0", 2, 3, 0, 0, nil},
		{qr, "GF(256)/0x11D base 0", 1, 2, 0, 0, nil}, {dm, "GF(256)/0x12D base 1", 1, 3, 0, 0, nil},
		// parity counts whose generator has a coefficient 1 below the leading one (x - 1 over the QR field; five check
		// symbols over GF(16), the Aztec mode message): an implementation in the log domain meets log 1 = 0 there
		{qr, "GF(256)/0x11D base 0", 1, 1, 0, 0, nil}, {gf16b1, "GF(16)/0x13 base 1", 1, 5, 0, 0, nil}, {gf16b1, "GF(16)/0x13 base 1", 2, 5, 0, 0, nil},
	}
	decDoms := []rsDom{
		{gf16b1, "GF(16)/0x13 base 1", 2, 2, 1, 0, nil}, {gf16b1, "GF(16)/0x13 base 1", 2, 4, 2, 0, nil},
		{gf16b0, "GF(16)/0x13 base 0", 2, 4, 2, 0, nil}, {gf16b0, "GF(16)/0x13 base 0", 3, 3, 1, 0, nil},
		// three errors (the Euclidean algorithm meets quotients of degree 2 and more): every value combination on four position sets
		{g: gf16b1, name: "GF(16)/0x13 base 1 (positions {0,1,2} {0,3,6} {4,5,6} {1,3,5})", k: 1, r: 6, maxW: 3, sets: [][]int{{0, 1, 2}, {0, 3, 6}, {4, 5, 6}, {1, 3, 5}}},
		// full-length words: k + r = |F| - 1
		{gf16b1, "GF(16)/0x13 base 1", 13, 2, 1, 0, nil}, {gf16b0, "GF(16)/0x13 base 0", 12, 3, 1, 0, nil},
		{qr, "GF(256)/0x11D base 0", 2, 2, 1, 0, nil}, {dm, "GF(256)/0x12D base 1", 2, 3, 1, 0, nil},
		// a single check symbol corrects nothing: the uncorrupted word passes
		{gf16b1, "GF(16)/0x13 base 1", 2, 1, 0, 0, nil}, {qr, "GF(256)/0x11D base 0", 3, 1, 0, 0, nil},
	}
	if c.Tier == "thorough" {
		encDoms = append(encDoms, rsDom{gf16b1, "GF(16)/0x13 base 1", 3, 5, 0, 0, nil}, rsDom{gf16b0, "GF(16)/0x13 base 0", 3, 2, 0, 0, nil}, rsDom{qr, "GF(256)/0x11D base 0", 2, 4, 0, 0, nil})
		decDoms = append(decDoms, rsDom{gf16b1, "GF(16)/0x13 base 1", 1, 5, 2, 0, nil}, rsDom{gf16b1, "GF(16)/0x13 base 1", 4, 4, 2, 0, nil}, rsDom{gf16b0, "GF(16)/0x13 base 0", 1, 6, 3, 0, nil}, rsDom{qr, "GF(256)/0x11D base 0", 3, 4, 1, 0, nil}, rsDom{dm, "GF(256)/0x12D base 1", 3, 4, 1, 0, nil})
	}
	hooks := func() *rpf {
		h := &rpf{unroll: 100000, maxSteps: 2000000, env: map[types.Object]*Val{}}
		h.callHook = func(rr *rpf, call *ast.CallExpr, callee types.Object) (*Val, bool) {
			return errCtorHook(rr, call, callee)
		}
		return h
	}
	totalFolds := 0
	defer func() { r.Extra("S-RSWHOLE folds", totalFolds) }()
	// ---- encoder
	totalFolds += rsEncodeFolds(c, r, "S-RSWHOLE", efd, ep, encDoms, hooks)
	// ---- decoder
	for _, d := range decDoms {
		key := fmt.Sprintf("common/reedsolomon.ReedSolomonDecoder.Decode %s k=%d r=%d weight<=%d", d.name, d.k, d.r, d.maxW)
		r.Analysed(key)
		field := d.g.fieldVal()
		dec := &Val{K: VStruct, Ptr: true, Fields: map[string]*Val{"field": field}}
		n := d.k + d.r
		// two codewords: zero, and a non-zero one from the reference encoder
		data := make([]int, d.k)
		for i := range data {
			data[i] = (7*i + 3) % d.g.size
		}
		cws := [][]int{make([]int, n), append(append([]int{}, data...), d.g.parity(data, d.r)...)}
		bad := ""
		folds := 0
		try := func(cw []int, posns []int, vals []int) {
			if bad != "" {
				return
			}
			rcv := append([]int{}, cw...)
			for i, p := range posns {
				rcv[p] ^= vals[i]
			}
			word := localInts(rcv)
			h := hooks()
			h.env[recvObj(dp, dfd)] = dec
			res, err := c.rpfCall(dfd, dp, []*Val{word, vint(int64(d.r))}, h)
			folds++
			if err != nil {
				bad = "?" + err.Error()
				return
			}
			if len(res) != 1 || res[0].K != VNil {
				bad = fmt.Sprintf("Decode(%v, %d) - codeword %v with %d symbol(s) corrupted - reports an error", rcv, d.r, cw, len(posns))
				return
			}
			got, ok := listInts(word)
			if !ok || fmt.Sprint(got) != fmt.Sprint(cw) {
				bad = fmt.Sprintf("Decode(%v, %d) - codeword %v with %d symbol(s) corrupted - leaves %v", rcv, d.r, cw, len(posns), got)
			}
		}
		var rec func(cw []int, from int, posns, vals []int)
		rec = func(cw []int, from int, posns, vals []int) {
			try(cw, posns, vals)
			if len(posns) == d.maxW {
				return
			}
			for p := from; p < n && bad == ""; p++ {
				for v := 1; v < d.g.size && bad == ""; v++ {
					rec(cw, p+1, append(posns, p), append(vals, v))
				}
			}
		}
		for ci, cw := range cws {
			if ci == 1 && c.Tier != "thorough" && d.maxW >= 2 && d.g.size == 16 && d.k+d.r > 6 {
				continue
			}
			if d.sets != nil {
				// every combination of non-zero error values on each of the listed position sets
				for _, set := range d.sets {
					vals := make([]int, len(set))
					for i := range vals {
						vals[i] = 1
					}
					for bad == "" {
						try(cw, set, vals)
						i := 0
						for i < len(vals) {
							vals[i]++
							if vals[i] < d.g.size {
								break
							}
							vals[i] = 1
							i++
						}
						if i == len(vals) {
							break
						}
					}
				}
				continue
			}
			rec(cw, 0, nil, nil)
		}
		totalFolds += folds
		reportFold(r, c, "S-RSWHOLE", key, dfd.Pos(), bad)
	}
}

// checkRSAccept: over every word of the given length, Decode either reports an error or leaves a codeword at most
// floor(r/2) symbols away from what it was given (never "success" on a non-codeword, never a far correction).
func checkRSAccept(c *Ctx, r *Report, rule string, doms []rsAcceptDom) {
	dfd, dp := c.funcDeclOf("common/reedsolomon", "ReedSolomonDecoder.Decode")
	if dfd == nil {
		r.AnchorLost(rule, "common/reedsolomon.ReedSolomonDecoder.Decode", "method not found")
		return
	}
	folds := 0
	for _, d := range doms {
		key := fmt.Sprintf("common/reedsolomon.ReedSolomonDecoder.Decode %s all words n=%d r=%d", d.name, d.n, d.r)
		r.Analysed(key)
		field := d.g.fieldVal()
		dec := &Val{K: VStruct, Ptr: true, Fields: map[string]*Val{"field": field}}
		total := 1
		for i := 0; i < d.n; i++ {
			total *= d.g.size
		}
		bad := ""
		accepted := 0
		for w := 0; w < total && bad == ""; w++ {
			rcv := make([]int, d.n)
			for i, x := 0, w; i < d.n; i++ {
				rcv[d.n-1-i] = x % d.g.size
				x /= d.g.size
			}
			word := localInts(rcv)
			h := &rpf{unroll: 100000, maxSteps: 2000000, env: map[types.Object]*Val{}}
			h.callHook = func(rr *rpf, call *ast.CallExpr, callee types.Object) (*Val, bool) {
				return errCtorHook(rr, call, callee)
			}
			h.env[recvObj(dp, dfd)] = dec
			res, err := c.rpfCall(dfd, dp, []*Val{word, vint(int64(d.r))}, h)
			folds++
			if err != nil {
				bad = "?" + err.Error()
				break
			}
			if len(res) != 1 || res[0].K != VNil {
				continue // rejected
			}
			accepted++
			got, ok := listInts(word)
			if !ok || len(got) != d.n {
				bad = fmt.Sprintf("?Decode(%v, %d) leaves a word that is not a list of constants", rcv, d.r)
				break
			}
			gi := make([]int, d.n)
			dist := 0
			for i := range got {
				gi[i] = int(got[i])
				if gi[i] != rcv[i] {
					dist++
				}
			}
			par := d.g.parity(gi[:d.n-d.r], d.r)
			if fmt.Sprint(par) != fmt.Sprint(gi[d.n-d.r:]) {
				bad = fmt.Sprintf("Decode(%v, %d) reports success and leaves %v, which is not a codeword (its data would have check symbols %v)", rcv, d.r, gi, par)
				break
			}
			if dist > d.r/2 {
				bad = fmt.Sprintf("Decode(%v, %d) reports success after changing %d symbols (to %v); %d check symbols correct at most %d", rcv, d.r, dist, gi, d.r, d.r/2)
			}
		}
		r.Extra(rule+" "+d.name+" accepted/total", fmt.Sprintf("%d/%d", accepted, total))
		reportFold(r, c, rule, key, dfd.Pos(), bad)
	}
	r.Extra(rule+" folds", folds)
}

type rsAcceptDom struct {
	g    *refGF
	name string
	n, r int
}

// rsEncodeFolds folds Encode over the given domains under the given rule name; returns the number of folds.
func rsEncodeFolds(c *Ctx, r *Report, rule string, efd *ast.FuncDecl, ep *packages.Package, encDoms []rsDom, hooks func() *rpf) int {
	totalFolds := 0
	for _, d := range encDoms {
		key := fmt.Sprintf("common/reedsolomon.ReedSolomonEncoder.Encode %s k=%d r=%d", d.name, d.k, d.r)
		r.Analysed(key)
		field := d.g.fieldVal()
		enc := &Val{K: VStruct, Ptr: true, Local: true, Fields: map[string]*Val{"field": field, "cachedGenerators": {K: VList, Local: true, L: []*Val{field.Fields["one"]}}}}
		total := 1
		for i := 0; i < d.k && total < 1<<24; i++ {
			total *= d.g.size
		}
		if d.words > 0 {
			total = d.words // a full-length shape: a structured family of data words (every symbol value at every position)
		}
		bad := ""
		folds := 0
		for w := 0; w < total && bad == ""; w++ {
			data := make([]int, d.k)
			if d.words > 0 {
				// word w: value (w % size) at position (w / size) % k, a second value two places on
				data[(w/d.g.size)%d.k] = w % d.g.size
				data[(w/d.g.size+2)%d.k] ^= (w*7 + 3) % d.g.size
			} else {
				for i, x := 0, w; i < d.k; i++ {
					data[d.k-1-i] = x % d.g.size
					x /= d.g.size
				}
			}
			word := localInts(append(append([]int{}, data...), make([]int, d.r)...))
			// stale parity area: Encode must overwrite all of it
			for i := d.k; i < d.k+d.r; i++ {
				word.L[i] = vint(int64((w + i) % d.g.size))
			}
			h := hooks()
			h.env[recvObj(ep, efd)] = enc
			res, err := c.rpfCall(efd, ep, []*Val{word, vint(int64(d.r))}, h)
			folds++
			if err != nil {
				bad = "?" + err.Error()
				break
			}
			if len(res) != 1 || res[0].K != VNil {
				bad = fmt.Sprintf("Encode(%v, %d) reports an error", data, d.r)
				break
			}
			got, ok := listInts(word)
			want := append(append([]int{}, data...), d.g.parity(data, d.r)...)
			if !ok || fmt.Sprint(got) != fmt.Sprint(want) {
				bad = fmt.Sprintf("Encode(%v, %d) leaves %v; data followed by the remainder of x^%d d(x) modulo the generator is %v", data, d.r, got, d.r, want)
			}
		}
		totalFolds += folds
		reportFold(r, c, rule, key, efd.Pos(), bad)
	}
	return totalFolds
}

// checkRSEncodeQR: the QR convention (GF(256)/0x11D, generator base 0) and the small base-0 field, for C07 / C01.
func checkRSEncodeQR(c *Ctx, r *Report) {
	r.Rule("S-RSENC", "ReedSolomonEncoder.Encode, folded from source with the generator cache and the GenericGFPoly arithmetic it calls, leaves the data in place and appends exactly the remainder of x^r d(x) by the generator with roots alpha^0..alpha^(r-1) - the QR convention - for every data word of GF(256)/0x11D with (k, r) = (1, 2) and (1, 7) and of GF(16)/0x13 base 0 with (2, 3), starting from stale parity slots (a remainder with leading zero coefficients is right-aligned)", 3)
	efd, ep := c.funcDeclOf("common/reedsolomon", "ReedSolomonEncoder.Encode")
	if efd == nil {
		r.AnchorLost("S-RSENC", "common/reedsolomon.ReedSolomonEncoder.Encode", "method not found")
		return
	}
	qr := newRefGF(0x11D, 256, 0)
	gf16b0 := newRefGF(0x13, 16, 0)
	hooks := func() *rpf {
		h := &rpf{unroll: 100000, maxSteps: 2000000, env: map[types.Object]*Val{}}
		h.callHook = func(rr *rpf, call *ast.CallExpr, callee types.Object) (*Val, bool) {
			return errCtorHook(rr, call, callee)
		}
		return h
	}
	n := rsEncodeFolds(c, r, "S-RSENC", efd, ep, []rsDom{{qr, "GF(256)/0x11D base 0", 1, 2, 0, 0, nil}, {qr, "GF(256)/0x11D base 0", 1, 7, 0, 0, nil}, {gf16b0, "GF(16)/0x13 base 0", 2, 3, 0, 0, nil}}, hooks)
	r.Extra("S-RSENC folds", n)
}

type rsDom struct {
	g     *refGF
	name  string
	k, r  int
	maxW  int     // decoder: error weight explored (== r/2 unless stated)
	words int     // encoder: 0 = all size^k data words
	sets  [][]int // decoder: when set, only error patterns whose positions are exactly one of these sets (every value combination)
}

// S-RSCTOR / S-RSHIST: the codec objects are what their constructors' arguments say, and stay so between calls
func checkRSInstances(c *Ctx, r *Report) {
	r.Rule("S-RSCTOR", "NewReedSolomonEncoder(f) and NewReedSolomonDecoder(f), folded from source, return an object of the field f they were given - for the QR field and then for the Data Matrix field, which has the same size - and the encoder's generator cache starts as the single polynomial 1 over f", 2)
	r.Rule("S-RSHIST", "one ReedSolomonDecoder instance, built by folding its constructor, used for a sequence of Decode calls with decreasing and increasing numbers of check symbols (4, 2, 2, 6, 2 over GF(16); 4, 2 over GF(256)/0x11D), each word one symbol away from a codeword: every call returns without error and leaves exactly the codeword, as a fresh instance does - nothing of an earlier word survives in the instance", 2)
	qr := newRefGF(0x11D, 256, 0)
	dm := newRefGF(0x12D, 256, 1)
	gf16 := newRefGF(0x13, 16, 1)
	hooks := func() *rpf {
		h := &rpf{unroll: 100000, maxSteps: 2000000, env: map[types.Object]*Val{}}
		h.callHook = func(rr *rpf, call *ast.CallExpr, callee types.Object) (*Val, bool) {
			return errCtorHook(rr, call, callee)
		}
		return h
	}
	build := func(name string, f *Val) (*Val, string) {
		fd, p := c.funcDeclOf("common/reedsolomon", name)
		if fd == nil {
			return nil, "?" + name + " not found"
		}
		res, err := c.rpfCall(fd, p, []*Val{f}, hooks())
		if err != nil {
			return nil, "?" + name + ": " + err.Error()
		}
		if len(res) != 1 || res[0].K != VStruct {
			return nil, "?" + name + " does not return an object"
		}
		if res[0].Fields["field"] != f {
			return nil, name + " returns an object whose field is not the field it was given"
		}
		return res[0], ""
	}
	for _, name := range []string{"NewReedSolomonEncoder", "NewReedSolomonDecoder"} {
		key := "common/reedsolomon." + name
		r.Analysed(key)
		fd, _ := c.funcDeclOf("common/reedsolomon", name)
		if fd == nil {
			r.AnchorLost("S-RSCTOR", key, "constructor not found")
			continue
		}
		bad := ""
		var prev *Val
		for _, g := range []*refGF{qr, dm} {
			f := g.fieldVal()
			o, b := build(name, f)
			if b != "" {
				bad = b
				break
			}
			if o == prev {
				bad = name + " returns the same object for two fields"
				break
			}
			prev = o
			if name == "NewReedSolomonEncoder" {
				cg := o.Fields["cachedGenerators"]
				if cg == nil || cg.K != VList || len(cg.L) != 1 || cg.L[0].K != VStruct || cg.L[0].Fields["field"] != f {
					bad = "the new encoder's generator cache is not one polynomial over the given field"
					break
				}
				if co, ok := listInts(cg.L[0].Fields["coefficients"]); !ok || fmt.Sprint(co) != "[1]" {
					bad = fmt.Sprintf("the new encoder's generator cache starts with the polynomial %v, not 1", co)
					break
				}
			}
		}
		reportFold(r, c, "S-RSCTOR", key, fd.Pos(), bad)
	}
	dfd, dp := c.funcDeclOf("common/reedsolomon", "ReedSolomonDecoder.Decode")
	cfd, _ := c.funcDeclOf("common/reedsolomon", "NewReedSolomonDecoder")
	if dfd == nil || cfd == nil {
		r.AnchorLost("S-RSHIST", "common/reedsolomon.ReedSolomonDecoder", "Decode / constructor not found")
		return
	}
	for _, seq := range []struct {
		g    *refGF
		name string
		rs   []int
	}{{gf16, "GF(16)/0x13 base 1", []int{4, 2, 2, 6, 2}}, {qr, "GF(256)/0x11D base 0", []int{4, 2}}} {
		key := "common/reedsolomon.ReedSolomonDecoder one instance, " + seq.name
		r.Analysed(key)
		dec, bad := build("NewReedSolomonDecoder", seq.g.fieldVal())
		for i, rr := range seq.rs {
			if bad != "" {
				break
			}
			data := []int{(3*i + 5) % seq.g.size, (7*i + 2) % seq.g.size}
			cw := append(append([]int{}, data...), seq.g.parity(data, rr)...)
			rcv := append([]int{}, cw...)
			rcv[i%len(rcv)] ^= 1 + i%3
			word := localInts(rcv)
			h := hooks()
			h.env[recvObj(dp, dfd)] = dec
			res, err := c.rpfCall(dfd, dp, []*Val{word, vint(int64(rr))}, h)
			if err != nil {
				bad = "?" + err.Error()
				break
			}
			if len(res) != 1 || res[0].K != VNil {
				bad = fmt.Sprintf("call %d on one instance, Decode(%v, %d) - codeword %v with one symbol changed - reports an error (check symbol counts so far: %v)", i+1, rcv, rr, cw, seq.rs[:i+1])
				break
			}
			if got, ok := listInts(word); !ok || fmt.Sprint(got) != fmt.Sprint(cw) {
				bad = fmt.Sprintf("call %d on one instance, Decode(%v, %d) leaves %v, not the codeword %v", i+1, rcv, rr, got, cw)
			}
		}
		reportFold(r, c, "S-RSHIST", key, dfd.Pos(), bad)
	}
}

// S-GFWHOLE: the field constructor and the field operations, folded
func checkGFWhole(c *Ctx, r *Report) {
	r.Rule("S-GFWHOLE", "NewGenericGF, folded from source for each of the six fields the library uses (primitive polynomial, size, generator base), returns an object whose exp and log tables are exactly the powers of 2 modulo the polynomial and their inverse, with size and generator base stored; on that object Multiply, Inverse, Log and Exp, folded from source, agree with the checker's own arithmetic - for every pair of elements of GF(16) and GF(64), and for a grid of elements of the larger fields; Inverse and Log refuse 0", 6)
	fd, p := c.funcDeclOf("common/reedsolomon", "NewGenericGF")
	if fd == nil {
		r.AnchorLost("S-GFWHOLE", "common/reedsolomon.NewGenericGF", "constructor not found")
		return
	}
	method := func(name string) (*ast.FuncDecl, *packages.Package) {
		return c.funcDeclOf("common/reedsolomon", "GenericGF."+name)
	}
	for _, f := range []struct {
		prim, size, base int
		name             string
	}{{0x1069, 4096, 1, "GF(4096)/0x1069"}, {0x409, 1024, 1, "GF(1024)/0x409"}, {0x43, 64, 1, "GF(64)/0x43"}, {0x13, 16, 1, "GF(16)/0x13"}, {0x11D, 256, 0, "GF(256)/0x11D"}, {0x12D, 256, 1, "GF(256)/0x12D"}} {
		key := "common/reedsolomon.NewGenericGF " + f.name
		r.Analysed(key)
		ref := newRefGF(f.prim, f.size, f.base)
		h := &rpf{unroll: 100000, maxSteps: 5000000}
		h.callHook = errCtorHook
		res, err := c.rpfCall(fd, p, []*Val{vint(int64(f.prim)), vint(int64(f.size)), vint(int64(f.base))}, h)
		bad := ""
		var obj *Val
		switch {
		case err != nil:
			bad = "?" + err.Error()
		case len(res) != 1 || res[0].K != VStruct:
			bad = "?the constructor does not fold to an object"
		default:
			obj = res[0]
			exp, ok1 := listInts(obj.Fields["expTable"])
			lg, ok2 := listInts(obj.Fields["logTable"])
			switch {
			case !ok1 || !ok2 || len(exp) != f.size || len(lg) != f.size:
				bad = fmt.Sprintf("?expTable / logTable are not tables of %d constants", f.size)
			case obj.Fields["size"] == nil || !obj.Fields["size"].isInt() || obj.Fields["size"].I != int64(f.size) || obj.Fields["generatorBase"] == nil || obj.Fields["generatorBase"].I != int64(f.base):
				bad = "size / generator base are not stored in the object"
			default:
				for i := 0; i < f.size-1 && bad == ""; i++ {
					if int(exp[i]) != ref.exp[i] {
						bad = fmt.Sprintf("expTable[%d] = %d, 2^%d modulo %#x is %d", i, exp[i], i, f.prim, ref.exp[i])
					}
				}
				for v := 1; v < f.size && bad == ""; v++ {
					if int(lg[v]) != ref.log[v] {
						bad = fmt.Sprintf("logTable[%d] = %d, expected %d", v, lg[v], ref.log[v])
					}
				}
			}
		}
		if bad == "" {
			// the operations on the folded object
			var elems []int
			if f.size <= 64 {
				for a := 0; a < f.size; a++ {
					elems = append(elems, a)
				}
			} else {
				elems = []int{0, 1, 2, 3, 7, f.size / 2, f.size/2 + 1, f.size - 2, f.size - 1, 29, 113}
			}
			call := func(name string, args ...*Val) ([]*Val, error) {
				mfd, mp := method(name)
				if mfd == nil {
					return nil, fmt.Errorf("GenericGF.%s not found", name)
				}
				hh := &rpf{unroll: 1000, env: map[types.Object]*Val{recvObj(mp, mfd): obj}}
				hh.callHook = errCtorHook
				return c.rpfCall(mfd, mp, args, hh)
			}
			for _, a := range elems {
				if bad != "" {
					break
				}
				for _, b := range elems {
					res, err := call("Multiply", vint(int64(a)), vint(int64(b)))
					if err != nil || len(res) != 1 || !res[0].isInt() {
						bad = fmt.Sprintf("?Multiply(%d, %d): %v", a, b, err)
						break
					}
					if int(res[0].I) != ref.mul(a, b) {
						bad = fmt.Sprintf("Multiply(%d, %d) = %d, the product in %s is %d", a, b, res[0].I, f.name, ref.mul(a, b))
						break
					}
				}
				for _, op := range []string{"Inverse", "Log"} {
					res, err := call(op, vint(int64(a)))
					if err != nil || len(res) != 2 {
						bad = fmt.Sprintf("?%s(%d): %v", op, a, err)
						break
					}
					if a == 0 {
						if res[1].K == VNil {
							bad = op + "(0) does not report an error"
						}
						continue
					}
					want := ref.log[a]
					if op == "Inverse" {
						want = ref.exp[(f.size-1-ref.log[a])%(f.size-1)]
					}
					if res[1].K != VNil || !res[0].isInt() || int(res[0].I) != want {
						bad = fmt.Sprintf("%s(%d) = %v, expected %d", op, a, valString(res[0]), want)
					}
				}
				if a < f.size-1 && bad == "" {
					if res, err := call("Exp", vint(int64(a))); err != nil || len(res) != 1 || !res[0].isInt() || int(res[0].I) != ref.exp[a] {
						bad = fmt.Sprintf("Exp(%d) is not 2^%d", a, a)
					}
				}
			}
		}
		reportFold(r, c, "S-GFWHOLE", key, fd.Pos(), bad)
	}
	r.DecidedBy("T-GFBUILD", "S-GFWHOLE", "the tables the constructor builds, compared element by element for all six fields")
	r.DecidedBy("T-GFOPS", "S-GFWHOLE", "the field operations folded on the constructed object")
}
