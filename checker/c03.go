package main

import (
	"fmt"
	"go/ast"
	"go/constant"
	"go/token"
	"go/types"
	"math"
	"math/big"
	"math/bits"
	"sort"
	"strings"

	"golang.org/x/tools/go/packages"
	"golang.org/x/tools/go/ssa"
	"golang.org/x/tools/go/types/typeutil"
)

func init() {
	registerProp("C03", "1D symbologies: written barcode reads back as the same content and format", checkC03)
}

func checkC03(c *Ctx, r *Report) {
	// check digits, UPC/EAN tables, UPC-E expansion, Code 128 / Code 93 checksums, writers verifying supplied digits (C10 rules)
	checkUPCTables(c, r)
	checkLAndGInit(c, r)
	checkMod10(c, r)
	checkUPCEUses(c, r)
	checkUPCEExpand(c, r)
	checkUPCEParityLookup(c, r)
	checkUPCDigitLoops(c, r)
	checkUPCEANReaderEnforces(c, r)
	checkUPCEANWritersEnforce(c, r)
	checkCode128Checksum(c, r)
	checkCode93Checksum(c, r)
	check1DTables(c, r)
	checkCodabarMinLength(c, r)
	checkTryNextReader(c, r)
	checkUPCEANReaderSet(c, r)
	checkWriterStateless(c, r) // a writer object renders every symbol with its own defaults: a hint of one call does not stay behind (also C14)
	checkCodabarWriterWhole(c, r)
	checkCode128RoundTrip(c, r)
	checkRowScan(c, r)
	checkNumericOnly(c, r)
	// the statement quantifies over the requested pixel size: the rendering terms (same obligations as under C14)
	declareRenderRules(r, 1)
	renderOneD(c, r)
	check1DTables(c, r)
	checkCode39Pair(c, r)
	checkCode93Pair(c, r)
	checkCodabarPair(c, r)
	check1DLengthGuards(c, r)
	checkITFLengths(c, r)
	checkCode128Sets(c, r)
	checkExtendedPairs(c, r)
	checkUPCEANQuietZone(c, r)
	// error discipline of the 1-D chains
	runEDrop(c, r, []string{"oned"}, 7)
	nf := c.newNilFlow()
	var roots []*ssa.Function
	for _, f := range nf.entryMethods("", "Writer", "Encode") {
		if f.Pkg != nil && strings.HasSuffix(f.Pkg.Pkg.Path(), "/oned") {
			roots = append(roots, f)
		}
	}
	for _, f := range nf.entryMethods("", "Reader", "Decode") {
		if f.Pkg != nil && strings.HasSuffix(f.Pkg.Pkg.Path(), "/oned") {
			roots = append(roots, f)
		}
	}
	for _, f := range nf.entryMethods("oned", "RowDecoder", "DecodeRow") {
		if f.Pkg != nil && strings.HasSuffix(f.Pkg.Pkg.Path(), "/oned") {
			roots = append(roots, f)
		}
	}
	if len(roots) < 10 {
		r.AnchorLost("E-XOR", "oned entry points", fmt.Sprintf("only %d found", len(roots)))
	}
	runEXOR(c, r, nf, roots, 10)
	reach := nf.reachableFrom(roots)
	runENIL(c, r, nf, reach, 1)
	r.Note("decided: the tables shared by writer and reader (shape invariants, pairwise distinct, alphabet lengths), the per-character writer -> reader transitions of Code 39, Code 93 and Codabar at module widths 1..3, ITF's writer and reader tables describing the same narrow/wide structure, the check-digit machinery (C10 rules), the writers' length / alphabet / check-digit rejections, error discipline of the chains. Also decided: Code 128 code-set choice never selects a set without the character, extended-mode escapes of Code 39 / 93 as inverse pairs, ITF default lengths, the UPC/EAN default quiet zone against the reader's end-guard test, the Codabar length guard against the writer's shortest output. Not decided: the Code 128 reader's state machine as a whole, quiet zones of the other symbologies against reader tolerances, row scanning and binarisation; the exhaustive UPC-E / EAN-8 sweeps of the quantifier are run-time by nature")
}

// ---------------------------------------------------------------------------------------------------------------
// T-1DTABLES
// ---------------------------------------------------------------------------------------------------------------

func intTable(c *Ctx, rel, name string) ([]int64, string) {
	init, p := c.varInit(rel, name)
	if init == nil {
		return nil, ""
	}
	v := c.eval(p, init)
	if v == nil || v.K != VList {
		return nil, c.pos(init.Pos())
	}
	xs, ok := v.ints()
	if !ok {
		return nil, c.pos(init.Pos())
	}
	return xs, c.pos(init.Pos())
}

func intRows(c *Ctx, rel, name string) ([][]int64, string) {
	init, p := c.varInit(rel, name)
	if init == nil {
		return nil, ""
	}
	v := c.eval(p, init)
	if v == nil || v.K != VList {
		return nil, c.pos(init.Pos())
	}
	var out [][]int64
	for _, row := range v.L {
		xs, ok := row.ints()
		if !ok {
			return nil, c.pos(init.Pos())
		}
		out = append(out, xs)
	}
	return out, c.pos(init.Pos())
}

func strConst(c *Ctx, rel, name string) (string, bool) {
	p := c.pkg(rel)
	if p == nil {
		return "", false
	}
	o := p.Types.Scope().Lookup(name)
	if cst, ok := o.(*types.Const); ok {
		s := cst.Val().ExactString()
		if len(s) >= 2 && s[0] == '"' {
			var out string
			fmt.Sscanf(s, "%q", &out)
			return out, true
		}
	}
	return "", false
}

func check1DTables(c *Ctx, r *Report) {
	r.Rule("T-1DTABLES", "the pattern tables shared by each writer and its reader have the shape the symbology needs, so that distinct characters have distinct, well-formed patterns: Code 39 (43 + asterisk; 9 elements with exactly 3 wide), Code 93 (48; 9 modules starting with a bar and ending with a space, 3 bars and 3 spaces of 1..4 modules), Code 128 (107; 6 elements summing to 11, stop 7 elements summing to 13), ITF (10 + 10; 5 elements with exactly 2 wide, writer and both reader variants with the same narrow/wide structure), Codabar (20; 7 elements, 2 or 3 wide), each table pairwise distinct and as long as its alphabet", 5)
	distinct := func(xs []string) string {
		seen := map[string]int{}
		for i, x := range xs {
			if j, ok := seen[x]; ok {
				return fmt.Sprintf("rows %d and %d are identical (%s)", j, i, x)
			}
			seen[x] = i
		}
		return ""
	}
	// Code 39
	{
		key := "oned.code39CharacterEncodings"
		xs, pos := intTable(c, "oned", "code39CharacterEncodings")
		alpha, okA := strConst(c, "oned", "code39AlphabetString")
		ast39, okS := constValIn(c, "oned", "code39AsteriskEncoding")
		if xs == nil || !okA || !okS {
			r.AnchorLost("T-1DTABLES", key, "table / alphabet / asterisk constant not found")
		} else {
			r.Analysed(key)
			bad := ""
			if len(xs) != 43 || len(alpha) != 43 {
				bad = fmt.Sprintf("%d encodings for an alphabet of %d characters, expected 43 each", len(xs), len(alpha))
			}
			var rows []string
			for i, x := range append(append([]int64{}, xs...), ast39) {
				if x < 0 || x >= 1<<9 || bits.OnesCount64(uint64(x)) != 3 {
					bad = fmt.Sprintf("entry %d = %#x does not have exactly 3 wide elements among 9", i, x)
				}
				rows = append(rows, fmt.Sprintf("%#x", x))
			}
			if bad == "" {
				bad = distinct(rows)
			}
			if bad == "" && strings.ContainsRune(alpha, '*') {
				bad = "the asterisk must not be a data character"
			}
			if bad == "" {
				bad = distinct(strings.Split(alpha, ""))
			}
			r.Check(bad == "", "T-1DTABLES", key, pos, bad)
		}
	}
	// Code 93
	{
		key := "oned.code93CharacterEncodings"
		xs, pos := intTable(c, "oned", "code93CharacterEncodings")
		alpha, okA := strConst(c, "oned", "code93AlphabetString")
		if xs == nil || !okA {
			r.AnchorLost("T-1DTABLES", key, "table / alphabet not found")
		} else {
			r.Analysed(key)
			bad := ""
			if len(xs) != 48 || len(alpha) != 48 {
				bad = fmt.Sprintf("%d encodings for an alphabet of %d characters, expected 48 each", len(xs), len(alpha))
			}
			var rows []string
			for i, x := range xs {
				runs := runLengths(x, 9)
				ok := x >= 0 && x < 1<<9 && x&0x100 != 0 && x&1 == 0 && len(runs) == 6
				for _, rl := range runs {
					if rl < 1 || rl > 4 {
						ok = false
					}
				}
				if !ok {
					bad = fmt.Sprintf("entry %d = %#x is not 3 bars and 3 spaces of 1..4 modules in 9 modules starting with a bar", i, x)
				}
				rows = append(rows, fmt.Sprintf("%#x", x))
			}
			if bad == "" {
				bad = distinct(rows)
			}
			if bad == "" {
				bad = distinct(strings.Split(alpha, ""))
			}
			if bad == "" && alpha[47] != '*' {
				bad = "the asterisk (start/stop) must be the last, 48th, entry: code93AsteriskEncoding is taken from index 47"
			}
			r.Check(bad == "", "T-1DTABLES", key, pos, bad)
		}
	}
	// Code 128
	{
		key := "oned.code128CODE_PATTERNS"
		rows, pos := intRows(c, "oned", "code128CODE_PATTERNS")
		if rows == nil {
			r.AnchorLost("T-1DTABLES", key, "table not found")
		} else {
			r.Analysed(key)
			bad := ""
			if len(rows) != 107 {
				bad = fmt.Sprintf("%d rows, expected 107 (103 values, 3 start codes, stop)", len(rows))
			}
			var strs []string
			for i, row := range rows {
				wantN, wantSum := 6, int64(11)
				if i == 106 {
					wantN, wantSum = 7, 13
				}
				sum := int64(0)
				okEl := len(row) == wantN
				for _, e := range row {
					sum += e
					if e < 1 || e > 4 {
						okEl = false
					}
				}
				if !okEl || sum != wantSum {
					bad = fmt.Sprintf("row %d = %v must have %d elements of 1..4 modules summing to %d", i, row, wantN, wantSum)
				}
				strs = append(strs, fmt.Sprint(row))
			}
			if bad == "" {
				bad = distinct(strs)
			}
			r.Check(bad == "", "T-1DTABLES", key, pos, bad)
		}
	}
	// ITF
	{
		key := "oned.itf patterns"
		wr, posW := intRows(c, "oned", "itfWriter_PATTERNS")
		rd, _ := intRows(c, "oned", "itfReader_PATTERNS")
		if wr == nil || rd == nil {
			r.AnchorLost("T-1DTABLES", key, "itfWriter_PATTERNS / itfReader_PATTERNS not found")
		} else {
			r.Analysed(key)
			bad := ""
			if len(wr) != 10 || len(rd) != 20 {
				bad = fmt.Sprintf("writer has %d rows, reader %d; expected 10 and 20", len(wr), len(rd))
			}
			shape := func(row []int64) string {
				s := ""
				for _, e := range row {
					if e == 1 {
						s += "n"
					} else {
						s += "W"
					}
				}
				return s
			}
			var strs []string
			for d := 0; d < 10 && bad == ""; d++ {
				sw := shape(wr[d])
				if len(wr[d]) != 5 || strings.Count(sw, "W") != 2 {
					bad = fmt.Sprintf("writer digit %d = %v is not two wide in five", d, wr[d])
				}
				for _, k := range []int{d, d + 10} {
					if shape(rd[k]) != sw {
						bad = fmt.Sprintf("digit %d: writer pattern %v and reader pattern %v (row %d) differ in their narrow/wide structure", d, wr[d], rd[k], k)
					}
					uniform := map[int64]bool{}
					for _, e := range rd[k] {
						uniform[e] = true
					}
					if len(uniform) != 2 {
						bad = fmt.Sprintf("reader row %d = %v must use one narrow and one wide width", k, rd[k])
					}
				}
				strs = append(strs, sw)
			}
			if bad == "" {
				bad = distinct(strs)
			}
			r.Check(bad == "", "T-1DTABLES", key, posW, bad)
		}
	}
	// Codabar
	{
		key := "oned.codabarReader_CHARACTER_ENCODINGS"
		xs, pos := intTable(c, "oned", "codabarReader_CHARACTER_ENCODINGS")
		alpha, okA := strConst(c, "oned", "codabarReader_ALPHABET")
		if xs == nil || !okA {
			r.AnchorLost("T-1DTABLES", key, "table / alphabet not found")
		} else {
			r.Analysed(key)
			bad := ""
			if len(xs) != 20 || len(alpha) != 20 {
				bad = fmt.Sprintf("%d encodings for an alphabet of %d characters, expected 20 each", len(xs), len(alpha))
			}
			var rows []string
			for i, x := range xs {
				n := bits.OnesCount64(uint64(x))
				if x < 0 || x >= 1<<7 || n < 2 || n > 3 {
					bad = fmt.Sprintf("entry %d = %#x is not 2 or 3 wide elements among 7", i, x)
				}
				rows = append(rows, fmt.Sprintf("%#x", x))
			}
			if bad == "" {
				bad = distinct(rows)
			}
			if bad == "" {
				bad = distinct(strings.Split(alpha, ""))
			}
			r.Check(bad == "", "T-1DTABLES", key, pos, bad)
		}
	}
}

// runLengths of the n-bit value x, most significant bit first.
func runLengths(x int64, n int) []int64 {
	var out []int64
	prev := int64(-1)
	for i := n - 1; i >= 0; i-- {
		b := x >> uint(i) & 1
		if b == prev {
			out[len(out)-1]++
		} else {
			out = append(out, 1)
			prev = b
		}
	}
	return out
}

// ---------------------------------------------------------------------------------------------------------------
// S-1DPAIR
// ---------------------------------------------------------------------------------------------------------------

func mathHook(rr *rpf, call *ast.CallExpr, callee types.Object) (*Val, bool) {
	return errCtorHook(rr, call, callee)
}

func checkCode39Pair(c *Ctx, r *Report) {
	r.Rule("S-1DPAIR", "for every character of the alphabet (and the start/stop character) the element widths the writer derives from the shared table (code39ToIntArray; code93AppendPattern; Codabar's 7 elements) are classified by the reader's own routine (code39ToNarrowWidePattern + code39PatternToChar; code93ToPattern + code93PatternToChar; codabarReader.toNarrowWidePattern) as that same character, at module widths 1, 2 and 3", 3)
	key := "oned Code 39 characters"
	wfd, wp := c.funcDeclOf("oned", "code39ToIntArray")
	nfd, np := c.funcDeclOf("oned", "code39ToNarrowWidePattern")
	cfd, cp := c.funcDeclOf("oned", "code39PatternToChar")
	xs, _ := intTable(c, "oned", "code39CharacterEncodings")
	alpha, okA := strConst(c, "oned", "code39AlphabetString")
	ast39, okS := constValIn(c, "oned", "code39AsteriskEncoding")
	if wfd == nil || nfd == nil || cfd == nil || xs == nil || !okA || !okS {
		r.AnchorLost("S-1DPAIR", key, "Code 39 conversion functions / tables not found")
		return
	}
	r.Analysed(key)
	bad := ""
	hooks := &rpf{unroll: 64, callHook: mathHook}
	encs := append(append([]int64{}, xs...), ast39)
	chars := alpha + "*"
	for i, enc := range encs {
		if bad != "" || i >= len(chars) {
			break
		}
		widths := map[int64]int64{}
		h := &rpf{unroll: 64, stHook: func(rr *rpf, lhs ast.Expr, v *Val) bool {
			if ix, ok := lhs.(*ast.IndexExpr); ok && v.K == VInt {
				widths[rr.expr(ix.Index).I] = v.I
				return true
			}
			return false
		}}
		if _, err := c.rpfCall(wfd, wp, []*Val{vint(enc), {K: VNil}}, h); err != nil {
			bad = "?writer: " + err.Error()
			break
		}
		if len(widths) != 9 {
			bad = fmt.Sprintf("code39ToIntArray(%#x) fills %d of 9 elements", enc, len(widths))
			break
		}
		for _, scale := range []int64{1, 2, 3} {
			counters := &Val{K: VList}
			for k := int64(0); k < 9; k++ {
				counters.L = append(counters.L, vint(widths[k]*scale))
			}
			res, err := c.rpfCall(nfd, np, []*Val{counters}, hooks)
			if err != nil {
				bad = "?reader: " + err.Error()
				break
			}
			if len(res) != 1 || res[0].K != VInt {
				bad = "?unexpected result of code39ToNarrowWidePattern"
				break
			}
			ch, err := c.rpfCall(cfd, cp, []*Val{res[0]}, hooks)
			if err != nil {
				bad = "?reader: " + err.Error()
				break
			}
			if len(ch) != 2 || ch[1].K != VNil || ch[0].K != VInt || ch[0].I != int64(chars[i]) {
				bad = fmt.Sprintf("character %q (encoding %#x) is drawn with element widths x%d and classified by the reader as pattern %s -> %s", chars[i], enc, scale, valString(res[0]), valString(ch[0]))
				break
			}
		}
	}
	reportFold(r, c, "S-1DPAIR", key, wfd.Pos(), bad)
}

func checkCode93Pair(c *Ctx, r *Report) {
	key := "oned Code 93 characters"
	wfd, wp := c.funcDeclOf("oned", "code93AppendPattern")
	nfd, np := c.funcDeclOf("oned", "code93ToPattern")
	cfd, cp := c.funcDeclOf("oned", "code93PatternToChar")
	xs, _ := intTable(c, "oned", "code93CharacterEncodings")
	alpha, okA := strConst(c, "oned", "code93AlphabetString")
	if wfd == nil || nfd == nil || cfd == nil || xs == nil || !okA {
		r.AnchorLost("S-1DPAIR", key, "Code 93 conversion functions / tables not found")
		return
	}
	r.Analysed(key)
	bad := ""
	hooks := &rpf{unroll: 64, callHook: mathHook}
	for i, enc := range xs {
		if bad != "" || i >= len(alpha) {
			break
		}
		bitsSet := map[int64]bool{}
		n := 0
		h := &rpf{unroll: 64, stHook: func(rr *rpf, lhs ast.Expr, v *Val) bool {
			if ix, ok := lhs.(*ast.IndexExpr); ok && v.K == VBool {
				bitsSet[rr.expr(ix.Index).I] = v.B
				n++
				return true
			}
			return false
		}}
		res, err := c.rpfCall(wfd, wp, []*Val{{K: VNil}, vint(0), vint(enc)}, h)
		if err != nil {
			bad = "?writer: " + err.Error()
			break
		}
		if n != 9 || len(res) != 1 || res[0].K != VInt || res[0].I != 9 {
			bad = fmt.Sprintf("code93AppendPattern(%#x) writes %d modules and reports %s; a Code 93 character is 9 modules", enc, n, valString(res[0]))
			break
		}
		// run lengths of the drawn modules
		var runs []int64
		for k := int64(0); k < 9; k++ {
			if k > 0 && bitsSet[k] == bitsSet[k-1] {
				runs[len(runs)-1]++
			} else {
				runs = append(runs, 1)
			}
		}
		if !bitsSet[0] || len(runs) != 6 {
			bad = fmt.Sprintf("character %q is drawn as %d runs starting with a %s; the reader measures 6 runs starting with a bar", alpha[i], len(runs), map[bool]string{true: "bar", false: "space"}[bitsSet[0]])
			break
		}
		for _, scale := range []int64{1, 2, 3} {
			counters := &Val{K: VList}
			for _, rl := range runs {
				counters.L = append(counters.L, vint(rl*scale))
			}
			pr, err := c.rpfCall(nfd, np, []*Val{counters}, hooks)
			if err != nil {
				bad = "?reader: " + err.Error()
				break
			}
			ch, err := c.rpfCall(cfd, cp, []*Val{pr[0]}, hooks)
			if err != nil {
				bad = "?reader: " + err.Error()
				break
			}
			if len(ch) != 2 || ch[1].K != VNil || ch[0].K != VInt || ch[0].I != int64(alpha[i]) {
				bad = fmt.Sprintf("character %q (encoding %#x, runs %v x%d) is classified by the reader as pattern %s -> %s", alpha[i], enc, runs, scale, valString(pr[0]), valString(ch[0]))
				break
			}
		}
	}
	reportFold(r, c, "S-1DPAIR", key, wfd.Pos(), bad)
}

func checkCodabarPair(c *Ctx, r *Report) {
	key := "oned Codabar characters"
	fd, p := c.funcDeclOf("oned", "codabarReader.toNarrowWidePattern")
	xs, _ := intTable(c, "oned", "codabarReader_CHARACTER_ENCODINGS")
	if fd == nil || xs == nil {
		r.AnchorLost("S-1DPAIR", key, "codabarReader.toNarrowWidePattern / table not found")
		return
	}
	r.Analysed(key)
	bad := ""
	for i, enc := range xs {
		if bad != "" {
			break
		}
		for _, scale := range []int64{1, 2, 3} {
			// the writer draws a set bit as two modules, a clear bit as one; the 8th counter is the gap
			counters := &Val{K: VList}
			for k := 6; k >= 0; k-- {
				w := int64(1)
				if enc>>uint(k)&1 == 1 {
					w = 2
				}
				counters.L = append(counters.L, vint(w*scale))
			}
			counters.L = append(counters.L, vint(scale))
			h := &rpf{unroll: 64, callHook: mathHook, selHook: func(rr *rpf, sel *ast.SelectorExpr) (*Val, bool) {
				switch sel.Sel.Name {
				case "counters":
					return counters, true
				case "counterLength":
					return vint(8), true
				}
				return nil, false
			}}
			res, err := c.rpfCall(fd, p, []*Val{vint(0)}, h)
			if err != nil {
				bad = "?reader: " + err.Error()
				break
			}
			if len(res) != 1 || res[0].K != VInt || res[0].I != int64(i) {
				bad = fmt.Sprintf("table entry %d (%#x) drawn with element widths x%d is classified by the reader as entry %s", i, enc, scale, valString(res[0]))
				break
			}
		}
	}
	reportFold(r, c, "S-1DPAIR", key, fd.Pos(), bad)
	// the writer looks characters up in the reader's own alphabet and table
	wfd, wp := c.funcDeclOf("oned", "codabarEncoder.encodeWithHints")
	k2 := "oned.codabarEncoder.encodeWithHints/shared table"
	if wfd == nil {
		r.AnchorLost("S-1DPAIR", k2, "method not found")
		return
	}
	r.Analysed(k2)
	usesAlpha, usesTable := false, false
	ast.Inspect(wfd.Body, func(n ast.Node) bool {
		if id, ok := n.(*ast.Ident); ok {
			if o := wp.TypesInfo.Uses[id]; o != nil {
				if o.Name() == "codabarReader_ALPHABET" {
					usesAlpha = true
				}
				if o.Name() == "codabarReader_CHARACTER_ENCODINGS" {
					usesTable = true
				}
			}
		}
		return true
	})
	r.Check(usesAlpha && usesTable, "S-1DPAIR", k2, c.pos(wfd.Pos()), "the Codabar writer must take its encodings from codabarReader_ALPHABET / codabarReader_CHARACTER_ENCODINGS, index for index")
}

// ---------------------------------------------------------------------------------------------------------------
// M-1DLEN: writers reject contents of the wrong length before drawing
// ---------------------------------------------------------------------------------------------------------------

// lengthRejected folds the leading if / switch statements of an encodeWithHints on a digit string of length n.
func lengthRejected(c *Ctx, fd *ast.FuncDecl, p *packages.Package, contents string) (rejected bool, err string) {
	ps := paramObjs(p, fd)
	rr := &rpf{c: c, p: p, env: map[types.Object]*Val{ps[0]: vstr(contents), ps[1]: {K: VNil}}, callHook: errCtorHook}
	func() {
		defer func() {
			if y := recover(); y != nil {
				if re, ok := y.(*rpfErr); ok {
					// the first statement outside the pure fragment ends the guard prefix
					_ = re
					return
				}
				panic(y)
			}
		}()
		for _, st := range fd.Body.List {
			switch x := st.(type) {
			case *ast.AssignStmt:
				rr.stmt(x)
			case *ast.IfStmt:
				if x.Init != nil {
					return
				}
				cv := rr.expr(x.Cond)
				if cv.K != VBool {
					return
				}
				if cv.B {
					if blockReturnsError(p, x.Body.List, nil) {
						rejected = true
					}
					return
				}
			case *ast.SwitchStmt:
				if x.Init != nil || x.Tag == nil {
					return
				}
				tag := rr.expr(x.Tag)
				var chosen *ast.CaseClause
				var deflt *ast.CaseClause
				for _, cl := range x.Body.List {
					cc := cl.(*ast.CaseClause)
					if cc.List == nil {
						deflt = cc
					}
					for _, e := range cc.List {
						if valEq(tag, rr.expr(e)) {
							chosen = cc
						}
					}
				}
				if chosen == nil {
					chosen = deflt
				}
				if chosen != nil && blockReturnsError(p, chosen.Body, nil) && len(chosen.Body) == 1 {
					rejected = true
				}
				return
			default:
				return
			}
		}
	}()
	return rejected, err
}

func check1DLengthGuards(c *Ctx, r *Report) {
	r.Rule("M-1DLEN", "each fixed- or bounded-length 1-D writer returns an error, before anything is drawn, for every content length outside what the symbology takes: EAN-13 12|13, EAN-8 7|8, UPC-E 7|8 (UPC-A prefixes a 0 and uses the EAN-13 writer), ITF even and at most 80, Code 39 at most 80, Code 128 1..80; the leading length tests are folded for lengths 0..100", 6)
	type spec struct {
		recv   string
		ok     func(n int) bool
		filler byte
	}
	for _, s := range []spec{
		{"ean13Encoder", func(n int) bool { return n == 12 || n == 13 }, '0'},
		{"ean8Encoder", func(n int) bool { return n == 7 || n == 8 }, '0'},
		{"upcEEncoder", func(n int) bool { return n == 7 || n == 8 }, '0'},
		{"itfEncoder", func(n int) bool { return n%2 == 0 && n <= 80 }, '0'},
		{"code39Encoder", func(n int) bool { return n <= 80 }, 'A'},
		{"code128Encoder", func(n int) bool { return n >= 1 && n <= 80 }, 'A'},
	} {
		fd, p := c.funcDeclOf("oned", s.recv+".encodeWithHints")
		key := "oned." + s.recv + ".encodeWithHints"
		if fd == nil {
			r.AnchorLost("M-1DLEN", key, "method not found")
			continue
		}
		r.Analysed(key)
		bad := ""
		for n := 0; n <= 100 && bad == ""; n++ {
			rej, err := lengthRejected(c, fd, p, strings.Repeat(string(s.filler), n))
			if err != "" {
				bad = "?" + err
				break
			}
			if rej == s.ok(n) {
				bad = fmt.Sprintf("contents of length %d: rejected by the leading length tests = %v, but the symbology %s this length", n, rej, map[bool]string{true: "takes", false: "does not take"}[s.ok(n)])
			}
		}
		reportFold(r, c, "M-1DLEN", key, fd.Pos(), bad)
	}
	checkUPCADelegation(c, r, "M-1DLEN")
}

// ---------------------------------------------------------------------------------------------------------------
// T-ITFLEN, S-C128SET, S-1DEXT
// ---------------------------------------------------------------------------------------------------------------

func checkITFLengths(c *Ctx, r *Report) {
	r.Rule("T-ITFLEN", "the ITF reader accepts, by default, exactly the lengths the property names - 6, 8, 10, 12, 14 and everything longer than 14: the default table and the acceptance statements of itfReader.DecodeRow are folded for lengths 0..80", 1)
	fd, p := c.funcDeclOf("oned", "itfReader.DecodeRow")
	key := "oned.itfReader.DecodeRow/lengths"
	if fd == nil {
		r.AnchorLost("T-ITFLEN", key, "method not found")
		return
	}
	r.Analysed(key)
	// statements from `length := len(resultString)` up to the rejecting if
	var stmts []ast.Stmt
	var lenObj, allowedObj types.Object
	started := false
	for _, st := range fd.Body.List {
		if as, ok := st.(*ast.AssignStmt); ok && len(as.Lhs) == 1 && len(as.Rhs) == 1 {
			if call, isC := as.Rhs[0].(*ast.CallExpr); isC && isBuiltin(typeutil.Callee(p.TypesInfo, call), "len") && !started {
				if t := p.TypesInfo.TypeOf(call.Args[0]); t != nil && t.String() == "string" {
					lenObj = identObj(p, as.Lhs[0])
					started = true
					continue
				}
			}
		}
		if as, ok := st.(*ast.AssignStmt); ok && len(as.Lhs) == 2 && strings.Contains(exprString(as.Rhs[0]), "ALLOWED_LENGTHS") {
			allowedObj = identObj(p, as.Lhs[0])
		}
		if started {
			stmts = append(stmts, st)
			if ifs, ok := st.(*ast.IfStmt); ok && blockReturnsError(p, ifs.Body.List, nil) {
				break
			}
		}
	}
	table, _ := intTable(c, "oned", "itfReader_DEFAULT_ALLOWED_LENGTHS")
	if lenObj == nil || allowedObj == nil || table == nil || len(stmts) == 0 {
		r.Undecided("T-ITFLEN", key, c.pos(fd.Pos()), "length acceptance statements / default table not found")
		return
	}
	tv := &Val{K: VList}
	for _, x := range table {
		tv.L = append(tv.L, vint(x))
	}
	bad := ""
	for n := int64(0); n <= 80 && bad == ""; n++ {
		env := map[types.Object]*Val{lenObj: vint(n), allowedObj: tv}
		rr := &rpf{c: c, p: p, env: env, callHook: errCtorHook}
		rejected := false
		func() {
			defer func() {
				if y := recover(); y != nil {
					if re, ok := y.(*rpfErr); ok {
						bad = "?" + re.Error()
						return
					}
					panic(y)
				}
			}()
			for _, st := range stmts {
				if ret := rr.stmtC(st); ret != nil {
					rejected = true
					return
				}
			}
		}()
		if bad != "" {
			break
		}
		want := n > 14 || n == 6 || n == 8 || n == 10 || n == 12 || n == 14
		if rejected == want {
			bad = fmt.Sprintf("a decoded ITF string of length %d is %s by default; the accepted lengths are 6, 8, 10, 12, 14 and anything longer (table %v)", n, map[bool]string{true: "rejected", false: "accepted"}[rejected], table)
		}
	}
	reportFold(r, c, "T-ITFLEN", key, fd.Pos(), bad)
}

func checkCode128Sets(c *Ctx, r *Report) {
	r.Rule("S-C128SET", "code128ChooseCode never selects a code set in which the character at the cursor has no symbol: set A only for characters 0..95 and FNC1-4, set B only for 32..127 and FNC1-4, set C only for a digit pair or FNC1 - the function is folded (bounded unrolling) for every previous set and every first character 0..127 / FNC1-4 followed by representative continuations; the writer computes the symbol as char-32 (A: +96 below 32) and digit pair, so a character outside its set is drawn as another character", 1)
	fd, p := c.funcDeclOf("oned", "code128ChooseCode")
	key := "oned.code128ChooseCode"
	if fd == nil {
		r.AnchorLost("S-C128SET", key, "function not found")
		return
	}
	r.Analysed(key)
	get := func(n string) int64 {
		v, _ := constValIn(c, "oned", n)
		return v
	}
	A, B, C := get("code128CODE_CODE_A"), get("code128CODE_CODE_B"), get("code128CODE_CODE_C")
	fnc1, fnc4 := get("code128ESCAPE_FNC_1"), get("code128ESCAPE_FNC_4")
	if A == 0 || B == 0 || C == 0 || fnc1 == 0 {
		r.Undecided("S-C128SET", key, c.pos(fd.Pos()), "code set constants not found")
		return
	}
	firsts := []int64{}
	for ch := int64(0); ch < 128; ch++ {
		firsts = append(firsts, ch)
	}
	for f := fnc1; f <= fnc4; f++ {
		firsts = append(firsts, f)
	}
	tails := [][]int64{{}, {'1'}, {'1', '2'}, {'1', '2', '3'}, {'1', '2', '3', '4'}, {'a'}, {'\t'}, {fnc1, '1', '2'}, {'1', fnc1, '2', '3'}, {'1', '2', '3', '4', '5'}, {'1', '2', '3', '4', '5', '6'}}
	hooks := &rpf{unroll: 128}
	bad := ""
	n := 0
	for _, old := range []int64{0, A, B, C} {
		for _, ch := range firsts {
			for _, tail := range tails {
				if bad != "" {
					continue
				}
				n++
				val := &Val{K: VList, L: []*Val{vint(ch)}}
				for _, t := range tail {
					val.L = append(val.L, vint(t))
				}
				res, err := c.rpfCall(fd, p, []*Val{val, vint(0), vint(old)}, hooks)
				if err != nil {
					bad = "?" + err.Error()
					continue
				}
				if len(res) != 1 || res[0].K != VInt {
					bad = "?unexpected result"
					continue
				}
				isFNC := ch >= fnc1 && ch <= fnc4
				isDigit := func(x int64) bool { return x >= '0' && x <= '9' }
				desc := fmt.Sprintf("previous set %d, text %q", old, runesOf(append([]int64{ch}, tail...)))
				switch res[0].I {
				case A:
					if !(ch <= 95 || isFNC) {
						bad = fmt.Sprintf("%s: set A is chosen, but %q (%d) has no symbol in set A (0..95): it would be drawn as the set-A character %q", desc, rune(ch), ch, rune(ch-96))
					}
				case B:
					if !((ch >= 32 && ch <= 127) || isFNC) {
						bad = fmt.Sprintf("%s: set B is chosen, but character %d has no symbol in set B (32..127)", desc, ch)
					}
				case C:
					if !(ch == fnc1 || (isDigit(ch) && len(tail) > 0 && isDigit(tail[0]))) {
						bad = fmt.Sprintf("%s: set C is chosen, but the cursor is not at a digit pair or FNC1", desc)
					}
				default:
					bad = fmt.Sprintf("%s: returns %d, which is not a code set", desc, res[0].I)
				}
			}
		}
	}
	r.Extra("code128_choose_folds", n)
	reportFold(r, c, "S-C128SET", key, fd.Pos(), bad)
}

func checkExtendedPairs(c *Ctx, r *Report) {
	r.Rule("S-1DEXT", "full-ASCII escaping is an inverse pair: for every character 0..127, alone and after each of the escape characters, code39TryToConvertToExtendedMode followed by code39DecodeExtended, and code93ConvertToExtended followed by code93DecodeExtended, return the original text (functions folded with bounded unrolling); the Code 39 writer converts the whole contents, not a part of it, once one character needs escaping", 3)
	type pair struct {
		enc, dec, key string
		specials      string
	}
	hooks := &rpf{unroll: 256, callHook: errCtorHook}
	for _, t := range []pair{
		{"code39TryToConvertToExtendedMode", "code39DecodeExtended", "oned Code 39 extended mode", "$%/+"},
		{"code93ConvertToExtended", "code93DecodeExtended", "oned Code 93 extended mode", "$%/+abcd"},
	} {
		efd, ep := c.funcDeclOf("oned", t.enc)
		dfd, dp := c.funcDeclOf("oned", t.dec)
		if efd == nil || dfd == nil {
			r.AnchorLost("S-1DEXT", t.key, t.enc+" / "+t.dec+" not found")
			continue
		}
		r.Analysed(t.key)
		bad := ""
		var texts []string
		for ch := 0; ch < 128; ch++ {
			texts = append(texts, string([]byte{byte(ch)}))
		}
		for _, sp := range t.specials {
			for _, ch := range []byte{'z', '@', 1, 'A', '$', '%', '/', '+', ':', 127} {
				texts = append(texts, string([]byte{'A', byte(sp), 'B', ch}))
			}
		}
		for _, text := range texts {
			if bad != "" {
				break
			}
			er, err := c.rpfCall(efd, ep, []*Val{vstr(text)}, hooks)
			if err != nil {
				bad = "?encoder: " + err.Error()
				break
			}
			if len(er) != 2 || er[0].K != VStr || er[1].K != VNil {
				bad = fmt.Sprintf("%s(%q) fails", t.enc, text)
				break
			}
			arg := listOfBytes(er[0].S)
			if t.dec == "code93DecodeExtended" || t.dec == "code39DecodeExtended" {
				// the readers hand over a byte slice
			}
			dr, err := c.rpfCall(dfd, dp, []*Val{arg}, hooks)
			if err != nil {
				bad = "?decoder: " + err.Error()
				break
			}
			if len(dr) != 2 || dr[1].K != VNil || dr[0].K != VStr || dr[0].S != text {
				bad = fmt.Sprintf("%q is escaped as %q and unescaped as %s", text, er[0].S, valString(dr[0]))
			}
		}
		reportFold(r, c, "S-1DEXT", t.key, efd.Pos(), bad)
	}
	// call site: the whole contents are converted
	fd, p := c.funcDeclOf("oned", "code39Encoder.encodeWithHints")
	key := "oned.code39Encoder.encodeWithHints/whole contents"
	if fd == nil {
		r.AnchorLost("S-1DEXT", key, "method not found")
		return
	}
	r.Analysed(key)
	calls := findCalls(p, fd.Body, func(o types.Object) bool { return isFuncNamed(o, "oned", "code39TryToConvertToExtendedMode") })
	ok := false
	contents := paramObjs(p, fd)[0]
	if len(calls) == 1 && identObj(p, calls[0].Args[0]) == contents {
		if as, isA := enclosingStmt(fd.Body, calls[0]).(*ast.AssignStmt); isA && len(as.Lhs) == 2 && identObj(p, as.Lhs[0]) == contents {
			ok = true
		}
	}
	r.Check(ok, "S-1DEXT", key, c.pos(fd.Pos()), "once a character needs escaping the writer must replace the whole contents by code39TryToConvertToExtendedMode(contents): an unescaped $ % / + before the first escaped character would be read as the start of an escape")
}

// ---------------------------------------------------------------------------------------------------------------
// R-QUIET: the quiet zone a UPC/EAN writer leaves by default against what its reader insists on
// ---------------------------------------------------------------------------------------------------------------

func checkUPCEANQuietZone(c *Ctx, r *Report) {
	r.Rule("R-QUIET", "for EAN-13, EAN-8 and UPC-E the default rendering (requested width 0: one pixel per module, the default margin split as margin/2 left and the rest right - rendering terms decided under C14) leaves, after the end guard, more white modules than the end guard is wide, which is what upceanReader.decodeRowWithStartRange demands (its quiet-zone test is folded on the writer's geometry); the left side keeps at least the start guard's width", 3)
	// default margin of the UPC/EAN writers
	margin := int64(-1)
	if fd, p := c.funcDeclOf("oned", "NewUPCEANWriter"); fd != nil {
		ast.Inspect(fd.Body, func(n ast.Node) bool {
			if as, ok := n.(*ast.AssignStmt); ok && len(as.Lhs) == 1 {
				if sel, isS := as.Lhs[0].(*ast.SelectorExpr); isS && sel.Sel.Name == "defaultMargin" {
					if v, isK := constInt(p, as.Rhs[0]); isK {
						margin = v
					}
				}
			}
			return true
		})
	}
	rfd, rp := c.funcDeclOf("oned", "upceanReader.decodeRowWithStartRange")
	if margin < 0 || rfd == nil {
		r.AnchorLost("R-QUIET", "oned UPC/EAN quiet zone", "NewUPCEANWriter margin / decodeRowWithStartRange not found")
		return
	}
	// the reader's quiet-zone statements: from `end := endRange[1]` to the IsRange test
	var stmts []ast.Stmt
	var endRangeObj types.Object
	// the end guard's range: the first result of decodeEnd; the outcome of the range test: the first result of IsRange
	endGuard := firstResultOfCall(rp, rfd, func(o types.Object) bool {
		fn, ok := o.(*types.Func)
		return ok && fn.Name() == "decodeEnd"
	})
	isRangeRes := firstResultOfCall(rp, rfd, func(o types.Object) bool { return isMethodNamed(o, "", "BitArray", "IsRange") })
	for _, st := range rfd.Body.List {
		if as, ok := st.(*ast.AssignStmt); ok && as.Tok == token.DEFINE && len(as.Lhs) == 1 && len(as.Rhs) == 1 {
			if ix, isIx := as.Rhs[0].(*ast.IndexExpr); isIx && len(stmts) == 0 {
				if k, isK := constInt(rp, ix.Index); isK && k == 1 && endGuard != nil && identObj(rp, ix.X) == endGuard {
					endRangeObj = identObj(rp, ix.X)
					stmts = append(stmts, st)
					continue
				}
			}
		}
		if len(stmts) > 0 {
			stmts = append(stmts, st)
			if ifs, ok := st.(*ast.IfStmt); ok && blockReturnsError(rp, ifs.Body.List, nil) && isRangeRes != nil && usesIdent(rp, ifs.Cond, isRangeRes) {
				break
			}
		}
	}
	if endRangeObj == nil || len(stmts) < 3 {
		r.Undecided("R-QUIET", "oned UPC/EAN quiet zone", c.pos(rfd.Pos()), "the reader's quiet-zone test was not recognised")
		return
	}
	for _, t := range []struct {
		name, ctor, widthConst, endPattern string
	}{
		{"EAN-13", "NewEAN13Writer", "ean13Writer_CODE_WIDTH", "UPCEANReader_START_END_PATTERN"},
		{"EAN-8", "NewEAN8Writer", "ean8Writer_CODE_WIDTH", "UPCEANReader_START_END_PATTERN"},
		{"UPC-E", "NewUPCEWriter", "upcEWriter_CODE_WIDTH", "upce_MIDDLE_END_PATTERN"},
	} {
		key := "oned " + t.name + " default quiet zone"
		r.Analysed(key)
		m := margin
		// a constructor that sets its own margin
		if fd, p := c.funcDeclOf("oned", t.ctor); fd != nil {
			ast.Inspect(fd.Body, func(n ast.Node) bool {
				if as, ok := n.(*ast.AssignStmt); ok && len(as.Lhs) == 1 {
					if sel, isS := as.Lhs[0].(*ast.SelectorExpr); isS && sel.Sel.Name == "defaultMargin" {
						if v, isK := constInt(p, as.Rhs[0]); isK {
							m = v
						}
					}
				}
				return true
			})
		} else {
			r.AnchorLost("R-QUIET", key, t.ctor+" not found")
			continue
		}
		codeW, okW := constValIn(c, "oned", t.widthConst)
		pat, _ := intTable(c, "oned", t.endPattern)
		if !okW || pat == nil {
			r.AnchorLost("R-QUIET", key, "code width / end pattern not found")
			continue
		}
		endW := int64(0)
		for _, x := range pat {
			endW += x
		}
		left := m / 2
		right := m - left
		size := codeW + m
		end := left + codeW // first pixel after the end guard
		// fold the reader's test
		rejected := false
		bad := ""
		env := map[types.Object]*Val{endRangeObj: {K: VList, L: []*Val{vint(end - endW), vint(end)}}}
		rr := &rpf{c: c, p: rp, env: env, callHook: func(x *rpf, call *ast.CallExpr, callee types.Object) (*Val, bool) {
			if isMethodNamed(callee, "", "BitArray", "GetSize") {
				return vint(size), true
			}
			return errCtorHook(x, call, callee)
		}, multiHook: func(call *ast.CallExpr, callee types.Object) ([]*Val, bool) {
			if isMethodNamed(callee, "", "BitArray", "IsRange") {
				a, b := rpfCurrent.expr(call.Args[0]), rpfCurrent.expr(call.Args[1])
				// everything after the end guard is white in a rendering
				if a.K == VInt && b.K == VInt && a.I >= end && b.I <= size && a.I <= b.I {
					return []*Val{vbool(true), {K: VNil}}, true
				}
				return []*Val{vbool(false), vstr("error")}, true
			}
			return nil, false
		}}
		func() {
			defer func() {
				if y := recover(); y != nil {
					if re, ok := y.(*rpfErr); ok {
						bad = "?" + re.Error()
						return
					}
					panic(y)
				}
			}()
			for _, st := range stmts {
				if ret := rr.stmtC(st); ret != nil {
					rejected = true
					return
				}
			}
		}()
		switch {
		case bad != "":
			r.Undecided("R-QUIET", key, c.pos(rfd.Pos()), bad[1:])
		case rejected:
			r.Fail("R-QUIET", key, c.pos(rfd.Pos()), "violation", fmt.Sprintf("the %s writer's default rendering is %d modules wide with %d white modules after the %d-module end guard; the reader rejects a row unless more than %d white modules follow the end guard, so the library cannot read its own default %s image", t.name, size, right, endW, endW, t.name))
		case left < 3:
			r.Fail("R-QUIET", key, c.pos(rfd.Pos()), "violation", fmt.Sprintf("only %d white modules before the start guard", left))
		default:
			r.Pass("R-QUIET", key, c.pos(rfd.Pos()), fmt.Sprintf("margin %d: %d left, %d right; end guard %d", m, left, right, endW))
		}
	}
}

// M-1DMIN: the Codabar reader's false-positive length guard against what the writer emits
func checkCodabarMinLength(c *Ctx, r *Report) {
	r.Rule("M-1DMIN", "the Codabar writer emits its content's n data characters between one start and one stop character (adding default guards when the content has none), so the reader's length guard on decodeRowResult - the comparison of len(decodeRowResult) with a constant whose branch returns not-found, lifted to a linear condition - must admit n + 2 characters for every n the writer accepts; one obligation per n = 0..6", 7)
	fd, p := c.funcDeclOf("oned", "codabarReader.DecodeRow")
	if fd == nil {
		r.AnchorLost("M-1DMIN", "oned.codabarReader.DecodeRow", "method not found")
		return
	}
	r.Analysed("oned.codabarReader.DecodeRow")
	s := c.symFunc(fd, p, func(o types.Object) bool { return true })
	ro := polyAtom(objAtom(recvObj(p, fd))).String()
	atom := "len(fld(" + ro + ",decodeRowResult))"
	type guard struct {
		a, b *big.Rat // condition a*L + b  op  0
		op   token.Token
		pos  token.Pos
	}
	var guards []guard
	lin := func(q *Poly) (*big.Rat, *big.Rat, bool) {
		a, b := new(big.Rat), new(big.Rat)
		for k, v := range q.m {
			switch k {
			case "":
				b = v
			case atom:
				a = v
			default:
				return nil, nil, false
			}
		}
		return a, b, a.Sign() != 0
	}
	for _, rt := range s.rets {
		if len(rt.Conds) == 0 {
			continue
		}
		cd := rt.Conds[len(rt.Conds)-1]
		if cd.op == token.ILLEGAL || cd.neg {
			continue
		}
		a, b, ok := lin(cd.l.sub(cd.r))
		if !ok {
			continue
		}
		// an error return: the result is nil
		if len(rt.Stmt.Results) != 2 {
			continue
		}
		if id, isId := rt.Stmt.Results[0].(*ast.Ident); !isId || id.Name != "nil" {
			continue
		}
		guards = append(guards, guard{a, b, cd.op, rt.Stmt.Pos()})
	}
	r.Extra("M-1DMIN length guards found", len(guards))
	holds := func(g guard, L int64) bool {
		v := new(big.Rat).Add(new(big.Rat).Mul(g.a, big.NewRat(L, 1)), g.b)
		switch g.op {
		case token.LSS:
			return v.Sign() < 0
		case token.LEQ:
			return v.Sign() <= 0
		case token.GTR:
			return v.Sign() > 0
		case token.GEQ:
			return v.Sign() >= 0
		case token.EQL:
			return v.Sign() == 0
		case token.NEQ:
			return v.Sign() != 0
		}
		return true
	}
	for n := int64(0); n <= 6; n++ {
		key := fmt.Sprintf("oned Codabar %d data characters", n)
		bad, at := "", c.pos(fd.Pos())
		for _, g := range guards {
			if holds(g, n+2) {
				bad = fmt.Sprintf("a symbol of start + %d data character(s) + stop, which the writer produces, is rejected by the reader's length guard", n)
				at = c.pos(g.pos)
			}
		}
		r.Check(bad == "", "M-1DMIN", key, at, bad)
	}
}

// S-C128RT: Code 128 writer -> reader on the code level
func checkCode128RoundTrip(c *Ctx, r *Report) {
	r.Rule("S-C128RT", "Code 128 on the level of symbol values: the writer's encodeWithHints, folded from source (code-set choice, start / switch symbols, value computation, checksum), emits for a content a sequence of symbol values; the reader's DecodeRow, folded from source with the pattern matcher replaced by exactly that sequence (start pattern and decodeCode scripted, quiet-zone tests answered true), passes its checksum test and returns exactly the content - for every character 0..127 alone, after and before a lower-case, a control-character and a four-digit context, for digit strings of length 1..8, and under each forced code set (whatever the writer accepts there reads back, and no content makes the fold leave the contents: odd digit counts, FNC1 between digits)", 1)
	wfd, wp := c.funcDeclOf("oned", "code128Encoder.encodeWithHints")
	rfd, rp := c.funcDeclOf("oned", "code128Reader.DecodeRow")
	key := "oned Code 128 symbol values"
	if wfd == nil || rfd == nil {
		r.AnchorLost("S-C128RT", key, "code128Encoder.encodeWithHints / code128Reader.DecodeRow not found")
		return
	}
	r.Analysed(key)
	tinit, tp := c.varInit("oned", "code128CODE_PATTERNS")
	if tinit == nil {
		r.AnchorLost("S-C128RT", key, "code128CODE_PATTERNS not found")
		return
	}
	table := c.eval(tp, tinit)
	if table.K != VList || len(table.L) < 107 {
		r.Undecided("S-C128RT", key, c.pos(tinit.Pos()), "pattern table is not a literal list")
		return
	}
	patKey := func(v *Val) string {
		xs, _ := listInts(v)
		return fmt.Sprint(xs)
	}
	index := map[string]int64{}
	for i, row := range table.L {
		index[patKey(row)] = int64(i)
	}
	var contents []string
	seen := map[string]bool{}
	add := func(s string) {
		if !seen[s] && len(s) > 0 {
			seen[s] = true
			contents = append(contents, s)
		}
	}
	for ch := 0; ch < 128; ch++ {
		s := string(rune(ch))
		add(s)
		for _, ctx := range []string{"ab", "\x01\x02", "1234"} {
			add(ctx + s)
			add(s + ctx)
			add(ctx + s + ctx)
		}
	}
	for n := 1; n <= 8; n++ {
		add("31415926"[:n])
		add("a" + "31415926"[:n])
		add("31415926"[:n] + "\x03")
	}
	bad := ""
	folds := 0
	forceKey := ""
	if k, ok := constValIn(c, "", "EncodeHintType_FORCE_CODE_SET"); ok {
		forceKey = fmt.Sprint(k)
	}
	try := func(content, force string) {
		if bad != "" {
			return
		}
		folds++
		// ---- writer
		var codes []int64
		var hintsVal *Val = &Val{K: VNil}
		wh := &rpf{unroll: 100000, maxSteps: 2000000}
		wh.callHook = func(rr *rpf, call *ast.CallExpr, callee types.Object) (*Val, bool) {
			if isFuncNamed(callee, "oned", "onedWriter_appendPattern") {
				pat := rr.expr(call.Args[2])
				k, ok := index[patKey(pat)]
				if !ok {
					rpfFail("a pattern that is not a row of code128CODE_PATTERNS is drawn")
				}
				codes = append(codes, k)
				xs, _ := listInts(pat)
				w := int64(0)
				for _, x := range xs {
					w += x
				}
				return vint(w), true
			}
			return errCtorHook(rr, call, callee)
		}
		if force != "" {
			hintsVal = &Val{K: VStruct, Fields: map[string]*Val{forceKey: vstr(force)}}
		}
		res, err := c.rpfCall(wfd, wp, []*Val{vstr(content), hintsVal}, wh)
		what := fmt.Sprintf("content %q", content)
		if force != "" {
			what += " with FORCE_CODE_SET " + force
		}
		if err != nil {
			if strings.Contains(err.Error(), "out of range") {
				bad = what + ": the writer indexes its contents out of range - a panic instead of an error (" + err.Error() + ")"
				return
			}
			bad = "?writer, " + what + ": " + err.Error()
			return
		}
		if len(res) != 2 || res[1].K != VNil {
			if force != "" {
				return // a forced set may refuse a content; what it accepts must read back
			}
			bad = what + ": the writer refuses it"
			return
		}
		if len(codes) < 3 {
			bad = what + ": fewer than three symbols are drawn"
			return
		}
		// ---- reader
		got, status := c128ReadFold(c, rfd, rp, table, codes, nil)
		failed := status == "error"
		if status != "result" && status != "error" {
			bad = "?reader, " + what + ": " + status
		}
		if bad != "" {
			return
		}
		if failed {
			bad = fmt.Sprintf("%s: the writer draws the symbol values %v and the reader rejects them (checksum / format)", what, codes)
			return
		}
		want := strings.ReplaceAll(content, "\u00f1", "") // FNC1 is a function symbol, not text (no GS1 hint here)
		if got != want {
			bad = fmt.Sprintf("%s: the writer draws the symbol values %v and the reader returns %q", what, codes, got)
		}
	}
	for _, s := range contents {
		try(s, "")
	}
	// forced code sets: whatever the writer accepts under the hint reads back; nothing makes it leave its contents
	if forceKey != "" {
		for ch := 0; ch < 128; ch++ {
			try("A"+string(rune(ch)), "A")
			try("a"+string(rune(ch)), "B")
		}
		for _, s := range []string{"12", "1234", "123", "1", "12345", "\u00f112", "\u00f1123", "12\u00f134", "1\u00f123", "12\u00f13", "\u00f1", "\u00f1\u00f112"} {
			try(s, "C")
		}
	} else {
		bad = "?EncodeHintType_FORCE_CODE_SET is not a constant"
	}
	r.Extra("S-C128RT contents", folds)
	reportFold(r, c, "S-C128RT", key, wfd.Pos(), bad)
}

type c128Stop struct{ text string }

// c128ReadFold folds code128Reader.DecodeRow with the pattern matcher replaced by the given symbol values (codes[0] is
// the start symbol; the quiet-zone tests are answered true). It returns the text handed to NewResult and "result", or
// "error" when the fold returns an error, or the fold's own failure text.
func c128ReadFold(c *Ctx, rfd *ast.FuncDecl, rp *packages.Package, table *Val, codes []int64, hints *Val) (string, string) {
	k := 1
	rh := &rpf{unroll: 100000, maxSteps: 2000000}
	rh.callHook = func(rr *rpf, call *ast.CallExpr, callee types.Object) (*Val, bool) {
		fn, ok := callee.(*types.Func)
		if !ok {
			return nil, false
		}
		switch fn.Name() {
		case "GetNextUnset":
			return rr.expr(call.Args[0]), true
		case "GetSize":
			return vint(100000), true
		case "min":
			a, b := rr.expr(call.Args[0]), rr.expr(call.Args[1])
			if a.K == VInt && b.K == VInt {
				if a.I < b.I {
					return a, true
				}
				return b, true
			}
		case "NewResultPoint":
			return &Val{K: VNil}, true
		case "NewResult":
			conv, isConv := call.Args[0].(*ast.CallExpr)
			if !isConv || len(conv.Args) != 1 {
				rpfFail("the result text is not string(result)")
			}
			bs, ok := listInts(rr.expr(conv.Args[0]))
			if !ok {
				rpfFail("the result text is not a list of constant bytes")
			}
			b := make([]byte, len(bs))
			for i, x := range bs {
				b[i] = byte(x)
			}
			panic(c128Stop{string(b)})
		}
		return errCtorHook(rr, call, callee)
	}
	rh.multiHook = func(call *ast.CallExpr, callee types.Object) ([]*Val, bool) {
		switch {
		case isFuncNamed(callee, "oned", "code128FindStartPattern"):
			return []*Val{{K: VList, L: []*Val{vint(10), vint(21), vint(codes[0])}}, {K: VNil}}, true
		case isFuncNamed(callee, "oned", "code128DecodeCode"):
			if k >= len(codes) {
				rpfFail("the reader asks for more symbols than the script holds")
			}
			code := codes[k]
			k++
			if cnt := rpfCurrent.expr(call.Args[1]); cnt.K == VList && cnt.Local {
				row, _ := listInts(table.L[code])
				for i := range cnt.L {
					if i < len(row) {
						cnt.L[i] = vint(row[i])
					}
				}
			}
			return []*Val{vint(code), {K: VNil}}, true
		case isMethodNamed(callee, "", "BitArray", "IsRange"):
			return []*Val{vbool(true), {K: VNil}}, true
		}
		return nil, false
	}
	if hints == nil {
		hints = &Val{K: VNil}
	}
	got, status := "", ""
	func() {
		defer func() {
			if x := recover(); x != nil {
				if s, ok := x.(c128Stop); ok {
					got, status = s.text, "result"
					return
				}
				panic(x)
			}
		}()
		_, rerr := c.rpfCall(rfd, rp, []*Val{vint(0), {K: VNil}, hints}, rh)
		if rerr != nil {
			status = rerr.Error()
			return
		}
		status = "error"
	}()
	return got, status
}

// S-C128TOTAL: the Code 128 row decoder on arbitrary symbol-value sequences whose check symbol verifies
func checkCode128ReaderTotal(c *Ctx, r *Report) {
	r.Rule("S-C128TOTAL", "code128Reader.DecodeRow, folded from source with the pattern matcher replaced by a script of symbol values - each of the three start symbols, then every first symbol value 0..105, then nothing or one of the values 0, 64, 95..105, then the check symbol that makes the mod-103 test pass, then STOP, without hints and with ASSUME_GS1 - either returns an error or builds a result: the removal of the check symbol's characters from the text (one character, two in code set C, none when it read as a function symbol) never slices below zero, whatever symbol the check value happens to be; a script of data symbols only is read (also when its check value is 98, the SHIFT symbol, or another function symbol) and is refused with its check symbol off by one", 1)
	rfd, rp := c.funcDeclOf("oned", "code128Reader.DecodeRow")
	key := "oned.code128Reader.DecodeRow scripted symbol values"
	if rfd == nil {
		r.AnchorLost("S-C128TOTAL", key, "code128Reader.DecodeRow not found")
		return
	}
	r.Analysed(key)
	tinit, tp := c.varInit("oned", "code128CODE_PATTERNS")
	if tinit == nil {
		r.AnchorLost("S-C128TOTAL", key, "code128CODE_PATTERNS not found")
		return
	}
	table := c.eval(tp, tinit)
	if table.K != VList || len(table.L) < 107 {
		r.Undecided("S-C128TOTAL", key, c.pos(tinit.Pos()), "pattern table is not a literal list")
		return
	}
	gs1Key := ""
	if k, ok := constValIn(c, "", "DecodeHintType_ASSUME_GS1"); ok {
		gs1Key = fmt.Sprint(k)
	}
	bad := ""
	folds, results := 0, 0
	seconds := []int64{-1, 0, 64, 95, 96, 97, 98, 99, 100, 101, 102, 103, 104, 105}
	for _, start := range []int64{103, 104, 105} {
		for v1 := int64(0); v1 <= 105 && bad == ""; v1++ {
			for _, v2 := range seconds {
				if v1 >= 103 || v2 >= 103 {
					continue // start symbols inside a symbol are refused before anything else (S-C128RT covers the exit)
				}
				codes := []int64{start, v1}
				sum := start + v1
				if v2 >= 0 {
					codes = append(codes, v2)
					sum += 2 * v2
				}
				codes = append(codes, sum%103, 106)
				for _, gs1 := range []bool{false, true} {
					var hints *Val
					if gs1 {
						if gs1Key == "" || v2 >= 0 && v2 != 102 && v1 != 102 {
							continue
						}
						hints = &Val{K: VStruct, Fields: map[string]*Val{gs1Key: vbool(true)}}
					}
					_, status := c128ReadFold(c, rfd, rp, table, codes, hints)
					folds++
					// plain data symbols only (no function or code-set symbol): the symbol is valid and must be read,
					// and with its check symbol off by one it must be refused
					plain := v1 < 96 && v2 < 96
					if start == 105 {
						plain = v1 < 100 && v2 < 100
					}
					if plain && !gs1 {
						if status == "error" {
							bad = fmt.Sprintf("symbol values %v - data symbols only, check symbol %d as the standard computes it - are refused", codes, sum%103)
							break
						}
						wrong := append(append([]int64{}, codes[:len(codes)-2]...), (sum+1)%103, 106)
						if _, st2 := c128ReadFold(c, rfd, rp, table, wrong, hints); st2 == "result" {
							bad = fmt.Sprintf("symbol values %v, whose check symbol should be %d, are read as a symbol: the mod-103 check does not hold", wrong, sum%103)
							break
						}
						folds++
					}
					switch {
					case status == "result":
						results++
					case status == "error":
					case strings.Contains(status, "out of range"):
						bad = fmt.Sprintf("symbol values %v (check symbol %d verifies): %s - a panic instead of a result or an error", codes, sum%103, status)
					default:
						bad = fmt.Sprintf("?symbol values %v: %s", codes, status)
					}
					if bad != "" {
						break
					}
				}
				if bad != "" {
					break
				}
			}
		}
	}
	r.Extra("S-C128TOTAL scripts folded / giving a result", fmt.Sprintf("%d/%d", folds, results))
	if bad == "" && results < 1000 {
		bad = fmt.Sprintf("?only %d of %d scripts reach the result: the script no longer drives the decoder", results, folds)
	}
	reportFold(r, c, "S-C128TOTAL", key, rfd.Pos(), bad)
}

// checkUPCADelegation: UPC-A is written as the EAN-13 symbol of "0" + contents, the contents as given.
func checkUPCADelegation(c *Ctx, r *Report, rule string) {
	fd, p := c.funcDeclOf("oned", "upcAWriter.Encode")
	key := "oned.upcAWriter.Encode"
	if fd == nil {
		r.AnchorLost(rule, key, "method not found")
		return
	}
	r.Analysed(key)
	ok := false
	for _, call := range findCalls(p, fd.Body, func(o types.Object) bool { fn, isF := o.(*types.Func); return isF && fn.Name() == "Encode" }) {
		if be, isB := ast.Unparen(call.Args[0]).(*ast.BinaryExpr); isB && be.Op == token.ADD && len(call.Args) >= 2 {
			if tv := p.TypesInfo.Types[be.X]; tv.Value != nil && tv.Value.ExactString() == `"0"` && identObj(p, be.Y) == paramObjs(p, fd)[0] {
				if sel, isS := call.Args[1].(*ast.SelectorExpr); isS && sel.Sel.Name == "BarcodeFormat_EAN_13" {
					ok = true
				}
			}
		}
	}
	// the contents reach the EAN-13 writer as given: the parameter is never reassigned on the way (a truncated 12th digit
	// would never be verified)
	ast.Inspect(fd.Body, func(n ast.Node) bool {
		if as, isA := n.(*ast.AssignStmt); isA {
			for _, l := range as.Lhs {
				if identObj(p, l) == paramObjs(p, fd)[0] {
					ok = false
				}
			}
		}
		return true
	})
	_ = typeutil.Callee
	_ = math.MaxInt32
	r.Check(ok, rule, key, c.pos(fd.Pos()), "UPC-A must be written as the EAN-13 symbol of \"0\" + the contents as given (so that 11 / 12 digits are accepted and a supplied check digit is verified there)")
}

// M-ROWSCAN: which rows of an image the 1-D readers look at
func checkRowScan(c *Ctx, r *Report) {
	r.Rule("M-ROWSCAN", "OneDReader.doDecode, folded from source for image heights 1..70 with and without TRY_HARDER (rows delivered, every row decode answered with a not-found error so that the scan runs to its end): the first row examined is the middle row height/2 and lies inside the image for every height >= 1 (a one-row image is examined), every examined row lies inside the image, no row twice, rows alternate around the middle in steps of max(1, height >> 5) (>> 8 when trying harder), up to 15 rows (all rows when trying harder), each row is tried upright and reversed with the caller's hints on both attempts, and the answer after an unsuccessful scan is a not-found error", 2)
	fd, p := c.funcDeclOf("oned", "OneDReader.doDecode")
	if fd == nil {
		r.AnchorLost("M-ROWSCAN", "oned.OneDReader.doDecode", "method not found")
		return
	}
	thKey := ""
	if tv, ok := constValIn(c, "", "DecodeHintType_TRY_HARDER"); ok {
		thKey = fmt.Sprint(tv)
	}
	for _, tryHarder := range []bool{false, true} {
		key := fmt.Sprintf("oned.OneDReader.doDecode tryHarder=%v", tryHarder)
		r.Analysed(key)
		bad := ""
		for h := int64(1); h <= 70 && bad == ""; h++ {
			var rows []int64
			attempts := map[int64]int{}
			reversed := map[int64]int{}
			cur := int64(-1)
			hintBad := ""
			hints := &Val{K: VNil}
			if tryHarder {
				if thKey == "" {
					bad = "?DecodeHintType_TRY_HARDER is not a constant"
					break
				}
				hints = &Val{K: VStruct, Fields: map[string]*Val{thKey: vbool(true)}}
			}
			hk := &rpf{unroll: 100000, maxSteps: 2000000}
			hk.callHook = func(rr *rpf, call *ast.CallExpr, callee types.Object) (*Val, bool) {
				fn, ok := callee.(*types.Func)
				if !ok {
					if b, isB := callee.(*types.Builtin); isB && (b.Name() == "max" || b.Name() == "min") && len(call.Args) == 2 {
						a, bb := rr.expr(call.Args[0]), rr.expr(call.Args[1])
						if a.K == VInt && bb.K == VInt {
							if (a.I > bb.I) == (b.Name() == "max") {
								return a, true
							}
							return bb, true
						}
					}
					return nil, false
				}
				switch fn.Name() {
				case "GetWidth":
					return vint(100), true
				case "GetHeight":
					return vint(h), true
				case "NewBitArray":
					return &Val{K: VStruct, Ptr: true, Fields: map[string]*Val{}}, true
				case "Reverse":
					reversed[cur]++
					return &Val{K: VNil}, true
				case "max", "min":
					a, b := rr.expr(call.Args[0]), rr.expr(call.Args[1])
					if a.K == VInt && b.K == VInt {
						if (a.I > b.I) == (fn.Name() == "max") {
							return a, true
						}
						return b, true
					}
				case "NewNotFoundException":
					return vstr("error:NotFound"), true
				}
				return errCtorHook(rr, call, callee)
			}
			hk.multiHook = func(call *ast.CallExpr, callee types.Object) ([]*Val, bool) {
				fn, ok := callee.(*types.Func)
				if !ok {
					return nil, false
				}
				switch fn.Name() {
				case "GetBlackRow":
					y := rpfCurrent.expr(call.Args[0])
					if y.K != VInt {
						rpfFail("GetBlackRow with a non-constant row")
					}
					rows = append(rows, y.I)
					cur = y.I
					return []*Val{{K: VStruct, Ptr: true, Fields: map[string]*Val{}}, {K: VNil}}, true
				case "DecodeRow":
					y := rpfCurrent.expr(call.Args[0])
					if y.K != VInt || y.I != cur {
						rpfFail("DecodeRow is given a row number other than the row just fetched")
					}
					attempts[cur]++
					if hv := rpfCurrent.expr(call.Args[2]); hv != hints && !(hv.K == VNil && hints.K == VNil) {
						if hintBad == "" {
							hintBad = fmt.Sprintf("row %d, attempt %d: DecodeRow is not given the caller's hints (only the result-point callback may be removed for the reversed attempt, and none was given)", cur, attempts[cur])
						}
					}
					return []*Val{{K: VNil}, vstr("error:NotFound")}, true
				}
				return nil, false
			}
			hk.assertHook = func(rr *rpf, ta *ast.TypeAssertExpr, v *Val) (bool, bool) {
				if v.K != VStr || !strings.HasPrefix(v.S, "error:") {
					return false, false
				}
				tn := types.ExprString(ta.Type)
				// a not-found error is a NotFoundException and a ReaderException
				return strings.HasSuffix(tn, "NotFoundException") || strings.HasSuffix(tn, "ReaderException"), true
			}
			res, err := c.rpfCall(fd, p, []*Val{{K: VStruct, Ptr: true, Fields: map[string]*Val{}}, hints}, hk)
			if err != nil {
				bad = "?" + err.Error()
				break
			}
			what := fmt.Sprintf("height %d", h)
			if hintBad != "" {
				bad = what + ", " + hintBad
				break
			}
			if len(res) != 2 || res[0].K != VNil || res[1].K != VStr || res[1].S != "error:NotFound" {
				bad = what + ": an unsuccessful scan does not end in a not-found error"
				break
			}
			step := h >> 5
			maxLines := int64(15)
			if tryHarder {
				step, maxLines = h>>8, h
			}
			if step < 1 {
				step = 1
			}
			var want []int64
			for x := int64(0); x < maxLines; x++ {
				y := h / 2
				if x%2 == 0 {
					y += step * ((x + 1) / 2)
				} else {
					y -= step * ((x + 1) / 2)
				}
				if y < 0 || y >= h {
					break
				}
				want = append(want, y)
			}
			if fmt.Sprint(rows) != fmt.Sprint(want) {
				bad = fmt.Sprintf("%s: rows examined %v, the scan from the middle outwards is %v", what, rows, want)
				break
			}
			for _, y := range rows {
				if attempts[y] != 2 || reversed[y] != 1 {
					bad = fmt.Sprintf("%s: row %d is decoded %d times and reversed %d times (once upright, once reversed)", what, y, attempts[y], reversed[y])
					break
				}
			}
		}
		reportFold(r, c, "M-ROWSCAN", key, fd.Pos(), bad)
	}
}

// M-NUMERIC: the shared digits-only test of the 1-D writers
func checkNumericOnly(c *Ctx, r *Report) {
	r.Rule("M-NUMERIC", "onedWriter_checkNumeric, folded for the empty string, every one-byte string, every pair of an ASCII digit with a byte of each class in both orders and a list of non-ASCII decimal digits (Arabic-Indic, fullwidth, Bengali, Devanagari), accepts exactly the strings whose bytes are all '0'..'9': the writers that call it (ITF, the UPC/EAN family) index their ten-entry pattern tables with contents[i] - '0' byte by byte afterwards", 1)
	fd, p := c.funcDeclOf("oned", "onedWriter_checkNumeric")
	key := "oned.onedWriter_checkNumeric"
	if fd == nil {
		r.AnchorLost("M-NUMERIC", key, "function not found")
		return
	}
	r.Analysed(key)
	var inputs []string
	inputs = append(inputs, "")
	for b := 0; b < 256; b++ {
		inputs = append(inputs, string([]byte{byte(b)}))
		for _, d := range []byte{'0', '5', '9'} {
			inputs = append(inputs, string([]byte{d, byte(b)}), string([]byte{byte(b), d}))
		}
	}
	inputs = append(inputs, "١٢", "１２３４", "12٣٤56", "০১", "०", "1²", "①")
	bad := ""
	for _, in := range inputs {
		res, err := c.rpfCall(fd, p, []*Val{vstr(in)}, &rpf{unroll: 100, callHook: errCtorHook})
		if err != nil {
			bad = "?" + err.Error()
			break
		}
		want := true
		for i := 0; i < len(in); i++ {
			if in[i] < '0' || in[i] > '9' {
				want = false
			}
		}
		accepted := len(res) == 1 && res[0].K == VNil
		if accepted != want {
			bad = fmt.Sprintf("onedWriter_checkNumeric(%q) %s; the string %s only of the bytes '0'..'9'", in, map[bool]string{true: "accepts", false: "rejects"}[accepted], map[bool]string{true: "consists", false: "does not consist"}[want])
			break
		}
	}
	r.Extra("M-NUMERIC inputs", len(inputs))
	reportFold(r, c, "M-NUMERIC", key, fd.Pos(), bad)
}

// M-TRYNEXT: the multi-format UPC/EAN reader moves on to the next sub-reader after any kind of reader failure
func checkTryNextReader(c *Ctx, r *Report) {
	r.Rule("M-TRYNEXT", "multiFormatUPCEANReader.DecodeRow: when a sub-reader fails on the row, the loop over the readers continues with the next one for every kind of reader failure - not found, checksum and format alike (the failure handling inside the loop is folded for the three kinds; the type it asks the error for is resolved with go/types) - and only an error that is no reader failure ends the loop: a symbol is not lost because a reader listed earlier in POSSIBLE_FORMATS rejected it with a format or checksum error", 1)
	fd, p := c.funcDeclOf("oned", "multiFormatUPCEANReader.DecodeRow")
	key := "oned.multiFormatUPCEANReader.DecodeRow/next-reader"
	if fd == nil {
		r.AnchorLost("M-TRYNEXT", key, "method not found")
		return
	}
	r.Analysed(key)
	var loop *ast.RangeStmt
	ast.Inspect(fd.Body, func(n ast.Node) bool {
		if rs, ok := n.(*ast.RangeStmt); ok && loop == nil {
			if len(findCalls(p, rs.Body, func(o types.Object) bool {
				fn, ok := o.(*types.Func)
				return ok && fn.Name() == "decodeRowWithStartRange"
			})) == 1 {
				loop = rs
			}
		}
		return true
	})
	if loop == nil {
		r.Undecided("M-TRYNEXT", key, c.pos(fd.Pos()), "the loop over the sub-readers was not found")
		return
	}
	// the error of the sub-reader call and the first statement that looks at it
	var errObj types.Object
	var handler ast.Stmt
	for _, st := range loop.Body.List {
		if as, ok := st.(*ast.AssignStmt); ok && len(as.Lhs) == 2 && len(as.Rhs) == 1 && errObj == nil {
			if call, isC := as.Rhs[0].(*ast.CallExpr); isC {
				if fn, isF := typeutil.Callee(p.TypesInfo, call).(*types.Func); isF && fn.Name() == "decodeRowWithStartRange" {
					errObj = identObj(p, as.Lhs[1])
					continue
				}
			}
		}
		if errObj != nil && handler == nil && usesIdent(p, st, errObj) {
			handler = st
		}
	}
	if errObj == nil || handler == nil {
		r.Undecided("M-TRYNEXT", key, c.pos(loop.Pos()), "the sub-reader call / its failure handling was not found")
		return
	}
	root := c.Pkgs[modPath]
	kinds := map[string]types.Type{}
	for _, k := range []string{"NotFoundException", "ChecksumException", "FormatException"} {
		if o := root.Types.Scope().Lookup(k); o != nil {
			kinds[k] = o.Type()
		}
	}
	if len(kinds) != 3 {
		r.Undecided("M-TRYNEXT", key, c.pos(loop.Pos()), "the three reader-failure kinds were not found in the root package")
		return
	}
	bad := ""
	for _, k := range []string{"NotFoundException", "ChecksumException", "FormatException"} {
		kt := kinds[k]
		env := map[types.Object]*Val{errObj: vstr("failure:" + k)}
		rr := &rpf{c: c, p: p, env: env, curFn: fd}
		rr.assertHook = func(x *rpf, ta *ast.TypeAssertExpr, v *Val) (bool, bool) {
			if v.K != VStr || !strings.HasPrefix(v.S, "failure:") {
				return false, false
			}
			it, ok := p.TypesInfo.TypeOf(ta.Type).Underlying().(*types.Interface)
			if !ok {
				return false, true // a concrete type: not what the library's constructors return through this interface
			}
			return types.Implements(kt, it), true
		}
		rr.callHook = errCtorHook
		outcome := "falls through to the result handling"
		func() {
			defer func() {
				if y := recover(); y != nil {
					switch e := y.(type) {
					case rpfContinue:
						outcome = "continue"
					case *rpfErr:
						outcome = "?" + e.Error()
					default:
						panic(y)
					}
				}
			}()
			if ret := rr.stmtC(handler); ret != nil {
				outcome = "the error is returned"
			}
		}()
		if outcome != "continue" {
			if outcome[0] == '?' {
				bad = outcome
			} else {
				bad = fmt.Sprintf("after a sub-reader fails with a %s the next reader is not tried: %s", k, outcome)
			}
			break
		}
	}
	reportFold(r, c, "M-TRYNEXT", key, handler.Pos(), bad)
}

// S-CODABARW: the Codabar writer's buffer arithmetic, as a whole function
func checkCodabarWriterWhole(c *Ctx, r *Report) {
	r.Rule("S-CODABARW", "codabarEncoder.encodeWithHints, folded as a whole function (tables read from the source) on contents that put every character of the alphabet between guards, on contents without guards and with the alternative guard letters: the module slice it returns is exactly the characters' 7 elements (narrow 1, wide 2 modules, bars and spaces alternating from a bar) separated by one white module - its precomputed length is the number of modules written, no write lands outside it", 1)
	fd, p := c.funcDeclOf("oned", "codabarEncoder.encodeWithHints")
	key := "oned.codabarEncoder.encodeWithHints/whole"
	if fd == nil {
		r.AnchorLost("S-CODABARW", key, "method not found")
		return
	}
	r.Analysed(key)
	alphaObj := c.lookupObj("oned", "codabarReader_ALPHABET")
	encInit, ep := c.varInit("oned", "codabarReader_CHARACTER_ENCODINGS")
	if alphaObj == nil || encInit == nil {
		r.AnchorLost("S-CODABARW", key, "alphabet / encodings table not found")
		return
	}
	alpha := ""
	if k, ok := alphaObj.(*types.Const); ok {
		alpha = constant.StringVal(k.Val())
	}
	encs, ok := listInts(c.eval(ep, encInit))
	if !ok || len(encs) != len(alpha) || len(alpha) != 20 {
		r.Undecided("S-CODABARW", key, c.pos(fd.Pos()), "alphabet / encodings table not constant")
		return
	}
	render := func(text string) []bool {
		var out []bool
		for i := 0; i < len(text); i++ {
			code := encs[strings.IndexByte(alpha, text[i])]
			color := true
			for bit := 0; bit < 7; bit++ {
				out = append(out, color)
				if (code>>uint(6-bit))&1 == 1 {
					out = append(out, color)
				}
				color = !color
			}
			if i < len(text)-1 {
				out = append(out, false)
			}
		}
		return out
	}
	// the writer's own package variables: literal lists, and the default guard derived from the first of them
	globals := map[types.Object]*Val{}
	for _, n := range []string{"codabarWriter_START_END_CHARS", "codabarWriter_ALT_START_END_CHARS", "codabarWriter_CHARS_WHICH_ARE_TEN_LENGTH_EACH_AFTER_DECODED", "codabarReader_CHARACTER_ENCODINGS"} {
		if o := c.lookupObj("oned", n); o != nil {
			if init, ip := c.varInitOfObj(o); init != nil {
				globals[o] = c.eval(ip, init)
			}
		}
	}
	if o := c.lookupObj("oned", "codabarWriter_DEFAULT_GUARD"); o != nil {
		if init, ip := c.varInitOfObj(o); init != nil {
			if v, err := c.rpfExpr(ip, init, globals, nil); err == nil {
				globals[o] = v
			}
		}
	}
	type tc struct{ in, as string }
	var cases []tc
	for i := 0; i < 16; i++ {
		ch := string(alpha[i])
		cases = append(cases, tc{"A" + ch + "B", "A" + ch + "B"}, tc{ch + ch, "A" + ch + ch + "A"})
	}
	cases = append(cases, tc{"C1:2-/.+$D", "C1:2-/.+$D"}, tc{"T12N", "A12B"}, tc{"*9:E", "C9:D"}, tc{"7", "A7A"}, tc{"a1b", "A1B"})
	bad := ""
	for _, cs := range cases {
		h := &rpf{unroll: 4096, maxSteps: 400000}
		h.callHook = func(rr *rpf, call *ast.CallExpr, callee types.Object) (*Val, bool) {
			if fn, ok := callee.(*types.Func); ok && fn.Pkg() != nil && fn.Pkg().Path() == "strings" && fn.Name() == "ToUpper" && len(call.Args) == 1 {
				if v := rr.expr(call.Args[0]); v.K == VStr {
					return vstr(strings.ToUpper(v.S)), true
				}
			}
			return errCtorHook(rr, call, callee)
		}
		res, err := c.rpfCallWithGlobals(fd, p, []*Val{vstr(cs.in), {K: VNil}}, h, globals)
		if err != nil {
			if strings.Contains(err.Error(), "out of range") || strings.Contains(err.Error(), "outside a local list") {
				bad = fmt.Sprintf("contents %q: the writer indexes outside its module slice (%v): a run-time panic", cs.in, err)
			} else {
				bad = fmt.Sprintf("?contents %q: %v", cs.in, err)
			}
			break
		}
		if len(res) != 2 || res[1].K != VNil || res[0].K != VList {
			bad = fmt.Sprintf("contents %q: refused, although every character is in the Codabar alphabet", cs.in)
			break
		}
		want := render(cs.as)
		var got []bool
		for _, e := range res[0].L {
			got = append(got, e.K == VBool && e.B)
		}
		if fmt.Sprint(got) != fmt.Sprint(want) {
			bad = fmt.Sprintf("contents %q: %d modules %s; the characters %q are %d modules %s", cs.in, len(got), boolString(got), cs.as, len(want), boolString(want))
			break
		}
	}
	reportFold(r, c, "S-CODABARW", key, fd.Pos(), bad)
}

func boolString(bs []bool) string {
	var sb strings.Builder
	for _, b := range bs {
		if b {
			sb.WriteByte('1')
		} else {
			sb.WriteByte('0')
		}
	}
	return sb.String()
}

// M-UPCEANSET: the sub-readers the multi-format UPC/EAN reader installs for a POSSIBLE_FORMATS hint
func checkUPCEANReaderSet(c *Ctx, r *Report) {
	r.Rule("M-UPCEANSET", "NewMultiFormatUPCEANReader, folded with the four reader constructors replaced by tags, for no hint, for every non-empty subset of {EAN_13, UPC_A, EAN_8, UPC_E} in two orders, and for a list of other formats only: every requested format has a reader that reads it (UPC-A its own or the EAN-13 reader, whose result is re-labelled), and without a usable request EAN-13, EAN-8 and UPC-E readers are installed - a symbol of a requested format is never without a reader", 1)
	fd, p := c.funcDeclOf("oned", "NewMultiFormatUPCEANReader")
	key := "oned.NewMultiFormatUPCEANReader/readers"
	if fd == nil {
		r.AnchorLost("M-UPCEANSET", key, "constructor not found")
		return
	}
	r.Analysed(key)
	hk, ok := constValIn(c, "", "DecodeHintType_POSSIBLE_FORMATS")
	fmts := map[string]int64{}
	for _, n := range []string{"EAN_13", "UPC_A", "EAN_8", "UPC_E", "CODE_128"} {
		v, okf := constValIn(c, "", "BarcodeFormat_"+n)
		ok = ok && okf
		fmts[n] = v
	}
	if !ok {
		r.Undecided("M-UPCEANSET", key, c.pos(fd.Pos()), "hint key / format constants not found")
		return
	}
	ctorKind := map[string]string{"NewEAN13Reader": "EAN_13", "NewUPCAReader": "UPC_A", "NewEAN8Reader": "EAN_8", "NewUPCEReader": "UPC_E"}
	names := []string{"EAN_13", "UPC_A", "EAN_8", "UPC_E"}
	var requests [][]string
	requests = append(requests, nil, []string{"CODE_128"})
	for m := 1; m < 16; m++ {
		var fwd []string
		for i, n := range names {
			if m>>uint(i)&1 == 1 {
				fwd = append(fwd, n)
			}
		}
		requests = append(requests, fwd)
		if len(fwd) > 1 {
			rev := make([]string, len(fwd))
			for i, n := range fwd {
				rev[len(fwd)-1-i] = n
			}
			requests = append(requests, rev)
		}
	}
	bad := ""
	for _, req := range requests {
		hints := &Val{K: VStruct, Fields: map[string]*Val{}} // an empty hints map
		var list *Val
		if req != nil {
			list = &Val{K: VList}
			for _, n := range req {
				list.L = append(list.L, vint(fmts[n]))
			}
			hints = &Val{K: VStruct, Fields: map[string]*Val{fmt.Sprint(hk): list}}
		}
		var installed *Val
		h := &rpf{unroll: 100, effectCalls: true}
		h.assertHook = func(rr *rpf, ta *ast.TypeAssertExpr, v *Val) (bool, bool) {
			if v != nil && v.K == VStruct && v.Fields["kind"] != nil {
				return true, true // a tagged reader asserted to its own concrete type
			}
			return v == list && list != nil, true
		}
		h.callHook = func(rr *rpf, call *ast.CallExpr, callee types.Object) (*Val, bool) {
			if fn, isF := callee.(*types.Func); isF {
				if k, isCtor := ctorKind[fn.Name()]; isCtor {
					return &Val{K: VStruct, Ptr: true, Local: true, Fields: map[string]*Val{"kind": vstr(k)}}, true
				}
				if fn.Name() == "NewOneDReader" {
					if len(call.Args) == 1 {
						if t := rr.expr(call.Args[0]); t.K == VStruct {
							installed = t.Fields["readers"]
						}
					}
					return &Val{K: VStruct, Ptr: true, Fields: map[string]*Val{}}, true
				}
			}
			return nil, false
		}
		res, err := c.rpfCall(fd, p, []*Val{hints}, h)
		what := fmt.Sprintf("POSSIBLE_FORMATS %v", req)
		if req == nil {
			what = "no hint"
		}
		if err != nil {
			bad = "?" + what + ": " + err.Error()
			break
		}
		if installed == nil && len(res) == 1 && res[0].K == VStruct {
			installed = res[0].Fields["readers"]
		}
		if installed == nil || installed.K != VList {
			bad = "?" + what + ": the reader list was not found in the result"
			break
		}
		have := map[string]bool{}
		for _, rd := range installed.L {
			if rd.K == VStruct && rd.Fields["kind"] != nil {
				have[rd.Fields["kind"].S] = true
			}
		}
		need := req
		usable := false
		for _, n := range req {
			if n != "CODE_128" {
				usable = true
			}
		}
		if !usable {
			need = []string{"EAN_13", "UPC_A", "EAN_8", "UPC_E"}
		}
		for _, n := range need {
			if n == "CODE_128" {
				continue
			}
			if !(have[n] || n == "UPC_A" && have["EAN_13"]) {
				bad = fmt.Sprintf("%s: no installed reader reads %s (installed: %v)", what, n, keysOf(have))
				break
			}
		}
		if bad != "" {
			break
		}
	}
	reportFold(r, c, "M-UPCEANSET", key, fd.Pos(), bad)
}

func keysOf(m map[string]bool) []string {
	var out []string
	for k := range m {
		out = append(out, k)
	}
	sort.Strings(out)
	return out
}
