package main

import (
	"fmt"
	"go/ast"
	"go/token"
	"go/types"
	"math"
	"sort"
	"strconv"
	"strings"

	"golang.org/x/tools/go/packages"
	"golang.org/x/tools/go/ssa"
	"golang.org/x/tools/go/types/typeutil"
)

func init() {
	registerProp("C14", "Rendering geometry", checkC14)
}

// engine_render: the values reaching NewBitMatrix(w, h) and SetRegion(x, y, w, h) in the three renderers are
// lifted to terms over the function's inputs (polynomial normal form, opaque integer divisions, max/min from
// diamonds and helper functions, induction variables as init + K*step) and compared with the property's formulae.

type renderSpec struct {
	rel, fn  string
	kind     string // "qr", "dm", "oned"
	minCalls int
}

func checkC14(c *Ctx, r *Report) {
	declareRenderRules(r, 3)
	r.Rule("R-MARGIN", "default quiet zones: QR 4 modules per side, 1-D writers 10 modules in total, UPC/EAN writers 9; a MARGIN hint replaces them; BitMatrix.At maps a set bit to black", 4)
	renderQR(c, r)
	renderDM(c, r)
	renderOneD(c, r)
	renderMargins(c, r)
	checkOnlyPainter(c, r)
	checkMarginNonNegative(c, r)
	checkQRMarginHint(c, r)
	checkOneDMarginHint(c, r)
	checkForwardOrder(c, r, 0) // no minimum: wrappers that share no parameter names with their callee are not instances
	checkEncodeHintsUsed(c, r, 4)
	checkWriterStateless(c, r)
	checkWholeOps(c, r) // SetRegion's own bit arithmetic (same obligations as under C16)
	r.Note("not decided: that sampling block centres returns the module matrix is a consequence of these terms plus SetRegion's contract")
}

// declareRenderRules declares the rendering-term rules (shared by C14 and the round-trip properties, whose statements
// quantify over the requested pixel size); n is the number of renderers the caller runs them on.
func declareRenderRules(r *Report, n int) {
	r.Rule("R-SIZE", "output matrix size term: QR/1-D max(requested, symbol + quiet zone) per axis (1-D height max(1, requested)); Data Matrix: requested size when the symbol fits in both directions, the bare symbol size otherwise", n)
	r.Rule("R-SCALE", "module size term: the integer quotient out / (symbol + quiet zone), minimum over both axes for 2-D", n)
	r.Rule("R-PAD", "padding term: (out - symbol*scale) / 2 per axis (Data Matrix: zero when the request is smaller than the symbol)", n)
	r.Rule("R-BLOCK", "each set module (i, j) is painted as SetRegion(padX + i*scale, padY + j*scale, scale, scale) (1-D: (pad + i*scale, 0, scale, outHeight)) exactly when the input module is set; loops cover the whole symbol; the output is a matrix made in the function (or cleared there); no other call writes into the output matrix and no matrix is returned before the module loop", n)
}

func pureGetter(o types.Object) bool {
	f, ok := o.(*types.Func)
	if !ok {
		return false
	}
	n := f.Name()
	return strings.HasPrefix(n, "Get") || n == "max" || n == "min"
}

// findCallArgs: symbolic arguments of the (single) call to callee pred, with the condition stack
func callsTo(s *symExec, pred func(types.Object) bool) []symCall {
	var out []symCall
	for _, cl := range s.calls {
		if pred(cl.Callee) {
			out = append(out, cl)
		}
	}
	return out
}

func kAtoms(p *Poly) []string { return atomsWithPrefix(p.String(), "K~") }

func renderQR(c *Ctx, r *Report) {
	defer checkRenderWhole(c, r, "qr") // the whole-function fold that decides when the term matcher below does not recognise the code
	fd, p := c.funcDeclOf("qrcode", "renderResult")
	key := "qrcode.renderResult"
	if fd == nil {
		for _, rule := range []string{"R-SIZE", "R-SCALE", "R-PAD", "R-BLOCK"} {
			r.AnchorLost(rule, key, "function not found")
		}
		return
	}
	r.Analysed(key)
	ps := paramObjs(p, fd)
	s := c.symFunc(fd, p, pureGetter)
	code, width, height, quiet := polyAtom(objAtom(ps[0])), polyAtom(objAtom(ps[1])), polyAtom(objAtom(ps[2])), polyAtom(objAtom(ps[3]))
	input := polyAtom("call:(*qrcode/encoder.QRCode).GetMatrix(" + code.String() + ")")
	inW := polyAtom("call:(*qrcode/encoder.ByteMatrix).GetWidth(" + input.String() + ")")
	inH := polyAtom("call:(*qrcode/encoder.ByteMatrix).GetHeight(" + input.String() + ")")
	qrW, qrH := inW.add(quiet.mul(polyInt(2))), inH.add(quiet.mul(polyInt(2)))
	outW, outH := symMax(qrW, width), symMax(qrH, height)
	scale := symMin(symDiv("idiv", outW, qrW), symDiv("idiv", outH, qrH))
	padX := symDiv("idiv", outW.sub(inW.mul(scale)), polyInt(2))
	padY := symDiv("idiv", outH.sub(inH.mul(scale)), polyInt(2))

	nb := callsTo(s, func(o types.Object) bool { return isFuncNamed(o, "", "NewBitMatrix") })
	if len(nb) != 1 {
		r.Undecided("R-SIZE", key, c.pos(fd.Pos()), fmt.Sprintf("%d NewBitMatrix calls", len(nb)))
	} else {
		ok := nb[0].Args[0].equal(outW) && nb[0].Args[1].equal(outH)
		r.Check(ok, "R-SIZE", key, c.pos(nb[0].Call.Pos()), fmt.Sprintf("NewBitMatrix(%s, %s); expected (max(width, symbol+2*quiet), max(height, symbol+2*quiet))", prettyPoly(nb[0].Args[0]), prettyPoly(nb[0].Args[1])))
	}
	sr := callsTo(s, func(o types.Object) bool { return isMethodNamed(o, "", "BitMatrix", "SetRegion") })
	if len(sr) != 1 {
		r.Undecided("R-BLOCK", key, c.pos(fd.Pos()), fmt.Sprintf("%d SetRegion calls", len(sr)))
		return
	}
	a := sr[0].Args
	r.Check(a[2].equal(scale) && a[3].equal(scale), "R-SCALE", key, c.pos(sr[0].Call.Pos()),
		fmt.Sprintf("block size (%s, %s); expected min(outW / (symbol+2*quiet), outH / (symbol+2*quiet)) on both axes", prettyPoly(a[2]), prettyPoly(a[3])))
	// x = padX + Kx*scale, y = padY + Ky*scale with distinct K's
	okPad, okBlock := false, false
	kx, ky := kAtoms(a[0].sub(padX)), kAtoms(a[1].sub(padY))
	if len(kx) >= 1 && len(ky) >= 1 {
		for _, x := range kx {
			for _, y := range ky {
				if x != y && a[0].equal(padX.add(polyAtom(x).mul(scale))) && a[1].equal(padY.add(polyAtom(y).mul(scale))) {
					okPad = true
					// the guarding condition: input.Get(Kx, Ky) == 1
					want := polyAtom("call:(*qrcode/encoder.ByteMatrix).Get(" + input.String() + ";" + polyAtom(x).String() + ";" + polyAtom(y).String() + ")")
					for _, cd := range sr[0].Conds {
						if cd.op == token.EQL && !cd.neg && cd.l.equal(want) && cd.r.equal(polyInt(1)) {
							okBlock = true
						}
					}
				}
			}
		}
	}
	r.Check(okPad, "R-PAD", key, c.pos(sr[0].Call.Pos()), fmt.Sprintf("block origin (%s, %s); expected ((outW - symbol*scale)/2 + i*scale, (outH - symbol*scale)/2 + j*scale)", prettyPoly(a[0]), prettyPoly(a[1])))
	loopsOK := checkCountedLoops(c, p, fd, sr[0].Call, []string{"GetHeight", "GetWidth"})
	r.Check(okBlock && loopsOK, "R-BLOCK", key, c.pos(sr[0].Call.Pos()), fmt.Sprintf("SetRegion must be guarded by input.Get(i, j) == 1 for the same (i, j) (%v) inside loops i < inputWidth, j < inputHeight from 0 step 1 (%v)", okBlock, loopsOK))
}

// checkCountedLoops: the call sits in nested `for v, o := 0, pad; v < bound; v, o = v+1, o+step` loops
func checkCountedLoops(c *Ctx, p *packages.Package, fd *ast.FuncDecl, call *ast.CallExpr, _ []string) bool {
	gi, _ := guardsOf(fd.Body, enclosingStmt(fd.Body, call))
	n := 0
	for _, e := range gi.Enclosing {
		f, ok := e.Node.(*ast.ForStmt)
		if !ok {
			continue
		}
		as, ok := f.Init.(*ast.AssignStmt)
		if !ok || len(as.Lhs) < 1 {
			return false
		}
		if z, isC := constInt(p, as.Rhs[0]); !isC || z != 0 {
			return false
		}
		be, ok := f.Cond.(*ast.BinaryExpr)
		if !ok || be.Op != token.LSS || identObj(p, be.X) != identObj(p, as.Lhs[0]) {
			return false
		}
		n++
	}
	return n >= 1
}

func renderDM(c *Ctx, r *Report) {
	defer checkRenderWhole(c, r, "dm")
	fd, p := c.funcDeclOf("datamatrix", "convertByteMatrixToBitMatrix")
	key := "datamatrix.convertByteMatrixToBitMatrix"
	if fd == nil {
		for _, rule := range []string{"R-SIZE", "R-SCALE", "R-PAD", "R-BLOCK"} {
			r.AnchorLost(rule, key, "function not found")
		}
		return
	}
	r.Analysed(key)
	ps := paramObjs(p, fd)
	s := c.symFunc(fd, p, pureGetter)
	m, reqW, reqH := polyAtom(objAtom(ps[0])), polyAtom(objAtom(ps[1])), polyAtom(objAtom(ps[2]))
	mW := polyAtom("call:(*qrcode/encoder.ByteMatrix).GetWidth(" + m.String() + ")")
	mH := polyAtom("call:(*qrcode/encoder.ByteMatrix).GetHeight(" + m.String() + ")")
	outW, outH := symMax(reqW, mW), symMax(reqH, mH)
	scale := symMin(symDiv("idiv", outW, mW), symDiv("idiv", outH, mH))
	padX := symDiv("idiv", outW.sub(mW.mul(scale)), polyInt(2))
	padY := symDiv("idiv", outH.sub(mH.mul(scale)), polyInt(2))
	// size: two NewBitMatrix calls: under (reqH < mH || reqW < mW): (mW, mH); otherwise (reqW, reqH)
	nb := callsTo(s, func(o types.Object) bool { return isFuncNamed(o, "", "NewBitMatrix") })
	okSize := len(nb) == 2
	if okSize {
		var small, fit *symCall
		for i := range nb {
			if nb[i].Args[0].equal(mW) && nb[i].Args[1].equal(mH) {
				small = &nb[i]
			}
			if nb[i].Args[0].equal(reqW) && nb[i].Args[1].equal(reqH) {
				fit = &nb[i]
			}
		}
		okSize = small != nil && fit != nil
		if okSize {
			// the branch condition folded over small integers
			okSize = dmSmallBranchOK(c, p, fd)
		}
	}
	pos := c.pos(fd.Pos())
	r.Check(okSize, "R-SIZE", key, pos, "expected NewBitMatrix(symbolW, symbolH) exactly when the requested width or height is smaller than the symbol, NewBitMatrix(reqW, reqH) otherwise")
	sr := callsTo(s, func(o types.Object) bool { return isMethodNamed(o, "", "BitMatrix", "SetRegion") })
	if len(sr) != 1 {
		r.Undecided("R-BLOCK", key, pos, fmt.Sprintf("%d SetRegion calls", len(sr)))
		return
	}
	a := sr[0].Args
	r.Check(a[2].equal(scale) && a[3].equal(scale), "R-SCALE", key, c.pos(sr[0].Call.Pos()), fmt.Sprintf("block size (%s, %s); expected min over axes of max(req, symbol) / symbol", prettyPoly(a[2]), prettyPoly(a[3])))
	// padding: ite(small; 0; pad)
	okPad, okBlock := false, false
	str0, str1 := a[0].String(), a[1].String()
	for _, x := range kAtoms(a[0]) {
		for _, y := range kAtoms(a[1]) {
			if x == y {
				continue
			}
			// the origin is ite(cond; 0; pad) + K*scale : check both arms by substituting the ite atom
			remX := a[0].sub(polyAtom(x).mul(scale))
			remY := a[1].sub(polyAtom(y).mul(scale))
			if iteArms(remX, polyInt(0), padX) && iteArms(remY, polyInt(0), padY) {
				okPad = true
				want := polyAtom("call:(*qrcode/encoder.ByteMatrix).Get(" + m.String() + ";" + polyAtom(x).String() + ";" + polyAtom(y).String() + ")")
				for _, cd := range sr[0].Conds {
					if cd.op == token.EQL && !cd.neg && cd.l.equal(want) && cd.r.equal(polyInt(1)) {
						okBlock = true
					}
				}
			}
		}
	}
	_ = str0
	_ = str1
	r.Check(okPad, "R-PAD", key, c.pos(sr[0].Call.Pos()), fmt.Sprintf("block origin (%s, %s); expected pad + i*scale with pad = (out - symbol*scale)/2, or 0 in the too-small branch", prettyPoly(a[0]), prettyPoly(a[1])))
	// cleared
	// (a matrix made by NewBitMatrix in this function starts cleared; Clear() on it is allowed and not required)
	cleared := len(callsTo(s, func(o types.Object) bool { return isMethodNamed(o, "", "BitMatrix", "Clear") })) >= 1 ||
		len(callsTo(s, func(o types.Object) bool { return isFuncNamed(o, "", "NewBitMatrix") })) >= 1
	loopsOK := checkCountedLoops(c, p, fd, sr[0].Call, nil)
	r.Check(okBlock && loopsOK && cleared, "R-BLOCK", key, c.pos(sr[0].Call.Pos()), fmt.Sprintf("SetRegion guarded by matrix.Get(i, j) == 1 (%v), counted loops (%v), output cleared (%v)", okBlock, loopsOK, cleared))
}

// iteArms: p is the single atom ite(cond; a; b) (any cond) with arms equal to wantThen / wantElse in either order of
// the branch sense, or p equals wantElse outright.
func iteArms(p, wantThen, wantElse *Poly) bool {
	if p.equal(wantElse) {
		return false // the too-small branch must zero the padding
	}
	if len(p.m) != 1 {
		return false
	}
	for mono, coef := range p.m {
		if coef.Cmp(polyInt(1).m[""]) != 0 || !strings.HasPrefix(mono, "ite(") {
			return false
		}
		body := mono[4 : len(mono)-1]
		parts := splitTop(body, ';')
		if len(parts) != 3 {
			return false
		}
		return (parts[1] == wantThen.String() && parts[2] == wantElse.String()) || (parts[1] == wantElse.String() && parts[2] == wantThen.String())
	}
	return false
}

func splitTop(s string, sep byte) []string {
	var out []string
	depth := 0
	last := 0
	for i := 0; i < len(s); i++ {
		switch s[i] {
		case '(':
			depth++
		case ')':
			depth--
		case sep:
			if depth == 0 {
				out = append(out, s[last:i])
				last = i + 1
			}
		}
	}
	return append(out, s[last:])
}

// dmSmallBranchOK: the if statement choosing between the two NewBitMatrix calls is true exactly when
// reqH < mH or reqW < mW, and its true arm zeroes both paddings and allocates the symbol-sized matrix.
func dmSmallBranchOK(c *Ctx, p *packages.Package, fd *ast.FuncDecl) bool {
	var target *ast.IfStmt
	ast.Inspect(fd.Body, func(n ast.Node) bool {
		ifs, ok := n.(*ast.IfStmt)
		if !ok || ifs.Else == nil {
			return true
		}
		calls := findCalls(p, ifs, func(o types.Object) bool { return isFuncNamed(o, "", "NewBitMatrix") })
		if len(calls) == 2 {
			target = ifs
		}
		return true
	})
	if target == nil {
		return false
	}
	ps := paramObjs(p, fd)
	var mwObj, mhObj types.Object
	for _, st := range fd.Body.List {
		if as, ok := st.(*ast.AssignStmt); ok && as.Tok == token.DEFINE && len(as.Lhs) == 1 {
			if call, ok := as.Rhs[0].(*ast.CallExpr); ok {
				switch {
				case isMethodNamed(typeutil.Callee(p.TypesInfo, call), "qrcode/encoder", "ByteMatrix", "GetWidth"):
					mwObj = identObj(p, as.Lhs[0])
				case isMethodNamed(typeutil.Callee(p.TypesInfo, call), "qrcode/encoder", "ByteMatrix", "GetHeight"):
					mhObj = identObj(p, as.Lhs[0])
				}
			}
		}
	}
	if mwObj == nil || mhObj == nil {
		return false
	}
	for _, mw := range []int64{10, 18} {
		for _, mh := range []int64{10, 8} {
			for rw := int64(0); rw <= 30; rw += 3 {
				for rh := int64(0); rh <= 30; rh += 3 {
					v, err := c.rpfExpr(p, target.Cond, map[types.Object]*Val{mwObj: vint(mw), mhObj: vint(mh), ps[1]: vint(rw), ps[2]: vint(rh)}, nil)
					if err != nil || v.K != VBool || v.B != (rh < mh || rw < mw) {
						return false
					}
				}
			}
		}
	}
	// true arm: NewBitMatrix(matrixWidth, matrixHeight)
	calls := findCalls(p, target.Body, func(o types.Object) bool { return isFuncNamed(o, "", "NewBitMatrix") })
	return len(calls) == 1 && identObj(p, calls[0].Args[0]) == mwObj && identObj(p, calls[0].Args[1]) == mhObj
}

func renderOneD(c *Ctx, r *Report) {
	defer checkRenderWhole(c, r, "oned")
	fd, p := c.funcDeclOf("oned", "onedWriter_renderResult")
	key := "oned.onedWriter_renderResult"
	if fd == nil {
		for _, rule := range []string{"R-SIZE", "R-SCALE", "R-PAD", "R-BLOCK"} {
			r.AnchorLost(rule, key, "function not found")
		}
		return
	}
	r.Analysed(key)
	ps := paramObjs(p, fd)
	s := c.symFunc(fd, p, pureGetter)
	code, width, height, margin := polyAtom(objAtom(ps[0])), polyAtom(objAtom(ps[1])), polyAtom(objAtom(ps[2])), polyAtom(objAtom(ps[3]))
	inW := polyAtom("len(" + code.String() + ")")
	full := inW.add(margin)
	outW := symMax(width, full)
	outH := symMax(polyInt(1), height)
	scale := symDiv("idiv", outW, full)
	pad := symDiv("idiv", outW.sub(inW.mul(scale)), polyInt(2))
	nb := callsTo(s, func(o types.Object) bool { return isFuncNamed(o, "", "NewBitMatrix") })
	if len(nb) != 1 {
		r.Undecided("R-SIZE", key, c.pos(fd.Pos()), fmt.Sprintf("%d NewBitMatrix calls", len(nb)))
	} else {
		r.Check(nb[0].Args[0].equal(outW) && nb[0].Args[1].equal(outH), "R-SIZE", key, c.pos(nb[0].Call.Pos()),
			fmt.Sprintf("NewBitMatrix(%s, %s); expected (max(width, modules + margin), max(1, height))", prettyPoly(nb[0].Args[0]), prettyPoly(nb[0].Args[1])))
	}
	sr := callsTo(s, func(o types.Object) bool { return isMethodNamed(o, "", "BitMatrix", "SetRegion") })
	if len(sr) != 1 {
		r.Undecided("R-BLOCK", key, c.pos(fd.Pos()), fmt.Sprintf("%d SetRegion calls", len(sr)))
		return
	}
	a := sr[0].Args
	r.Check(a[2].equal(scale) && a[3].equal(outH), "R-SCALE", key, c.pos(sr[0].Call.Pos()), fmt.Sprintf("bar size (%s, %s); expected (outW / (modules + margin), outHeight)", prettyPoly(a[2]), prettyPoly(a[3])))
	okPad, okBlock := false, false
	for _, x := range kAtoms(a[0]) {
		if a[0].equal(pad.add(polyAtom(x).mul(scale))) && a[1].equal(polyInt(0)) {
			okPad = true
			want := polyAtom("idx(" + code.String() + "," + polyAtom(x).String() + ")")
			for _, cd := range sr[0].Conds {
				if cd.op == token.ILLEGAL && !cd.neg && cd.text == want.String() {
					okBlock = true
				}
			}
		}
	}
	r.Check(okPad, "R-PAD", key, c.pos(sr[0].Call.Pos()), fmt.Sprintf("bar origin (%s, %s); expected ((outW - modules*scale)/2 + i*scale, 0)", prettyPoly(a[0]), prettyPoly(a[1])))
	loopsOK := checkCountedLoops(c, p, fd, sr[0].Call, nil)
	r.Check(okBlock && loopsOK, "R-BLOCK", key, c.pos(sr[0].Call.Pos()), fmt.Sprintf("SetRegion guarded by code[i] for the same i (%v), counted loop over all modules (%v)", okBlock, loopsOK))
}

func renderMargins(c *Ctx, r *Report) {
	// QR default quiet zone
	if init, p := c.varInit("qrcode", "qrcodeWriter_QUIET_ZONE_SIZE"); init != nil {
		v := c.eval(p, init)
		r.Check(v.isInt() && v.I == 4, "R-MARGIN", "qrcode.qrcodeWriter_QUIET_ZONE_SIZE", c.pos(init.Pos()), fmt.Sprintf("default QR quiet zone %v, ISO 18004 requires 4 modules", v))
	} else {
		r.AnchorLost("R-MARGIN", "qrcode.qrcodeWriter_QUIET_ZONE_SIZE", "constant not found")
	}
	// 1-D default margins: struct literal in NewOneDimensionalCodeWriter, override in NewUPCEANWriter
	findMargin := func(rel, fn string) (int64, string, bool) {
		fd, p := c.funcDeclOf(rel, fn)
		if fd == nil {
			return 0, "", false
		}
		var val int64
		found := false
		ast.Inspect(fd.Body, func(n ast.Node) bool {
			switch x := n.(type) {
			case *ast.KeyValueExpr:
				if id, ok := x.Key.(*ast.Ident); ok && id.Name == "defaultMargin" {
					if v, ok := constInt(p, x.Value); ok {
						val, found = v, true
					}
				}
			case *ast.AssignStmt:
				if len(x.Lhs) == 1 {
					if sel, ok := x.Lhs[0].(*ast.SelectorExpr); ok && sel.Sel.Name == "defaultMargin" {
						if v, ok := constInt(p, x.Rhs[0]); ok {
							val, found = v, true
						}
					}
				}
			}
			return true
		})
		return val, c.pos(fd.Pos()), found
	}
	if v, pos, ok := findMargin("oned", "NewOneDimensionalCodeWriter"); ok {
		r.Check(v == 10, "R-MARGIN", "oned.NewOneDimensionalCodeWriter.defaultMargin", pos, fmt.Sprintf("default 1-D margin %d, expected 10 modules in total", v))
	} else {
		r.AnchorLost("R-MARGIN", "oned.NewOneDimensionalCodeWriter.defaultMargin", "default margin not found")
	}
	if v, pos, ok := findMargin("oned", "NewUPCEANWriter"); ok {
		r.Check(v == 9, "R-MARGIN", "oned.NewUPCEANWriter.defaultMargin", pos, fmt.Sprintf("default UPC/EAN margin %d, expected 9 modules in total", v))
	} else {
		r.AnchorLost("R-MARGIN", "oned.NewUPCEANWriter.defaultMargin", "default margin not found")
	}
	// BitMatrix.At: set -> black (gray 0), unset -> white (gray 255): the body folded for both outcomes of Get
	if fd, p := c.funcDeclOf("", "BitMatrix.At"); fd != nil {
		ok := true
		msg := ""
		for _, set := range []bool{true, false} {
			hooks := &rpf{callHook: func(rr *rpf, call *ast.CallExpr, callee types.Object) (*Val, bool) {
				if isMethodNamed(callee, "", "BitMatrix", "Get") {
					return vbool(set), true
				}
				return nil, false
			}}
			res, err := c.rpfCall(fd, p, []*Val{vint(3), vint(4)}, hooks)
			want := int64(255)
			if set {
				want = 0
			}
			if err != nil || len(res) != 1 || res[0].K != VStruct || !res[0].Fields["Y"].isInt() || res[0].Fields["Y"].I != want {
				ok = false
				msg = fmt.Sprintf("At() for a %v module folds to %v (err %v); expected gray level %d", set, res, err, want)
			}
		}
		r.Check(ok, "R-MARGIN", "gozxing.BitMatrix.At", c.pos(fd.Pos()), msg)
	} else {
		r.AnchorLost("R-MARGIN", "gozxing.BitMatrix.At", "method not found")
	}
}

// W-WRITER: encoding does not reconfigure the writer
func checkWriterStateless(c *Ctx, r *Report) {
	r.Rule("W-WRITER", "no function reachable from a Writer's Encode stores into a field of an already existing writer object (a type implementing gozxing.Writer, or a struct embedded in one): hints of one call - margin, size - must not leak into the next call on the same writer; stores into objects allocated in the same function (constructors) are exempt", 1)
	nf := c.newNilFlow()
	roots := nf.entryMethods("", "Writer", "Encode")
	roots = append(roots, nf.entryMethods("", "Writer", "EncodeWithoutHint")...)
	if len(roots) < 5 {
		r.AnchorLost("W-WRITER", "Writer.Encode implementations", fmt.Sprintf("only %d found", len(roots)))
		return
	}
	wobj := c.lookupObj("", "Writer")
	iface, _ := wobj.Type().Underlying().(*types.Interface)
	writerTypes := map[*types.Named]bool{}
	var addEmbedded func(n *types.Named)
	addEmbedded = func(n *types.Named) {
		if writerTypes[n] {
			return
		}
		writerTypes[n] = true
		if st, ok := n.Underlying().(*types.Struct); ok {
			for i := 0; i < st.NumFields(); i++ {
				f := st.Field(i)
				if !f.Embedded() {
					continue
				}
				t := f.Type()
				if pt, isP := t.(*types.Pointer); isP {
					t = pt.Elem()
				}
				if en, isN := t.(*types.Named); isN && isRepoPkg(en.Obj().Pkg()) {
					addEmbedded(en)
				}
			}
		}
	}
	for _, p := range c.PkgList {
		if strings.HasSuffix(p.PkgPath, "/testutil") {
			continue
		}
		sc := p.Types.Scope()
		for _, name := range sc.Names() {
			tn, ok := sc.Lookup(name).(*types.TypeName)
			if !ok {
				continue
			}
			n, ok := tn.Type().(*types.Named)
			if !ok {
				continue
			}
			if _, isI := n.Underlying().(*types.Interface); isI {
				continue
			}
			if types.Implements(n, iface) || types.Implements(types.NewPointer(n), iface) {
				addEmbedded(n)
			}
		}
	}
	r.Extra("writer_types", len(writerTypes))
	reach := nf.reachableFrom(roots)
	var fresh func(v ssa.Value, depth int) bool
	fresh = func(v ssa.Value, depth int) bool {
		if depth > 8 {
			return false
		}
		switch x := v.(type) {
		case *ssa.Alloc:
			return true
		case *ssa.FieldAddr:
			return fresh(x.X, depth+1)
		case *ssa.IndexAddr:
			return fresh(x.X, depth+1)
		case *ssa.ChangeType:
			return fresh(x.X, depth+1)
		case *ssa.Phi:
			for _, e := range x.Edges {
				if !fresh(e, depth+1) {
					return false
				}
			}
			return true
		}
		return false
	}
	n, bad := 0, 0
	var fs []*ssa.Function
	for f := range reach {
		fs = append(fs, f)
	}
	sort.Slice(fs, func(i, j int) bool { return fs[i].String() < fs[j].String() })
	for _, f := range fs {
		ord := 0
		for _, b := range f.Blocks {
			for _, in := range b.Instrs {
				st, ok := in.(*ssa.Store)
				if !ok {
					continue
				}
				fa, ok := st.Addr.(*ssa.FieldAddr)
				if !ok {
					continue
				}
				pt, ok := fa.X.Type().Underlying().(*types.Pointer)
				if !ok {
					continue
				}
				named, ok := pt.Elem().(*types.Named)
				if !ok || !writerTypes[named] {
					continue
				}
				n++
				if fresh(fa.X, 0) {
					continue
				}
				bad++
				stt := named.Underlying().(*types.Struct)
				key := fmt.Sprintf("%s writes %s.%s#%d", shortFn(f), named.Obj().Name(), stt.Field(fa.Field).Name(), ord)
				ord++
				r.Fail("W-WRITER", key, c.pos(st.Pos()), "violation", "a field of an existing writer is assigned on the encode path: the value given for this call stays in the writer and changes what later calls return")
			}
		}
	}
	r.Extra("writer_field_stores_on_encode_paths", n)
	if bad == 0 {
		r.Pass("W-WRITER", "encode paths", "", fmt.Sprintf("%d functions reachable from %d Encode entry points; %d stores into writer-typed objects, all into objects allocated in the same function", len(reach), len(roots), n))
	}
}

// M-MARGIN: a negative quiet zone never reaches the size arithmetic
func checkMarginNonNegative(c *Ctx, r *Report) {
	r.Rule("M-MARGIN", "the quiet zone the QR and 1-D renderers compute their sizes with is not negative: in renderResult / onedWriter_renderResult every use of the margin parameter is dominated by a test that excludes negative values (error exit), or every caller passes a value so tested - with a negative margin, symbol + margin is smaller than the symbol and the returned matrix clips it; and both renderers, folded with margins for which symbol + margin (1-D) or symbol + twice the margin (QR) wraps round, return an error before any matrix is built (margins that are merely enormous ask for an enormous matrix: not decided)", 4)
	for _, t := range []struct {
		rel, fn string
		param   int
	}{{"qrcode", "renderResult", 3}, {"oned", "onedWriter_renderResult", 3}} {
		f := c.ssaFunc(t.rel, t.fn)
		key := t.rel + "." + t.fn
		if f == nil || len(f.Params) <= t.param {
			r.AnchorLost("M-MARGIN", key, "function not found")
			continue
		}
		r.Analysed(key)
		p := f.Params[t.param]
		bad := ""
		for _, ref := range *p.Referrers() {
			in, ok := ref.(ssa.Instruction)
			if !ok {
				continue
			}
			// the guard's own comparison is not a use that needs protection
			if bo, isB := ref.(*ssa.BinOp); isB {
				switch bo.Op {
				case token.LSS, token.LEQ, token.GTR, token.GEQ, token.EQL, token.NEQ:
					continue
				}
			}
			if _, isDbg := ref.(*ssa.DebugRef); isDbg {
				continue
			}
			// variadic argument packs of error messages do not compute sizes
			if _, isMI := ref.(*ssa.MakeInterface); isMI {
				continue
			}
			facts := intFactsAt(in.Block())
			if !provablyNonNeg(p, facts, 0) {
				bad = fmt.Sprintf("the margin is used at %s without a dominating test that it is not negative", c.pos(in.Pos()))
				break
			}
		}
		if bad != "" {
			// (b) every caller passes a value known to be non-negative at the call
			n := c.CG().Nodes[f]
			all := n != nil && len(n.In) > 0
			if all {
				for _, e := range n.In {
					if e.Site == nil || len(e.Site.Common().Args) <= t.param {
						all = false
						break
					}
					a := e.Site.Common().Args[t.param]
					if !provablyNonNeg(a, intFactsAt(e.Site.Block()), 0) {
						all = false
						bad += fmt.Sprintf("; the caller %s passes a value that may be negative (%s)", shortFn(e.Caller.Func), c.pos(e.Site.Pos()))
						break
					}
				}
			}
			if all {
				bad = ""
			}
		}
		r.Check(bad == "", "M-MARGIN", key, c.pos(f.Pos()), bad)
	}
	// a margin so large that symbol + margin wraps round is refused as well: folded with the matrix replaced by a recorder
	for _, t := range []struct {
		rel, fn string
		qr      bool
	}{{"qrcode", "renderResult", true}, {"oned", "onedWriter_renderResult", false}} {
		fd, p := c.funcDeclOf(t.rel, t.fn)
		key := t.rel + "." + t.fn + "/wrap-round"
		if fd == nil {
			r.AnchorLost("M-MARGIN", key, "function not found")
			continue
		}
		r.Analysed(key)
		bad := ""
		margins := []int64{math.MaxInt64, math.MaxInt64 - 20, math.MaxInt64/2 + 1, 1 << 62, math.MaxInt64 / 2}
		if !t.qr {
			margins = []int64{math.MaxInt64, math.MaxInt64 - 1, math.MaxInt64 - 2} // three modules + margin wraps round
		}
		for _, m := range margins {
			built := false
			h := &rpf{unroll: 1000, maxSteps: 100000, effectCalls: true}
			h.callHook = func(rr *rpf, call *ast.CallExpr, callee types.Object) (*Val, bool) {
				if fn, ok := callee.(*types.Func); ok {
					switch fn.Name() {
					case "GetMatrix":
						return &Val{K: VStruct, Ptr: true, Fields: map[string]*Val{}}, true
					case "GetWidth", "GetHeight":
						return vint(21), true
					case "Get":
						return vint(1), true
					case "SetRegion":
						return &Val{K: VNil}, true
					}
				}
				return errCtorHook(rr, call, callee)
			}
			h.multiHook = func(call *ast.CallExpr, callee types.Object) ([]*Val, bool) {
				if isFuncNamed(callee, "", "NewBitMatrix") {
					built = true
					return []*Val{{K: VStruct, Ptr: true, Fields: map[string]*Val{}}, {K: VNil}}, true
				}
				return nil, false
			}
			var args []*Val
			if t.qr {
				args = []*Val{{K: VStruct, Ptr: true, Fields: map[string]*Val{}}, vint(100), vint(100), vint(m)}
			} else {
				args = []*Val{{K: VList, L: []*Val{vbool(true), vbool(false), vbool(true)}}, vint(100), vint(1), vint(m)}
			}
			res, err := c.rpfCall(fd, p, args, h)
			if err != nil {
				if strings.Contains(err.Error(), "division by zero") {
					bad = fmt.Sprintf("a margin of %d modules: %s - a run-time panic", m, err.Error())
				} else {
					bad = "?" + err.Error()
				}
				break
			}
			if len(res) != 2 || res[1].K == VNil || built {
				bad = fmt.Sprintf("a margin of %d modules is not refused: symbol + margin wraps round, a matrix of the requested 100 pixels is built and returned without an error - blank or with the symbol clipped", m)
				break
			}
		}
		reportFold(r, c, "M-MARGIN", key, fd.Pos(), bad)
	}
}

// R-MARGIN (QR hint handling): the quiet zone that reaches the renderer
func checkQRMarginHint(c *Ctx, r *Report) {
	r.Rule("R-MARGINHINT", "QRCodeWriter.Encode, folded with the symbol encoder and the renderer replaced by recorders, hands renderResult a quiet zone of 4 modules when no MARGIN hint is given and exactly the hinted value otherwise - for the values 0, 1, 2, 4, 7, 20 given as an int and as a decimal string (an explicit 0 is a quiet zone of 0 modules) - together with the requested width and height; each case alone and together with an ERROR_CORRECTION hint (the options do not shadow each other); OneDimensionalCodeWriter.Encode, folded the same way, hands onedWriter_renderResult the writer's own default without a hint and otherwise exactly the hinted value - ints, decimal strings (a leading zero does not make them octal: \"010\" is ten, \"08\" is eight), an error for a string that is not a decimal number or a value of another type", 2)
	fd, p := c.funcDeclOf("qrcode", "QRCodeWriter.Encode")
	key := "qrcode.QRCodeWriter.Encode/margin"
	if fd == nil {
		r.AnchorLost("R-MARGINHINT", key, "method not found")
		return
	}
	r.Analysed(key)
	mk, ok1 := constValIn(c, "", "EncodeHintType_MARGIN")
	fq, ok2 := constValIn(c, "", "BarcodeFormat_QR_CODE")
	if !ok1 || !ok2 {
		r.Undecided("R-MARGINHINT", key, c.pos(fd.Pos()), "EncodeHintType_MARGIN / BarcodeFormat_QR_CODE are not constants")
		return
	}
	type tc struct {
		hint *Val
		want int64
		desc string
	}
	cases := []tc{{nil, 4, "no hint"}}
	for _, m := range []int64{0, 1, 2, 4, 7, 20} {
		cases = append(cases, tc{vint(m), m, fmt.Sprintf("MARGIN %d", m)}, tc{vstr(fmt.Sprint(m)), m, fmt.Sprintf("MARGIN %q", fmt.Sprint(m))})
	}
	type stop struct{}
	bad := ""
	ecKey, okEC := constValIn(c, "", "EncodeHintType_ERROR_CORRECTION")
	// every case once alone and once together with an ERROR_CORRECTION hint: the options are independent
	var all []tc
	for _, cs := range cases {
		all = append(all, cs)
		if okEC {
			all = append(all, tc{cs.hint, cs.want, cs.desc + " together with ERROR_CORRECTION \"M\""})
		}
	}
	for _, cs := range all {
		hints := &Val{K: VNil}
		withEC := strings.Contains(cs.desc, "ERROR_CORRECTION")
		if cs.hint != nil || withEC {
			hints = &Val{K: VStruct, Fields: map[string]*Val{}}
			if cs.hint != nil {
				hints.Fields[fmt.Sprint(mk)] = cs.hint
			}
			if withEC {
				hints.Fields[fmt.Sprint(ecKey)] = vstr("M")
			}
		}
		var got []int64
		h := &rpf{unroll: 100}
		h.assertHook = func(rr *rpf, ta *ast.TypeAssertExpr, v *Val) (bool, bool) {
			tn := types.ExprString(ta.Type)
			switch {
			case tn == "int":
				return v.K == VInt, true
			case tn == "string":
				return v.K == VStr, true
			}
			return false, true
		}
		h.callHook = func(rr *rpf, call *ast.CallExpr, callee types.Object) (*Val, bool) {
			return errCtorHook(rr, call, callee)
		}
		h.multiHook = func(call *ast.CallExpr, callee types.Object) ([]*Val, bool) {
			fn, ok := callee.(*types.Func)
			if !ok {
				return nil, false
			}
			switch fn.Name() {
			case "Encoder_encode":
				return []*Val{{K: VStruct, Ptr: true, Fields: map[string]*Val{}}, {K: VNil}}, true
			case "ErrorCorrectionLevel_ValueOf":
				return []*Val{vint(1), {K: VNil}}, true
			case "Atoi":
				s := rpfCurrent.expr(call.Args[0])
				if s.K == VStr {
					if n, err := strconv.Atoi(s.S); err == nil {
						return []*Val{vint(int64(n)), {K: VNil}}, true
					}
					return []*Val{vint(0), vstr("error")}, true
				}
			case "renderResult":
				for _, a := range call.Args[1:] {
					v := rpfCurrent.expr(a)
					if v.K != VInt {
						rpfFail("renderResult is given a non-constant argument")
					}
					got = append(got, v.I)
				}
				panic(stop{})
			}
			return nil, false
		}
		var err error
		func() {
			defer func() {
				if x := recover(); x != nil {
					if _, ok := x.(stop); ok {
						return
					}
					panic(x)
				}
			}()
			_, err = c.rpfCall(fd, p, []*Val{vstr("A"), vint(fq), vint(100), vint(90), hints}, h)
		}()
		if err != nil {
			bad = "?" + cs.desc + ": " + err.Error()
			break
		}
		if len(got) != 3 {
			bad = cs.desc + ": the renderer is not reached"
			break
		}
		if got[0] != 100 || got[1] != 90 || got[2] != cs.want {
			bad = fmt.Sprintf("%s, request 100x90: the renderer is given width %d, height %d and a quiet zone of %d modules; expected 100, 90, %d", cs.desc, got[0], got[1], got[2], cs.want)
			break
		}
	}
	reportFold(r, c, "R-MARGINHINT", key, fd.Pos(), bad)
}

// M-FWDORDER: thin wrappers hand their parameters on in the positions the callee names them
func checkForwardOrder(c *Ctx, r *Report, min int) {
	r.Rule("M-FWDORDER", "a function whose whole body is one call of another function or method of the module (the *WithoutHint / convenience-constructor style) passes each of its own parameters in the position where the callee declares a parameter of the same name, whenever the callee has one: EncodeWithoutHint(contents, format, width, height) calls Encode(contents, format, width, height, nil), not with width and height exchanged; one obligation per such wrapper that shares at least two parameter names with its callee", min)
	for _, p := range c.PkgList {
		if !strings.HasPrefix(p.PkgPath, modPath) || strings.HasSuffix(p.PkgPath, "/testutil") {
			continue
		}
		for _, f := range p.Syntax {
			for _, d := range f.Decls {
				fd, ok := d.(*ast.FuncDecl)
				if !ok || fd.Body == nil || len(fd.Body.List) != 1 {
					continue
				}
				var call *ast.CallExpr
				switch st := fd.Body.List[0].(type) {
				case *ast.ReturnStmt:
					if len(st.Results) == 1 {
						call, _ = ast.Unparen(st.Results[0]).(*ast.CallExpr)
					}
				case *ast.ExprStmt:
					call, _ = ast.Unparen(st.X).(*ast.CallExpr)
				}
				if call == nil {
					continue
				}
				callee, ok := typeutil.Callee(p.TypesInfo, call).(*types.Func)
				if !ok || callee.Pkg() == nil || !strings.HasPrefix(callee.Pkg().Path(), modPath) {
					continue
				}
				sig := callee.Type().(*types.Signature)
				own := map[string]bool{}
				for _, o := range paramObjs(p, fd) {
					own[o.Name()] = true
				}
				pos := map[string]int{}
				shared := 0
				for i := 0; i < sig.Params().Len(); i++ {
					n := sig.Params().At(i).Name()
					if n != "" && n != "_" {
						pos[n] = i
						if own[n] {
							shared++
						}
					}
				}
				if shared < 2 || sig.Variadic() {
					continue
				}
				obj := p.TypesInfo.Defs[fd.Name]
				key := shortObj(obj)
				r.Analysed(key)
				bad := ""
				ownObj := map[types.Object]bool{}
				for _, po := range paramObjs(p, fd) {
					ownObj[po] = true
				}
				// the callee's parameter named X must not receive another of the wrapper's parameters that has a
				// named position of its own (two parameters exchanged); constants, nil and derived values are free
				for j := 0; j < sig.Params().Len() && j < len(call.Args); j++ {
					want := sig.Params().At(j).Name()
					if !own[want] {
						continue
					}
					o := identObj(p, call.Args[j])
					if o == nil || !ownObj[o] || o.Name() == want {
						continue
					}
					if _, has := pos[o.Name()]; has {
						bad = fmt.Sprintf("%s receives the wrapper's %s where it takes %s (argument %d)", callee.Name(), o.Name(), want, j+1)
						break
					}
				}
				r.Check(bad == "", "M-FWDORDER", key, c.pos(fd.Pos()), bad)
			}
		}
	}
}

// M-HINTUSED: no writer entry point receives encode hints and ignores them
func checkEncodeHintsUsed(c *Ctx, r *Report, min int) {
	r.Rule("M-HINTUSED", "every Encode method of the module that receives the encode hints (a parameter of type map[EncodeHintType]interface{}; the implementations of gozxing.Writer and the shared 1-D front end) reads them or hands them on - it does not drop them on the way to the code that honours MARGIN, the error-correction level, the character set and the other options; a function that by design takes no notice of its hints is a frozen row with the reason; one obligation per such function", min)
	for _, p := range c.PkgList {
		if !strings.HasPrefix(p.PkgPath, modPath) || strings.HasSuffix(p.PkgPath, "/testutil") {
			continue
		}
		for _, f := range p.Syntax {
			for _, d := range f.Decls {
				fd, ok := d.(*ast.FuncDecl)
				if !ok || fd.Body == nil || fd.Recv == nil || fd.Name.Name != "Encode" {
					continue // the Writer entry points; the per-symbology row encoders take the hints for Code 128's sake only
				}
				var hintObjs []types.Object
				unnamed := false
				for _, fl := range fd.Type.Params.List {
					t := p.TypesInfo.TypeOf(fl.Type)
					m, isMap := t.Underlying().(*types.Map)
					if !isMap {
						continue
					}
					n, isNamed := m.Key().(*types.Named)
					if !isNamed || n.Obj().Name() != "EncodeHintType" {
						continue
					}
					if len(fl.Names) == 0 {
						unnamed = true
					}
					for _, nm := range fl.Names {
						if nm.Name == "_" {
							unnamed = true
						} else {
							hintObjs = append(hintObjs, p.TypesInfo.Defs[nm])
						}
					}
				}
				if len(hintObjs) == 0 && !unnamed {
					continue
				}
				key := shortObj(p.TypesInfo.Defs[fd.Name])
				r.Analysed(key)
				used := false
				for _, o := range hintObjs {
					if usesIdent(p, fd.Body, o) {
						used = true
					}
				}
				if used {
					r.Pass("M-HINTUSED", key, c.pos(fd.Pos()), "")
				} else if why, ok := frozenHintIgnorers[key]; ok {
					r.Pass("M-HINTUSED", key, c.pos(fd.Pos()), "frozen: "+why)
				} else {
					r.Fail("M-HINTUSED", key, c.pos(fd.Pos()), "violation", "the encode hints are received and never looked at or handed on: options such as MARGIN are silently ignored on this path")
				}
			}
		}
	}
}

// functions that take the hints only to satisfy an interface and have no option to honour
var frozenHintIgnorers = map[string]string{}

// R-BLOCK (only painter): nothing but the one SetRegion of the module loop writes into the output matrix
func checkOnlyPainter(c *Ctx, r *Report) {
	for _, t := range [][2]string{{"qrcode", "renderResult"}, {"datamatrix", "convertByteMatrixToBitMatrix"}, {"oned", "onedWriter_renderResult"}} {
		fd, p := c.funcDeclOf(t[0], t[1])
		key := t[0] + "." + t[1] + "/only-painter"
		if fd == nil {
			r.AnchorLost("R-BLOCK", key, "renderer not found")
			continue
		}
		r.Analysed(key)
		mut := map[string]bool{"Set": true, "Unset": true, "Flip": true, "FlipAll": true, "SetRegion": true, "SetRow": true, "Xor": true, "Rotate90": true, "Rotate180": true}
		var writes []string
		nRegion := 0
		walkCalls(p, fd.Body, func(cs *callSite) {
			fn, ok := cs.Callee.(*types.Func)
			if !ok || !isMethodNamed(cs.Callee, "", "BitMatrix", fn.Name()) {
				return
			}
			if fn.Name() == "SetRegion" {
				nRegion++
			} else if mut[fn.Name()] {
				writes = append(writes, fn.Name()+" at "+c.pos(cs.Call.Pos()))
			}
		})
		// a successful return comes after the painting
		early := ""
		var paintTop ast.Stmt
		for _, call := range findCalls(p, fd.Body, func(o types.Object) bool { return isMethodNamed(o, "", "BitMatrix", "SetRegion") }) {
			for _, st := range fd.Body.List {
				if containsNode(st, call) {
					paintTop = st
				}
			}
		}
		ast.Inspect(fd.Body, func(n ast.Node) bool {
			if _, isLit := n.(*ast.FuncLit); isLit {
				return false
			}
			rs, ok := n.(*ast.ReturnStmt)
			if !ok || len(rs.Results) != 2 || paintTop == nil {
				return true
			}
			if id, isI := ast.Unparen(rs.Results[1]).(*ast.Ident); isI && id.Name == "nil" {
				if id0, isI0 := ast.Unparen(rs.Results[0]).(*ast.Ident); !(isI0 && id0.Name == "nil") {
					if !(paintTop.Pos() < rs.Pos() && !containsNode(paintTop, rs)) {
						early = "a matrix is returned at " + c.pos(rs.Pos()) + " without passing the module loop"
					}
				}
			}
			return true
		})
		bad := ""
		switch {
		case early != "":
			bad = early
		case len(writes) > 0:
			bad = "the output matrix is also written by " + strings.Join(writes, ", ") + ": every pixel must come from the SetRegion of the module loop, whose terms the other rendering rules decide"
		case nRegion != 1:
			bad = fmt.Sprintf("%d SetRegion calls: a second painting path is not covered by the terms decided for the first", nRegion)
		}
		r.Check(bad == "", "R-BLOCK", key, c.pos(fd.Pos()), bad)
	}
}

// R-MARGINHINT for the 1-D writers: what OneDimensionalCodeWriter.Encode hands its renderer
func checkOneDMarginHint(c *Ctx, r *Report) {
	fd, p := c.funcDeclOf("oned", "OneDimensionalCodeWriter.Encode")
	key := "oned.OneDimensionalCodeWriter.Encode/margin"
	if fd == nil {
		r.AnchorLost("R-MARGINHINT", key, "method not found")
		return
	}
	r.Analysed(key)
	mk, ok1 := constValIn(c, "", "EncodeHintType_MARGIN")
	if !ok1 {
		r.Undecided("R-MARGINHINT", key, c.pos(fd.Pos()), "EncodeHintType_MARGIN is not a constant")
		return
	}
	type tc struct {
		hint *Val
		want int64 // -1: an error is due
		desc string
	}
	cases := []tc{{nil, 13, "no hint (the writer's default, 13 in this fold)"}}
	for _, m := range []int64{0, 1, 8, 9, 10, 17, 25} {
		cases = append(cases, tc{vint(m), m, fmt.Sprintf("MARGIN %d", m)}, tc{vstr(fmt.Sprint(m)), m, fmt.Sprintf("MARGIN %q", fmt.Sprint(m))})
	}
	// decimal strings with a leading zero are decimal; what is not a decimal number is refused
	cases = append(cases, tc{vstr("010"), 10, `MARGIN "010"`}, tc{vstr("08"), 8, `MARGIN "08"`}, tc{vstr("abc"), -1, `MARGIN "abc"`}, tc{vstr("0x10"), -1, `MARGIN "0x10"`}, tc{&Val{K: VFloat, F: 2.5}, -1, "MARGIN 2.5 (a float)"})
	type stop struct{}
	bad := ""
	for _, cs := range cases {
		hints := &Val{K: VNil}
		if cs.hint != nil {
			hints = &Val{K: VStruct, Fields: map[string]*Val{fmt.Sprint(mk): cs.hint}}
		}
		var got []int64
		h := &rpf{unroll: 100, env: map[types.Object]*Val{}}
		h.env[recvObj(p, fd)] = &Val{K: VStruct, Ptr: true, Fields: map[string]*Val{"defaultMargin": vint(13), "encoder": {K: VStruct, Ptr: true, Fields: map[string]*Val{}}}}
		h.assertHook = func(rr *rpf, ta *ast.TypeAssertExpr, v *Val) (bool, bool) {
			switch types.ExprString(ta.Type) {
			case "int":
				return v.K == VInt, true
			case "string":
				return v.K == VStr, true
			}
			return false, true
		}
		h.callHook = func(rr *rpf, call *ast.CallExpr, callee types.Object) (*Val, bool) {
			if fn, ok := callee.(*types.Func); ok {
				switch fn.Name() {
				case "getSupportedWriteFormats":
					return &Val{K: VStruct, Fields: map[string]*Val{}}, true
				case "Contains":
					return vbool(true), true
				}
			}
			return errCtorHook(rr, call, callee)
		}
		h.multiHook = func(call *ast.CallExpr, callee types.Object) ([]*Val, bool) {
			fn, ok := callee.(*types.Func)
			if !ok {
				return nil, false
			}
			switch fn.Name() {
			case "encodeWithHints", "encode":
				return []*Val{{K: VList, L: []*Val{vbool(true), vbool(false), vbool(true)}}, {K: VNil}}, true
			case "Atoi":
				if s := rpfCurrent.expr(call.Args[0]); s.K == VStr {
					if n, err := strconv.Atoi(s.S); err == nil {
						return []*Val{vint(int64(n)), {K: VNil}}, true
					}
					return []*Val{vint(0), vstr("error")}, true
				}
			case "ParseInt":
				if len(call.Args) == 3 {
					s, b, w := rpfCurrent.expr(call.Args[0]), rpfCurrent.expr(call.Args[1]), rpfCurrent.expr(call.Args[2])
					if s.K == VStr && b.K == VInt && w.K == VInt {
						if n, err := strconv.ParseInt(s.S, int(b.I), int(w.I)); err == nil {
							return []*Val{vint(n), {K: VNil}}, true
						}
						return []*Val{vint(0), vstr("error")}, true
					}
				}
			case "onedWriter_renderResult":
				for _, a := range call.Args[1:] {
					v := rpfCurrent.expr(a)
					if v.K != VInt {
						rpfFail("the renderer is given a non-constant argument")
					}
					got = append(got, v.I)
				}
				panic(stop{})
			}
			return nil, false
		}
		var err error
		var res []*Val
		func() {
			defer func() {
				if x := recover(); x != nil {
					if _, ok := x.(stop); ok {
						return
					}
					panic(x)
				}
			}()
			res, err = c.rpfCall(fd, p, []*Val{vstr("A"), vint(1), vint(100), vint(90), hints}, h)
		}()
		if err != nil {
			bad = "?" + cs.desc + ": " + err.Error()
			break
		}
		if cs.want < 0 {
			if len(got) != 0 || len(res) != 2 || res[1].K == VNil {
				bad = fmt.Sprintf("%s is not refused (the renderer is given %v)", cs.desc, got)
				break
			}
			continue
		}
		if len(got) != 3 {
			bad = cs.desc + ": the renderer is not reached"
			break
		}
		if got[0] != 100 || got[1] != 90 || got[2] != cs.want {
			bad = fmt.Sprintf("%s, request 100x90: the renderer is given width %d, height %d and a margin of %d modules; expected 100, 90, %d", cs.desc, got[0], got[1], got[2], cs.want)
			break
		}
	}
	reportFold(r, c, "R-MARGINHINT", key, fd.Pos(), bad)
}

// R-WHOLE: the three renderers folded as whole functions on recording matrices
func checkRenderWhole(c *Ctx, r *Report, which string) {
	r.Rule("R-WHOLE", "each renderer (QR renderResult, Data Matrix convertByteMatrixToBitMatrix, 1-D onedWriter_renderResult), folded from source as a whole with the module matrix and the output matrix replaced by recorders, over a grid of requested sizes (0, below, at and above the symbol, non-square, a prime) and quiet zones: the output matrix has the size of the rule R-SIZE, and the set of pixels painted by its SetRegion calls is exactly the scaled, centred image of the set modules (module size and padding of R-SCALE / R-PAD) - whatever the shape of the code that computes them", 1)
	type rect struct{ x, y, w, h int64 }
	type outcome struct {
		ow, oh int64
		rects  []rect
		err    string
		refuse bool
	}
	pat := func(i, j int64) bool { return (i*3+j*5+i*j)%4 < 2 }
	run := func(fd *ast.FuncDecl, p *packages.Package, args []*Val, mw, mh int64, oneD bool) outcome {
		var out outcome
		outM := &Val{K: VStruct, Ptr: true, Fields: map[string]*Val{"recorder": vbool(true)}}
		h := &rpf{unroll: 100000, maxSteps: 3000000}
		h.callHook = func(rr *rpf, call *ast.CallExpr, callee types.Object) (*Val, bool) {
			fn, ok := callee.(*types.Func)
			if !ok {
				return nil, false
			}
			sel, _ := call.Fun.(*ast.SelectorExpr)
			switch fn.Name() {
			case "GetMatrix":
				return &Val{K: VStruct, Ptr: true, Fields: map[string]*Val{}}, true
			case "GetWidth":
				if sel != nil && rr.expr(sel.X) == outM {
					return vint(out.ow), true
				}
				return vint(mw), true
			case "GetHeight":
				if sel != nil && rr.expr(sel.X) == outM {
					return vint(out.oh), true
				}
				return vint(mh), true
			case "Get":
				if len(call.Args) == 2 {
					x, y := rr.expr(call.Args[0]), rr.expr(call.Args[1])
					if x.K != VInt || y.K != VInt || x.I < 0 || y.I < 0 || x.I >= mw || y.I >= mh {
						rpfFail("a module outside the %dx%d symbol is read", mw, mh)
					}
					if pat(x.I, y.I) {
						return vint(1), true
					}
					return vint(0), true
				}
			case "Clear":
				return &Val{K: VNil}, true
			case "SetRegion":
				var a [4]int64
				for i := 0; i < 4; i++ {
					v := rr.expr(call.Args[i])
					if v.K != VInt {
						rpfFail("SetRegion with a non-constant argument")
					}
					a[i] = v.I
				}
				out.rects = append(out.rects, rect{a[0], a[1], a[2], a[3]})
				return &Val{K: VNil}, true
			case "Set":
				if sel != nil && rr.expr(sel.X) == outM && len(call.Args) == 2 {
					x, y := rr.expr(call.Args[0]), rr.expr(call.Args[1])
					out.rects = append(out.rects, rect{x.I, y.I, 1, 1})
					return &Val{K: VNil}, true
				}
			}
			return errCtorHook(rr, call, callee)
		}
		h.multiHook = func(call *ast.CallExpr, callee types.Object) ([]*Val, bool) {
			if isFuncNamed(callee, "", "NewBitMatrix") && len(call.Args) == 2 {
				w, hh := rpfCurrent.expr(call.Args[0]), rpfCurrent.expr(call.Args[1])
				if w.K != VInt || hh.K != VInt {
					rpfFail("NewBitMatrix with non-constant dimensions")
				}
				out.ow, out.oh = w.I, hh.I
				if w.I < 1 || hh.I < 1 {
					return []*Val{{K: VNil}, vstr("error")}, true
				}
				return []*Val{outM, {K: VNil}}, true
			}
			return nil, false
		}
		res, err := c.rpfCall(fd, p, args, h)
		if err != nil {
			out.err = err.Error()
			return out
		}
		if len(res) == 2 && res[1].K != VNil {
			out.refuse = true
		}
		_ = oneD
		return out
	}
	// painted pixels of a list of rectangles, clipped to the output, as a set
	paint := func(o outcome) (map[[2]int64]bool, string) {
		px := map[[2]int64]bool{}
		for _, rc := range o.rects {
			if rc.w < 1 || rc.h < 1 || rc.x < 0 || rc.y < 0 || rc.x+rc.w > o.ow || rc.y+rc.h > o.oh {
				return nil, fmt.Sprintf("SetRegion(%d, %d, %d, %d) does not lie inside the %dx%d output (its error is ignored by the renderer: the block would be missing)", rc.x, rc.y, rc.w, rc.h, o.ow, o.oh)
			}
			for y := rc.y; y < rc.y+rc.h; y++ {
				for x := rc.x; x < rc.x+rc.w; x++ {
					px[[2]int64{x, y}] = true
				}
			}
		}
		return px, ""
	}
	maxi := func(a, b int64) int64 {
		if a > b {
			return a
		}
		return b
	}
	compare := func(what string, o outcome, ow, oh, mw, mh, scale, padX, padY int64, oneD bool) string {
		if o.err != "" {
			if strings.Contains(o.err, "division by zero") || strings.Contains(o.err, "out of range") {
				return what + ": " + o.err + " - a run-time panic"
			}
			return "?" + what + ": " + o.err
		}
		if o.refuse {
			return what + " is refused"
		}
		if o.ow != ow || o.oh != oh {
			return fmt.Sprintf("%s: the output is %dx%d, expected %dx%d", what, o.ow, o.oh, ow, oh)
		}
		got, e := paint(o)
		if e != "" {
			return what + ": " + e
		}
		want := map[[2]int64]bool{}
		for j := int64(0); j < mh; j++ {
			for i := int64(0); i < mw; i++ {
				if !pat(i, j) {
					continue
				}
				hgt := scale
				y0 := padY + j*scale
				if oneD {
					hgt, y0 = oh, 0
				}
				for y := y0; y < y0+hgt; y++ {
					for x := padX + i*scale; x < padX+(i+1)*scale; x++ {
						want[[2]int64{x, y}] = true
					}
				}
			}
		}
		if len(got) != len(want) {
			return fmt.Sprintf("%s: %d pixels are painted, the scaled and centred symbol (module size %d, padding %d,%d) has %d", what, len(got), scale, padX, padY, len(want))
		}
		for k := range want {
			if !got[k] {
				return fmt.Sprintf("%s: pixel (%d, %d) of the scaled and centred symbol (module size %d, padding %d,%d) is not painted", what, k[0], k[1], scale, padX, padY)
			}
		}
		return ""
	}
	sizes := []int64{0, 5, 7, 8, 15, 16, 23, 31, 40, 53}
	if which == "" || which == "qr" {
		fd, p := c.funcDeclOf("qrcode", "renderResult")
		key := "qrcode.renderResult/whole"
		if fd == nil {
			r.AnchorLost("R-WHOLE", key, "function not found")
		} else {
			r.Analysed(key)
			bad := ""
			const n = int64(7)
			for _, q := range []int64{0, 1, 4} {
				for _, w := range sizes {
					for _, hh := range sizes {
						if bad != "" {
							break
						}
						o := run(fd, p, []*Val{{K: VStruct, Ptr: true, Fields: map[string]*Val{}}, vint(w), vint(hh), vint(q)}, n, n, false)
						full := n + 2*q
						ow, oh := maxi(w, full), maxi(hh, full)
						scale := ow / full
						if oh/full < scale {
							scale = oh / full
						}
						bad = compare(fmt.Sprintf("a %dx%d symbol, quiet zone %d, requested %dx%d", n, n, q, w, hh), o, ow, oh, n, n, scale, (ow-n*scale)/2, (oh-n*scale)/2, false)
					}
				}
			}
			reportFold(r, c, "R-WHOLE", key, fd.Pos(), bad)
		}
	}
	if which == "" || which == "oned" {
		fd, p := c.funcDeclOf("oned", "onedWriter_renderResult")
		key := "oned.onedWriter_renderResult/whole"
		if fd == nil {
			r.AnchorLost("R-WHOLE", key, "function not found")
		} else {
			r.Analysed(key)
			bad := ""
			const n = int64(9)
			code := &Val{K: VList}
			for i := int64(0); i < n; i++ {
				code.L = append(code.L, vbool(pat(i, 0)))
			}
			for _, m := range []int64{0, 3, 10} {
				for _, w := range append(sizes, 9, 11, 12, 18, 19) {
					for _, hh := range []int64{0, 1, 5} {
						if bad != "" {
							break
						}
						o := run(fd, p, []*Val{code, vint(w), vint(hh), vint(m)}, n, 1, true)
						full := n + m
						ow, oh := maxi(w, full), maxi(1, hh)
						scale := ow / full
						bad = compare(fmt.Sprintf("%d modules, margin %d, requested %dx%d", n, m, w, hh), o, ow, oh, n, 1, scale, (ow-n*scale)/2, 0, true)
					}
				}
			}
			reportFold(r, c, "R-WHOLE", key, fd.Pos(), bad)
		}
	}
	if which == "" || which == "dm" {
		fd, p := c.funcDeclOf("datamatrix", "convertByteMatrixToBitMatrix")
		key := "datamatrix.convertByteMatrixToBitMatrix/whole"
		if fd == nil {
			r.AnchorLost("R-WHOLE", key, "function not found")
		} else {
			r.Analysed(key)
			bad := ""
			for _, dim := range [][2]int64{{8, 8}, {12, 6}} {
				mw, mh := dim[0], dim[1]
				for _, w := range sizes {
					for _, hh := range sizes {
						if bad != "" {
							break
						}
						o := run(fd, p, []*Val{{K: VStruct, Ptr: true, Fields: map[string]*Val{}}, vint(w), vint(hh)}, mw, mh, false)
						// a single result: no refusal possible
						ow, oh := w, hh
						scale, padX, padY := int64(1), int64(0), int64(0)
						if w < mw || hh < mh {
							ow, oh = mw, mh
						} else {
							scale = w / mw
							if hh/mh < scale {
								scale = hh / mh
							}
							padX, padY = (w-mw*scale)/2, (hh-mh*scale)/2
						}
						bad = compare(fmt.Sprintf("a %dx%d symbol, requested %dx%d", mw, mh, w, hh), o, ow, oh, mw, mh, scale, padX, padY, false)
					}
				}
			}
			reportFold(r, c, "R-WHOLE", key, fd.Pos(), bad)
		}
	}
	for _, sr := range []string{"R-SIZE", "R-SCALE", "R-PAD", "R-BLOCK"} {
		r.DecidedBy(sr, "R-WHOLE", "the renderers folded as whole functions: output size, module size, padding and painted pixels compared over a grid of requests")
	}
}
