package main

import (
	"fmt"
	"go/ast"
	"go/types"
)

// qrVersionRow is one NewVersion(...) call of qrcode/decoder.VERSIONS read structurally.
type qrVersionRow struct {
	Num    int
	Align  []int64
	Levels [4]qrLevel
	Total  int // as folded from NewVersion's body on these literal arguments (-1 if undecided)
	Pos    string
	OK     bool
}

type qrLevel struct {
	EC     int
	Groups [][2]int // (count, dataCodewords)
}

// extractQRVersions reads VERSIONS. Structural problems are reported under rule.
func extractQRVersions(c *Ctx, r *Report, rule string) []qrVersionRow {
	init, p := c.varInit("qrcode/decoder", "VERSIONS")
	if init == nil {
		r.AnchorLost(rule, "qrcode/decoder.VERSIONS", "package variable VERSIONS with an initialiser not found")
		return nil
	}
	v := c.eval(p, init)
	if v.K != VList {
		r.Undecided(rule, "qrcode/decoder.VERSIONS", c.pos(init.Pos()), "initialiser is not a list literal")
		return nil
	}
	newVersion, _ := c.lookupObj("qrcode/decoder", "NewVersion").(*types.Func)
	fd := c.funcDecl[newVersion]
	var rows []qrVersionRow
	for i, e := range v.L {
		row := qrVersionRow{Pos: c.pos(e.Pos), Total: -1}
		key := fmt.Sprintf("qrcode/decoder.VERSIONS[%d]", i)
		if e.K != VCall || e.Fn != newVersion || newVersion == nil || len(e.L) != 6 {
			r.Undecided(rule, key, row.Pos, "entry is not a NewVersion(number, centres, L, M, Q, H) call")
			rows = append(rows, row)
			continue
		}
		if !e.L[0].isInt() {
			r.Undecided(rule, key, row.Pos, "version number is not a constant")
			rows = append(rows, row)
			continue
		}
		row.Num = int(e.L[0].I)
		al, ok := e.L[1].ints()
		if !ok {
			r.Undecided(rule, key, row.Pos, "alignment centres are not a constant list")
			rows = append(rows, row)
			continue
		}
		row.Align = al
		good := true
		for lv := 0; lv < 4; lv++ {
			b := e.L[2+lv]
			ec := b.field("ecCodewordsPerBlock")
			gl := b.field("ecBlocks")
			if b.K != VStruct || !ec.isInt() || gl == nil || gl.K != VList {
				good = false
				break
			}
			row.Levels[lv].EC = int(ec.I)
			for _, g := range gl.L {
				cnt, dc := g.field("count"), g.field("dataCodewords")
				if !cnt.isInt() || !dc.isInt() {
					good = false
					break
				}
				row.Levels[lv].Groups = append(row.Levels[lv].Groups, [2]int{int(cnt.I), int(dc.I)})
			}
		}
		if !good {
			r.Undecided(rule, key, row.Pos, "ECBlocks arguments are not constant {ec, []ECB{{count, data}...}} literals")
			rows = append(rows, row)
			continue
		}
		row.OK = true
		// fold NewVersion's body on the literal arguments to obtain totalCodewords as the code computes it
		if fd != nil {
			args := []*Val{e.L[0], e.L[1], {K: VList, L: e.L[2:6]}}
			res, err := c.rpfCall(fd, c.declPkg[fd], args, nil)
			if err == nil && len(res) == 1 && res[0].K == VStruct && res[0].Fields["totalCodewords"].isInt() {
				row.Total = int(res[0].Fields["totalCodewords"].I)
				// the folded constructor must store the arguments unchanged
				if f := res[0].Fields["versionNumber"]; !f.isInt() || int(f.I) != row.Num {
					row.Total = -1
				}
			} else if err != nil {
				r.Undecided(rule, key+".totalCodewords", row.Pos, "NewVersion body leaves the foldable fragment: "+err.Error())
			}
		}
		rows = append(rows, row)
	}
	return rows
}

func intsEq(a []int64, b []int) bool {
	if len(a) != len(b) {
		return false
	}
	for i := range a {
		if a[i] != int64(b[i]) {
			return false
		}
	}
	return true
}

// checkQRVersionTable: T-QRVER obligations (shared by C07, C01, C05, C13 as prerequisites).
func checkQRVersionTable(c *Ctx, r *Report) []qrVersionRow {
	r.Rule("T-QRVER", "each of the 160 (version, level) entries of qrcode/decoder.VERSIONS equals ISO 18004 Table 9: EC codewords per block, number of blocks, short/long block data sizes (derived from the geometry-computed total)", 160)
	r.Rule("T-QRTOTAL", "totalCodewords as folded from NewVersion's body on each literal row equals (modules - function patterns)/8 computed from the symbol geometry; version numbers are 1..40 in order", 40)
	r.Rule("T-QRALIGN-DEC", "alignment pattern centres of each decoder Version equal the Annex E formula", 40)
	rows := extractQRVersions(c, r, "T-QRVER")
	r.Analysed("qrcode/decoder.VERSIONS")
	r.Analysed("qrcode/decoder.NewVersion")
	if len(rows) != 40 {
		r.Fail("T-QRTOTAL", "qrcode/decoder.VERSIONS.len", "", "violation", fmt.Sprintf("VERSIONS has %d entries, the standard defines 40", len(rows)))
	}
	for i, row := range rows {
		if !row.OK {
			continue
		}
		v := i + 1
		key := fmt.Sprintf("qrcode/decoder.VERSIONS[v%d]", v)
		if v > 40 {
			continue
		}
		total := refQRTotalCodewords(v)
		r.Check(row.Num == v && row.Total == total, "T-QRTOTAL", key, row.Pos,
			fmt.Sprintf("row %d: versionNumber=%d totalCodewords=%d, geometry gives version %d with %d codewords", i, row.Num, row.Total, v, total))
		r.Check(intsEq(row.Align, refQRAlign(v)), "T-QRALIGN-DEC", key, row.Pos,
			fmt.Sprintf("alignment centres %v, Annex E formula gives %v", row.Align, refQRAlign(v)))
		for lv := 0; lv < 4; lv++ {
			ec, groups := refQRBlocks(v, lv)
			got := row.Levels[lv]
			ok := got.EC == ec && len(got.Groups) == len(groups)
			if ok {
				for k := range groups {
					if got.Groups[k] != groups[k] {
						ok = false
					}
				}
			}
			r.Check(ok, "T-QRVER", fmt.Sprintf("%s.%s", key, refQRLevelNames[lv]), row.Pos,
				fmt.Sprintf("version %d level %s: ECBlocks{%d, %v}, ISO 18004 Table 9 gives {%d, %v}", v, refQRLevelNames[lv], got.EC, got.Groups, ec, groups))
		}
	}
	// GetECBlocksForLevel maps level -> index in table order L, M, Q, H
	checkECLevel(c, r)
	return rows
}

func checkECLevel(c *Ctx, r *Report) {
	r.Rule("T-ECLEVEL", "error correction level indicator bits (L=1, M=0, Q=3, H=2), ErrorCorrectionLevel_ForBits is their inverse, GetECBlocksForLevel selects table column L,M,Q,H = 0,1,2,3", 12)
	p := c.pkg("qrcode/decoder")
	if p == nil {
		r.AnchorLost("T-ECLEVEL", "qrcode/decoder", "package not found")
		return
	}
	consts := map[string]int64{}
	for lv, n := range refQRLevelNames {
		name := "ErrorCorrectionLevel_" + n
		obj, _ := c.lookupObj("qrcode/decoder", name).(*types.Const)
		if obj == nil {
			r.AnchorLost("T-ECLEVEL", "qrcode/decoder."+name, "constant not found")
			continue
		}
		e, _ := c.varInit("qrcode/decoder", name)
		val, ok := constInt64(obj)
		pos := ""
		if e != nil {
			pos = c.pos(e.Pos())
		}
		consts[name] = val
		r.Check(ok && int(val) == refQRLevelBits[lv], "T-ECLEVEL", "qrcode/decoder."+name, pos,
			fmt.Sprintf("%s = %d, ISO 18004 Table 12 gives %d", name, val, refQRLevelBits[lv]))
	}
	// GetBits must be the identity conversion
	if fd, fp := c.funcDeclOf("qrcode/decoder", "ErrorCorrectionLevel.GetBits"); fd != nil {
		ok := false
		for _, lv := range []int64{0, 1, 2, 3} {
			ro := recvObj(fp, fd)
			res, err := c.rpfCall(fd, fp, nil, &rpf{env: map[types.Object]*Val{ro: vint(lv)}})
			ok = err == nil && len(res) == 1 && res[0].isInt() && res[0].I == lv
			if !ok {
				break
			}
		}
		r.Check(ok, "T-ECLEVEL", "qrcode/decoder.ErrorCorrectionLevel.GetBits", c.pos(fd.Pos()), "GetBits() is not the identity on the level's indicator value")
	} else {
		r.AnchorLost("T-ECLEVEL", "qrcode/decoder.ErrorCorrectionLevel.GetBits", "method not found")
	}
	// ForBits folded over 0..3 and one out-of-range value
	if fd, fp := c.funcDeclOf("qrcode/decoder", "ErrorCorrectionLevel_ForBits"); fd != nil {
		for b := int64(0); b < 4; b++ {
			res, err := c.rpfCall(fd, fp, []*Val{vint(b)}, nil)
			key := fmt.Sprintf("qrcode/decoder.ErrorCorrectionLevel_ForBits(%d)", b)
			if err != nil {
				r.Undecided("T-ECLEVEL", key, c.pos(fd.Pos()), err.Error())
				continue
			}
			r.Check(len(res) == 2 && res[0].isInt() && res[0].I == b && res[1].K == VNil, "T-ECLEVEL", key, c.pos(fd.Pos()),
				fmt.Sprintf("ForBits(%d) folds to %v; it must return the level whose GetBits() is %d with a nil error", b, res, b))
		}
	} else {
		r.AnchorLost("T-ECLEVEL", "qrcode/decoder.ErrorCorrectionLevel_ForBits", "function not found")
	}
	// GetECBlocksForLevel: switch level -> &v.ecBlocks[k]
	if fd, fp := c.funcDeclOf("qrcode/decoder", "Version.GetECBlocksForLevel"); fd != nil {
		want := map[int64]int64{1: 0, 0: 1, 3: 2, 2: 3} // level bits -> column
		got := map[int64]int64{}
		var walk func(n ast.Node)
		walk = func(n ast.Node) {
			ast.Inspect(n, func(m ast.Node) bool {
				sw, ok := m.(*ast.SwitchStmt)
				if !ok {
					return true
				}
				for _, cl := range sw.Body.List {
					cc := cl.(*ast.CaseClause)
					for _, ce := range cc.List {
						cv, ok := constInt(fp, ce)
						if !ok {
							continue
						}
						for _, st := range cc.Body {
							if rs, ok := st.(*ast.ReturnStmt); ok && len(rs.Results) == 1 {
								e := rs.Results[0]
								if u, ok := e.(*ast.UnaryExpr); ok {
									e = u.X
								}
								if ix, ok := e.(*ast.IndexExpr); ok {
									if k, ok := constInt(fp, ix.Index); ok {
										if sel, ok := ix.X.(*ast.SelectorExpr); ok && sel.Sel.Name == "ecBlocks" {
											got[cv] = k
										}
									}
								}
							}
						}
					}
				}
				return false
			})
		}
		walk(fd.Body)
		// fold first: the method on a version whose four block sets are distinguishable; what it returns for each level
		// decides, whatever the shape of the code (a switch, a table of columns)
		folded := map[int64]int64{}
		{
			blocks := &Val{K: VList}
			for k := int64(0); k < 4; k++ {
				blocks.L = append(blocks.L, &Val{K: VStruct, Fields: map[string]*Val{"ecCodewordsPerBlock": vint(100 + k)}})
			}
			ver := &Val{K: VStruct, Ptr: true, Fields: map[string]*Val{"ecBlocks": blocks, "versionNumber": vint(7)}}
			for bitsV := int64(0); bitsV < 4; bitsV++ {
				h := &rpf{unroll: 100, env: map[types.Object]*Val{recvObj(fp, fd): ver}}
				res, err := c.rpfCall(fd, fp, []*Val{vint(bitsV)}, h)
				if err != nil || len(res) != 1 {
					folded = nil
					break
				}
				for k, b := range blocks.L {
					if res[0] == b {
						folded[bitsV] = int64(k)
					}
				}
			}
		}
		if folded != nil && len(folded) == 4 {
			got = folded
		}
		for lv, n := range refQRLevelNames {
			bits := int64(refQRLevelBits[lv])
			k, ok := got[bits]
			r.Check(ok && k == want[bits], "T-ECLEVEL", "qrcode/decoder.Version.GetECBlocksForLevel."+n, c.pos(fd.Pos()),
				fmt.Sprintf("level %s must select ecBlocks[%d] (table order L,M,Q,H); found %v (present=%v)", n, want[bits], k, ok))
		}
	} else {
		r.AnchorLost("T-ECLEVEL", "qrcode/decoder.Version.GetECBlocksForLevel", "method not found")
	}
}

func constInt64(c *types.Const) (int64, bool) {
	if c == nil {
		return 0, false
	}
	v := c.Val()
	if i, ok := constantInt64(v); ok {
		return i, true
	}
	return 0, false
}
