package main

import (
	"fmt"
	"go/ast"
	"go/token"
	"go/types"
	"sort"
	"strings"

	"golang.org/x/tools/go/packages"
	"golang.org/x/tools/go/types/typeutil"
)

func init() {
	registerProp("C08", "Data Matrix symbols conform to ISO/IEC 16022 ECC 200", checkC08)
}

// ISO/IEC 16022:2006 Table 7 (ECC 200 symbol attributes), written independently of the repository.
type refDMSize struct {
	rows, cols         int // symbol size incl. finder/clock
	regRows, regCols   int // data region size
	hRegions, vRegions int
	data, ec           int
	blocks             int
	rect               bool
}

var refDM = []refDMSize{
	{10, 10, 8, 8, 1, 1, 3, 5, 1, false},
	{12, 12, 10, 10, 1, 1, 5, 7, 1, false},
	{14, 14, 12, 12, 1, 1, 8, 10, 1, false},
	{16, 16, 14, 14, 1, 1, 12, 12, 1, false},
	{18, 18, 16, 16, 1, 1, 18, 14, 1, false},
	{20, 20, 18, 18, 1, 1, 22, 18, 1, false},
	{22, 22, 20, 20, 1, 1, 30, 20, 1, false},
	{24, 24, 22, 22, 1, 1, 36, 24, 1, false},
	{26, 26, 24, 24, 1, 1, 44, 28, 1, false},
	{32, 32, 14, 14, 2, 2, 62, 36, 1, false},
	{36, 36, 16, 16, 2, 2, 86, 42, 1, false},
	{40, 40, 18, 18, 2, 2, 114, 48, 1, false},
	{44, 44, 20, 20, 2, 2, 144, 56, 1, false},
	{48, 48, 22, 22, 2, 2, 174, 68, 1, false},
	{52, 52, 24, 24, 2, 2, 204, 84, 2, false},
	{64, 64, 14, 14, 4, 4, 280, 112, 2, false},
	{72, 72, 16, 16, 4, 4, 368, 144, 4, false},
	{80, 80, 18, 18, 4, 4, 456, 192, 4, false},
	{88, 88, 20, 20, 4, 4, 576, 224, 4, false},
	{96, 96, 22, 22, 4, 4, 696, 272, 4, false},
	{104, 104, 24, 24, 4, 4, 816, 336, 6, false},
	{120, 120, 18, 18, 6, 6, 1050, 408, 6, false},
	{132, 132, 20, 20, 6, 6, 1304, 496, 8, false},
	{144, 144, 22, 22, 6, 6, 1558, 620, 10, false},
	{8, 18, 6, 16, 1, 1, 5, 7, 1, true},
	{8, 32, 6, 14, 2, 1, 10, 11, 1, true},
	{12, 26, 10, 24, 1, 1, 16, 14, 1, true},
	{12, 36, 10, 16, 2, 1, 22, 18, 1, true},
	{16, 36, 14, 16, 2, 1, 32, 24, 1, true},
	{16, 48, 14, 22, 2, 1, 49, 28, 1, true},
}

// refDMBlockData: data codewords of interleaved block i (1-based): codewords are dealt round-robin
func refDMBlockData(s refDMSize, i int) int {
	n := s.data / s.blocks
	if i <= s.data%s.blocks {
		n++
	}
	return n
}

func refDMSelfCheck() string {
	for _, s := range refDM {
		if s.rows != s.vRegions*(s.regRows+2) || s.cols != s.hRegions*(s.regCols+2) {
			return fmt.Sprintf("reference %dx%d: region geometry inconsistent", s.rows, s.cols)
		}
		if (s.regRows*s.vRegions*s.regCols*s.hRegions)/8 != s.data+s.ec {
			return fmt.Sprintf("reference %dx%d: data+ec != mapping area / 8", s.rows, s.cols)
		}
		if s.ec%s.blocks != 0 {
			return fmt.Sprintf("reference %dx%d: ec not divisible by blocks", s.rows, s.cols)
		}
	}
	return ""
}

// GF(256) with the Data Matrix polynomial x^8+x^5+x^3+x^2+1 = 0x12D
func gfMul(a, b, poly int) int {
	r := 0
	for b > 0 {
		if b&1 != 0 {
			r ^= a
		}
		a <<= 1
		if a&0x100 != 0 {
			a ^= poly
		}
		b >>= 1
	}
	return r
}

// refDMGenerator: coefficients of prod_{i=1..n} (x - 2^i), low degree first, leading 1 omitted.
func refDMGenerator(n int) []int {
	poly := []int{1} // low degree first
	alpha := 1
	for i := 1; i <= n; i++ {
		alpha = gfMul(alpha, 2, 0x12D)
		next := make([]int, len(poly)+1)
		for k, c := range poly {
			next[k+1] ^= c                    // * x
			next[k] ^= gfMul(c, alpha, 0x12D) // * alpha^i  (minus = plus)
		}
		poly = next
	}
	return poly[:n]
}

type dmSymRow struct {
	rect                                     bool
	data, ec, mw, mh, regions, rsData, rsErr int
	is144                                    bool
	pos                                      string
}

func extractDMSymbols(c *Ctx, r *Report, rule string) []dmSymRow {
	init, p := c.varInit("datamatrix/encoder", "symbols")
	if init == nil {
		r.AnchorLost(rule, "datamatrix/encoder.symbols", "table not found")
		return nil
	}
	r.Analysed("datamatrix/encoder.symbols")
	v := c.eval(p, init)
	if v.K != VList {
		r.Undecided(rule, "datamatrix/encoder.symbols", c.pos(init.Pos()), "not a literal list")
		return nil
	}
	ni, _ := c.lookupObj("datamatrix/encoder", "NewSymbolInfo").(*types.Func)
	nrs, _ := c.lookupObj("datamatrix/encoder", "NewSymbolInfoRS").(*types.Func)
	n144, _ := c.lookupObj("datamatrix/encoder", "NewDataMatrixSymbolInfo144").(*types.Func)
	// constructor shapes
	ctor, ok := c.fieldInitCtor(nrs)
	wantCtor := map[string]int{"rectangular": 0, "dataCapacity": 1, "errorCodewords": 2, "matrixWidth": 3, "matrixHeight": 4, "dataRegions": 5, "rsBlockData": 6, "rsBlockError": 7}
	okCtor := ok
	for f, i := range wantCtor {
		if ctor[f] != i {
			okCtor = false
		}
	}
	if _, has := ctor["rectangular"]; !has {
		okCtor = false
	}
	if !okCtor {
		r.Undecided(rule, "datamatrix/encoder.NewSymbolInfoRS", "", "not the field-initialising constructor expected")
		return nil
	}
	// NewSymbolInfo delegates with (.., dataCapacity, errorCodewords) as rs block sizes
	delegOK := false
	if fd := c.funcDecl[ni]; fd != nil && len(fd.Body.List) == 1 {
		if rs, isR := fd.Body.List[0].(*ast.ReturnStmt); isR && len(rs.Results) == 1 {
			if call, isC := rs.Results[0].(*ast.CallExpr); isC && typeutil.Callee(c.declPkg[fd].TypesInfo, call) == nrs && len(call.Args) == 8 {
				ps := paramObjs(c.declPkg[fd], fd)
				want := []int{0, 1, 2, 3, 4, 5, 1, 2}
				delegOK = len(ps) == 6
				for i, w := range want {
					if delegOK && identObj(c.declPkg[fd], call.Args[i]) != ps[w] {
						delegOK = false
					}
				}
			}
		}
	}
	if !delegOK {
		r.Undecided(rule, "datamatrix/encoder.NewSymbolInfo", "", "does not delegate to NewSymbolInfoRS(.., dataCapacity, errorCodewords)")
		return nil
	}
	var rows []dmSymRow
	for i, e := range v.L {
		key := fmt.Sprintf("datamatrix/encoder.symbols[%d]", i)
		row := dmSymRow{pos: c.pos(e.Pos)}
		var args []*Val
		switch {
		case e.K == VCall && e.Fn == ni && len(e.L) == 6:
			args = append(append([]*Val{}, e.L...), e.L[1], e.L[2])
		case e.K == VCall && e.Fn == nrs && len(e.L) == 8:
			args = e.L
		case e.K == VCall && e.Fn == n144 && n144 != nil:
			// NewDataMatrixSymbolInfo144: si := NewSymbolInfoRS(...); overrides; return si
			fd := c.funcDecl[n144]
			var inner *Val
			if fd != nil {
				ast.Inspect(fd.Body, func(n ast.Node) bool {
					if call, ok := n.(*ast.CallExpr); ok && typeutil.Callee(c.declPkg[fd].TypesInfo, call) == nrs {
						inner = c.eval(c.declPkg[fd], call)
					}
					return true
				})
			}
			if inner == nil || len(inner.L) != 8 {
				r.Undecided(rule, key, row.pos, "144x144 constructor not recognised")
				continue
			}
			args = inner.L
			row.is144 = true
		default:
			r.Undecided(rule, key, row.pos, "entry is not a NewSymbolInfo/NewSymbolInfoRS/NewDataMatrixSymbolInfo144 call")
			continue
		}
		good := args[0].K == VBool
		for _, a := range args[1:] {
			if !a.isInt() {
				good = false
			}
		}
		if !good {
			r.Undecided(rule, key, row.pos, "arguments are not constants")
			continue
		}
		row.rect = args[0].B
		row.data, row.ec, row.mw, row.mh, row.regions, row.rsData, row.rsErr = int(args[1].I), int(args[2].I), int(args[3].I), int(args[4].I), int(args[5].I), int(args[6].I), int(args[7].I)
		rows = append(rows, row)
	}
	return rows
}

type dmVerRow struct {
	num, rows, cols, regRows, regCols int
	ec                                int
	groups                            [][2]int
	total                             int
	pos                               string
}

func extractDMVersions(c *Ctx, r *Report, rule string) []dmVerRow {
	init, p := c.varInit("datamatrix/decoder", "versions")
	if init == nil {
		r.AnchorLost(rule, "datamatrix/decoder.versions", "table not found")
		return nil
	}
	r.Analysed("datamatrix/decoder.versions")
	v := c.eval(p, init)
	if v.K != VList {
		r.Undecided(rule, "datamatrix/decoder.versions", c.pos(init.Pos()), "not a literal list")
		return nil
	}
	nv, _ := c.lookupObj("datamatrix/decoder", "NewVersion").(*types.Func)
	fd := c.funcDecl[nv]
	var rows []dmVerRow
	for i, e := range v.L {
		key := fmt.Sprintf("datamatrix/decoder.versions[%d]", i)
		row := dmVerRow{pos: c.pos(e.Pos), total: -1}
		if e.K != VCall || e.Fn != nv || nv == nil || len(e.L) != 6 {
			r.Undecided(rule, key, row.pos, "entry is not a NewVersion call")
			continue
		}
		good := true
		for _, a := range e.L[:5] {
			if !a.isInt() {
				good = false
			}
		}
		b := e.L[5]
		ecv, gl := b.field("ecCodewords"), b.field("ecBlocks")
		if !good || !ecv.isInt() || gl == nil || gl.K != VList {
			r.Undecided(rule, key, row.pos, "arguments are not constants")
			continue
		}
		row.num, row.rows, row.cols, row.regRows, row.regCols = int(e.L[0].I), int(e.L[1].I), int(e.L[2].I), int(e.L[3].I), int(e.L[4].I)
		row.ec = int(ecv.I)
		for _, g := range gl.L {
			cnt, dc := g.field("count"), g.field("dataCodewords")
			if !cnt.isInt() || !dc.isInt() {
				good = false
				break
			}
			row.groups = append(row.groups, [2]int{int(cnt.I), int(dc.I)})
		}
		if !good {
			r.Undecided(rule, key, row.pos, "ECB entries are not constants")
			continue
		}
		if fd != nil {
			res, err := c.rpfCall(fd, c.declPkg[fd], e.L, nil)
			if err == nil && len(res) == 1 && res[0].K == VStruct && res[0].Fields["totalCodewords"].isInt() {
				f := res[0].Fields
				if f["symbolSizeRows"].isInt() && int(f["symbolSizeRows"].I) == row.rows && f["symbolSizeColumns"].isInt() && int(f["symbolSizeColumns"].I) == row.cols &&
					f["dataRegionSizeRows"].isInt() && int(f["dataRegionSizeRows"].I) == row.regRows && f["dataRegionSizeColumns"].isInt() && int(f["dataRegionSizeColumns"].I) == row.regCols {
					row.total = int(f["totalCodewords"].I)
				}
			} else if err != nil {
				r.Undecided(rule, key+".totalCodewords", row.pos, "NewVersion body leaves the foldable fragment: "+err.Error())
			}
		}
		rows = append(rows, row)
	}
	return rows
}

func checkC08(c *Ctx, r *Report) {
	checkSharedStores(c, r, "datamatrix", 10) // encoder / decoder working storage is per call (also C18)
	// the module matrix reaches the caller through convertByteMatrixToBitMatrix: rectangular symbols keep width and
	// height apart there (same obligations as under C14)
	declareRenderRules(r, 1)
	renderDM(c, r)

	r.exhaustive = true
	if msg := refDMSelfCheck(); msg != "" {
		r.Fail("CHECKER", "refdata", "", "checker-failure", msg)
		return
	}
	checkDMTables(c, r)
	checkDMGenerators(c, r)
	checkDMECCBlock(c, r)
	checkFreshResults(c, r, "datamatrix/encoder") // the interleaved codewords are a buffer of their own (also C18)
	checkDMRandomize(c, r)
	checkDMPlacement(c, r)
	checkDMRegionSwitches(c, r)
	checkDMBlockInterleave(c, r)
	checkDMEccOrder(c, r)
	checkDMFrame(c, r)
	checkDMSweep(c, r)
	checkDMPadding(c, r) // the pad codewords at and beyond position 253 (also C02)
	r.Note("not decided: the traversal loop of Place / readCodewords beyond its shapes, corner cases and trigger conditions")
}

func checkDMTables(c *Ctx, r *Report) {
	r.Rule("T-DMSYM", "each of the 30 encoder symbols rows equals ISO 16022 Table 7 (shape, data/error codewords, region size, region count, per-block data/error sizes) and the table is ordered by non-decreasing capacity, a square before a rectangle of the same capacity", 30)
	r.Rule("T-DMVER", "decoder versions 1..30 equal ISO 16022 Table 7 (symbol size, region size, EC codewords per block, block groups) with totalCodewords as folded from NewVersion equal to mapping area / 8; DMRE rows 31..48 satisfy the same geometric identities", 48)
	r.Rule("S-DMTABLE", "for each ISO size the encoder row and the decoder row describe the same symbol (size, regions, codewords, blocks)", 30)
	syms := extractDMSymbols(c, r, "T-DMSYM")
	vers := extractDMVersions(c, r, "T-DMVER")
	byDim := map[[2]int]refDMSize{}
	for _, s := range refDM {
		byDim[[2]int{s.rows, s.cols}] = s
	}
	// encoder
	seen := map[[2]int]bool{}
	prevCap := 0
	prevRect := false
	regionsHV := map[int][2]int{1: {1, 1}, 2: {2, 1}, 4: {2, 2}, 16: {4, 4}, 36: {6, 6}}
	symByDim := map[[2]int]dmSymRow{}
	for i, s := range syms {
		hv, okHV := regionsHV[s.regions]
		rows, cols := hv[1]*(s.mh+2), hv[0]*(s.mw+2)
		key := fmt.Sprintf("datamatrix/encoder.symbols[%dx%d]", rows, cols)
		if !okHV {
			r.Fail("T-DMSYM", fmt.Sprintf("datamatrix/encoder.symbols[#%d]", i), s.pos, "violation", fmt.Sprintf("dataRegions = %d is not one of 1, 2, 4, 16, 36", s.regions))
			continue
		}
		ref, ok := byDim[[2]int{rows, cols}]
		if !ok {
			r.Fail("T-DMSYM", key, s.pos, "violation", fmt.Sprintf("row %d describes a %dx%d symbol (region %dx%d x %d): not an ECC 200 size of ISO 16022", i, rows, cols, s.mh, s.mw, s.regions))
			continue
		}
		bad := ""
		switch {
		case seen[[2]int{rows, cols}]:
			bad = "duplicate size"
		case s.rect != ref.rect:
			bad = fmt.Sprintf("rectangular=%v, standard %v", s.rect, ref.rect)
		case s.data != ref.data || s.ec != ref.ec:
			bad = fmt.Sprintf("data/error codewords %d/%d, standard %d/%d", s.data, s.ec, ref.data, ref.ec)
		case s.rsErr != ref.ec/ref.blocks:
			bad = fmt.Sprintf("error codewords per block %d, standard %d", s.rsErr, ref.ec/ref.blocks)
		case !s.is144 && (ref.data%ref.blocks != 0 || s.rsData != ref.data/ref.blocks):
			bad = fmt.Sprintf("data codewords per block %d, standard %d (%d blocks)", s.rsData, ref.data/ref.blocks, ref.blocks)
		case s.is144 && (rows != 144 || cols != 144):
			bad = "the special 144x144 constructor is used for another size"
		case s.data < prevCap:
			bad = fmt.Sprintf("capacity %d follows capacity %d: the first-fit lookup needs non-decreasing order", s.data, prevCap)
		case s.data == prevCap && !s.rect && prevRect:
			bad = fmt.Sprintf("this square follows a rectangle of the same capacity (%d): without a shape hint the first-fit lookup must answer the square, the smaller symbol", s.data)
		}
		seen[[2]int{rows, cols}] = true
		prevRect = s.rect
		prevCap = s.data
		symByDim[[2]int{rows, cols}] = s
		r.Check(bad == "", "T-DMSYM", key, s.pos, bad)
	}
	for _, ref := range refDM {
		if !seen[[2]int{ref.rows, ref.cols}] && len(syms) > 0 {
			r.Fail("T-DMSYM", fmt.Sprintf("datamatrix/encoder.symbols[%dx%d]", ref.rows, ref.cols), "", "violation", "ISO 16022 size missing from the encoder's table")
		}
	}
	// decoder
	verByDim := map[[2]int]dmVerRow{}
	for i, v := range vers {
		key := fmt.Sprintf("datamatrix/decoder.versions[%dx%d]", v.rows, v.cols)
		bad := ""
		if v.num != i+1 {
			bad = fmt.Sprintf("version number %d at index %d", v.num, i)
		}
		if v.regRows <= 0 || v.regCols <= 0 || v.rows%(v.regRows+2) != 0 || v.cols%(v.regCols+2) != 0 {
			bad = "symbol size is not a whole number of (region + 2) modules"
		}
		sum, blocks := 0, 0
		for _, g := range v.groups {
			sum += g[0] * (g[1] + v.ec)
			blocks += g[0]
		}
		if bad == "" {
			vr, hr := v.rows/(v.regRows+2), v.cols/(v.regCols+2)
			area := (vr * v.regRows * hr * v.regCols) / 8
			if v.total != area || sum != area {
				bad = fmt.Sprintf("totalCodewords folds to %d (blocks sum %d), mapping area/8 is %d", v.total, sum, area)
			}
		}
		if ref, ok := byDim[[2]int{v.rows, v.cols}]; ok && bad == "" {
			var want [][2]int
			long := ref.data % ref.blocks
			if long == 0 {
				want = [][2]int{{ref.blocks, ref.data / ref.blocks}}
			} else {
				want = [][2]int{{long, ref.data/ref.blocks + 1}, {ref.blocks - long, ref.data / ref.blocks}}
			}
			same := len(want) == len(v.groups)
			if same {
				for k := range want {
					if want[k] != v.groups[k] {
						same = false
					}
				}
			}
			if v.regRows != ref.regRows || v.regCols != ref.regCols || v.ec != ref.ec/ref.blocks || !same {
				bad = fmt.Sprintf("region %dx%d, ec/block %d, groups %v; ISO 16022: region %dx%d, ec/block %d, groups %v", v.regRows, v.regCols, v.ec, v.groups, ref.regRows, ref.regCols, ref.ec/ref.blocks, want)
			}
			if i >= 30 {
				bad = "ISO size listed among the extension rows"
			}
		} else if bad == "" && i < 30 {
			bad = fmt.Sprintf("%dx%d is not an ECC 200 size of ISO 16022", v.rows, v.cols)
		}
		if _, dup := verByDim[[2]int{v.rows, v.cols}]; dup && bad == "" {
			bad = "duplicate size (lookup by dimensions returns the first)"
		}
		verByDim[[2]int{v.rows, v.cols}] = v
		r.Check(bad == "", "T-DMVER", key, v.pos, bad)
	}
	// sibling agreement
	for _, ref := range refDM {
		d := [2]int{ref.rows, ref.cols}
		s, okS := symByDim[d]
		v, okV := verByDim[d]
		key := fmt.Sprintf("datamatrix %dx%d encoder<->decoder", ref.rows, ref.cols)
		if !okS || !okV {
			if len(syms) > 0 && len(vers) > 0 {
				r.Fail("S-DMTABLE", key, "", "violation", fmt.Sprintf("size present in encoder: %v, in decoder: %v", okS, okV))
			}
			continue
		}
		blocks := 0
		dataSum := 0
		for _, g := range v.groups {
			blocks += g[0]
			dataSum += g[0] * g[1]
		}
		bad := ""
		if s.mh != v.regRows || s.mw != v.regCols {
			bad = fmt.Sprintf("region size encoder %dx%d, decoder %dx%d", s.mh, s.mw, v.regRows, v.regCols)
		} else if s.data != dataSum || s.ec != blocks*v.ec || s.rsErr != v.ec {
			bad = fmt.Sprintf("codewords encoder %d+%d (ec/block %d), decoder %d+%d (ec/block %d)", s.data, s.ec, s.rsErr, dataSum, blocks*v.ec, v.ec)
		}
		r.Check(bad == "", "S-DMTABLE", key, s.pos, bad)
	}
	// 144x144 special functions
	r.Rule("T-DM144", "the 144x144 block functions folded: 10 interleaved blocks, data length 156 for blocks 1..8 and 155 for blocks 9..10 (= decoder version 24 groups), and the default functions return dataCapacity/rsBlockData and rsBlockData", 12)
	if fd, p := c.funcDeclOf("datamatrix/encoder", "datamatrixSymbolInfo144_getDataLengthForInterleavedBlock"); fd != nil {
		r.Analysed("datamatrix/encoder.datamatrixSymbolInfo144_getDataLengthForInterleavedBlock")
		ref := refDM[23]
		for i := 1; i <= 10; i++ {
			res, err := c.rpfCall(fd, p, []*Val{{K: VNil}, vint(int64(i))}, nil)
			key := fmt.Sprintf("datamatrix/encoder.datamatrixSymbolInfo144_getDataLengthForInterleavedBlock(%d)", i)
			if err != nil {
				r.Undecided("T-DM144", key, c.pos(fd.Pos()), err.Error())
				continue
			}
			want := refDMBlockData(ref, i)
			r.Check(len(res) == 1 && res[0].isInt() && int(res[0].I) == want, "T-DM144", key, c.pos(fd.Pos()), fmt.Sprintf("block %d: %v data codewords, ISO 16022: %d", i, res, want))
		}
	} else {
		r.AnchorLost("T-DM144", "datamatrix/encoder.datamatrixSymbolInfo144_getDataLengthForInterleavedBlock", "function not found")
	}
	if fd, p := c.funcDeclOf("datamatrix/encoder", "datamatrixSymbolInfo144_getInterleavedBlockCount"); fd != nil {
		res, err := c.rpfCall(fd, p, []*Val{{K: VNil}}, nil)
		r.Check(err == nil && len(res) == 1 && res[0].isInt() && res[0].I == 10, "T-DM144", "datamatrix/encoder.datamatrixSymbolInfo144_getInterleavedBlockCount", c.pos(fd.Pos()), "must return 10")
	} else {
		r.AnchorLost("T-DM144", "datamatrix/encoder.datamatrixSymbolInfo144_getInterleavedBlockCount", "function not found")
	}
	// default functions
	if fd, p := c.funcDeclOf("datamatrix/encoder", "defaultGetInterleavedBlockCount"); fd != nil {
		recv := &Val{K: VStruct, Fields: map[string]*Val{"dataCapacity": vint(816), "rsBlockData": vint(136), "errorCodewords": vint(336), "rsBlockError": vint(56)}}
		res, err := c.rpfCall(fd, p, []*Val{recv}, nil)
		r.Check(err == nil && len(res) == 1 && res[0].isInt() && res[0].I == 6, "T-DM144", "datamatrix/encoder.defaultGetInterleavedBlockCount", c.pos(fd.Pos()), "must return dataCapacity / rsBlockData")
	} else {
		r.AnchorLost("T-DM144", "datamatrix/encoder.defaultGetInterleavedBlockCount", "function not found")
	}
	// which functions are installed: NewSymbolInfoRS installs the defaults, the 144 constructor its own
	okInstall := false
	if n144, _ := c.lookupObj("datamatrix/encoder", "NewDataMatrixSymbolInfo144").(*types.Func); n144 != nil {
		if fd := c.funcDecl[n144]; fd != nil {
			p := c.declPkg[fd]
			got := map[string]types.Object{}
			ast.Inspect(fd.Body, func(n ast.Node) bool {
				if as, ok := n.(*ast.AssignStmt); ok && len(as.Lhs) == 1 {
					if sel, ok := as.Lhs[0].(*ast.SelectorExpr); ok {
						got[sel.Sel.Name] = identObj(p, as.Rhs[0])
					}
				}
				return true
			})
			okInstall = got["funcGetInterleavedBlockCount"] == c.lookupObj("datamatrix/encoder", "datamatrixSymbolInfo144_getInterleavedBlockCount") &&
				got["funcGetDataLengthForInterleavedBlock"] == c.lookupObj("datamatrix/encoder", "datamatrixSymbolInfo144_getDataLengthForInterleavedBlock") && got["funcGetInterleavedBlockCount"] != nil
		}
	}
	r.Check(okInstall, "T-DM144", "datamatrix/encoder.NewDataMatrixSymbolInfo144.install", "", "the 144x144 row must install its own block-count and block-length functions")
}

func checkDMGenerators(c *Ctx, r *Report) {
	r.Rule("T-DMGEN", "factorSets lists the 16 ECC 200 parity lengths and factors[i] equals the coefficients of prod_{k=1..n}(x - 2^k) over GF(256)/0x12D recomputed by the checker (low degree first, leading 1 omitted); moduloValue = 0x12D", 18)
	fsInit, p := c.varInit("datamatrix/encoder", "factorSets")
	fInit, _ := c.varInit("datamatrix/encoder", "factors")
	mInit, _ := c.varInit("datamatrix/encoder", "moduloValue")
	if fsInit == nil || fInit == nil || mInit == nil {
		r.AnchorLost("T-DMGEN", "datamatrix/encoder.factors", "factorSets/factors/moduloValue not found")
		return
	}
	r.Analysed("datamatrix/encoder.factors")
	mv := c.eval(p, mInit)
	r.Check(mv.isInt() && mv.I == 0x12D, "T-DMGEN", "datamatrix/encoder.moduloValue", c.pos(mInit.Pos()), fmt.Sprintf("moduloValue = %v, ISO 16022 field polynomial is 0x12D", mv))
	fs, ok := c.eval(p, fsInit).ints()
	want := []int64{5, 7, 10, 11, 12, 14, 18, 20, 24, 28, 36, 42, 48, 56, 62, 68}
	okFS := ok && len(fs) == len(want)
	if okFS {
		for i := range want {
			if fs[i] != want[i] {
				okFS = false
			}
		}
	}
	r.Check(okFS, "T-DMGEN", "datamatrix/encoder.factorSets", c.pos(fsInit.Pos()), fmt.Sprintf("factorSets = %v, the ECC 200 parity lengths are %v", fs, want))
	fv := c.eval(p, fInit)
	if fv.K != VList {
		r.Undecided("T-DMGEN", "datamatrix/encoder.factors", c.pos(fInit.Pos()), "not a literal table")
		return
	}
	for i, row := range fv.L {
		if i >= len(fs) {
			break
		}
		key := fmt.Sprintf("datamatrix/encoder.factors[n=%d]", fs[i])
		xs, ok := row.ints()
		if !ok {
			r.Undecided("T-DMGEN", key, c.pos(row.Pos), "row is not constant")
			continue
		}
		ref := refDMGenerator(int(fs[i]))
		bad := ""
		if len(xs) != len(ref) {
			bad = fmt.Sprintf("%d coefficients, expected %d", len(xs), len(ref))
		} else {
			for k := range ref {
				if int(xs[k]) != ref[k] {
					bad = fmt.Sprintf("coefficient %d = %d, generator polynomial has %d", k, xs[k], ref[k])
					break
				}
			}
		}
		r.Check(bad == "", "T-DMGEN", key, c.pos(row.Pos), bad)
	}
	if len(fv.L) != len(fs) {
		r.Fail("T-DMGEN", "datamatrix/encoder.factors.len", c.pos(fInit.Pos()), "violation", fmt.Sprintf("%d rows for %d parity lengths", len(fv.L), len(fs)))
	}
}

func checkDMRandomize(c *Ctx, r *Report) {
	r.Rule("S-RAND", "randomize253State(pos), base256Randomize255State(v, pos) and unrandomize255State(v, pos) folded for every position 1..1558 (x every byte value) equal ISO 16022 Annex B.1/B.2, and unrandomize inverts randomize", 3)
	positions := 1558
	if fd, p := c.funcDeclOf("datamatrix/encoder", "randomize253State"); fd != nil {
		r.Analysed("datamatrix/encoder.randomize253State")
		bad := ""
		for pos := 1; pos <= positions && bad == ""; pos++ {
			res, err := c.rpfCall(fd, p, []*Val{vint(int64(pos))}, nil)
			if err != nil {
				bad = "?" + err.Error()
				break
			}
			pr := (149*pos)%253 + 1
			want := 129 + pr
			if want > 254 {
				want -= 254
			}
			if len(res) != 1 || !res[0].isInt() || int(res[0].I) != want {
				bad = fmt.Sprintf("position %d: %v, ISO 16022 B.1 gives %d", pos, res, want)
			}
		}
		if bad != "" && bad[0] == '?' {
			r.Undecided("S-RAND", "datamatrix/encoder.randomize253State", c.pos(fd.Pos()), bad)
		} else {
			r.Check(bad == "", "S-RAND", "datamatrix/encoder.randomize253State", c.pos(fd.Pos()), bad)
		}
	} else {
		r.AnchorLost("S-RAND", "datamatrix/encoder.randomize253State", "function not found")
	}
	vals := []int{0, 1, 2, 100, 127, 128, 200, 254, 255}
	if c.Tier == "thorough" {
		vals = vals[:0]
		for v := 0; v < 256; v++ {
			vals = append(vals, v)
		}
	}
	fold2 := func(rel, name string, valFirst bool, ref func(v, pos int) int, what string) {
		fd, p := c.funcDeclOf(rel, name)
		key := rel + "." + name
		if fd == nil {
			r.AnchorLost("S-RAND", key, "function not found")
			return
		}
		r.Analysed(key)
		bad := ""
		for pos := 1; pos <= positions && bad == ""; pos++ {
			vs := vals
			if c.Tier != "thorough" {
				// the wrap boundary for this position, exactly
				pr := (149*pos)%255 + 1
				vs = append(append([]int{}, vals...), (255-pr+256)%256, (256-pr)%256, pr-1, pr%256)
			}
			for _, v := range vs {
				args := []*Val{vint(int64(v)), vint(int64(pos))}
				res, err := c.rpfCall(fd, p, args, nil)
				if err != nil {
					bad = "?" + err.Error()
					break
				}
				want := ref(v, pos)
				if len(res) != 1 || !res[0].isInt() || int(res[0].I) != want {
					bad = fmt.Sprintf("value %d at position %d: %v, ISO 16022 %s gives %d", v, pos, res, what, want)
					break
				}
			}
		}
		if bad != "" && bad[0] == '?' {
			r.Undecided("S-RAND", key, c.pos(fd.Pos()), bad)
		} else {
			r.Check(bad == "", "S-RAND", key, c.pos(fd.Pos()), bad)
		}
	}
	fold2("datamatrix/encoder", "base256Randomize255State", true, func(v, pos int) int {
		t := v + (149*pos)%255 + 1
		if t > 255 {
			t -= 256
		}
		return t
	}, "B.2 (randomise)")
	fold2("datamatrix/decoder", "unrandomize255State", true, func(v, pos int) int {
		t := v - ((149*pos)%255 + 1)
		if t < 0 {
			t += 256
		}
		return t
	}, "B.2 (un-randomise)")
}

// ---- placement ----

type rc struct{ row, col *Poly }

func dmRefShapes(nrow, ncol, row, col *Poly) map[string][8][2]*Poly {
	k := func(i int64) *Poly { return polyInt(i) }
	z := k(0)
	return map[string][8][2]*Poly{
		"utah": {{row.sub(k(2)), col.sub(k(2))}, {row.sub(k(2)), col.sub(k(1))}, {row.sub(k(1)), col.sub(k(2))}, {row.sub(k(1)), col.sub(k(1))},
			{row.sub(k(1)), col}, {row, col.sub(k(2))}, {row, col.sub(k(1))}, {row, col}},
		"corner1": {{nrow.sub(k(1)), z}, {nrow.sub(k(1)), k(1)}, {nrow.sub(k(1)), k(2)}, {z, ncol.sub(k(2))}, {z, ncol.sub(k(1))}, {k(1), ncol.sub(k(1))}, {k(2), ncol.sub(k(1))}, {k(3), ncol.sub(k(1))}},
		"corner2": {{nrow.sub(k(3)), z}, {nrow.sub(k(2)), z}, {nrow.sub(k(1)), z}, {z, ncol.sub(k(4))}, {z, ncol.sub(k(3))}, {z, ncol.sub(k(2))}, {z, ncol.sub(k(1))}, {k(1), ncol.sub(k(1))}},
		"corner3": {{nrow.sub(k(3)), z}, {nrow.sub(k(2)), z}, {nrow.sub(k(1)), z}, {z, ncol.sub(k(2))}, {z, ncol.sub(k(1))}, {k(1), ncol.sub(k(1))}, {k(2), ncol.sub(k(1))}, {k(3), ncol.sub(k(1))}},
		"corner4": {{nrow.sub(k(1)), z}, {nrow.sub(k(1)), ncol.sub(k(1))}, {z, ncol.sub(k(3))}, {z, ncol.sub(k(2))}, {z, ncol.sub(k(1))}, {k(1), ncol.sub(k(3))}, {k(1), ncol.sub(k(2))}, {k(1), ncol.sub(k(1))}},
	}
}

// ISO 16022 Annex F trigger conditions
func dmRefTrigger(shape string, row, col, nrow, ncol int64) bool {
	switch shape {
	case "corner1":
		return row == nrow && col == 0
	case "corner2":
		return row == nrow-2 && col == 0 && ncol%4 != 0
	case "corner3":
		return row == nrow-2 && col == 0 && ncol%8 == 4
	case "corner4":
		return row == nrow+4 && col == 2 && ncol%8 == 0
	}
	return false
}

// shapeOf lifts the ordered (row, col) arguments of the calls to modFn inside fd.
func shapeOf(c *Ctx, fd *ast.FuncDecl, p *packages.Package, isMod func(types.Object) bool) ([][2]*Poly, []int64) {
	s := c.newSymExec(p)
	s.pure = func(o types.Object) bool { return false }
	var out [][2]*Poly
	var bits []int64
	ast.Inspect(fd.Body, func(n ast.Node) bool {
		call, ok := n.(*ast.CallExpr)
		if !ok || !isMod(typeutil.Callee(p.TypesInfo, call)) || len(call.Args) < 2 {
			return true
		}
		out = append(out, [2]*Poly{s.expr(call.Args[0]), s.expr(call.Args[1])})
		if len(call.Args) == 4 {
			if b, ok := constInt(p, call.Args[3]); ok {
				bits = append(bits, b)
			}
		}
		return true
	})
	return out, bits
}

func checkDMPlacement(c *Ctx, r *Report) {
	r.Rule("S-PLACE", "ECC 200 module placement (ISO 16022 Annex F): the utah shape and the four corner shapes as ordered lists of 8 (row, col) terms, in the encoder (module calls, bit numbers 1..8) and in the decoder (readModule calls, most significant bit first); each corner's trigger condition folded over (row, col, numcols) equals the Annex F condition of the shape it calls; the wrap-around rule of module/readModule folded over all 30 mapping sizes", 5+5+4+4+2)
	type side struct {
		rel, recvT, modName string
		names               []string
		nrowAtom, ncolAtom  func(fd *ast.FuncDecl, p *packages.Package) (*Poly, *Poly)
	}
	encAtoms := func(fd *ast.FuncDecl, p *packages.Package) (*Poly, *Poly) {
		ro := recvObj(p, fd)
		base := polyAtom(objAtom(ro)).String()
		return polyAtom("fld(" + base + ",numrows)"), polyAtom("fld(" + base + ",numcols)")
	}
	decAtoms := func(fd *ast.FuncDecl, p *packages.Package) (*Poly, *Poly) {
		ps := paramObjs(p, fd)
		n := len(ps)
		return polyAtom(objAtom(ps[n-2])), polyAtom(objAtom(ps[n-1]))
	}
	sides := []side{
		{"datamatrix/encoder", "DefaultPlacement", "module", []string{"utah", "corner1", "corner2", "corner3", "corner4"}, encAtoms, nil},
		{"datamatrix/decoder", "BitMatrixParser", "readModule", []string{"readUtah", "readCorner1", "readCorner2", "readCorner3", "readCorner4"}, decAtoms, nil},
	}
	shapeOfFn := map[types.Object]string{} // function object -> ISO shape name
	for si, sd := range sides {
		isMod := func(o types.Object) bool { return isMethodNamed(o, sd.rel, sd.recvT, sd.modName) }
		for _, name := range sd.names {
			fd, p := c.funcDeclOf(sd.rel, sd.recvT+"."+name)
			key := sd.rel + "." + sd.recvT + "." + name
			if fd == nil {
				r.AnchorLost("S-PLACE", key, "method not found")
				continue
			}
			r.Analysed(key)
			got, bits := shapeOf(c, fd, p, isMod)
			if len(got) != 8 {
				r.Undecided("S-PLACE", key, c.pos(fd.Pos()), fmt.Sprintf("%d %s calls, expected 8", len(got), sd.modName))
				continue
			}
			nrow, ncol := sd.nrowAtom(fd, p)
			ps := paramObjs(p, fd)
			var rowA, colA *Poly
			if len(ps) >= 2 {
				rowA, colA = polyAtom(objAtom(ps[0])), polyAtom(objAtom(ps[1]))
			} else {
				rowA, colA = polyAtom("row"), polyAtom("col")
			}
			refs := dmRefShapes(nrow, ncol, rowA, colA)
			match := ""
			for shape, ref := range refs {
				same := true
				for k := 0; k < 8; k++ {
					if !got[k][0].equal(ref[k][0]) || !got[k][1].equal(ref[k][1]) {
						same = false
						break
					}
				}
				if same {
					match = shape
				}
			}
			isUtah := name == "utah" || name == "readUtah"
			bad := ""
			if match == "" {
				// describe the first deviating module against the nearest reference
				bestShape, bestN := "", -1
				for shape, ref := range refs {
					n := 0
					for k := 0; k < 8; k++ {
						if got[k][0].equal(ref[k][0]) && got[k][1].equal(ref[k][1]) {
							n++
						}
					}
					if n > bestN {
						bestShape, bestN = shape, n
					}
				}
				ref := refs[bestShape]
				for k := 0; k < 8; k++ {
					if !got[k][0].equal(ref[k][0]) || !got[k][1].equal(ref[k][1]) {
						bad = fmt.Sprintf("module %d is (%s, %s); Annex F %s has (%s, %s)", k+1, prettyPoly(got[k][0]), prettyPoly(got[k][1]), bestShape, prettyPoly(ref[k][0]), prettyPoly(ref[k][1]))
						break
					}
				}
			} else if isUtah != (match == "utah") {
				bad = "shape " + match + " found in " + name
			}
			if si == 0 && bad == "" {
				for k, b := range bits {
					if b != int64(k+1) {
						bad = fmt.Sprintf("module %d carries bit number %d (must be %d: bit 1 is the most significant)", k+1, b, k+1)
					}
				}
				if len(bits) != 8 {
					bad = "bit numbers are not constants"
				}
			}
			if si == 1 && bad == "" {
				if why := checkMSBFirstAssembly(c, fd, p); why != "" {
					bad = why
				}
			}
			r.Check(bad == "", "S-PLACE", key, c.pos(fd.Pos()), bad)
			if match != "" {
				var obj types.Object = p.TypesInfo.Defs[fd.Name]
				shapeOfFn[obj] = match
			}
		}
	}
	// all four corner shapes must be present on each side
	for _, sd := range sides {
		have := map[string]bool{}
		for o, sh := range shapeOfFn {
			if o.Pkg() != nil && pkgMatches(o.Pkg().Path(), sd.rel) {
				have[sh] = true
			}
		}
		var missing []string
		for _, sh := range []string{"utah", "corner1", "corner2", "corner3", "corner4"} {
			if !have[sh] {
				missing = append(missing, sh)
			}
		}
		sort.Strings(missing)
		if len(missing) > 0 && len(shapeOfFn) > 0 {
			r.Fail("S-PLACE", sd.rel+".shapes-present", "", "violation", fmt.Sprintf("Annex F shapes without an implementation: %v", missing))
		}
	}
	// triggers
	checkDMTriggers(c, r, "datamatrix/encoder", "DefaultPlacement.Place", shapeOfFn, true)
	checkDMTriggers(c, r, "datamatrix/decoder", "BitMatrixParser.readCodewords", shapeOfFn, false)
	// wrap rule
	checkDMWrap(c, r, "datamatrix/encoder", "DefaultPlacement.module", true)
	checkDMWrap(c, r, "datamatrix/decoder", "BitMatrixParser.readModule", false)
}

// checkMSBFirstAssembly: the decoder shape functions assemble the byte as ((..(b1<<1|b2)<<1..)|b8):
// statement pattern  [if readModule {cur |= 1}; cur <<= 1] x7 ; if readModule {cur |= 1}
func checkMSBFirstAssembly(c *Ctx, fd *ast.FuncDecl, p *packages.Package) string {
	ifs, shifts := 0, 0
	lastWasIf := false
	for _, st := range fd.Body.List {
		switch x := st.(type) {
		case *ast.IfStmt:
			if len(x.Body.List) != 1 {
				return "unexpected statement in bit assembly"
			}
			as, ok := x.Body.List[0].(*ast.AssignStmt)
			if !ok || as.Tok != token.OR_ASSIGN {
				return "bit is not OR-ed into the byte"
			}
			if v, ok := constInt(p, as.Rhs[0]); !ok || v != 1 {
				return "bit is not OR-ed in as 1"
			}
			if lastWasIf {
				return "two modules read without a shift between them"
			}
			ifs++
			lastWasIf = true
		case *ast.AssignStmt:
			if x.Tok == token.SHL_ASSIGN {
				if v, ok := constInt(p, x.Rhs[0]); !ok || v != 1 {
					return "shift is not by one bit"
				}
				if !lastWasIf {
					return "shift without a preceding module read"
				}
				shifts++
				lastWasIf = false
			}
		}
	}
	if ifs != 8 || shifts != 7 {
		return fmt.Sprintf("%d module reads and %d shifts, expected 8 and 7 (most significant bit first)", ifs, shifts)
	}
	return ""
}

func checkDMTriggers(c *Ctx, r *Report, rel, fn string, shapeOfFn map[types.Object]string, isEnc bool) {
	fd, p := c.funcDeclOf(rel, fn)
	key := rel + "." + fn
	if fd == nil {
		r.AnchorLost("S-PLACE", key, "method not found")
		return
	}
	r.Analysed(key)
	// find if-statements (incl. else-if arms) whose body calls a corner-shaped function
	type arm struct {
		cond  ast.Expr
		shape string
		pos   token.Pos
	}
	var arms []arm
	ast.Inspect(fd.Body, func(n ast.Node) bool {
		ifs, ok := n.(*ast.IfStmt)
		if !ok {
			return true
		}
		for _, st := range ifs.Body.List {
			ast.Inspect(st, func(m ast.Node) bool {
				if _, nested := m.(*ast.IfStmt); nested {
					return false
				}
				if _, nested := m.(*ast.ForStmt); nested {
					return false
				}
				if call, ok := m.(*ast.CallExpr); ok {
					if sh, ok := shapeOfFn[typeutil.Callee(p.TypesInfo, call)]; ok && sh != "utah" {
						arms = append(arms, arm{ifs.Cond, sh, ifs.Pos()})
					}
				}
				return true
			})
		}
		return true
	})
	if len(arms) != 4 {
		r.Undecided("S-PLACE", key+".triggers", c.pos(fd.Pos()), fmt.Sprintf("%d corner trigger arms found, expected 4", len(arms)))
		return
	}
	// variables: row, col are the two int locals initialised to 4 and 0; numrows/numcols via receiver fields or locals
	var rowObj, colObj types.Object
	locals := map[types.Object]ast.Expr{}
	// row/col are the first two arguments of the utah-shaped call
	ast.Inspect(fd.Body, func(n ast.Node) bool {
		if call, ok := n.(*ast.CallExpr); ok && len(call.Args) >= 2 {
			if sh, ok := shapeOfFn[typeutil.Callee(p.TypesInfo, call)]; ok && sh == "utah" {
				rowObj, colObj = identObj(p, call.Args[0]), identObj(p, call.Args[1])
			}
		}
		return true
	})
	for _, st := range fd.Body.List {
		if as, ok := st.(*ast.AssignStmt); ok && as.Tok == token.DEFINE && len(as.Lhs) == 1 {
			obj := identObj(p, as.Lhs[0])
			if _, ok := constInt(p, as.Rhs[0]); !ok && obj != rowObj && obj != colObj {
				locals[obj] = as.Rhs[0]
			}
		}
	}
	if rowObj == nil || colObj == nil {
		r.Undecided("S-PLACE", key+".triggers", c.pos(fd.Pos()), "row := 4 / col := 0 not found")
		return
	}
	for _, a := range arms {
		k := fmt.Sprintf("%s.trigger(%s)", key, a.shape)
		bad := ""
		for _, dims := range [][2]int64{{8, 8}, {10, 10}, {12, 12}, {14, 14}, {16, 16}, {6, 16}, {6, 28}, {10, 24}, {10, 32}, {14, 32}, {14, 44}, {132, 132}, {20, 20}, {22, 22}, {24, 24}, {28, 28}} {
			nrow, ncol := dims[0], dims[1]
			for row := int64(0); row <= nrow+6 && bad == ""; row++ {
				for col := int64(0); col <= 4; col++ {
					env := map[types.Object]*Val{rowObj: vint(row), colObj: vint(col)}
					hooks := &rpf{
						selHook: func(rr *rpf, sel *ast.SelectorExpr) (*Val, bool) {
							switch sel.Sel.Name {
							case "numrows":
								return vint(nrow), true
							case "numcols":
								return vint(ncol), true
							}
							return nil, false
						},
						callHook: func(rr *rpf, call *ast.CallExpr, callee types.Object) (*Val, bool) {
							switch {
							case isMethodNamed(callee, "", "BitMatrix", "GetHeight"):
								return vint(nrow), true
							case isMethodNamed(callee, "", "BitMatrix", "GetWidth"):
								return vint(ncol), true
							}
							return nil, false
						},
					}
					for obj, e := range locals {
						if v, err := c.rpfExpr(p, e, env, hooks); err == nil {
							env[obj] = v
						} else if isBoolT(obj.Type()) {
							env[obj] = vbool(false)
						}
					}
					v, err := c.rpfExpr(p, a.cond, env, hooks)
					if err != nil {
						bad = "?" + err.Error()
						break
					}
					want := dmRefTrigger(a.shape, row, col, nrow, ncol)
					if v.K != VBool || v.B != want {
						bad = fmt.Sprintf("mapping matrix %dx%d at (row %d, col %d): condition guarding %s is %v, Annex F says %v", nrow, ncol, row, col, a.shape, v, want)
						break
					}
				}
			}
		}
		if bad != "" && bad[0] == '?' {
			r.Undecided("S-PLACE", k, c.pos(a.pos), bad)
		} else {
			r.Check(bad == "", "S-PLACE", k, c.pos(a.pos), bad)
		}
	}
}

func isBoolT(t types.Type) bool {
	b, ok := t.Underlying().(*types.Basic)
	return ok && b.Info()&types.IsBoolean != 0
}

func checkDMWrap(c *Ctx, r *Report, rel, fn string, isEnc bool) {
	fd, p := c.funcDeclOf(rel, fn)
	key := rel + "." + fn + ".wrap"
	if fd == nil {
		r.AnchorLost("S-PLACE", key, "method not found")
		return
	}
	r.Analysed(rel + "." + fn)
	bad := ""
	ps := paramObjs(p, fd)
	for _, s := range refDM {
		nrow, ncol := int64(s.regRows*s.vRegions), int64(s.regCols*s.hRegions)
		for row := int64(-2); row < nrow && bad == ""; row++ {
			for col := int64(-2); col < ncol; col++ {
				if row >= 0 && col >= 0 && (row > 3 && col > 3) && (row < nrow-4 && col < ncol-4) {
					continue // interior: no wrap involved (sampled on the border band only)
				}
				// reference
				rr, cc := row, col
				if rr < 0 {
					rr += nrow
					cc += 4 - ((nrow + 4) % 8)
				}
				if cc < 0 {
					cc += ncol
					rr += 4 - ((ncol + 4) % 8)
				}
				if rr < 0 || rr >= nrow || cc < 0 || cc >= ncol {
					continue // cannot arise for a valid placement of this size
				}
				var got [][2]int64
				hooks := &rpf{
					selHook: func(x *rpf, sel *ast.SelectorExpr) (*Val, bool) {
						switch sel.Sel.Name {
						case "numrows":
							return vint(nrow), true
						case "numcols":
							return vint(ncol), true
						}
						return nil, false
					},
					idxHook: func(x *rpf, ix *ast.IndexExpr) (*Val, bool) {
						if sel, ok := ix.X.(*ast.SelectorExpr); ok && sel.Sel.Name == "codewords" {
							return vint(0), true
						}
						return nil, false
					},
					callHook: func(x *rpf, call *ast.CallExpr, callee types.Object) (*Val, bool) {
						switch {
						case isMethodNamed(callee, rel, "DefaultPlacement", "setBit"):
							a, b := x.expr(call.Args[0]), x.expr(call.Args[1])
							got = append(got, [2]int64{b.I, a.I}) // (row, col) from (col, row)
							return &Val{K: VNil}, true
						case isMethodNamed(callee, "", "BitMatrix", "Set"), isMethodNamed(callee, "", "BitMatrix", "Get"):
							a, b := x.expr(call.Args[0]), x.expr(call.Args[1])
							got = append(got, [2]int64{b.I, a.I})
							return vbool(false), true
						}
						return nil, false
					},
				}
				args := []*Val{vint(row), vint(col)}
				if isEnc {
					args = append(args, vint(0), vint(1))
				} else {
					args = append(args, vint(nrow), vint(ncol))
				}
				_ = ps
				_, err := c.rpfCall(fd, p, args, hooks)
				if err != nil {
					bad = "?" + err.Error()
					break
				}
				okAll := len(got) > 0
				for _, g := range got {
					if g[0] != rr || g[1] != cc {
						okAll = false
					}
				}
				if !okAll {
					bad = fmt.Sprintf("mapping matrix %dx%d: module (%d,%d) is placed at %v, Annex F wrap rule gives (%d,%d)", nrow, ncol, row, col, got, rr, cc)
					break
				}
			}
		}
	}
	if bad != "" && bad[0] == '?' {
		r.Undecided("S-PLACE", key, c.pos(fd.Pos()), bad)
	} else {
		r.Check(bad == "", "S-PLACE", key, c.pos(fd.Pos()), bad)
	}
}

func checkDMRegionSwitches(c *Ctx, r *Report) {
	r.Rule("T-DMREGIONS", "getHorizontalDataRegions/getVerticalDataRegions folded for every region count map 1,2,4,16,36 to (1,1),(2,1),(2,2),(4,4),(6,6); GetSymbolWidth/Height folded on each literal row give the ISO symbol size", 10)
	want := map[int64][2]int64{1: {1, 1}, 2: {2, 1}, 4: {2, 2}, 16: {4, 4}, 36: {6, 6}}
	for ai, name := range []string{"getHorizontalDataRegions", "getVerticalDataRegions"} {
		fd, p := c.funcDeclOf("datamatrix/encoder", "SymbolInfo."+name)
		if fd == nil {
			r.AnchorLost("T-DMREGIONS", "datamatrix/encoder.SymbolInfo."+name, "method not found")
			continue
		}
		r.Analysed("datamatrix/encoder.SymbolInfo." + name)
		ro := recvObj(p, fd)
		for _, n := range []int64{1, 2, 4, 16, 36} {
			recv := &Val{K: VStruct, Fields: map[string]*Val{"dataRegions": vint(n)}}
			res, err := c.rpfCall(fd, p, nil, &rpf{env: map[types.Object]*Val{ro: recv}})
			key := fmt.Sprintf("datamatrix/encoder.SymbolInfo.%s(%d)", name, n)
			if err != nil {
				r.Undecided("T-DMREGIONS", key, c.pos(fd.Pos()), err.Error())
				continue
			}
			r.Check(len(res) == 1 && res[0].isInt() && res[0].I == want[n][ai], "T-DMREGIONS", key, c.pos(fd.Pos()), fmt.Sprintf("%d regions: %v, expected %d", n, res, want[n][ai]))
		}
	}
}

// the encoder's multi-block branch: block b is fed exactly codewords[b], codewords[b+n], ... and its check words
// land at capacity + b, capacity + b + n, ...
func checkDMBlockInterleave(c *Ctx, r *Report) {
	defer checkDMECCWhole(c, r) // the whole-function fold that decides when the matchers below do not recognise the code
	r.Rule("S-DMBLOCK", "in ErrorCorrection_EncodeECC200's multi-block branch every block's input to createECCBlock is a buffer created empty inside that block's iteration and extended only by append(buf, codewords[d]) for d = block, block+blockCount, ... < data capacity (so its length is that block's own data length, also for the 144x144 symbol whose last two blocks are one shorter), the check word count is the block's own error length, and check word k of a block is stored at dataCapacity + the block's column + k*blockCount (which column: S-DMECCORDER)", 3)
	fd, p := c.funcDeclOf("datamatrix/encoder", "ErrorCorrection_EncodeECC200")
	key := "datamatrix/encoder.ErrorCorrection_EncodeECC200"
	if fd == nil {
		r.AnchorLost("S-DMBLOCK", key, "function not found")
		return
	}
	r.Analysed(key)
	// the createECCBlock call inside a for loop
	var blockLoop *ast.ForStmt
	var call *ast.CallExpr
	ast.Inspect(fd.Body, func(n ast.Node) bool {
		if l, ok := n.(*ast.ForStmt); ok {
			for _, st := range l.Body.List {
				for _, cl := range findCalls(p, st, func(o types.Object) bool { return isFuncNamed(o, "datamatrix/encoder", "createECCBlock") }) {
					if _, nested := st.(*ast.ForStmt); !nested {
						blockLoop, call = l, cl
					}
				}
			}
		}
		return true
	})
	if blockLoop == nil {
		r.Fail("S-DMBLOCK", key+"/input", c.pos(fd.Pos()), "violation", "no per-block createECCBlock call inside a block loop")
		return
	}
	lrInit, okInit := blockLoop.Init.(*ast.AssignStmt)
	if !okInit || len(lrInit.Lhs) != 1 {
		r.Undecided("S-DMBLOCK", key+"/input", c.pos(blockLoop.Pos()), "block loop header not recognised")
		return
	}
	blockObj := identObj(p, lrInit.Lhs[0])
	var countObj types.Object
	if be, ok := ast.Unparen(blockLoop.Cond).(*ast.BinaryExpr); ok && be.Op == token.LSS && identObj(p, be.X) == blockObj {
		countObj = identObj(p, be.Y)
	}
	if countObj == nil {
		r.Undecided("S-DMBLOCK", key+"/input", c.pos(blockLoop.Pos()), "block loop bound is not `block < blockCount`")
		return
	}
	// ---- the input buffer
	bad := ""
	bufObj := identObj(p, call.Args[0])
	if bufObj == nil {
		bad = "the data handed to createECCBlock is not a plain buffer variable (a re-sliced shared buffer cannot be shown to have the block's own length)"
	} else {
		defined, extended := false, 0
		for _, st := range blockLoop.Body.List {
			if as, ok := st.(*ast.AssignStmt); ok && as.Tok == token.DEFINE && len(as.Lhs) == 1 && identObj(p, as.Lhs[0]) == bufObj {
				if mk, isC := as.Rhs[0].(*ast.CallExpr); isC {
					if id, isI := mk.Fun.(*ast.Ident); isI && id.Name == "make" && len(mk.Args) >= 2 {
						if z, isK := constInt(p, mk.Args[1]); isK && z == 0 {
							defined = true
						}
					}
				}
			}
		}
		if !defined {
			bad = "the block's input buffer is not created empty (make(..., 0, ...)) inside the block's own iteration: a buffer shared between blocks keeps the previous block's bytes when a block is shorter"
		}
		ast.Inspect(blockLoop.Body, func(n ast.Node) bool {
			as, ok := n.(*ast.AssignStmt)
			if !ok || bad != "" {
				return true
			}
			for i, l := range as.Lhs {
				touches := identObj(p, l) == bufObj
				if ix, isIx := l.(*ast.IndexExpr); isIx && identObj(p, ix.X) == bufObj {
					touches = true
				}
				if !touches || as.Tok == token.DEFINE {
					continue
				}
				ap, isC := as.Rhs[i].(*ast.CallExpr)
				okAppend := false
				if isC && isBuiltin(typeutil.Callee(p.TypesInfo, ap), "append") && len(ap.Args) == 2 && identObj(p, ap.Args[0]) == bufObj {
					if ix, isIx := ap.Args[1].(*ast.IndexExpr); isIx && identObj(p, ix.X) == paramObjs(p, fd)[0] {
						// inside `for d := block; d < X.GetDataCapacity(); d += blockCount`
						gi, _ := guardsOf(blockLoop.Body, as)
						for _, e := range gi.Enclosing {
							if l, isL := e.Node.(*ast.ForStmt); isL && interleaveHeader(p, l, blockObj, countObj, identObj(p, ix.Index)) {
								okAppend = true
							}
						}
					}
				}
				if okAppend {
					extended++
				} else {
					bad = c.pos(as.Pos()) + ": the block's input buffer is modified otherwise than by append(buf, codewords[d]) over d = block, block+blockCount, ... < data capacity"
				}
			}
			return true
		})
		if bad == "" && extended != 1 {
			bad = "the block's input buffer is never filled from the interleaved data codewords"
		}
	}
	r.Check(bad == "", "S-DMBLOCK", key+"/input", c.pos(call.Pos()), bad)
	// ---- the check word count
	okN := false
	if ix, isIx := ast.Unparen(call.Args[1]).(*ast.IndexExpr); isIx && identObj(p, ix.Index) == blockObj {
		// errorSizes[i] = symbolInfo.GetErrorLengthForInterleavedBlock(i + 1)
		arr := identObj(p, ix.X)
		ast.Inspect(fd.Body, func(n ast.Node) bool {
			if as, ok := n.(*ast.AssignStmt); ok && len(as.Lhs) == 1 {
				if lix, isL := as.Lhs[0].(*ast.IndexExpr); isL && identObj(p, lix.X) == arr {
					if cl, isC := as.Rhs[0].(*ast.CallExpr); isC {
						if fn, isF := typeutil.Callee(p.TypesInfo, cl).(*types.Func); isF && fn.Name() == "GetErrorLengthForInterleavedBlock" {
							okN = true
						}
					}
				}
			}
			return true
		})
	}
	r.Check(okN, "S-DMBLOCK", key+"/eccount", c.pos(call.Pos()), "the number of check words must be the block's own error length (errorSizes[block] from GetErrorLengthForInterleavedBlock)")
	// ---- placement of the check words
	s := c.newSymExec(p)
	s.pure = func(o types.Object) bool {
		fn, ok := o.(*types.Func)
		return ok && strings.HasPrefix(fn.Name(), "Get")
	}
	s.block(fd.Body.List)
	okPlace := false
	got := ""
	blockAtom := ""
	for _, st := range s.stores {
		if st.Loop != 2 || st.Field != "" {
			continue
		}
		ks := kAtoms(st.Index)
		got = prettyPoly(st.Index)
		if len(ks) != 2 {
			continue
		}
		// index = capacity + start(block) + Ke*blockCount ; value = ecc[Ke]. Which column start(block) is, is decided
		// by S-DMECCORDER against the decoder; here: the stride is the block count and the k-th check word is ecc[k]
		for _, ke := range ks {
			Ke := polyAtom(ke)
			cnt := s.atomFor(countObj)
			for _, cl := range s.calls {
				if fn, isF := cl.Callee.(*types.Func); isF && fn.Name() == "GetDataCapacity" && cl.Recv != nil {
					capA := polyAtom("call:" + shortObj(cl.Callee) + "(" + cl.Recv.String() + ")")
					start := st.Index.sub(capA).sub(Ke.mul(cnt))
					if !strings.Contains(start.String(), ke) && strings.HasSuffix(st.Val.String(), ","+ke+")") {
						okPlace = true
						blockAtom = ke
					}
				}
			}
		}
	}
	_ = blockAtom
	r.Check(okPlace, "S-DMBLOCK", key+"/placement", c.pos(blockLoop.Pos()), "check word k of a block must be stored at dataCapacity + <the block's column> + k*blockCount from ecc[k]; found index "+got)
}

// interleaveHeader: `for d := block; d < X.GetDataCapacity(); d += blockCount` with d the index used.
func interleaveHeader(p *packages.Package, l *ast.ForStmt, blockObj, countObj, idxObj types.Object) bool {
	in, ok := l.Init.(*ast.AssignStmt)
	if !ok || len(in.Lhs) != 1 || len(in.Rhs) != 1 {
		return false
	}
	d := identObj(p, in.Lhs[0])
	if d == nil || d != idxObj || identObj(p, in.Rhs[0]) != blockObj {
		return false
	}
	be, ok := ast.Unparen(l.Cond).(*ast.BinaryExpr)
	if !ok || be.Op != token.LSS || identObj(p, be.X) != d {
		return false
	}
	cl, ok := ast.Unparen(be.Y).(*ast.CallExpr)
	if !ok {
		return false
	}
	if fn, isF := typeutil.Callee(p.TypesInfo, cl).(*types.Func); !isF || fn.Name() != "GetDataCapacity" {
		return false
	}
	post, ok := l.Post.(*ast.AssignStmt)
	if !ok || post.Tok != token.ADD_ASSIGN || len(post.Lhs) != 1 || identObj(p, post.Lhs[0]) != d || identObj(p, post.Rhs[0]) != countObj {
		return false
	}
	return !assignedIn(p, l.Body, d)
}

// S-DMECCORDER: the column of the interleaved check-word stream a block's check words are written to is the column
// the decoder assigns to that block
func checkDMEccOrder(c *Ctx, r *Report) {
	r.Rule("S-DMECCORDER", "for every multi-block symbol size the column (position modulo the block count) at which ErrorCorrection_EncodeECC200 starts writing block b's check words is the column from which DataBlocks_getDataBlocks fills block b, and the row offset matches the block's data length: the interleaving continues round-robin after the data codewords, so in the 144x144 symbol (1558 = 155*10 + 8 data codewords) the check words start with block 8; encoder loop header and decoder offset statements are folded for every block of every size", 6)
	efd, ep := c.funcDeclOf("datamatrix/encoder", "ErrorCorrection_EncodeECC200")
	dfd, dp := c.funcDeclOf("datamatrix/decoder", "DataBlocks_getDataBlocks")
	if efd == nil || dfd == nil {
		r.AnchorLost("S-DMECCORDER", "datamatrix ECC interleave", "EncodeECC200 / getDataBlocks not found")
		return
	}
	// encoder: the loop that stores into sb[capacity + e]
	var eloop, blockLoop *ast.ForStmt
	ast.Inspect(efd.Body, func(n ast.Node) bool {
		if l, ok := n.(*ast.ForStmt); ok {
			for _, st := range l.Body.List {
				if as, isA := st.(*ast.AssignStmt); isA && len(as.Lhs) == 1 {
					if ix, isIx := as.Lhs[0].(*ast.IndexExpr); isIx && strings.Contains(exprString(ix.Index), "GetDataCapacity") {
						eloop = l
					}
				}
				if inner, isF := st.(*ast.ForStmt); isF && blockLoop == nil {
					_ = inner
				}
			}
		}
		return true
	})
	ast.Inspect(efd.Body, func(n ast.Node) bool {
		if l, ok := n.(*ast.ForStmt); ok && eloop != nil && l != eloop && containsNode(l, eloop) {
			blockLoop = l
		}
		return true
	})
	// decoder: the loop pair whose body stores into result[J].codewords[I] with J and I defined in that very body (the
	// offsets of the check-word pass); the variables are found by their roles, not by their names
	var dstmts []ast.Stmt
	var jObj, iObj, jOff, iOff, specialObj, nObj types.Object
	ast.Inspect(dfd.Body, func(n ast.Node) bool {
		outer, ok := n.(*ast.ForStmt)
		if !ok || dstmts != nil {
			return true
		}
		for _, st := range outer.Body.List {
			inner, isF := st.(*ast.ForStmt)
			if !isF {
				continue
			}
			defined := map[types.Object]bool{}
			for _, bst := range inner.Body.List {
				as, isA := bst.(*ast.AssignStmt)
				if !isA || len(as.Lhs) != 1 {
					continue
				}
				if id, isI := as.Lhs[0].(*ast.Ident); isI && as.Tok == token.DEFINE {
					defined[dp.TypesInfo.Defs[id]] = true
					continue
				}
				// result[J].codewords[I] = ...
				ixI, isIx := as.Lhs[0].(*ast.IndexExpr)
				if !isIx {
					continue
				}
				sel, isS := ixI.X.(*ast.SelectorExpr)
				if !isS {
					continue
				}
				ixJ, isIx2 := sel.X.(*ast.IndexExpr)
				if !isIx2 {
					continue
				}
				jo, io := identObj(dp, ixJ.Index), identObj(dp, ixI.Index)
				if jo != nil && io != nil && defined[jo] && defined[io] {
					dstmts, jOff, iOff = inner.Body.List, jo, io
					jl, jn := loopCondIdents(dp, inner)
					il, _ := loopCondIdents(dp, outer)
					jObj, nObj, iObj = jl, jn, il
				}
			}
		}
		return true
	})
	if eloop == nil || blockLoop == nil || dstmts == nil || jObj == nil {
		r.Undecided("S-DMECCORDER", "datamatrix ECC interleave", c.pos(efd.Pos()), "check-word loops of the encoder / offset statements of the decoder not recognised")
		return
	}
	// the 144x144 flag: the condition of the if statement that adjusts the offsets
	for _, st := range dstmts {
		if ifs, isIf := st.(*ast.IfStmt); isIf && ifs.Init == nil {
			specialObj = identObj(dp, ifs.Cond)
		}
	}
	if iObj == nil || jOff == nil || iOff == nil || specialObj == nil || nObj == nil {
		r.Undecided("S-DMECCORDER", "datamatrix ECC interleave", c.pos(dfd.Pos()), "decoder offset variables not found")
		return
	}
	blockObj := identObj(ep, blockLoop.Init.(*ast.AssignStmt).Lhs[0])
	eObj := identObj(ep, eloop.Init.(*ast.AssignStmt).Lhs[0])
	countObj := firstResultOfCall(ep, efd, func(o types.Object) bool {
		return isMethodNamed(o, "datamatrix/encoder", "SymbolInfo", "GetInterleavedBlockCount")
	})
	if blockObj == nil || eObj == nil || countObj == nil {
		r.Undecided("S-DMECCORDER", "datamatrix ECC interleave", c.pos(efd.Pos()), "encoder loop variables not found")
		return
	}
	for _, sz := range refDM {
		if sz.blocks < 2 {
			continue
		}
		key := fmt.Sprintf("datamatrix %dx%d (%d blocks)", sz.rows, sz.cols, sz.blocks)
		r.Analysed(key)
		n := int64(sz.blocks)
		capacity := int64(sz.data)
		special := sz.rows == 144
		longer := (capacity + n - 1) / n // data codewords of the longer blocks
		bad := ""
		for b := int64(0); b < n && bad == ""; b++ {
			// encoder: first position e of block b
			rr := &rpf{c: c, p: ep, env: map[types.Object]*Val{blockObj: vint(b), countObj: vint(n)}, callHook: func(x *rpf, call *ast.CallExpr, callee types.Object) (*Val, bool) {
				if fn, ok := callee.(*types.Func); ok && fn.Name() == "GetDataCapacity" {
					return vint(capacity), true
				}
				return nil, false
			}}
			var col int64 = -1
			func() {
				defer func() {
					if y := recover(); y != nil {
						if re, ok := y.(*rpfErr); ok {
							bad = "?encoder: " + re.Error()
							return
						}
						panic(y)
					}
				}()
				// integer temporaries of the block loop that precede the check-word loop (e.g. the start column)
				for _, st := range blockLoop.Body.List {
					if st == ast.Stmt(eloop) {
						break
					}
					if as, isA := st.(*ast.AssignStmt); isA && as.Tok == token.DEFINE && allIntRhs(ep, as) {
						func() {
							defer func() {
								if y := recover(); y != nil {
									if _, ok := y.(*rpfErr); !ok {
										panic(y)
									}
								}
							}()
							rr.stmt(as)
						}()
					}
				}
				rr.stmt(eloop.Init)
				col = rr.env[eObj].I
			}()
			if bad != "" {
				break
			}
			if col < 0 || col >= n {
				bad = fmt.Sprintf("block %d: the encoder starts its check words at position %d of the interleaved stream, not inside the first row of %d columns", b, col, n)
				break
			}
			// decoder: which block does column `col` of check-word row 0 go to, and at which index?
			dataLen := longer
			if capacity%n != 0 && b >= capacity%n {
				dataLen = longer - 1
			}
			denv := map[types.Object]*Val{jObj: vint(col), iObj: vint(longer), specialObj: vbool(special), nObj: vint(n)}
			dr := &rpf{c: c, p: dp, env: denv}
			func() {
				defer func() {
					if y := recover(); y != nil {
						if re, ok := y.(*rpfErr); ok {
							bad = "?decoder: " + re.Error()
							return
						}
						panic(y)
					}
				}()
				for _, st := range dstmts {
					switch st.(type) {
					case *ast.AssignStmt, *ast.IfStmt:
						if as, isA := st.(*ast.AssignStmt); isA && as.Tok != token.DEFINE {
							continue // the store into result[...] and the running offset
						}
						dr.stmtC(st)
					}
				}
			}()
			if bad != "" {
				break
			}
			gotBlock, gotIdx := denv[jOff].I, denv[iOff].I
			switch {
			case gotBlock != b:
				bad = fmt.Sprintf("block %d writes its check words at column %d of the interleaved stream, but the decoder hands that column to block %d: what the library writes for this size cannot be corrected by the library (the round-robin continues after the %d data codewords, so check words start with block %d)", b, col, gotBlock, capacity, capacity%n)
			case gotIdx != dataLen:
				bad = fmt.Sprintf("block %d has %d data codewords, but the decoder stores its first check word at index %d", b, dataLen, gotIdx)
			}
		}
		reportFold(r, c, "S-DMECCORDER", key, eloop.Pos(), bad)
	}
}

// S-DMFRAME: finder and clock tracks around every data region, data modules from the placement
func checkDMFrame(c *Ctx, r *Report) {
	r.Rule("S-DMFRAME", "encodeLowLevel, folded for each of the 30 symbol sizes on the reference geometry, draws every data region's frame as ISO 16022 prescribes - solid dark left column and bottom row, alternating top row (dark on even columns) and right column (dark on even data rows, light top-right corner) - and fills data module (x, y) of the mapping matrix into its region at the right offset; every module of the symbol is written", 30)
	fd, p := c.funcDeclOf("datamatrix", "encodeLowLevel")
	if fd == nil {
		r.AnchorLost("S-DMFRAME", "datamatrix.encodeLowLevel", "function not found")
		return
	}
	for _, sz := range refDM {
		key := fmt.Sprintf("datamatrix.encodeLowLevel %dx%d", sz.rows, sz.cols)
		r.Analysed(key)
		W, H := int64(sz.cols), int64(sz.rows)
		rw, rh := int64(sz.regCols), int64(sz.regRows)
		dataW, dataH := rw*int64(sz.hRegions), rh*int64(sz.vRegions)
		got := map[[2]int64]bool{}
		bit := func(x, y int64) bool { return (x*7+y*13+x*y)%3 == 0 }
		h := &rpf{unroll: 1000000, maxSteps: 8000000}
		h.callHook = func(rr *rpf, call *ast.CallExpr, callee types.Object) (*Val, bool) {
			fn, ok := callee.(*types.Func)
			if !ok {
				return nil, false
			}
			switch fn.Name() {
			case "GetSymbolDataWidth":
				return vint(dataW), true
			case "GetSymbolDataHeight":
				return vint(dataH), true
			case "GetSymbolWidth":
				return vint(W), true
			case "GetSymbolHeight":
				return vint(H), true
			case "GetMatrixWidth":
				return vint(rw), true
			case "GetMatrixHeight":
				return vint(rh), true
			case "NewByteMatrix":
				a, b := rr.expr(call.Args[0]), rr.expr(call.Args[1])
				if a.K != VInt || b.K != VInt || a.I != W || b.I != H {
					rpfFail("the module matrix is created %vx%v, the symbol is %dx%d", a, b, W, H)
				}
				return &Val{K: VNil}, true
			case "SetBool":
				x, y, v := rr.expr(call.Args[0]), rr.expr(call.Args[1]), rr.expr(call.Args[2])
				if x.K != VInt || y.K != VInt || v.K != VBool || x.I < 0 || y.I < 0 || x.I >= W || y.I >= H {
					rpfFail("SetBool(%v, %v) outside the %dx%d symbol", x, y, W, H)
				}
				got[[2]int64{x.I, y.I}] = v.B
				return &Val{K: VNil}, true
			case "GetBit":
				x, y := rr.expr(call.Args[0]), rr.expr(call.Args[1])
				if x.K != VInt || y.K != VInt || x.I < 0 || y.I < 0 || x.I >= dataW || y.I >= dataH {
					rpfFail("GetBit(%v, %v) outside the %dx%d mapping matrix", x, y, dataW, dataH)
				}
				return vbool(bit(x.I, y.I)), true
			case "convertByteMatrixToBitMatrix":
				return &Val{K: VNil}, true
			}
			return nil, false
		}
		_, err := c.rpfCall(fd, p, []*Val{{K: VNil}, {K: VNil}, vint(0), vint(0)}, h)
		pos := c.pos(fd.Pos())
		if err != nil {
			r.Undecided("S-DMFRAME", key, pos, err.Error())
			continue
		}
		bad := ""
		for Y := int64(0); Y < H && bad == ""; Y++ {
			for X := int64(0); X < W; X++ {
				bxI, bx := X/(rw+2), X%(rw+2)
				byI, by := Y/(rh+2), Y%(rh+2)
				var want bool
				what := ""
				switch {
				case bx == 0:
					want, what = true, "left finder column"
				case by == rh+1:
					want, what = true, "bottom finder row"
				case by == 0:
					want, what = bx%2 == 0, "top clock track"
				case bx == rw+1:
					want, what = (by-1)%2 == 0, "right clock track"
				default:
					want, what = bit(bxI*rw+bx-1, byI*rh+by-1), fmt.Sprintf("data module (%d,%d) of the mapping matrix", bxI*rw+bx-1, byI*rh+by-1)
				}
				g, written := got[[2]int64{X, Y}]
				if !written {
					bad = fmt.Sprintf("module (%d,%d) (%s) is never written", X, Y, what)
					break
				}
				if g != want {
					bad = fmt.Sprintf("module (%d,%d) is %s, but it belongs to the %s and must be %s", X, Y, darkLight(g), what, darkLight(want))
					break
				}
			}
		}
		r.Check(bad == "", "S-DMFRAME", key, pos, bad)
	}
}

func darkLight(b bool) string {
	if b {
		return "dark"
	}
	return "light"
}

// S-DMDEINT: the decoder's de-interleaving against ISO 16022 (incl. the 144x144 symbol)
func checkDMDeinterleave(c *Ctx, r *Report) {
	r.Rule("S-DMDEINT", "DataBlocks_getDataBlocks, folded for each of the 30 symbol sizes on a stream of tagged codewords (codeword p of the symbol carries tag p), hands block b exactly the codewords ISO 16022 assigns to it, in order: stream position p belongs to block p mod B throughout - the round-robin continues from the data into the check codewords, which only matters for 144x144, whose 1558 data codewords leave it at block 8 - and every block is given its own data length", 30)
	fd, p := c.funcDeclOf("datamatrix/decoder", "DataBlocks_getDataBlocks")
	nv, _ := c.lookupObj("datamatrix/decoder", "NewVersion").(*types.Func)
	nfd := c.funcDecl[nv]
	if fd == nil || nfd == nil {
		r.AnchorLost("S-DMDEINT", "datamatrix/decoder.DataBlocks_getDataBlocks", "function or NewVersion not found")
		return
	}
	init, ip := c.varInit("datamatrix/decoder", "versions")
	if init == nil {
		r.AnchorLost("S-DMDEINT", "datamatrix/decoder.versions", "table not found")
		return
	}
	tv := c.eval(ip, init)
	for _, ref := range refDM {
		key := fmt.Sprintf("datamatrix/decoder.DataBlocks_getDataBlocks %dx%d", ref.rows, ref.cols)
		r.Analysed(key)
		pos := c.pos(fd.Pos())
		var ver *Val
		if tv.K == VList {
			for _, e := range tv.L {
				if e.K == VCall && e.Fn == nv && len(e.L) == 6 && e.L[1].isInt() && e.L[2].isInt() && int(e.L[1].I) == ref.rows && int(e.L[2].I) == ref.cols {
					if res, err := c.rpfCall(nfd, c.declPkg[nfd], e.L, nil); err == nil && len(res) == 1 && res[0].K == VStruct {
						ver = res[0]
					}
				}
			}
		}
		if ver == nil {
			r.Undecided("S-DMDEINT", key, pos, "no foldable versions entry for this size")
			continue
		}
		B := ref.blocks
		total := ref.data + ref.ec
		dataLen := make([]int, B)
		want := make([][]int64, B)
		for b := 0; b < B; b++ {
			dataLen[b] = ref.data / B
			if b < ref.data%B {
				dataLen[b]++
			}
		}
		for q := 0; q < total; q++ {
			want[q%B] = append(want[q%B], int64(q))
		}
		raw := &Val{K: VList}
		for q := 0; q < total; q++ {
			raw.L = append(raw.L, vint(int64(q)))
		}
		h := &rpf{unroll: 100000, maxSteps: 3000000}
		h.callHook = errCtorHook
		res, err := c.rpfCall(fd, p, []*Val{raw, ver}, h)
		if err != nil {
			r.Undecided("S-DMDEINT", key, pos, err.Error())
			continue
		}
		if len(res) != 2 || res[1].K != VNil || res[0].K != VList || len(res[0].L) != B {
			r.Fail("S-DMDEINT", key, pos, "violation", fmt.Sprintf("DataBlocks_getDataBlocks does not return the %d blocks of this size for a stream of %d codewords", B, total))
			continue
		}
		bad := ""
		for b := 0; b < B && bad == ""; b++ {
			blk := res[0].L[b]
			if blk.K != VStruct || blk.Fields["codewords"] == nil || blk.Fields["numDataCodewords"] == nil || !blk.Fields["numDataCodewords"].isInt() {
				bad = "?block value not recognised"
				break
			}
			if blk.Fields["numDataCodewords"].I != int64(dataLen[b]) {
				bad = fmt.Sprintf("block %d is given %d data codewords, ISO 16022 gives it %d", b, blk.Fields["numDataCodewords"].I, dataLen[b])
				break
			}
			got, ok := listInts(blk.Fields["codewords"])
			if !ok {
				bad = fmt.Sprintf("?block %d holds codewords that were never assigned from the stream", b)
				break
			}
			if fmt.Sprint(got) != fmt.Sprint(want[b]) {
				at := 0
				for at < len(got) && at < len(want[b]) && got[at] == want[b][at] {
					at++
				}
				g, w := "nothing", "nothing"
				if at < len(got) {
					g = fmt.Sprintf("stream codeword %d", got[at])
				}
				if at < len(want[b]) {
					w = fmt.Sprintf("stream codeword %d", want[b][at])
				}
				bad = fmt.Sprintf("block %d receives %d codewords (ISO: %d) and codeword %d of the block is %s, ISO 16022 puts %s there", b, len(got), len(want[b]), at, g, w)
			}
		}
		if strings.HasPrefix(bad, "?") {
			r.Undecided("S-DMDEINT", key, pos, bad[1:])
			continue
		}
		r.Check(bad == "", "S-DMDEINT", key, pos, bad)
	}
}

// ---------------------------------------------------------------------------------------------------------------
// S-DMSWEEP: the Annex F sweep as a whole, encoder and decoder, for all 30 mapping matrices
// ---------------------------------------------------------------------------------------------------------------

type dmCell struct {
	pos, bit int // codeword index (0-based) and bit number 1..8 (1 = most significant); pos -1: fixed pattern
	fixed    bool
	set      bool
}

// refDMPlacement is ISO 16022 Annex F.3 written out: the mapping matrix of nrow x ncol modules.
func refDMPlacement(nrow, ncol int) [][]dmCell {
	arr := make([][]dmCell, nrow)
	for i := range arr {
		arr[i] = make([]dmCell, ncol)
	}
	module := func(row, col, chr, bit int) {
		if row < 0 {
			row += nrow
			col += 4 - ((nrow + 4) % 8)
		}
		if col < 0 {
			col += ncol
			row += 4 - ((ncol + 4) % 8)
		}
		arr[row][col] = dmCell{pos: chr, bit: bit, set: true}
	}
	utah := func(row, col, chr int) {
		module(row-2, col-2, chr, 1)
		module(row-2, col-1, chr, 2)
		module(row-1, col-2, chr, 3)
		module(row-1, col-1, chr, 4)
		module(row-1, col, chr, 5)
		module(row, col-2, chr, 6)
		module(row, col-1, chr, 7)
		module(row, col, chr, 8)
	}
	corner := func(cells [8][2]int, chr int) {
		for i, rc := range cells {
			module(rc[0], rc[1], chr, i+1)
		}
	}
	chr, row, col := 0, 4, 0
	for {
		if row == nrow && col == 0 {
			corner([8][2]int{{nrow - 1, 0}, {nrow - 1, 1}, {nrow - 1, 2}, {0, ncol - 2}, {0, ncol - 1}, {1, ncol - 1}, {2, ncol - 1}, {3, ncol - 1}}, chr)
			chr++
		}
		if row == nrow-2 && col == 0 && ncol%4 != 0 {
			corner([8][2]int{{nrow - 3, 0}, {nrow - 2, 0}, {nrow - 1, 0}, {0, ncol - 4}, {0, ncol - 3}, {0, ncol - 2}, {0, ncol - 1}, {1, ncol - 1}}, chr)
			chr++
		}
		if row == nrow-2 && col == 0 && ncol%8 == 4 {
			corner([8][2]int{{nrow - 3, 0}, {nrow - 2, 0}, {nrow - 1, 0}, {0, ncol - 2}, {0, ncol - 1}, {1, ncol - 1}, {2, ncol - 1}, {3, ncol - 1}}, chr)
			chr++
		}
		if row == nrow+4 && col == 2 && ncol%8 == 0 {
			corner([8][2]int{{nrow - 1, 0}, {nrow - 1, ncol - 1}, {0, ncol - 3}, {0, ncol - 2}, {0, ncol - 1}, {1, ncol - 3}, {1, ncol - 2}, {1, ncol - 1}}, chr)
			chr++
		}
		for {
			if row < nrow && col >= 0 && !arr[row][col].set {
				utah(row, col, chr)
				chr++
			}
			row -= 2
			col += 2
			if !(row >= 0 && col < ncol) {
				break
			}
		}
		row++
		col += 3
		for {
			if row >= 0 && col < ncol && !arr[row][col].set {
				utah(row, col, chr)
				chr++
			}
			row += 2
			col -= 2
			if !(row < nrow && col >= 0) {
				break
			}
		}
		row += 3
		col++
		if !(row < nrow || col < ncol) {
			break
		}
	}
	if !arr[nrow-1][ncol-1].set {
		arr[nrow-1][ncol-1] = dmCell{pos: -1, fixed: true, set: true}
		arr[nrow-2][ncol-2] = dmCell{pos: -1, fixed: true, set: true}
	}
	return arr
}

func checkDMSweep(c *Ctx, r *Report) {
	r.DecidedBy("S-PLACE", "S-DMSWEEP", "Place and readCodewords folded as a whole for all 30 mapping matrices against Annex F: every shape, trigger and wrap-around the placement uses")
	r.Rule("S-DMSWEEP", "the Annex F sweep as a whole: DefaultPlacement.Place, folded from source for each of the 30 mapping matrices with setBit / hasBit on a recording model, assigns every module the codeword and bit number that ISO 16022 Annex F.3 (written out independently in the checker) assigns it, including the fixed corner pattern, and uses each codeword of the symbol exactly once; BitMatrixParser.readCodewords, folded on a mapping matrix whose module (row, col) shows the bit of a known codeword value, returns every codeword in order and exactly the symbol's number of them", 60)
	efd, ep := c.funcDeclOf("datamatrix/encoder", "DefaultPlacement.Place")
	dfd, dp := c.funcDeclOf("datamatrix/decoder", "BitMatrixParser.readCodewords")
	if efd == nil || dfd == nil {
		r.AnchorLost("S-DMSWEEP", "datamatrix placement", "DefaultPlacement.Place / BitMatrixParser.readCodewords not found")
		return
	}
	for _, sz := range refDM {
		nrow, ncol := sz.regRows*sz.vRegions, sz.regCols*sz.hRegions
		total := sz.data + sz.ec
		ref := refDMPlacement(nrow, ncol)
		// ---------------- encoder
		key := fmt.Sprintf("datamatrix/encoder.DefaultPlacement.Place %dx%d", sz.rows, sz.cols)
		r.Analysed(key)
		got := make([][]dmCell, nrow)
		for i := range got {
			got[i] = make([]dmCell, ncol)
		}
		lastPos, lastBit := -1, -1
		cws := &Val{K: VList}
		for i := 0; i < total; i++ {
			cws.L = append(cws.L, &Val{K: VInt, I: 0, T: types.Typ[types.Byte]})
		}
		recv := &Val{K: VStruct, Ptr: true, Local: true, Fields: map[string]*Val{"numrows": vint(int64(nrow)), "numcols": vint(int64(ncol)), "codewords": cws, "bits": {K: VList}}}
		inRange := func(col, row *Val) bool {
			return col.K == VInt && row.K == VInt && col.I >= 0 && row.I >= 0 && col.I < int64(ncol) && row.I < int64(nrow)
		}
		h := &rpf{unroll: 1000000, maxSteps: 20000000, effectCalls: true, env: map[types.Object]*Val{}}
		h.env[recvObj(ep, efd)] = recv
		h.callHook = func(rr *rpf, call *ast.CallExpr, callee types.Object) (*Val, bool) {
			fn, ok := callee.(*types.Func)
			if !ok {
				return nil, false
			}
			switch fn.Name() {
			case "module":
				ps, bt := rr.expr(call.Args[2]), rr.expr(call.Args[3])
				if ps.K != VInt || bt.K != VInt {
					rpfFail("module called with a non-constant codeword / bit number")
				}
				lastPos, lastBit = int(ps.I), int(bt.I)
				return nil, false // the body (wrap-around, codeword access) is folded as written
			case "setBit":
				col, row := rr.expr(call.Args[0]), rr.expr(call.Args[1])
				if !inRange(col, row) {
					rpfFail("setBit(%v, %v) outside the %dx%d mapping matrix", col, row, nrow, ncol)
				}
				cell := dmCell{pos: lastPos, bit: lastBit, set: true}
				if lastPos < 0 {
					v := rr.expr(call.Args[2])
					cell = dmCell{pos: -1, fixed: v.K == VBool && v.B, set: true}
				}
				got[row.I][col.I] = cell
				lastPos, lastBit = -1, -1
				return &Val{K: VNil}, true
			case "hasBit", "noBit":
				col, row := rr.expr(call.Args[0]), rr.expr(call.Args[1])
				if !inRange(col, row) {
					rpfFail("%s(%v, %v) outside the %dx%d mapping matrix", fn.Name(), col, row, nrow, ncol)
				}
				return vbool(got[row.I][col.I].set == (fn.Name() == "hasBit")), true
			}
			return nil, false
		}
		_, err := c.rpfCall(efd, ep, nil, h)
		pos := c.pos(efd.Pos())
		if err != nil {
			r.Undecided("S-DMSWEEP", key, pos, err.Error())
		} else {
			bad := ""
			used := map[int]int{}
			for y := 0; y < nrow && bad == ""; y++ {
				for x := 0; x < ncol; x++ {
					g, w := got[y][x], ref[y][x]
					if g.set && g.pos >= 0 {
						used[g.pos]++
					}
					if g != w {
						bad = fmt.Sprintf("module (row %d, col %d) of the %dx%d mapping matrix: %s, Annex F: %s", y, x, nrow, ncol, g.describe(), w.describe())
						break
					}
				}
			}
			for k := 0; k < total && bad == ""; k++ {
				if used[k] != 8 {
					bad = fmt.Sprintf("codeword %d of %d occupies %d modules", k, total, used[k])
				}
			}
			r.Check(bad == "", "S-DMSWEEP", key, pos, bad)
		}
		// ---------------- decoder
		dkey := fmt.Sprintf("datamatrix/decoder.BitMatrixParser.readCodewords %dx%d", sz.rows, sz.cols)
		r.Analysed(dkey)
		dbad := ""
		for pass := 0; pass < 2 && dbad == ""; pass++ {
			val := func(k int) int {
				if pass == 0 {
					return k % 256
				}
				return (k / 256) ^ 0x5A
			}
			visited := map[[2]int64]bool{}
			dh := &rpf{unroll: 1000000, maxSteps: 20000000, effectCalls: true, env: map[types.Object]*Val{}}
			precv := &Val{K: VStruct, Ptr: true, Fields: map[string]*Val{
				"mappingBitMatrix":  {K: VStruct, Ptr: true, Fields: map[string]*Val{}},
				"readMappingMatrix": {K: VStruct, Ptr: true, Fields: map[string]*Val{}},
				"version":           {K: VStruct, Ptr: true, Fields: map[string]*Val{"totalCodewords": vint(int64(total))}},
			}}
			dh.env[recvObj(dp, dfd)] = precv
			dh.callHook = func(rr *rpf, call *ast.CallExpr, callee types.Object) (*Val, bool) {
				which := ""
				if sel, ok := call.Fun.(*ast.SelectorExpr); ok {
					if inner, ok := sel.X.(*ast.SelectorExpr); ok {
						which = inner.Sel.Name
					}
				}
				if which != "mappingBitMatrix" && which != "readMappingMatrix" {
					return errCtorHook(rr, call, callee)
				}
				fn, _ := callee.(*types.Func)
				if fn == nil {
					return nil, false
				}
				switch fn.Name() {
				case "GetHeight":
					return vint(int64(nrow)), true
				case "GetWidth":
					return vint(int64(ncol)), true
				case "Get", "Set":
					col, row := rr.expr(call.Args[0]), rr.expr(call.Args[1])
					if !inRange(col, row) {
						rpfFail("%s.%s(%v, %v) outside the %dx%d mapping matrix", which, fn.Name(), col, row, nrow, ncol)
					}
					k := [2]int64{row.I, col.I}
					if fn.Name() == "Set" {
						visited[k] = true
						return &Val{K: VNil}, true
					}
					if which == "readMappingMatrix" {
						return vbool(visited[k]), true
					}
					cell := ref[row.I][col.I]
					if cell.pos < 0 {
						return vbool(cell.fixed), true
					}
					return vbool(val(cell.pos)>>uint(8-cell.bit)&1 == 1), true
				}
				return nil, false
			}
			res, err := c.rpfCall(dfd, dp, nil, dh)
			if err != nil {
				dbad = "?" + err.Error()
				break
			}
			if len(res) != 2 || res[1].K != VNil || res[0].K != VList {
				dbad = fmt.Sprintf("readCodewords reports an error on a well-formed %dx%d mapping matrix", nrow, ncol)
				break
			}
			ws, ok := listInts(res[0])
			if !ok || len(ws) != total {
				dbad = fmt.Sprintf("readCodewords returns %d codewords, the symbol has %d", len(ws), total)
				break
			}
			for k, w := range ws {
				if int(w) != val(k) {
					dbad = fmt.Sprintf("codeword %d of the %dx%d symbol is read as %d from a matrix that shows %d there (the modules of some other codeword were read)", k, sz.rows, sz.cols, w, val(k))
					break
				}
			}
		}
		reportFold(r, c, "S-DMSWEEP", dkey, dfd.Pos(), dbad)
	}
}

func (d dmCell) describe() string {
	switch {
	case !d.set:
		return "never assigned"
	case d.pos < 0:
		return "fixed pattern, " + darkLight(d.fixed)
	}
	return fmt.Sprintf("bit %d of codeword %d", d.bit, d.pos)
}

// S-DMECC: the Data Matrix encoder's own Reed-Solomon arithmetic
func checkDMECCBlock(c *Ctx, r *Report) {
	r.Rule("S-DMECC", "the Data Matrix encoder's Reed-Solomon arithmetic, folded from source: the package initialiser fills alog[i] = 2^i and log as its inverse over GF(256)/0x12D; createECCBlock, folded with these tables and the factor tables for each of the 16 parity lengths on the empty word, one-byte words and longer words, returns exactly the remainder of x^n d(x) by the generator with roots 2^1..2^n, most significant first (the row of the factor table is the one of that length, also for the first and the last length), and refuses a length that is not in the table", 17)
	p := c.pkg("datamatrix/encoder")
	fd, fp := c.funcDeclOf("datamatrix/encoder", "createECCBlock")
	logObj, alogObj := c.lookupObj("datamatrix/encoder", "log"), c.lookupObj("datamatrix/encoder", "alog")
	if p == nil || fd == nil || logObj == nil || alogObj == nil {
		r.AnchorLost("S-DMECC", "datamatrix/encoder.createECCBlock", "createECCBlock / log / alog not found")
		return
	}
	var initFd *ast.FuncDecl
	for _, f := range p.Syntax {
		for _, d := range f.Decls {
			if x, ok := d.(*ast.FuncDecl); ok && x.Recv == nil && x.Name.Name == "init" && x.Body != nil && usesIdent(p, x.Body, logObj) {
				initFd = x
			}
		}
	}
	key := "datamatrix/encoder.init (log / alog)"
	r.Analysed(key)
	if initFd == nil {
		r.AnchorLost("S-DMECC", key, "no initialiser that fills log")
		return
	}
	dm := newRefGF(0x12D, 256, 1)
	h := &rpf{unroll: 100000, maxSteps: 200000, writeBack: true, env: map[types.Object]*Val{logObj: {K: VNil}, alogObj: {K: VNil}}}
	_, err := c.rpfCall(initFd, p, nil, h)
	bad := ""
	var logV, alogV *Val
	if err != nil {
		bad = "?" + err.Error()
	} else {
		logV, alogV = h.env[logObj], h.env[alogObj]
		lg, ok1 := listInts(logV)
		al, ok2 := listInts(alogV)
		switch {
		case !ok1 || !ok2 || len(lg) != 256 || len(al) < 255:
			bad = fmt.Sprintf("?log / alog do not fold to tables of 256 and 255 constants (%d, %d)", len(lg), len(al))
		default:
			for i := 0; i < 255 && bad == ""; i++ {
				if int(al[i]) != dm.exp[i] {
					bad = fmt.Sprintf("alog[%d] = %d, 2^%d over GF(256)/0x12D is %d", i, al[i], i, dm.exp[i])
				}
			}
			for v := 1; v < 256 && bad == ""; v++ {
				if int(lg[v]) != dm.log[v] {
					bad = fmt.Sprintf("log[%d] = %d, expected %d", v, lg[v], dm.log[v])
				}
			}
		}
	}
	reportFold(r, c, "S-DMECC", key, initFd.Pos(), bad)
	if bad != "" {
		return
	}
	globals := map[types.Object]*Val{logObj: logV, alogObj: alogV}
	words := [][]int{{}, {1}, {255}, {142, 50, 46}, {129, 0, 0, 77, 200, 1, 254, 3, 99}}
	for _, n := range []int{5, 7, 10, 11, 12, 14, 18, 20, 24, 28, 36, 42, 48, 56, 62, 68} {
		key := fmt.Sprintf("datamatrix/encoder.createECCBlock(n=%d)", n)
		r.Analysed(key)
		bad := ""
		for _, w := range words {
			hh := &rpf{unroll: 100000, maxSteps: 2000000, callHook: errCtorHook}
			res, err := c.rpfCallWithGlobals(fd, fp, []*Val{localInts(w), vint(int64(n))}, hh, globals)
			if err != nil {
				bad = "?" + err.Error()
				break
			}
			if len(res) != 2 || res[1].K != VNil {
				bad = fmt.Sprintf("createECCBlock(%v, %d) reports an error: %d is an ECC 200 parity length", w, n, n)
				break
			}
			got, ok := listInts(res[0])
			if !ok {
				bad = "?the check words are not constants"
				break
			}
			want := dm.parity(w, n)
			if fmt.Sprint(got) != fmt.Sprint(want) {
				bad = fmt.Sprintf("createECCBlock(%v, %d) = %v, the Reed-Solomon check words over GF(256)/0x12D are %v", w, n, got, want)
				break
			}
		}
		reportFold(r, c, "S-DMECC", key, fd.Pos(), bad)
	}
	// a length outside the table
	key = "datamatrix/encoder.createECCBlock(n=6)"
	r.Analysed(key)
	hh := &rpf{unroll: 100000, maxSteps: 2000000, callHook: errCtorHook}
	res, err := c.rpfCallWithGlobals(fd, fp, []*Val{localInts([]int{1, 2}), vint(6)}, hh, globals)
	bad = ""
	if err != nil {
		bad = "?" + err.Error()
	} else if len(res) != 2 || res[1].K == VNil {
		bad = "createECCBlock(…, 6) does not report an error: 6 is not an ECC 200 parity length"
	}
	reportFold(r, c, "S-DMECC", key, fd.Pos(), bad)
}

// dmFoldedTables folds the encoder package's initialiser for log / alog (as S-DMECC does) and returns them as modelled
// package variables for further folds.
func dmFoldedTables(c *Ctx) (map[types.Object]*Val, string) {
	p := c.pkg("datamatrix/encoder")
	logObj, alogObj := c.lookupObj("datamatrix/encoder", "log"), c.lookupObj("datamatrix/encoder", "alog")
	if p == nil || logObj == nil || alogObj == nil {
		return nil, "log / alog not found"
	}
	for _, f := range p.Syntax {
		for _, d := range f.Decls {
			if x, ok := d.(*ast.FuncDecl); ok && x.Recv == nil && x.Name.Name == "init" && x.Body != nil && usesIdent(p, x.Body, logObj) {
				h := &rpf{unroll: 100000, maxSteps: 200000, writeBack: true, env: map[types.Object]*Val{logObj: {K: VNil}, alogObj: {K: VNil}}}
				if _, err := c.rpfCall(x, p, nil, h); err != nil {
					return nil, err.Error()
				}
				return map[types.Object]*Val{logObj: h.env[logObj], alogObj: h.env[alogObj]}, ""
			}
		}
	}
	return nil, "no initialiser that fills log"
}

// S-DMECCWHOLE: ErrorCorrection_EncodeECC200 as a whole, for every symbol size
func checkDMECCWhole(c *Ctx, r *Report) {
	r.Rule("S-DMECCWHOLE", "ErrorCorrection_EncodeECC200, folded from source for each of the 30 symbol sizes - the rows of the symbols table built by folding its own initialiser, the 144x144 block functions included - on a full vector of data codewords: the result is the data followed by the check words, where block b is fed the codewords b, b+n, b+2n, ... and check word k of the block of the column (capacity + p) mod n stands at capacity + p (the interleaving continues round-robin after the data, also for 144x144), each block's check words being the Reed-Solomon remainder over GF(256)/0x12D of that block's own data", 30)
	fd, p := c.funcDeclOf("datamatrix/encoder", "ErrorCorrection_EncodeECC200")
	init, ip := c.varInit("datamatrix/encoder", "symbols")
	if fd == nil || init == nil {
		r.AnchorLost("S-DMECCWHOLE", "datamatrix/encoder.ErrorCorrection_EncodeECC200", "function / symbols table not found")
		return
	}
	globals, gerr := dmFoldedTables(c)
	if gerr != "" {
		r.Undecided("S-DMECCWHOLE", "datamatrix/encoder.ErrorCorrection_EncodeECC200", c.pos(fd.Pos()), gerr)
		return
	}
	tbl, err := c.rpfExpr(ip, init, map[types.Object]*Val{}, &rpf{callHook: errCtorHook})
	if err != nil || tbl == nil || tbl.K != VList || len(tbl.L) < 30 {
		r.Undecided("S-DMECCWHOLE", "datamatrix/encoder.symbols", c.pos(init.Pos()), fmt.Sprintf("the symbols table does not fold to its rows (%v)", err))
		return
	}
	dm := newRefGF(0x12D, 256, 1)
	for _, row := range tbl.L {
		if row.K != VStruct || row.Fields["dataCapacity"] == nil || row.Fields["errorCodewords"] == nil {
			r.Undecided("S-DMECCWHOLE", "datamatrix/encoder.symbols", c.pos(init.Pos()), "a row of the symbols table is not a SymbolInfo value")
			return
		}
		dataCap, ecTotal := int(row.Fields["dataCapacity"].I), int(row.Fields["errorCodewords"].I)
		key := fmt.Sprintf("datamatrix/encoder.ErrorCorrection_EncodeECC200 whole (%d data, %d check codewords, regions %v x %v)", dataCap, ecTotal, valString(row.Fields["matrixWidth"]), valString(row.Fields["matrixHeight"]))
		r.Analysed(key)
		data := make([]int, dataCap)
		for i := range data {
			data[i] = (i*37 + i/7 + 11) % 256
		}
		// the block structure of ISO 16022 Table 7, from the row's own numbers (checked against the standard by T-DMSYM)
		n := 1
		if rs := row.Fields["rsBlockData"]; rs != nil && rs.isInt() && rs.I > 0 {
			n = dataCap / int(rs.I)
		} else {
			n = 10 // 144x144
		}
		if n < 1 || ecTotal%n != 0 {
			reportFold(r, c, "S-DMECCWHOLE", key, fd.Pos(), "?block count not derivable from the row")
			continue
		}
		ecPer := ecTotal / n
		blocks := make([][]int, n)
		for i, v := range data {
			blocks[i%n] = append(blocks[i%n], v)
		}
		want := append([]int{}, data...)
		eccs := make([][]int, n)
		for b := range blocks {
			eccs[b] = dm.parity(blocks[b], ecPer)
		}
		for q := 0; q < ecTotal; q++ {
			want = append(want, eccs[(dataCap+q)%n][q/n])
		}
		h := &rpf{unroll: 1000000, maxSteps: 60000000, callHook: errCtorHook}
		res, err := c.rpfCallWithGlobals(fd, p, []*Val{localInts(data), row}, h, globals)
		bad := ""
		switch {
		case err != nil && strings.Contains(err.Error(), "out of range"):
			bad = err.Error() + " - a run-time panic"
		case err != nil:
			bad = "?" + err.Error()
		case len(res) != 2 || res[1].K != VNil:
			bad = "a full vector of data codewords is refused"
		default:
			got, ok := listInts(res[0])
			if !ok || len(got) != len(want) {
				bad = fmt.Sprintf("%d codewords are returned, the symbol has %d", len(got), len(want))
				break
			}
			for i := range want {
				if int(got[i]) != want[i] {
					if i < dataCap {
						bad = fmt.Sprintf("data codeword %d is changed", i)
					} else {
						q := i - dataCap
						bad = fmt.Sprintf("codeword %d (check word %d of the block in column %d of %d) is %d, the standard's interleaved Reed-Solomon gives %d", i, q/n, (dataCap+q)%n, n, got[i], want[i])
					}
					break
				}
			}
		}
		reportFold(r, c, "S-DMECCWHOLE", key, fd.Pos(), bad)
	}
	r.DecidedBy("S-DMBLOCK", "S-DMECCWHOLE", "the whole function folded for all 30 sizes against the standard's interleaved Reed-Solomon")
	checkDMDeinterleave(c, r) // the decoder's side of the agreement (also C05 / C02)
	r.DecidedBy("S-DMECCORDER", "S-DMECCWHOLE+S-DMDEINT", "encoder and decoder folded whole for all 30 sizes, each against the standard's interleaving: every check word's position")
}
